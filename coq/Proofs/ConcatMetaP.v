(* C19: lemmas about Model/ConcatMeta.v (the metadata merge of ConcatenatedDataSet.__init__) *)
From Coq Require Import ZArith List ListDec Bool Arith Lia Permutation Sorted String.
From KV Require Import Base.Sx Gen.Generated Model.Categorical Proofs.CategoricalConcatP Model.ConcatMeta.
Import ListNotations.
Open Scope Z_scope.

(* ------------------------------------------------------------------ 0. what the translator read *)
Lemma meta_constants_ok :
  concat_meta_ref_from_input_head = true /\
  concat_meta_joins = [("name", ","); ("url", " | "); ("version", ","); ("observer", ","); ("description", " | ");
                       ("experiment_id", ",")]%string /\
  concat_meta_dicts = ["obs_params"; "receivers"]%string /\ concat_meta_missing_value = ""%string /\
  concat_meta_one_value_iff_one_group = true /\ concat_start_is_min_end_is_max = true.
Proof. repeat split; reflexivity. Qed.

(* ------------------------------------------------------------------ 1. the chronological sort *)
Definition lt_m (a b : dmeta) : Prop := dm_start a < dm_start b.

Lemma insert_m_spec a : forall l s, StronglySorted lt_m l -> insert_m a l = Some s ->
  Permutation (a :: l) s /\ StronglySorted lt_m s.
Proof.
  induction l as [|b t IH]; intros s HS H; simpl in H.
  - inversion H; subst. split; [apply Permutation_refl|]. constructor; constructor.
  - destruct (dm_start a <? dm_start b) eqn:E1.
    + inversion H; subst. split; [apply Permutation_refl|].
      apply Z.ltb_lt in E1. constructor; [exact HS|].
      constructor; [exact E1|]. inversion HS as [|? ? _ HF]; subst.
      eapply Forall_impl; [|exact HF]. intros c Hc. unfold lt_m in *. lia.
    + destruct (dm_start a =? dm_start b) eqn:E2; [discriminate|].
      destruct (insert_m a t) as [s'|] eqn:E3; [|discriminate]. inversion H; subst.
      inversion HS as [|? ? HS' HF]; subst.
      destruct (IH s' HS' eq_refl) as [P S'].
      split.
      * eapply perm_trans; [apply perm_swap|]. apply perm_skip. exact P.
      * constructor; [exact S'|].
        apply Z.ltb_ge in E1. apply Z.eqb_neq in E2.
        eapply Permutation_Forall; [exact P|]. constructor; [unfold lt_m; lia|exact HF].
Qed.

Lemma insert_m_none a : forall l, StronglySorted lt_m l ->
  (insert_m a l = None <-> In (dm_start a) (map dm_start l)).
Proof.
  induction l as [|b t IH]; intros HS; simpl.
  - split; [discriminate|tauto].
  - inversion HS as [|? ? HS' HF]; subst.
    destruct (dm_start a <? dm_start b) eqn:E1.
    + apply Z.ltb_lt in E1. split; [discriminate|]. intros [H|H]; [lia|].
      apply in_map_iff in H. destruct H as [c [Hc Hin]]. rewrite Forall_forall in HF.
      specialize (HF c Hin). unfold lt_m in HF. lia.
    + destruct (dm_start a =? dm_start b) eqn:E2.
      * apply Z.eqb_eq in E2. split; auto.
      * apply Z.eqb_neq in E2. specialize (IH HS'). destruct (insert_m a t); simpl.
        -- split; [discriminate|]. intros [H|H]; [congruence|]. apply IH in H. discriminate.
        -- split; auto. intros _. right. apply IH. reflexivity.
Qed.

Lemma sort_metas_spec : forall l s, sort_metas l = Some s -> Permutation l s /\ StronglySorted lt_m s.
Proof.
  induction l as [|a t IH]; intros s H; simpl in H.
  - inversion H; subst. split; constructor.
  - destruct (sort_metas t) as [s'|] eqn:E; [|discriminate].
    destruct (IH s' eq_refl) as [P S']. destruct (insert_m_spec a s' s S' H) as [P2 S2].
    split; [|exact S2]. eapply perm_trans; [apply perm_skip; exact P|exact P2].
Qed.

Lemma sort_metas_none : forall l, sort_metas l = None <-> ~ NoDup (map dm_start l).
Proof.
  induction l as [|a t IH]; simpl.
  - split; [discriminate|]. intro H. exfalso. apply H. constructor.
  - destruct (sort_metas t) as [s'|] eqn:E.
    + destruct (sort_metas_spec t s' E) as [P S'].
      rewrite (insert_m_none a s' S').
      assert (ND : NoDup (map dm_start t)).
      { destruct (NoDup_dec Z.eq_dec (map dm_start t)) as [N|N]; [exact N|]. apply IH in N. discriminate. }
      split.
      * intros Hin N. inversion N as [|? ? Hn _]; subst. apply Hn.
        eapply Permutation_in; [apply Permutation_sym, Permutation_map; exact P|exact Hin].
      * intros N. destruct (in_dec Z.eq_dec (dm_start a) (map dm_start s')) as [Hin|Hin]; [exact Hin|].
        exfalso. apply N. constructor; [|exact ND]. intro H. apply Hin.
        eapply Permutation_in; [apply Permutation_map; exact P|exact H].
    + split; [intros _|reflexivity]. intro N. inversion N; subst. destruct IH as [I1 _]. specialize (I1 eq_refl). contradiction.
Qed.

Lemma sorted_perm_eq_m : forall s1 s2, StronglySorted lt_m s1 -> StronglySorted lt_m s2 ->
  Permutation s1 s2 -> s1 = s2.
Proof.
  induction s1 as [|a r1 IH]; intros s2 S1 S2 P.
  - apply Permutation_nil in P. subst. reflexivity.
  - destruct s2 as [|b r2]; [apply Permutation_sym, Permutation_nil in P; discriminate|].
    inversion S1 as [|? ? S1' F1]; subst. inversion S2 as [|? ? S2' F2]; subst.
    rewrite Forall_forall in F1, F2.
    assert (a = b).
    { assert (Ha : In a (b :: r2)) by (eapply Permutation_in; [exact P|left; reflexivity]).
      assert (Hb : In b (a :: r1)) by (eapply Permutation_in; [apply Permutation_sym; exact P|left; reflexivity]).
      destruct Ha as [Ha|Ha]; [congruence|]. destruct Hb as [Hb|Hb]; [congruence|].
      specialize (F1 b Hb). specialize (F2 a Ha). unfold lt_m in *. lia. }
    subst b. f_equal. apply IH; auto. eapply Permutation_cons_inv; exact P.
Qed.

Lemma sort_metas_perm : forall l l', Permutation l l' -> sort_metas l = sort_metas l'.
Proof.
  intros l l' P. destruct (sort_metas l) as [s|] eqn:E; destruct (sort_metas l') as [s'|] eqn:E'.
  - f_equal. destruct (sort_metas_spec _ _ E) as [P1 S1]. destruct (sort_metas_spec _ _ E') as [P2 S2].
    apply sorted_perm_eq_m; auto. eapply perm_trans; [apply Permutation_sym; exact P1|]. eapply perm_trans; [exact P|exact P2].
  - exfalso. apply sort_metas_none in E'. apply E'.
    eapply Permutation_NoDup; [apply Permutation_map; exact P|].
    destruct (NoDup_dec Z.eq_dec (map dm_start l)) as [N|N]; [exact N|]. apply sort_metas_none in N. congruence.
  - exfalso. apply sort_metas_none in E. apply E.
    eapply Permutation_NoDup; [apply Permutation_map, Permutation_sym; exact P|].
    destruct (NoDup_dec Z.eq_dec (map dm_start l')) as [N|N]; [exact N|]. apply sort_metas_none in N. congruence.
  - reflexivity.
Qed.

(* ------------------------------------------------------------------ 2. order (in)dependence *)
Lemma hd_nonempty {A} (d d' : A) l : l <> [] -> hd d l = hd d' l.
Proof. destruct l; [congruence|reflexivity]. Qed.

(* everything but ref_ant / time_offset is the same for any order of the input list *)
Theorem meta_order_independent : forall l l', Permutation l l' ->
  option_map forget_ref (concat_meta l) = option_map forget_ref (concat_meta l').
Proof.
  intros l l' P. unfold concat_meta. rewrite (sort_metas_perm l l' P).
  destruct l as [|a t]; destruct l' as [|a' t'].
  - reflexivity.
  - apply Permutation_nil in P. discriminate.
  - apply Permutation_sym, Permutation_nil in P. discriminate.
  - destruct (sort_metas (a' :: t')) as [ds|] eqn:E; [|reflexivity].
    destruct (sort_metas_spec _ _ E) as [P2 _].
    assert (N : ds <> []) by (intro X; subst ds; apply Permutation_sym, Permutation_nil in P2; discriminate).
    cbn [option_map]. unfold forget_ref; cbn. rewrite (hd_nonempty a a' ds N). reflexivity.
Qed.

(* ... and ref_ant / time_offset too when all parts were opened with the same ones (katdal.open([...], ref_ant, time_offset)) *)
Theorem meta_order_independent_full : forall l l', Permutation l l' ->
  (forall a b, In a l -> In b l -> dm_refant a = dm_refant b /\ dm_toff a = dm_toff b) ->
  concat_meta l = concat_meta l'.
Proof.
  intros l l' P H. unfold concat_meta. rewrite (sort_metas_perm l l' P).
  destruct l as [|a t]; destruct l' as [|a' t']; try reflexivity.
  - apply Permutation_nil in P. discriminate.
  - apply Permutation_sym, Permutation_nil in P. discriminate.
  - destruct (sort_metas (a' :: t')) as [ds|] eqn:E; [|reflexivity].
    destruct (sort_metas_spec _ _ E) as [P2 _].
    assert (N : ds <> []) by (intro X; subst ds; apply Permutation_sym, Permutation_nil in P2; discriminate).
    assert (Ia' : In a' (a :: t)) by (eapply Permutation_in; [apply Permutation_sym; exact P|left; reflexivity]).
    destruct (H a a' (or_introl eq_refl) Ia') as (R & T).
    rewrite (hd_nonempty a a' ds N), R, T. reflexivity.
Qed.

(* ref_ant / time_offset are those of the first data set of the INPUT list *)
Lemma meta_ref_is_input_head : forall a t m, concat_meta (a :: t) = Some m -> mm_refant m = dm_refant a /\ mm_toff m = dm_toff a.
Proof. intros a t m H. unfold concat_meta in H. destruct (sort_metas (a :: t)); inversion H; subst; split; reflexivity. Qed.

(* the data sets are kept in strictly increasing start time: a permutation of the input *)
Lemma meta_order : forall l m, concat_meta l = Some m ->
  exists ds, Permutation l ds /\ StronglySorted lt_m ds /\ mm_order m = map dm_start ds /\ NoDup (map dm_start l).
Proof.
  intros l m H. unfold concat_meta in H. destruct l as [|a t]; [discriminate|].
  destruct (sort_metas (a :: t)) as [ds|] eqn:E; [|discriminate]. inversion H; subst; cbn.
  destruct (sort_metas_spec _ _ E) as [P S]. exists ds. repeat split; auto.
  destruct (NoDup_dec Z.eq_dec (map dm_start (a :: t))) as [N|N]; [exact N|]. apply sort_metas_none in N. congruence.
Qed.

(* ------------------------------------------------------------------ 3. start and end time *)
Lemma zmin_spec : forall l d, In d l -> (forall x, In x l -> zmin l d <= x) /\ In (zmin l d) l.
Proof.
  induction l as [|a t IH]; intros d Hd; [destruct Hd|].
  cbn [zmin fold_right]. fold (zmin t d).
  destruct (in_dec Z.eq_dec d t) as [I|I].
  - destruct (IH d I) as (A & B). split.
    + intros x [->|Hx]; [lia|]. specialize (A x Hx). lia.
    + destruct (Z.min_spec a (zmin t d)) as [(_ & ->)|(_ & ->)]; [left; reflexivity|right; exact B].
  - destruct Hd as [->|Hd]; [|contradiction].
    assert (G : forall t', (forall x, In x t' -> zmin t' d <= x) /\ zmin t' d <= d /\ (In (zmin t' d) t' \/ zmin t' d = d)).
    { induction t' as [|b r IHr]; cbn [zmin fold_right]; [split; [intros x []|split; [lia|right; reflexivity]]|].
      fold (zmin r d). destruct IHr as (A & B & C). split; [|split].
      - intros x [->|Hx]; [lia|]. specialize (A x Hx). lia.
      - lia.
      - destruct (Z.min_spec b (zmin r d)) as [(_ & ->)|(_ & ->)]; [left; left; reflexivity|].
        destruct C as [C|C]; [left; right; exact C|right; exact C]. }
    destruct (G t) as (A & B & C). split.
    + intros x [->|Hx]; [lia|]. specialize (A x Hx). lia.
    + destruct (Z.min_spec d (zmin t d)) as [(_ & ->)|(Le & ->)]; [left; reflexivity|].
      destruct C as [C|C]; [right; exact C|left; lia].
Qed.

Lemma zmax_spec : forall l d, In d l -> (forall x, In x l -> x <= zmax l d) /\ In (zmax l d) l.
Proof.
  intros l d Hd.
  assert (E : forall l', zmax l' d = - zmin (map Z.opp l') (- d)).
  { induction l' as [|a t IH]; cbn [zmax zmin fold_right map]; [lia|]. fold (zmax t d). fold (zmin (map Z.opp t) (- d)).
    rewrite IH. lia. }
  assert (Hd' : In (- d) (map Z.opp l)) by (apply in_map; exact Hd).
  destruct (zmin_spec (map Z.opp l) (- d) Hd') as (A & B). rewrite E. split.
  - intros x Hx. specialize (A (- x) (in_map Z.opp l x Hx)). lia.
  - apply in_map_iff in B. destruct B as (y & Ey & Iy). replace (- zmin (map Z.opp l) (- d)) with y by lia. exact Iy.
Qed.

(* start_time = the earliest start (that of the first data set in time order), end_time = the latest end *)
Theorem meta_start_end : forall l m, concat_meta l = Some m ->
  (forall d, In d l -> mm_start m <= dm_start d /\ dm_end d <= mm_end m) /\
  (exists d, In d l /\ mm_start m = dm_start d) /\ (exists d, In d l /\ mm_end m = dm_end d) /\
  mm_start m = hd 0 (mm_order m).
Proof.
  intros l m H. unfold concat_meta in H. destruct l as [|a t]; [discriminate|].
  destruct (sort_metas (a :: t)) as [ds|] eqn:E; [|discriminate]. inversion H; subst; cbn [mm_start mm_end mm_order]. clear H.
  destruct (sort_metas_spec _ _ E) as [P S].
  assert (N : ds <> []) by (intro X; subst ds; apply Permutation_sym, Permutation_nil in P; discriminate).
  destruct ds as [|d0 r]; [congruence|]. cbn [hd].
  assert (I0s : In (dm_start d0) (map dm_start (d0 :: r))) by (left; reflexivity).
  assert (I0e : In (dm_end d0) (map dm_end (d0 :: r))) by (left; reflexivity).
  destruct (zmin_spec _ _ I0s) as (A1 & B1). destruct (zmax_spec _ _ I0e) as (A2 & B2).
  split; [|split; [|split]].
  - intros d Hd. assert (Hd' : In d (d0 :: r)) by (eapply Permutation_in; [exact P|exact Hd]). split.
    + apply A1. apply in_map. exact Hd'.
    + apply A2. apply in_map. exact Hd'.
  - apply in_map_iff in B1. destruct B1 as (d & Ed & Id). exists d. split; [|symmetry; exact Ed].
    eapply Permutation_in; [apply Permutation_sym; exact P|exact Id].
  - apply in_map_iff in B2. destruct B2 as (d & Ed & Id). exists d. split; [|symmetry; exact Ed].
    eapply Permutation_in; [apply Permutation_sym; exact P|exact Id].
  - (* the head of a strictly sorted list is its minimum *)
    change (hd 0 (map dm_start (d0 :: r))) with (dm_start d0). apply Z.le_antisymm; [apply A1; left; reflexivity|].
    apply in_map_iff in B1. destruct B1 as (d & Ed & [->|Id]); [lia|].
    inversion S as [|? ? _ F]; subst. rewrite Forall_forall in F. specialize (F d Id). unfold lt_m in F. lia.
Qed.

(* ------------------------------------------------------------------ 4. the joined strings *)
(* each of the six joined attributes lists every distinct value of the parts exactly once *)
Theorem meta_joined : forall l m, concat_meta l = Some m ->
  forall (f : dmeta -> Z) (g : mmeta -> list Z),
    (f = dm_name /\ g = mm_name) \/ (f = dm_url /\ g = mm_url) \/ (f = dm_version /\ g = mm_version) \/
    (f = dm_observer /\ g = mm_observer) \/ (f = dm_descr /\ g = mm_descr) \/ (f = dm_expid /\ g = mm_expid) ->
    NoDup (g m) /\ (forall x, In x (g m) <-> exists d, In d l /\ f d = x) /\
    (exists ds, Permutation l ds /\ StronglySorted lt_m ds /\ g m = unique_in_order Z.eqb (map f ds)).
Proof.
  intros l m H f g W. unfold concat_meta in H. destruct l as [|a t]; [discriminate|].
  destruct (sort_metas (a :: t)) as [ds|] eqn:E; [|discriminate]. inversion H; subst. clear H.
  destruct (sort_metas_spec _ _ E) as [P S].
  assert (X : g (mkMM (uio (map dm_name ds)) (uio (map dm_url ds)) (uio (map dm_version ds)) (uio (map dm_observer ds))
                       (uio (map dm_descr ds)) (uio (map dm_expid ds)) (merge_dicts (map dm_params ds))
                       (merge_dicts (map dm_rx ds)) (zmin (map dm_start ds) (dm_start (hd a ds)))
                       (zmax (map dm_end ds) (dm_end (hd a ds))) (dm_refant a) (dm_toff a) (map dm_start ds))
              = uio (map f ds)).
  { destruct W as [(-> & ->)|[(-> & ->)|[(-> & ->)|[(-> & ->)|[(-> & ->)|(-> & ->)]]]]]; reflexivity. }
  rewrite X. unfold uio. split; [apply (uio_NoDup Z.eqb Z.eqb_eq)|]. split.
  - intro x. rewrite (uio_In Z.eqb Z.eqb_eq). rewrite in_map_iff. split.
    + intros (d & Ed & Id). exists d. split; [|exact Ed]. eapply Permutation_in; [apply Permutation_sym; exact P|exact Id].
    + intros (d & Id & Ed). exists d. split; [exact Ed|]. eapply Permutation_in; [exact P|exact Id].
  - exists ds. repeat split; auto.
Qed.

(* ------------------------------------------------------------------ 5. obs_params / receivers *)
Lemma nruns_one : forall l, nruns l = 1%nat <-> l <> [] /\ forall y, In y l -> y = hd 0 l.
Proof.
  induction l as [|x r IH]; [cbn; split; [discriminate|intros (A & _); congruence]|].
  destruct r as [|y r'].
  - cbn. split; [intros _; split; [discriminate|intros z [<-|[]]; reflexivity]|reflexivity].
  - change (nruns (x :: y :: r')) with (if x =? y then nruns (y :: r') else S (nruns (y :: r'))). destruct (x =? y) eqn:E.
    + apply Z.eqb_eq in E. subst y. rewrite IH. cbn [hd]. split.
      * intros (_ & A). split; [discriminate|]. intros z [<-|Hz]; [reflexivity|apply A; exact Hz].
      * intros (_ & A). split; [discriminate|]. intros z Hz. apply A. right. exact Hz.
    + apply Z.eqb_neq in E. split; [intro X|].
      * exfalso. assert (nruns (y :: r') <> 0)%nat.
        { clear. revert y. induction r' as [|z r IH]; intro y; cbn; [discriminate|]. destruct (y =? z); [apply IH|discriminate]. }
        lia.
      * intros (_ & A). exfalso. apply E. symmetry. apply (A y). right. left. reflexivity.
Qed.

Lemma dget_nil k : dget k [] = 0.
Proof. reflexivity. Qed.

Lemma dget_has k : forall d, has_key k d = false -> dget k d = 0.
Proof.
  induction d as [|(k', v) t IH]; [reflexivity|]. cbn. destruct (k' =? k); [discriminate|]. exact IH.
Qed.

Lemma has_key_In k d : has_key k d = true <-> In k (map fst d).
Proof.
  unfold has_key. rewrite existsb_exists. rewrite in_map_iff. split.
  - intros (kv & I & E). apply Z.eqb_eq in E. exists kv. auto.
  - intros (kv & E & I). exists kv. split; [exact I|apply Z.eqb_eq; exact E].
Qed.

Lemma mget_map (F : Z -> mval) k : forall keys,
  mget k (map (fun k' => (k', F k')) keys) = if existsb (Z.eqb k) keys then Some (F k) else None.
Proof.
  induction keys as [|k' t IH]; [reflexivity|]. cbn. rewrite (Z.eqb_sym k k'). destruct (k' =? k) eqn:E.
  - apply Z.eqb_eq in E. subst k'. reflexivity.
  - exact IH.
Qed.

Definition merged_value (ds : list (list (Z * Z))) (k : Z) : mval :=
  let values := map (dget k) ds in if Nat.eqb (nruns values) 1 then One (hd 0 values) else Many values.

Lemma merge_dicts_get ds k :
  mget k (merge_dicts ds) = if existsb (fun d => has_key k d) ds then Some (merged_value ds k) else None.
Proof.
  unfold merge_dicts. rewrite (mget_map (merged_value ds) k).
  set (keys := unique_in_order Z.eqb (List.concat (map (map fst) ds))).
  assert (X : existsb (Z.eqb k) keys = existsb (fun d => has_key k d) ds).
  { apply eq_true_iff_eq. rewrite !existsb_exists. split.
    - intros (x & Ix & Ex). apply Z.eqb_eq in Ex. subst x. unfold keys in Ix. rewrite (uio_In Z.eqb Z.eqb_eq) in Ix.
      apply in_concat in Ix. destruct Ix as (ks & Iks & Ik). apply in_map_iff in Iks. destruct Iks as (d & <- & Id).
      exists d. split; [exact Id|apply has_key_In; exact Ik].
    - intros (d & Id & Hk). exists k. split; [|apply Z.eqb_refl]. unfold keys. rewrite (uio_In Z.eqb Z.eqb_eq).
      apply in_concat. exists (map fst d). split; [apply in_map; exact Id|apply has_key_In; exact Hk]. }
  rewrite X. reflexivity.
Qed.

(* what the merged dictionary says about key k for part i (time order) is what part i said (missing = '') *)
Lemma merged_value_nth ds k i : (i < List.length ds)%nat -> mval_nth (merged_value ds k) i = dget k (nth i ds []).
Proof.
  intro Hi. unfold merged_value. set (values := map (dget k) ds).
  assert (N : nth i values 0 = dget k (nth i ds [])) by (unfold values; rewrite <- (dget_nil k); apply map_nth).
  destruct (Nat.eqb (nruns values) 1) eqn:E; cbn [mval_nth]; [|exact N].
  apply Nat.eqb_eq in E. apply nruns_one in E. destruct E as (_ & A). rewrite <- N. symmetry. apply A.
  apply nth_In. unfold values. rewrite map_length. exact Hi.
Qed.

(* obs_params / receivers of the whole: keys distinct; a key is there iff some part has it; NOTHING is lost - for
   every key and every part the part's own value (or '' when it lacks the key) can be read back; a single value
   stands exactly for "all parts agree" *)
Theorem merge_dicts_laws : forall ds,
  NoDup (map fst (merge_dicts ds)) /\
  (forall k, In k (map fst (merge_dicts ds)) <-> exists d, In d ds /\ In k (map fst d)) /\
  (forall k mv, mget k (merge_dicts ds) = Some mv ->
     (forall i, (i < List.length ds)%nat -> mval_nth mv i = dget k (nth i ds [])) /\
     (forall v, mv = One v <-> ds <> [] /\ forall d, In d ds -> dget k d = v) /\
     (forall vs, mv = Many vs -> vs = map (dget k) ds)) /\
  (forall k, mget k (merge_dicts ds) = None <-> forall d, In d ds -> ~ In k (map fst d)).
Proof.
  intro ds. split; [|split; [|split]].
  - unfold merge_dicts. rewrite map_map. cbn [fst]. rewrite map_id. apply (uio_NoDup Z.eqb Z.eqb_eq).
  - intro k. unfold merge_dicts. rewrite map_map. cbn [fst]. rewrite map_id. rewrite (uio_In Z.eqb Z.eqb_eq).
    rewrite in_concat. split.
    + intros (ks & Iks & Ik). apply in_map_iff in Iks. destruct Iks as (d & <- & Id). exists d. auto.
    + intros (d & Id & Ik). exists (map fst d). split; [apply in_map; exact Id|exact Ik].
  - intros k mv H. rewrite merge_dicts_get in H. destruct (existsb (fun d => has_key k d) ds) eqn:E; [|discriminate].
    inversion H; subst mv. clear H. split; [intros i Hi; apply merged_value_nth; exact Hi|]. split.
    + intro v. unfold merged_value. set (values := map (dget k) ds).
      destruct (Nat.eqb (nruns values) 1) eqn:R.
      * apply Nat.eqb_eq in R. apply nruns_one in R. destruct R as (NE & A). split.
        -- intro X. inversion X as [Y]. split; [intro Z0; subst ds; apply NE; reflexivity|].
           intros d Id. apply A. unfold values. apply in_map. exact Id.
        -- intros (NE' & B). f_equal. destruct ds as [|d0 r]; [congruence|]. cbn. apply B. left. reflexivity.
      * split; [discriminate|]. intros (NE & B). exfalso. apply Nat.eqb_neq in R. apply R. apply nruns_one. split.
        -- unfold values. destruct ds; [congruence|discriminate].
        -- intros y Hy. unfold values in *. apply in_map_iff in Hy. destruct Hy as (d & <- & Id).
           destruct ds as [|d0 r]; [destruct Id|]. cbn [map hd]. rewrite (B d Id), (B d0 (or_introl eq_refl)). reflexivity.
    + intros vs X. unfold merged_value in X. destruct (Nat.eqb _ 1); [discriminate|]. inversion X. reflexivity.
  - intro k. rewrite merge_dicts_get. destruct (existsb (fun d => has_key k d) ds) eqn:E.
    + split; [discriminate|]. intro A. exfalso. apply existsb_exists in E. destruct E as (d & Id & Hk).
      apply (A d Id). apply has_key_In. exact Hk.
    + split; [|reflexivity]. intros _ d Id Ik. apply has_key_In in Ik.
      assert (existsb (fun d => has_key k d) ds = true) by (apply existsb_exists; eauto). congruence.
Qed.

(* the obs_params / receivers of an opened concatenation ARE merge_dicts of the parts' ones in time order *)
Lemma meta_dicts : forall l m, concat_meta l = Some m ->
  exists ds, Permutation l ds /\ StronglySorted lt_m ds /\
             mm_params m = merge_dicts (map dm_params ds) /\ mm_rx m = merge_dicts (map dm_rx ds).
Proof.
  intros l m H. unfold concat_meta in H. destruct l as [|a t]; [discriminate|].
  destruct (sort_metas (a :: t)) as [ds|] eqn:E; [|discriminate]. inversion H; subst; cbn.
  destruct (sort_metas_spec _ _ E) as [P S]. exists ds. repeat split; auto.
Qed.

(* ------------------------------------------------------------------ 6. one data set: its own metadata *)
Lemma nodup_keys_merge : forall d, NoDup (map fst d) -> merge_dicts [d] = map (fun kv => (fst kv, One (snd kv))) d.
Proof.
  intros d N. unfold merge_dicts. cbn [map List.concat]. rewrite app_nil_r. rewrite (uio_id Z.eqb Z.eqb_eq _ N).
  rewrite map_map. apply map_ext_in. intros (k, v) I. cbn [fst snd nruns Nat.eqb hd].
  f_equal. f_equal. clear -N I. induction d as [|(k', v') t IH]; [destruct I|].
  cbn. inversion N as [|? ? Hn N']; subst. destruct I as [I|I].
  - inversion I; subst. rewrite Z.eqb_refl. reflexivity.
  - destruct (k' =? k) eqn:E; [|apply IH; assumption].
    apply Z.eqb_eq in E. subst k'. exfalso. apply Hn. cbn. apply in_map_iff. exists (k, v). auto.
Qed.

Theorem meta_single : forall d, NoDup (map fst (dm_params d)) -> NoDup (map fst (dm_rx d)) ->
  concat_meta [d] =
  Some (mkMM [dm_name d] [dm_url d] [dm_version d] [dm_observer d] [dm_descr d] [dm_expid d]
             (map (fun kv => (fst kv, One (snd kv))) (dm_params d)) (map (fun kv => (fst kv, One (snd kv))) (dm_rx d))
             (dm_start d) (dm_end d) (dm_refant d) (dm_toff d) [dm_start d]).
Proof.
  intros d N1 N2. unfold concat_meta. cbn [sort_metas insert_m hd map].
  rewrite (nodup_keys_merge _ N1), (nodup_keys_merge _ N2). cbn [zmin zmax fold_right].
  rewrite Z.min_id, Z.max_id. reflexivity.
Qed.

(* equal start times / no data set: no concatenation *)
Lemma meta_refused : forall l, concat_meta l = None <-> l = [] \/ ~ NoDup (map dm_start l).
Proof.
  intro l. unfold concat_meta. destruct l as [|a t]; [split; [left; reflexivity|reflexivity]|].
  destruct (sort_metas (a :: t)) as [ds|] eqn:E.
  - split; [discriminate|]. intros [X|X]; [discriminate|]. apply sort_metas_none in X. congruence.
  - split; [|reflexivity]. intros _. right. apply sort_metas_none. exact E.
Qed.

(* ------------------------------------------------------------------ 7. non-vacuity *)
(* three data sets given out of time order (C starts at 300, A at 100, B at 200); A and B share the name-independent
   attributes, C has another observer; key 7 is missing from B, key 8 agrees everywhere, key 9 only C has *)
Definition mA := mkDM 100 150 1 11 4 5 6 0 [(7, 70); (8, 80)] [(1, 30); (2, 30)] 41 0.
Definition mB := mkDM 200 260 2 12 4 5 6 0 [(8, 80)] [(1, 30)] 42 0.
Definition mC := mkDM 300 340 3 13 4 9 6 0 [(8, 80); (9, 90); (7, 70)] [(1, 31); (2, 30)] 43 5.
Lemma ex_meta :
  concat_meta [mC; mA; mB] =
  Some (mkMM [1; 2; 3] [11; 12; 13] [4] [5; 9] [6] [0]
             [(7, Many [70; 0; 70]); (8, One 80); (9, Many [0; 0; 90])] [(1, Many [30; 30; 31]); (2, Many [30; 0; 30])]
             100 340 43 5 [100; 200; 300]) /\
  option_map forget_ref (concat_meta [mA; mB; mC]) = option_map forget_ref (concat_meta [mC; mA; mB]) /\
  option_map mm_refant (concat_meta [mA; mB; mC]) = Some 41 /\
  concat_meta [mA; mA] = None.
Proof. repeat split; vm_compute; reflexivity. Qed.
