(* C13: hold-type products (K, B) do not depend on which dumps are loaded.
   in_force (seen a b evs) t = in_force (seen 0 T evs) (a + t): the solution in force at relative dump t of a data
   set holding dumps [a, b) is the one in force at dump a + t of the data set holding [0, T), provided the loaded
   data set sees a solution at all (some solution before dump b; otherwise katdal has no value and raises). *)
From Coq Require Import ZArith List Bool Lia.
From KV Require Import Base.Sx Gen.Generated Model.Applycal Model.ApplycalSol.
Import ListNotations.
Local Open Scope Z_scope.

Section Hold.
  Context {A : Type}.
  Implicit Types (l evs : list (Z * A)).

  Lemma lpd_cons2 : forall (x y : Z * A) r,
    last_per_dump (x :: y :: r) = if Z.eqb (fst x) (fst y) then last_per_dump (y :: r) else x :: last_per_dump (y :: r).
  Proof. reflexivity. Qed.

  (* ---- last_per_dump does not change the last solution at or before t *)
  Lemma last_le_lpd : forall l t acc, last_le (last_per_dump l) t acc = last_le l t acc.
  Proof.
    induction l as [| x r IH]; intros t acc; [reflexivity |].
    destruct r as [| y r'].
    - reflexivity.
    - rewrite lpd_cons2. destruct (Z.eqb (fst x) (fst y)) eqn:E.
      + rewrite IH. apply Z.eqb_eq in E. cbn [last_le]. rewrite E.
        destruct (Z.leb (fst y) t); reflexivity.
      + cbn [last_le]. destruct (Z.leb (fst x) t); apply IH.
  Qed.

  Lemma last_le_none : forall l t acc, last_le l t acc = None -> acc = None /\ forall x, In x l -> t < fst x.
  Proof.
    induction l as [| x r IH]; intros t acc H; cbn [last_le] in H.
    - split; auto. intros x [].
    - destruct (Z.leb (fst x) t) eqn:E.
      + apply IH in H. destruct H as [H _]. discriminate.
      + apply IH in H. destruct H as [H1 H2]. split; auto.
        intros y [<- | Hy]; auto. apply Z.leb_gt in E. exact E.
  Qed.

  (* ---- the head of last_per_dump: the last element of the initial run of equal dumps *)
  Fixpoint frl_from (k : Z) (v : A) l : A :=
    match l with
    | [] => v
    | x :: r => if Z.eqb k (fst x) then frl_from k (snd x) r else v
    end.
  Definition frl l : option A := match l with [] => None | x :: r => Some (frl_from (fst x) (snd x) r) end.

  Lemma hd_lpd : forall l, option_map snd (hd_error (last_per_dump l)) = frl l.
  Proof.
    induction l as [| x r IH]; [reflexivity |].
    destruct r as [| y r']; [reflexivity |].
    rewrite lpd_cons2. destruct (Z.eqb (fst x) (fst y)) eqn:E.
    - rewrite IH. cbn [frl frl_from]. rewrite E. apply Z.eqb_eq in E. rewrite E. reflexivity.
    - cbn [hd_error option_map frl frl_from]. rewrite E. reflexivity.
  Qed.

  Lemma frl_from_other : forall l k v, (forall x, In x l -> fst x <> k) -> frl_from k v l = v.
  Proof.
    intros [| x r] k v H; [reflexivity |]. cbn [frl_from].
    destruct (Z.eqb k (fst x)) eqn:E; auto. apply Z.eqb_eq in E. exfalso. apply (H x); [left; auto | auto].
  Qed.

  (* ---- events in time order *)
  Fixpoint nondecr (lo : Z) evs : Prop :=
    match evs with [] => True | x :: r => lo <= fst x /\ nondecr (fst x) r end.

  Lemma nondecr_ge : forall evs lo x, nondecr lo evs -> In x evs -> lo <= fst x.
  Proof.
    induction evs as [| y r IH]; intros lo x H Hin; [contradiction |].
    destruct H as [H1 H2]. destruct Hin as [<- | Hin]; auto.
    specialize (IH _ _ H2 Hin). lia.
  Qed.

  Definition shift (a : Z) (e : Z * A) : Z * A := (Z.max (fst e - a) 0, snd e).
  Definition before (b : Z) (e : Z * A) : bool := Z.ltb (fst e) b.

  Lemma seen_unfold : forall a b evs, seen a b evs = last_per_dump (map (shift a) (filter (before b) evs)).
  Proof. reflexivity. Qed.

  Variables a b T t : Z.
  Hypothesis Ha : 0 <= a.
  Hypothesis Ht : 0 <= t.
  Hypothesis Hb : a + t < b.
  Hypothesis HT : b <= T.

  (* (A) the last solution at or before the dump: the same event, sortedness not needed *)
  Lemma last_le_loaded : forall evs acc,
    last_le (map (shift a) (filter (before b) evs)) t acc = last_le (map (shift 0) (filter (before T) evs)) (a + t) acc.
  Proof.
    induction evs as [| x r IH]; intros acc; [reflexivity |].
    cbn [filter].
    destruct (before b x) eqn:E1; unfold before in E1.
    - apply Z.ltb_lt in E1. assert (E2 : before T x = true) by (apply Z.ltb_lt; lia). rewrite E2.
      cbn [map last_le shift fst snd].
      assert (E : Z.leb (Z.max (fst x - a) 0) t = Z.leb (Z.max (fst x - 0) 0) (a + t)).
      { destruct (Z.leb (Z.max (fst x - a) 0) t) eqn:L1; destruct (Z.leb (Z.max (fst x - 0) 0) (a + t)) eqn:L2; auto;
          [apply Z.leb_le in L1; apply Z.leb_gt in L2 | apply Z.leb_gt in L1; apply Z.leb_le in L2]; lia. }
      rewrite E. destruct (Z.leb (Z.max (fst x - 0) 0) (a + t)); apply IH.
    - apply Z.ltb_ge in E1. destruct (before T x) eqn:E2.
      + cbn [map last_le shift fst snd].
        assert (L : Z.leb (Z.max (fst x - 0) 0) (a + t) = false) by (apply Z.leb_gt; lia).
        rewrite L. apply IH.
      + apply IH.
  Qed.

  Lemma filter_before_nil : forall evs lo, nondecr lo evs -> b <= lo -> filter (before b) evs = [].
  Proof.
    induction evs as [| x r IH]; intros lo H Hlo; [reflexivity |]. destruct H as [H1 H2].
    cbn [filter]. assert (E : before b x = false) by (apply Z.ltb_ge; lia).
    rewrite E. apply (IH (fst x)); auto. lia.
  Qed.

  Lemma late_keys : forall evs lo x, nondecr lo evs -> b <= lo ->
    In x (map (shift 0) (filter (before T) evs)) -> b <= fst x.
  Proof.
    intros evs lo x H Hlo Hin. apply in_map_iff in Hin. destruct Hin as [y [<- Hy]].
    apply filter_In in Hy. destruct Hy as [Hy _]. pose proof (nondecr_ge _ _ _ H Hy). cbn [shift fst]. lia.
  Qed.

  (* (B) no solution at or before the dump: the first one the data set sees *)
  Lemma frl_from_loaded : forall r e v, nondecr e r -> e < b -> a + t < e ->
    frl_from (e - a) v (map (shift a) (filter (before b) r)) = frl_from e v (map (shift 0) (filter (before T) r)).
  Proof.
    induction r as [| y r' IH]; intros e v H He Hlate; [reflexivity |]. destruct H as [H1 H2].
    cbn [filter]. destruct (before b y) eqn:E1; unfold before in E1.
    - apply Z.ltb_lt in E1. assert (E2 : before T y = true) by (apply Z.ltb_lt; lia). rewrite E2.
      cbn [map frl_from shift fst snd].
      replace (Z.max (fst y - a) 0) with (fst y - a) by lia. replace (Z.max (fst y - 0) 0) with (fst y) by lia.
      assert (E : Z.eqb (e - a) (fst y - a) = Z.eqb e (fst y)).
      { destruct (Z.eqb e (fst y)) eqn:Q; [apply Z.eqb_eq in Q; apply Z.eqb_eq; lia
                                         | apply Z.eqb_neq in Q; apply Z.eqb_neq; lia]. }
      rewrite E. destruct (Z.eqb e (fst y)) eqn:Q; auto.
      apply Z.eqb_eq in Q. rewrite Q in *. apply IH; auto.
    - apply Z.ltb_ge in E1. rewrite (filter_before_nil r' (fst y)) by (auto; lia). cbn [map frl_from].
      symmetry. apply frl_from_other. intros x Hin.
      assert (Hx : b <= fst x).
      { cbn [filter] in Hin. destruct (before T y) eqn:E2.
        - destruct Hin as [<- | Hin]; [cbn [shift fst]; lia |].
          eapply late_keys; [exact H2 | lia | exact Hin].
        - eapply late_keys; [exact H2 | lia | exact Hin]. }
      lia.
  Qed.

  Lemma frl_loaded : forall evs lo, nondecr lo evs ->
    (exists x, In x evs /\ fst x < b) ->
    (forall x, In x evs -> fst x < b -> a + t < fst x) ->
    frl (map (shift a) (filter (before b) evs)) = frl (map (shift 0) (filter (before T) evs)).
  Proof.
    intros [| x r] lo H [y [Hy Hyb]] Hlate; [contradiction |]. destruct H as [H1 H2].
    assert (Hx : fst x < b).
    { destruct Hy as [<- | Hy]; auto. pose proof (nondecr_ge _ _ _ H2 Hy). lia. }
    pose proof (Hlate x (or_introl eq_refl) Hx) as Hl.
    cbn [filter].
    assert (E1 : before b x = true) by (apply Z.ltb_lt; lia).
    assert (E2 : before T x = true) by (apply Z.ltb_lt; lia).
    rewrite E1, E2. cbn [map frl shift fst snd].
    replace (Z.max (fst x - a) 0) with (fst x - a) by lia. replace (Z.max (fst x - 0) 0) with (fst x) by lia.
    f_equal. apply frl_from_loaded; auto.
  Qed.

  Theorem hold_independent_of_loaded_dumps : forall evs lo,
    nondecr lo evs -> (exists x, In x evs /\ fst x < b) ->
    in_force (seen a b evs) t = in_force (seen 0 T evs) (a + t).
  Proof.
    intros evs lo Hs Hex. unfold in_force. rewrite !seen_unfold, !last_le_lpd, !hd_lpd.
    rewrite last_le_loaded.
    destruct (last_le (map (shift 0) (filter (before T) evs)) (a + t) None) eqn:E; [reflexivity |].
    apply frl_loaded with (lo := lo); auto.
    intros x Hx Hxb. rewrite <- last_le_loaded in E. apply last_le_none in E. destruct E as [_ E].
    assert (Hin : In (shift a x) (map (shift a) (filter (before b) evs))).
    { apply in_map. apply filter_In. split; auto. unfold before. apply Z.ltb_lt. exact Hxb. }
    specialize (E _ Hin). cbn [shift fst] in E. lia.
  Qed.
End Hold.

(* non-vacuity: solutions at dumps -1, 2, 2, 5 (payloads 1 2 3 4) of a 7-dump data set, loaded dumps [3, 6) *)
Example ex_hold :
  map (fun t => in_force (seen 3 6 [(-1, 1); (2, 2); (2, 3); (5, 4)]) t) [0; 1; 2]
  = map (fun t => in_force (seen 0 7 [(-1, 1); (2, 2); (2, 3); (5, 4)]) (3 + t)) [0; 1; 2] /\
  map (fun t => in_force (seen 3 6 [(-1, 1); (2, 2); (2, 3); (5, 4)]) t) [0; 1; 2] = [Some 3; Some 3; Some 4].
Proof. vm_compute. split; reflexivity. Qed.
