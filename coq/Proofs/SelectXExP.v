(* C02, extended model: a concrete observation with two spectral windows and two subarrays, and a history with a
   change of window, string forms, a call that raises part-way, the poisoned call after it, and the recovery.
   Used as non-vacuity witness of the theorems and as witness of the refuted atomicity claim. *)
From Coq Require Import ZArith List Bool String Ascii Lia Permutation.
From KV Require Import Base.Sx Base.Str Base.SelSlice Gen.Generated Model.Select Model.SelectX
  Proofs.SelectBaseP Proofs.SelectP Proofs.SelectXP Proofs.SelectXRefP Proofs.SelectXLawsP Proofs.SelectXFormsP.
Import ListNotations.
Open Scope Z_scope.

Definition mkx (ts scan state cscan label tgt spw sub : Z) : xdump :=
  {| xd_core := {| d_ts := ts; d_scan := scan; d_state := state; d_cscan := cscan; d_label := label; d_target := tgt |};
     xd_spw := spw; xd_sub := sub |}.

Definition ex_vocab : vocab :=
  {| v_states := [("slew", 0); ("track", 1); ("scan", 2); ("stop", 3)]%string;
     v_labels := [("", 0); ("track", 1); ("raster", 2)]%string;
     v_tags := [("bpcal", 2); ("gaincal", 3)]%string;
     v_ants := [("m000", 0); ("m001", 1); ("m062", 2)]%string;
     v_inputs := [("m000h", (0, 0)); ("m000v", (0, 1)); ("m001h", (1, 0)); ("m001v", (1, 1));
                  ("m062h", (2, 0)); ("m062v", (2, 1))]%string |}.

(* 8 dumps of 4 quarter-units; window 1 is used by dumps 3-4, subarray 1 by dumps 5-7 *)
Definition ex_xobs : xobs :=
  {| x_dumps := [mkx 0 0 0 0 1 0 0 0; mkx 4 0 0 0 1 0 0 0; mkx 8 1 1 0 1 0 0 0; mkx 12 1 1 0 1 0 1 0;
                 mkx 16 2 2 1 2 1 1 0; mkx 20 2 2 1 2 1 0 1; mkx 24 2 2 1 2 1 0 1; mkx 28 2 2 1 2 1 0 1];
     x_half := 2;
     x_targets := [{| t_names := [10]; t_tags := [2] |}; {| t_names := [11; 12]; t_tags := [3] |}];
     x_spws := [{| w_freqs := [100; 104; 108; 112]; w_halfw := 2 |};
                {| w_freqs := [200; 208; 216; 224; 232; 240]; w_halfw := 4 |}];
     x_subs := [{| sa_ants := [0; 1]; sa_cps := [((0, 0), (0, 0)); ((0, 0), (1, 0)); ((1, 1), (1, 1))] |};
                {| sa_ants := [1; 2]; sa_cps := [((1, 0), (2, 0)); ((2, 1), (2, 1))] |}];
     x_vocab := ex_vocab |}.

Definition xc1 : xkwargs := [("spw"%string, XCore (VAtom 1))].
Definition xc2 : xkwargs := [("channels"%string, XCore (VIdx (IxList [0; 5])))].
Definition xc3 : xkwargs := [("scans"%string, XBare (AStr "track, scan")); ("reset"%string, XCore (VStr ""))].
Definition xc3' : xkwargs := [("reset"%string, XCore (VStr "")); ("scans"%string, XBare (AStr "track, scan"))].
Definition xc4 : xkwargs := [("spw"%string, XCore (VAtom 0)); ("ants"%string, XBare (AStr "~m001"))].
Definition xc5 : xkwargs := [("dumps"%string, XCore (VIdx (IxList [0])))].
(* raises part-way: product 7 does not exist; `scans` comes after it in the keyword order *)
Definition xc6 : xkwargs := [("corrprods"%string, XCore (VIdx (IxList [7]))); ("scans"%string, XBare (AStr "slew"))].
(* an unrelated call on another dimension *)
Definition xc7 : xkwargs := [("channels"%string, XCore (VIdx (IxInt 0)))].
Definition xc8 : xkwargs := [].
Definition xc_neg : xkwargs := [("spw"%string, XCore (VAtom (-1)))].
Definition xc_bogus : xkwargs := [("bogus"%string, XCore (VAtom 7))].

Definition xs0 : xst := Eval vm_compute in xinit ex_xobs.
Definition xs1 : xst := Eval vm_compute in snd (xselect ex_xobs xs0 xc1).
Definition xs2 : xst := Eval vm_compute in snd (xselect ex_xobs xs1 xc2).
Definition xs3 : xst := Eval vm_compute in snd (xselect ex_xobs xs2 xc3).
Definition xs4 : xst := Eval vm_compute in snd (xselect ex_xobs xs3 xc4).
Definition xs5 : xst := Eval vm_compute in snd (xselect ex_xobs xs4 xc5).
Definition xs6 : xst := Eval vm_compute in snd (xselect ex_xobs xs5 xc6).
Definition xs7 : xst := Eval vm_compute in snd (xselect ex_xobs xs6 xc7).
Definition xs8 : xst := Eval vm_compute in snd (xselect ex_xobs xs7 xc8).

Definition bb (z : Z) : bool := negb (z =? 0).

Lemma ex_windows : has_windows ex_xobs.
Proof. split; simpl; lia. Qed.

Lemma ex_steps :
  xinit ex_xobs = xs0
  /\ xselect ex_xobs xs0 xc1 = (OOk, xs1) /\ xselect ex_xobs xs1 xc2 = (OOk, xs2)
  /\ xselect ex_xobs xs2 xc3 = (OOk, xs3) /\ xselect ex_xobs xs3 xc4 = (OOk, xs4)
  /\ xselect ex_xobs xs4 xc5 = (OOk, xs5) /\ xselect ex_xobs xs5 xc6 = (OFail, xs6)
  /\ xselect ex_xobs xs6 xc7 = (OFail, xs7) /\ xselect ex_xobs xs7 xc8 = (OOk, xs8)
  /\ xselect ex_xobs xs5 xc_neg = (OIndexError, xs5) /\ xselect ex_xobs xs5 xc_bogus = (OTypeError, xs5).
Proof. repeat split; vm_compute; reflexivity. Qed.

Lemma ex_nodup : Forall (fun c => NoDup (map fst c)) [xc1; xc2; xc3; xc3'; xc4; xc5; xc6; xc7; xc8; xc_neg; xc_bogus].
Proof. repeat constructor; simpl; intuition discriminate. Qed.

Ltac nd := repeat constructor; simpl; intuition discriminate.

Lemma ex_reach2 : xreach ex_xobs xs2.
Proof.
  destruct ex_steps as [E0 [E1 [E2 _]]].
  apply (xreach_step ex_xobs xs1 xc2 xs2); [|nd|exact E2].
  apply (xreach_step ex_xobs xs0 xc1 xs1); [|nd|exact E1]. rewrite <- E0. apply xreach_init.
Qed.

Lemma ex_reach5 : xreach ex_xobs xs5.
Proof.
  destruct ex_steps as [E0 [E1 [E2 [E3 [E4 [E5 _]]]]]].
  apply (xreach_step ex_xobs xs4 xc5 xs5); [|nd|exact E5].
  apply (xreach_step ex_xobs xs3 xc4 xs4); [|nd|exact E4].
  apply (xreach_step ex_xobs xs2 xc3 xs3); [|nd|exact E3]. exact ex_reach2.
Qed.

Lemma ex_any6 : xreach_any ex_xobs xs6.
Proof.
  replace xs6 with (snd (xselect ex_xobs xs5 xc6)) by (vm_compute; reflexivity).
  apply xany_step; [apply xreach_is_any, ex_reach5 | nd].
Qed.

(* after the failed call, an accepted one: again a state in which all theorems apply *)
Lemma ex_reach_after_failure : xreach ex_xobs (snd (xselect ex_xobs xs6 [("corrprods"%string, XCore VAuto)])).
Proof.
  apply (xreach_ok ex_xobs xs6 [("corrprods"%string, XCore VAuto)]); [exact ex_any6 | nd | vm_compute; reflexivity].
Qed.

(* the masks along the history *)
Lemma ex_masks :
  (* constructor: window 0 / subarray 0 *)
  tk (x_core xs0) = map bb [1;1;1;0;0;0;0;0] /\ fk (x_core xs0) = map bb [1;1;1;1] /\ bk (x_core xs0) = map bb [1;1;1]
  (* spw=1: time restarts from the dumps of window 1, six channels, products untouched *)
  /\ tk (x_core xs1) = map bb [0;0;0;1;1;0;0;0] /\ fk (x_core xs1) = map bb [1;1;1;1;1;1] /\ bk (x_core xs1) = bk (x_core xs0)
  /\ fk (x_core xs2) = map bb [1;0;0;0;0;1]
  (* scans='track, scan' stacked: both dumps of window 1 qualify *)
  /\ tk (x_core xs3) = map bb [0;0;0;1;1;0;0;0]
  (* spw=0 with ants='~m001': time and frequency restart, the channels criterion is dropped, one product left *)
  /\ tk (x_core xs4) = map bb [1;1;1;0;0;0;0;0] /\ fk (x_core xs4) = map bb [1;1;1;1] /\ bk (x_core xs4) = map bb [1;0;0]
  /\ keys (sel (x_core xs4)) = ["spw"; "subarray"; "ants"]%string
  /\ tk (x_core xs5) = map bb [1;0;0;0;0;0;0;0] /\ p_shape (x_pub xs5) = [1; 4; 1]
  (* the failed call: time and products were cleared, `corrprods` raised before `scans` was applied, both are
     retained; shape still says 1 dump *)
  /\ tk (x_core xs6) = map bb [1;1;1;0;0;0;0;0] /\ bk (x_core xs6) = map bb [1;1;1]
  /\ keys (sel (x_core xs6)) = ["spw"; "subarray"; "corrprods"; "scans"]%string
  /\ p_shape (x_pub xs6) = [1; 4; 1] /\ p_dumps (x_pub xs6) = [0]
  (* select() recovers *)
  /\ tk (x_core xs8) = map bb [1;1;1;0;0;0;0;0] /\ bk (x_core xs8) = map bb [1;1;1] /\ p_shape (x_pub xs8) = [3; 4; 3]
  /\ p_inputs (x_pub xs8) = [(0, 0); (1, 0); (1, 1)] /\ p_ants (x_pub xs8) = [0; 1].
Proof. repeat split; vm_compute; reflexivity. Qed.

(* REFUTED: a select() call that raises leaves the data set as it was.  Witness: the reachable state xs5 and xc6. *)
Lemma failed_call_not_atomic :
  exists xo s xkw s' later,
    xreach xo s /\ NoDup (map fst xkw) /\ xselect xo s xkw = (OFail, s')
    /\ masks_of (x_core s') <> masks_of (x_core s)
    /\ p_shape (x_pub s') <> [count (tk (x_core s')); count (fk (x_core s')); count (bk (x_core s'))]
    /\ (exists k v, In (k, v) (sel (x_core s')) /\ crit (view_at xo (x_spw s') (x_sub s')) k v = CErr)
    /\ lookup "channels" (elab_kw (x_vocab xo) later) <> None /\ List.length later = 1%nat
    /\ fst (xselect xo s' later) = OFail.
Proof.
  exists ex_xobs, xs5, xc6, xs6, xc7. split; [exact ex_reach5|].
  split; [repeat constructor; simpl; intuition discriminate|].
  split; [vm_compute; reflexivity|]. split; [vm_compute; discriminate|]. split; [vm_compute; discriminate|].
  split; [exists "corrprods"%string, (VIdx (IxList [7])); split; [vm_compute; tauto | vm_compute; reflexivity]|].
  split; [vm_compute; discriminate|]. split; [reflexivity|]. vm_compute. reflexivity.
Qed.

(* the order of the keywords of a FAILED call is visible in the state it leaves behind *)
Lemma failed_call_sees_kw_order :
  exists xo s xkw xkw', xreach xo s /\ Permutation xkw xkw' /\ NoDup (map fst xkw)
    /\ fst (xselect xo s xkw) = OFail /\ fst (xselect xo s xkw') = OFail
    /\ tk (x_core (snd (xselect xo s xkw))) <> tk (x_core (snd (xselect xo s xkw'))).
Proof.
  exists ex_xobs, xs5, xc6, [("scans"%string, XBare (AStr "slew")); ("corrprods"%string, XCore (VIdx (IxList [7])))].
  split; [exact ex_reach5|]. split; [apply perm_swap|]. split; [repeat constructor; simpl; intuition discriminate|].
  split; [vm_compute; reflexivity|]. split; [vm_compute; reflexivity|]. vm_compute. discriminate.
Qed.

(* instances used as non-vacuity witnesses *)
Lemma ex_refines_instance :
  XInv ex_xobs xs2 /\ NoDup (map fst xc3)
  /\ xspec_select ex_xobs (xm_of xs2) xc3 = (OOk, xm_of xs3)
  /\ xspec_select ex_xobs (xm_of xs3) xc4 = (OOk, xm_of xs4)
  /\ fst (xspec_select ex_xobs (xm_of xs5) xc_neg) = OIndexError.
Proof.
  split; [apply xreach_XInv; [exact ex_windows | exact ex_reach2]|].
  split; [repeat constructor; simpl; intuition discriminate|]. repeat split; vm_compute; reflexivity.
Qed.

Lemma ex_history_instance :
  no_partway_failure (xspec_run ex_xobs (xm_of xs0) [xc1; xc2; xc3; xc4; xc5; xc_neg; xc_bogus; xc8])
  /\ xrun ex_xobs xs0 [xc1; xc2; xc3] = xrun ex_xobs xs0 [xc1; xc2; xc3']
  /\ Permutation xc3 xc3'.
Proof.
  split; [vm_compute; repeat constructor; discriminate|]. split; [vm_compute; reflexivity | apply perm_swap].
Qed.

Lemma ex_recovery_instance :
  WInv ex_xobs xs6 /\ ~ Inv (view_at ex_xobs (x_spw xs6) (x_sub xs6)) (x_core xs6)
  /\ xselect ex_xobs xs6 [("corrprods"%string, XCore VAuto)] = (OOk, snd (xselect ex_xobs xs6 [("corrprods"%string, XCore VAuto)]))
  /\ xspec_fresh ex_xobs (xm_of xs6) [("corrprods"%string, XCore VAuto)] DB = true
  /\ xspec_fresh ex_xobs (xm_of xs6) [("corrprods"%string, XCore VAuto)] DT = false
  /\ tk (x_core (snd (xselect ex_xobs xs6 [("corrprods"%string, XCore VAuto)]))) = map bb [1;1;0;0;0;0;0;0].
Proof.
  split; [apply xreach_any_WInv; [exact ex_windows | exact ex_any6]|].
  split.
  - intro I. pose proof (inv_holds _ _ I ("corrprods"%string, VIdx (IxList [7]))) as H.
    assert (Hin : In ("corrprods"%string, VIdx (IxList [7])) (sel (x_core xs6))) by (vm_compute; tauto).
    specialize (H Hin). vm_compute in H. exact H.
  - repeat split; vm_compute; reflexivity.
Qed.

Lemma ex_forms_instance :
  join ["m000"; "~m001"; "m 062"]%string = "m000,~m001,m 062"%string
  /\ forallb clean ["m000"; "~m001"; "m 062"]%string = true
  /\ elab ex_vocab "ants" (XBare (AStr " m000 ,m001")) = Some (VAnts [(false, 0); (false, 1)])
  /\ elab ex_vocab "ants" (XSeq [AStr " m000"; AStr "m001"]) = Some (VAnts [(false, -1); (false, 1)])
  /\ elab ex_vocab "ants" (XSeq [AStr "~m000"; AStr ""]) = None
  /\ elab ex_vocab "ants" (XSeq [AStr "m000"; AStr ""]) = Some (VAnts [(false, 0); (false, -1)])
  /\ elab ex_vocab "scans" (XBare (AStr "track,,slew")) = None
  /\ elab ex_vocab "scans" (XBare (AStr "~track, 2")) = Some (VScans [SNot 1; SName (-1)])
  /\ elab ex_vocab "scans" (XSeq [AStr "~track"; AInt 2]) = Some (VScans [SNot 1; SIdx 2])
  /\ elab ex_vocab "pol" (XBare (AStr "H, vh,")) = Some (VPols [POne 0; PTwo 1 0; PEmpty])
  /\ elab ex_vocab "inputs" (XBare (AStr "m000h,M000V")) = Some (VInputs [(0, 0); (-1, -1)])
  /\ elab ex_vocab "target_tags" (XBare (AStr "")) = Some (VIds []).
Proof. repeat split; vm_compute; reflexivity. Qed.

Lemma ex_index_instance :
  index_mask 5 (IxMask [true]) = Some (map bb [1;1;1;1;1]) /\ index_mask 5 (IxList []) = Some (map bb [0;0;0;0;0])
  /\ index_mask 5 (IxInt (-2)) = Some (map bb [0;0;0;1;0]) /\ index_mask 5 (IxList [3; 3; -5]) = Some (map bb [1;0;0;1;0])
  /\ index_mask 5 (IxSlice (Some 1) (Some 5) (Some 2)) = Some (map bb [0;1;0;1;0])
  /\ index_mask 5 (IxSlice None None (Some (-2))) = Some (map bb [1;0;1;0;1])
  /\ index_mask 5 (IxList [5]) = None /\ index_mask 5 (IxMask [true; false]) = None.
Proof. repeat split; vm_compute; reflexivity. Qed.
