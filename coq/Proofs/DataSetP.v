(* C01: proofs about the data-set state machine (Model/DataSet.v). *)
From Coq Require Import ZArith QArith List Bool String Lia.
From KV Require Import Base.Sx Base.Str Base.SelSlice Base.PySlice Base.AxisIndex Base.NdArray Gen.Generated
  Model.Flags Model.DataSet Proofs.DataSetBaseP.
From KV Require Model.Select Proofs.SelectP.
Import ListNotations.
Open Scope Z_scope.

(* ------------------------------------------------------------------ well-formed configurations / states *)

(* v1: the scan groups partition the T dumps *)
Definition cfg_ok (c : cfg) : Prop :=
  match c_fmt c with
  | V1 => Forall (fun n => 0 <= n) (c_segs c) /\ rows_total (c_segs c) = nT c
  | _ => True
  end.

Definition wf (c : cfg) (s : Select.st) : Prop := SelectP.wf_st (c_obs c) s.

Lemma wf_lens c s : wf c s ->
  zlen (Select.tk s) = nT c /\ zlen (Select.fk s) = nF c /\ zlen (Select.bk s) = nB c.
Proof.
  intro H. unfold wf, SelectP.wf_st in H. unfold zlen, nT, nF, nB.
  rewrite <- (H Select.DT), <- (H Select.DF), <- (H Select.DB). repeat split.
Qed.

(* ------------------------------------------------------------------ what acquire puts into an indexer *)

Lemma pad_rows_ok rows m : zlen m = rows \/ zlen m = rows - 1 ->
  fits rows (pad_rows rows m) = true /\ nonzero (pad_rows rows m) = nonzero m /\ msum (pad_rows rows m) = msum m.
Proof.
  intro H. unfold pad_rows, fits. destruct (zlen m =? rows - 1) eqn:E.
  - apply Z.eqb_eq in E. rewrite zlen_app, nonzero_pad_false, msum_app. cbn. repeat split; lia.
  - apply Z.eqb_neq in E. repeat split. apply Z.eqb_eq. lia.
Qed.

Lemma acquire_nf c s k : cfg_ok c -> wf c s ->
  let x := acquire c s k in
  all2 fits (ix_rows x) (ix_tmasks x) = true
  /\ nonzero (List.concat (ix_tmasks x)) = dumps s
  /\ msum (List.concat (ix_tmasks x)) = msum (Select.tk s)
  /\ ix_conv x = conv_of c s k /\ ix_kind x = k
  /\ ix_tail x = (match k with KTime => [] | _ => [Select.fk s; Select.bk s] end)
  /\ ix_dims x = (match k with KTime => [] | _ => [nF c; nB c] end).
Proof.
  intros Hc Hw. destruct (wf_lens c s Hw) as [Lt [Lf Lb]].
  assert (P : zlen (Select.tk s) = stored_rows c \/ zlen (Select.tk s) = stored_rows c - 1)
    by (unfold stored_rows; destruct (c_dup c); lia).
  destruct (pad_rows_ok _ _ P) as [P1 [P2 P3]].
  assert (Q : fits (nT c) (Select.tk s) = true) by (unfold fits; apply Z.eqb_eq; exact Lt).
  unfold cfg_ok in Hc. unfold acquire, dumps. destruct (c_fmt c).
  - destruct Hc as [Hn Hs].
    destruct (split_lens_ok (c_segs c) (Select.tk s) Hn ltac:(lia)) as [C F].
    cbn [ix_rows ix_tmasks ix_conv ix_kind ix_tail ix_dims]. rewrite C. repeat split. exact F.
  - cbn [ix_rows ix_tmasks ix_conv ix_kind ix_tail ix_dims List.concat all2]. rewrite app_nil_r, P1, P2, P3.
    repeat split.
  - destruct k; cbn [ix_rows ix_tmasks ix_conv ix_kind ix_tail ix_dims List.concat all2]; rewrite app_nil_r;
      try (rewrite P1, P2, P3; repeat split). rewrite Q. repeat split.
  - cbn [ix_rows ix_tmasks ix_conv ix_kind ix_tail ix_dims List.concat all2]. rewrite app_nil_r, Q. repeat split.
Qed.

(* ------------------------------------------------------------------ the two stages compose *)

Lemma resolve_keep_in_range n ix ps : 0 <= n -> resolve_keep n ix = Ok ps -> in_range n ps.
Proof.
  intros Hn H. unfold resolve_keep in H. destruct (resolve n ix) as [[p d]|] eqn:E; [|discriminate].
  cbn in H. injection H as <-. eapply resolve_in_range; eauto.
Qed.

Lemma pad3 ixs : pad_to 3 ixs = [ix_at ixs 3 0; ix_at ixs 3 1; ix_at ixs 3 2].
Proof. unfold ix_at. destruct ixs as [|a [|b [|c r]]]; reflexivity. Qed.
Lemma pad1 ixs : pad_to 1 ixs = [ix_at ixs 1 0].
Proof. unfold ix_at. destruct ixs as [|a r]; reflexivity. Qed.

Lemma zlen_map_znth (l p : list Z) : zlen (map (znth l) p) = zlen p.
Proof. apply zlen_map. Qed.

(* three-axis indexers (vis, flags, weights, raw flags) *)
Lemma index_take3 S x ix2 out f b : ix_tail x = [f; b] -> index S x ix2 = Ok out ->
  let T := List.concat (ix_tmasks x) in
  exists pt pf pb,
    resolve_keep (zlen (nonzero T)) (ix_at ix2 3 0) = Ok pt
    /\ resolve_keep (zlen (nonzero f)) (ix_at ix2 3 1) = Ok pf
    /\ resolve_keep (zlen (nonzero b)) (ix_at ix2 3 2) = Ok pb
    /\ out = mk_nd [zlen pt; zlen pf; zlen pb]
                   (take S [(map (znth (nonzero T)) pt, false); (map (znth (nonzero f)) pf, false);
                            (map (znth (nonzero b)) pb, false)])
    /\ all2 fits (ix_rows x) (ix_tmasks x) = true /\ all2 fits (ix_dims x) [f; b] = true.
Proof.
  intros Ht H T. unfold index in H. destruct (stage1 S x) as [a1|] eqn:E1; [|discriminate]. cbn [bind] in H.
  destruct (stage1_take S x a1 E1) as [F1 [F2 ->]]. rewrite Ht in F2.
  unfold tail_sels in H. rewrite Ht in H. cbn [map] in H. fold T in H.
  unfold oindex_keep, keep_sels in H. cbn [nd_shape nd_body List.length map fst mask_sel] in H.
  rewrite pad3 in H. cbn [combine mapM fst snd] in H.
  destruct (resolve_keep (zlen (nonzero T)) (ix_at ix2 3 0)) as [pt|] eqn:Rt; [|discriminate]. cbn [bind] in H.
  destruct (resolve_keep (zlen (nonzero f)) (ix_at ix2 3 1)) as [pf|] eqn:Rf; [|discriminate]. cbn [bind] in H.
  destruct (resolve_keep (zlen (nonzero b)) (ix_at ix2 3 2)) as [pb|] eqn:Rb; [|discriminate]. cbn [bind] in H.
  pose proof (resolve_keep_in_range _ _ _ (zlen_nonneg _) Rt) as It.
  pose proof (resolve_keep_in_range _ _ _ (zlen_nonneg _) Rf) as If.
  pose proof (resolve_keep_in_range _ _ _ (zlen_nonneg _) Rb) as Ib.
  assert (TC : take (take S [(nonzero T, false); (nonzero f, false); (nonzero b, false)])
                    [(pt, false); (pf, false); (pb, false)]
               = take S [(map (znth (nonzero T)) pt, false); (map (znth (nonzero f)) pf, false);
                         (map (znth (nonzero b)) pb, false)]).
  { rewrite take_compose; [reflexivity|reflexivity| |].
    - repeat constructor.
    - repeat constructor; cbn [fst snd]; try assumption; discriminate. }
  injection H as <-. exists pt, pf, pb. repeat split; try assumption.
  cbn [take_shape]. f_equal. exact TC.
Qed.

(* one-axis indexer (timestamps) *)
Lemma index_take1 S x ix2 out : ix_tail x = [] -> index S x ix2 = Ok out ->
  let T := List.concat (ix_tmasks x) in
  exists pt,
    resolve_keep (zlen (nonzero T)) (ix_at ix2 1 0) = Ok pt
    /\ out = mk_nd [zlen pt] (take S [(map (znth (nonzero T)) pt, false)])
    /\ all2 fits (ix_rows x) (ix_tmasks x) = true.
Proof.
  intros Ht H T. unfold index in H. destruct (stage1 S x) as [a1|] eqn:E1; [|discriminate]. cbn [bind] in H.
  destruct (stage1_take S x a1 E1) as [F1 [F2 ->]].
  unfold tail_sels in H. rewrite Ht in H. cbn [map] in H. fold T in H.
  unfold oindex_keep, keep_sels in H. cbn [nd_shape nd_body List.length map fst mask_sel] in H.
  rewrite pad1 in H. cbn [combine mapM fst snd] in H.
  destruct (resolve_keep (zlen (nonzero T)) (ix_at ix2 1 0)) as [pt|] eqn:Rt; [|discriminate]. cbn [bind] in H.
  pose proof (resolve_keep_in_range _ _ _ (zlen_nonneg _) Rt) as It.
  assert (TC : take (take S [(nonzero T, false)]) [(pt, false)] = take S [(map (znth (nonzero T)) pt, false)]).
  { rewrite take_compose; [reflexivity|reflexivity| |].
    - repeat constructor.
    - repeat constructor; cbn [fst snd]; try assumption; discriminate. }
  injection H as <-. exists pt. repeat split; try assumption.
  cbn [take_shape]. f_equal. exact TC.
Qed.

(* ------------------------------------------------------------------ C01_elements on one indexer *)

(* Every element of x[ix2], for x acquired under selection s, is the stored sample at the dump, channel and
   correlation product named by dumps / channels / corr_products of s; for every stored content S. *)
Lemma elements3 c S s k ix2 out : cfg_ok c -> wf c s -> k <> KTime ->
  index S (acquire c s k) ix2 = Ok out ->
  exists pt pf pb,
    resolve_keep (zlen (dumps s)) (ix_at ix2 3 0) = Ok pt
    /\ resolve_keep (zlen (channels s)) (ix_at ix2 3 1) = Ok pf
    /\ resolve_keep (zlen (cp_idx s)) (ix_at ix2 3 2) = Ok pb
    /\ nd_shape out = [zlen pt; zlen pf; zlen pb]
    /\ forall i j l, 0 <= i < zlen pt -> 0 <= j < zlen pf -> 0 <= l < zlen pb ->
         get (nd_body out) [i; j; l]
         = get S [znth (dumps s) (znth pt i); znth (channels s) (znth pf j); znth (cp_idx s) (znth pb l)].
Proof.
  intros Hc Hw Hk H.
  destruct (acquire_nf c s k Hc Hw) as [A1 [A2 [A3 [A4 [A5 [A6 A7]]]]]].
  assert (Ht : ix_tail (acquire c s k) = [Select.fk s; Select.bk s]) by (rewrite A6; destruct k; congruence).
  destruct (index_take3 S _ ix2 out _ _ Ht H) as [pt [pf [pb [Rt [Rf [Rb [-> _]]]]]]].
  rewrite A2 in *. exists pt, pf, pb. repeat split; try assumption.
  intros i j l Hi Hj Hl. cbn [nd_body].
  rewrite get_take.
  - cbn [combine map fst snd]. unfold channels, cp_idx. now rewrite !znth_map_znth by assumption.
  - repeat constructor.
  - constructor; [|constructor; [|constructor; [|constructor]]]; cbn [fst]; rewrite zlen_map_znth; assumption.
Qed.

Lemma elements1 c S s ix2 out : cfg_ok c -> wf c s ->
  index S (acquire c s KTime) ix2 = Ok out ->
  exists pt,
    resolve_keep (zlen (dumps s)) (ix_at ix2 1 0) = Ok pt
    /\ nd_shape out = [zlen pt]
    /\ forall i, 0 <= i < zlen pt -> get (nd_body out) [i] = get S [znth (dumps s) (znth pt i)].
Proof.
  intros Hc Hw H.
  destruct (acquire_nf c s KTime Hc Hw) as [A1 [A2 [A3 [A4 [A5 [A6 A7]]]]]].
  destruct (index_take1 S _ ix2 out A6 H) as [pt [Rt [-> _]]].
  rewrite A2 in *. exists pt. repeat split; try assumption.
  intros i Hi. cbn [nd_body]. rewrite get_take.
  - cbn [combine map fst snd]. now rewrite znth_map_znth by assumption.
  - repeat constructor.
  - constructor; [|constructor]; cbn [fst]; rewrite zlen_map_znth; assumption.
Qed.

(* ------------------------------------------------------------------ the same on labels: model = executable spec *)

Lemma flat_map_single {A B} (g : A -> B) l : flat_map (fun x => [g x]) l = map g l.
Proof. induction l as [|x r IH]; [reflexivity|]. cbn. now rewrite IH. Qed.

Lemma in_range_map_znth n l p : in_range n l -> in_range (zlen l) p -> in_range n (map (znth l) p).
Proof.
  intros Hl Hp. unfold in_range in *. rewrite Forall_forall in *. intros y Hy. apply in_map_iff in Hy.
  destruct Hy as [i [<- Hi]]. apply Hl. apply znth_in. apply Hp. exact Hi.
Qed.

Lemma all2_fits_2 a b f m : all2 fits [a; b] [f; m] = true -> zlen f = a /\ zlen m = b.
Proof.
  cbn. unfold fits. intro H. apply andb_prop in H. destruct H as [H1 H2]. apply andb_prop in H2. destruct H2 as [H2 _].
  split; now apply Z.eqb_eq.
Qed.

Lemma index_spec_labels c s k ix2 out : cfg_ok c -> wf c s ->
  index (stored_labels (acquire c s k)) (acquire c s k) ix2 = Ok out ->
  spec_index c s k ix2 = Ok (nd_shape out, flatten (nd_body out)).
Proof.
  intros Hc Hw H.
  destruct (acquire_nf c s k Hc Hw) as [A1 [A2 [A3 [A4 [A5 [A6 A7]]]]]].
  pose proof (all2_fits_concat _ _ A1) as RT.
  destruct (wf_lens c s Hw) as [Lt [Lf Lb]].
  assert (ID : in_range (rows_total (ix_rows (acquire c s k))) (dumps s)).
  { rewrite <- RT, <- A2. apply nonzero_in_range. }
  destruct k.
  1-4: (assert (Ht : ix_tail (acquire c s _) = [Select.fk s; Select.bk s]) by (rewrite A6; reflexivity);
        destruct (index_take3 _ _ ix2 out _ _ Ht H) as [pt [pf [pb [Rt [Rf [Rb [-> [_ F2]]]]]]]];
        rewrite A2 in *; rewrite A7 in F2; unfold spec_index; fold (channels s) (cp_idx s) in *;
        rewrite Rt, Rf, Rb; cbn [bind nd_shape nd_body]; f_equal; f_equal;
        pose proof (resolve_keep_in_range _ _ _ (zlen_nonneg _) Rt) as It;
        pose proof (resolve_keep_in_range _ _ _ (zlen_nonneg _) Rf) as If;
        pose proof (resolve_keep_in_range _ _ _ (zlen_nonneg _) Rb) as Ib;
        unfold stored_labels; rewrite A7;
        rewrite flatten_take_arange;
        [ cbn [fst]; rewrite flat_map_map; apply flat_map_ext_in; intros i _;
          rewrite flat_map_map; apply flat_map_ext_in; intros j _;
          rewrite flat_map_map, flat_map_single; apply map_ext; intro l; unfold pos3; lia
        | repeat constructor
        | destruct (all2_fits_2 _ _ _ _ F2) as [Ff Fb];
          repeat constructor; cbn [fst];
          [ apply in_range_map_znth; assumption
          | apply in_range_map_znth; [rewrite <- Ff; apply nonzero_in_range|assumption]
          | apply in_range_map_znth; [rewrite <- Fb; apply nonzero_in_range|assumption] ] ]).
  (* timestamps *)
  destruct (index_take1 _ _ ix2 out A6 H) as [pt [Rt [-> _]]].
  rewrite A2 in *. unfold spec_index. rewrite Rt. cbn [bind nd_shape nd_body]. f_equal. f_equal.
  pose proof (resolve_keep_in_range _ _ _ (zlen_nonneg _) Rt) as It.
  unfold stored_labels. rewrite A7. rewrite flatten_take_arange.
  - cbn [fst]. rewrite flat_map_map, flat_map_single. apply map_ext. intro i. lia.
  - repeat constructor.
  - repeat constructor. cbn [fst]. apply in_range_map_znth; assumption.
Qed.

(* ------------------------------------------------------------------ histories *)

Lemma run_app c : forall a b d, run c d (a ++ b) = match run c d a with Some d1 => run c d1 b | None => None end.
Proof.
  induction a as [|o a IH]; intros b d; [reflexivity|]. cbn [app run].
  destruct (step c d o); [apply IH|reflexivity].
Qed.

Lemma step_reachable c d o d' : step c d o = Some d' ->
  SelectP.reachable (c_obs c) (ds_sel d) -> SelectP.reachable (c_obs c) (ds_sel d').
Proof.
  intros H R. destruct o as [kw|k|id ix2|]; cbn in H; try (injection H as <-; exact R).
  destruct (Select.select (c_obs c) (ds_sel d) kw) as [s'|[|]] eqn:E; try discriminate.
  - injection H as <-. cbn. eapply SelectP.reach_step; eauto.
  - injection H as <-. exact R.
Qed.

Lemma run_reachable c : forall ops d d', run c d ops = Some d' ->
  SelectP.reachable (c_obs c) (ds_sel d) -> SelectP.reachable (c_obs c) (ds_sel d').
Proof.
  induction ops as [|o r IH]; intros d d' H R; cbn in H; [injection H as <-; exact R|].
  destruct (step c d o) as [d1|] eqn:E; [|discriminate]. eapply IH; eauto. eapply step_reachable; eauto.
Qed.

Lemma run_wf c ops d : run c (start c) ops = Some d -> wf c (ds_sel d).
Proof.
  intro H. unfold wf. apply SelectP.inv_wf. apply SelectP.reachable_inv.
  eapply run_reachable; [exact H|]. apply SelectP.reach_init.
Qed.

(* indexers, once acquired, stay in the table unchanged: nothing a later operation does can reach them *)
Lemma step_ixs c d o d' : step c d o = Some d' -> exists extra, ds_ixs d' = ds_ixs d ++ extra.
Proof.
  intro H. destruct o as [kw|k|id ix2|]; cbn in H.
  - destruct (Select.select (c_obs c) (ds_sel d) kw) as [s'|[|]]; try discriminate; injection H as <-;
      exists []; cbn; now rewrite app_nil_r.
  - injection H as <-. eexists. reflexivity.
  - injection H as <-. exists []. now rewrite app_nil_r.
  - injection H as <-. exists []. now rewrite app_nil_r.
Qed.

Lemma run_ixs c : forall ops d d', run c d ops = Some d' -> exists extra, ds_ixs d' = ds_ixs d ++ extra.
Proof.
  induction ops as [|o r IH]; intros d d' H; cbn in H.
  - injection H as <-. exists []. now rewrite app_nil_r.
  - destruct (step c d o) as [d1|] eqn:E; [|discriminate].
    destruct (step_ixs c d o d1 E) as [e1 E1]. destruct (IH d1 d' H) as [e2 E2].
    exists (e1 ++ e2). now rewrite E2, E1, app_assoc.
Qed.

(* the indexer acquired after the prefix h1 is found, unchanged, after ANY continuation h2 *)
Lemma acquired_persists c h1 k h2 d1 d2 :
  run c (start c) h1 = Some d1 -> run c (start c) (h1 ++ OAcquire k :: h2) = Some d2 ->
  nth_error (ds_ixs d2) (List.length (ds_ixs d1)) = Some (acquire c (ds_sel d1) k).
Proof.
  intros H1 H2. rewrite run_app, H1 in H2. cbn [run step] in H2.
  destruct (run_ixs c _ _ _ H2) as [extra E]. rewrite E. cbn [ds_ixs].
  rewrite <- app_assoc. rewrite nth_error_app2 by lia. now rewrite Nat.sub_diag.
Qed.

(* ------------------------------------------------------------------ C01_shape *)

Lemma shape_lengths c s : wf c s ->
  shape s = [zlen (dumps s); zlen (channels s); zlen (cp_idx s)]
  /\ zlen (corr_products c s) = zlen (cp_idx s)
  /\ (forall A (full : list A), zlen full = nF c -> zlen (freqs full s) = zlen (channels s))
  /\ (forall A (full : list A), zlen full = nT c -> zlen (sensor full s) = zlen (dumps s)).
Proof.
  intro Hw. destruct (wf_lens c s Hw) as [Lt [Lf Lb]]. unfold shape, dumps, channels, cp_idx.
  rewrite !msum_nonzero. split; [reflexivity|]. split; [|split].
  - unfold corr_products. apply select_length. unfold nB, Select.dimlen, zlen in Lb. lia.
  - intros A full H. unfold freqs. apply select_length. unfold zlen in *. lia.
  - intros A full H. unfold sensor. apply select_length. unfold zlen in *. lia.
Qed.

Lemma time_rows_le c s : cfg_ok c -> rows_total (ix_rows (acquire c s KTime)) <= stored_rows c.
Proof.
  intro Hc. unfold cfg_ok in Hc. unfold acquire, stored_rows.
  destruct (c_fmt c); cbn [ix_rows]; [destruct Hc as [_ ->]|..]; unfold rows_total, stored_rows; cbn [fold_right];
    destruct (c_dup c); lia.
Qed.

Lemma timestamps_length c s : cfg_ok c -> wf c s -> stored_rows c <= zlen (c_ts c) ->
  zlen (timestamps c s) = zlen (dumps s).
Proof.
  intros Hc Hw Hl. unfold timestamps. rewrite zlen_map.
  destruct (acquire_nf c s KTime Hc Hw) as [A1 [A2 _]]. rewrite <- A2. unfold time_mask.
  apply select_length. pose proof (all2_fits_concat _ _ A1) as RT.
  pose proof (time_rows_le c s Hc).
  unfold zlen in *. lia.
Qed.

Lemma adv_shape_acquire c s k : cfg_ok c -> wf c s ->
  adv_shape (acquire c s k) = match k with KTime => [msum (Select.tk s)] | _ => shape s end.
Proof.
  intros Hc Hw. destruct (acquire_nf c s k Hc Hw) as [A1 [A2 [A3 [A4 [A5 [A6 A7]]]]]].
  unfold adv_shape. rewrite A3, A6. destruct k; reflexivity.
Qed.

Lemma resolve_keep_full n : 0 <= n -> resolve_keep n full = Ok (zrange n).
Proof.
  intro H. unfold resolve_keep, resolve, full, slice_positions.
  rewrite slice_indices_full. cbn [bind fst]. now rewrite py_range_full.
Qed.

(* x[:] exists and has the advertised shape *)
Lemma index_full c S s k : cfg_ok c -> wf c s ->
  exists out, index S (acquire c s k) [] = Ok out /\ nd_shape out = adv_shape (acquire c s k).
Proof.
  intros Hc Hw. destruct (acquire_nf c s k Hc Hw) as [A1 [A2 [A3 [A4 [A5 [A6 A7]]]]]].
  destruct (wf_lens c s Hw) as [Lt [Lf Lb]].
  unfold index, stage1. rewrite A1, A6, A7.
  assert (F2 : all2 fits (match k with KTime => [] | _ => [nF c; nB c] end)
                         (match k with KTime => [] | _ => [Select.fk s; Select.bk s] end) = true).
  { destruct k; cbn; unfold fits; rewrite ?Lf, ?Lb, ?Z.eqb_refl; reflexivity. }
  rewrite F2. cbn [andb bind]. unfold oindex_keep, keep_sels. cbn [nd_shape nd_body].
  unfold adv_shape. rewrite A6, !msum_nonzero.
  destruct k; unfold tail_sels; rewrite A6; cbn [map List.length pad_to combine mapM fst snd mask_sel];
    rewrite !resolve_keep_full by apply zlen_nonneg; cbn [bind]; eexists; (split; [reflexivity|]);
    cbn [nd_shape take_shape map]; rewrite !zrange_length by apply zlen_nonneg; rewrite ?msum_nonzero; reflexivity.
Qed.

(* ------------------------------------------------------------------ C01_labels *)

Lemma labels c s : cfg_ok c -> wf c s ->
  (zlen (c_ts c) = stored_rows c -> forall i, 0 <= i < zlen (dumps s) ->
     nth (Z.to_nat i) (timestamps c s) 0%Q = conv_t c (nth (Z.to_nat (znth (dumps s) i)) (c_ts c) 0%Q))
  /\ (forall A (full : list A) d j, zlen full = nF c -> 0 <= j < zlen (channels s) ->
        nth (Z.to_nat j) (freqs full s) d = nth (Z.to_nat (znth (channels s) j)) full d)
  /\ (forall A (full : list A) d i, zlen full = nT c -> 0 <= i < zlen (dumps s) ->
        nth (Z.to_nat i) (sensor full s) d = nth (Z.to_nat (znth (dumps s) i)) full d)
  /\ (forall d l, 0 <= l < zlen (cp_idx s) ->
        nth (Z.to_nat l) (corr_products c s) d = nth (Z.to_nat (znth (cp_idx s) l)) (Select.o_cps (c_obs c)) d).
Proof.
  intros Hc Hw. destruct (wf_lens c s Hw) as [Lt [Lf Lb]]. split; [|split; [|split]].
  - intros Hl i Hi. unfold timestamps.
    destruct (acquire_nf c s KTime Hc Hw) as [A1 [A2 _]].
    pose proof (all2_fits_concat _ _ A1) as RT. fold (time_mask c s) in A2, RT.
    assert (LE : (List.length (time_mask c s) <= List.length (c_ts c))%nat).
    { pose proof (time_rows_le c s Hc). unfold zlen in *. lia. }
    rewrite nth_map_in with (d' := 0%Q).
    + f_equal. rewrite nth_select by (try assumption; rewrite A2; assumption). now rewrite A2.
    + pose proof (select_length (time_mask c s) (c_ts c) LE) as SL. rewrite A2 in SL. unfold zlen in *. lia.
  - intros A full d j Hl Hj. unfold freqs, channels in *. apply nth_select; [unfold zlen in *; lia|assumption].
  - intros A full d i Hl Hi. unfold sensor, dumps in *. apply nth_select; [unfold zlen in *; lia|assumption].
  - intros d l Hl. unfold corr_products, cp_idx in *. apply nth_select; [|assumption].
    unfold nB, Select.dimlen, zlen in Lb. lia.
Qed.

(* ------------------------------------------------------------------ link with C05 / C04 *)

(* For the formats with ONE underlying dataset (v2, v3, v4) the first stage of the model is literally
   dataset[time mask, freq mask, corrprod mask] under outer indexing, i.e. the first stage of C05's spec_getitem /
   C04's spec (LazyIndexer(dataset, keep=stage1), DaskLazyIndexer(dataset, stage1)); index = that, then [ix2]. *)
Lemma pad_to_same : forall (l : list aidx), pad_to (List.length l) l = l.
Proof. induction l as [|a r IH]; [reflexivity|]. cbn. now rewrite IH. Qed.

Lemma keep_sels_masks : forall dims masks, List.length dims = List.length masks ->
  keep_sels dims (map AMask masks) = if all2 fits dims masks then Ok (map mask_sel masks) else Err.
Proof.
  intros dims masks L. unfold keep_sels. rewrite L, <- (map_length AMask masks), pad_to_same.
  revert masks L. induction dims as [|d r IH]; intros [|m ms] L; try discriminate; [reflexivity|].
  injection L as L. cbn [map combine mapM fst snd all2]. unfold resolve_keep at 1, resolve, fits at 1.
  destruct (zlen m =? d); [|reflexivity]. cbn [bind fst andb]. rewrite (IH ms L).
  destruct (all2 fits r ms); reflexivity.
Qed.

Lemma single_part_is_outer_indexing S x n m : ix_rows x = [n] -> ix_tmasks x = [m] ->
  List.length (ix_dims x) = List.length (ix_tail x) ->
  stage1 S x = oindex_keep (mk_nd (n :: ix_dims x) S) (map AMask (m :: ix_tail x)).
Proof.
  intros Hr Hm L. unfold oindex_keep. cbn [nd_shape nd_body].
  rewrite keep_sels_masks by (cbn; now rewrite L).
  destruct (stage1 S x) as [a1|] eqn:E.
  - destruct (stage1_take S x a1 E) as [F1 [F2 ->]]. rewrite Hr, Hm in F1. cbn [all2] in F1 |- *.
    rewrite andb_true_r in F1. rewrite F1, F2. cbn [andb bind]. rewrite Hm. cbn [List.concat]. rewrite app_nil_r.
    f_equal. f_equal. unfold tail_sels. cbn [map]. rewrite take_shape_keep.
    + reflexivity.
    + constructor; [reflexivity|]. apply Forall_forall. intros s0 Hs. apply in_map_iff in Hs.
      destruct Hs as [mm [<- _]]. reflexivity.
  - unfold stage1 in E. rewrite Hr, Hm in E. cbn [all2] in E |- *. rewrite andb_true_r in E.
    destruct (fits n m && all2 fits (ix_dims x) (ix_tail x)); [discriminate|reflexivity].
Qed.
