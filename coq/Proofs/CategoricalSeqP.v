(* C11: partition followed by concatenation, and histories of operations. *)
From Coq Require Import ZArith List Bool Arith Lia.
From KV Require Import Base.Sx Model.Categorical Proofs.CategoricalP Proofs.CategoricalAddP Proofs.CategoricalPartP
  Proofs.CategoricalConcatP Proofs.CategoricalRemoveP Proofs.CategoricalAlignP.
Import ListNotations.
Open Scope nat_scope.

Section SeqP.
Context {V : Type} (veqb : V -> V -> bool) (dflt : V).
Context (veqb_spec : forall a b, veqb a b = true <-> a = b).
Notation cdV := (@cd V).

(* concatenation of any well-formed parts that start at dump 0 (repeats allowed or not) *)
Lemma concatenate_expand (parts : list cdV) ar cc :
  (forall p, In p parts -> WF p /\ start0 p /\ idx p <> []) ->
  concatenate veqb dflt parts ar = Some cc ->
  WF cc /\ start0 cc /\ ndumps cc = list_sum (map ndumps parts) /\
  expand dflt cc = concat (map (expand dflt) parts).
Proof.
  intros HP HC.
  assert (HP1 : forall p, In p parts -> WF p /\ start0 p) by (intros p Hp; destruct (HP p Hp); tauto).
  assert (HP2 : forall p, In p parts -> idx p <> []) by (intros p Hp; destruct (HP p Hp); tauto).
  destruct parts as [|p1 [|p2 rest]].
  - simpl in HC. discriminate.
  - simpl in HC. inversion HC; subst cc. destruct (HP p1 (or_introl eq_refl)) as (A & B & _).
    simpl. rewrite app_nil_r. split; [exact A|]. split; [exact B|]. split; [lia|reflexivity].
  - assert (NE : p1 :: p2 :: rest <> []) by discriminate.
    destruct ar.
    + pose proof (concatenate_repeats_expand veqb dflt veqb_spec _ cc NE HP1 HC).
      destruct (concatenate_repeats_WF veqb dflt veqb_spec _ cc NE HP1 HC HP2) as (A & B & D). split; [exact A|]. split; [exact B|]. split; auto.
    + rewrite concatenate_norepeats_eq in HC by (simpl; lia).
      destruct (concatenate veqb dflt (p1 :: p2 :: rest) true) as [c1|] eqn:E1; [|discriminate].
      pose proof (concatenate_repeats_expand veqb dflt veqb_spec _ c1 NE HP1 E1) as X1.
      destruct (concatenate_repeats_WF veqb dflt veqb_spec _ c1 NE HP1 E1 HP2) as (A & B & D).
      destruct (remove_repeats_WF c1 cc A HC) as (A' & N' & H' & _).
      pose proof (remove_repeats_expand dflt c1 cc A HC) as X2.
      split; auto. split. { unfold start0 in *. congruence. } split; congruence.
Qed.

(* partition_concat_id *)
Lemma partition_concat_id (c : cdV) segs ar : WF c -> start0 c -> incr segs ->
  hd 0 segs = 0 -> last segs 0 = ndumps c ->
  concat (map (expand dflt) (partition c segs)) = expand dflt c /\
  forall cc, concatenate veqb dflt (partition c segs) ar = Some cc ->
    expand dflt cc = expand dflt c /\ WF cc /\ start0 cc /\ ndumps cc = ndumps c.
Proof.
  intros W S0 I H0 HN. pose proof (partition_concat_expand dflt c segs W S0 I H0 HN) as PC.
  split; auto. intros cc HC.
  destruct (partition_spec dflt c segs W S0 I) as (_ & HP & HS); [lia|].
  destruct (concatenate_expand (partition c segs) ar cc) as (A & B & D & E); auto.
  { intros p Hp. destruct (HP p Hp); tauto. }
  split; [congruence|]. split; [exact A|]. split; [exact B|]. lia.
Qed.

(* histories: every operation of a sequence keeps the invariant and the number of dumps *)
Lemma apply_op_WF (c c' : cdV) N o : WF c -> ndumps c = N -> op_ok N o -> apply_op veqb dflt c o = Some c' ->
  WF c' /\ ndumps c' = N.
Proof.
  intros W HN OK H. destruct o as [e [v|]|v|segs d|segs| |segs ar]; simpl in *.
  - destruct (add_value_spec veqb dflt veqb_spec c e v W) as (c1 & E1 & W1 & N1 & _); [lia|].
    rewrite E1 in H. inversion H; subst. split; [assumption|first [congruence|lia]].
  - destruct (add_novalue_spec veqb dflt c c' e W H) as (W1 & N1 & _). split; [assumption|first [congruence|lia]].
  - inversion H; subst. destruct (remove_WF veqb c v W). split; [assumption|first [congruence|lia]].
  - inversion H; subst. destruct (add_unmatched_spec veqb dflt c segs d W) as (W1 & N1 & _). split; [assumption|first [congruence|lia]].
  - destruct OK as [I HI]. destruct (align_WF dflt c segs c' W I H) as (W1 & _).
    split; auto. rewrite (align_ends dflt c segs c' W I H); auto. rewrite HN; auto.
  - destruct (remove_repeats_WF c c' W H) as (W1 & N1 & _). split; [assumption|first [congruence|lia]].
  - tauto.
Qed.

Lemma run_ops_WF ops : forall (c c' : cdV) N, WF c -> ndumps c = N -> Forall (op_ok N) ops ->
  run_ops veqb dflt c ops = Some c' -> WF c' /\ ndumps c' = N.
Proof.
  induction ops as [|o ops IH]; intros c c' N W HN F H; simpl in H.
  - inversion H; subst. auto.
  - inversion F; subst. destruct (apply_op veqb dflt c o) as [c1|] eqn:E; [|discriminate].
    destruct (apply_op_WF c c1 (ndumps c) o W eq_refl H2 E) as [W1 N1]. apply (IH c1 c' (ndumps c)); auto.
Qed.

End SeqP.

(* a concrete series on which every hypothesis above holds *)
Definition ex_c : @cd nat := mk [7; 8; 9] [0; 1; 0; 2] [0; 2; 5; 6; 10].
Lemma ex_c_facts :
  WF ex_c /\ start0 ex_c /\ expand 0 ex_c = [7;7;8;8;8;7;9;9;9;9] /\
  option_map (expand 0) (add Nat.eqb ex_c 3 (Some 5)) = Some [7;7;8;5;5;7;9;9;9;9] /\
  expand 0 (remove Nat.eqb ex_c 7) = [8;8;8;8;9;9;9;9] /\
  option_map (expand 0) (align 0 ex_c [0; 4; 10]) = Some [8;8;8;8;9;9;9;9;9;9] /\
  map (expand 0) (partition ex_c [0; 3; 10]) = [[7;7;8]; [8;8;7;9;9;9;9]] /\
  option_map (expand 0) (concatenate Nat.eqb 0 (partition ex_c [0; 3; 10]) false) = Some (expand 0 ex_c) /\
  getitem 0 ex_c (KSlice (Some (-3)%Z) None (Some (-2)%Z)) = GList [9; 7; 8; 7].
Proof.
  split.
  { unfold WF, ex_c; cbn [uv idx ev]. split. simpl; lia. split. reflexivity. split.
    repeat constructor. repeat constructor; simpl; intuition lia. }
  split. reflexivity. repeat split; vm_compute; reflexivity.
Qed.
