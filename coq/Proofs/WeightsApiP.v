(* C15, round 2: proofs about Model/WeightsApi.v (the glue around the weights core). *)
From Coq Require Import ZArith QArith Qcanon List Bool Arith Lia.
From KV Require Import Base.Sx Gen.Generated Model.Interp Model.Weights Model.WeightsApi
                       Proofs.WeightsP Proofs.WeightsBlocksP Proofs.WeightsNumP.
Import ListNotations.
Close Scope Q_scope.
Open Scope nat_scope.

(* ------------------------------------------------------------------ _narrow loses nothing *)
(* what every row of the regenerated if-chain must satisfy: the values accepted by the test fit the width *)
Definition entry_ok (e : bool * Z * Z) : bool :=
  let '(le, th, b) := e in (0 <=? b)%Z && ((if le then th else th - 1) <? 2 ^ b)%Z.

Lemma narrow_table_ok : forallb entry_ok narrow_table = true.
Proof. vm_compute. reflexivity. Qed.

Lemma zmin_list_le : forall l x v, In v (x :: l) -> (zmin_list x l <= v)%Z.
Proof.
  unfold zmin_list. induction l as [| y l IH]; intros x v H; cbn [fold_left].
  - destruct H as [-> | []]. lia.
  - destruct H as [<- | [<- | H]].
    + specialize (IH (Z.min x y) (Z.min x y) (or_introl eq_refl)). lia.
    + specialize (IH (Z.min x y) (Z.min x y) (or_introl eq_refl)). lia.
    + apply IH. right. exact H.
Qed.

Lemma zmax_list_ge : forall l x v, In v (x :: l) -> (v <= zmax_list x l)%Z.
Proof.
  unfold zmax_list. induction l as [| y l IH]; intros x v H; cbn [fold_left].
  - destruct H as [-> | []]. lia.
  - destruct H as [<- | [<- | H]].
    + specialize (IH (Z.max x y) (Z.max x y) (or_introl eq_refl)). lia.
    + specialize (IH (Z.max x y) (Z.max x y) (or_introl eq_refl)). lia.
    + apply IH. right. exact H.
Qed.

Lemma map_id_in : forall {A} (f : A -> A) l, (forall x, In x l -> f x = x) -> map f l = l.
Proof.
  induction l as [| y l IH]; intros H; [reflexivity |]. cbn. rewrite H by (left; reflexivity).
  rewrite IH; [reflexivity |]. intros x Hx. apply H. right. exact Hx.
Qed.

(* for ANY table whose rows are sound, every value survives the conversion *)
Theorem narrow_gen_lossless : forall table eb l, forallb entry_ok table = true -> snd (narrow_gen table eb l) = l.
Proof.
  intros table eb l Hok. unfold narrow_gen. cbn [snd]. apply map_id_in. intros v Hv.
  destruct l as [| x r]; [destruct Hv |]. cbn [narrow_dtype_gen].
  destruct (zmin_list x r <? 0)%Z eqn:Elo; [reflexivity |].
  destruct (find (narrow_hit (zmax_list x r)) table) as [[[le th] b] |] eqn:Ef; [| reflexivity].
  apply find_some in Ef. destruct Ef as [Hin Hhit].
  rewrite forallb_forall in Hok. specialize (Hok _ Hin). cbn in Hok, Hhit.
  apply andb_prop in Hok. destruct Hok as [Hb Hth].
  pose proof (zmin_list_le r x v Hv). pose proof (zmax_list_ge r x v Hv).
  cbn [astype]. apply Z.mod_small. apply Z.ltb_ge in Elo. apply Z.leb_le in Hb. apply Z.ltb_lt in Hth.
  destruct le; [apply Z.leb_le in Hhit | apply Z.ltb_lt in Hhit]; lia.
Qed.

Corollary narrow_lossless : forall l, snd (narrow l) = l.
Proof. intros l. apply narrow_gen_lossless. exact narrow_table_ok. Qed.

(* the chosen type is the FIRST row that accepts the maximum (no negative values) *)
Lemma narrow_dtype_first : forall x r, (0 <= zmin_list x r)%Z ->
  fst (narrow (x :: r)) = match find (narrow_hit (zmax_list x r)) narrow_table with
                          | Some (_, _, b) => UInt b | None => KeepDtype end.
Proof.
  intros x r H. unfold narrow, narrow_gen. cbn [fst narrow_dtype_gen].
  apply Z.ltb_ge in H. rewrite H. reflexivity.
Qed.

(* ------------------------------------------------------------------ corrprod_to_autocorr as called *)
Lemma c2a_api_nil : c2a_api [] = Err ValueError.
Proof. reflexivity. Qed.

Lemma c2a_nonempty : forall cps ai i1 i2, cps <> [] -> corrprod_to_autocorr cps = Some (ai, i1, i2) ->
  ai <> [] /\ i1 <> [] /\ i2 <> [].
Proof.
  intros cps ai i1 i2 Hne E. apply auto_lookup in E. destruct E as [_ [L1 [L2 H]]].
  destruct cps as [| [a b] t]; [congruence |].
  destruct (H 0 a b eq_refl) as [p [q [_ [_ [Hp _]]]]].
  repeat split.
  - intros ->. destruct (nth 0 i1 0); discriminate.
  - intros ->. discriminate.
  - intros ->. discriminate.
Qed.

Lemma is_nil_false : forall {A} (l : list A), l <> [] -> is_nil l = false.
Proof. intros A [| x l] H; [congruence | reflexivity]. Qed.

(* on a non-empty product list: KeyError exactly when the scan fails, else the three arrays with their values intact *)
Theorem c2a_api_spec : forall cps, cps <> [] ->
  match corrprod_to_autocorr cps with
  | None => c2a_api cps = Err KeyError
  | Some (ai, i1, i2) =>
      exists d1 d2 d3, c2a_api cps = Ok ((d1, map Z.of_nat ai), (d2, map Z.of_nat i1), (d3, map Z.of_nat i2))
  end.
Proof.
  intros cps Hne. unfold c2a_api. destruct (corrprod_to_autocorr cps) as [[[ai i1] i2] |] eqn:E; [| reflexivity].
  destruct (c2a_nonempty _ _ _ _ Hne E) as [H0 [H1 H2]].
  rewrite (is_nil_false _ H0), (is_nil_false _ H1), (is_nil_false _ H2). cbn [orb].
  pose proof (narrow_lossless (map Z.of_nat ai)) as N0. pose proof (narrow_lossless (map Z.of_nat i1)) as N1.
  pose proof (narrow_lossless (map Z.of_nat i2)) as N2.
  destruct (narrow (map Z.of_nat ai)) as [d1 l1]. destruct (narrow (map Z.of_nat i1)) as [d2 l2].
  destruct (narrow (map Z.of_nat i2)) as [d3 l3]. cbn [snd] in N0, N1, N2. subst l1 l2 l3.
  exists d1, d2, d3. reflexivity.
Qed.

Lemma c2a_api_ok_iff : forall cps, (exists r, c2a_api cps = Ok r) <-> cps <> [] /\ has_autos cps.
Proof.
  intros cps. split.
  - intros [r H]. destruct cps as [| c t]; [discriminate |]. split; [discriminate |].
    unfold c2a_api in H. destruct (corrprod_to_autocorr (c :: t)) as [x |] eqn:E; [| discriminate].
    eapply ok_has_autos. exact E.
  - intros [Hne Ha]. pose proof (c2a_api_spec cps Hne) as S.
    destruct (has_autos_ok cps Ha) as [ai [i1 [i2 E]]]. rewrite E in S. destruct S as [d1 [d2 [d3 S]]]. eauto.
Qed.

(* ------------------------------------------------------------------ the constructor's options *)
Definition vv_arg (vvo : vv_opt) (table : list node) : option (list node) :=
  match vvo with VAuto => Some table | _ => None end.

(* with a non-empty product list of the right length and a legal van_vleck string the constructor IS the core model *)
Theorem vfw_api_core : forall cps scaled vvo table vis bchv w bchw wc tch fch,
  cps <> [] -> vvo <> VOther ->
  vfw_api (Some cps) scaled vvo table (List.length cps) vis bchv w bchw wc tch fch =
  match vis_flags_weights cps scaled (vv_arg vvo table) vis bchv w bchw wc tch fch with
  | Some r => Ok (mkOut (v_vis r) (v_weights r) (Some (v_unscaled r)))
  | None => Err KeyError
  end.
Proof.
  intros cps scaled vvo table vis bchv w bchw wc tch fch Hne Hvv.
  unfold vfw_api, check_cps. rewrite Nat.eqb_refl.
  pose proof (c2a_api_spec cps Hne) as S.
  destruct (corrprod_to_autocorr cps) as [[[ai i1] i2] |] eqn:E.
  - destruct S as [d1 [d2 [d3 S]]]. rewrite S.
    unfold vis_flags_weights.
    destruct vvo; [| | congruence]; cbn [vv_arg].
    + destruct scaled.
      * destruct (scale_weights false cps vis bchv (stored_weights w wc) bchw tch fch); reflexivity.
      * destruct (scale_weights true cps vis bchv (stored_weights w wc) bchw tch fch); reflexivity.
    + destruct (correct_autocorr table cps vis bchv tch fch) as [v |]; [| reflexivity].
      destruct scaled.
      * destruct (scale_weights false cps v [List.length cps] (stored_weights w wc) bchw tch fch); reflexivity.
      * destruct (scale_weights true cps v [List.length cps] (stored_weights w wc) bchw tch fch); reflexivity.
  - rewrite S. unfold vis_flags_weights, correct_autocorr, scale_weights. rewrite E.
    destruct vvo; [| | congruence]; cbn [vv_arg]; [destruct scaled |]; reflexivity.
Qed.

Lemma vfw_no_corrprods : forall table B vis bchv w bchw wc tch fch,
  vfw_api None true VOff table B vis bchv w bchw wc tch fch = Ok (mkOut vis (stored_weights w wc) None).
Proof. reflexivity. Qed.

Lemma vfw_unscaled_without_corrprods : forall table B vis bchv w bchw wc tch fch,
  vfw_api None false VOff table B vis bchv w bchw wc tch fch = Err ValueError.
Proof. reflexivity. Qed.

Lemma vfw_bad_van_vleck : forall cps scaled table B vis bchv w bchw wc tch fch,
  vfw_api cps scaled VOther table B vis bchv w bchw wc tch fch = Err ValueError.
Proof. reflexivity. Qed.

Lemma vfw_van_vleck_without_corrprods : forall scaled table B vis bchv w bchw wc tch fch,
  vfw_api None scaled VAuto table B vis bchv w bchw wc tch fch = Err TypeError.
Proof. reflexivity. Qed.

Lemma vfw_wrong_length : forall cps scaled vvo table B vis bchv w bchw wc tch fch,
  List.length cps <> B -> vvo <> VOther ->
  vfw_api (Some cps) scaled vvo table B vis bchv w bchw wc tch fch = Err AssertionError.
Proof.
  intros cps scaled vvo table B vis bchv w bchw wc tch fch H Hvv. unfold vfw_api, check_cps.
  apply Nat.eqb_neq in H. rewrite H. destruct vvo; [reflexivity | reflexivity | congruence].
Qed.

Lemma vfw_empty_corrprods : forall scaled vvo table vis bchv w bchw wc tch fch,
  vvo <> VOther -> vfw_api (Some []) scaled vvo table 0 vis bchv w bchw wc tch fch = Err ValueError.
Proof. intros scaled vvo table vis bchv w bchw wc tch fch Hvv. destruct vvo; [reflexivity | reflexivity | congruence]. Qed.

(* every option left out: no corrprods, stored weights taken as scaled, no Van Vleck step *)
Lemma vfw_defaults : forall B vis bchv w bchw wc tch fch,
  vfw_api_default B vis bchv w bchw wc tch fch = Ok (mkOut vis (stored_weights w wc) None).
Proof. reflexivity. Qed.

(* errors are the ONLY other outcome: an answer implies a usable product list or none at all *)
Lemma vfw_api_ok_cases : forall cps scaled vvo table B vis bchv w bchw wc tch fch o,
  vfw_api cps scaled vvo table B vis bchv w bchw wc tch fch = Ok o ->
  vvo <> VOther /\
  match cps with
  | None => scaled = true /\ vvo = VOff /\ o = mkOut vis (stored_weights w wc) None
  | Some c => c <> [] /\ List.length c = B /\ has_autos c /\ exists u, o_unscaled o = Some u
  end.
Proof.
  intros cps scaled vvo table B vis bchv w bchw wc tch fch o H.
  split; [intros ->; discriminate |].
  destruct cps as [c |].
  - unfold vfw_api, check_cps in H.
    destruct (Nat.eqb (List.length c) B) eqn:EB.
    + apply Nat.eqb_eq in EB.
      destruct (c2a_api c) as [r |] eqn:Ec.
      * assert (Hok : exists r, c2a_api c = Ok r) by eauto. apply c2a_api_ok_iff in Hok. destruct Hok as [Hne Ha].
        split; [exact Hne | split; [exact EB | split; [exact Ha |]]].
        destruct vvo; try discriminate.
        -- destruct scaled.
           ++ destruct (scale_weights false c vis bchv (stored_weights w wc) bchw tch fch); inversion H; subst; cbn [o_unscaled]; eauto.
           ++ destruct (scale_weights true c vis bchv (stored_weights w wc) bchw tch fch); inversion H; subst; cbn [o_unscaled]; eauto.
        -- destruct (correct_autocorr table c vis bchv tch fch); [| discriminate]. destruct scaled.
           ++ destruct (scale_weights false c a [B] (stored_weights w wc) bchw tch fch); inversion H; subst; cbn [o_unscaled]; eauto.
           ++ destruct (scale_weights true c a [B] (stored_weights w wc) bchw tch fch); inversion H; subst; cbn [o_unscaled]; eauto.
      * destruct vvo; discriminate.
    + destruct vvo; discriminate.
  - destruct vvo; try discriminate. destruct scaled; [| discriminate]. inversion H. auto.
Qed.

(* weight_power_scale with `divide` left out divides ("Divide (or multiply) weights by autocorrelations") *)
Lemma default_direction_divides : weights_default_divide = true.
Proof. reflexivity. Qed.
