(* C15: averaging — the accumulation loops compute, for every bin, the weighted mean of the unflagged samples, the
   summed unflagged weights and the AND / OR of the flags; partial bins at the end are dropped. *)
From Coq Require Import ZArith QArith Qcanon List Bool Arith Lia FinFun.
From KV Require Import Base.Sx Gen.Generated Model.Averager.
Import ListNotations.
Close Scope Q_scope.
Open Scope nat_scope.

(* ------------------------------------------------------------------ complex sums *)
Lemma cq_eq : forall a b c d : Qc, a = c -> b = d -> (a, b) = (c, d).
Proof. congruence. Qed.

Lemma cadd_assoc : forall x y z, cadd x (cadd y z) = cadd (cadd x y) z.
Proof. intros [a b] [c d] [e f]. unfold cadd. cbn [fst snd]. apply cq_eq; ring. Qed.
Lemma cadd_0_r : forall x, cadd x cq0 = x.
Proof. intros [a b]. unfold cadd, cq0. cbn [fst snd]. apply cq_eq; ring. Qed.
Lemma cadd_0_l : forall x, cadd cq0 x = x.
Proof. intros [a b]. unfold cadd, cq0. cbn [fst snd]. apply cq_eq; ring. Qed.
Lemma cscale_0 : forall x, cscale 0 x = cq0.
Proof. intros [a b]. unfold cscale, cq0. cbn [fst snd]. apply cq_eq; ring. Qed.

Definition eff_w (s : sample) : Qc := if s_flag s then 0%Qc else s_w s.

(* ------------------------------------------------------------------ the accumulation loop *)
Lemma fold_step : forall l a,
  fold_left step l a =
  mkAcc (cadd (vis_sum a) (csum (map s_vis l)))
        (cadd (vis_weight_sum a) (csum (map (fun s => cscale (eff_w s) (s_vis s)) l)))
        (weight_sum a + qsum (map eff_w l))%Qc
        (flag_any a || existsb s_flag l) (flag_all a && forallb s_flag l).
Proof.
  induction l as [| s l IH]; intros [vs vws ws fa fl]; cbn [fold_left map csum qsum fold_right existsb forallb
                                                           vis_sum vis_weight_sum weight_sum flag_any flag_all].
  - rewrite !cadd_0_r, orb_false_r, andb_true_r. f_equal. ring.
  - rewrite IH. unfold step. cbn [vis_sum vis_weight_sum weight_sum flag_any flag_all].
    fold (eff_w s). fold (csum (map s_vis l)). fold (csum (map (fun s0 => cscale (eff_w s0) (s_vis s0)) l)).
    fold (qsum (map eff_w l)).
    rewrite <- !cadd_assoc, orb_assoc, andb_assoc. f_equal. ring.
Qed.

(* zeroing the weight of a flagged sample = leaving the sample out of the sums *)
Lemma qsum_cons : forall x l, qsum (x :: l) = (x + qsum l)%Qc.
Proof. reflexivity. Qed.
Lemma csum_cons : forall x l, csum (x :: l) = cadd x (csum l).
Proof. reflexivity. Qed.

Lemma qsum_unflagged : forall l, qsum (map eff_w l) = qsum (map s_w (unflagged l)).
Proof.
  induction l as [| s l IH]; [reflexivity |]. unfold unflagged in *. cbn [map filter].
  rewrite qsum_cons, IH. unfold eff_w.
  destruct (s_flag s); cbn [negb map]; [ring | now rewrite qsum_cons].
Qed.

Lemma csum_unflagged : forall l,
  csum (map (fun s => cscale (eff_w s) (s_vis s)) l) = csum (map (fun s => cscale (s_w s) (s_vis s)) (unflagged l)).
Proof.
  induction l as [| s l IH]; [reflexivity |]. unfold unflagged in *. cbn [map filter].
  rewrite csum_cons, IH. unfold eff_w at 1.
  destruct (s_flag s); cbn [negb map]; [now rewrite cscale_0, cadd_0_l | now rewrite csum_cons].
Qed.

(* one output cell = the specification of its bin *)
Lemma finish_spec : forall flagav l, finish (List.length l) flagav (fold_left step l acc0) = spec_bin flagav l.
Proof.
  intros flagav l. rewrite fold_step. unfold finish, spec_bin, acc0.
  cbn [vis_sum vis_weight_sum weight_sum flag_any flag_all orb andb].
  rewrite !cadd_0_l, qsum_unflagged, csum_unflagged.
  replace (0 + qsum (map s_w (unflagged l)))%Qc with (qsum (map s_w (unflagged l))) by ring.
  reflexivity.
Qed.

(* ------------------------------------------------------------------ the positions of a bin *)
Lemma bin_positions_length : forall ta ca i j, List.length (bin_positions ta ca i j) = ta * ca.
Proof.
  intros. unfold bin_positions. generalize (i * ta). induction ta as [| ta IH]; intro s; [reflexivity |].
  cbn [seq flat_map]. rewrite app_length, map_length, seq_length, IH. lia.
Qed.

Lemma bin_positions_in : forall ta ca i j t c,
  In (t, c) (bin_positions ta ca i j) <-> i * ta <= t < i * ta + ta /\ j * ca <= c < j * ca + ca.
Proof.
  intros. unfold bin_positions. rewrite in_flat_map. split.
  - intros [t' [Ht Hin]]. apply in_map_iff in Hin. destruct Hin as [c' [E Hc]]. inversion E; subst.
    apply in_seq in Ht. apply in_seq in Hc. lia.
  - intros [Ht Hc]. exists t. split; [apply in_seq; lia |]. apply in_map_iff. exists c. split; [reflexivity |].
    apply in_seq. lia.
Qed.

Lemma NoDup_app' : forall {A} (l1 l2 : list A),
  NoDup l1 -> NoDup l2 -> (forall x, In x l1 -> In x l2 -> False) -> NoDup (l1 ++ l2).
Proof.
  induction l1 as [| a l1 IH]; cbn; intros l2 H1 H2 H; [assumption |].
  inversion H1; subst. constructor.
  - rewrite in_app_iff. intros [H' | H']; [auto | apply (H a); [left; reflexivity | exact H']].
  - apply IH; auto. intros x Hx Hx'. apply (H x); [right; exact Hx | exact Hx'].
Qed.

Lemma bin_positions_nodup : forall ta ca i j, NoDup (bin_positions ta ca i j).
Proof.
  intros. unfold bin_positions. generalize (i * ta). induction ta as [| ta IH]; intro s; [constructor |].
  cbn [seq flat_map]. apply NoDup_app'.
  - apply Injective_map_NoDup; [intros x y E; now inversion E | apply seq_NoDup].
  - apply IH.
  - intros [t c] H1 H2. apply in_map_iff in H1. destruct H1 as [c' [E _]]. inversion E; subst.
    apply in_flat_map in H2. destruct H2 as [t' [Ht Hin]]. apply in_map_iff in Hin. destruct Hin as [c'' [E' _]].
    inversion E'; subst. apply in_seq in Ht. lia.
Qed.

(* ------------------------------------------------------------------ the kernel, cell by cell *)
Lemma nth_map_seq0 : forall {A} (f : nat -> A) n j d, j < n -> nth j (map f (seq 0 n)) d = f j.
Proof.
  intros A f n j d H. rewrite (nth_indep _ d (f 0)) by (now rewrite map_length, seq_length).
  rewrite map_nth. now rewrite seq_nth.
Qed.

Lemma average_kernel_nth : forall a nt nc nb ta ca fl i j b, i < nt / ta -> j < nc / ca -> b < nb ->
  get3 (average_kernel a nt nc nb ta ca fl) sample0 i j b =
  spec_bin fl (map (fun tc => get3 a sample0 (fst tc) (snd tc) b) (bin_positions ta ca i j)).
Proof.
  intros a nt nc nb ta ca fl i j b Hi Hj Hb. unfold average_kernel, get3.
  rewrite nth_map_seq0 by assumption. rewrite nth_map_seq0 by assumption. rewrite nth_map_seq0 by assumption.
  rewrite <- (bin_positions_length ta ca i j).
  rewrite <- (map_length (fun tc => nth b (nth (snd tc) (nth (fst tc) a []) []) sample0) (bin_positions ta ca i j)).
  apply finish_spec.
Qed.

Lemma average_kernel_shape : forall a nt nc nb ta ca fl,
  List.length (average_kernel a nt nc nb ta ca fl) = nt / ta /\
  (forall i, i < nt / ta -> List.length (nth i (average_kernel a nt nc nb ta ca fl) []) = nc / ca) /\
  (forall i j, i < nt / ta -> j < nc / ca ->
     List.length (nth j (nth i (average_kernel a nt nc nb ta ca fl) []) []) = nb).
Proof.
  intros. unfold average_kernel. split; [now rewrite map_length, seq_length |]. split.
  - intros i Hi. rewrite nth_map_seq0 by assumption. now rewrite map_length, seq_length.
  - intros i j Hi Hj. rewrite nth_map_seq0 by assumption. rewrite nth_map_seq0 by assumption.
    now rewrite map_length, seq_length.
Qed.

(* ------------------------------------------------------------------ trimming *)
Lemma nth_firstn'' : forall {A} (l : list A) n j d, j < n -> nth j (firstn n l) d = nth j l d.
Proof. induction l; intros [|n] [|j] d H; cbn; auto; try lia. apply IHl. lia. Qed.

Lemma nth_map_default : forall {A B} (f : A -> B) l t d d', f d' = d -> nth t (map f l) d = f (nth t l d').
Proof. intros A B f l t d d' H. subst d. apply map_nth. Qed.

Lemma trim_get3 : forall {A} (a : arr3 A) d nt nc t f b, t < nt -> f < nc ->
  get3 (trim a nt nc) d t f b = get3 a d t f b.
Proof.
  intros A a d nt nc t f b Ht Hf. unfold get3, trim.
  rewrite (nth_map_default (firstn nc) (firstn nt a) t [] []) by apply firstn_nil.
  now rewrite !nth_firstn'' by assumption.
Qed.

Lemma bin_below : forall n ta i, ta <> 0 -> i < n / ta -> i * ta + ta <= n / ta * ta.
Proof. intros n ta i H Hi. nia. Qed.

(* ------------------------------------------------------------------ average_visibilities *)
Definition eff (clamp : bool) (av size : nat) : nat := if clamp then Nat.min av size else av.

Theorem average_spec_gen : forall ct cc fm a T F B timeav chanav flagav r,
  average_gen ct cc fm a T F B timeav chanav flagav = Some r ->
  let ta := eff ct timeav T in
  let ca := eff cc chanav F in
  ta <> 0 /\ ca <> 0 /\
  List.length r = T / ta /\
  (forall i, i < T / ta -> List.length (nth i r []) = F / ca) /\
  (forall i j, i < T / ta -> j < F / ca -> List.length (nth j (nth i r []) []) = B) /\
  forall i j b, i < T / ta -> j < F / ca -> b < B ->
    get3 r sample0 i j b =
    spec_bin flagav (map (fun tc => get3 a sample0 (fst tc) (snd tc) b) (bin_positions ta ca i j)).
Proof.
  intros ct cc fm a T F B timeav chanav flagav r H ta ca. unfold average_gen in H.
  fold (eff ct timeav T) in H. fold (eff cc chanav F) in H. fold ta in H. fold ca in H.
  destruct (Nat.eqb ta 0 || Nat.eqb ca 0) eqn:E; [discriminate |].
  apply orb_false_iff in E. destruct E as [Et Ec]. apply Nat.eqb_neq in Et. apply Nat.eqb_neq in Ec.
  inversion H; subst r. clear H.
  assert (Dt : T / ta * ta / ta = T / ta) by (now apply Nat.div_mul).
  assert (Dc : F / ca * ca / ca = F / ca) by (now apply Nat.div_mul).
  split; [exact Et |]. split; [exact Ec |].
  match goal with |- context [average_kernel ?x ?nt ?nc ?nb ?t ?c ?f] =>
    destruct (average_kernel_shape x nt nc nb t c f) as [S1 [S2 S3]] end.
  rewrite Dt, Dc in *.
  split; [exact S1 |]. split; [exact S2 |]. split; [exact S3 |].
  intros i j b Hi Hj Hb.
  rewrite average_kernel_nth by (rewrite ?Dt, ?Dc; assumption).
  assert (HF : 1 <= F).
  { destruct F; [| lia]. rewrite Nat.div_0_l in Hj by assumption. lia. }
  assert (Efl : (if fm then negb (Nat.eqb (Nat.min (if flagav then 1 else 0) F) 0) else flagav) = flagav).
  { destruct fm; [| reflexivity]. destruct flagav; [rewrite Nat.min_l by lia | rewrite Nat.min_l by lia]; reflexivity. }
  rewrite Efl. f_equal. apply map_ext_in. intros [t c] Hin. cbn [fst snd].
  apply bin_positions_in in Hin.
  pose proof (bin_below T ta i Et Hi). pose proof (bin_below F ca j Ec Hj).
  apply trim_get3; lia.
Qed.

(* the statement for the code as it is (which factor is clamped is regenerated from the source) *)
Definition time_factor (timeav T : nat) : nat := eff averager_clamp_timeav timeav T.
Definition chan_factor (chanav F : nat) : nat := eff averager_clamp_chanav chanav F.

Corollary average_spec : forall a T F B timeav chanav flagav r,
  average a T F B timeav chanav flagav = Some r ->
  let ta := time_factor timeav T in
  let ca := chan_factor chanav F in
  List.length r = T / ta /\
  (forall i, i < T / ta -> List.length (nth i r []) = F / ca) /\
  (forall i j, i < T / ta -> j < F / ca -> List.length (nth j (nth i r []) []) = B) /\
  forall i j b, i < T / ta -> j < F / ca -> b < B ->
    get3 r sample0 i j b =
    spec_bin flagav (map (fun tc => get3 a sample0 (fst tc) (snd tc) b) (bin_positions ta ca i j)).
Proof.
  intros a T F B timeav chanav flagav r H. apply average_spec_gen in H.
  destruct H as [_ [_ H]]. exact H.
Qed.

(* the call succeeds exactly when both (effective) factors are positive *)
Lemma average_defined : forall a T F B timeav chanav flagav,
  average a T F B timeav chanav flagav = None <-> time_factor timeav T = 0 \/ chan_factor chanav F = 0.
Proof.
  intros. unfold average, average_gen, time_factor, chan_factor, eff.
  destruct (Nat.eqb _ 0 || Nat.eqb _ 0) eqn:E.
  - split; [| reflexivity]. intros _. apply orb_true_iff in E. destruct E as [E | E]; apply Nat.eqb_eq in E; auto.
  - split; [discriminate |]. intros [H | H]; apply orb_false_iff in E; destruct E as [E1 E2];
      apply Nat.eqb_neq in E1; apply Nat.eqb_neq in E2; contradiction.
Qed.

(* avg_trim: samples beyond the last whole bin are never read *)
Lemma bin_positions_whole : forall ta ca T F i j t c, ta <> 0 -> ca <> 0 -> i < T / ta -> j < F / ca ->
  In (t, c) (bin_positions ta ca i j) -> t < T / ta * ta /\ c < F / ca * ca /\ t / ta = i /\ c / ca = j.
Proof.
  intros ta ca T F i j t c Ht Hc Hi Hj Hin. apply bin_positions_in in Hin.
  pose proof (bin_below T ta i Ht Hi). pose proof (bin_below F ca j Hc Hj).
  repeat split; try lia.
  - symmetry. apply (Nat.div_unique t ta i (t - i * ta)); lia.
  - symmetry. apply (Nat.div_unique c ca j (c - j * ca)); lia.
Qed.

(* the bin of output cell (i, j) = the stored positions whose dump index / ta is i and channel index / ca is j *)
Lemma filter_ext_in' : forall {A} (f g : A -> bool) l, (forall x, In x l -> f x = g x) -> filter f l = filter g l.
Proof.
  induction l as [| a l IH]; intros H; [reflexivity |]. cbn. rewrite (H a) by (left; reflexivity).
  rewrite IH; [reflexivity |]. intros x Hx. apply H. right. exact Hx.
Qed.

Lemma filter_none : forall {A} (f : A -> bool) l, (forall x, In x l -> f x = false) -> filter f l = [].
Proof.
  induction l as [| a l IH]; intros H; [reflexivity |]. cbn. rewrite (H a) by (left; reflexivity).
  apply IH. intros x Hx. apply H. right. exact Hx.
Qed.

Lemma filter_all : forall {A} (f : A -> bool) l, (forall x, In x l -> f x = true) -> filter f l = l.
Proof.
  induction l as [| a l IH]; intros H; [reflexivity |]. cbn. rewrite (H a) by (left; reflexivity).
  f_equal. apply IH. intros x Hx. apply H. right. exact Hx.
Qed.

Lemma filter_div_seq : forall n av i, av <> 0 -> i < n / av ->
  filter (fun t => Nat.eqb (t / av) i) (seq 0 n) = seq (i * av) av.
Proof.
  intros n av i Hav Hi. pose proof (bin_below n av i Hav Hi) as Hb.
  assert (Hn : n / av * av <= n) by (rewrite Nat.mul_comm; now apply Nat.mul_div_le).
  replace n with (i * av + (av + (n - (i * av + av)))) at 1 by lia.
  rewrite !seq_app, !filter_app. cbn [plus].
  rewrite filter_none, filter_all, filter_none.
  - now rewrite app_nil_r.
  - intros t Ht. apply in_seq in Ht. apply Nat.eqb_neq. intro E.
    assert (t = av * (t / av) + t mod av) by (now apply Nat.div_mod).
    assert (t mod av < av) by (now apply Nat.mod_upper_bound). nia.
  - intros t Ht. apply in_seq in Ht. apply Nat.eqb_eq. symmetry.
    apply (Nat.div_unique t av i (t - i * av)); lia.
  - intros t Ht. apply in_seq in Ht. apply Nat.eqb_neq. intro E.
    assert (t = av * (t / av) + t mod av) by (now apply Nat.div_mod).
    assert (t mod av < av) by (now apply Nat.mod_upper_bound). nia.
Qed.

Lemma filter_flat_map : forall {A B} (p : B -> bool) (f : A -> list B) l,
  filter p (flat_map f l) = flat_map (fun x => filter p (f x)) l.
Proof. induction l as [| a l IH]; [reflexivity |]. cbn. now rewrite filter_app, IH. Qed.

Lemma flat_map_filter_cond : forall {A B} (c : A -> bool) (f : A -> list B) l,
  flat_map (fun x => if c x then f x else []) l = flat_map f (filter c l).
Proof.
  induction l as [| a l IH]; [reflexivity |]. cbn. destruct (c a); cbn; now rewrite IH.
Qed.

Lemma list_prod_flat_map : forall {A B} (l1 : list A) (l2 : list B),
  list_prod l1 l2 = flat_map (fun x => map (fun y => (x, y)) l2) l1.
Proof. induction l1 as [| a l1 IH]; intros l2; [reflexivity |]. cbn. now rewrite IH. Qed.

Lemma filter_map_pair : forall (pc : nat -> bool) (b : bool) (t : nat) l,
  filter (fun tc : nat * nat => b && pc (snd tc)) (map (fun c => (t, c)) l) =
  if b then map (fun c => (t, c)) (filter pc l) else [].
Proof.
  intros pc b t. induction l as [| c l IH]; [now destruct b |]. cbn [map filter snd]. rewrite IH.
  destruct b; cbn [andb]; [| reflexivity]. destruct (pc c); reflexivity.
Qed.

Lemma bin_positions_filter : forall T F ta ca i j, ta <> 0 -> ca <> 0 -> i < T / ta -> j < F / ca ->
  filter (fun tc => Nat.eqb (fst tc / ta) i && Nat.eqb (snd tc / ca) j) (list_prod (seq 0 T) (seq 0 F)) =
  bin_positions ta ca i j.
Proof.
  intros T F ta ca i j Ht Hc Hi Hj. rewrite list_prod_flat_map, filter_flat_map.
  rewrite (flat_map_ext _ (fun t => if Nat.eqb (t / ta) i then map (fun c => (t, c)) (filter (fun c => Nat.eqb (c / ca) j) (seq 0 F)) else [])).
  - rewrite (flat_map_filter_cond (fun t => Nat.eqb (t / ta) i)).
    rewrite !filter_div_seq by assumption. reflexivity.
  - intro t. rewrite <- (filter_map_pair (fun c => Nat.eqb (c / ca) j) (Nat.eqb (t / ta) i) t (seq 0 F)).
    apply filter_ext_in'. intros [t' c'] Hin. apply in_map_iff in Hin. destruct Hin as [c'' [E _]]. inversion E; subst.
    reflexivity.
Qed.

(* ------------------------------------------------------------------ the three outputs of a bin, spelled out *)
Lemma spec_bin_weight : forall fl l, s_w (spec_bin fl l) = qsum (map s_w (unflagged l)).
Proof. reflexivity. Qed.

Lemma spec_bin_flag : forall fl l, s_flag (spec_bin fl l) = if fl then existsb s_flag l else forallb s_flag l.
Proof. reflexivity. Qed.

Lemma Qc_is_zero_false : forall q, q <> 0%Qc -> Qc_is_zero q = false.
Proof. intros q H. unfold Qc_is_zero. destruct (Qc_eq_dec q 0); [contradiction | reflexivity]. Qed.
Lemma Qc_is_zero_true : forall q, q = 0%Qc -> Qc_is_zero q = true.
Proof. intros q H. unfold Qc_is_zero. destruct (Qc_eq_dec q 0); [reflexivity | contradiction]. Qed.

Lemma spec_bin_mean : forall fl l, qsum (map s_w (unflagged l)) <> 0%Qc ->
  s_vis (spec_bin fl l) =
  cdivq (csum (map (fun s => cscale (s_w s) (s_vis s)) (unflagged l))) (qsum (map s_w (unflagged l))).
Proof. intros fl l H. unfold spec_bin, s_vis. cbn [fst]. now rewrite Qc_is_zero_false. Qed.

Lemma spec_bin_fallback : forall fl l, qsum (map s_w (unflagged l)) = 0%Qc ->
  s_vis (spec_bin fl l) = cscale (inv_count (List.length l)) (csum (map s_vis l)).
Proof. intros fl l H. unfold spec_bin, s_vis. cbn [fst]. now rewrite Qc_is_zero_true. Qed.

Lemma all_flagged_no_weight : forall l, forallb s_flag l = true -> qsum (map s_w (unflagged l)) = 0%Qc.
Proof.
  intros l H. unfold unflagged. rewrite filter_none; [reflexivity |].
  intros s Hs. rewrite forallb_forall in H. now rewrite (H s Hs).
Qed.

(* avg_trim, extensionally: two inputs that agree on the whole bins give the same averages *)
Lemma average_ignores_tail : forall a a' T F B timeav chanav flagav r r',
  average a T F B timeav chanav flagav = Some r -> average a' T F B timeav chanav flagav = Some r' ->
  let ta := time_factor timeav T in
  let ca := chan_factor chanav F in
  (forall t c b, t < T / ta * ta -> c < F / ca * ca -> b < B -> get3 a sample0 t c b = get3 a' sample0 t c b) ->
  forall i j b, i < T / ta -> j < F / ca -> b < B -> get3 r sample0 i j b = get3 r' sample0 i j b.
Proof.
  intros a a' T F B timeav chanav flagav r r' H H' ta ca Hag i j b Hi Hj Hb.
  apply average_spec_gen in H. apply average_spec_gen in H'.
  destruct H as [Ht [Hc [_ [_ [_ P]]]]]. destruct H' as [_ [_ [_ [_ [_ P']]]]].
  fold (time_factor timeav T) in *. fold (chan_factor chanav F) in *. fold ta in P, P', Ht. fold ca in P, P', Hc.
  rewrite P, P' by assumption. f_equal. apply map_ext_in. intros [t c] Hin. cbn [fst snd].
  destruct (bin_positions_whole ta ca T F i j t c Ht Hc Hi Hj Hin) as [A [B' _]]. now apply Hag.
Qed.
