(* C07: top-level lemmas combining ChunksP (names), ChunksRtP (round trip) and ChunksPruneP (pruning). *)
From Coq Require Import ZArith List Bool Lia FinFun.
From KV Require Import Base.Sx Gen.Generated Model.Chunks Proofs.ChunksP Proofs.ChunksRtP Proofs.ChunksPruneP Proofs.ChunksPrunedReadP.
Import ListNotations.
Open Scope Z_scope.

Lemma name_inj_arr : forall arr s1 s2, chunk_name arr s1 = chunk_name arr s2 -> s1 = s2.
Proof. intros arr s1 s2 E. apply chunk_name_inj in E. tauto. Qed.

Lemma round_trip_top : forall (A : Type) (d : A) (miss : option A) (st : store A) (arr : str) (dt : Z)
    (f : list Z -> A) (chunks : list (list Z)) (off : list Z),
  Forall (fun cs => Forall (fun c => 0 < c) cs \/ cs = [0]) chunks ->
  (off = [] \/ List.length off = List.length chunks) ->
  Forall (fun r => r = None) (snd (put_array st arr dt f chunks off)) /\
  get_array d miss (fst (put_array st arr dt f chunks off)) arr dt chunks off
    = Ok (map f (enumerate (chunks_shape chunks))).
Proof. intros. apply round_trip; auto. apply name_inj_arr. Qed.

Lemma block_names_distinct : forall arr chunks,
  Forall (fun cs => Forall (fun c => 0 < c) cs \/ cs = [0]) chunks ->
  NoDup (map (fun b => chunk_name arr (map fst b)) (blocks chunks)).
Proof.
  intros arr chunks H. rewrite <- (map_map (map fst) (chunk_name arr)).
  apply Injective_map_NoDup; [|apply rt_NoDup_block_starts; exact H].
  intros s1 s2 E. eapply name_inj_arr; eauto.
Qed.

Lemma pruned_read_top : forall (A : Type) (d : A) (miss : option A) (st : store A) (arr : str) (dt : Z)
    (f : list Z -> A) (chunks : list (list Z)) (index : list (option Z * option Z)),
  Forall (fun cs => Forall (fun c => 0 < c) cs) chunks ->
  Forall (fun se => fst se < snd se) (norm_index (chunks_shape chunks) index) ->
  get_array_index d miss (fst (put_array st arr dt f chunks [])) arr dt chunks index
    = (spec_requested chunks index, Ok (map f (spec_index_points chunks index))).
Proof. intros. apply pruned_read; auto. apply name_inj_arr. Qed.

Lemma pruned_read_all_top : forall (A : Type) (d : A) (miss : option A) (st : store A) (arr : str) (dt : Z)
    (f : list Z -> A) (chunks : list (list Z)) (index : list (option Z * option Z)),
  Forall (fun cs => cs <> [] /\ Forall (fun c => 0 < c) cs) chunks ->
  let r := get_array_index d miss (fst (put_array st arr dt f chunks [])) arr dt chunks index in
  snd r = Ok (map f (spec_index_points chunks index))
  /\ forall b, In b (fst r) -> In b (blocks chunks).
Proof. intros. apply pruned_read_all; auto. apply name_inj_arr. Qed.
