(* C08: damaged chunks through ChunkStoreVisFlagsWeights -- zero-filled AND flagged data_lost exactly on the damaged
   chunk's elements, for ANY chunkings of the four arrays (Model/VfwDamage.v over C06's Model/LostMap.v). *)
From Coq Require Import ZArith List Bool String Lia.
From KV Require Import Base.Sx Gen.Generated Model.Prune Model.LostMap Model.Npy Model.StoreErr Model.VfwDamage.
From KV Require Import Proofs.NpyP Proofs.StoreErrP Proofs.PruneP Proofs.LostMapP Proofs.LostMapNdP.
From KV Require Proofs.C06P.
From KV Require Import Proofs.NpyHdrP.
Import ListNotations.
Open Scope Z_scope.

(* ---------- the translated source lines are the modelled ones ---------- *)
Lemma src_is_modelled : lostmap_is_modelled = true /\ fill_is_modelled = true.
Proof. split; vm_compute; reflexivity. Qed.

Lemma dmg_entries_eq c : dmg_entries c = the_entries c.
Proof. unfold dmg_entries. destruct src_is_modelled as [-> _]. reflexivity. Qed.
Lemma dmg_flags_eq ds p : dmg_flags ds p = model_flags (cfg_of_dstore ds) p.
Proof. unfold dmg_flags, model_flags. rewrite dmg_entries_eq. reflexivity. Qed.
Lemma dmg_vis_eq ds p : dmg_vis ds p = model_vis (cfg_of_dstore ds) p.
Proof. unfold dmg_vis. destruct src_is_modelled as [_ ->]. reflexivity. Qed.
Lemma dmg_weights_eq ds p : dmg_weights ds p = model_weights (cfg_of_dstore ds) p.
Proof. unfold dmg_weights. destruct src_is_modelled as [_ ->]. reflexivity. Qed.

(* ---------- the getter vis_flags_weights selects, on each kind of low-level result ---------- *)
Lemma getter_stored : forall k s, vfw_getter k s (LArray true true) = Ret Stored.
Proof.
  intros k s. pose proof (or_default_spec s (LArray true true)) as S. rewrite get_chunk_array in S. cbn in S.
  destruct S as (A & B & _). destruct vfw_getters as [G1 G2]. destruct k; [rewrite G1|rewrite G2]; assumption.
Qed.

Lemma getter_mismatch : forall k s so dk, negb so || negb dk = true -> vfw_getter k s (LArray so dk) = Raise K_BadChunk.
Proof.
  intros k s so dk H.
  assert (G : get_chunk s (LArray so dk) = Raise K_BadChunk) by (rewrite get_chunk_array, H; reflexivity).
  destruct (bad_or_unavailable_never_filled s _ _ G (or_introl eq_refl)) as [A B].
  destruct vfw_getters as [G1 G2]. destruct k; [rewrite G1|rewrite G2]; assumption.
Qed.

(* a raise that the store's error map turns into a ChunkNotFound becomes filler, for flags and for the others *)
Lemma getter_notfound : forall k s e, isinst (standard_errors (error_map s) e) K_ChunkNotFound = true ->
  exists v, vfw_getter k s (LRaise e) = Ret v /\ is_filler v = true.
Proof.
  intros k s e H. pose proof (or_default_spec s (LRaise e)) as S. cbn [get_chunk] in S. rewrite H in S.
  destruct S as [A B]. destruct vfw_getters as [G1 G2].
  destruct k; [exists DefaultFill; rewrite G1|exists Placeholder; rewrite G2]; split; auto.
Qed.

Lemma npy_undecodable_classes :
  forallb (fun e => isinst (standard_errors (error_map SNpy) e) K_ChunkNotFound)
          [B_EOFError; B_ValueError; B_FileNotFoundError] = true /\
  forallb (fun e => isinst (standard_errors (error_map SS3) e) K_ChunkNotFound)
          [U_MaxRetryError; K_S3ObjectNotFound] = true.
Proof. split; vm_compute; reflexivity. Qed.

(* a getter never answers with filler unless the low-level read raised *)
Lemma getter_filler_only_if_raised : forall k s lo v, vfw_getter k s lo = Ret v -> is_filler v = true ->
  exists e, lo = LRaise e /\ isinst (standard_errors (error_map s) e) K_ChunkNotFound = true.
Proof.
  intros k s lo v H F.
  assert (Hv : get_chunk_or_default s lo = Ret v \/ get_chunk_or_placeholder s lo = Ret v).
  { destruct vfw_getters as [G1 G2]. destruct k; [rewrite G1 in H|rewrite G2 in H]; auto. }
  destruct (filler_only_for_notfound s lo v Hv) as [[-> _]|[_ [e [He Hi]]]]; [discriminate|].
  destruct lo as [so dk|e0].
  - rewrite get_chunk_array in He. destruct (negb so || negb dk); inversion He; subst e. vm_compute in Hi. discriminate.
  - cbn [get_chunk] in He. inversion He; subst e. exists e0. split; auto.
Qed.

(* and the getter's exception is never a ChunkNotFound: an exception out of a load is BadChunk, StoreUnavailable or raw *)
Lemma getter_raise_not_notfound : forall k s lo e, vfw_getter k s lo = Raise e -> isinst e K_ChunkNotFound = false.
Proof.
  intros k s lo e H. pose proof (or_default_spec s lo) as S.
  destruct (get_chunk s lo) as [v|e'] eqn:G.
  - destruct S as (A & B & _). destruct vfw_getters as [G1 G2]. destruct k; [rewrite G1 in H|rewrite G2 in H]; congruence.
  - destruct (isinst e' K_ChunkNotFound) eqn:Hi; destruct S as [A B]; destruct vfw_getters as [G1 G2];
      destruct k; [rewrite G1 in H|rewrite G2 in H|rewrite G1 in H|rewrite G2 in H]; try congruence.
Qed.

(* ---------- bytes -> low-level result ---------- *)
Section Bytes.
  Variable parse_hdr : bytes -> option hdr.
  Variable print_hdr : hdr -> bytes.
  (* the headers the parser reads back (all of them for an abstract parser/printer pair; those with a printable
     dtype descriptor for the concrete parser of the executable model, Proofs/NpyHdrP.v) *)
  Variable ok : hdr -> Prop.
  Hypothesis parse_print : forall m, ok m -> parse_hdr (print_hdr m) = Some m.

  (* nothing, or a proper prefix (any byte offset, 0 included) of a well-formed chunk file *)
  Definition file_damaged (f : option bytes) : Prop :=
    f = None \/
    exists major nb m body k, ok m /\ wf_file print_hdr major nb m body /\
      (k < List.length (encode print_hdr major nb m body))%nat /\ f = Some (firstn k (encode print_hdr major nb m body)).
  (* a complete well-formed chunk file with the dtype and shape the metadata promises *)
  Definition file_healthy (f : option bytes) (want : hdr) : Prop :=
    exists major nb m body, ok m /\ wf_file print_hdr major nb m body /\ f = Some (encode print_hdr major nb m body) /\
      hdr_matches want m = (true, true).
  (* a complete well-formed chunk file of another dtype or shape *)
  Definition file_mismatched (f : option bytes) (want : hdr) : Prop :=
    exists major nb m body, ok m /\ wf_file print_hdr major nb m body /\ f = Some (encode print_hdr major nb m body) /\
      hdr_matches want m <> (true, true).

  Lemma low_damaged : forall f want, file_damaged f ->
    exists e, low_of_file parse_hdr f want = LRaise e /\ In e [B_EOFError; B_ValueError; B_FileNotFoundError].
  Proof.
    intros f want [->|(major & nb & m & body & k & Hok & Hwf & Hk & ->)].
    - exists B_FileNotFoundError. split; [reflexivity|simpl; auto].
    - unfold low_of_file. rewrite (truncation_never_data_at parse_hdr print_hdr major nb m body k (parse_print m Hok) Hwf Hk).
      destruct (Nat.eqb k 0); cbn [lowres_of_decode exn_of_npyerr]; eexists; split; try reflexivity; simpl; auto.
  Qed.

  Lemma low_complete : forall major nb m body want, ok m -> wf_file print_hdr major nb m body ->
    low_of_file parse_hdr (Some (encode print_hdr major nb m body)) want =
    LArray (fst (hdr_matches want m)) (snd (hdr_matches want m)).
  Proof.
    intros major nb m body want Hok H. unfold low_of_file.
    rewrite (decode_encode_at parse_hdr print_hdr major nb m body (parse_print m Hok) H).
    cbn [lowres_of_decode]. destruct (hdr_matches want m). reflexivity.
  Qed.

  Lemma damaged_is_filler : forall k f want, file_damaged f ->
    exists v, vfw_getter k SNpy (low_of_file parse_hdr f want) = Ret v /\ is_filler v = true.
  Proof.
    intros k f want D. destruct (low_damaged f want D) as (e & -> & Hin).
    apply getter_notfound. destruct npy_undecodable_classes as [A _].
    rewrite forallb_forall in A. exact (A e Hin).
  Qed.

  Lemma healthy_is_stored : forall k s f want, file_healthy f want ->
    vfw_getter k s (low_of_file parse_hdr f want) = Ret Stored.
  Proof.
    intros k s f want (major & nb & m & body & Hok & Hwf & -> & Hm). rewrite (low_complete _ _ _ _ _ Hok Hwf), Hm.
    apply getter_stored.
  Qed.

  Lemma mismatched_is_badchunk : forall k s f want, file_mismatched f want ->
    vfw_getter k s (low_of_file parse_hdr f want) = Raise K_BadChunk.
  Proof.
    intros k s f want (major & nb & m & body & Hok & Hwf & -> & Hm). rewrite (low_complete _ _ _ _ _ Hok Hwf).
    apply getter_mismatch. destruct (hdr_matches want m) as [[] []]; try reflexivity. congruence.
  Qed.

  (* the S3 path: an object cut at any offset (Content-Length of the whole object), or a 404 *)
  Lemma s3_damaged_is_filler : forall k major nb m body n want, ok m -> wf_file print_hdr major nb m body ->
    existsb (Z.eqb major) [1; 2] = true -> (n < List.length (encode print_hdr major nb m body))%nat ->
    (exists v, vfw_getter k SS3 (low_of_object parse_hdr (Some (firstn n (encode print_hdr major nb m body))) want) = Ret v
               /\ is_filler v = true) /\
    (exists v, vfw_getter k SS3 (low_of_object parse_hdr None want) = Ret v /\ is_filler v = true).
  Proof.
    intros k major nb m body n want Hok Hwf Hv Hn. destruct npy_undecodable_classes as [_ A]. rewrite forallb_forall in A.
    split.
    - unfold low_of_object.
      rewrite (s3_truncation_never_data_at parse_hdr print_hdr major nb m body n (parse_print m Hok) Hwf Hv Hn).
      cbn [lowres_of_decode exn_of_npyerr]. apply getter_notfound. apply A. simpl; auto.
    - cbn [low_of_object]. apply getter_notfound. apply A. simpl; auto.
  Qed.
End Bytes.

(* ---------- geometry: C06's theorems with "absent" := "the getter returned filler" ---------- *)
Lemma lost_in_cover ds a p : lost_in (cfg_of_dstore ds) a p = chunk_missing ds a (cover ds a p).
Proof. reflexivity. Qed.

Definition stored_at (ds : dstore) (a : nat) (p : list Z) : Z := stored (cfg_of_dstore ds) a p.

Lemma dmg_values ds p : C06P.cfg_ok (cfg_of_dstore ds) p ->
  dmg_vis ds p = (if chunk_missing ds A_VIS (cover ds A_VIS p) then 0 else stored_at ds A_VIS p) /\
  dmg_weights ds p = (if chunk_missing ds A_W (cover ds A_W p) || chunk_missing ds A_WC (cover ds A_WC p) then 0
                      else stored_at ds A_W p * stored_at ds A_WC p) /\
  dmg_flags ds p =
    Z.lor (if chunk_missing ds A_FLAGS (cover ds A_FLAGS p) then DATA_LOST else stored_at ds A_FLAGS p)
          (if chunk_missing ds A_VIS (cover ds A_VIS p) || chunk_missing ds A_W (cover ds A_W p)
              || chunk_missing ds A_WC (cover ds A_WC p) then DATA_LOST else 0).
Proof.
  intro OK. rewrite dmg_vis_eq, dmg_weights_eq, dmg_flags_eq.
  rewrite (C06P.vis_model_is_spec _ _ OK), (C06P.weights_model_is_spec _ _ OK), (C06P.flags_model_is_spec _ _ OK).
  unfold spec_vis, spec_weights, spec_flags. rewrite !lost_in_cover. auto.
Qed.

Lemma lor_data_lost_bit3 x : Z.testbit (Z.lor x DATA_LOST) 3 = true /\ Z.testbit (Z.lor DATA_LOST x) 3 = true.
Proof. rewrite data_lost_is_bit3, !Z.lor_spec. change (Z.testbit 8 3) with true. rewrite orb_true_r. auto. Qed.

(* ---------- which chunks a load touches ---------- *)
Lemma src_keys_chunks d : src_keys d = product (map (fun dd => seq 0 (List.length dd)) (chunks_of d)).
Proof.
  unfold src_keys, chunks_of. rewrite map_map. f_equal. apply map_ext. intro a. unfold ax_sizes. rewrite map_length. reflexivity.
Qed.

Lemma cover_is_block ds a p : List.length p = C06P.nd (cfg_of_dstore ds) -> C06P.arr_ok (cfg_of_dstore ds) a p ->
  cover ds a p = blk_ids (darr (cfg_of_dstore ds) a) (map fst (locs (chunks_of (darr (cfg_of_dstore ds) a)) p)).
Proof.
  intros HL (Hm & OK & _). unfold cover. set (c := cfg_of_dstore ds) in *.
  rewrite (C06P.gpos_own c a p HL Hm), (C06P.darr_eq c a Hm).
  destruct (C06P.axes_ids _ _ _ OK) as [A _]. rewrite A, C06P.chunk_id_firstn. reflexivity.
Qed.

Lemma arr_ok_of ds p a : C06P.cfg_ok (cfg_of_dstore ds) p -> In a arrays4 -> C06P.arr_ok (cfg_of_dstore ds) a p.
Proof.
  intros (HL & V & F & W & WC) [<-|[<-|[<-|[<-|[]]]]]; assumption.
Qed.

Lemma covering_chunk_is_needed ds p a : C06P.cfg_ok (cfg_of_dstore ds) p -> In a arrays4 ->
  In (a, cover ds a p) (needed ds).
Proof.
  intros OK Ha. pose proof (arr_ok_of ds p a OK Ha) as AO. destruct OK as (HL & V & F & W & WC).
  unfold needed. apply in_flat_map. exists a. split; [exact Ha|]. apply in_map.
  unfold needed_of. rewrite (cover_is_block ds a p HL AO). apply in_map.
  rewrite src_keys_chunks. apply (locs_in_keys (chunks_of (darr (cfg_of_dstore ds) A_FLAGS))).
  apply C06P.nd_ok_of; assumption.
Qed.

Lemma raises_in : forall l e, In e (raises l) <-> In (Raise e) l.
Proof.
  induction l as [|[v|e'] l IH]; intro e; simpl.
  - tauto.
  - rewrite IH. split; [auto|intros [H|H]; [discriminate|exact H]].
  - rewrite IH. split; intros [H|H]; auto; [left; congruence|inversion H; auto].
Qed.

Lemma load_error_iff ds e : In e (load_errors ds) <->
  exists a id, In (a, id) (needed ds) /\ chunk_outcome ds a id = Raise e.
Proof.
  unfold load_errors. rewrite raises_in, in_map_iff. split.
  - intros ([a id] & H & Hin). exists a, id. auto.
  - intros (a & id & Hin & H). exists (a, id). auto.
Qed.

Lemma load_ok_iff ds : load_errors ds = [] <->
  forall a id, In (a, id) (needed ds) -> exists v, chunk_outcome ds a id = Ret v.
Proof.
  split.
  - intros H a id Hin. destruct (chunk_outcome ds a id) as [v|e] eqn:E; [eauto|].
    assert (X : In e (load_errors ds)) by (apply load_error_iff; eauto). rewrite H in X. destruct X.
  - intro H. destruct (load_errors ds) as [|e l] eqn:E; [reflexivity|].
    assert (X : In e (load_errors ds)) by (rewrite E; left; reflexivity).
    apply load_error_iff in X. destruct X as (a & id & Hin & R). destruct (H a id Hin) as [v Hv]. congruence.
Qed.

(* a load never fails with a ChunkNotFound: every exception out of it is BadChunk, StoreUnavailable or a raw error *)
Lemma load_error_not_notfound ds e : In e (load_errors ds) -> isinst e K_ChunkNotFound = false.
Proof.
  intro H. apply load_error_iff in H. destruct H as (a & id & _ & R). exact (getter_raise_not_notfound _ _ _ _ R).
Qed.

(* a decodable chunk of the wrong dtype/shape anywhere inside the window makes the load fail with BadChunk *)
Lemma mismatch_fails_load ds p a : C06P.cfg_ok (cfg_of_dstore ds) p -> In a arrays4 ->
  mismatched (d_low ds a (cover ds a p)) = true -> In K_BadChunk (load_errors ds).
Proof.
  intros OK Ha M. apply load_error_iff. exists a, (cover ds a p). split; [exact (covering_chunk_is_needed ds p a OK Ha)|].
  unfold chunk_outcome. destruct (d_low ds a (cover ds a p)) as [so dk|e]; [|discriminate]. apply getter_mismatch. exact M.
Qed.

(* the spec's "must fail" is sound for the model on the S3 store (and on any store for mismatches) *)
Lemma s3_store_level_not_absorbed : forall e,
  isinst e K_StoreUnavailable || isinst e R_ConnectionError || isinst e R_ConnectTimeout = true ->
  isinst (standard_errors (error_map SS3) e) K_ChunkNotFound = false.
Proof.
  assert (S : forall e, (negb (isinst e K_StoreUnavailable || isinst e R_ConnectionError || isinst e R_ConnectTimeout)
                         || negb (isinst (standard_errors (error_map SS3) e) K_ChunkNotFound)) = true).
  { apply sweep. vm_compute. reflexivity. }
  intros e H. specialize (S e). rewrite H in S. cbn [negb orb] in S.
  destruct (isinst (standard_errors (error_map SS3) e) K_ChunkNotFound); [discriminate S|reflexivity].
Qed.

Lemma spec_must_fail_sound ds : d_store ds = SS3 -> spec_must_fail ds = true -> load_errors ds <> [].
Proof.
  intros HS. unfold spec_must_fail. rewrite existsb_exists. intros ([a id] & Hin & M). cbn [fst snd] in M.
  assert (X : exists e, chunk_outcome ds a id = Raise e).
  { unfold chunk_outcome. destruct (d_low ds a id) as [so dk|e] eqn:E.
    - cbn [mismatched store_level] in M. rewrite orb_false_r in M. exists K_BadChunk. apply getter_mismatch. exact M.
    - cbn [mismatched store_level orb] in M. rewrite HS.
      pose proof (s3_store_level_not_absorbed e M) as N.
      pose proof (or_default_spec SS3 (LRaise e)) as S. cbn [get_chunk] in S. rewrite N in S. destruct S as [A B].
      exists (standard_errors (error_map SS3) e). destruct vfw_getters as [G1 G2].
      destruct (akind_of a); [rewrite G1|rewrite G2]; assumption. }
  destruct X as [e R]. intro E0.
  assert (Y : In e (load_errors ds)) by (apply load_error_iff; eauto). rewrite E0 in Y. destruct Y.
Qed.

(* ---------- unreachable / unauthorised stores ---------- *)
(* a low-level failure that the store's error map turns into a StoreUnavailable, on any chunk inside the window,
   fails the load with that StoreUnavailable (never zero-filled, never flagged) *)
Lemma unavailable_fails_load ds a id e : In (a, id) (needed ds) -> d_low ds a id = LRaise e ->
  isinst (standard_errors (error_map (d_store ds)) e) K_StoreUnavailable = true ->
  In (standard_errors (error_map (d_store ds)) e) (load_errors ds) /\ load_errors ds <> [] /\
  chunk_missing ds a id = false.
Proof.
  intros Hin Hlo Hu.
  assert (G : get_chunk (d_store ds) (d_low ds a id) = Raise (standard_errors (error_map (d_store ds)) e))
    by (rewrite Hlo; reflexivity).
  destruct (bad_or_unavailable_never_filled _ _ _ G (or_intror (or_introl Hu))) as [A B].
  assert (R : chunk_outcome ds a id = Raise (standard_errors (error_map (d_store ds)) e)).
  { unfold chunk_outcome. destruct vfw_getters as [G1 G2]. destruct (akind_of a); [rewrite G1|rewrite G2]; assumption. }
  assert (X : In (standard_errors (error_map (d_store ds)) e) (load_errors ds)) by (apply load_error_iff; eauto).
  split; [exact X|]. split; [intro E; rewrite E in X; destruct X|].
  unfold chunk_missing. rewrite R. reflexivity.
Qed.

Definition classes_mapped_to (s : store) (k : exn) : list exn :=
  filter (fun e => isinst (standard_errors (error_map s) e) k) all_exn.

(* which low-level exceptions the S3 store reports as StoreUnavailable / as a missing chunk (translated error map) *)
Lemma s3_classes :
  classes_mapped_to SS3 K_StoreUnavailable =
    [K_StoreUnavailable; K_AuthorisationFailed; K_InvalidToken; R_RequestException; R_ChunkedEncodingError;
     R_ConnectionError; R_Timeout; R_ConnectTimeout; R_ContentDecodingError; R_HTTPError; R_InvalidHeader;
     R_InvalidJSONError; R_InvalidURL; R_InvalidProxyURL; R_InvalidSchema; R_JSONDecodeError; R_MissingSchema;
     R_ProxyError; R_SSLError; R_StreamConsumedError; R_TooManyRedirects; R_URLRequired; R_UnrewindableBodyError] /\
  classes_mapped_to SS3 K_ChunkNotFound =
    [K_ChunkNotFound; K_S3ObjectNotFound; K_S3ServerGlitch; R_ReadTimeout; R_RetryError; U_MaxRetryError] /\
  classes_mapped_to SDict K_ChunkNotFound = [B_KeyError; B_IndexError; K_ChunkNotFound; K_S3ObjectNotFound; K_S3ServerGlitch].
Proof. repeat split; vm_compute; reflexivity. Qed.

(* C08-F5c (repaired): the read path of the NPY store reports every OS error other than "no such file" (EACCES on the
   chunk directory, ENOTDIR, EISDIR, EIO, a connection / timeout error of a network file system ...) as
   StoreUnavailable, so an unreadable store fails the load instead of being zero-filled and flagged data_lost; only
   FileNotFoundError is a missing chunk. *)
Lemma npy_oserrors_unavailable :
  forallb (fun e => implb (isinst e B_OSError && negb (isinst e B_FileNotFoundError))
                          (isinst (standard_errors (error_map SNpy) e) K_StoreUnavailable)) all_exn = true /\
  standard_errors (error_map SNpy) B_FileNotFoundError = K_ChunkNotFound /\
  classes_mapped_to SNpy K_ChunkNotFound =
    [B_FileNotFoundError; B_EOFError; B_ValueError; B_UnicodeError; B_UnicodeDecodeError; Z_BadZipFile; K_ChunkNotFound;
     K_BadChunk; K_S3ObjectNotFound; K_S3ServerGlitch; J_JSONDecodeError; U_LocationValueError; U_LocationParseError;
     E_MessageDefect; U_URLSchemeUnknown; U_ProxySchemeUnknown; U_ProxySchemeUnsupported; U_ResponseNotChunked;
     T_TokenError].
Proof. repeat split; vm_compute; reflexivity. Qed.

Lemma npy_oserror_is_unavailable : forall e, isinst e B_OSError = true -> isinst e B_FileNotFoundError = false ->
  isinst (standard_errors (error_map SNpy) e) K_StoreUnavailable = true.
Proof.
  intros e H1 H2. destruct npy_oserrors_unavailable as [A _]. rewrite forallb_forall in A.
  specialize (A e (all_exn_complete e)). rewrite H1, H2 in A. exact A.
Qed.

(* ... and never answers it with filler: both getters of vis_flags_weights re-raise the StoreUnavailable *)
Lemma npy_oserror_not_filled : forall k e, isinst e B_OSError = true -> isinst e B_FileNotFoundError = false ->
  vfw_getter k SNpy (LRaise e) = Raise (standard_errors (error_map SNpy) e).
Proof.
  intros k e H1 H2. pose proof (npy_oserror_is_unavailable e H1 H2) as U.
  assert (G : get_chunk SNpy (LRaise e) = Raise (standard_errors (error_map SNpy) e)) by reflexivity.
  destruct (bad_or_unavailable_never_filled _ _ _ G (or_intror (or_introl U))) as [A B].
  destruct vfw_getters as [G1 G2]. destruct k; [rewrite G1|rewrite G2]; assumption.
Qed.

Lemma npy_unreadable_store_fails_load ds a id e : d_store ds = SNpy -> In (a, id) (needed ds) ->
  d_low ds a id = LRaise e -> isinst e B_OSError = true -> isinst e B_FileNotFoundError = false ->
  exists u, isinst u K_StoreUnavailable = true /\ In u (load_errors ds) /\ load_errors ds <> [] /\
            chunk_missing ds a id = false.
Proof.
  intros HS Hin Hlo H1 H2. pose proof (npy_oserror_is_unavailable e H1 H2) as U. rewrite <- HS in U.
  destruct (unavailable_fails_load ds a id e Hin Hlo U) as [X [Y Z]].
  exists (standard_errors (error_map (d_store ds)) e). auto.
Qed.

(* before the repair (map literal of the unrepaired source, Proofs/StoreErrP.v): NOTHING was reported as
   StoreUnavailable and e.g. PermissionError was a ChunkNotFound, i.e. filler *)
Lemma npy_read_unavailable_refuted_before_fix :
  filter (fun e => isinst (standard_errors npy_map_before_f5b e) K_StoreUnavailable) all_exn = [] /\
  standard_errors npy_map_before_f5b B_PermissionError = K_ChunkNotFound /\
  isinst B_PermissionError B_OSError = true /\ isinst B_PermissionError B_FileNotFoundError = false.
Proof. repeat split; vm_compute; reflexivity. Qed.

(* ---------- the composed statement for a store of chunk files ---------- *)
Section FileStore.
  Variable parse_hdr : bytes -> option hdr.
  Variable print_hdr : hdr -> bytes.
  Variable ok : hdr -> Prop.
  Hypothesis parse_print : forall m, ok m -> parse_hdr (print_hdr m) = Some m.

  (* ds is an NPY file store whose chunk (a, id) is read from [files a id] against the request [wants a id] *)
  Definition npy_backed (ds : dstore) (files : nat -> list Z -> option bytes) (wants : nat -> list Z -> hdr) : Prop :=
    d_store ds = SNpy /\ forall a id, d_low ds a id = low_of_file parse_hdr (files a id) (wants a id).

  Lemma backed_damaged ds files wants a id : npy_backed ds files wants -> file_damaged print_hdr ok (files a id) ->
    chunk_missing ds a id = true.
  Proof.
    intros [S Lw] D. unfold chunk_missing, chunk_outcome. rewrite S, Lw.
    destruct (damaged_is_filler parse_hdr print_hdr ok parse_print (akind_of a) _ (wants a id) D) as (v & -> & F). exact F.
  Qed.

  Lemma backed_healthy ds files wants a id : npy_backed ds files wants -> file_healthy print_hdr ok (files a id) (wants a id) ->
    chunk_missing ds a id = false /\ chunk_outcome ds a id = Ret Stored.
  Proof.
    intros [S Lw] H. unfold chunk_missing, chunk_outcome. rewrite Lw.
    rewrite (healthy_is_stored parse_hdr print_hdr ok parse_print _ _ _ _ H). auto.
  Qed.

  Theorem damaged_chunk_zero_filled_and_flagged : forall ds files wants p,
    npy_backed ds files wants -> C06P.cfg_ok (cfg_of_dstore ds) p ->
    (* a damaged vis chunk: its elements are zero and flagged *)
    (file_damaged print_hdr ok (files A_VIS (cover ds A_VIS p)) ->
       dmg_vis ds p = 0 /\ Z.testbit (dmg_flags ds p) 3 = true) /\
    (* a damaged weights or weights_channel chunk: the weight is zero and the element flagged *)
    (file_damaged print_hdr ok (files A_W (cover ds A_W p)) \/ file_damaged print_hdr ok (files A_WC (cover ds A_WC p)) ->
       dmg_weights ds p = 0 /\ Z.testbit (dmg_flags ds p) 3 = true) /\
    (* a damaged flags chunk: data_lost and nothing else *)
    (file_damaged print_hdr ok (files A_FLAGS (cover ds A_FLAGS p)) ->
       Z.testbit (dmg_flags ds p) 3 = true /\ forall i, 0 <= i -> i <> 3 -> Z.testbit (dmg_flags ds p) i = false) /\
    (* all four covering chunks healthy: the stored values, flags untouched (no spurious data_lost) *)
    ((forall a, In a arrays4 -> file_healthy print_hdr ok (files a (cover ds a p)) (wants a (cover ds a p))) ->
       dmg_vis ds p = stored_at ds A_VIS p /\ dmg_weights ds p = stored_at ds A_W p * stored_at ds A_WC p /\
       dmg_flags ds p = stored_at ds A_FLAGS p).
  Proof.
    intros ds files wants p B OK. destruct (dmg_values ds p OK) as (V & W & F).
    split; [|split; [|split]].
    - intro D. rewrite V, F, (backed_damaged ds files wants _ _ B D). split; [reflexivity|].
      cbn [orb]. apply lor_data_lost_bit3.
    - intro D. rewrite W, F. destruct D as [D|D]; rewrite (backed_damaged ds files wants _ _ B D).
      + cbn [orb]. rewrite orb_true_r. cbn [orb]. split; [reflexivity|apply lor_data_lost_bit3].
      + rewrite !orb_true_r. split; [reflexivity|apply lor_data_lost_bit3].
    - intro D. rewrite dmg_flags_eq. destruct (C06P.flag_bits _ _ OK) as [B3 Bo].
      pose proof (backed_damaged ds files wants _ _ B D) as M. rewrite <- lost_in_cover in M.
      unfold C06P.any_lost in B3. rewrite M in B3. cbn [orb] in B3.
      split; [exact B3|]. intros i Hi Ni. rewrite (Bo i Hi Ni), M. reflexivity.
    - intro H. rewrite V, W, F.
      destruct (backed_healthy ds files wants A_VIS _ B (H A_VIS ltac:(simpl; auto))) as [-> _].
      destruct (backed_healthy ds files wants A_FLAGS _ B (H A_FLAGS ltac:(simpl; auto))) as [-> _].
      destruct (backed_healthy ds files wants A_W _ B (H A_W ltac:(simpl; auto))) as [-> _].
      destruct (backed_healthy ds files wants A_WC _ B (H A_WC ltac:(simpl; auto))) as [-> _].
      cbn [orb]. rewrite Z.lor_0_r. auto.
  Qed.

  (* ... and the load itself succeeds when every chunk inside the window is healthy or damaged (damage alone never
     fails a load), while one mismatched chunk inside the window fails it with BadChunk *)
  Theorem damaged_store_loads : forall ds files wants, npy_backed ds files wants ->
    (forall a id, In (a, id) (needed ds) ->
       file_damaged print_hdr ok (files a id) \/ file_healthy print_hdr ok (files a id) (wants a id)) ->
    load_errors ds = [].
  Proof.
    intros ds files wants B H. apply load_ok_iff. intros a id Hin. destruct (H a id Hin) as [D|G].
    - destruct B as [S Lw]. unfold chunk_outcome. rewrite S, Lw.
      destruct (damaged_is_filler parse_hdr print_hdr ok parse_print (akind_of a) _ (wants a id) D) as (v & -> & _). eauto.
    - exists Stored. exact (proj2 (backed_healthy ds files wants a id B G)).
  Qed.

  Theorem mismatched_chunk_fails_load : forall ds files wants p a, npy_backed ds files wants ->
    C06P.cfg_ok (cfg_of_dstore ds) p -> In a arrays4 ->
    file_mismatched print_hdr ok (files a (cover ds a p)) (wants a (cover ds a p)) ->
    In K_BadChunk (load_errors ds) /\ load_errors ds <> [].
  Proof.
    intros ds files wants p a [S Lw] OK Ha M.
    assert (X : In K_BadChunk (load_errors ds)).
    { apply load_error_iff. exists a, (cover ds a p). split; [exact (covering_chunk_is_needed ds p a OK Ha)|].
      unfold chunk_outcome. rewrite Lw. apply (mismatched_is_badchunk parse_hdr print_hdr ok parse_print). exact M. }
    split; [exact X|]. intro E. rewrite E in X. destruct X.
  Qed.
End FileStore.

(* ---------- the same with the concrete header parser / printer: no hypothesis left ---------- *)
Definition hdr_ok (m : hdr) : Prop := descr_ok (h_descr m).
Lemma parse_print_ok pad : forall m, hdr_ok m -> parse_hdr_c (print_hdr_c pad m) = Some m.
Proof. intros m H. exact (parse_print_c pad m H). Qed.

Theorem damaged_chunk_zero_filled_and_flagged_c : forall pad ds files wants p,
  npy_backed parse_hdr_c ds files wants -> C06P.cfg_ok (cfg_of_dstore ds) p ->
  (file_damaged (print_hdr_c pad) hdr_ok (files A_VIS (cover ds A_VIS p)) ->
     dmg_vis ds p = 0 /\ Z.testbit (dmg_flags ds p) 3 = true) /\
  (file_damaged (print_hdr_c pad) hdr_ok (files A_W (cover ds A_W p)) \/
   file_damaged (print_hdr_c pad) hdr_ok (files A_WC (cover ds A_WC p)) ->
     dmg_weights ds p = 0 /\ Z.testbit (dmg_flags ds p) 3 = true) /\
  (file_damaged (print_hdr_c pad) hdr_ok (files A_FLAGS (cover ds A_FLAGS p)) ->
     Z.testbit (dmg_flags ds p) 3 = true /\ forall i, 0 <= i -> i <> 3 -> Z.testbit (dmg_flags ds p) i = false) /\
  ((forall a, In a arrays4 -> file_healthy (print_hdr_c pad) hdr_ok (files a (cover ds a p)) (wants a (cover ds a p))) ->
     dmg_vis ds p = stored_at ds A_VIS p /\ dmg_weights ds p = stored_at ds A_W p * stored_at ds A_WC p /\
     dmg_flags ds p = stored_at ds A_FLAGS p).
Proof.
  intros pad. exact (damaged_chunk_zero_filled_and_flagged parse_hdr_c (print_hdr_c pad) hdr_ok (parse_print_ok pad)).
Qed.

(* the getters on the bytes of a real chunk file, concrete parser: every proper prefix is filler, the whole file is data *)
Theorem npy_prefixes_c : forall pad k major nb m body n want,
  hdr_ok m -> wf_file (print_hdr_c pad) major nb m body ->
  (n < List.length (encode (print_hdr_c pad) major nb m body))%nat ->
  (exists v, vfw_getter k SNpy (low_of_file parse_hdr_c (Some (firstn n (encode (print_hdr_c pad) major nb m body))) want) = Ret v
             /\ is_filler v = true) /\
  vfw_getter k SNpy (low_of_file parse_hdr_c (Some (encode (print_hdr_c pad) major nb m body)) m) = Ret Stored.
Proof.
  intros pad k major nb m body n want Hok Hwf Hn. split.
  - apply (damaged_is_filler parse_hdr_c (print_hdr_c pad) hdr_ok (parse_print_ok pad)).
    right. exists major, nb, m, body, n. auto.
  - apply (healthy_is_stored parse_hdr_c (print_hdr_c pad) hdr_ok (parse_print_ok pad)).
    exists major, nb, m, body. split; [exact Hok|]. split; [exact Hwf|]. split; [reflexivity|].
    unfold hdr_matches. rewrite bytes_eqb_refl.
    destruct (list_eq_dec Nat.eq_dec (h_shape m) (h_shape m)); [reflexivity|congruence].
Qed.

(* ---------- non-vacuity: same block counts, shifted boundaries ----------
   4 dumps x 2 channels x 1 product; vis time chunks (3, 1), flags time chunks (2, 2), weights (1, 3),
   weights_channel (2, 2); the file of vis chunk 0 (dumps 0..2) holds only the first 3 bytes of the magic string. *)
Definition ex_files : list file_entry :=
  [(A_VIS, [0; 0; 0], mkhdr [60; 99; 56] false [3%nat; 2%nat; 1%nat], FBytes [147; 78; 85])].
Definition ex_ds : dstore :=
  mk_dstore SNpy [[[3; 1]; [2]; [1]]; [[2; 2]; [2]; [1]]; [[1; 3]; [2]; [1]]; [[2; 2]; [2]]] [] ex_files
            [[11; 12; 13; 14; 15; 16; 17; 18]; [1; 2; 3; 4; 5; 6; 7; 16]; [1; 1; 1; 1; 1; 1; 1; 1]; [2; 2; 2; 2; 2; 2; 2; 2]].

Lemma ex_ds_ok : forall t f, In t [0; 1; 2; 3] -> In f [0; 1] -> C06P.cfg_ok (cfg_of_dstore ex_ds) [t; f; 0].
Proof.
  intros t f Ht Hf.
  assert (0 <= t < 4) by (simpl in Ht; lia). assert (0 <= f < 2) by (simpl in Hf; lia).
  unfold C06P.cfg_ok, C06P.arr_ok, C06P.nd. cbn.
  repeat split; try lia; repeat constructor; lia.
Qed.

Lemma ex_ds_values :
  load_errors ex_ds = [] /\
  map (dmg_vis ex_ds) [[0; 0; 0]; [1; 0; 0]; [2; 0; 0]; [3; 0; 0]] = [0; 0; 0; 17] /\
  (* dump 2 lies in flags chunk 1 but in the damaged vis chunk 0: it must be (and is) flagged *)
  map (dmg_flags ex_ds) [[0; 0; 0]; [1; 0; 0]; [2; 0; 0]; [3; 0; 0]] = [9; 11; 13; 7] /\
  map (dmg_weights ex_ds) [[0; 0; 0]; [1; 0; 0]; [2; 0; 0]; [3; 0; 0]] = [2; 2; 2; 2].
Proof. vm_compute. auto. Qed.
