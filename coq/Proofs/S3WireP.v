(* C08: the S3 store at the level of one HTTP exchange -- proofs.
   Part A: for EVERY combination of (bytes the server holds, Content-Length announced, bytes delivered) the read path
   answers data only when the complete chunk arrived.  Part B: for EVERY status, force list, number of status
   retries and sequence of server answers a put that the server refused is reported. *)
From Coq Require Import ZArith List Bool String Lia.
From KV Require Import Base.Sx Base.Str Gen.Generated Model.Npy Model.StoreErr Model.S3Wire Proofs.NpyP Proofs.StoreErrP.
From KV Require Import Proofs.NpyHdrP.
Import ListNotations.
Open Scope Z_scope.

(* ====================== Part A ====================== *)

Lemma detect_of_source_good : detect_of_source = good_detect.
Proof. reflexivity. Qed.

Lemma s3_read_src_is_modelled : s3_read_is_modelled = true.
Proof. vm_compute. reflexivity. Qed.

Section FetchAt.
  Variable parse_hdr : bytes -> option hdr.
  Variable print_hdr : hdr -> bytes.

  (* s3_fetch on the first k bytes of a well-formed object, under an announced length cl *)
  Lemma s3_fetch_prefix_at : forall versions cl major nb m body k,
    parse_hdr (print_hdr m) = Some m ->
    wf_file print_hdr major nb m body ->
    existsb (Z.eqb major) versions = true ->
    s3_fetch parse_hdr good_detect versions cl (firstn k (encode print_hdr major nb m body)) =
    if Nat.ltb k (file_len print_hdr nb m body) then Err EIncomplete
    else if drain_ok cl (file_len print_hdr nb m body) then Ok (m, body) else Err EIncomplete.
  Proof.
    intros versions cl major nb m body k Hpp [Hnb [Hmax [isz [Hisz Hbody]]]] Hver.
    unfold file_len.
    set (H := print_hdr m) in *.
    set (HL := le_encode nb (Z.of_nat (List.length H))).
    assert (HLlen : List.length HL = nb) by apply le_encode_length.
    assert (Hdec : le_decode HL = Z.of_nat (List.length H)).
    { apply le_roundtrip. eapply hlen_fits; eauto. }
    unfold encode. fold H. fold HL.
    change (magic_prefix ++ [major; 0] ++ HL ++ H ++ body)
      with ((magic_prefix ++ [major; 0]) ++ (HL ++ H ++ body)).
    set (P8 := magic_prefix ++ [major; 0]).
    assert (P8len : List.length P8 = 8%nat) by reflexivity.
    unfold s3_fetch, det_read_bytes. cbn [short_err good_detect d_read d_readinto].
    pose proof (rb_firstn_app P8 (HL ++ H ++ body) k) as R1. rewrite P8len in R1. rewrite R1. clear R1.
    destruct (Nat.ltb k 8) eqn:K8.
    { apply Nat.ltb_lt in K8. assert (Nat.ltb k (8 + nb + List.length H + List.length body) = true) as ->; auto.
      apply Nat.ltb_lt. lia. }
    apply Nat.ltb_ge in K8.
    assert (bytes_eqb (firstn 6 P8) magic_prefix = true) as -> by reflexivity.
    assert (nth 6 P8 0 = major) as -> by reflexivity.
    assert (nth 7 P8 0 = 0) as -> by reflexivity.
    rewrite Hver. simpl negb. cbv iota. rewrite Hnb.
    pose proof (rb_firstn_app HL (H ++ body) (k - 8)) as R2. rewrite HLlen in R2. rewrite R2. clear R2.
    destruct (Nat.ltb (k - 8) nb) eqn:K2.
    { apply Nat.ltb_lt in K2. assert (Nat.ltb k (8 + nb + List.length H + List.length body) = true) as ->; auto.
      apply Nat.ltb_lt. lia. }
    apply Nat.ltb_ge in K2.
    rewrite Hdec. rewrite Nat2Z.id.
    rewrite firstn_length, app_length.
    pose proof (rb_firstn_app H body (k - 8 - nb)) as R3. rewrite R3. clear R3.
    destruct (Nat.ltb (k - 8 - nb) (List.length H)) eqn:K3.
    { apply Nat.ltb_lt in K3.
      assert (Nat.ltb k (8 + nb + List.length H + List.length body) = true) as -> by (apply Nat.ltb_lt; lia).
      destruct (Z.of_nat (Nat.min (k - 8 - nb) (List.length H + List.length body)) <? Z.of_nat (List.length H)); reflexivity. }
    apply Nat.ltb_ge in K3.
    assert (Z.of_nat (Nat.min (k - 8 - nb) (List.length H + List.length body)) <? Z.of_nat (List.length H) = false) as ->.
    { apply Z.ltb_ge. lia. }
    assert (max_header_size <? Z.of_nat (List.length H) = false) as -> by (apply Z.ltb_ge; lia).
    rewrite Hpp. rewrite Hisz. rewrite <- Hbody.
    rewrite firstn_firstn, firstn_length.
    set (j := (k - 8 - nb - List.length H)%nat).
    destruct (Nat.ltb j (List.length body)) eqn:K4.
    - apply Nat.ltb_lt in K4.
      assert (Nat.ltb k (8 + nb + List.length H + List.length body) = true) as -> by (apply Nat.ltb_lt; lia).
      assert (Nat.eqb (Nat.min (Nat.min (List.length body) j) (List.length body)) (List.length body) = false) as ->.
      { apply Nat.eqb_neq. lia. }
      reflexivity.
    - apply Nat.ltb_ge in K4.
      assert (Nat.ltb k (8 + nb + List.length H + List.length body) = false) as -> by (apply Nat.ltb_ge; lia).
      assert (Nat.min (Nat.min (List.length body) j) (List.length body) = List.length body) as -> by lia.
      rewrite Nat.eqb_refl. simpl negb. cbv iota.
      rewrite Nat.min_l by lia. rewrite firstn_all. rewrite Nat.sub_diag. simpl repeat. rewrite app_nil_r.
      replace (8 + nb + List.length H + List.length body)%nat with (8 + nb + List.length H + List.length body)%nat by lia.
      rewrite <- Nat.add_assoc. rewrite Nat.add_assoc. reflexivity.
  Qed.

  (* what the reads of a response can return: a prefix of the object *)
  Lemma response_stream_prefix : forall full held delivered cl,
    response_stream full held delivered cl =
    firstn (match cl with Some l => Nat.min l (Nat.min delivered held) | None => Nat.min delivered held end) full.
  Proof.
    intros. unfold response_stream, eff. destruct cl; repeat rewrite firstn_firstn; try rewrite Nat.min_assoc; reflexivity.
  Qed.

  (* "the complete chunk arrived and the response is exactly the chunk" *)
  Definition complete (n held delivered : nat) (cl : option nat) : bool :=
    Nat.leb n held && Nat.leb n delivered && match cl with Some l => Nat.eqb l n | None => true end.

  (* THE statement of part A: every combination of what the server holds (the first [held] bytes of a well-formed
     object: an object truncated IN THE STORE), what it announces (any Content-Length, or none) and what it delivers
     (the first [delivered] bytes of what it holds: a transfer cut short) -- data only when everything arrived *)
  Theorem s3_response_never_data_unless_complete_at : forall major nb m body held delivered cl,
    parse_hdr (print_hdr m) = Some m ->
    wf_file print_hdr major nb m body -> existsb (Z.eqb major) s3_versions = true ->
    s3_fetch parse_hdr good_detect s3_versions cl
             (response_stream (encode print_hdr major nb m body) held delivered cl) =
    if complete (List.length (encode print_hdr major nb m body)) held delivered cl then Ok (m, body) else Err EIncomplete.
  Proof.
    intros major nb m body held delivered cl Hpp Hwf Hv.
    rewrite response_stream_prefix.
    rewrite (s3_fetch_prefix_at s3_versions cl major nb m body _ Hpp Hwf Hv).
    rewrite encode_length. unfold complete, drain_ok.
    set (n := file_len print_hdr nb m body).
    destruct cl as [l|].
    - destruct (Nat.ltb (Nat.min l (Nat.min delivered held)) n) eqn:E.
      + apply Nat.ltb_lt in E.
        destruct (Nat.leb n held) eqn:A; [|reflexivity]. destruct (Nat.leb n delivered) eqn:B; [|reflexivity].
        apply Nat.leb_le in A. apply Nat.leb_le in B.
        assert (Nat.eqb l n = false) as -> by (apply Nat.eqb_neq; lia). reflexivity.
      + apply Nat.ltb_ge in E.
        assert (Nat.leb n held = true) as -> by (apply Nat.leb_le; lia).
        assert (Nat.leb n delivered = true) as -> by (apply Nat.leb_le; lia).
        simpl andb. destruct (Nat.eqb l n); reflexivity.
    - destruct (Nat.ltb (Nat.min delivered held) n) eqn:E.
      + apply Nat.ltb_lt in E.
        destruct (Nat.leb n held) eqn:A; [|reflexivity]. destruct (Nat.leb n delivered) eqn:B; [|reflexivity].
        apply Nat.leb_le in A. apply Nat.leb_le in B. lia.
      + apply Nat.ltb_ge in E.
        assert (Nat.leb n held = true) as -> by (apply Nat.leb_le; lia).
        assert (Nat.leb n delivered = true) as -> by (apply Nat.leb_le; lia).
        reflexivity.
  Qed.

  (* the object truncated in the store at byte k, honestly announced and completely delivered (seeded change 7) *)
  Corollary s3_object_truncated_in_store_at : forall major nb m body k,
    parse_hdr (print_hdr m) = Some m ->
    wf_file print_hdr major nb m body -> existsb (Z.eqb major) s3_versions = true ->
    (k < List.length (encode print_hdr major nb m body))%nat ->
    s3_fetch parse_hdr good_detect s3_versions (Some k) (response_stream (encode print_hdr major nb m body) k k (Some k))
    = Err EIncomplete.
  Proof.
    intros major nb m body k Hpp Hwf Hv Hk.
    rewrite (s3_response_never_data_unless_complete_at major nb m body k k (Some k) Hpp Hwf Hv).
    unfold complete. assert (Nat.leb (List.length (encode print_hdr major nb m body)) k = false) as ->; [|reflexivity].
    apply Nat.leb_gt. lia.
  Qed.

  (* through the store, with the detector rules translated from the source: never data, always a missing chunk *)
  Theorem s3_incomplete_response_is_glitch_at : forall major nb m body held delivered cl want,
    parse_hdr (print_hdr m) = Some m ->
    wf_file print_hdr major nb m body -> existsb (Z.eqb major) s3_versions = true ->
    complete (List.length (encode print_hdr major nb m body)) held delivered cl = false ->
    s3_get_response parse_hdr detect_of_source cl
                    (response_stream (encode print_hdr major nb m body) held delivered cl) want = Raise K_S3ServerGlitch
    /\ get_chunk_or_default SS3 (lowres_of_response parse_hdr detect_of_source cl
                    (response_stream (encode print_hdr major nb m body) held delivered cl) want) = Ret DefaultFill
    /\ get_chunk_or_placeholder SS3 (lowres_of_response parse_hdr detect_of_source cl
                    (response_stream (encode print_hdr major nb m body) held delivered cl) want) = Ret Placeholder.
  Proof.
    intros major nb m body held delivered cl want Hpp Hwf Hv Hc.
    rewrite detect_of_source_good. unfold s3_get_response, lowres_of_response.
    rewrite (s3_response_never_data_unless_complete_at major nb m body held delivered cl Hpp Hwf Hv). rewrite Hc.
    cbn [lowres_of_decode exn_of_npyerr].
    destruct npy_map_on_decode_errors as [_ [_ [_ [E4 _]]]]. rewrite E4.
    split; [reflexivity|]. split; vm_compute; reflexivity.
  Qed.

  Theorem s3_complete_response_is_data_at : forall major nb m body held delivered cl,
    parse_hdr (print_hdr m) = Some m ->
    wf_file print_hdr major nb m body -> existsb (Z.eqb major) s3_versions = true ->
    complete (List.length (encode print_hdr major nb m body)) held delivered cl = true ->
    s3_get_response parse_hdr detect_of_source cl
                    (response_stream (encode print_hdr major nb m body) held delivered cl) m = Ret body.
  Proof.
    intros major nb m body held delivered cl Hpp Hwf Hv Hc.
    rewrite detect_of_source_good. unfold s3_get_response.
    rewrite (s3_response_never_data_unless_complete_at major nb m body held delivered cl Hpp Hwf Hv). rewrite Hc.
    unfold hdr_matches. destruct (list_eq_dec Nat.eq_dec (h_shape m) (h_shape m)); [|congruence].
    rewrite bytes_eqb_refl. reflexivity.
  Qed.
End FetchAt.

(* the same for the concrete header text numpy writes: no hypothesis on the parser *)
Theorem s3_response_never_data_unless_complete_c : forall pad major nb m body held delivered cl,
  descr_ok (h_descr m) -> wf_file (print_hdr_c pad) major nb m body -> existsb (Z.eqb major) s3_versions = true ->
  s3_fetch parse_hdr_c detect_of_source s3_versions cl
           (response_stream (encode (print_hdr_c pad) major nb m body) held delivered cl) =
  if complete (List.length (encode (print_hdr_c pad) major nb m body)) held delivered cl then Ok (m, body) else Err EIncomplete.
Proof.
  intros pad major nb m body held delivered cl Hd Hwf Hv. rewrite detect_of_source_good.
  exact (s3_response_never_data_unless_complete_at parse_hdr_c (print_hdr_c pad) major nb m body held delivered cl
           (parse_print_c pad m Hd) Hwf Hv).
Qed.

Section FetchAll.
  Variable parse_hdr : bytes -> option hdr.
  Variable print_hdr : hdr -> bytes.
  Hypothesis parse_print : forall m, parse_hdr (print_hdr m) = Some m.

  Theorem s3_response_never_data_unless_complete : forall major nb m body held delivered cl,
    wf_file print_hdr major nb m body -> existsb (Z.eqb major) s3_versions = true ->
    s3_fetch parse_hdr detect_of_source s3_versions cl
             (response_stream (encode print_hdr major nb m body) held delivered cl) =
    if complete (List.length (encode print_hdr major nb m body)) held delivered cl then Ok (m, body) else Err EIncomplete.
  Proof. intros. rewrite detect_of_source_good. apply s3_response_never_data_unless_complete_at; auto. Qed.

  Theorem s3_incomplete_response_is_glitch : forall major nb m body held delivered cl want,
    wf_file print_hdr major nb m body -> existsb (Z.eqb major) s3_versions = true ->
    complete (List.length (encode print_hdr major nb m body)) held delivered cl = false ->
    s3_get_response parse_hdr detect_of_source cl
                    (response_stream (encode print_hdr major nb m body) held delivered cl) want = Raise K_S3ServerGlitch
    /\ get_chunk_or_default SS3 (lowres_of_response parse_hdr detect_of_source cl
                    (response_stream (encode print_hdr major nb m body) held delivered cl) want) = Ret DefaultFill
    /\ get_chunk_or_placeholder SS3 (lowres_of_response parse_hdr detect_of_source cl
                    (response_stream (encode print_hdr major nb m body) held delivered cl) want) = Ret Placeholder.
  Proof. intros. apply s3_incomplete_response_is_glitch_at with (print_hdr := print_hdr); auto. Qed.

  Theorem s3_complete_response_is_data : forall major nb m body held delivered cl,
    wf_file print_hdr major nb m body -> existsb (Z.eqb major) s3_versions = true ->
    complete (List.length (encode print_hdr major nb m body)) held delivered cl = true ->
    s3_get_response parse_hdr detect_of_source cl
                    (response_stream (encode print_hdr major nb m body) held delivered cl) m = Ret body.
  Proof. intros. apply s3_complete_response_is_data_at with (print_hdr := print_hdr); auto. Qed.

  (* what the older model of the S3 read (bytes delivered, nothing else) says about an object cut in flight is what
     the response-level model says when the whole Content-Length is announced; and an object cut IN THE STORE gives
     the same answer *)
  Theorem s3_store_truncation_same_as_in_flight : forall major nb m body k,
    wf_file print_hdr major nb m body -> existsb (Z.eqb major) s3_versions = true ->
    (k < List.length (encode print_hdr major nb m body))%nat ->
    let full := encode print_hdr major nb m body in
    s3_fetch parse_hdr detect_of_source s3_versions (Some k) (response_stream full k k (Some k)) = Err EIncomplete
    /\ s3_fetch parse_hdr detect_of_source s3_versions (Some (List.length full))
                (response_stream full (List.length full) k (Some (List.length full))) = Err EIncomplete
    /\ s3_read_array parse_hdr (firstn k full) = Err EIncomplete.
  Proof.
    intros major nb m body k Hwf Hv Hk full. unfold full.
    repeat rewrite (s3_response_never_data_unless_complete major nb m body _ _ _ Hwf Hv).
    unfold complete.
    assert (Nat.leb (List.length (encode print_hdr major nb m body)) k = false) as -> by (apply Nat.leb_gt; lia).
    split; [reflexivity|]. split; [rewrite andb_false_r; reflexivity|].
    apply s3_truncation_never_data with (print_hdr := print_hdr); auto.
  Qed.
End FetchAll.

(* teeth: under the rule "go by what the response still owes" an object that lost its last byte IN THE STORE (honest
   Content-Length) comes back as data: the theorems above depend on the translated guard *)
Definition tiny_hdr : hdr := mkhdr [124; 117; 49] false [2%nat].       (* |u1, shape (2,) *)
Definition tiny_file : bytes := encode (print_hdr_c 0) 1 2 tiny_hdr [7; 9].
Lemma owed_rule_refutes :
  let n := List.length tiny_file in
  exists body, s3_fetch parse_hdr_c (mkdetect RdEmpty RiOwed) s3_versions (Some (n - 1)%nat)
                        (response_stream tiny_file (n - 1) (n - 1) (Some (n - 1)%nat)) = Ok (tiny_hdr, body)
               /\ body <> [7; 9]
  /\ s3_fetch parse_hdr_c good_detect s3_versions (Some (n - 1)%nat)
              (response_stream tiny_file (n - 1) (n - 1) (Some (n - 1)%nat)) = Err EIncomplete
  /\ s3_fetch parse_hdr_c (mkdetect RdEmpty RiOwed) s3_versions (Some n)
              (response_stream tiny_file n (n - 1) (Some n)) = Err EIncomplete.
Proof. vm_compute. eexists. split; [reflexivity|]. split; [discriminate|]. split; reflexivity. Qed.

(* ====================== Part B ====================== *)

Lemma in_firstn_in {A : Type} : forall n (l : list A) x, In x (firstn n l) -> In x l.
Proof. induction n; intros l x H; destruct l; simpl in *; try tauto. destruct H; auto. Qed.

Lemma request_src_is_modelled : request_is_modelled = true.
Proof. vm_compute. reflexivity. Qed.
Lemma s3_put_src_is_modelled : s3_put_is_modelled = true.
Proof. vm_compute. reflexivity. Qed.

(* the translated table: every class _raise_for_status can raise is a chunk-store error that the S3 error map leaves
   alone, and the range it covers is all of 3xx (a redirect requests could not follow: repaired finding C08-F5g), 4xx
   and 5xx *)
Definition status_classes : list exn :=
  map (fun row => exn_or_base (snd row)) c08_s3_status_rows ++ [exn_or_base c08_s3_status_else].
Lemma status_classes_ok :
  forallb (fun e => isinst e K_ChunkStoreError && exn_eqb (standard_errors (error_map SS3) e) e) status_classes = true
  /\ c08_s3_status_range = (300, 600)
  /\ isinst (standard_errors (error_map SS3) R_RetryError) K_ChunkStoreError = true
  /\ forallb (fun e => negb (isinst e R_RequestException) || isinst (standard_errors (error_map SS3) e) K_ChunkStoreError)
             all_exn = true.
Proof. vm_compute. auto. Qed.

Lemma raise_for_status_class : forall ign s e, raise_for_status ign s = Some e -> In e status_classes.
Proof.
  intros ign s e H. unfold raise_for_status in H.
  destruct ((fst c08_s3_status_range <=? s) && (s <? snd c08_s3_status_range) && negb (memZ s ign)); [|discriminate].
  unfold status_classes.
  remember (find (fun row => memZ s (fst row)) c08_s3_status_rows) as fr eqn:F. destruct fr as [row|]; injection H as <-.
  - symmetry in F. apply find_some in F. destruct F as [F _]. apply in_or_app. left.
    apply (in_map (fun row => exn_or_base (snd row))) in F. exact F.
  - apply in_or_app. right. simpl. auto.
Qed.

(* EVERY non-success final status that is not ignored raises, whatever the status: 3xx, 4xx and 5xx alike *)
Lemma raise_for_status_total : forall ign s,
  300 <= s < 600 -> memZ s ign = false -> exists e, raise_for_status ign s = Some e /\ In e status_classes.
Proof.
  intros ign s Hs Hi. destruct status_classes_ok as [_ [R _]].
  destruct (raise_for_status ign s) eqn:E.
  - exists e. split; auto. eapply raise_for_status_class; eauto.
  - exfalso. unfold raise_for_status in E. rewrite R in E. cbn [fst snd] in E. rewrite Hi in E.
    assert ((300 <=? s) && (s <? 600) = true) as X by (apply andb_true_iff; split; [apply Z.leb_le|apply Z.ltb_lt]; lia).
    rewrite X in E. simpl in E. discriminate.
Qed.
Lemma raise_for_status_only_errors : forall ign s e, raise_for_status ign s = Some e -> 300 <= s < 600 /\ memZ s ign = false.
Proof.
  intros ign s e H. destruct status_classes_ok as [_ [R _]]. unfold raise_for_status in H. rewrite R in H. cbn [fst snd] in H.
  destruct ((300 <=? s) && (s <? 600)) eqn:A; [|discriminate]. destruct (memZ s ign) eqn:B; [discriminate|].
  apply andb_true_iff in A. destruct A as [A1 A2]. apply Z.leb_le in A1. apply Z.ltb_lt in A2. split; [lia|reflexivity].
Qed.

Lemma status_class_reported : forall e, In e status_classes ->
  standard_errors (error_map SS3) e = e /\ isinst e K_ChunkStoreError = true.
Proof.
  intros e H. destruct status_classes_ok as [A _]. rewrite forallb_forall in A. specialize (A e H).
  apply andb_true_iff in A. destruct A as [A1 A2]. apply exn_eqb_eq in A2. split; [exact A2|exact A1].
Qed.

Lemma every_error_status_raises : forall ign s,
  (300 <= s < 600 -> memZ s ign = false ->
   exists e, raise_for_status ign s = Some e /\ standard_errors (error_map SS3) e = e /\ isinst e K_ChunkStoreError = true)
  /\ (forall e, raise_for_status ign s = Some e -> 300 <= s < 600 /\ memZ s ign = false).
Proof.
  intros ign s. split.
  - intros Hs Hi. destruct (raise_for_status_total ign s Hs Hi) as [e [E1 E2]]. exists e.
    exact (conj E1 (status_class_reported e E2)).
  - exact (raise_for_status_only_errors ign s).
Qed.

(* an answer the server gives that means "refused / not done": a 3xx / 4xx / 5xx status that is not ignored, or an attempt
   that fails inside requests *)
Definition refusal (ign : list Z) (a : answer) : Prop :=
  match a with
  | AStatus s => 300 <= s < 600 /\ memZ s ign = false
  | AFail e => isinst e R_RequestException = true
  end.

(* request(): when every answer the server gives is a refusal, the request raises a chunk-store error -- for every
   force list, every number of status retries, every sequence of answers (any statuses, any length) *)
Theorem refused_request_raises : forall fl ign answers n,
  Forall (refusal ign) answers ->
  exists e, request_run fl n ign answers = Raise e /\ isinst e K_ChunkStoreError = true.
Proof.
  intros fl ign answers. destruct status_classes_ok as [_ [_ [RR RQ]]]. rewrite forallb_forall in RQ.
  induction answers as [|a rest IH]; intros n HF.
  - simpl. eexists. split; [reflexivity|]. vm_compute. reflexivity.
  - inversion HF as [|? ? Ha Hrest]; subst. destruct a as [s|e]; cbn [request_run].
    + destruct (memZ s fl).
      * destruct n as [|n']; [eexists; split; [reflexivity|exact RR]|]. apply IH. exact Hrest.
      * rewrite request_src_is_modelled. destruct Ha as [Hs Hi].
        destruct (raise_for_status_total ign s Hs Hi) as [e [E1 E2]]. rewrite E1.
        destruct (status_class_reported e E2) as [S1 S2]. rewrite S1. eexists. split; [reflexivity|exact S2].
    + eexists. split; [reflexivity|]. simpl in Ha.
      pose proof (all_exn_complete e) as Hin.
      specialize (RQ e Hin). rewrite Ha in RQ. simpl in RQ. exact RQ.
Qed.

(* conversely: request() returns only with a status the server really gave and that is not an (unignored) error *)
Theorem request_returns_only_accepted : forall fl ign answers n s,
  request_run fl n ign answers = Ret s ->
  In (AStatus s) (firstn (request_attempts fl n answers) answers) /\ ~ (300 <= s < 600 /\ memZ s ign = false).
Proof.
  intros fl ign answers. induction answers as [|a rest IH]; intros n s H; cbn [request_run] in H; [discriminate|].
  destruct a as [s0|e]; [|discriminate]. cbn [request_attempts].
  destruct (memZ s0 fl) eqn:M.
  - destruct n as [|n']; [discriminate|]. destruct (IH n' s H) as [I1 I2]. split; [|exact I2].
    simpl. right. exact I1.
  - rewrite request_src_is_modelled in H. destruct (raise_for_status ign s0) eqn:E; [discriminate|].
    inversion H; subst. split; [simpl; auto|].
    intros [Hs Hi]. destruct (raise_for_status_total ign s Hs Hi) as [e [E1 _]]. congruence.
Qed.

Lemma put_chunk_ignores_nothing : ignored_of "put_chunk" = Some [] /\ ignored_of "mark_complete" = Some []
                                  /\ ignored_of "_create_bucket" = Some [409].
Proof. vm_compute. auto. Qed.

(* a failed put is reported rather than swallowed -- S3 store, every status class *)
Theorem s3_refused_put_is_reported : forall rc answers,
  Forall (refusal []) answers ->
  (exists e, s3_put_chunk rc true answers = Raise e /\ isinst e K_ChunkStoreError = true
             /\ s3_put_chunk_noraise rc true answers = Ret (Some e))
  /\ stored_after (forcelist rc) (status_retries rc) answers = false.
Proof.
  intros rc answers HF. destruct put_chunk_ignores_nothing as [P _]. split.
  - unfold s3_put_chunk_noraise, s3_put_chunk. rewrite P. simpl negb. cbv iota.
    destruct (refused_request_raises (forcelist rc) [] answers (status_retries rc) HF) as [e [E1 E2]].
    rewrite E1. exists e. split; [reflexivity|]. split; [exact E2|].
    assert (caught noraise_returned e = true) as ->; [|reflexivity].
    assert (noraise_returned = [K_ChunkStoreError]) as -> by reflexivity. unfold caught. simpl. rewrite E2. reflexivity.
  - unfold stored_after. apply not_true_is_false. intro X. apply existsb_exists in X. destruct X as [a [Hin Ha]].
    apply in_firstn_in in Hin. rewrite Forall_forall in HF. specialize (HF a Hin).
    destruct a as [s|e]; [|discriminate]. simpl in HF. unfold accepted in Ha.
    apply andb_true_iff in Ha. destruct Ha as [_ Ha]. apply Z.ltb_lt in Ha. lia.
Qed.

(* success is reported only when the server answered an attempt with a status that is not an error *)
Theorem s3_put_success_means_accepted : forall rc answers,
  s3_put_chunk_noraise rc true answers = Ret None ->
  exists s, In (AStatus s) (firstn (request_attempts (forcelist rc) (status_retries rc) answers) answers)
            /\ ~ (300 <= s < 600).
Proof.
  intros rc answers H. destruct put_chunk_ignores_nothing as [P _].
  unfold s3_put_chunk_noraise, s3_put_chunk in H. rewrite P in H. simpl negb in H. cbv iota in H.
  destruct (request_run (forcelist rc) (status_retries rc) [] answers) as [s|e] eqn:E.
  - destruct (request_returns_only_accepted _ _ _ _ _ E) as [I1 I2]. exists s. split; [exact I1|].
    intro Hs. apply I2. split; [exact Hs|reflexivity].
  - destruct (caught noraise_returned e); discriminate.
Qed.

(* put_dask_array: block by block; a refused block yields its error object in the result, never None *)
Theorem s3_put_dask_array_reports : forall rc blocks res,
  s3_put_dask_array rc blocks = Ret res ->
  List.length res = List.length blocks /\
  forall i a, nth_error blocks i = Some a -> Forall (refusal []) a ->
    exists e, nth_error res i = Some (Some e) /\ isinst e K_ChunkStoreError = true.
Proof.
  intros rc blocks. induction blocks as [|b t IH]; intros res H; simpl in H.
  - inversion H; subst. split; [reflexivity|]. intros i a Hn. destruct i; discriminate.
  - destruct (s3_put_chunk_noraise rc true b) as [r|e] eqn:E; [|discriminate].
    destruct (s3_put_dask_array rc t) as [l|e] eqn:E2; [|discriminate]. inversion H; subst; clear H.
    destruct (IH l eq_refl) as [L1 L2]. split; [simpl; congruence|].
    intros i a Hn HF. destruct i as [|i].
    + simpl in Hn. inversion Hn; subst.
      destruct (s3_refused_put_is_reported rc a HF) as [[e [_ [E3 E4]]] _]. rewrite E4 in E. inversion E; subst.
      exists e. split; [reflexivity|exact E3].
    + simpl in Hn. simpl. apply (L2 i a Hn HF).
Qed.
Theorem s3_put_dask_array_never_fails_on_refusals : forall rc blocks,
  Forall (fun a => Forall (refusal []) a \/ exists s, a = [AStatus s] /\ accepted s = true /\ memZ s (forcelist rc) = false) blocks ->
  exists res, s3_put_dask_array rc blocks = Ret res.
Proof.
  intros rc blocks. induction blocks as [|b t IH]; intro HF; simpl; [eexists; reflexivity|].
  inversion HF as [|? ? Hb Ht]; subst. destruct (IH Ht) as [l El]. rewrite El.
  destruct Hb as [Hb|[s [Hb [Hs Hm]]]].
  - destruct (s3_refused_put_is_reported rc b Hb) as [[e [_ [_ E4]]] _]. rewrite E4. eexists; reflexivity.
  - subst b. destruct put_chunk_ignores_nothing as [P _].
    unfold s3_put_chunk_noraise, s3_put_chunk. rewrite P. cbn [negb request_run forcelist status_retries]. rewrite Hm. rewrite request_src_is_modelled.
    assert (raise_for_status [] s = None) as ->.
    { destruct (raise_for_status [] s) eqn:E; [|reflexivity]. apply raise_for_status_only_errors in E.
      unfold accepted in Hs. apply andb_true_iff in Hs. destruct Hs as [_ Hs]. apply Z.ltb_lt in Hs. lia. }
    eexists; reflexivity.
Qed.

(* mark_complete: a refused bucket PUT (409 "bucket exists" is fine) is reported; once the bucket PUT went through a
   refused marker PUT is reported; and success is reported only when the marker PUT was answered with a non-error *)
Theorem s3_mark_complete_reports : forall rc bucket marker,
  (Forall (refusal [409]) bucket ->
   exists e, s3_mark_complete rc bucket marker = Raise e /\ isinst e K_ChunkStoreError = true)
  /\ (forall s, request_run (forcelist rc) (status_retries rc) [409] bucket = Ret s -> Forall (refusal []) marker ->
      exists e, s3_mark_complete rc bucket marker = Raise e /\ isinst e K_ChunkStoreError = true)
  /\ (s3_mark_complete rc bucket marker = Ret tt ->
      exists s, In (AStatus s) (firstn (request_attempts (forcelist rc) (status_retries rc) marker) marker)
                /\ ~ (300 <= s < 600)).
Proof.
  intros rc bucket marker. destruct put_chunk_ignores_nothing as [_ [P2 P3]].
  unfold s3_mark_complete. rewrite P2, P3. split; [|split].
  - intro H. destruct (refused_request_raises (forcelist rc) [409] bucket (status_retries rc) H) as [e [E1 E2]].
    rewrite E1. exists e. auto.
  - intros s E H. rewrite E.
    destruct (refused_request_raises (forcelist rc) [] marker (status_retries rc) H) as [e [E1 E2]]. rewrite E1.
    exists e. auto.
  - intro H. destruct (request_run (forcelist rc) (status_retries rc) [409] bucket); [|discriminate].
    destruct (request_run (forcelist rc) (status_retries rc) [] marker) as [s|e] eqn:E; [|discriminate].
    destruct (request_returns_only_accepted _ _ _ _ _ E) as [I1 I2]. exists s. split; [exact I1|].
    intro Hs. apply I2. split; [exact Hs|reflexivity].
Qed.

(* ---------- C08-F5g repaired: FULL strength, no guard on the kind of refusal ----------
   The answers of the server are final HTTP responses (status 200..599: RFC 9110 knows no other final status, 1xx are
   interim responses that http.client consumes) or attempts that fail inside requests.  Whatever they are: if no attempt
   that was made got a 2xx answer (nothing was stored), the put is reported -- put_chunk raises a chunk-store error and
   put_chunk_noraise returns that error object; conversely success is reported only when the object was stored. *)
Definition final_answer (a : answer) : Prop :=
  match a with
  | AStatus s => 200 <= s < 600
  | AFail e => isinst e R_RequestException = true
  end.

Lemma stored_after_cons_status : forall fl n s rest,
  stored_after fl n (AStatus s :: rest) =
  accepted s || (if memZ s fl then match n with O => false | S n' => stored_after fl n' rest end else false).
Proof.
  intros fl n s rest. unfold stored_after. cbn [request_attempts].
  destruct (memZ s fl); [destruct n as [|n']|]; cbn [firstn existsb]; try rewrite firstn_O; cbn [existsb]; reflexivity.
Qed.

Lemma unstored_request_raises : forall fl answers n,
  Forall final_answer answers -> stored_after fl n answers = false ->
  exists e, request_run fl n [] answers = Raise e /\ isinst e K_ChunkStoreError = true.
Proof.
  intros fl answers. destruct status_classes_ok as [_ [_ [RR RQ]]]. rewrite forallb_forall in RQ.
  induction answers as [|a rest IH]; intros n HF HS.
  - simpl. eexists. split; [reflexivity|]. vm_compute. reflexivity.
  - inversion HF as [|? ? Ha Hrest]; subst. destruct a as [s|e]; cbn [request_run].
    + rewrite stored_after_cons_status in HS. apply orb_false_iff in HS. destruct HS as [Hacc HS].
      destruct (memZ s fl).
      * destruct n as [|n']; [eexists; split; [reflexivity|exact RR]|]. apply IH; assumption.
      * rewrite request_src_is_modelled. simpl in Ha.
        assert (Hs : 300 <= s < 600).
        { unfold accepted in Hacc. apply andb_false_iff in Hacc. destruct Hacc as [H|H].
          - apply Z.leb_gt in H. lia.
          - apply Z.ltb_ge in H. lia. }
        destruct (raise_for_status_total [] s Hs eq_refl) as [e [E1 E2]]. rewrite E1.
        destruct (status_class_reported e E2) as [S1 S2]. rewrite S1. eexists. split; [reflexivity|exact S2].
    + eexists. split; [reflexivity|]. simpl in Ha.
      pose proof (all_exn_complete e) as Hin. specialize (RQ e Hin). rewrite Ha in RQ. simpl in RQ. exact RQ.
Qed.

Theorem s3_failed_put_is_reported : forall rc answers,
  Forall final_answer answers ->
  stored_after (forcelist rc) (status_retries rc) answers = false ->
  exists e, s3_put_chunk rc true answers = Raise e /\ isinst e K_ChunkStoreError = true
            /\ s3_put_chunk_noraise rc true answers = Ret (Some e).
Proof.
  intros rc answers HF HS. destruct put_chunk_ignores_nothing as [P _].
  unfold s3_put_chunk_noraise, s3_put_chunk. rewrite P. simpl negb. cbv iota.
  destruct (unstored_request_raises (forcelist rc) answers (status_retries rc) HF HS) as [e [E1 E2]].
  rewrite E1. exists e. split; [reflexivity|]. split; [exact E2|].
  assert (caught noraise_returned e = true) as ->; [|reflexivity].
  assert (noraise_returned = [K_ChunkStoreError]) as -> by reflexivity. unfold caught. simpl. rewrite E2. reflexivity.
Qed.

Theorem s3_put_success_means_stored : forall rc answers,
  Forall final_answer answers ->
  (s3_put_chunk rc true answers = Ret tt \/ s3_put_chunk_noraise rc true answers = Ret None) ->
  stored_after (forcelist rc) (status_retries rc) answers = true.
Proof.
  intros rc answers HF H. destruct (stored_after (forcelist rc) (status_retries rc) answers) eqn:E; [reflexivity|].
  destruct (s3_failed_put_is_reported rc answers HF E) as [e [E1 [_ E3]]]. destruct H as [H|H]; congruence.
Qed.

(* every refusal is a final answer that stores nothing, so the guarded statements above are instances *)
Lemma refusal_is_final : forall a, refusal [] a -> final_answer a.
Proof. intros [s|e] H; simpl in *; [lia|exact H]. Qed.

(* put_dask_array, full strength: a block of which nothing was stored has its error object in its slot *)
Theorem s3_put_dask_array_reports_unstored : forall rc blocks res,
  s3_put_dask_array rc blocks = Ret res ->
  forall i a, nth_error blocks i = Some a -> Forall final_answer a ->
    stored_after (forcelist rc) (status_retries rc) a = false ->
    exists e, nth_error res i = Some (Some e) /\ isinst e K_ChunkStoreError = true.
Proof.
  intros rc blocks. induction blocks as [|b t IH]; intros res H; simpl in H.
  - inversion H; subst. intros i a Hn. destruct i; discriminate.
  - destruct (s3_put_chunk_noraise rc true b) as [r|e] eqn:E; [|discriminate].
    destruct (s3_put_dask_array rc t) as [l|e] eqn:E2; [|discriminate]. inversion H; subst; clear H.
    intros i a Hn HF HS. destruct i as [|i].
    + simpl in Hn. inversion Hn; subst.
      destruct (s3_failed_put_is_reported rc a HF HS) as [e [_ [E3 E4]]]. rewrite E4 in E. inversion E; subst.
      exists e. split; [reflexivity|exact E3].
    + simpl in Hn. simpl. apply (IH l eq_refl i a Hn HF HS).
Qed.

(* mark_complete, full strength: success is reported only when the marker object was stored *)
Theorem s3_mark_complete_success_means_stored : forall rc bucket marker,
  Forall final_answer marker -> s3_mark_complete rc bucket marker = Ret tt ->
  stored_after (forcelist rc) (status_retries rc) marker = true.
Proof.
  intros rc bucket marker HF H. destruct put_chunk_ignores_nothing as [_ [P2 P3]].
  unfold s3_mark_complete in H. rewrite P2, P3 in H.
  destruct (request_run (forcelist rc) (status_retries rc) [409] bucket); [|discriminate].
  destruct (stored_after (forcelist rc) (status_retries rc) marker) eqn:E; [reflexivity|].
  destruct (unstored_request_raises (forcelist rc) marker (status_retries rc) HF E) as [e [E1 _]].
  rewrite E1 in H. discriminate.
Qed.

(* teeth: with the status test of seeded change 8 (`400 <= status < 500`) a PUT answered 507 reports success *)
Definition raise_for_status_4xx_only (ign : list Z) (s : Z) : option exn :=
  if (400 <=? s) && (s <? 500) && negb (memZ s ign) then Some K_StoreUnavailable else None.
Lemma client_errors_only_refutes :
  raise_for_status_4xx_only [] 507 = None /\ raise_for_status [] 507 = Some K_StoreUnavailable
  /\ s3_put_chunk_noraise (default_retry 0) true [AStatus 507] = Ret (Some K_StoreUnavailable)
  /\ s3_put_chunk_noraise (default_retry 0) true [AStatus 503] = Ret (Some K_S3ServerGlitch)
  /\ s3_put_chunk_noraise (default_retry 1) true [AStatus 503; AStatus 200] = Ret None
  /\ s3_put_chunk_noraise (default_retry 1) true [AStatus 503; AStatus 507] = Ret (Some K_StoreUnavailable).
Proof. vm_compute. repeat split; reflexivity. Qed.

(* finding C08-F5g BEFORE the repair: with the status test of the unrepaired source (`400 <= status < 600`) a PUT answered
   with a redirect status that requests cannot follow (301 PermanentRedirect without a Location header, as AWS sends
   for the wrong regional endpoint) raised nothing, so put_chunk / put_chunk_noraise reported success although nothing
   was stored; the translated test raises StoreUnavailable and the put is reported *)
Definition raise_for_status_errors_only (ign : list Z) (s : Z) : option exn :=
  if (400 <=? s) && (s <? 600) && negb (memZ s ign) then Some K_StoreUnavailable else None.
Lemma failed_put_is_reported_refuted_before_fix :
  raise_for_status_errors_only [] 301 = None /\ accepted 301 = false
  /\ raise_for_status [] 301 = Some K_StoreUnavailable
  /\ s3_put_chunk (default_retry 0) true [AStatus 301] = Raise K_StoreUnavailable
  /\ s3_put_chunk_noraise (default_retry 0) true [AStatus 301] = Ret (Some K_StoreUnavailable)
  /\ stored_after (forcelist (default_retry 0)) (status_retries (default_retry 0)) [AStatus 301] = false.
Proof. vm_compute. repeat split; reflexivity. Qed.
