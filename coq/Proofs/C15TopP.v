(* C15: the statements of Props/C15.v whose proofs need more than one step (Props files only contain `exact`). *)
From Coq Require Import ZArith QArith Qabs Qcanon Qround List Bool Arith.
From KV Require Import Base.Sx Gen.Generated Model.Interp Model.Weights Model.Averager.
From KV Require Import Proofs.WeightsP Proofs.WeightsBlocksP Proofs.WeightsNumP Proofs.AveragerP.
Import ListNotations.
Close Scope Q_scope.
Open Scope nat_scope.

Lemma top_last_auto_is_last : forall a cps p, last_auto cps a = Some p ->
  nth_error cps p = Some (a, a) /\ forall j, p < j -> nth_error cps j <> Some (a, a).
Proof.
  intros a cps p H. destruct (last_auto_from_some a cps 0 p H) as [_ [H1 H2]].
  rewrite Nat.sub_0_r in *. split; [exact H1 | exact H2].
Qed.

Lemma top_auto_positions_are_autos : forall cps p,
  In p (auto_positions cps 0) <-> exists c, nth_error cps p = Some c /\ is_auto c = true.
Proof.
  intros cps p. rewrite auto_positions_in. rewrite Nat.sub_0_r. split; [intros [_ H]; exact H | intro H; split; [apply Nat.le_0_l | exact H]].
Qed.

Lemma top_C15_scaled : forall (x y : Qc) (sw : Ext), x <> 0%Qc -> y <> 0%Qc ->
  power_scale true (Fin x) (Fin y) sw = emul (Fin (/ (x * y))%Qc) sw.
Proof. intros. apply scaled_finite; assumption. Qed.

Lemma top_C15_scaled_finite_weights : forall (x y w wc : Qc), x <> 0%Qc -> y <> 0%Qc ->
  power_scale true (Fin x) (Fin y) (emul (Fin w) (Fin wc)) = Fin (w * wc / (x * y))%Qc.
Proof.
  intros. unfold power_scale. rewrite scaled_finite by assumption. cbn [emul]. f_equal. unfold Qcdiv. ring.
Qed.

Lemma top_C15_unscaled : forall (x y : Qc) (sw : Ext),
  power_scale false (Fin x) (Fin y) sw = emul (Fin (x * y)%Qc) sw.
Proof. intros. apply unscaled_finite. Qed.

Lemma top_bad_weight_when_zero_or_nonfinite : forall a1 a2 sw, bad_auto a1 \/ bad_auto a2 ->
  power_scale true a1 a2 sw = emul (Fin bad_weight) sw.
Proof. intros. unfold power_scale. rewrite guard_on. now apply bad_weight_div_guarded. Qed.

Lemma top_C15_unscaled_nonfinite : forall a1 a2 sw, isfinite a1 = false \/ isfinite a2 = false ->
  power_scale false a1 a2 sw = emul (Fin bad_weight) sw.
Proof. intros. now apply bad_weight_mul. Qed.

Lemma top_zero_sign_irrelevant : forall s w,
  finish_scale PInf s w = finish_scale NInf s w /\ finish_scale s PInf w = finish_scale s NInf w.
Proof. intros. split; [apply recip_zero_sign | apply recip_zero_sign_r]. Qed.

Lemma top_rechunk_baseline_identity : forall (bch : list nat) (cell : list Ext),
  Weights.total bch = List.length cell -> rechunk_b bch cell = cell.
Proof. intros. now apply rechunk_b_id. Qed.

Lemma top_vanvleck_only_real_autos : forall table cps vis bchv tch fch T F,
  shape3 vis T F (List.length cps) -> Weights.total tch = T -> Weights.total fch = F ->
  Weights.total bchv = List.length cps -> has_autos cps ->
  exists r, correct_autocorr table cps vis bchv tch fch = Some r /\ shape3 r T F (List.length cps) /\
    forall t f b, t < T -> f < F -> b < List.length cps ->
      (is_auto (cp_at cps b) = false -> Weights.get3 r cx_nan t f b = Weights.get3 vis cx_nan t f b) /\
      (is_auto (cp_at cps b) = true ->
         Weights.get3 r cx_nan t f b = (vv_interp table (fst (Weights.get3 vis cx_nan t f b)), Fin 0)).
Proof.
  intros table cps vis bchv tch fch T F Hv HT HF HB Ha.
  destruct (correct_autocorr_pointwise table cps vis bchv tch fch T F Hv HT HF HB Ha) as [r [E [S P]]].
  exists r. split; [exact E |]. split; [exact S |]. intros t f b Ht Hf Hb. rewrite (P t f b Ht Hf Hb).
  split; intro H; [now apply spec_vv_cross | now apply spec_vv_auto].
Qed.

Lemma top_excision_rounding : forall q : Q,
  (Qabs (q - inject_Z (rheQ q)) <= 1 # 2)%Q /\
  ((q - inject_Z (Qfloor q) == 1 # 2)%Q -> Z.even (rheQ q) = true).
Proof. intro q. split; [apply rheQ_near | apply rheQ_tie_even]. Qed.

Lemma top_v3_weights : forall w wc,
  v3_weight true true true w wc = emul w wc /\
  v3_weight true false true w wc = wc /\ v3_weight true true false w wc = w /\ v3_weight true false false w wc = Fin 1.
Proof. intros. split; [apply v3_both | apply v3_absent]. Qed.

Lemma top_avg_bin_positions : forall ta ca i j,
  (forall t c, In (t, c) (bin_positions ta ca i j) <-> i * ta <= t < i * ta + ta /\ j * ca <= c < j * ca + ca) /\
  NoDup (bin_positions ta ca i j) /\ List.length (bin_positions ta ca i j) = ta * ca.
Proof.
  intros. split; [intros; apply bin_positions_in |]. split; [apply bin_positions_nodup | apply bin_positions_length].
Qed.
