(* C09: histories of get_chunk calls on one store object (Model/S3Session.v). *)
From Coq Require Import ZArith List Bool String Lia.
From KV Require Import Base.Sx Base.Str Gen.Generated Model.S3Retry Model.S3Session Proofs.S3RetryP.
Import ListNotations.
Open Scope Z_scope.

(* ---------- _verify_bucket as it stands in the source = the hand-written verify_bucket of Model/S3Retry.v,
   with the cache read first and written LAST (this is the lemma that breaks when the statements are reordered) ---------- *)
Lemma run_verify_std : forall cfg o vs,
  run_verify s3_verify_steps cfg o vs false O =
  if memN (o_id o) vs then (None, O, vs)
  else match verify_bucket cfg (o_blen o) (o_state o) (o_fsb o) with
       | (e, m, v) => (e, m, if v then o_id o :: vs else vs)
       end.
Proof.
  intros cfg o vs.
  change s3_verify_steps with ["return_if_cached"; "listing"; "raise_if_empty"; "add"]%string.
  unfold verify_bucket.
  cbn [run_verify String.eqb Ascii.eqb Bool.eqb andb].
  change (err_of_name s3_verify_missing) with Unavail. change (err_of_name s3_verify_empty) with Unavail.
  destruct (memN (o_id o) vs); [reflexivity|].
  destruct (request cfg PListing (o_blen o) [] (listing_script (o_state o) (o_fsb o))) as [resb k].
  cbn [Nat.add].
  destruct resb as [d|[]]; try reflexivity.
  destruct (o_state o); reflexivity.
Qed.

Lemma memN_cons : forall x y l, memN x (y :: l) = Nat.eqb x y || memN x l.
Proof. reflexivity. Qed.

(* one call on a store with cache vs = the single-call model with `verified := bucket in cache`; the cache grows by this
   bucket exactly when the single-call model reports it verified and it was not there yet *)
Lemma session_op_get_chunk : forall cfg vs o,
  session_op cfg vs o =
  let g := get_chunk cfg (o_segs o) (o_len o) (o_blen o) (memN (o_id o) vs) (o_state o) (o_fs o) (o_fsb o) in
  (g, if g_verified g && negb (memN (o_id o) vs) then o_id o :: vs else vs).
Proof.
  intros cfg vs o. unfold session_op, get_chunk. cbv zeta.
  destruct (request cfg (PChunk (o_segs o)) (o_len o) [] (o_fs o)) as [res n].
  destruct res as [d|[]];
    try (cbn [g_verified]; destruct (memN (o_id o) vs); reflexivity).
  rewrite run_verify_std.
  destruct (memN (o_id o) vs) eqn:Em; [cbn [g_verified andb negb]; rewrite ?Em; reflexivity|].
  destruct (verify_bucket cfg (o_blen o) (o_state o) (o_fsb o)) as [[e m] v].
  destruct e as [e|]; destruct v; cbn [g_verified andb negb];
    rewrite ?memN_cons, ?Nat.eqb_refl, ?Em; reflexivity.
Qed.

(* ---------- evidence ---------- *)
Lemma shown_app : forall cfg h1 h2 id, shown cfg (h1 ++ h2) id = shown cfg h1 id || shown cfg h2 id.
Proof. intros. unfold shown. apply existsb_app. Qed.
Lemma shown_one : forall cfg o id,
  shown cfg [o] id = Nat.eqb (o_id o) id && obj404 cfg o && listing_shows_keys cfg o.
Proof. intros. unfold shown. cbn [existsb]. apply orb_false_r. Qed.

(* the step of the invariant: cache = evidence, before => after *)
Lemma session_op_spec : forall cfg, wf_retry (c_retry cfg) = true -> forall vs hist o,
  wf_op o -> (forall id, memN id vs = shown cfg hist id) ->
  let '(g, vs') := session_op cfg vs o in
  g_result g = spec_op cfg hist o /\
  g_obj_requests g = spec_requests (c_forcelist cfg) (o_len o) (c_retry cfg) (o_fs o) /\
  (g_bucket_requests g =
     if shown cfg hist (o_id o) then O
     else if obj404 cfg o
          then snd (request cfg PListing (o_blen o) [] (listing_script (o_state o) (o_fsb o))) else O) /\
  (forall id, memN id vs' = shown cfg (hist ++ [o]) id).
Proof.
  intros cfg Hb vs hist o Hwf Hinv.
  rewrite session_op_get_chunk. cbv zeta.
  change (o_len o) with (total (o_segs o)).
  destruct (get_chunk_is_spec cfg (o_segs o) (o_blen o) (memN (o_id o) vs) (o_state o) (o_fs o) (o_fsb o)
              Hb Hwf eq_refl) as [Hr [Hn [Hm Hv]]].
  cbv zeta in Hr, Hn, Hm, Hv.
  split; [|split; [|split]].
  - rewrite Hr. unfold spec_op. rewrite Hinv. reflexivity.
  - exact Hn.
  - rewrite Hm, Hinv. unfold obj404. change (o_len o) with (total (o_segs o)).
    destruct (shown cfg hist (o_id o)); [reflexivity|].
    destruct (spec_result (c_forcelist cfg) (total (o_segs o)) (c_retry cfg) (o_fs o)) as [d|[]]; reflexivity.
  - intro id. rewrite Hv. rewrite shown_app, shown_one, <- Hinv.
    unfold obj404, listing_shows_keys. change (o_len o) with (total (o_segs o)).
    set (sr := spec_result (c_forcelist cfg) (total (o_segs o)) (c_retry cfg) (o_fs o)).
    set (ls := match o_state o, fst (request cfg PListing (o_blen o) [] (listing_script (o_state o) (o_fsb o))) with
               | BFull, Ok _ => true | _, _ => false end).
    destruct (Nat.eqb (o_id o) id) eqn:E.
    + apply Nat.eqb_eq in E. subst id.
      destruct sr as [d|[]]; destruct (memN (o_id o) vs) eqn:Em; destruct ls;
        cbn [orb andb negb]; rewrite ?memN_cons, ?Nat.eqb_refl, ?Em; reflexivity.
    + assert (E' : Nat.eqb id (o_id o) = false) by (rewrite Nat.eqb_sym; exact E).
      cbn [andb]. rewrite orb_false_r.
      destruct (_ && negb (memN (o_id o) vs)); [rewrite memN_cons, E'|]; reflexivity.
Qed.

(* ---------- the whole history ---------- *)
Definition spec_requests_op (cfg : config) (o : op) : nat :=
  spec_requests (c_forcelist cfg) (o_len o) (c_retry cfg) (o_fs o).

Lemma session_spec_gen : forall cfg, wf_retry (c_retry cfg) = true -> forall ops vs hist,
  Forall wf_op ops -> (forall id, memN id vs = shown cfg hist id) ->
  map g_result (fst (session cfg vs ops)) = spec_session cfg hist ops /\
  map g_obj_requests (fst (session cfg vs ops)) = map (spec_requests_op cfg) ops /\
  (forall id, memN id (snd (session cfg vs ops)) = shown cfg (hist ++ ops) id).
Proof.
  intros cfg Hb. induction ops as [|o t IH]; intros vs hist Hwf Hinv.
  - cbn [session fst snd map spec_session]. rewrite app_nil_r. auto.
  - inversion Hwf as [|? ? Ho Ht]; subst.
    cbn [session spec_session].
    pose proof (session_op_spec cfg Hb vs hist o Ho Hinv) as Hs.
    destruct (session_op cfg vs o) as [g vs']. destruct Hs as [Hr [Hn [_ Hinv']]].
    destruct (IH vs' (hist ++ [o]) Ht Hinv') as [IHr [IHn IHv]].
    destruct (session cfg vs' t) as [gs vs'']. cbn [fst snd map] in *.
    rewrite Hr, IHr, Hn, IHn. split; [reflexivity|]. split; [reflexivity|].
    intro id. rewrite IHv. rewrite <- app_assoc. reflexivity.
Qed.

Lemma session_fresh_is_spec : forall cfg ops,
  wf_retry (c_retry cfg) = true -> Forall wf_op ops ->
  map g_result (fst (session cfg [] ops)) = spec_session cfg [] ops /\
  map g_obj_requests (fst (session cfg [] ops)) = map (spec_requests_op cfg) ops.
Proof.
  intros cfg ops Hb Hwf.
  destruct (session_spec_gen cfg Hb ops [] [] Hwf (fun _ => eq_refl)) as [H1 [H2 _]]. auto.
Qed.

(* the cache IS the evidence, for every history: nothing gets into it in any other way and nothing is forgotten *)
Lemma cache_is_evidence : forall cfg ops id,
  wf_retry (c_retry cfg) = true -> Forall wf_op ops ->
  memN id (snd (session cfg [] ops)) = shown cfg ops id.
Proof.
  intros cfg ops id Hb Hwf.
  destruct (session_spec_gen cfg Hb ops [] [] Hwf (fun _ => eq_refl)) as [_ [_ H]]. exact (H id).
Qed.

(* INVARIANT in the words of the property: a bucket is in the verified set only if, earlier on this store object, a
   chunk request in that bucket was answered 404 and the bucket listing then came back complete and showed a key *)
Lemma verified_only_if_listed : forall cfg ops id,
  wf_retry (c_retry cfg) = true -> Forall wf_op ops ->
  memN id (snd (session cfg [] ops)) = true ->
  exists o, In o ops /\ o_id o = id /\ o_state o = BFull /\ obj404 cfg o = true /\
            exists d, fst (request cfg PListing (o_blen o) [] (o_fsb o)) = Ok d.
Proof.
  intros cfg ops id Hb Hwf H. rewrite cache_is_evidence in H by assumption.
  unfold shown in H. apply existsb_exists in H as [o [Hin Ho]].
  apply andb_true_iff in Ho as [Ho Hl]. apply andb_true_iff in Ho as [Hid H4].
  apply Nat.eqb_eq in Hid. exists o. repeat split; try assumption.
  - unfold listing_shows_keys in Hl. destruct (o_state o); try discriminate. reflexivity.
  - unfold listing_shows_keys in Hl. destruct (o_state o) eqn:Es; try discriminate.
    cbn [listing_script] in Hl.
    destruct (fst (request cfg PListing (o_blen o) [] (o_fsb o))) as [d|e]; [eauto | discriminate].
Qed.

(* ---------- what any single call of a history gets ---------- *)
Lemma spec_session_app : forall cfg pre hist post,
  spec_session cfg hist (pre ++ post) = spec_session cfg hist pre ++ spec_session cfg (hist ++ pre) post.
Proof.
  intros cfg. induction pre as [|a t IH]; intros hist post; cbn [app spec_session].
  - rewrite app_nil_r. reflexivity.
  - rewrite IH. rewrite <- app_assoc. reflexivity.
Qed.
Lemma spec_session_length : forall cfg ops hist, List.length (spec_session cfg hist ops) = List.length ops.
Proof. intros cfg. induction ops as [|a t IH]; intro hist; cbn [spec_session List.length]; [|rewrite IH]; reflexivity. Qed.

Lemma nth_call : forall cfg pre o post,
  wf_retry (c_retry cfg) = true -> Forall wf_op (pre ++ o :: post) ->
  nth (List.length pre) (map g_result (fst (session cfg [] (pre ++ o :: post)))) (Err Raw) = spec_op cfg pre o.
Proof.
  intros cfg pre o post Hb Hwf.
  destruct (session_fresh_is_spec cfg (pre ++ o :: post) Hb Hwf) as [H _]. rewrite H.
  rewrite spec_session_app. cbn [app spec_session].
  rewrite app_nth2 by (rewrite spec_session_length; lia).
  rewrite spec_session_length, Nat.sub_diag. reflexivity.
Qed.

(* the spec never passes a 404 on as a missing chunk without evidence (sanity of the spec itself) *)
Lemma spec_404_needs_evidence : forall cfg hist o,
  obj404 cfg o = true -> shown cfg (hist ++ [o]) (o_id o) = false -> spec_op cfg hist o <> Err NotFound.
Proof.
  intros cfg hist o H4 Hs. rewrite shown_app, shown_one, Nat.eqb_refl, H4 in Hs. cbn [andb] in Hs.
  apply orb_false_iff in Hs as [Hh Hl].
  unfold spec_op, spec_get_chunk. rewrite Hh. unfold obj404 in H4.
  destruct (spec_result (c_forcelist cfg) (o_len o) (c_retry cfg) (o_fs o)) as [d|[]]; try discriminate.
  unfold spec_404. unfold listing_shows_keys in Hl.
  destruct (fst (request cfg PListing (o_blen o) [] (listing_script (o_state o) (o_fsb o)))) as [d|[]];
    destruct (o_state o); try discriminate; intro X; discriminate X.
Qed.

(* and with evidence it does: once a listing has shown keys, later 404s in that bucket are missing chunks *)
Lemma spec_404_with_evidence : forall cfg hist o,
  obj404 cfg o = true -> shown cfg hist (o_id o) = true -> spec_op cfg hist o = Err NotFound.
Proof.
  intros cfg hist o H4 Hs. unfold spec_op, spec_get_chunk. rewrite Hs. unfold obj404 in H4.
  destruct (spec_result (c_forcelist cfg) (o_len o) (c_retry cfg) (o_fs o)) as [d|[]]; try discriminate. reflexivity.
Qed.

(* a call whose object request is not answered 404 is judged by the counting spec alone, with the full budget of the
   configuration, whatever happened in earlier calls: nothing of the retry state is carried over *)
Lemma spec_op_no_404 : forall cfg hist o,
  obj404 cfg o = false -> spec_op cfg hist o = spec_result (c_forcelist cfg) (o_len o) (c_retry cfg) (o_fs o).
Proof.
  intros cfg hist o H4. unfold spec_op, spec_get_chunk. unfold obj404 in H4.
  destruct (spec_result (c_forcelist cfg) (o_len o) (c_retry cfg) (o_fs o)) as [d|[]]; try discriminate; reflexivity.
Qed.
