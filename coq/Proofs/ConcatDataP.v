(* C19: the data arrays of a concatenated data set (Model/ConcatData.v): corollary of C05_concat plus
   "the parts' selections glued = the selection of the whole applied to the glued stored arrays". *)
From Coq Require Import ZArith List Bool Lia.
From KV Require Import Base.Sx Base.PySlice Base.AxisIndex Base.NdArray Base.LazyDType Model.LazyIdx Model.ConcatIdx
  Proofs.LazyIdxP Proofs.ConcatIdxP Model.ConcatData.
Import ListNotations.
Open Scope Z_scope.

(* the stored array of a part has dp_T rows; its time mask and the common tail masks fit *)
Definition dpart_ok (p : dpart) : Prop :=
  zlen (dp_tk p) = dp_T p /\ exists ch, dp_ds p = Node ch /\ zlen ch = dp_T p.
Definition tail_ok (tail : list Z) (tailkeep : list (list bool)) : Prop :=
  Forall (fun d => 0 <= d) tail /\ Forall2 (fun d m => zlen m = d) tail tailkeep.

Definition tsels (tailkeep : list (list bool)) : list sel := map (fun m => (nonzero m, false)) tailkeep.

Lemma keep_sels_masks : forall tail tailkeep, Forall2 (fun d m => zlen m = d) tail tailkeep ->
  mapM (fun p => ps <- resolve_keep (fst p) (snd p) ;; Ok (ps, false)) (combine tail (map AMask tailkeep)) = Ok (tsels tailkeep).
Proof.
  induction 1 as [|d m tail tk H _ IH]; [reflexivity|]. cbn [map combine mapM fst snd].
  unfold resolve_keep at 1, resolve. rewrite H, Z.eqb_refl. cbn [bind fst]. rewrite IH. reflexivity.
Qed.

Lemma oindex_keep_masks T tail ds tk tailkeep : zlen tk = T -> Forall2 (fun d m => zlen m = d) tail tailkeep ->
  oindex_keep (mk_nd (T :: tail) ds) (AMask tk :: map AMask tailkeep)
  = Ok (mk_nd (take_shape ((nonzero tk, false) :: tsels tailkeep)) (take ds ((nonzero tk, false) :: tsels tailkeep))).
Proof.
  intros HT HF. unfold oindex_keep, keep_sels. cbn [nd_shape nd_body List.length].
  assert (L : List.length (map AMask tailkeep) = List.length tail).
  { rewrite map_length. symmetry. clear -HF. induction HF; cbn; auto. }
  cbn [pad_to]. rewrite pad_to_id by exact L. cbn [combine mapM fst snd].
  unfold resolve_keep at 1, resolve. rewrite HT, Z.eqb_refl. cbn [bind fst].
  rewrite (keep_sels_masks tail tailkeep HF). reflexivity.
Qed.

Lemma tsels_shape tailkeep : take_shape (tsels tailkeep) = map (fun m => zlen (nonzero m)) tailkeep.
Proof. induction tailkeep as [|m r IH]; [reflexivity|]. cbn [tsels map take_shape]. fold (tsels r). rewrite IH. reflexivity. Qed.

(* rows of the glued array selected by the glued mask = the rows the parts select, glued *)
Lemma glued_rows (S : list sel) : forall (parts : list dpart) (pre : list tree), Forall dpart_ok parts ->
  map (fun p => take (child (Node (pre ++ flat_map children (map dp_ds parts))) p) S)
      (nonzero_from (zlen pre) (List.concat (map dp_tk parts)))
  = flat_map (fun p => map (fun q => take (child (dp_ds p) q) S) (nonzero (dp_tk p))) parts.
Proof.
  induction parts as [|p r IH]; intros pre F; [reflexivity|].
  inversion F as [|? ? (HK & ch & Hd & Hc) F']; subst.
  cbn [map List.concat flat_map]. rewrite nonzero_from_app, map_app. f_equal.
  - rewrite <- nonzero_from_shift, map_map. apply map_ext_in. intros q Hq.
    apply (nonzero_from_range 0) in Hq. f_equal. rewrite Hd. cbn [children].
    unfold child, children. rewrite app_assoc, app_nth1; [|].
    + rewrite app_nth2 by (unfold zlen in *; lia). f_equal. unfold zlen. lia.
    + rewrite app_length. unfold zlen in *. lia.
  - rewrite Hd. cbn [children]. rewrite app_assoc. specialize (IH (pre ++ ch) F').
    rewrite zlen_app in IH. rewrite HK, <- Hc. exact IH.
Qed.

Lemma nonzero_concat_len : forall (ms : list (list bool)) o,
  zlen (nonzero_from o (List.concat ms)) = zsum (map (fun m => zlen (nonzero m)) ms).
Proof.
  induction ms as [|m r IH]; intro o; [reflexivity|]. cbn [List.concat map zsum fold_right].
  rewrite nonzero_from_app, zlen_app, IH. f_equal. rewrite <- (nonzero_from_shift o m), zlen_map. reflexivity.
Qed.

Lemma zlen_concat_masks parts : Forall dpart_ok parts -> zlen (List.concat (map dp_tk parts)) = zsum (map dp_T parts).
Proof.
  induction 1 as [|p r (HK & _) _ IH]; [reflexivity|]. cbn [map List.concat zsum fold_right]. rewrite zlen_app, IH, HK. reflexivity.
Qed.

(* the per-part first stages *)
Definition full_of (tailkeep : list (list bool)) (p : dpart) : nd :=
  mk_nd (take_shape ((nonzero (dp_tk p), false) :: tsels tailkeep)) (take (dp_ds p) ((nonzero (dp_tk p), false) :: tsels tailkeep)).

Lemma fulls_of tail tailkeep dt parts : Forall dpart_ok parts -> Forall2 (fun d m => zlen m = d) tail tailkeep ->
  mapM (fun r => oindex_keep (mk_nd (r_shape r) (r_ds r)) (r_keep r)) (map (raw_of tail tailkeep dt) parts)
  = Ok (map (full_of tailkeep) parts).
Proof.
  intros F HF. induction F as [|p r (HK & _) _ IH]; [reflexivity|]. cbn [map mapM raw_of r_shape r_ds r_keep].
  rewrite (oindex_keep_masks _ _ _ _ _ HK HF). cbn [bind]. cbn [map] in IH. rewrite IH. reflexivity.
Qed.

(* spec of C05 on these raws = spec of the data set *)
Lemma spec_concat_is_spec_ds tail tailkeep dt parts ix : parts <> [] -> Forall dpart_ok parts -> tail_ok tail tailkeep ->
  spec_concat (map (raw_of tail tailkeep dt) parts) [] ix = spec_ds tail tailkeep dt parts ix.
Proof.
  intros NE F (TN & HF). unfold spec_concat, spec_ds. rewrite (fulls_of tail tailkeep dt parts F HF). cbn [bind].
  unfold whole. rewrite (oindex_keep_masks _ _ _ _ _ (zlen_concat_masks parts F) HF). cbn [bind].
  set (fulls := map (full_of tailkeep) parts).
  assert (TL : forall a, In a fulls -> tl (nd_shape a) = take_shape (tsels tailkeep)).
  { intros a Ha. unfold fulls in Ha. apply in_map_iff in Ha. destruct Ha as (p & <- & _). reflexivity. }
  set (fd := combine fulls (map r_dt (map (raw_of tail tailkeep dt) parts))).
  assert (FD : forall q, In q fd -> In (fst q) fulls /\ snd q = dt).
  { intros (a, d) Hq. unfold fd in Hq. split; [exact (in_combine_l _ _ _ _ Hq)|].
    apply in_combine_r in Hq. rewrite map_map in Hq. apply in_map_iff in Hq. destruct Hq as (p & <- & _). reflexivity. }
  assert (PICK : exists a rest, (match filter (fun q : nd * Z => negb (hd 0 (nd_shape (fst q)) =? 0)) fd with
                                 | [] => firstn 1 fd | _ :: _ => filter (fun q : nd * Z => negb (hd 0 (nd_shape (fst q)) =? 0)) fd end)
                                = (a, dt) :: rest
                                /\ In a fulls /\ Forall (fun q => snd q = dt) rest).
  { destruct (filter (fun q : nd * Z => negb (hd 0 (nd_shape (fst q)) =? 0)) fd) as [|(a, d) rest] eqn:E.
    - unfold fd, fulls. destruct parts as [|p r]; [congruence|]. cbn. eexists; eexists; split; [reflexivity|].
      split; [left; reflexivity|constructor].
    - assert (IN : forall q, In q ((a, d) :: rest) -> In q fd) by (intros q Hq; rewrite <- E in Hq; apply filter_In in Hq; tauto).
      destruct (FD (a, d) (IN _ (or_introl eq_refl))) as (Ha & Hd). cbn in Ha, Hd. subst d.
      exists a, rest. split; [reflexivity|]. split; [exact Ha|].
      apply Forall_forall. intros q Hq. apply (FD q). apply IN. right. exact Hq. }
  destruct PICK as (a & rest & -> & Ha & Hr). rewrite (TL a Ha).
  assert (PR : promote_all (dt :: map snd rest) = Ok dt).
  { unfold promote_all. cut (forall acc, acc = Ok dt -> fold_left (fun acc x => a0 <- acc ;; promote a0 x) (map snd rest) acc = Ok dt).
    { intro C. apply C. reflexivity. }
    clear -Hr. induction Hr as [|q rest Hq _ IH]; intros acc ->; [reflexivity|]. cbn [map fold_left bind].
    apply IH. rewrite Hq. unfold promote. rewrite Z.eqb_refl. reflexivity. }
  rewrite PR. cbn [bind].
  assert (E1 : zsum (map (fun a0 : nd => hd 0 (nd_shape a0)) fulls) = zlen (nonzero (List.concat (map dp_tk parts)))).
  { unfold nonzero. rewrite nonzero_concat_len. unfold fulls. rewrite !map_map. reflexivity. }
  assert (E2 : cat (map nd_body fulls) = take (cat (map dp_ds parts)) ((nonzero (List.concat (map dp_tk parts)), false) :: tsels tailkeep)).
  { unfold cat at 1. cbn [take]. f_equal. unfold fulls. rewrite map_map. cbn [full_of nd_body take].
    rewrite flat_map_concat_map, map_map. cbn [children]. rewrite <- flat_map_concat_map.
    symmetry. unfold cat. exact (glued_rows (tsels tailkeep) parts [] F). }
  cbn [take_shape]. rewrite E1, E2.
  destruct (oindex _ ix) as [r|]; reflexivity.
Qed.

Lemma raws_ok tail tailkeep dt parts : Forall dpart_ok parts -> tail_ok tail tailkeep ->
  Forall raw_ok (map (raw_of tail tailkeep dt) parts).
Proof.
  intros F (TN & _). apply Forall_forall. intros r Hr. apply in_map_iff in Hr. destruct Hr as (p & <- & Hp).
  rewrite Forall_forall in F. destruct (F p Hp) as (HK & _). unfold raw_ok, raw_of. cbn.
  split; [constructor; [rewrite <- HK; apply zlen_nonneg|exact TN]|discriminate].
Qed.

(* C19_index: indexing the arrays of a concatenated data set = indexing the concatenated stored arrays under the
   selection of the whole *)
Theorem index_correct : forall tail tailkeep dt parts ix out,
  Forall dpart_ok parts -> tail_ok tail tailkeep ->
  ds_getitem tail tailkeep dt parts ix = Ok out -> spec_ds tail tailkeep dt parts ix = Ok out.
Proof.
  intros tail tailkeep dt parts ix out F TO H. unfold ds_getitem in H.
  destruct (c_mk (map (raw_of tail tailkeep dt) parts) []) as [c|] eqn:EC; [|discriminate]. cbn [bind] in H.
  assert (NE : parts <> []).
  { intro X. subst. cbn in EC. discriminate. }
  rewrite <- (spec_concat_is_spec_ds tail tailkeep dt parts ix NE F TO).
  destruct TO as (TN & HF).
  eapply concat_correct; [apply raws_ok; [exact F|split; assumption]|apply fulls_of; assumption|exact EC|exact H].
Qed.

(* ------------------------------------------------------------------ parts of another size (finding C19-F5) *)
Lemma filter_Forall {A} (P : A -> Prop) (g : A -> bool) l : Forall P l -> Forall P (filter g l).
Proof.
  induction 1 as [|a l Ha _ IH]; cbn; [constructor|]. destruct (g a); [constructor; assumption|assumption].
Qed.

(* h5 parts (lenient indexers): whenever the concatenated indexer answers, the answer is the index applied to the glued
   stored arrays of the parts of the selected window / subarray under the selection of the whole - FULL strength *)
Theorem index_sized_lenient : forall tail tailkeep dt parts ix out,
  Forall (fun p => dpart_ok (sp_part p)) parts -> tail_ok tail tailkeep ->
  ds_getitem_sized false tail tailkeep dt parts ix = Ok out ->
  spec_ds_sized tail tailkeep dt parts ix = Ok out /\
  (forall p, In p parts -> fits tail p = false -> has_dump p = false).
Proof.
  intros tail tailkeep dt parts ix out F T H. unfold ds_getitem_sized in H. cbn [andb] in H.
  destruct (existsb (fun p => negb (fits tail p) && has_dump p) parts) eqn:E; [discriminate|]. split.
  - unfold spec_ds_sized. apply index_correct; [|exact T|exact H].
    apply Forall_map. apply filter_Forall. exact F.
  - intros p Ip Np. destruct (has_dump p) eqn:D; [|reflexivity]. exfalso.
    assert (existsb (fun p => negb (fits tail p) && has_dump p) parts = true).
    { apply existsb_exists. exists p. split; [exact Ip|]. rewrite Np, D. reflexivity. }
    congruence.
Qed.

(* v4 parts (DaskLazyIndexer): the same under the guard "every part has the size of the selected window / subarray" *)
Theorem index_sized_partial : forall strict tail tailkeep dt parts ix out,
  Forall (fun p => dpart_ok (sp_part p)) parts -> tail_ok tail tailkeep ->
  forallb (fits tail) parts = true ->
  ds_getitem_sized strict tail tailkeep dt parts ix = Ok out ->
  spec_ds_sized tail tailkeep dt parts ix = Ok out.
Proof.
  intros strict tail tailkeep dt parts ix out F T G H.
  assert (X : ds_getitem_sized false tail tailkeep dt parts ix = Ok out).
  { unfold ds_getitem_sized in *. rewrite G in H. cbn [negb] in H. rewrite andb_false_r in H. exact H. }
  exact (proj1 (index_sized_lenient tail tailkeep dt parts ix out F T X)).
Qed.

(* with parts of one size the sized model IS the model of C19_index *)
Lemma sized_same_size : forall strict tail tailkeep dt parts ix, forallb (fits tail) parts = true ->
  ds_getitem_sized strict tail tailkeep dt parts ix = ds_getitem tail tailkeep dt (map sp_part parts) ix.
Proof.
  intros strict tail tailkeep dt parts ix G. unfold ds_getitem_sized. rewrite G. cbn [negb]. rewrite andb_false_r.
  assert (E : existsb (fun p => negb (fits tail p) && has_dump p) parts = false).
  { apply not_true_is_false. intro X. apply existsb_exists in X. destruct X as (p & Ip & Hp).
    rewrite forallb_forall in G. rewrite (G p Ip) in Hp. discriminate. }
  rewrite E. f_equal. f_equal. clear E. induction parts as [|p r IH]; [reflexivity|].
  cbn [forallb] in G. apply andb_prop in G. destruct G as (G1 & G2). cbn [filter]. rewrite G1. f_equal. apply IH. exact G2.
Qed.
