From Coq Require Import List Arith Bool Lia ZArith Permutation.
From KV Require Import Base.Sx Gen.Generated Model.LazyInit.
Import ListNotations.
Close Scope Z_scope.
Open Scope nat_scope.

Section Proofs.
Variables (S V : Type) (f : S -> V).
Notation shared := (shared S V). Notation local := (local S V).
Notation config := (config S V). Notation tstate := (tstate S V).
Notation sem := (sem S V f). Notation run_rest := (run_rest S V f). Notation run_body := (run_body S V f).
Notation step := (step S V f). Notation exec := (exec S V f). Notation lo0 := (lo0 S V).

(* ---------- fuel independence ---------- *)
Lemma skipn_length_le {A} n (l : list A) : length (skipn n l) <= length l.
Proof. rewrite skipn_length. lia. Qed.

Lemma run_rest_fuel2 : forall fu1 l sh lo fu2, length l <= fu1 -> length l <= fu2 ->
  run_rest fu1 l sh lo = run_rest fu2 l sh lo.
Proof.
  induction fu1 as [|fu1 IH]; intros l sh lo fu2 H1 H2.
  - destruct l; [destruct fu2; reflexivity|simpl in H1; lia].
  - destruct l as [|i r]; [destruct fu2; reflexivity|]. simpl in H1, H2.
    destruct fu2 as [|fu2]; [lia|]. simpl.
    destruct (sem i sh lo) as [[[sh' lo'] sk]|]; [|reflexivity].
    pose proof (skipn_length_le sk r). apply IH; lia.
Qed.

Lemma run_rest_fuel : forall fu l sh lo, length l <= fu -> run_rest fu l sh lo = run_rest (length l) l sh lo.
Proof. intros. apply run_rest_fuel2; lia. Qed.

Lemma run_rest_cons i r sh lo :
  run_rest (length (i :: r)) (i :: r) sh lo =
  match sem i sh lo with
  | Ok (sh', lo', sk) => run_rest (length (skipn sk r)) (skipn sk r) sh' lo'
  | Err => Err
  end.
Proof.
  simpl. destruct (sem i sh lo) as [[[sh' lo'] sk]|]; [|reflexivity].
  apply run_rest_fuel. apply skipn_length_le.
Qed.

(* ---------- serial state after the critical sections of [hist] ran one after the other ---------- *)
Definition sstep (body : list instr) (acc : option shared) (_ : nat) : option shared :=
  match acc with
  | Some sh => match run_body body sh with Ok (sh', _) => Some sh' | Err => None end
  | None => None
  end.
Definition sstate (body : list instr) (sh0 : shared) (hist : list nat) : option shared :=
  fold_left (sstep body) hist (Some sh0).

Lemma sstate_snoc body sh0 hist t :
  sstate body sh0 (hist ++ [t]) = sstep body (sstate body sh0 hist) t.
Proof. unfold sstate. rewrite fold_left_app. reflexivity. Qed.

Definition in_cs (s : tstate) : bool := match s with InCS _ _ => true | Failed => true | _ => false end.

(* ---------- the invariant: the interleaved execution is a serial one ---------- *)
Record Inv (body : list instr) (sh0 : shared) (c : config) : Prop := {
  inv_serial : exists shs, sstate body sh0 (c_hist c) = Some shs /\
     match c_lock c with
     | None => c_sh c = shs /\ forall u, in_cs (c_th c u) = false
     | Some t =>
         (forall u, u <> t -> in_cs (c_th c u) = false) /\
         ((exists rest lo, c_th c t = InCS rest lo /\
                           run_rest (length rest) rest (c_sh c) lo = run_body body shs)
          \/ (c_th c t = Failed /\ run_body body shs = Err))
     end;
  inv_done : forall u lo, c_th c u = Done lo ->
     exists h1 h2 s1 s2, c_hist c = h1 ++ u :: h2 /\ sstate body sh0 h1 = Some s1 /\ run_body body s1 = Ok (s2, lo)
}.

Lemma upd_same (th : nat -> tstate) t s : upd S V th t s t = s.
Proof. unfold upd. rewrite Nat.eqb_refl. reflexivity. Qed.
Lemma upd_other (th : nat -> tstate) t s u : u <> t -> upd S V th t s u = th u.
Proof. unfold upd. intros H. apply Nat.eqb_neq in H. rewrite H. reflexivity. Qed.

Lemma inv_init body sh0 : Inv body sh0 (init S V sh0).
Proof.
  constructor; simpl.
  - exists sh0. split; [reflexivity|]. split; [reflexivity|]. intros u. reflexivity.
  - intros u lo H. discriminate.
Qed.

Lemma inv_step body sh0 c t : Inv body sh0 c -> Inv body sh0 (step body c t).
Proof.
  intros [(shs & Hs & Hl) Hd]. unfold step.
  destruct (c_th c t) as [|rest lo|lo|] eqn:Et.
  - (* Idle *)
    destruct (c_lock c) as [h|] eqn:El.
    { cbv beta iota. constructor; [exists shs; rewrite El; auto|exact Hd]. }
    cbv beta iota.
    destruct Hl as [Hsh Hn]. constructor; simpl.
    + exists shs. split; [exact Hs|]. split.
      * intros u Hu. rewrite upd_other by exact Hu. apply Hn.
      * left. exists body, lo0. rewrite upd_same. split; [reflexivity|]. rewrite Hsh. reflexivity.
    + intros u lo H. destruct (Nat.eq_dec u t) as [->|Hu].
      * rewrite upd_same in H. discriminate.
      * rewrite upd_other in H by exact Hu. apply Hd. exact H.
  - (* InCS *)
    destruct (c_lock c) as [h|] eqn:El.
    2:{ destruct Hl as [_ Hn]. specialize (Hn t). rewrite Et in Hn. discriminate. }
    destruct Hl as [Hoth Hh].
    assert (h = t) as ->.
    { destruct (Nat.eq_dec t h) as [->|Hne]; [reflexivity|].
      specialize (Hoth t Hne). rewrite Et in Hoth. discriminate. }
    destruct Hh as [(rest' & lo' & Et' & Hrun)|[Et' _]]; [|congruence].
    rewrite Et in Et'. injection Et' as <- <-.
    destruct rest as [|i r].
    + (* release *)
      simpl in Hrun. constructor; simpl.
      * exists (c_sh c). rewrite sstate_snoc, Hs. simpl. rewrite <- Hrun. split; [reflexivity|].
        split; [reflexivity|]. intros u. destruct (Nat.eq_dec u t) as [->|Hu].
        -- rewrite upd_same. reflexivity.
        -- rewrite upd_other by exact Hu. apply Hoth. exact Hu.
      * intros u lo1 H. destruct (Nat.eq_dec u t) as [->|Hu].
        -- rewrite upd_same in H. injection H as <-.
           exists (c_hist c), [], shs, (c_sh c). repeat split; auto.
        -- rewrite upd_other in H by exact Hu. destruct (Hd u lo1 H) as (h1 & h2 & s1 & s2 & E & A & B).
           exists h1, (h2 ++ [t]), s1, s2. rewrite E, <- app_assoc. repeat split; auto.
    + rewrite run_rest_cons in Hrun.
      destruct (sem i (c_sh c) lo) as [[[sh' lo'] sk]|] eqn:Es.
      * constructor; simpl.
        -- exists shs. split; [exact Hs|]. split.
           ++ intros u Hu. rewrite upd_other by exact Hu. apply Hoth. exact Hu.
           ++ left. exists (skipn sk r), lo'. rewrite upd_same. split; [reflexivity|exact Hrun].
        -- intros u lo1 H. destruct (Nat.eq_dec u t) as [->|Hu].
           ++ rewrite upd_same in H. discriminate.
           ++ rewrite upd_other in H by exact Hu. apply Hd. exact H.
      * constructor; simpl.
        -- exists shs. split; [exact Hs|]. split.
           ++ intros u Hu. rewrite upd_other by exact Hu. apply Hoth. exact Hu.
           ++ right. rewrite upd_same. split; [reflexivity|symmetry; exact Hrun].
        -- intros u lo1 H. destruct (Nat.eq_dec u t) as [->|Hu].
           ++ rewrite upd_same in H. discriminate.
           ++ rewrite upd_other in H by exact Hu. apply Hd. exact H.
  - constructor; [exists shs; auto|exact Hd].
  - constructor; [exists shs; auto|exact Hd].
Qed.

(* every reachable configuration, for ANY number of threads and ANY schedule *)
Theorem serializable body sh0 schedule : Inv body sh0 (exec body sh0 schedule).
Proof.
  unfold exec. generalize (inv_init body sh0). generalize (init S V sh0).
  induction schedule as [|t sch IH]; intros c H; simpl; [exact H|].
  apply IH. apply inv_step. exact H.
Qed.

(* ---------- lazy initialisation ---------- *)
Variable s0 : S.
(* keep = true: the site never clears its source, which therefore stays available *)
Variable keep : bool.
Definition lazy_ok (sh : shared) : Prop :=
  (cell sh = None /\ src sh = Some s0 /\ ncomp sh = 0)
  \/ (cell sh = Some (f s0) /\ ncomp sh = 1 /\ (keep = true -> src sh = Some s0)).

(* the sequential contract of a lazily-initialising body *)
Definition serial_ok (body : list instr) : Prop :=
  forall sh, lazy_ok sh -> exists sh' lo, run_body body sh = Ok (sh', lo) /\ lazy_ok sh'
                                         /\ lres lo = Some (f s0) /\ ncomp sh' = 1.

Lemma sstate_lazy body sh0 : serial_ok body -> lazy_ok sh0 ->
  forall hist, exists s, sstate body sh0 hist = Some s /\ lazy_ok s /\ (hist <> [] -> ncomp s = 1).
Proof.
  intros Hok H0 hist. induction hist as [|t hist IH] using rev_ind.
  - exists sh0. repeat split; auto. intros H; contradiction.
  - destruct IH as (s & Hs & Hl & _). destruct (Hok s Hl) as (sh' & lo & Hr & Hl' & _ & Hn).
    exists sh'. rewrite sstate_snoc, Hs. simpl. rewrite Hr. repeat split; auto.
Qed.

Theorem guarded_lazy_init_safe body sh0 schedule :
  serial_ok body -> lazy_ok sh0 ->
  let c := exec body sh0 schedule in
  (forall t, c_th c t <> Failed) /\
  (forall t lo, c_th c t = Done lo -> lres lo = Some (f s0)) /\
  (c_lock c = None -> lazy_ok (c_sh c) /\ (c_hist c <> [] -> ncomp (c_sh c) = 1)) /\
  (forall t lo, c_th c t = Done lo -> In t (c_hist c)).
Proof.
  intros Hok H0 c. destruct (serializable body sh0 schedule) as [(shs & Hs & Hl) Hd]. fold c in Hs, Hl, Hd.
  destruct (sstate_lazy body sh0 Hok H0 (c_hist c)) as (s & Hs' & Hlz & Hn).
  rewrite Hs in Hs'. injection Hs' as ->.
  repeat split.
  - intros t Ht. destruct (c_lock c) as [h|].
    + destruct Hl as [Hoth Hh]. destruct (Nat.eq_dec t h) as [->|Hne].
      * destruct Hh as [(r & lo & E & _)|[_ Herr]]; [congruence|].
        destruct (Hok s Hlz) as (sh' & lo & Hr & _). congruence.
      * specialize (Hoth t Hne). rewrite Ht in Hoth. discriminate.
    + destruct Hl as [_ Hn']. specialize (Hn' t). rewrite Ht in Hn'. discriminate.
  - intros t lo Ht. destruct (Hd t lo Ht) as (h1 & h2 & s1 & s2 & E & A & B).
    destruct (sstate_lazy body sh0 Hok H0 h1) as (s1' & A' & L1 & _). rewrite A in A'. injection A' as <-.
    destruct (Hok s1 L1) as (sh' & lo' & Hr & _ & Hres & _). rewrite B in Hr. injection Hr as _ <-. exact Hres.
  - destruct (c_lock c); [discriminate|]. destruct Hl as [-> _]. exact Hlz.
  - destruct (c_lock c); [discriminate|]. destruct Hl as [-> _]. exact Hn.
  - intros t lo Ht. destruct (Hd t lo Ht) as (h1 & h2 & _ & _ & E & _). rewrite E. apply in_or_app. right. left. reflexivity.
Qed.

End Proofs.

(* ---------- the translated sites satisfy the sequential contract (re-checked on every run) ---------- *)
Ltac solve_serial :=
  let sh := fresh "sh" in let H := fresh "H" in
  intros sh H; destruct sh as [c s n];
  destruct H as [(Hc & Hs & Hn)|(Hc & Hn & Hk)]; cbn [cell src ncomp] in *;
  try (specialize (Hk eq_refl)); subst;
  eexists; eexists; (split; [cbv; reflexivity|]);
  (split; [right; repeat split; try reflexivity; let HH := fresh in intros HH; (discriminate HH || reflexivity)|split; reflexivity]).

Lemma site_dask_serial_ok S V (f : S -> V) s0 : serial_ok S V f s0 false site_dask.
Proof. solve_serial. Qed.
Lemma site_spw_serial_ok S V (f : S -> V) s0 : serial_ok S V f s0 true site_spw.
Proof. solve_serial. Qed.
Lemma site_sensor_get_serial_ok S V (f : S -> V) s0 : serial_ok S V f s0 true site_sensor_get.
Proof. solve_serial. Qed.

(* hence each translated site, started from its freshly constructed state, under any interleaving of any number of
   threads: nothing raises, every thread that returned has the single-thread value, initialised exactly once *)
Lemma site_safe S V (f : S -> V) s0 keep body schedule : serial_ok S V f s0 keep body ->
  let c := exec S V f body (mkSh None (Some s0) 0) schedule in
  (forall t, c_th c t <> Failed) /\ (forall t lo, c_th c t = Done lo -> lres lo = Some (f s0)) /\
  (c_lock c = None -> c_hist c <> [] -> ncomp (c_sh c) = 1).
Proof.
  intros Hok c.
  destruct (guarded_lazy_init_safe S V f s0 keep body (mkSh None (Some s0) 0) schedule Hok) as (A & B & C & _).
  - left. repeat split; reflexivity.
  - split; [exact A|]. split; [exact B|]. intros Hl Hh. destruct (C Hl) as [_ D]. exact (D Hh).
Qed.
Lemma dask_dataset_safe S V (f : S -> V) s0 schedule :
  let c := exec S V f site_dask (mkSh None (Some s0) 0) schedule in
  (forall t, c_th c t <> Failed) /\ (forall t lo, c_th c t = Done lo -> lres lo = Some (f s0)) /\
  (c_lock c = None -> c_hist c <> [] -> ncomp (c_sh c) = 1).
Proof. apply (site_safe S V f s0 false). apply site_dask_serial_ok. Qed.
Lemma spw_channel_freqs_safe S V (f : S -> V) s0 schedule :
  let c := exec S V f site_spw (mkSh None (Some s0) 0) schedule in
  (forall t, c_th c t <> Failed) /\ (forall t lo, c_th c t = Done lo -> lres lo = Some (f s0)) /\
  (c_lock c = None -> c_hist c <> [] -> ncomp (c_sh c) = 1).
Proof. apply (site_safe S V f s0 true). apply site_spw_serial_ok. Qed.
Lemma sensor_get_safe S V (f : S -> V) s0 schedule :
  let c := exec S V f site_sensor_get (mkSh None (Some s0) 0) schedule in
  (forall t, c_th c t <> Failed) /\ (forall t lo, c_th c t = Done lo -> lres lo = Some (f s0)) /\
  (c_lock c = None -> c_hist c <> [] -> ncomp (c_sh c) = 1).
Proof. apply (site_safe S V f s0 true). apply site_sensor_get_serial_ok. Qed.

Lemma sites_locked :
  site_dask_locked = true /\ site_spw_locked = true /\ site_sensor_get_locked = true /\
  sensor_setitem_locked = true /\ sensor_delitem_locked = true /\ sensor_contains_locked = true /\
  pool_get_locked = true /\ pool_put_locked = true /\ sensor_lock_reentrant = true.
Proof. repeat split; reflexivity. Qed.

(* the guard objects themselves: created once, in __init__, never replaced; of the kind the model assumes; and no
   method other than the constructor touches a guarded field outside its lock (SensorCache: see sensor_unlocked_allowed) *)
Lemma lock_discipline :
  (site_dask_lock_kind = 1%Z /\ site_dask_lock_once = true /\ only_init site_dask_unlocked_methods = true) /\
  (site_spw_lock_kind = 1%Z /\ site_spw_lock_once = true /\ only_init site_spw_unlocked_methods = true) /\
  (sensor_lock_kind = 2%Z /\ sensor_lock_once = true /\ all_allowed sensor_unlocked_methods = true) /\
  (pool_lock_kind = 1%Z /\ pool_lock_once = true /\ only_init pool_unlocked_methods = true) /\
  pool_init_empty = true /\ pool_call_ok = true /\ s3_request_session_from_pool = true.
Proof. repeat split; reflexivity. Qed.

(* without the lock the same body is NOT safe: two threads, one schedule *)
Lemma unlocked_refuted :
  exists schedule t, c_th (exec_nolock nat nat Datatypes.S site_dask (mkSh None (Some 41) 0) schedule) t = Failed.
Proof. exists [0;1;1;0;0;0;0;0;0;0;1], 1. vm_compute. reflexivity. Qed.

(* ---------- re-entrant lock ---------- *)
Lemma rlock_reentrancy t d :
  r_acquire (Some (t, d)) t = Some (Some (t, Datatypes.S d)) /\
  r_release (Some (t, Datatypes.S (Datatypes.S d))) t = Some (Some (t, Datatypes.S d)) /\
  r_acquire None t = Some (Some (t, 1)) /\ r_release (Some (t, 1)) t = Some None.
Proof. unfold r_acquire, r_release. rewrite !Nat.eqb_refl. repeat split; reflexivity. Qed.

Lemma rlock_excludes h t d : h <> t -> r_acquire (Some (h, d)) t = None /\ r_release (Some (h, d)) t = None.
Proof. intros H. unfold r_acquire, r_release. apply Nat.eqb_neq in H. rewrite H. split; reflexivity. Qed.

(* nested use by the holder: with the lock kind found in the source, ANY well-bracketed nest of `with self._lock:`
   blocks run by the thread that is at depth d goes through and ends with the lock free *)
Lemma nested_ok_rlock t : forall prog d, bracketed d prog = true ->
  run_nest 2 (held_at t d) t prog = Some None.
Proof.
  induction prog as [|b r IH]; intros d H; simpl in *.
  - apply Nat.eqb_eq in H. subst d. reflexivity.
  - destruct b.
    + replace (acquire_k 2 (held_at t d) t) with (Some (held_at t (Datatypes.S d))).
      * apply IH. exact H.
      * unfold acquire_k, r_acquire, held_at. simpl. destruct d; [reflexivity|]. rewrite Nat.eqb_refl. reflexivity.
    + destruct d as [|d]; [discriminate|].
      replace (r_release (held_at t (Datatypes.S d)) t) with (Some (held_at t d)).
      * apply IH. exact H.
      * unfold r_release, held_at. rewrite Nat.eqb_refl. destruct d; reflexivity.
Qed.
Lemma nested_ok t prog : bracketed 0 prog = true -> run_nest sensor_lock_kind None t prog = Some None.
Proof. intros H. exact (nested_ok_rlock t prog 0 H). Qed.
(* with a plain lock the very first nested lookup of a virtual sensor blocks for ever *)
Lemma nested_plain_lock_refuted : exists prog, bracketed 0 prog = true /\ run_nest 1 None 0 prog = None.
Proof. exists [true; true; false; false]. split; reflexivity. Qed.

(* ---------- pool ---------- *)
Definition items (p : pool) : list nat := p_free p ++ map snd (p_held p).
Definition pool_inv (p : pool) : Prop :=
  p_err p = false /\ NoDup (items p) /\ forall x, In x (items p) -> x < p_next p.

Lemma take_item_split code free x r : (code = 1%Z \/ code = 2%Z) -> take_item code free = TItem x r ->
  exists l1 l2, free = l1 ++ x :: l2 /\ r = l1 ++ l2.
Proof.
  intros [->| ->]; simpl.
  - destruct (rev free) as [|y q] eqn:E; [discriminate|]. intros H. injection H as <- <-.
    apply (f_equal (@rev nat)) in E. rewrite rev_involutive in E. simpl in E.
    exists (rev q), []. rewrite app_nil_r. split; [exact E|reflexivity].
  - destruct free as [|y q]; [discriminate|]. intros H. injection H as <- <-. exists [], q. split; reflexivity.
Qed.

Lemma take_item_nonempty code free : free <> [] -> (code = 1%Z \/ code = 2%Z) -> take_item code free <> TRaise.
Proof.
  intros Hne [->| ->]; simpl.
  - destruct (rev free) as [|y q] eqn:E; [|discriminate].
    apply (f_equal (@rev nat)) in E. rewrite rev_involutive in E. contradiction.
  - destruct free; [contradiction|discriminate].
Qed.

Lemma rm_held_perm t x l : In (t, x) l -> Permutation (map snd l) (x :: map snd (rm_held t x l)).
Proof.
  induction l as [|h r IH]; simpl; intros Hin; [contradiction|].
  destruct (Nat.eqb (fst h) t && Nat.eqb (snd h) x)%bool eqn:E.
  - apply andb_true_iff in E. destruct E as [_ E]. apply Nat.eqb_eq in E. rewrite E. apply Permutation_refl.
  - destruct Hin as [->|Hin]; [simpl in E; rewrite !Nat.eqb_refl in E; discriminate|].
    simpl. eapply perm_trans; [apply perm_skip; apply IH; exact Hin|apply perm_swap].
Qed.

Lemma find_held_in t (l : list (nat * nat)) x' t' : find (fun h => Nat.eqb (fst h) t) l = Some (t', x') -> In (t, x') l.
Proof.
  induction l as [|h r IH]; simpl; [discriminate|].
  destruct (Nat.eqb (fst h) t) eqn:E.
  - intros H. injection H as ->. apply Nat.eqb_eq in E. simpl in E. subst. left; reflexivity.
  - intros H. right. exact (IH H).
Qed.

Lemma inv_of_perm p p' : pool_inv p -> p_err p' = p_err p -> p_next p' = p_next p ->
  Permutation (items p') (items p) -> pool_inv p'.
Proof.
  intros (He & ND & Hlt) E1 E2 HP. repeat split.
  - congruence.
  - eapply Permutation_NoDup; [apply Permutation_sym; exact HP|exact ND].
  - intros x Hx. rewrite E2. apply Hlt. eapply Permutation_in; [exact HP|exact Hx].
Qed.

Lemma inv_of_new p t : pool_inv p ->
  pool_inv (mkPool (p_free p) (Datatypes.S (p_next p)) ((t, p_next p) :: p_held p) (p_err p)).
Proof.
  intros (He & ND & Hlt). unfold pool_inv, items in *. simpl.
  assert (Permutation (p_next p :: p_free p ++ map snd (p_held p)) (p_free p ++ p_next p :: map snd (p_held p))) as HP
    by apply Permutation_middle.
  repeat split.
  - exact He.
  - eapply Permutation_NoDup; [exact HP|]. constructor; [|exact ND]. intros Hin. specialize (Hlt _ Hin). lia.
  - intros x Hx. eapply Permutation_in in Hx; [|apply Permutation_sym; exact HP].
    destruct Hx as [<-|Hx]; [lia|]. specialize (Hlt _ Hx). lia.
Qed.

Lemma pool_step_inv ce cn cp p o : pool_codes_safe ce cn cp = true -> pool_inv p -> pool_inv (pool_step_c ce cn cp p o).
Proof.
  intros Hc Hi. unfold pool_codes_safe in Hc.
  apply andb_true_iff in Hc. destruct Hc as [Hc Hp]. apply andb_true_iff in Hc. destruct Hc as [Hce Hcn].
  apply Z.eqb_eq in Hce. subst ce.
  assert (cn = 0%Z \/ cn = 1%Z \/ cn = 2%Z) as Hcn'.
  { apply orb_true_iff in Hcn. destruct Hcn as [Hcn|Hcn]; [apply orb_true_iff in Hcn; destruct Hcn as [H|H]|];
    [left|right; left|right; right]; apply Z.eqb_eq; assumption. }
  assert (cp = 0%Z \/ cp <> 0%Z) as Hcp by lia. clear Hcn Hp.
  destruct o as [t|t]; simpl.
  - destruct (p_free p) as [|y q] eqn:Ef.
    + simpl. rewrite <- Ef. apply inv_of_new. exact Hi.
    + destruct Hcn' as [->|Hcn'].
      * simpl. rewrite <- Ef. apply inv_of_new. exact Hi.
      * destruct (take_item cn (y :: q)) as [| |x r] eqn:Et.
        -- exfalso. revert Et. apply take_item_nonempty; [discriminate|exact Hcn'].
        -- destruct Hcn' as [->| ->]; simpl in Et; [destruct (rev q ++ [y])%list; discriminate|discriminate].
        -- destruct (take_item_split cn (y :: q) x r Hcn' Et) as (l1 & l2 & E1 & E2).
           apply (inv_of_perm p); [exact Hi|reflexivity|reflexivity|].
           unfold items. simpl. rewrite Ef, E1, E2. rewrite <- !app_assoc. simpl.
           apply Permutation_app_head. symmetry. apply Permutation_middle.
  - destruct (find (fun h => Nat.eqb (fst h) t) (p_held p)) as [[t' x]|] eqn:F; [|exact Hi].
    pose proof (find_held_in _ _ _ _ F) as Hin. pose proof (rm_held_perm t x _ Hin) as HP.
    apply (inv_of_perm p); [exact Hi|reflexivity|reflexivity|]. unfold items. simpl.
    destruct Hcp as [->|Hne].
    + simpl. rewrite <- app_assoc. simpl. apply Permutation_app_head. symmetry. exact HP.
    + assert (give_back cp (p_free p) x = x :: p_free p) as -> by (unfold give_back; destruct cp; congruence).
      simpl. eapply perm_trans; [apply Permutation_middle|]. apply Permutation_app_head. symmetry. exact HP.
Qed.

Lemma pool_inv_init : pool_inv pool_init.
Proof. repeat split; simpl; [constructor|intros x []]. Qed.

Lemma pool_codes_ok : pool_codes_safe pool_get_empty_code pool_get_nonempty_code pool_put_code = true.
Proof. reflexivity. Qed.

(* every reachable pool state: nothing raised; no item is held twice or both held and free; items are conserved *)
Theorem pool_exclusive ops : pool_inv (fold_left pool_step ops pool_init).
Proof.
  generalize pool_inv_init. generalize pool_init.
  induction ops as [|o ops IH]; intros p H; simpl; [exact H|]. apply IH. apply pool_step_inv; [exact pool_codes_ok|exact H].
Qed.

(* the theorem discriminates: handing out the last free item WITHOUT removing it lends it twice; testing for emptiness
   the wrong way round raises on the very first get *)
Lemma pool_peek_refuted : exists ops, ~ NoDup (items (fold_left (pool_step_c 0 3 0) ops pool_init)).
Proof.
  exists [PGet 0; PPut 0; PGet 0; PGet 1]. vm_compute. intros H.
  inversion H as [|? ? Hn _]; subst. apply Hn. left. reflexivity.
Qed.
Lemma pool_inverted_refuted : exists ops, p_err (fold_left (pool_step_c 1 0 0) ops pool_init) = true.
Proof. exists [PGet 0]. reflexivity. Qed.
