From Coq Require Import List Arith Bool Lia.
From KV Require Import Base.Sx Gen.Generated Model.LazyInit.
Import ListNotations.
Close Scope Z_scope.
Open Scope nat_scope.

Section Proofs.
Variables (S V : Type) (f : S -> V).
Notation shared := (shared S V). Notation local := (local S V).
Notation config := (config S V). Notation tstate := (tstate S V).
Notation sem := (sem S V f). Notation run_rest := (run_rest S V f). Notation run_body := (run_body S V f).
Notation step := (step S V f). Notation exec := (exec S V f). Notation lo0 := (lo0 S V).

(* ---------- fuel independence ---------- *)
Lemma skipn_length_le {A} n (l : list A) : length (skipn n l) <= length l.
Proof. rewrite skipn_length. lia. Qed.

Lemma run_rest_fuel2 : forall fu1 l sh lo fu2, length l <= fu1 -> length l <= fu2 ->
  run_rest fu1 l sh lo = run_rest fu2 l sh lo.
Proof.
  induction fu1 as [|fu1 IH]; intros l sh lo fu2 H1 H2.
  - destruct l; [destruct fu2; reflexivity|simpl in H1; lia].
  - destruct l as [|i r]; [destruct fu2; reflexivity|]. simpl in H1, H2.
    destruct fu2 as [|fu2]; [lia|]. simpl.
    destruct (sem i sh lo) as [[[sh' lo'] sk]|]; [|reflexivity].
    pose proof (skipn_length_le sk r). apply IH; lia.
Qed.

Lemma run_rest_fuel : forall fu l sh lo, length l <= fu -> run_rest fu l sh lo = run_rest (length l) l sh lo.
Proof. intros. apply run_rest_fuel2; lia. Qed.

Lemma run_rest_cons i r sh lo :
  run_rest (length (i :: r)) (i :: r) sh lo =
  match sem i sh lo with
  | Ok (sh', lo', sk) => run_rest (length (skipn sk r)) (skipn sk r) sh' lo'
  | Err => Err
  end.
Proof.
  simpl. destruct (sem i sh lo) as [[[sh' lo'] sk]|]; [|reflexivity].
  apply run_rest_fuel. apply skipn_length_le.
Qed.

(* ---------- serial state after the critical sections of [hist] ran one after the other ---------- *)
Definition sstep (body : list instr) (acc : option shared) (_ : nat) : option shared :=
  match acc with
  | Some sh => match run_body body sh with Ok (sh', _) => Some sh' | Err => None end
  | None => None
  end.
Definition sstate (body : list instr) (sh0 : shared) (hist : list nat) : option shared :=
  fold_left (sstep body) hist (Some sh0).

Lemma sstate_snoc body sh0 hist t :
  sstate body sh0 (hist ++ [t]) = sstep body (sstate body sh0 hist) t.
Proof. unfold sstate. rewrite fold_left_app. reflexivity. Qed.

Definition in_cs (s : tstate) : bool := match s with InCS _ _ => true | Failed => true | _ => false end.

(* ---------- the invariant: the interleaved execution is a serial one ---------- *)
Record Inv (body : list instr) (sh0 : shared) (c : config) : Prop := {
  inv_serial : exists shs, sstate body sh0 (c_hist c) = Some shs /\
     match c_lock c with
     | None => c_sh c = shs /\ forall u, in_cs (c_th c u) = false
     | Some t =>
         (forall u, u <> t -> in_cs (c_th c u) = false) /\
         ((exists rest lo, c_th c t = InCS rest lo /\
                           run_rest (length rest) rest (c_sh c) lo = run_body body shs)
          \/ (c_th c t = Failed /\ run_body body shs = Err))
     end;
  inv_done : forall u lo, c_th c u = Done lo ->
     exists h1 h2 s1 s2, c_hist c = h1 ++ u :: h2 /\ sstate body sh0 h1 = Some s1 /\ run_body body s1 = Ok (s2, lo)
}.

Lemma upd_same (th : nat -> tstate) t s : upd S V th t s t = s.
Proof. unfold upd. rewrite Nat.eqb_refl. reflexivity. Qed.
Lemma upd_other (th : nat -> tstate) t s u : u <> t -> upd S V th t s u = th u.
Proof. unfold upd. intros H. apply Nat.eqb_neq in H. rewrite H. reflexivity. Qed.

Lemma inv_init body sh0 : Inv body sh0 (init S V sh0).
Proof.
  constructor; simpl.
  - exists sh0. split; [reflexivity|]. split; [reflexivity|]. intros u. reflexivity.
  - intros u lo H. discriminate.
Qed.

Lemma inv_step body sh0 c t : Inv body sh0 c -> Inv body sh0 (step body c t).
Proof.
  intros [(shs & Hs & Hl) Hd]. unfold step.
  destruct (c_th c t) as [|rest lo|lo|] eqn:Et.
  - (* Idle *)
    destruct (c_lock c) as [h|] eqn:El.
    { cbv beta iota. constructor; [exists shs; rewrite El; auto|exact Hd]. }
    cbv beta iota.
    destruct Hl as [Hsh Hn]. constructor; simpl.
    + exists shs. split; [exact Hs|]. split.
      * intros u Hu. rewrite upd_other by exact Hu. apply Hn.
      * left. exists body, lo0. rewrite upd_same. split; [reflexivity|]. rewrite Hsh. reflexivity.
    + intros u lo H. destruct (Nat.eq_dec u t) as [->|Hu].
      * rewrite upd_same in H. discriminate.
      * rewrite upd_other in H by exact Hu. apply Hd. exact H.
  - (* InCS *)
    destruct (c_lock c) as [h|] eqn:El.
    2:{ destruct Hl as [_ Hn]. specialize (Hn t). rewrite Et in Hn. discriminate. }
    destruct Hl as [Hoth Hh].
    assert (h = t) as ->.
    { destruct (Nat.eq_dec t h) as [->|Hne]; [reflexivity|].
      specialize (Hoth t Hne). rewrite Et in Hoth. discriminate. }
    destruct Hh as [(rest' & lo' & Et' & Hrun)|[Et' _]]; [|congruence].
    rewrite Et in Et'. injection Et' as <- <-.
    destruct rest as [|i r].
    + (* release *)
      simpl in Hrun. constructor; simpl.
      * exists (c_sh c). rewrite sstate_snoc, Hs. simpl. rewrite <- Hrun. split; [reflexivity|].
        split; [reflexivity|]. intros u. destruct (Nat.eq_dec u t) as [->|Hu].
        -- rewrite upd_same. reflexivity.
        -- rewrite upd_other by exact Hu. apply Hoth. exact Hu.
      * intros u lo1 H. destruct (Nat.eq_dec u t) as [->|Hu].
        -- rewrite upd_same in H. injection H as <-.
           exists (c_hist c), [], shs, (c_sh c). repeat split; auto.
        -- rewrite upd_other in H by exact Hu. destruct (Hd u lo1 H) as (h1 & h2 & s1 & s2 & E & A & B).
           exists h1, (h2 ++ [t]), s1, s2. rewrite E, <- app_assoc. repeat split; auto.
    + rewrite run_rest_cons in Hrun.
      destruct (sem i (c_sh c) lo) as [[[sh' lo'] sk]|] eqn:Es.
      * constructor; simpl.
        -- exists shs. split; [exact Hs|]. split.
           ++ intros u Hu. rewrite upd_other by exact Hu. apply Hoth. exact Hu.
           ++ left. exists (skipn sk r), lo'. rewrite upd_same. split; [reflexivity|exact Hrun].
        -- intros u lo1 H. destruct (Nat.eq_dec u t) as [->|Hu].
           ++ rewrite upd_same in H. discriminate.
           ++ rewrite upd_other in H by exact Hu. apply Hd. exact H.
      * constructor; simpl.
        -- exists shs. split; [exact Hs|]. split.
           ++ intros u Hu. rewrite upd_other by exact Hu. apply Hoth. exact Hu.
           ++ right. rewrite upd_same. split; [reflexivity|symmetry; exact Hrun].
        -- intros u lo1 H. destruct (Nat.eq_dec u t) as [->|Hu].
           ++ rewrite upd_same in H. discriminate.
           ++ rewrite upd_other in H by exact Hu. apply Hd. exact H.
  - constructor; [exists shs; auto|exact Hd].
  - constructor; [exists shs; auto|exact Hd].
Qed.

(* every reachable configuration, for ANY number of threads and ANY schedule *)
Theorem serializable body sh0 schedule : Inv body sh0 (exec body sh0 schedule).
Proof.
  unfold exec. generalize (inv_init body sh0). generalize (init S V sh0).
  induction schedule as [|t sch IH]; intros c H; simpl; [exact H|].
  apply IH. apply inv_step. exact H.
Qed.

(* ---------- lazy initialisation ---------- *)
Variable s0 : S.
(* keep = true: the site never clears its source, which therefore stays available *)
Variable keep : bool.
Definition lazy_ok (sh : shared) : Prop :=
  (cell sh = None /\ src sh = Some s0 /\ ncomp sh = 0)
  \/ (cell sh = Some (f s0) /\ ncomp sh = 1 /\ (keep = true -> src sh = Some s0)).

(* the sequential contract of a lazily-initialising body *)
Definition serial_ok (body : list instr) : Prop :=
  forall sh, lazy_ok sh -> exists sh' lo, run_body body sh = Ok (sh', lo) /\ lazy_ok sh'
                                         /\ lres lo = Some (f s0) /\ ncomp sh' = 1.

Lemma sstate_lazy body sh0 : serial_ok body -> lazy_ok sh0 ->
  forall hist, exists s, sstate body sh0 hist = Some s /\ lazy_ok s /\ (hist <> [] -> ncomp s = 1).
Proof.
  intros Hok H0 hist. induction hist as [|t hist IH] using rev_ind.
  - exists sh0. repeat split; auto. intros H; contradiction.
  - destruct IH as (s & Hs & Hl & _). destruct (Hok s Hl) as (sh' & lo & Hr & Hl' & _ & Hn).
    exists sh'. rewrite sstate_snoc, Hs. simpl. rewrite Hr. repeat split; auto.
Qed.

Theorem guarded_lazy_init_safe body sh0 schedule :
  serial_ok body -> lazy_ok sh0 ->
  let c := exec body sh0 schedule in
  (forall t, c_th c t <> Failed) /\
  (forall t lo, c_th c t = Done lo -> lres lo = Some (f s0)) /\
  (c_lock c = None -> lazy_ok (c_sh c) /\ (c_hist c <> [] -> ncomp (c_sh c) = 1)) /\
  (forall t lo, c_th c t = Done lo -> In t (c_hist c)).
Proof.
  intros Hok H0 c. destruct (serializable body sh0 schedule) as [(shs & Hs & Hl) Hd]. fold c in Hs, Hl, Hd.
  destruct (sstate_lazy body sh0 Hok H0 (c_hist c)) as (s & Hs' & Hlz & Hn).
  rewrite Hs in Hs'. injection Hs' as ->.
  repeat split.
  - intros t Ht. destruct (c_lock c) as [h|].
    + destruct Hl as [Hoth Hh]. destruct (Nat.eq_dec t h) as [->|Hne].
      * destruct Hh as [(r & lo & E & _)|[_ Herr]]; [congruence|].
        destruct (Hok s Hlz) as (sh' & lo & Hr & _). congruence.
      * specialize (Hoth t Hne). rewrite Ht in Hoth. discriminate.
    + destruct Hl as [_ Hn']. specialize (Hn' t). rewrite Ht in Hn'. discriminate.
  - intros t lo Ht. destruct (Hd t lo Ht) as (h1 & h2 & s1 & s2 & E & A & B).
    destruct (sstate_lazy body sh0 Hok H0 h1) as (s1' & A' & L1 & _). rewrite A in A'. injection A' as <-.
    destruct (Hok s1 L1) as (sh' & lo' & Hr & _ & Hres & _). rewrite B in Hr. injection Hr as _ <-. exact Hres.
  - destruct (c_lock c); [discriminate|]. destruct Hl as [-> _]. exact Hlz.
  - destruct (c_lock c); [discriminate|]. destruct Hl as [-> _]. exact Hn.
  - intros t lo Ht. destruct (Hd t lo Ht) as (h1 & h2 & _ & _ & E & _). rewrite E. apply in_or_app. right. left. reflexivity.
Qed.

End Proofs.

(* ---------- the translated sites satisfy the sequential contract (re-checked on every run) ---------- *)
Ltac solve_serial :=
  let sh := fresh "sh" in let H := fresh "H" in
  intros sh H; destruct sh as [c s n];
  destruct H as [(Hc & Hs & Hn)|(Hc & Hn & Hk)]; cbn [cell src ncomp] in *;
  try (specialize (Hk eq_refl)); subst;
  eexists; eexists; (split; [cbv; reflexivity|]);
  (split; [right; repeat split; try reflexivity; let HH := fresh in intros HH; (discriminate HH || reflexivity)|split; reflexivity]).

Lemma site_dask_serial_ok S V (f : S -> V) s0 : serial_ok S V f s0 false site_dask.
Proof. solve_serial. Qed.
Lemma site_spw_serial_ok S V (f : S -> V) s0 : serial_ok S V f s0 true site_spw.
Proof. solve_serial. Qed.
Lemma site_sensor_get_serial_ok S V (f : S -> V) s0 : serial_ok S V f s0 true site_sensor_get.
Proof. solve_serial. Qed.

Lemma sites_locked :
  site_dask_locked = true /\ site_spw_locked = true /\ site_sensor_get_locked = true /\
  sensor_setitem_locked = true /\ sensor_delitem_locked = true /\ sensor_contains_locked = true /\
  pool_get_locked = true /\ pool_put_locked = true /\ sensor_lock_reentrant = true.
Proof. repeat split; reflexivity. Qed.

(* without the lock the same body is NOT safe: two threads, one schedule *)
Lemma unlocked_refuted :
  exists schedule t, c_th (exec_nolock nat nat Datatypes.S site_dask (mkSh None (Some 41) 0) schedule) t = Failed.
Proof. exists [0;1;1;0;0;0;0;0;0;0;1], 1. vm_compute. reflexivity. Qed.

(* ---------- re-entrant lock ---------- *)
Lemma rlock_reentrancy t d :
  r_acquire (Some (t, d)) t = Some (Some (t, Datatypes.S d)) /\
  r_release (Some (t, Datatypes.S (Datatypes.S d))) t = Some (Some (t, Datatypes.S d)) /\
  r_acquire None t = Some (Some (t, 1)) /\ r_release (Some (t, 1)) t = Some None.
Proof. unfold r_acquire, r_release. rewrite !Nat.eqb_refl. repeat split; reflexivity. Qed.

Lemma rlock_excludes h t d : h <> t -> r_acquire (Some (h, d)) t = None /\ r_release (Some (h, d)) t = None.
Proof. intros H. unfold r_acquire, r_release. apply Nat.eqb_neq in H. rewrite H. split; reflexivity. Qed.

(* ---------- pool ---------- *)
Definition pool_inv (p : pool) : Prop :=
  NoDup (p_free p ++ map snd (p_held p)) /\ forall x, In x (p_free p ++ map snd (p_held p)) -> x < p_next p.

Lemma in_rm_held t x l y : In y (map snd (rm_held t x l)) -> In y (map snd l).
Proof.
  induction l as [|h r IH]; simpl; [auto|].
  destruct (Nat.eqb (fst h) t && Nat.eqb (snd h) x)%bool; simpl; [auto|]. intros [H|H]; auto.
Qed.

Lemma nodup_rm_held t x l : NoDup (map snd l) -> NoDup (map snd (rm_held t x l)).
Proof.
  induction l as [|h r IH]; simpl; intros H; [constructor|].
  inversion H as [|? ? Hn Hr]; subst.
  destruct (Nat.eqb (fst h) t && Nat.eqb (snd h) x)%bool; [exact Hr|]. simpl. constructor.
  - intros Hin. apply Hn. eapply in_rm_held. exact Hin.
  - apply IH. exact Hr.
Qed.

Lemma rm_held_removes t x l : NoDup (map snd l) -> In (t, x) l -> ~ In x (map snd (rm_held t x l)).
Proof.
  induction l as [|h r IH]; simpl; intros ND Hin; [contradiction|].
  inversion ND as [|? ? Hn Hr]; subst.
  destruct Hin as [->|Hin].
  - simpl. rewrite !Nat.eqb_refl. simpl. exact Hn.
  - destruct (Nat.eqb (fst h) t && Nat.eqb (snd h) x)%bool eqn:E.
    + apply andb_true_iff in E. destruct E as [_ E]. apply Nat.eqb_eq in E.
      exfalso. apply Hn. rewrite E. exact (in_map snd r (t, x) Hin).
    + simpl. intros [H|H].
      * apply Hn. rewrite H. exact (in_map snd r (t, x) Hin).
      * apply (IH Hr Hin H).
Qed.

Lemma find_held_in t (l : list (nat * nat)) x' t' : find (fun h => Nat.eqb (fst h) t) l = Some (t', x') -> In (t, x') l /\ t' = t.
Proof.
  induction l as [|h r IH]; simpl; [discriminate|].
  destruct (Nat.eqb (fst h) t) eqn:E.
  - intros H. injection H as ->. apply Nat.eqb_eq in E. simpl in E. subst. split; [left; reflexivity|reflexivity].
  - intros H. destruct (IH H) as [A B]. split; [right; exact A|exact B].
Qed.

Lemma nodup_app_iff {A} (a b : list A) :
  NoDup (a ++ b) <-> NoDup a /\ NoDup b /\ (forall x, In x a -> ~ In x b).
Proof.
  induction a as [|h a IH]; simpl.
  - split; [intros H; repeat split; [constructor|exact H|intros x []]|intros (_ & H & _); exact H].
  - split.
    + intros H. inversion H as [|? ? Hn Hr]; subst. apply IH in Hr. destruct Hr as (Ha & Hb & Hd).
      repeat split; [constructor; [intros Hin; apply Hn; apply in_or_app; left; exact Hin|exact Ha]|exact Hb|].
      intros x [<-|Hx] Hxb; [apply Hn; apply in_or_app; right; exact Hxb|exact (Hd x Hx Hxb)].
    + intros (Ha & Hb & Hd). inversion Ha as [|? ? Hn Hr]; subst. constructor.
      * intros Hin. apply in_app_or in Hin. destruct Hin as [Hin|Hin]; [exact (Hn Hin)|exact (Hd h (or_introl eq_refl) Hin)].
      * apply IH. repeat split; [exact Hr|exact Hb|intros x Hx; apply Hd; right; exact Hx].
Qed.

Lemma pool_step_inv p o : pool_inv p -> pool_inv (pool_step p o).
Proof.
  intros [ND Hlt]. destruct o as [t|t]; simpl.
  - destruct (rev (p_free p)) as [|x r] eqn:E.
    + assert (p_free p = []) as Ef by (apply (f_equal (@rev nat)) in E; rewrite rev_involutive in E; exact E).
      rewrite Ef in *. simpl in *. split; simpl.
      * constructor; [|exact ND]. intros Hin. specialize (Hlt _ Hin). lia.
      * intros y [<-|Hy]; [lia|]. specialize (Hlt _ Hy). lia.
    + assert (p_free p = rev r ++ [x]) as Ef
        by (apply (f_equal (@rev nat)) in E; rewrite rev_involutive in E; simpl in E; exact E).
      rewrite Ef in *. split; simpl.
      * apply nodup_app_iff in ND. destruct ND as (Hf & Hh & Hd).
        apply nodup_app_iff in Hf. destruct Hf as (Hr & _ & Hrx).
        apply nodup_app_iff. repeat split.
        -- exact Hr.
        -- constructor; [|exact Hh]. intros Hin. apply (Hd x); [apply in_or_app; right; left; reflexivity|exact Hin].
        -- intros y Hy [Hxy|Hy2]; [subst y; apply (Hrx x Hy); left; reflexivity|].
           apply (Hd y); [apply in_or_app; left; exact Hy|exact Hy2].
      * intros y Hy. apply Hlt. rewrite <- app_assoc. simpl.
        apply in_app_or in Hy. apply in_or_app. destruct Hy as [Hy|[<-|Hy]]; [left; exact Hy|right; left; reflexivity|right; right; exact Hy].
  - destruct (find (fun h => Nat.eqb (fst h) t) (p_held p)) as [[t' x]|] eqn:F; [|split; assumption].
    destruct (find_held_in _ _ _ _ F) as [Hin _]. simpl.
    apply nodup_app_iff in ND. destruct ND as (Hf & Hh & Hd).
    assert (Hxh : In x (map snd (p_held p))) by exact (in_map snd (p_held p) (t, x) Hin).
    split.
    + apply nodup_app_iff. repeat split.
      * apply nodup_app_iff. repeat split; [exact Hf|constructor; [intros []|constructor]|].
        intros y Hy [Hxy|[]]. subst y. exact (Hd x Hy Hxh).
      * apply nodup_rm_held. exact Hh.
      * intros y Hy Hy2. apply in_app_or in Hy. destruct Hy as [Hy|[Hxy|[]]].
        -- apply (Hd y Hy). eapply in_rm_held. exact Hy2.
        -- subst y. exact (rm_held_removes t x (p_held p) Hh Hin Hy2).
    + intros y Hy. apply Hlt. apply in_app_or in Hy. apply in_or_app. destruct Hy as [Hy|Hy].
      * apply in_app_or in Hy. destruct Hy as [Hy|[Hxy|[]]]; [left; exact Hy|subst y; right; exact Hxh].
      * right. eapply in_rm_held. exact Hy.
Qed.

Lemma pool_inv_init : pool_inv pool_init.
Proof. split; simpl; [constructor|intros x []]. Qed.

(* every reachable pool state: no item is held twice or both held and free; items are conserved *)
Theorem pool_exclusive ops : pool_inv (fold_left pool_step ops pool_init).
Proof.
  generalize pool_inv_init. generalize pool_init.
  induction ops as [|o ops IH]; intros p H; simpl; [exact H|]. apply IH. apply pool_step_inv. exact H.
Qed.

