From Coq Require Import ZArith List Bool String Ascii Lia Arith.
From KV Require Import Base.Sx Base.Str Gen.Generated Model.Flags Proofs.FlagsP Model.FlagsV4 Proofs.FlagsV4P
                       Model.FlagsSel Proofs.FlagsSelP Model.FlagsArg.
Import ListNotations.
Open Scope Z_scope.
Open Scope string_scope.

(* ---------- what the translator read ---------- *)
Lemma arg_sources :
  sel_to_list_strip = "strip" /\ sel_to_list_sep = ","
  /\ flag_setter_group_key = [("v4", "all"); ("v3", "all"); ("v2", "all")]
  /\ flag_setter_loop = [("v4", "per_name"); ("v3", "per_name"); ("v2", "per_name")]
  /\ h5_flag_table_decoded = [("v3", true); ("v2", true)].
Proof. repeat split; reflexivity. Qed.

Lemma group_key_all f : group_key f = "all".
Proof. destruct f; reflexivity. Qed.
Lemma loop_shape_per_name f : loop_shape f = "per_name".
Proof. destruct f; reflexivity. Qed.
Lemma table_decoded_true f : table_decoded f = true.
Proof. destruct f; reflexivity. Qed.

Lemma split_on_comma s : forall cur, split_on_aux ","%char s cur = split_comma_aux s cur.
Proof.
  induction s as [|a t IH]; intro cur; simpl; [reflexivity|].
  destruct (Ascii.eqb a ","%char); rewrite IH; reflexivity.
Qed.

(* the parser with the constants of the source IS the parser the spec and all other theorems use *)
Lemma selection_to_list_src_eq f a all : selection_to_list_src (group_key f) a all = selection_to_list a all.
Proof.
  rewrite group_key_all. destruct a as [s|l]; [|reflexivity].
  unfold selection_to_list_src, selection_to_list.
  destruct (String.eqb s ""); [reflexivity|]. destruct (String.eqb s "all"); [reflexivity|].
  change sep_char with ","%char. unfold split_on, split_comma. rewrite split_on_comma.
  apply map_ext. intro x. reflexivity.
Qed.

Lemma mk_mask_src_eq known f a : mk_mask_src known f a = mk_mask known f a.
Proof.
  unfold mk_mask_src, mk_mask_shape, mk_mask. rewrite selection_to_list_src_eq, loop_shape_per_name. reflexivity.
Qed.

Lemma warned_src_eq f a : warned_src flag_names f a = unknown_names flag_names a.
Proof. unfold warned_src, unknown_names. rewrite selection_to_list_src_eq, loop_shape_per_name. reflexivity. Qed.

(* ---------- packbits on 8 bits ---------- *)
Lemma packbits_range l : List.length l = 8%nat -> 0 <= packbits l < 256.
Proof.
  intro H. do 9 (destruct l as [|? l]; try discriminate H).
  repeat match goal with b : bool |- _ => destruct b end; vm_compute; split; (discriminate || reflexivity).
Qed.

Lemma mk_mask_range_any known f a : 0 <= mk_mask known f a < 256.
Proof.
  unfold mk_mask. apply packbits_range.
  destruct (setter_flip f); rewrite ?rev_length; apply length_selection_bits.
Qed.

(* ---------- the mask for ANY table of 8 distinct names ---------- *)
Lemma mk_mask_table known f names : NoDup known -> List.length known = 8%nat ->
  mk_mask known f (SelList names) = table_mask f known names.
Proof.
  intros ND L8. unfold mk_mask. cbn [selection_to_list].
  pose proof (length_selection_bits known names) as LB.
  rewrite (list8 _ LB).
  rewrite !(nth_selection_bits known names) by (auto; lia).
  unfold table_mask. cbn [seq map fold_right].
  generalize (mem_string (nth 0 known "") names) (mem_string (nth 1 known "") names)
             (mem_string (nth 2 known "") names) (mem_string (nth 3 known "") names)
             (mem_string (nth 4 known "") names) (mem_string (nth 5 known "") names)
             (mem_string (nth 6 known "") names) (mem_string (nth 7 known "") names).
  intros b0 b1 b2 b3 b4 b5 b6 b7.
  destruct f; [change (setter_flip FV4) with true|change (setter_flip FV3) with true|change (setter_flip FV2) with false];
    destruct b0, b1, b2, b3, b4, b5, b6, b7; reflexivity.
Qed.

Lemma mk_mask_table_arg known f a : NoDup known -> List.length known = 8%nat ->
  mk_mask known f a = table_mask f known (table_wanted known a).
Proof. intros ND L8. exact (mk_mask_table known f (selection_to_list a known) ND L8). Qed.

(* the default table is flags.NAMES: the general statement contains the one of Props/C16.v *)
Lemma flag_names_nodup : NoDup flag_names /\ List.length flag_names = 8%nat.
Proof. rewrite names_are_documented. split; [exact doc_names_nodup|reflexivity]. Qed.

Lemma table_mask_default f a : table_mask f flag_names (table_wanted flag_names a) = spec_fmt_mask f a.
Proof.
  destruct flag_names_nodup as [ND L8].
  rewrite <- mk_mask_table_arg by assumption. apply mk_mask_spec.
Qed.

(* the mask depends only on WHICH names of the table are requested: not on their order, not on repetitions, not on
   anything else in the list (unknown names at any position) *)
Lemma table_mask_ext f known l1 l2 :
  (forall n, In n known -> (In n l1 <-> In n l2)) -> List.length known = 8%nat ->
  table_mask f known l1 = table_mask f known l2.
Proof.
  intros H L8. unfold table_mask. f_equal. apply map_ext_in. intros i Hi. apply in_seq in Hi.
  assert (In (nth i known "") known) as Hin by (apply nth_In; lia).
  assert (mem_string (nth i known "") l1 = mem_string (nth i known "") l2) as ->; [|reflexivity].
  apply Bool.eq_iff_eq_true. rewrite !mem_string_In. exact (H _ Hin).
Qed.

Lemma mask_known_names_only known f l1 l2 : NoDup known -> List.length known = 8%nat ->
  (forall n, In n known -> (In n l1 <-> In n l2)) ->
  mk_mask known f (SelList l1) = mk_mask known f (SelList l2).
Proof. intros ND L8 H. rewrite !mk_mask_table by assumption. apply table_mask_ext; assumption. Qed.

Lemma unknown_ignored_anywhere known f l1 u l2 : NoDup known -> List.length known = 8%nat -> ~ In u known ->
  mk_mask known f (SelList (l1 ++ u :: l2)) = mk_mask known f (SelList (l1 ++ l2)).
Proof.
  intros ND L8 Hu. apply mask_known_names_only; auto.
  intros n Hn. rewrite !in_app_iff. simpl. split; [|tauto].
  intros [A|[A|A]]; auto. subst. contradiction.
Qed.

Lemma mask_order_irrelevant known f l1 l2 : NoDup known -> List.length known = 8%nat ->
  mk_mask known f (SelList (l1 ++ l2)) = mk_mask known f (SelList (l2 ++ l1))
  /\ mk_mask known f (SelList (l1 ++ l1)) = mk_mask known f (SelList l1)
  /\ mk_mask known f (SelList (rev l1)) = mk_mask known f (SelList l1).
Proof.
  intros ND L8. repeat split; apply mask_known_names_only; auto; intros n _.
  - rewrite !in_app_iff. tauto.
  - rewrite in_app_iff. tauto.
  - symmetry. apply in_rev.
Qed.

(* bit i (in the order of the format) is set iff the i-th name of the table is requested: a sweep over the 256 lists
   of 8 booleans x 3 formats x 8 positions (vm_compute), lifted through unpackbits (packbits bs) = bs *)
Definition bits_mask (f : fmt) (bs : list bool) : Z :=
  fold_right Z.add 0 (map (fun i => if nth i bs false then 2 ^ bitpos f i else 0) (seq 0 8)).

Lemma unpack_of_pack bs : List.length bs = 8%nat -> unpackbits (packbits bs) = bs.
Proof.
  intro H. do 9 (destruct bs as [|? bs]; try discriminate H).
  repeat match goal with b : bool |- _ => destruct b end; vm_compute; reflexivity.
Qed.

Lemma bits_mask_sweep :
  forallb (fun f => forallb (fun m => forallb (fun i =>
     Bool.eqb (Z.testbit (bits_mask f (unpackbits m)) (bitpos f i)) (nth i (unpackbits m) false)) (seq 0 8)) bytes)
          [FV4; FV3; FV2] = true.
Proof. vm_compute. reflexivity. Qed.

Lemma bits_mask_testbit f bs i : List.length bs = 8%nat -> (i < 8)%nat ->
  Z.testbit (bits_mask f bs) (bitpos f i) = nth i bs false.
Proof.
  intros L Hi. rewrite <- (unpack_of_pack bs L).
  pose proof bits_mask_sweep as S. rewrite forallb_forall in S.
  assert (In f [FV4; FV3; FV2]) as Hf by (destruct f; simpl; auto). specialize (S f Hf).
  rewrite forallb_forall in S. specialize (S (packbits bs) (in_bytes _ (packbits_range bs L))).
  rewrite forallb_forall in S. apply Bool.eqb_prop. apply S. apply in_seq. lia.
Qed.

Lemma table_mask_testbit f known wanted i : (i < 8)%nat ->
  Z.testbit (table_mask f known wanted) (bitpos f i) = mem_string (nth i known "") wanted.
Proof.
  intro Hi.
  change (table_mask f known wanted)
    with (bits_mask f (map (fun j => mem_string (nth j known "") wanted) (seq 0 8))).
  rewrite bits_mask_testbit by (auto; rewrite map_length, seq_length; reflexivity).
  do 8 (destruct i as [|i]; [reflexivity|]). lia.
Qed.

(* ---------- the marking loop: per name vs around the whole loop ---------- *)
Lemma mark_until_all_known known names : forall sel,
  (forall n, In n names -> In n known) -> mark_until known names sel = fold_left (mark known) names sel.
Proof.
  induction names as [|n t IH]; intros sel H; simpl; [reflexivity|].
  unfold mark at 2. destruct (index_of n known) as [i|] eqn:E.
  - apply IH. intros m Hm. apply H. right. exact Hm.
  - exfalso. assert (In n known) as Hin by (apply H; left; reflexivity).
    clear - E Hin. induction known as [|y k IHk]; simpl in *; [contradiction|].
    destruct (String.eqb_spec n y); [discriminate|].
    destruct Hin as [->|Hin]; [congruence|]. destruct (index_of n k); [discriminate|]. auto.
Qed.

(* with every requested name in the table the two shapes agree ... *)
Lemma shapes_agree_without_unknown shape known f names :
  (forall n, In n names -> In n known) ->
  mk_mask_shape shape known f names = mk_mask known f (SelList names).
Proof.
  intro H. unfold mk_mask_shape, selection_bits_shape, mk_mask. cbn [selection_to_list].
  destruct (String.eqb shape "per_name"); [reflexivity|].
  rewrite mark_until_all_known by exact H. reflexivity.
Qed.

(* ... and with the handler around the whole loop everything after the first unknown name is dropped *)
Lemma whole_loop_stops known f l1 u l2 :
  (forall n, In n l1 -> In n known) -> ~ In u known ->
  mk_mask_shape "whole_loop" known f (l1 ++ u :: l2) = mk_mask known f (SelList l1).
Proof.
  intros H Hu. unfold mk_mask_shape, selection_bits_shape, mk_mask. cbn [selection_to_list].
  change (String.eqb "whole_loop" "per_name") with false. cbv iota.
  assert (forall sel, mark_until known (l1 ++ u :: l2) sel = fold_left (mark known) l1 sel) as ->; [|reflexivity].
  induction l1 as [|n t IH]; intro sel; simpl.
  - destruct (index_of u known) as [i|] eqn:E; [|reflexivity].
    exfalso. apply Hu. destruct (index_of_Some_nth _ _ _ E) as [A B]. rewrite <- A. apply nth_In. exact B.
  - unfold mark at 2. destruct (index_of n known) as [i|] eqn:E.
    + apply IH. intros m Hm. apply H. right. exact Hm.
    + exfalso. assert (In n known) as Hin by (apply H; left; reflexivity).
      clear - E Hin. induction known as [|y k IHk]; simpl in *; [contradiction|].
      destruct (String.eqb_spec n y); [discriminate|].
      destruct Hin as [->|Hin]; [congruence|]. destruct (index_of n k); [discriminate|]. auto.
Qed.

Example whole_loop_would_drop_names :
  mk_mask_shape "whole_loop" flag_names FV3 ["static"; "bogus"; "cam"] = 2
  /\ mk_mask_shape "per_name" flag_names FV3 ["static"; "bogus"; "cam"] = 6
  /\ mk_mask_src flag_names FV3 (SelStr "static,bogus,cam") = 6
  /\ mk_mask_shape "whole_loop" flag_names FV2 ["bogus"; "cam"] = 0
  /\ mk_mask_src flag_names FV2 (SelList ["bogus"; "cam"]) = 32.
Proof. repeat split; reflexivity. Qed.

(* ---------- getter then setter on ANY table of 8 distinct names ---------- *)
Lemma names_where_In x known : forall bs, In x (names_where known bs) -> In x known.
Proof.
  induction known as [|n t IH]; intros [|b u] H; simpl in H; try contradiction.
  destruct b; [destruct H as [->|H]; [left; reflexivity|]|]; right; exact (IH _ H).
Qed.

Lemma names_where_mem known : forall bs i, NoDup known -> List.length known = List.length bs ->
  (i < List.length known)%nat -> mem_string (nth i known "") (names_where known bs) = nth i bs false.
Proof.
  induction known as [|n t IH]; intros bs i ND L Hi; simpl in Hi; [lia|].
  destruct bs as [|b u]; [discriminate L|]. inversion ND as [|? ? Hnin ND']; subst.
  simpl in L. destruct i as [|i]; simpl.
  - destruct b; unfold mem_string; simpl; [rewrite String.eqb_refl; reflexivity|].
    apply Bool.not_true_is_false. intro H. apply Hnin.
    apply (names_where_In n t u). apply mem_string_In. exact H.
  - assert (String.eqb (nth i t "") n = false) as Hne.
    { apply String.eqb_neq. intro E. apply Hnin. rewrite <- E. apply nth_In. lia. }
    destruct b; unfold mem_string; simpl; rewrite ?Hne; simpl; apply IH; auto; lia.
Qed.

Lemma selection_bits_names_where known bs : NoDup known -> List.length known = 8%nat -> List.length bs = 8%nat ->
  selection_bits known (names_where known bs) = bs.
Proof.
  intros ND L8 LB.
  pose proof (length_selection_bits known (names_where known bs)) as L.
  rewrite (list8 _ L). rewrite !(nth_selection_bits known) by (auto; lia).
  rewrite !(names_where_mem known bs) by (auto; lia).
  symmetry. apply list8. exact LB.
Qed.

Lemma unpack_sweep :
  forallb (fun m => Z.eqb (packbits (unpackbits m)) m && Nat.eqb (List.length (unpackbits m)) 8) bytes = true.
Proof. vm_compute. reflexivity. Qed.

Lemma unpack_pack m : 0 <= m < 256 -> packbits (unpackbits m) = m /\ List.length (unpackbits m) = 8%nat.
Proof.
  intro H. pose proof unpack_sweep as S. rewrite forallb_forall in S. specialize (S m (in_bytes _ H)).
  apply andb_prop in S. destruct S as [A B]. split; [apply Z.eqb_eq; exact A|apply Nat.eqb_eq; exact B].
Qed.

Lemma roundtrip_table known f m : NoDup known -> List.length known = 8%nat -> 0 <= m < 256 ->
  mk_mask known f (SelList (keep_names known f m)) = m.
Proof.
  intros ND L8 Hm. destruct (unpack_pack m Hm) as [P LU].
  unfold mk_mask, keep_names. cbn [selection_to_list].
  destruct f;
    [change (setter_flip FV4) with true; change (getter_flip FV4) with true
    |change (setter_flip FV3) with true; change (getter_flip FV3) with true
    |change (setter_flip FV2) with false; change (getter_flip FV2) with false]; cbv iota;
    rewrite selection_bits_names_where by (auto; rewrite ?rev_length; exact LU);
    rewrite ?rev_involutive; exact P.
Qed.

(* the names the getter returns are names of the table, exactly those whose bit is set *)
Lemma getter_table known f m i : NoDup known -> List.length known = 8%nat -> 0 <= m < 256 -> (i < 8)%nat ->
  mem_string (nth i known "") (keep_names known f m) = Z.testbit m (bitpos f i).
Proof.
  intros ND L8 Hm Hi.
  rewrite <- (roundtrip_table known f m ND L8 Hm) at 2.
  rewrite mk_mask_table by assumption. symmetry. apply table_mask_testbit. exact Hi.
Qed.

(* ---------- one data set on a file with its own table, any history of select() calls ---------- *)
Section Table.
Variable known : list string.
Hypothesis ND : NoDup known.
Hypothesis L8 : List.length known = 8%nat.

Lemma pds_select_step_t pl f p kf kw curf :
  p_fmt p = f ->
  p_mask p = mk_mask known f curf -> sel_inv (p_fsel p) curf ->
  let q := pds_select pl known p kf kw in
  p_fmt q = f
  /\ p_mask q = mk_mask known f (new_cur kf curf) /\ sel_inv (p_fsel q) (new_cur kf curf).
Proof.
  intros Hf Hm Hs q. subst q. unfold pds_select, pds_set_keep.
  cbn [p_fmt p_fsel p_wsel p_mask p_wts]. rewrite Hf.
  assert (M1 : match or_else kf (p_fsel p) with Some a => mk_mask known f a | None => p_mask p end
               = mk_mask known f (new_cur kf curf)).
  { destruct kf as [a|]; simpl; [reflexivity|].
    destruct (p_fsel p) as [a|]; simpl in *; [rewrite Hs; reflexivity|exact Hm]. }
  rewrite M1.
  split; [reflexivity|]. split.
  - rewrite roundtrip_table by (auto; apply mk_mask_range_any). destruct (guard_ok _ _); reflexivity.
  - destruct kf as [a|]; simpl; [reflexivity|]. destruct (p_fsel p); simpl in *; auto.
Qed.

Lemma pds_run_inv_t pl f h : forall p curf, p_fmt p = f ->
  p_mask p = mk_mask known f curf -> sel_inv (p_fsel p) curf ->
  let q := pds_run pl known p h in
  p_fmt q = f /\ p_mask q = mk_mask known f (last_sel (map fst h) curf).
Proof.
  induction h as [|[kf kw] t IH]; intros p curf Hf Hm Hs.
  - cbn. auto.
  - destruct (pds_select_step_t pl f p kf kw curf Hf Hm Hs) as (A & B & C).
    specialize (IH _ _ A B C). cbn zeta in IH |- *.
    change (pds_run pl known p ((kf, kw) :: t)) with (pds_run pl known (pds_select pl known p kf kw) t).
    destruct kf; exact IH.
Qed.

Lemma file_history f (h : list kwpair) :
  p_fmt (file_run f known h) = f
  /\ p_mask (file_run f known h) = table_mask f known (table_wanted known (last_sel (map fst h) (SelStr "all")))
  /\ 0 <= p_mask (file_run f known h) < 256.
Proof.
  destruct (pds_run_inv_t cur_plumbing f h (pds_init known f) (SelStr "all") eq_refl eq_refl Logic.I) as (A & B).
  cbn zeta in A, B. unfold file_run. rewrite B.
  split; [exact A|]. split; [apply mk_mask_table_arg; assumption|apply mk_mask_range_any].
Qed.

Lemma file_mask_table f a :
  file_mask f known a = Some (table_mask f known (table_wanted known a))
  /\ file_warned f known a = List.length (filter (fun n => negb (mem_string n known)) (table_wanted known a)).
Proof.
  unfold file_mask, file_warned. rewrite L8, table_decoded_true. cbn [Nat.eqb negb].
  rewrite mk_mask_src_eq, mk_mask_table_arg by assumption. split; [reflexivity|].
  unfold warned_src. rewrite selection_to_list_src_eq, loop_shape_per_name. reflexivity.
Qed.
End Table.

Lemma file_mask_wrong_length f table a : List.length table <> 8%nat -> file_mask f table a = None.
Proof.
  intro H. unfold file_mask. destruct (Nat.eqb_spec (List.length table) 8); [contradiction|reflexivity].
Qed.

(* ---------- strings: white space around the fields of a comma-separated selection ---------- *)
Lemma sapp_assoc (x y z : string) : (x ++ y) ++ z = x ++ (y ++ z).
Proof. induction x as [|a t IH]; simpl; [reflexivity|]. rewrite IH. reflexivity. Qed.
Lemma sapp_nil_r (x : string) : x ++ "" = x.
Proof. induction x as [|a t IH]; simpl; [reflexivity|]. rewrite IH. reflexivity. Qed.

Lemma srev_app_spec s : forall acc, srev_app s acc = srev s ++ acc.
Proof.
  unfold srev. induction s as [|a t IH]; intro acc; simpl; [reflexivity|].
  rewrite IH, (IH (String a "")), sapp_assoc. reflexivity.
Qed.
Lemma srev_cons a t : srev (String a t) = srev t ++ String a "".
Proof. unfold srev at 1. simpl. apply srev_app_spec. Qed.
Lemma srev_append x y : srev (x ++ y) = srev y ++ srev x.
Proof.
  induction x as [|a t IH]; simpl.
  - change (srev "") with "". rewrite sapp_nil_r. reflexivity.
  - rewrite !srev_cons, IH, sapp_assoc. reflexivity.
Qed.
Lemma srev_involutive s : srev (srev s) = s.
Proof.
  induction s as [|a t IH]; [reflexivity|].
  rewrite srev_cons, srev_append, IH. reflexivity.
Qed.

Lemma all_space_app x y : all_space (x ++ y) = all_space x && all_space y.
Proof. induction x as [|a t IH]; simpl; [reflexivity|]. rewrite IH, andb_assoc. reflexivity. Qed.
Lemma all_space_srev s : all_space (srev s) = all_space s.
Proof.
  induction s as [|a t IH]; [reflexivity|].
  rewrite srev_cons, all_space_app, IH. simpl. rewrite andb_true_r, andb_comm. reflexivity.
Qed.
Lemma lstrip_space_app a s : all_space a = true -> lstrip (a ++ s) = lstrip s.
Proof.
  induction a as [|c t IH]; simpl; intro H; [reflexivity|].
  apply andb_prop in H. destruct H as [H1 H2]. rewrite H1. exact (IH H2).
Qed.
Lemma lstrip_all_space a : all_space a = true -> lstrip a = "".
Proof. intro H. rewrite <- (sapp_nil_r a), lstrip_space_app by exact H. reflexivity. Qed.
Lemma lstrip_first_ok_app n b : first_ok n = true -> n <> "" -> lstrip (n ++ b) = n ++ b.
Proof. destruct n as [|c t]; [congruence|]. simpl. intros H _. destruct (is_space c); [discriminate|reflexivity]. Qed.

Lemma strip_field a n b :
  all_space a = true -> all_space b = true -> first_ok n = true -> first_ok (srev n) = true ->
  strip (a ++ n ++ b) = n.
Proof.
  intros Ha Hb Hn Hr. unfold strip. rewrite lstrip_space_app by exact Ha.
  destruct n as [|c t].
  - simpl. rewrite (lstrip_all_space b Hb). reflexivity.
  - rewrite lstrip_first_ok_app by (auto; discriminate).
    rewrite srev_append, lstrip_space_app by (rewrite all_space_srev; exact Hb).
    assert (srev (String c t) <> "") as Hne.
    { rewrite srev_cons. destruct (srev t); discriminate. }
    rewrite <- (sapp_nil_r (srev (String c t))) at 1.
    rewrite lstrip_first_ok_app by assumption. rewrite sapp_nil_r. apply srev_involutive.
Qed.

Lemma no_comma_app x y : no_comma (x ++ y) = no_comma x && no_comma y.
Proof. induction x as [|a t IH]; simpl; [reflexivity|]. rewrite IH, andb_assoc. reflexivity. Qed.

Lemma split_no_comma s : forall t cur, no_comma s = true ->
  split_comma_aux (s ++ t) cur = split_comma_aux t (srev_app s cur).
Proof.
  induction s as [|a u IH]; intros t cur H; simpl; [reflexivity|].
  simpl in H. apply andb_prop in H. destruct H as [H1 H2].
  apply negb_true_iff in H1. rewrite H1. apply IH. exact H2.
Qed.

Lemma split_join (l : list string) : l <> [] -> forallb no_comma l = true ->
  split_comma (join_comma l) = l.
Proof.
  induction l as [|x t IH]; [congruence|]. intros _ H. simpl in H. apply andb_prop in H. destruct H as [Hx Ht].
  destruct t as [|y t'].
  - simpl. rewrite <- (sapp_nil_r x) at 1. unfold split_comma. rewrite split_no_comma by exact Hx.
    simpl. rewrite srev_app_spec, sapp_nil_r, srev_involutive. reflexivity.
  - change (join_comma (x :: y :: t')) with (x ++ String ","%char (join_comma (y :: t'))).
    unfold split_comma. rewrite split_no_comma by exact Hx. simpl.
    rewrite srev_app_spec, sapp_nil_r, srev_involutive. f_equal.
    apply IH; [discriminate|exact Ht].
Qed.

Lemma field_ok_parts x : field_ok x = true ->
  no_comma (field_text x) = true /\ strip (field_text x) = field_name x.
Proof.
  destruct x as [[a n] b]. unfold field_ok, clean_name, field_text, field_name. intro H.
  apply andb_prop in H; destruct H as [H Hcb].
  apply andb_prop in H; destruct H as [H Hsb].
  apply andb_prop in H; destruct H as [H Hc].
  apply andb_prop in H; destruct H as [Hsa Hca].
  apply andb_prop in Hc; destruct Hc as [Hc Hr].
  apply andb_prop in Hc; destruct Hc as [Hcn Hf].
  split.
  - rewrite !no_comma_app. rewrite Hca, Hcn, Hcb. reflexivity.
  - apply strip_field; assumption.
Qed.

(* a comma-separated string whose fields carry white space on either side - also in front of the first and
   behind the last field - reads as the list of its names *)
Lemma string_selection_is_list (fields : list field) (all : list string) :
  fields <> [] -> forallb field_ok fields = true ->
  let s := join_comma (map field_text fields) in
  s <> "" -> s <> "all" ->
  selection_to_list (SelStr s) all = map field_name fields.
Proof.
  intros Hne Hok s H0 Hall. unfold selection_to_list.
  destruct (String.eqb_spec s ""); [contradiction|]. destruct (String.eqb_spec s "all"); [contradiction|].
  unfold s. rewrite split_join.
  - rewrite map_map. apply map_ext_in. intros x Hx.
    rewrite forallb_forall in Hok. exact (proj2 (field_ok_parts x (Hok x Hx))).
  - destruct fields; [congruence|discriminate].
  - rewrite forallb_forall. intros t Ht. apply in_map_iff in Ht. destruct Ht as (x & <- & Hx).
    rewrite forallb_forall in Hok. exact (proj1 (field_ok_parts x (Hok x Hx))).
Qed.

Lemma string_selection_mask known f (fields : list field) :
  fields <> [] -> forallb field_ok fields = true ->
  let s := join_comma (map field_text fields) in
  s <> "" -> s <> "all" ->
  mk_mask known f (SelStr s) = mk_mask known f (SelList (map field_name fields)).
Proof.
  intros Hne Hok s H0 Hall. unfold mk_mask.
  pose proof (string_selection_is_list fields known Hne Hok H0 Hall) as E. cbv zeta in E. fold s in E.
  rewrite E. reflexivity.
Qed.

Example whitespace_nonvacuous :
  selection_to_list (SelStr (join_comma (map field_text
     [(" ", "static", ""); ("", "cam", String (ascii_of_nat 10) "")]))) flag_names = ["static"; "cam"]
  /\ join_comma (map field_text [(" ", "static", ""); ("", "cam", String (ascii_of_nat 10) "")])
     = " static,cam" ++ String (ascii_of_nat 10) ""
  /\ forallb field_ok [(" ", "static", ""); ("", "cam", String (ascii_of_nat 10) "")] = true
  /\ mk_mask flag_names FV3 (SelStr (" cam" ++ String (ascii_of_nat 9) "")) = 4
  /\ mk_mask flag_names FV2 (SelStr (String (ascii_of_nat 10) "static , cam ")) = 96
  (* ' all' is NOT the group 'all': it is the (unknown) name 'all' *)
  /\ mk_mask flag_names FV4 (SelStr " all") = 0 /\ unknown_names flag_names (SelStr " all") = ["all"].
Proof. repeat split; reflexivity. Qed.

Example file_table_nonvacuous :
  let kat7 := ["reserved0"; "static"; "cam"; "reserved3"; "detected_rfi"; "predicted_rfi"; "reserved6"; "reserved7"] in
  file_mask FV2 kat7 (SelStr "detected_rfi, cam") = Some 40
  /\ file_mask FV3 kat7 (SelStr "detected_rfi, cam") = Some 20
  /\ file_mask FV3 kat7 (SelStr "ingest_rfi") = Some 0 /\ file_warned FV3 kat7 (SelStr "ingest_rfi,cam") = 1%nat
  /\ file_mask FV3 kat7 (SelStr "all") = Some 255
  /\ file_mask FV3 (tl kat7) (SelStr "all") = None
  /\ p_mask (file_run FV2 kat7 [(Some (SelStr "static"), None); (None, None)]) = 64
  /\ NoDup kat7.
Proof.
  cbv zeta. repeat split; try reflexivity.
  repeat (constructor; [simpl; intros H; repeat (destruct H as [H|H]; [discriminate H|]); exact H|]). constructor.
Qed.
