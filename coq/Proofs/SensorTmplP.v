(* C12: proofs about virtual-sensor template matching (Model/SensorTmpl.v). *)
From Coq Require Import ZArith List Bool String Ascii Arith Lia.
From KV Require Import Base.Sx Base.Str Gen.Generated Model.SensorTmpl.
Import ListNotations.
Local Open Scope nat_scope.

Definition slash_free (w : list ascii) : Prop := forallb (fun c => negb (is_slash c)) w = true.

(* ---------------------------------------------------------------- the variable `[^/]+` *)
Lemma var_go_sound : forall k s w b, var_go k s = Some (w, b) ->
  w <> [] /\ slash_free w /\ exists s', s = w ++ s' /\ k s' = Some b.
Proof.
  intros k s. induction s as [|c s IH]; intros w b H; simpl in H; [discriminate|].
  destruct (is_slash c) eqn:Ec; [discriminate|].
  destruct (var_go k s) as [[w' b']|] eqn:E.
  - inversion H; subst. destruct (IH _ _ eq_refl) as [Hn [Hs [s' [-> Hk]]]].
    split; [discriminate|]. split.
    + unfold slash_free. simpl. rewrite Ec. exact Hs.
    + exists s'. split; [reflexivity|exact Hk].
  - destruct (k s) eqn:Ek; [|discriminate]. inversion H; subst.
    split; [discriminate|]. split.
    + unfold slash_free. simpl. now rewrite Ec.
    + exists s. split; [reflexivity|exact Ek].
Qed.

Lemma var_go_complete : forall k w s', w <> [] -> slash_free w -> k s' <> None ->
  var_go k (w ++ s') <> None.
Proof.
  intros k w. induction w as [|c w IH]; intros s' Hn Hs Hk; [congruence|].
  unfold slash_free in Hs. simpl in Hs. apply andb_prop in Hs. destruct Hs as [Hc Hs].
  simpl. destruct (is_slash c); [discriminate|].
  destruct w as [|c' w'].
  - simpl. destruct (var_go k s') as [[? ?]|]; [discriminate|].
    destruct (k s'); [discriminate|congruence].
  - assert (X : var_go k ((c' :: w') ++ s') <> None) by (apply IH; [discriminate|exact Hs|exact Hk]).
    destruct (var_go k ((c' :: w') ++ s')) as [[? ?]|]; [discriminate|congruence].
Qed.

(* greedy: no longer slash-free run after which the rest of the template still matches exists *)
Lemma var_go_longest : forall k s w b, var_go k s = Some (w, b) ->
  forall w' s', s = w' ++ s' -> w' <> [] -> slash_free w' -> k s' <> None ->
  List.length w' <= List.length w.
Proof.
  intros k s. induction s as [|c s IH]; intros w b H w' s' Hs Hn Hf Hk; simpl in H; [discriminate|].
  destruct (is_slash c) eqn:Ec; [discriminate|].
  destruct w' as [|c0 w']; [congruence|]. simpl in Hs. inversion Hs; subst c0 s. clear Hs.
  unfold slash_free in Hf. simpl in Hf. apply andb_prop in Hf. destruct Hf as [_ Hf].
  destruct (var_go k (w' ++ s')) as [[w1 b1]|] eqn:E.
  - inversion H; subst. simpl. apply le_n_S.
    destruct w' as [|c1 w1']; [simpl; lia|].
    apply (IH _ _ eq_refl (c1 :: w1') s'); auto. discriminate.
  - destruct w' as [|c1 w1'].
    + simpl in *. destruct (k s'); inversion H; subst; simpl; lia.
    + exfalso. apply (var_go_complete k (c1 :: w1') s'); auto. discriminate.
Qed.

(* ---------------------------------------------------------------- re.match against the declarative `fits` *)
Lemma tm_sound : forall segs s b, tm segs s = Some b -> exists p rest, s = p ++ rest /\ fits segs b p.
Proof.
  induction segs as [|sg r IH]; intros s b H.
  - simpl in H. inversion H. exists [], s. split; [reflexivity|constructor].
  - destruct sg as [c|cs|v]; simpl in H.
    + destruct s as [|c' s']; [discriminate|]. destruct (Ascii.eqb c c') eqn:E; [|discriminate].
      apply Ascii.eqb_eq in E. subst c'. destruct (IH _ _ H) as [p [rest [-> F]]].
      exists (c :: p), rest. split; [reflexivity|now constructor].
    + destruct s as [|c' s']; [discriminate|]. destruct (mem_ascii c' cs) eqn:E; [|discriminate].
      destruct (IH _ _ H) as [p [rest [-> F]]].
      exists (c' :: p), rest. split; [reflexivity|now constructor].
    + destruct (var_go (tm r) s) as [[w b']|] eqn:E; [|discriminate]. inversion H; subst.
      apply var_go_sound in E. destruct E as [Hn [Hs [s' [-> Hk]]]].
      destruct (IH _ _ Hk) as [p [rest [-> F]]].
      exists (w ++ p), rest. split; [now rewrite app_assoc|]. now constructor.
Qed.

Lemma tm_complete : forall segs b p, fits segs b p -> forall rest, tm segs (p ++ rest) <> None.
Proof.
  induction 1; intro rest; simpl.
  - discriminate.
  - rewrite Ascii.eqb_refl. apply IHfits.
  - rewrite H. apply IHfits.
  - rewrite <- app_assoc.
    pose proof (var_go_complete (tm r) w (p ++ rest) H H0 (IHfits rest)) as X.
    destruct (var_go (tm r) (w ++ p ++ rest)) as [[? ?]|]; [discriminate|congruence].
Qed.

(* the test is anchored at the START only: every extension of a matching name matches too *)
Lemma tm_prefix_closed : forall segs s b, tm segs s = Some b -> forall extra, tm segs (s ++ extra) <> None.
Proof.
  intros segs s b H extra. destruct (tm_sound _ _ _ H) as [p [rest [-> F]]].
  rewrite <- app_assoc. apply (tm_complete _ _ _ F).
Qed.

(* every binding handed to the virtual sensor function is non-empty and contains no slash *)
Lemma fits_bindings : forall segs b p, fits segs b p ->
  forall v w, In (v, w) b -> w <> [] /\ slash_free w /\ In v (vars_of segs).
Proof.
  induction 1; intros v0 w0 Hin; simpl in *; try contradiction; eauto.
  destruct Hin as [E|Hin].
  - inversion E; subst. auto.
  - destruct (IHfits _ _ Hin) as [A [B C]]. auto.
Qed.

Lemma tm_bindings : forall segs s b, tm segs s = Some b ->
  map fst b = vars_of segs /\ forall v w, In (v, w) b -> w <> [] /\ slash_free w.
Proof.
  intros segs s b H. destruct (tm_sound _ _ _ H) as [p [rest [_ F]]]. split.
  - clear H. induction F; simpl; auto. now f_equal.
  - intros v w Hin. destruct (fits_bindings _ _ _ F _ _ Hin) as [A [B _]]. auto.
Qed.

(* the fully anchored variant accepts exactly the instances of the template ... *)
Lemma tm_full_sound : forall segs s b, tm_full segs s = Some b -> fits segs b s.
Proof.
  induction segs as [|sg r IH]; intros s b H.
  - simpl in H. destruct s; [|discriminate]. inversion H. constructor.
  - destruct sg as [c|cs|v]; simpl in H.
    + destruct s as [|c' s']; [discriminate|]. destruct (Ascii.eqb c c') eqn:E; [|discriminate].
      apply Ascii.eqb_eq in E. subst c'. constructor. now apply IH.
    + destruct s as [|c' s']; [discriminate|]. destruct (mem_ascii c' cs) eqn:E; [|discriminate].
      constructor; [exact E|now apply IH].
    + destruct (var_go (tm_full r) s) as [[w b']|] eqn:E; [|discriminate]. inversion H; subst.
      apply var_go_sound in E. destruct E as [Hn [Hs [s' [-> Hk]]]]. constructor; auto.
Qed.

Lemma tm_full_complete : forall segs b p, fits segs b p -> tm_full segs p <> None.
Proof.
  induction 1; simpl.
  - discriminate.
  - now rewrite Ascii.eqb_refl.
  - now rewrite H.
  - pose proof (var_go_complete (tm_full r) w p H H0 IHfits) as X.
    destruct (var_go (tm_full r) (w ++ p)) as [[? ?]|]; [discriminate|congruence].
Qed.

(* ... and the code's test accepts every instance AND everything that starts with one *)
Lemma tm_iff_prefix_instance : forall segs s,
  tm segs s <> None <-> exists p rest, s = p ++ rest /\ tm_full segs p <> None.
Proof.
  intros segs s. split.
  - intro H. destruct (tm segs s) as [b|] eqn:E; [|congruence].
    destruct (tm_sound _ _ _ E) as [p [rest [-> F]]]. exists p, rest. split; [reflexivity|].
    apply (tm_full_complete _ _ _ F).
  - intros [p [rest [-> H]]]. destruct (tm_full segs p) as [b|] eqn:E; [|congruence].
    apply tm_full_sound in E. apply (tm_complete _ _ _ E).
Qed.

(* ---------------------------------------------------------------- first matching template wins *)
Lemma resolve_from_spec : forall ts i name j b,
  resolve_from i ts name = Some (j, b) <->
  exists k, j = i + k /\ (exists t, nth_error ts k = Some t /\ tm t name = Some b) /\
            forall k' t', k' < k -> nth_error ts k' = Some t' -> tm t' name = None.
Proof.
  induction ts as [|t rest IH]; intros i name j b; simpl.
  - split; [discriminate|]. intros [k [_ [[t [H _]] _]]]. destruct k; discriminate.
  - destruct (tm t name) as [b0|] eqn:E.
    + split.
      * intro H. inversion H; subst. exists 0. split; [lia|]. split; [exists t; auto|]. intros; lia.
      * intros [k [-> [[t0 [Hn Ht]] Hf]]]. destruct k.
        -- simpl in Hn. inversion Hn; subst. rewrite Ht in E. inversion E. now rewrite Nat.add_0_r.
        -- exfalso. specialize (Hf 0 t ltac:(lia) eq_refl). congruence.
    + rewrite IH. split.
      * intros [k [-> [[t0 [Hn Ht]] Hf]]]. exists (S k). split; [lia|]. split; [exists t0; auto|].
        intros k' t' Hk Hn'. destruct k'; simpl in Hn'.
        -- inversion Hn'; subst. exact E.
        -- apply (Hf k' t'); [lia|exact Hn'].
      * intros [k [-> [[t0 [Hn Ht]] Hf]]]. destruct k.
        -- simpl in Hn. inversion Hn; subst. congruence.
        -- exists k. split; [lia|]. split; [exists t0; auto|].
           intros k' t' Hk Hn'. apply (Hf (S k') t'); [lia|exact Hn'].
Qed.

Lemma resolve_from_none : forall ts i name,
  resolve_from i ts name = None <-> forall t, In t ts -> tm t name = None.
Proof.
  induction ts as [|t rest IH]; intros i name; simpl.
  - split; [intros _ t []|reflexivity].
  - destruct (tm t name) eqn:E.
    + split; [discriminate|]. intro H. specialize (H t (or_introl eq_refl)). congruence.
    + rewrite IH. split.
      * intros H t' [<-|Hin]; auto.
      * intros H t' Hin. apply H. now right.
Qed.

(* ---------------------------------------------------------------- the registered templates (regenerated) *)
Definition show (r : option (nat * bnd)) : option (nat * list (string * string)) :=
  option_map (fun ib => (fst ib, map (fun vw => (string_of_list_ascii (fst vw), string_of_list_ascii (snd vw))) (snd ib))) r.
Definition resolve_in (module name : string) : option (nat * list (string * string)) :=
  match parse_all (registry_of module) with Some segs => show (resolve segs name) | None => None end.
Definition funcs_at (module : string) (r : option (nat * list (string * string))) : string :=
  match r with Some (i, _) => nth i (registry_funcs module) ""%string | None => ""%string end.

Local Open Scope string_scope.
(* every registered template lies in the modelled subset, in every format module *)
Lemma registries_parse :
  forallb (fun e => match parse_all (map fst (snd e)) with Some _ => true | None => false end) virtual_registries = true /\
  map fst virtual_registries = ["dataset"; "h5datav1"; "h5datav2"; "h5datav3"; "visdatav4"].
Proof. vm_compute. split; reflexivity. Qed.

(* what the registered templates of the v4 module do with documented and undocumented names *)
Example registry_examples :
  funcs_at "visdatav4" (resolve_in "visdatav4" "Antennas/m000/az") = "_calc_azel" /\
  option_map snd (resolve_in "visdatav4" "Antennas/m000/az") = Some [("ant", "m000")] /\
  funcs_at "visdatav4" (resolve_in "visdatav4" "Timestamps/mjd") = "_calc_mjd" /\
  funcs_at "visdatav4" (resolve_in "visdatav4" "Antennas/m000/target_y_SIN_radec") = "_calc_target_coords" /\
  option_map snd (resolve_in "visdatav4" "Antennas/m000/target_y_SIN_radec")
    = Some [("ant", "m000"); ("projection", "SIN"); ("coordsys", "radec")] /\
  funcs_at "visdatav4" (resolve_in "visdatav4" "Antennas/array/basis_u") = "_calc_uvw_basis" /\
  funcs_at "visdatav4" (resolve_in "visdatav4" "Antennas/m000/u") = "_calc_uvw_per_ant" /\
  funcs_at "visdatav4" (resolve_in "visdatav4" "Correlator/Inputs/m000h/applied_gain") = "_calc_gain" /\
  option_map snd (resolve_in "visdatav4" "Correlator/Inputs/m000h/applied_delay") = Some [("inp", "m000h")] /\
  resolve_in "visdatav4" "Antennas/m0/00/az" = None /\          (* a variable never spans a slash *)
  resolve_in "visdatav4" "Antennas//az" = None /\               (* nor is it empty *)
  resolve_in "visdatav4" "antennas/m000/az" = None /\           (* case-sensitive *)
  resolve_in "visdatav4" "xAntennas/m000/az" = None /\          (* anchored at the start *)
  resolve_in "dataset" "Antennas/m000/az" = None /\             (* az / el are added by the format modules *)
  (* NOT anchored at the end: a longer name is handed to the function of the template it starts with *)
  funcs_at "visdatav4" (resolve_in "visdatav4" "Antennas/m000/azimuth") = "_calc_azel" /\
  funcs_at "visdatav4" (resolve_in "visdatav4" "Antennas/m000/radec") = "_calc_radec".
Proof. vm_compute. repeat split; reflexivity. Qed.

(* the code's test is NOT the fully anchored one: machine-checked witness *)
Lemma tm_not_anchored_at_end :
  exists segs s, parse "Antennas/{ant}/az" = Some segs /\ tm segs s <> None /\ tm_full segs s = None.
Proof.
  destruct (parse "Antennas/{ant}/az") as [segs|] eqn:E; [|vm_compute in E; discriminate].
  exists segs, (list_ascii_of_string "Antennas/m000/azimuth"). split; [reflexivity|].
  vm_compute in E. inversion E; subst. vm_compute. split; [discriminate|reflexivity].
Qed.
