(* C08: lemmas about the exception enum, the error maps and the absorb / report logic. *)
From Coq Require Import ZArith List Bool String Lia.
From KV Require Import Base.Sx Base.Str Gen.Generated Model.Npy Model.StoreErr.
Import ListNotations.
Open Scope Z_scope.

(* ---------- the enum is finite and listed completely ---------- *)
Lemma exn_code_nth : forall e, nth_error all_exn (Z.to_nat (exn_code e)) = Some e.
Proof. destruct e; reflexivity. Qed.

Lemma all_exn_complete : forall e, In e all_exn.
Proof. intro e. exact (nth_error_In _ _ (exn_code_nth e)). Qed.

Lemma exn_eqb_eq : forall a b, exn_eqb a b = true <-> a = b.
Proof.
  intros a b. unfold exn_eqb. split.
  - intro H. apply Z.eqb_eq in H.
    pose proof (exn_code_nth a) as Ha. pose proof (exn_code_nth b) as Hb.
    rewrite H in Ha. rewrite Ha in Hb. now inversion Hb.
  - intros ->. apply Z.eqb_refl.
Qed.

(* a boolean statement checked on the whole enum holds for every exception class *)
Lemma sweep : forall P : exn -> bool, forallb P all_exn = true -> forall e, P e = true.
Proof. intros P H e. exact (proj1 (forallb_forall P all_exn) H e (all_exn_complete e)). Qed.

Lemma sweep2 : forall P : exn -> exn -> bool,
  forallb (fun a => forallb (P a) all_exn) all_exn = true -> forall a b, P a b = true.
Proof. intros P H a b. exact (sweep _ (sweep (fun a => forallb (P a) all_exn) H a) b). Qed.

Definition all_stores : list store := [SDefault; SNpy; SDict; SS3].
Lemma sweep_store : forall P : store -> bool, forallb P all_stores = true -> forall s, P s = true.
Proof. intros P H s. apply (proj1 (forallb_forall P all_stores) H). destruct s; simpl; tauto. Qed.

(* ---------- the translated tables resolve, and the class table agrees with the source ---------- *)
Fixpoint exns_eqb (a b : list exn) : bool :=
  match a, b with
  | [], [] => true
  | x :: a', y :: b' => exn_eqb x y && exns_eqb a' b'
  | _, _ => false
  end.

Lemma tables_resolve :
  resolve_map c08_errmap_default <> None /\ resolve_map c08_errmap_npy <> None /\
  resolve_map c08_errmap_dict <> None /\ resolve_map c08_errmap_s3 <> None /\
  resolve_names c08_absorbed_default <> None /\ resolve_names c08_absorbed_placeholder <> None /\
  resolve_names c08_noraise_returned <> None.
Proof. vm_compute. repeat split; discriminate. Qed.

(* every katdal class statement `class X(A, B)` in the source has exactly the bases of the model *)
Lemma class_bases_tied :
  forallb (fun p => match exn_of_name (fst p), resolve_names (snd p) with
                    | Some e, Some l => exns_eqb (bases e) l
                    | _, _ => false end) c08_class_bases = true
  /\ List.length c08_class_bases = 8%nat.
Proof. split; vm_compute; reflexivity. Qed.

(* subclassing is reflexive and follows the direct-base table *)
Lemma subclass_refl : forall e, subclass e e = true.
Proof. apply sweep. vm_compute. reflexivity. Qed.

Lemma subclass_trans_b : forall a b, subclass a b = true ->
  forallb (fun c => implb (subclass b c) (subclass a c)) all_exn = true.
Proof.
  intros a b. revert a b.
  assert (H : forall a b, implb (subclass a b) (forallb (fun c => implb (subclass b c) (subclass a c)) all_exn) = true).
  { apply sweep2. vm_compute. reflexivity. }
  intros a b Hab. specialize (H a b). cbv beta in H. rewrite Hab in H. exact H.
Qed.

Lemma subclass_trans : forall a b c, subclass a b = true -> subclass b c = true -> subclass a c = true.
Proof.
  intros a b c Hab Hbc. pose proof (sweep _ (subclass_trans_b a b Hab) c) as H.
  cbv beta in H. rewrite Hbc in H. exact H.
Qed.

(* ---------- the three standard classes ---------- *)
Definition is_std (e : exn) : bool :=
  isinst e K_StoreUnavailable || isinst e K_ChunkNotFound || isinst e K_BadChunk.

(* the three standard classes are pairwise disjoint on the whole enum *)
Lemma std_disjoint : forall e,
  (isinst e K_ChunkNotFound && (isinst e K_BadChunk || isinst e K_StoreUnavailable)) = false /\
  (isinst e K_BadChunk && isinst e K_StoreUnavailable) = false.
Proof.
  intro e.
  assert (H : negb (isinst e K_ChunkNotFound && (isinst e K_BadChunk || isinst e K_StoreUnavailable))
              && negb (isinst e K_BadChunk && isinst e K_StoreUnavailable) = true).
  { revert e. apply sweep. vm_compute. reflexivity. }
  apply andb_prop in H. destruct H as [H1 H2].
  split; now apply negb_true_iff.
Qed.

(* Classification: whatever is raised inside a guarded block comes out either as one of the standard classes
   (when the map catches it) or unchanged (when it does not). *)
Definition map_catches (s : store) (e : exn) : bool := existsb (fun kv => isinst e (fst kv)) (error_map s).

Definition classifies_b (s : store) (e : exn) : bool :=
  if map_catches s e
  then is_std (standard_errors (error_map s) e)
       && existsb (fun kv => exn_eqb (snd kv) (standard_errors (error_map s) e)) (error_map s)
  else exn_eqb (standard_errors (error_map s) e) e.

Lemma standard_errors_classifies_b : forall s e, classifies_b s e = true.
Proof.
  intros s e. revert e. apply sweep. revert s.
  apply (sweep_store (fun s => forallb (classifies_b s) all_exn)).
  vm_compute. reflexivity.
Qed.

Lemma standard_errors_classifies : forall s e,
  (map_catches s e = true /\ is_std (standard_errors (error_map s) e) = true /\
   In (standard_errors (error_map s) e) (map snd (error_map s)))
  \/ (map_catches s e = false /\ standard_errors (error_map s) e = e).
Proof.
  intros s e. pose proof (standard_errors_classifies_b s e) as H. unfold classifies_b in H.
  destruct (map_catches s e) eqn:Hc.
  - left. apply andb_prop in H. destruct H as [H1 H2]. repeat split; auto.
    apply existsb_exists in H2. destruct H2 as [kv [Hin Heq]]. apply exn_eqb_eq in Heq.
    rewrite <- Heq. now apply in_map.
  - right. split; auto. now apply exn_eqb_eq.
Qed.

(* exact type wins over an earlier base: the lookup order of _standard_errors *)
Lemma standard_errors_exact : forall m k v,
  find (fun kv => exn_eqb (fst kv) k) m = Some (k, v) -> standard_errors m k = v.
Proof.
  intros m k v H. unfold standard_errors. rewrite H.
  assert (existsb (fun kv => isinst k (fst kv)) m = true) as ->; [|reflexivity].
  apply existsb_exists. exists (k, v). split.
  - now apply find_some in H.
  - apply subclass_refl.
Qed.

(* ---------- only ChunkNotFound is absorbed ---------- *)
Lemma absorbed_is_notfound :
  absorbed_default = [K_ChunkNotFound] /\ absorbed_placeholder = [K_ChunkNotFound] /\
  noraise_returned = [K_ChunkStoreError].
Proof. vm_compute. auto. Qed.

Lemma caught_notfound : forall e, caught absorbed_default e = isinst e K_ChunkNotFound
                               /\ caught absorbed_placeholder e = isinst e K_ChunkNotFound.
Proof.
  intro e. destruct absorbed_is_notfound as [-> [-> _]]. unfold caught. simpl.
  now rewrite orb_false_r.
Qed.

Lemma get_chunk_cases : forall s lo,
  match lo with
  | LArray true true => get_chunk s lo = Ret Stored
  | LArray _ _ => get_chunk s lo = Raise K_BadChunk
  | LRaise e => get_chunk s lo = Raise (standard_errors (error_map s) e)
  end.
Proof. intros s [[] []|e]; reflexivity. Qed.

(* the full absorb statement, for every store, every low-level result *)
Lemma or_default_spec : forall s lo,
  match get_chunk s lo with
  | Ret v => get_chunk_or_default s lo = Ret v /\ get_chunk_or_placeholder s lo = Ret v /\ v = Stored
  | Raise e =>
      if isinst e K_ChunkNotFound
      then get_chunk_or_default s lo = Ret DefaultFill /\ get_chunk_or_placeholder s lo = Ret Placeholder
      else get_chunk_or_default s lo = Raise e /\ get_chunk_or_placeholder s lo = Raise e
  end.
Proof.
  intros s lo. unfold get_chunk_or_default, get_chunk_or_placeholder.
  destruct (get_chunk s lo) as [v|e] eqn:Hg.
  - repeat split; auto. destruct lo as [[] []|e]; simpl in Hg; try discriminate; now inversion Hg.
  - destruct (caught_notfound e) as [-> ->]. destruct (isinst e K_ChunkNotFound); auto.
Qed.

Lemma filler_only_for_notfound : forall s lo v,
  (get_chunk_or_default s lo = Ret v \/ get_chunk_or_placeholder s lo = Ret v) ->
  (v = Stored /\ lo = LArray true true) \/
  (v <> Stored /\ exists e, get_chunk s lo = Raise e /\ isinst e K_ChunkNotFound = true).
Proof.
  intros s lo v H. pose proof (or_default_spec s lo) as S.
  destruct (get_chunk s lo) as [w|e] eqn:Hg.
  - destruct S as [S1 [S2 S3]]. left. subst w.
    assert (v = Stored) by (destruct H as [H|H]; congruence). split; auto.
    destruct lo as [[] []|e]; simpl in Hg; try discriminate; auto.
  - destruct (isinst e K_ChunkNotFound) eqn:Hi.
    + destruct S as [S1 S2]. right. split.
      * destruct H as [H|H]; [rewrite S1 in H|rewrite S2 in H]; inversion H; discriminate.
      * exists e. auto.
    + destruct S as [S1 S2]. destruct H as [H|H]; congruence.
Qed.

Lemma bad_or_unavailable_never_filled : forall s lo e,
  get_chunk s lo = Raise e ->
  (isinst e K_BadChunk = true \/ isinst e K_StoreUnavailable = true \/ is_std e = false) ->
  get_chunk_or_default s lo = Raise e /\ get_chunk_or_placeholder s lo = Raise e.
Proof.
  intros s lo e Hg Hc. pose proof (or_default_spec s lo) as S. rewrite Hg in S.
  assert (isinst e K_ChunkNotFound = false) as Hn.
  { destruct (std_disjoint e) as [D1 D2]. destruct (isinst e K_ChunkNotFound) eqn:Hi; auto.
    destruct Hc as [Hc|[Hc|Hc]].
    - rewrite Hc in D1. discriminate.
    - rewrite Hc in D1. rewrite orb_true_r in D1. discriminate.
    - unfold is_std in Hc. rewrite Hi in Hc. rewrite orb_true_r in Hc. discriminate. }
  now rewrite Hn in S.
Qed.
