(* C08: lemmas about the exception enum, the error maps and the absorb / report logic. *)
From Coq Require Import ZArith List Bool String Lia.
From KV Require Import Base.Sx Base.Str Gen.Generated Model.Npy Model.StoreErr.
Import ListNotations.
Open Scope Z_scope.

(* ---------- the enum is finite and listed completely ---------- *)
Lemma exn_code_nth : forall e, nth_error all_exn (Z.to_nat (exn_code e)) = Some e.
Proof. destruct e; reflexivity. Qed.

Lemma all_exn_complete : forall e, In e all_exn.
Proof. intro e. exact (nth_error_In _ _ (exn_code_nth e)). Qed.

Lemma exn_eqb_eq : forall a b, exn_eqb a b = true <-> a = b.
Proof.
  intros a b. unfold exn_eqb. split.
  - intro H. apply Z.eqb_eq in H.
    pose proof (exn_code_nth a) as Ha. pose proof (exn_code_nth b) as Hb.
    rewrite H in Ha. rewrite Ha in Hb. now inversion Hb.
  - intros ->. apply Z.eqb_refl.
Qed.

(* a boolean statement checked on the whole enum holds for every exception class *)
Lemma sweep : forall P : exn -> bool, forallb P all_exn = true -> forall e, P e = true.
Proof. intros P H e. exact (proj1 (forallb_forall P all_exn) H e (all_exn_complete e)). Qed.

Lemma sweep2 : forall P : exn -> exn -> bool,
  forallb (fun a => forallb (P a) all_exn) all_exn = true -> forall a b, P a b = true.
Proof. intros P H a b. exact (sweep _ (sweep (fun a => forallb (P a) all_exn) H a) b). Qed.

Definition all_stores : list store := [SDefault; SNpy; SDict; SS3].
Lemma sweep_store : forall P : store -> bool, forallb P all_stores = true -> forall s, P s = true.
Proof. intros P H s. apply (proj1 (forallb_forall P all_stores) H). destruct s; simpl; tauto. Qed.

(* ---------- the translated tables resolve, and the class table agrees with the source ---------- *)
Fixpoint exns_eqb (a b : list exn) : bool :=
  match a, b with
  | [], [] => true
  | x :: a', y :: b' => exn_eqb x y && exns_eqb a' b'
  | _, _ => false
  end.

Lemma tables_resolve :
  resolve_map c08_errmap_default <> None /\ resolve_map c08_errmap_npy <> None /\
  resolve_map c08_errmap_dict <> None /\ resolve_map c08_errmap_s3 <> None /\
  resolve_names c08_absorbed_default <> None /\ resolve_names c08_absorbed_placeholder <> None /\
  resolve_names c08_noraise_returned <> None.
Proof. vm_compute. repeat split; discriminate. Qed.

(* every katdal class statement `class X(A, B)` in the source has exactly the bases of the model *)
Lemma class_bases_tied :
  forallb (fun p => match exn_of_name (fst p), resolve_names (snd p) with
                    | Some e, Some l => exns_eqb (bases e) l
                    | _, _ => false end) c08_class_bases = true
  /\ List.length c08_class_bases = 8%nat.
Proof. split; vm_compute; reflexivity. Qed.

(* subclassing is reflexive and follows the direct-base table *)
Lemma subclass_refl : forall e, subclass e e = true.
Proof. apply sweep. vm_compute. reflexivity. Qed.

Lemma subclass_trans_b : forall a b, subclass a b = true ->
  forallb (fun c => implb (subclass b c) (subclass a c)) all_exn = true.
Proof.
  intros a b. revert a b.
  assert (H : forall a b, implb (subclass a b) (forallb (fun c => implb (subclass b c) (subclass a c)) all_exn) = true).
  { apply sweep2. vm_compute. reflexivity. }
  intros a b Hab. specialize (H a b). cbv beta in H. rewrite Hab in H. exact H.
Qed.

Lemma subclass_trans : forall a b c, subclass a b = true -> subclass b c = true -> subclass a c = true.
Proof.
  intros a b c Hab Hbc. pose proof (sweep _ (subclass_trans_b a b Hab) c) as H.
  cbv beta in H. rewrite Hbc in H. exact H.
Qed.

(* ---------- the three standard classes ---------- *)
Definition is_std (e : exn) : bool :=
  isinst e K_StoreUnavailable || isinst e K_ChunkNotFound || isinst e K_BadChunk.

(* the three standard classes are pairwise disjoint on the whole enum *)
Lemma std_disjoint : forall e,
  (isinst e K_ChunkNotFound && (isinst e K_BadChunk || isinst e K_StoreUnavailable)) = false /\
  (isinst e K_BadChunk && isinst e K_StoreUnavailable) = false.
Proof.
  intro e.
  assert (H : negb (isinst e K_ChunkNotFound && (isinst e K_BadChunk || isinst e K_StoreUnavailable))
              && negb (isinst e K_BadChunk && isinst e K_StoreUnavailable) = true).
  { revert e. apply sweep. vm_compute. reflexivity. }
  apply andb_prop in H. destruct H as [H1 H2].
  split; now apply negb_true_iff.
Qed.

(* Classification: whatever is raised inside a guarded block comes out either as one of the standard classes
   (when the map catches it) or unchanged (when it does not). *)
Definition map_catches (s : store) (e : exn) : bool := existsb (fun kv => isinst e (fst kv)) (error_map s).

Definition classifies_b (s : store) (e : exn) : bool :=
  if map_catches s e
  then is_std (standard_errors (error_map s) e)
       && existsb (fun kv => exn_eqb (snd kv) (standard_errors (error_map s) e)) (error_map s)
  else exn_eqb (standard_errors (error_map s) e) e.

Lemma standard_errors_classifies_b : forall s e, classifies_b s e = true.
Proof.
  intros s e. revert e. apply sweep. revert s.
  apply (sweep_store (fun s => forallb (classifies_b s) all_exn)).
  vm_compute. reflexivity.
Qed.

Lemma standard_errors_classifies : forall s e,
  (map_catches s e = true /\ is_std (standard_errors (error_map s) e) = true /\
   In (standard_errors (error_map s) e) (map snd (error_map s)))
  \/ (map_catches s e = false /\ standard_errors (error_map s) e = e).
Proof.
  intros s e. pose proof (standard_errors_classifies_b s e) as H. unfold classifies_b in H.
  destruct (map_catches s e) eqn:Hc.
  - left. apply andb_prop in H. destruct H as [H1 H2]. repeat split; auto.
    apply existsb_exists in H2. destruct H2 as [kv [Hin Heq]]. apply exn_eqb_eq in Heq.
    rewrite <- Heq. now apply in_map.
  - right. split; auto. now apply exn_eqb_eq.
Qed.

(* exact type wins over an earlier base: the lookup order of _standard_errors *)
Lemma standard_errors_exact : forall m k v,
  find (fun kv => exn_eqb (fst kv) k) m = Some (k, v) -> standard_errors m k = v.
Proof.
  intros m k v H. unfold standard_errors. rewrite H.
  assert (existsb (fun kv => isinst k (fst kv)) m = true) as ->; [|reflexivity].
  apply existsb_exists. exists (k, v). split.
  - now apply find_some in H.
  - apply subclass_refl.
Qed.

(* ---------- only ChunkNotFound is absorbed ---------- *)
Lemma absorbed_is_notfound :
  absorbed_default = [K_ChunkNotFound] /\ absorbed_placeholder = [K_ChunkNotFound] /\
  noraise_returned = [K_ChunkStoreError].
Proof. vm_compute. auto. Qed.

Lemma caught_notfound : forall e, caught absorbed_default e = isinst e K_ChunkNotFound
                               /\ caught absorbed_placeholder e = isinst e K_ChunkNotFound.
Proof.
  intro e. destruct absorbed_is_notfound as [-> [-> _]]. unfold caught. simpl.
  now rewrite orb_false_r.
Qed.

(* the translated dtype/shape test of every concrete store compares both attributes and raises BadChunk *)
Lemma decoded_check_all : forall s, decoded_check s = (true, true, K_BadChunk).
Proof. intros []; reflexivity. Qed.
Lemma check_decoded_spec : forall s so dk,
  check_decoded s so dk = if negb so || negb dk then Some K_BadChunk else None.
Proof. intros s so dk. unfold check_decoded. rewrite decoded_check_all. destruct so, dk; reflexivity. Qed.
Lemma get_chunk_array : forall s so dk,
  get_chunk s (LArray so dk) = if negb so || negb dk then Raise K_BadChunk else Ret Stored.
Proof. intros s so dk. cbn [get_chunk]. rewrite check_decoded_spec. destruct (negb so || negb dk); reflexivity. Qed.

Lemma get_chunk_cases : forall s lo,
  match lo with
  | LArray true true => get_chunk s lo = Ret Stored
  | LArray _ _ => get_chunk s lo = Raise K_BadChunk
  | LRaise e => get_chunk s lo = Raise (standard_errors (error_map s) e)
  end.
Proof. intros s [[] []|e]; rewrite ?get_chunk_array; reflexivity. Qed.

(* the full absorb statement, for every store, every low-level result *)
Lemma or_default_spec : forall s lo,
  match get_chunk s lo with
  | Ret v => get_chunk_or_default s lo = Ret v /\ get_chunk_or_placeholder s lo = Ret v /\ v = Stored
  | Raise e =>
      if isinst e K_ChunkNotFound
      then get_chunk_or_default s lo = Ret DefaultFill /\ get_chunk_or_placeholder s lo = Ret Placeholder
      else get_chunk_or_default s lo = Raise e /\ get_chunk_or_placeholder s lo = Raise e
  end.
Proof.
  intros s lo. unfold get_chunk_or_default, get_chunk_or_placeholder.
  destruct (get_chunk s lo) as [v|e] eqn:Hg.
  - repeat split; auto. destruct lo as [[] []|e]; rewrite ?get_chunk_array in Hg; simpl in Hg; try discriminate; now inversion Hg.
  - destruct (caught_notfound e) as [-> ->]. destruct (isinst e K_ChunkNotFound); auto.
Qed.

Lemma filler_only_for_notfound : forall s lo v,
  (get_chunk_or_default s lo = Ret v \/ get_chunk_or_placeholder s lo = Ret v) ->
  (v = Stored /\ lo = LArray true true) \/
  (v <> Stored /\ exists e, get_chunk s lo = Raise e /\ isinst e K_ChunkNotFound = true).
Proof.
  intros s lo v H. pose proof (or_default_spec s lo) as S.
  destruct (get_chunk s lo) as [w|e] eqn:Hg.
  - destruct S as [S1 [S2 S3]]. left. subst w.
    assert (v = Stored) by (destruct H as [H|H]; congruence). split; auto.
    destruct lo as [[] []|e]; rewrite ?get_chunk_array in Hg; simpl in Hg; try discriminate; auto.
  - destruct (isinst e K_ChunkNotFound) eqn:Hi.
    + destruct S as [S1 S2]. right. split.
      * destruct H as [H|H]; [rewrite S1 in H|rewrite S2 in H]; inversion H; discriminate.
      * exists e. auto.
    + destruct S as [S1 S2]. destruct H as [H|H]; congruence.
Qed.

Lemma bad_or_unavailable_never_filled : forall s lo e,
  get_chunk s lo = Raise e ->
  (isinst e K_BadChunk = true \/ isinst e K_StoreUnavailable = true \/ is_std e = false) ->
  get_chunk_or_default s lo = Raise e /\ get_chunk_or_placeholder s lo = Raise e.
Proof.
  intros s lo e Hg Hc. pose proof (or_default_spec s lo) as S. rewrite Hg in S.
  assert (isinst e K_ChunkNotFound = false) as Hn.
  { destruct (std_disjoint e) as [D1 D2]. destruct (isinst e K_ChunkNotFound) eqn:Hi; auto.
    destruct Hc as [Hc|[Hc|Hc]].
    - rewrite Hc in D1. discriminate.
    - rewrite Hc in D1. rewrite orb_true_r in D1. discriminate.
    - unfold is_std in Hc. rewrite Hi in Hc. rewrite orb_true_r in Hc. discriminate. }
  now rewrite Hn in S.
Qed.

(* ====================================================================================== *)
(* byte-level read paths: every proper prefix of a well-formed file is a missing chunk   *)
From KV Require Import Proofs.NpyP.

Lemma npy_map_on_decode_errors :
  standard_errors (error_map SNpy) B_EOFError = K_ChunkNotFound /\
  standard_errors (error_map SNpy) B_ValueError = K_ChunkNotFound /\
  standard_errors (error_map SNpy) B_FileNotFoundError = K_ChunkNotFound /\
  standard_errors (error_map SS3) U_MaxRetryError = K_S3ServerGlitch /\
  isinst K_S3ServerGlitch K_ChunkNotFound = true.
Proof. vm_compute. auto. Qed.

Section ReadPaths.
  Variable parse_hdr : bytes -> option hdr.
  Variable print_hdr : hdr -> bytes.
  Hypothesis parse_print : forall m, parse_hdr (print_hdr m) = Some m.

  Lemma npy_truncated_is_notfound : forall major nb m body k want,
    wf_file print_hdr major nb m body ->
    (k < List.length (encode print_hdr major nb m body))%nat ->
    npy_get_chunk parse_hdr (Some (firstn k (encode print_hdr major nb m body))) want = Raise K_ChunkNotFound.
  Proof.
    intros major nb m body k want Hwf Hk. unfold npy_get_chunk.
    rewrite (truncation_never_data parse_hdr print_hdr parse_print major nb m body k Hwf Hk).
    destruct npy_map_on_decode_errors as [E1 [E2 _]].
    destruct (Nat.eqb k 0); simpl exn_of_npyerr; [rewrite E1|rewrite E2]; reflexivity.
  Qed.

  Lemma npy_missing_is_notfound : forall want, npy_get_chunk parse_hdr None want = Raise K_ChunkNotFound.
  Proof. intro want. unfold npy_get_chunk. destruct npy_map_on_decode_errors as [_ [_ [E3 _]]]. now rewrite E3. Qed.

  Lemma npy_complete_is_data : forall major nb m body,
    wf_file print_hdr major nb m body ->
    npy_get_chunk parse_hdr (Some (encode print_hdr major nb m body)) m = Ret body.
  Proof.
    intros major nb m body Hwf. unfold npy_get_chunk.
    rewrite (decode_encode parse_hdr print_hdr parse_print major nb m body Hwf).
    unfold hdr_matches. destruct (list_eq_dec Nat.eq_dec (h_shape m) (h_shape m)); [|congruence].
    rewrite bytes_eqb_refl. reflexivity.
  Qed.

  (* data comes back only from a file that decodes, with the requested dtype and shape *)
  Lemma npy_data_only_if_decodes : forall file want body,
    npy_get_chunk parse_hdr file want = Ret body ->
    exists bs m, file = Some bs /\ np_load parse_hdr bs = Ok (m, body)
                 /\ h_shape m = h_shape want /\ h_descr m = h_descr want.
  Proof.
    intros file want body H. unfold npy_get_chunk in H.
    destruct file as [bs|]; [|discriminate].
    destruct (np_load parse_hdr bs) as [[m b]|e] eqn:Hl; [|discriminate].
    unfold hdr_matches in H.
    destruct (list_eq_dec Nat.eq_dec (h_shape want) (h_shape m)) as [Hs|Hs]; [|simpl in H; discriminate].
    destruct (bytes_eqb (h_descr want) (h_descr m)) eqn:Hd; [|simpl in H; discriminate].
    simpl in H. inversion H; subst. exists bs, m. apply bytes_eqb_eq in Hd. repeat split; auto.
  Qed.

  Lemma s3_truncated_is_glitch : forall major nb m body k want,
    wf_file print_hdr major nb m body -> existsb (Z.eqb major) [1; 2] = true ->
    (k < List.length (encode print_hdr major nb m body))%nat ->
    s3_get_chunk parse_hdr (firstn k (encode print_hdr major nb m body)) want = Raise K_S3ServerGlitch.
  Proof.
    intros major nb m body k want Hwf Hv Hk. unfold s3_get_chunk.
    rewrite (s3_truncation_never_data parse_hdr print_hdr parse_print major nb m body k Hwf Hv Hk).
    destruct npy_map_on_decode_errors as [_ [_ [_ [E4 _]]]]. simpl exn_of_npyerr. now rewrite E4.
  Qed.
End ReadPaths.

(* ---------- undecodable chunks (findings C08-F5b / C08-F5d, repaired): whatever the bytes are ---------- *)
(* the classes a decoder can raise on bytes that are not NPY data: np.load -> EOFError (empty), ValueError (magic,
   version, header, short body), zipfile.BadZipFile (zip signature, archive not well-formed), tokenize.TokenError
   (header text the tokenizer rejects: numpy's _filter_header); katdal's read_array over an HTTP response ->
   ValueError, TokenError, IncompleteRead (-> MaxRetryError).  The NPY store reports all of them as a missing chunk,
   the S3 store reports the non-truncation ones as BadChunk: always a ChunkStoreError, never a raw exception *)
Lemma undecodable_classes_are_mapped :
  forallb (fun e => exn_eqb (standard_errors (error_map SNpy) e) K_ChunkNotFound)
          [B_EOFError; B_ValueError; Z_BadZipFile; T_TokenError; B_UnicodeDecodeError] = true /\
  forallb (fun e => exn_eqb (standard_errors (error_map SS3) e) K_BadChunk)
          [B_ValueError; T_TokenError; B_UnicodeDecodeError] = true /\
  standard_errors (error_map SS3) U_MaxRetryError = K_S3ServerGlitch /\
  isinst K_ChunkNotFound K_ChunkStoreError = true /\ isinst K_BadChunk K_ChunkStoreError = true /\
  isinst K_S3ServerGlitch K_ChunkStoreError = true.
Proof. vm_compute. auto 10. Qed.

(* before the repairs (map literals of the unrepaired source): BadZipFile and TokenError escaped the NPY map, ValueError
   and TokenError escaped the S3 map *)
Definition npy_map_before_f5b : list (exn * exn) :=
  [(B_OSError, K_ChunkNotFound); (B_ValueError, K_ChunkNotFound); (B_EOFError, K_ChunkNotFound)].
Definition s3_map_before_f5d : list (exn * exn) :=
  [(U_MaxRetryError, K_S3ServerGlitch); (R_ReadTimeout, K_S3ServerGlitch); (R_RetryError, K_S3ServerGlitch);
   (R_RequestException, K_StoreUnavailable)].
Lemma undecodable_raw_before_fix :
  standard_errors npy_map_before_f5b Z_BadZipFile = Z_BadZipFile /\
  standard_errors npy_map_before_f5b T_TokenError = T_TokenError /\
  standard_errors s3_map_before_f5d B_ValueError = B_ValueError /\
  standard_errors s3_map_before_f5d T_TokenError = T_TokenError /\
  isinst Z_BadZipFile K_ChunkStoreError = false /\ isinst T_TokenError K_ChunkStoreError = false /\
  isinst B_ValueError K_ChunkStoreError = false.
Proof. vm_compute. auto 10. Qed.

Lemma check_decoded_class : forall s so dk ex, check_decoded s so dk = Some ex -> ex = K_BadChunk.
Proof.
  intros s so dk ex H. unfold check_decoded in H.
  assert (D : decoded_check s = (true, true, K_BadChunk)) by (destruct s; vm_compute; reflexivity).
  rewrite D in H. destruct ((true && negb so) || (true && negb dk)); congruence.
Qed.

Section AnyBytes.
  Variable parse_hdr : bytes -> option hdr.

  (* the framing reader fails only with "ran out of data" (its [short] class) or ValueError *)
  Lemma read_array_errors : forall short versions bs e,
    read_array parse_hdr short versions bs = Err e -> e = short \/ e = EValue.
  Proof.
    intros short versions bs e H. unfold read_array in H.
    repeat (match type of H with context [match ?x with _ => _ end] => destruct x end; try discriminate);
      inversion H; subst; auto.
  Qed.
  Lemma np_load_never_incomplete : forall bs, np_load parse_hdr bs = Err EIncomplete -> False.
  Proof.
    intros bs H. unfold np_load in H. destruct (firstn 6 bs); [discriminate|].
    destruct (starts_with zip_prefix (z :: l) || starts_with zip_suffix (z :: l)); [discriminate|].
    destruct (bytes_eqb (z :: l) magic_prefix); [|discriminate].
    apply read_array_errors in H. destruct H; discriminate.
  Qed.
  Lemma s3_read_array_never_eof : forall bs, s3_read_array parse_hdr bs = Err EEOF -> False.
  Proof. intros bs H. apply read_array_errors in H. destruct H; discriminate. Qed.
  Lemma s3_read_array_never_zip : forall bs, s3_read_array parse_hdr bs = Err EZip -> False.
  Proof. intros bs H. apply read_array_errors in H. destruct H; discriminate. Qed.

  (* NpyFileChunkStore.get_chunk on a file with ANY content (or no file): data, or a ChunkStoreError *)
  Lemma npy_any_file_is_reported : forall file want e,
    npy_get_chunk parse_hdr file want = Raise e -> isinst e K_ChunkStoreError = true.
  Proof.
    intros file want e H. unfold npy_get_chunk in H.
    destruct undecodable_classes_are_mapped as [A [_ [_ [C1 [C2 _]]]]].
    destruct npy_map_on_decode_errors as [_ [_ [E3 _]]].
    destruct file as [bs|]; [|rewrite E3 in H; inversion H; subst; exact C1].
    destruct (np_load parse_hdr bs) as [[m b]|ne] eqn:Hl.
    - destruct (hdr_matches want m) as [so dk]. destruct (check_decoded SNpy so dk) eqn:Hc; [|discriminate].
      inversion H; subst. apply check_decoded_class in Hc. subst. exact C2.
    - injection H as <-. rewrite forallb_forall in A.
      assert (X : exn_eqb (standard_errors (error_map SNpy) (exn_of_npyerr ne)) K_ChunkNotFound = true).
      { destruct ne; cbn [exn_of_npyerr]; try (apply A; simpl; tauto).
        (* EIncomplete is never raised by np.load; its class is left alone by the NPY map and is not needed here *)
        exfalso. revert Hl. apply np_load_never_incomplete. }
      apply exn_eqb_eq in X. change (get_map c08_errmap_npy) with (error_map SNpy). rewrite X. exact C1.
  Qed.

  (* S3ChunkStore.get_chunk on an object with ANY content: data, or a ChunkStoreError *)
  Lemma s3_any_object_is_reported : forall bs want e,
    s3_get_chunk parse_hdr bs want = Raise e -> isinst e K_ChunkStoreError = true.
  Proof.
    intros bs want e H. unfold s3_get_chunk in H.
    destruct undecodable_classes_are_mapped as [_ [A [G [_ [C2 C3]]]]].
    destruct (s3_read_array parse_hdr bs) as [[m b]|ne] eqn:Hl.
    - destruct (hdr_matches want m) as [so dk]. destruct (check_decoded SS3 so dk) eqn:Hc; [|discriminate].
      inversion H; subst. apply check_decoded_class in Hc. subst. exact C2.
    - injection H as <-. rewrite forallb_forall in A.
      destruct ne; cbn [exn_of_npyerr].
      + exfalso. revert Hl. apply s3_read_array_never_eof.
      + assert (X : exn_eqb (standard_errors (error_map SS3) B_ValueError) K_BadChunk = true) by (apply A; simpl; tauto).
        apply exn_eqb_eq in X. change (get_map c08_errmap_s3) with (error_map SS3). rewrite X. exact C2.
      + change (get_map c08_errmap_s3) with (error_map SS3). rewrite G. exact C3.
      + exfalso. revert Hl. apply s3_read_array_never_zip.
  Qed.
End AnyBytes.

(* ====================================================================================== *)
(* loading through ChunkStoreVisFlagsWeights                                              *)
Lemma vfw_getters : vfw_getter AFlags = get_chunk_or_default /\ vfw_getter AOther = get_chunk_or_placeholder.
Proof. split; reflexivity. Qed.

(* ChunkStore.get_dask_array's choice of getter, for EVERY value of `errors` (translated if/elif chain + kwargs) *)
Lemma getter_selection_total :
  get_dask_array_getter ErrNum = GDefault /\
  get_dask_array_getter (ErrStr "placeholder") = GPlaceholder false /\
  get_dask_array_getter (ErrStr "dryrun") = GPlaceholder true /\
  get_dask_array_getter (ErrStr "raise") = GGet /\
  (forall s, String.eqb s "placeholder" = false -> String.eqb s "dryrun" = false -> String.eqb s "raise" = false ->
     get_dask_array_getter (ErrStr s) = GValueError) /\
  vfw_errors_arg AFlags = ErrNum /\ vfw_errors_arg AOther = ErrStr "placeholder".
Proof.
  repeat split; try reflexivity.
  intros s H1 H2 H3. unfold get_dask_array_getter. cbv [c08_getter_selection select_getter].
  cbn [sel_test String.eqb Ascii.eqb Bool.eqb fst snd]. cbn. rewrite H1, H2, H3. reflexivity.
Qed.

Lemma vfw_load_spec : forall s arrays flags,
  vfw_load s arrays = Ret flags ->
  Forall2 (fun a lost =>
             (lost = false /\ snd a = LArray true true) \/
             (lost = true /\ exists e, get_chunk s (snd a) = Raise e /\ isinst e K_ChunkNotFound = true))
          arrays flags.
Proof.
  intros s arrays. induction arrays as [|[k lo] t IH]; intros flags H; simpl in H.
  - inversion H. constructor.
  - destruct (vfw_getter k s lo) as [v|e] eqn:Hg; [|discriminate].
    destruct (vfw_load s t) as [l|e] eqn:Ht; [|discriminate].
    inversion H; subst. constructor; [|now apply IH].
    assert (get_chunk_or_default s lo = Ret v \/ get_chunk_or_placeholder s lo = Ret v) as Hv.
    { destruct vfw_getters as [G1 G2]. destruct k; [rewrite G1 in Hg|rewrite G2 in Hg]; auto. }
    destruct (filler_only_for_notfound s lo v Hv) as [[-> Hlo]|[Hne [e [He Hi]]]].
    + left. auto.
    + right. split; [destruct v; simpl; congruence|]. exists e. auto.
Qed.

Lemma vfw_load_fails : forall s arrays k lo e,
  In (k, lo) arrays -> get_chunk s lo = Raise e -> isinst e K_ChunkNotFound = false ->
  exists e', vfw_load s arrays = Raise e'.
Proof.
  intros s arrays. induction arrays as [|[k0 lo0] t IH]; intros k lo e Hin Hg Hn; [inversion Hin|].
  simpl. destruct Hin as [Heq|Hin].
  - inversion Heq; subst.
    pose proof (or_default_spec s lo) as S. rewrite Hg, Hn in S. destruct S as [S1 S2].
    destruct vfw_getters as [G1 G2].
    destruct k; [rewrite G1, S1|rewrite G2, S2]; eauto.
  - destruct (vfw_getter k0 s lo0) as [v|e0]; [|eauto].
    destruct (IH k lo e Hin Hg Hn) as [e' ->]. eauto.
Qed.

(* ====================================================================================== *)
(* the temp-file protocol of put_chunk                                                    *)
Lemma lookup_remove_neq : forall k n f, bytes_eqb k n = false -> lookup n (remove k f) = lookup n f.
Proof.
  intros k n f Hkn. induction f as [|[k0 v] t IH]; simpl; auto.
  destruct (bytes_eqb k0 k) eqn:E0.
  - apply bytes_eqb_eq in E0. subst k0. rewrite Hkn. exact IH.
  - simpl. destruct (bytes_eqb k0 n); auto.
Qed.

Lemma lookup_set_eq : forall n v f, lookup n (set n v f) = Some v.
Proof. intros. unfold set. simpl. now rewrite bytes_eqb_refl. Qed.

Lemma lookup_set_neq : forall k n v f, bytes_eqb k n = false -> lookup n (set k v f) = lookup n f.
Proof. intros k n v f H. unfold set. simpl. rewrite H. now apply lookup_remove_neq. Qed.

Definition only_touches (t : name) (op : fsop) : Prop :=
  match op with
  | Creat n | Write n _ | Ftruncate n _ => n = t
  | Rename _ _ => False
  end.

Lemma apply_only_touches : forall t n op f, only_touches t op -> bytes_eqb t n = false ->
  lookup n (apply_op f op) = lookup n f.
Proof.
  intros t n op f Ho Hn. destruct op; simpl in Ho; try contradiction; subst; simpl.
  - now apply lookup_set_neq.
  - destruct (lookup t f); auto. now apply lookup_set_neq.
  - destruct (lookup t f); auto. now apply lookup_set_neq.
Qed.

Lemma run_only_touches : forall t n ops f, Forall (only_touches t) ops -> bytes_eqb t n = false ->
  lookup n (run_ops ops f) = lookup n f.
Proof.
  intros t n ops. induction ops as [|op ops IH]; intros f Hall Hn; simpl; auto.
  inversion Hall; subst. unfold run_ops in *. simpl. rewrite IH; auto. now apply (apply_only_touches t).
Qed.

Lemma run_app : forall a b f, run_ops (a ++ b) f = run_ops b (run_ops a f).
Proof. intros. unfold run_ops. apply fold_left_app. Qed.

Lemma run_writes : forall t ws f c, lookup t f = Some c ->
  lookup t (run_ops (map (Write t) ws) f) = Some (c ++ List.concat ws).
Proof.
  intros t ws. induction ws as [|w ws IH]; intros f c Hc; simpl.
  - now rewrite app_nil_r.
  - unfold run_ops in *. simpl. rewrite Hc. rewrite (IH _ (c ++ w)); [now rewrite app_assoc|apply lookup_set_eq].
Qed.

Definition write_part (base : name) (writes : list bytes) (trunc : option nat) : list fsop :=
  Creat (tmp_name base) :: map (Write (tmp_name base)) writes
  ++ match trunc with Some n => [Ftruncate (tmp_name base) n] | None => [] end.

Lemma put_ops_eq : forall base writes trunc,
  put_ops base writes trunc = write_part base writes trunc ++ [Rename (tmp_name base) (final_name base)].
Proof. intros. unfold put_ops. reflexivity. Qed.

Lemma write_part_only_tmp : forall base writes trunc,
  Forall (only_touches (tmp_name base)) (write_part base writes trunc).
Proof.
  intros. unfold write_part. constructor; [reflexivity|]. apply Forall_app. split.
  - apply Forall_forall. intros op Hin. apply in_map_iff in Hin. destruct Hin as [w [<- _]]. reflexivity.
  - destruct trunc; repeat constructor.
Qed.

Lemma tmp_content : forall base writes trunc f,
  lookup (tmp_name base) (run_ops (write_part base writes trunc) f) = Some (new_content writes trunc).
Proof.
  intros. unfold write_part.
  change (Creat (tmp_name base) :: map (Write (tmp_name base)) writes ++
          match trunc with Some n => [Ftruncate (tmp_name base) n] | None => [] end)
    with ([Creat (tmp_name base)] ++ map (Write (tmp_name base)) writes ++
          match trunc with Some n => [Ftruncate (tmp_name base) n] | None => [] end).
  rewrite run_app, run_app.
  pose proof (run_writes (tmp_name base) writes (run_ops [Creat (tmp_name base)] f) []
                         (lookup_set_eq _ _ _)) as Hw. simpl app in Hw.
  set (g := run_ops (map (Write (tmp_name base)) writes) (run_ops [Creat (tmp_name base)] f)) in *.
  destruct trunc as [n|]; unfold new_content.
  - unfold run_ops. simpl fold_left. rewrite Hw. apply lookup_set_eq.
  - exact Hw.
Qed.

(* the temp name differs from the final name, whatever the chunk name *)
Lemma tmp_neq_final : forall base, bytes_eqb (tmp_name base) (final_name base) = false.
Proof.
  intro base. destruct (bytes_eqb (tmp_name base) (final_name base)) eqn:E; auto.
  apply bytes_eqb_length in E. unfold tmp_name, final_name in E. rewrite !app_length in E.
  assert (List.length tmp_suffix = 12%nat) by reflexivity.
  assert (List.length final_suffix = 4%nat) by reflexivity. lia.
Qed.

Lemma put_complete : forall base writes trunc f,
  lookup (final_name base) (run_ops (put_ops base writes trunc) f) = Some (new_content writes trunc).
Proof.
  intros. rewrite put_ops_eq, run_app.
  pose proof (tmp_content base writes trunc f) as Hg.
  set (g := run_ops (write_part base writes trunc) f) in *.
  unfold run_ops. simpl fold_left. unfold apply_op. rewrite Hg. apply lookup_set_eq.
Qed.

(* any state reachable by executing a prefix of the write part (plus possibly a partial write to the temp
   file) leaves the final name alone *)
Lemma firstn_only : forall t ops k, Forall (only_touches t) ops -> Forall (only_touches t) (firstn k ops).
Proof.
  intros t ops. induction ops as [|op ops IH]; intros k H; destruct k; simpl; auto.
  inversion H; subst. constructor; auto.
Qed.

Lemma nth_error_write_tmp : forall base writes trunc k n bs,
  nth_error (put_ops base writes trunc) k = Some (Write n bs) -> n = tmp_name base.
Proof.
  intros base writes trunc k n bs H. apply nth_error_In in H. rewrite put_ops_eq in H.
  apply in_app_or in H. destruct H as [H|[H|[]]]; [|discriminate].
  pose proof (proj1 (Forall_forall _ _) (write_part_only_tmp base writes trunc) _ H) as Ho. exact Ho.
Qed.

(* ---- the put state machine: every run, whatever the environment answers ---- *)
Definition cut (trunc : option nat) (x : bytes) : bytes :=
  match trunc with Some n => firstn n x | None => x end.

(* the writer's reaction to a short count is sound for a put that ends with `ftruncate(size)` (or not at all) *)
Definition policy_ok (p : wpolicy) (trunc : option nat) : Prop :=
  match p with
  | PRetry => True
  | PIgnore => False
  | PCheck None => True
  | PCheck (Some m) => match trunc with Some size => (size <= m)%nat | None => False end
  end.
Definition cfg_ok (c : wcfg) (trunc : option nat) : Prop :=
  policy_ok (short_policy c) trunc /\ swallow_last_write_error c = false.

Lemma firstn_short_covered : forall size n (cnt w x y : bytes),
  (size <= n)%nat -> (n < List.length w)%nat ->
  firstn size (cnt ++ firstn n w ++ x) = firstn size (cnt ++ w ++ y).
Proof.
  intros size n cnt w x y Hs Hn. rewrite !firstn_app. f_equal.
  rewrite firstn_firstn, firstn_length. rewrite (Nat.min_l n) by lia.
  replace (size - List.length cnt - n)%nat with 0%nat by lia.
  replace (size - List.length cnt - List.length w)%nat with 0%nat by lia.
  cbn [firstn]. rewrite !app_nil_r. f_equal. lia.
Qed.

Section PutRun.
Variable c : wcfg.
Variable base : name.
Variable trunc : option nat.
Variable newc : bytes.
Variable fin0 : option bytes.
Hypothesis Hc : cfg_ok c trunc.

Definition tail_ops : list fsop :=
  match trunc with Some n => [Ftruncate (tmp_name base) n] | None => [] end
  ++ [Rename (tmp_name base) (final_name base)].

(* where a run can be: before the creat; writing (temp file holds [cnt], [ws] still to go, and what the temp file
   will hold after the remaining writes is the new chunk up to the final cut); before the rename; done *)
Inductive phase : list fsop -> fs -> Prop :=
| PhStart : forall ws f, lookup (final_name base) f = fin0 -> cut trunc (List.concat ws) = newc ->
    phase (Creat (tmp_name base) :: map (Write (tmp_name base)) ws ++ tail_ops) f
| PhWrite : forall ws cnt f, lookup (final_name base) f = fin0 -> lookup (tmp_name base) f = Some cnt ->
    cut trunc (cnt ++ List.concat ws) = newc ->
    phase (map (Write (tmp_name base)) ws ++ tail_ops) f
| PhRename : forall f, lookup (final_name base) f = fin0 -> lookup (tmp_name base) f = Some newc ->
    phase [Rename (tmp_name base) (final_name base)] f
| PhDone : forall f, lookup (final_name base) f = Some newc -> phase [] f.

Definition good (r : option (outcome unit) * fs) : Prop :=
  (lookup (final_name base) (snd r) = fin0 \/ lookup (final_name base) (snd r) = Some newc)
  /\ (fst r = Some (Ret tt) -> lookup (final_name base) (snd r) = Some newc).

Lemma final_after_tmp_op : forall op f, only_touches (tmp_name base) op ->
  lookup (final_name base) (apply_op f op) = lookup (final_name base) f.
Proof. intros. apply (apply_only_touches (tmp_name base)); [assumption|apply tmp_neq_final]. Qed.

Lemma tmp_after_write : forall f cnt w, lookup (tmp_name base) f = Some cnt ->
  lookup (tmp_name base) (apply_op f (Write (tmp_name base) w)) = Some (cnt ++ w).
Proof. intros f cnt w H. cbn [apply_op]. rewrite H. apply lookup_set_eq. Qed.

Lemma rename_publishes : forall f v, lookup (tmp_name base) f = Some v ->
  lookup (final_name base) (apply_op f (Rename (tmp_name base) (final_name base))) = Some v.
Proof. intros f v H. cbn [apply_op]. rewrite H. apply lookup_set_eq. Qed.

Lemma phase_step_write : forall ws cnt w f, lookup (final_name base) f = fin0 ->
  lookup (tmp_name base) f = Some cnt -> cut trunc ((cnt ++ w) ++ List.concat ws) = newc ->
  phase (map (Write (tmp_name base)) ws ++ tail_ops) (apply_op f (Write (tmp_name base) w)).
Proof.
  intros ws cnt w f Hf Ht Hcut. apply (PhWrite ws (cnt ++ w)); [|now apply tmp_after_write|exact Hcut].
  rewrite final_after_tmp_op; [exact Hf|reflexivity].
Qed.

Definition after_cut (f : fs) : fs :=
  match trunc with Some n => apply_op f (Ftruncate (tmp_name base) n) | None => f end.

Lemma after_writes : forall cnt f, lookup (final_name base) f = fin0 ->
  lookup (tmp_name base) f = Some cnt -> cut trunc cnt = newc ->
  lookup (final_name base) (after_cut f) = fin0 /\ lookup (tmp_name base) (after_cut f) = Some newc.
Proof.
  intros cnt f Hf Ht Hcut. unfold after_cut. destruct trunc as [n|]; cbn [cut] in Hcut.
  - split; [rewrite final_after_tmp_op; [exact Hf|reflexivity]|].
    cbn [apply_op]. rewrite Ht, Hcut. apply lookup_set_eq.
  - split; [exact Hf|now rewrite Ht, Hcut].
Qed.

Lemma tail_run : forall f,
  run_ops tail_ops f = apply_op (after_cut f) (Rename (tmp_name base) (final_name base)).
Proof. intro f. unfold tail_ops, after_cut. destruct trunc; reflexivity. Qed.

Lemma phase_inv : forall ops f, phase ops f ->
  (exists ws, ops = Creat (tmp_name base) :: map (Write (tmp_name base)) ws ++ tail_ops
              /\ lookup (final_name base) f = fin0 /\ cut trunc (List.concat ws) = newc)
  \/ (exists ws cnt, ops = map (Write (tmp_name base)) ws ++ tail_ops
              /\ lookup (final_name base) f = fin0 /\ lookup (tmp_name base) f = Some cnt
              /\ cut trunc (cnt ++ List.concat ws) = newc)
  \/ (ops = [Rename (tmp_name base) (final_name base)]
              /\ lookup (final_name base) f = fin0 /\ lookup (tmp_name base) f = Some newc)
  \/ (ops = [] /\ lookup (final_name base) f = Some newc).
Proof.
  intros ops f H. destruct H.
  - left. eauto.
  - right. left. eauto 8.
  - right. right. left. auto.
  - right. right. right. auto.
Qed.

(* if nothing goes wrong any more, the new chunk ends up under the final name *)
Lemma run_phase : forall ops f, phase ops f -> lookup (final_name base) (run_ops ops f) = Some newc.
Proof.
  assert (Hw : forall ws cnt f, lookup (final_name base) f = fin0 -> lookup (tmp_name base) f = Some cnt ->
               cut trunc (cnt ++ List.concat ws) = newc ->
               lookup (final_name base) (run_ops (map (Write (tmp_name base)) ws ++ tail_ops) f) = Some newc).
  { induction ws as [|w ws IH]; intros cnt f Hf Ht Hcut.
    - cbn [map app List.concat] in *. rewrite app_nil_r in Hcut.
      destruct (after_writes cnt f Hf Ht Hcut) as [_ Ht']. rewrite tail_run. now apply rename_publishes.
    - cbn [map app List.concat] in *.
      change (run_ops (Write (tmp_name base) w :: map (Write (tmp_name base)) ws ++ tail_ops) f)
        with (run_ops (map (Write (tmp_name base)) ws ++ tail_ops) (apply_op f (Write (tmp_name base) w))).
      apply (IH (cnt ++ w)).
      + rewrite final_after_tmp_op; [exact Hf|reflexivity].
      + now apply tmp_after_write.
      + now rewrite <- app_assoc. }
  intros ops f H.
  destruct (phase_inv ops f H) as [(ws & -> & Hf & Hcut)|[(ws & cnt & -> & Hf & Ht & Hcut)|[(-> & Hf & Ht)|(-> & Hf)]]].
  - change (run_ops (Creat (tmp_name base) :: map (Write (tmp_name base)) ws ++ tail_ops) f)
      with (run_ops (map (Write (tmp_name base)) ws ++ tail_ops) (apply_op f (Creat (tmp_name base)))).
    apply (Hw ws []).
    + rewrite final_after_tmp_op; [exact Hf|reflexivity].
    + cbn [apply_op]. apply lookup_set_eq.
    + exact Hcut.
  - now apply (Hw ws cnt).
  - unfold run_ops. cbn [fold_left]. now apply rename_publishes.
  - exact Hf.
Qed.

Lemma good_unchanged : forall o f, lookup (final_name base) f = fin0 -> o <> Some (Ret tt) -> good (o, f).
Proof. intros o f Hf Ho. split; cbn [fst snd]; [now left|intro; contradiction]. Qed.

Theorem exec_good : forall evs ops f, phase ops f -> good (exec c evs ops f).
Proof.
  destruct Hc as [Hpol Hsw].
  induction evs as [|ev evs IH]; intros ops f Hph.
  - cbn [exec]. pose proof (run_phase ops f Hph) as Hr. split; cbn [fst snd]; auto.
  - destruct (phase_inv ops f Hph) as [(ws & -> & Hf & Hcut)|[(ws & cnt & -> & Hf & Ht & Hcut)|[(-> & Hf & Ht)|(-> & Hf)]]].
    + (* creat *)
      assert (Hnext : phase (map (Write (tmp_name base)) ws ++ tail_ops) (apply_op f (Creat (tmp_name base)))).
      { apply (PhWrite ws []); [rewrite final_after_tmp_op; [exact Hf|reflexivity]|cbn [apply_op]; apply lookup_set_eq|exact Hcut]. }
      cbn [exec]. destruct ev; try (apply IH; exact Hnext); apply good_unchanged; auto; discriminate.
    + destruct ws as [|w ws].
      * (* after the last write: ftruncate (direct branch) or rename *)
        cbn [map app List.concat] in *. rewrite app_nil_r in Hcut.
        destruct (after_writes cnt f Hf Ht Hcut) as [Hf' Ht']. unfold tail_ops, after_cut in *.
        destruct trunc as [n|]; cbn [app exec].
        -- assert (Hp : phase [Rename (tmp_name base) (final_name base)] (apply_op f (Ftruncate (tmp_name base) n)))
             by (now apply PhRename).
           destruct ev; try (apply IH; exact Hp); apply good_unchanged; auto; discriminate.
        -- assert (Hd : phase [] (apply_op f (Rename (tmp_name base) (final_name base)))).
           { apply PhDone. now apply rename_publishes. }
           destruct ev; try (apply IH; exact Hd); apply good_unchanged; auto; discriminate.
      * (* a write *)
        cbn [map app List.concat] in *.
        assert (Hfull : phase (map (Write (tmp_name base)) ws ++ tail_ops) (apply_op f (Write (tmp_name base) w))).
        { apply (phase_step_write ws cnt w f Hf Ht). now rewrite <- app_assoc. }
        assert (Hpart : forall n, lookup (final_name base) (apply_op f (Write (tmp_name base) (firstn n w))) = fin0).
        { intro n. rewrite final_after_tmp_op; [exact Hf|reflexivity]. }
        cbn [exec]. destruct ev as [|n|e|n].
        -- apply IH. exact Hfull.
        -- apply good_unchanged; [apply Hpart|discriminate].
        -- rewrite Hsw. cbn [andb]. apply good_unchanged; auto; discriminate.
        -- destruct (Nat.ltb n (List.length w)) eqn:Hn; [|apply IH; exact Hfull].
           destruct (short_policy c) as [| |need] eqn:Hp; cbn [policy_ok] in Hpol.
           ++ (* retry the remainder *)
              apply IH.
              change (Write (tmp_name base) (skipn n w) :: map (Write (tmp_name base)) ws ++ tail_ops)
                with (map (Write (tmp_name base)) (skipn n w :: ws) ++ tail_ops).
              apply (PhWrite (skipn n w :: ws) (cnt ++ firstn n w)); [apply Hpart|now apply tmp_after_write|].
              cbn [List.concat]. rewrite <- app_assoc, (app_assoc (firstn n w)), firstn_skipn. exact Hcut.
           ++ contradiction.
           ++ destruct need as [m|].
              ** assert (Htr : exists size, trunc = Some size /\ (size <= m)%nat).
                 { revert Hpol. destruct trunc as [size|]; [exists size; auto|contradiction]. }
                 destruct Htr as [size [Htr Hsz]].
                 destruct (Nat.ltb n m) eqn:Hm; [apply good_unchanged; [apply Hpart|discriminate]|].
                 apply Nat.ltb_ge in Hm. apply Nat.ltb_lt in Hn. apply IH.
                 apply (PhWrite ws (cnt ++ firstn n w)); [apply Hpart|now apply tmp_after_write|].
                 rewrite Htr in *. cbn [cut] in *. rewrite <- Hcut, <- app_assoc.
                 apply firstn_short_covered; lia.
              ** rewrite Hn. apply good_unchanged; [apply Hpart|discriminate].
    + (* rename *)
      assert (Hd : phase [] (apply_op f (Rename (tmp_name base) (final_name base)))).
      { apply PhDone. now apply rename_publishes. }
      cbn [exec]. destruct ev; try (apply IH; exact Hd); apply good_unchanged; auto; discriminate.
    + cbn [exec]. split; cbn [fst snd]; auto.
Qed.
End PutRun.

Lemma flags_on : flush_errors_reported = true /\ short_write_checked = true /\ plain_policy = PRetry.
Proof. repeat split; reflexivity. Qed.

(* the translated writer: buffered file object (plain branch), checked os.write (direct branch), no swallowed flush *)
Lemma cfg_of_ok : forall trunc, cfg_ok (cfg_of trunc) trunc.
Proof.
  destruct flags_on as [Hfl [Hsw Hpl]].
  intros [size|]; unfold cfg_ok, cfg_of; cbn [short_policy swallow_last_write_error].
  - unfold direct_policy. rewrite Hsw. cbn [policy_ok]. split; [lia|reflexivity].
  - rewrite Hpl, Hfl. cbn [policy_ok negb]. split; [exact Logic.I|reflexivity].
Qed.

Lemma put_ops_phase : forall base writes trunc,
  put_ops base writes trunc
  = Creat (tmp_name base) :: map (Write (tmp_name base)) writes ++ tail_ops base trunc.
Proof.
  intros. rewrite put_ops_eq. unfold write_part, tail_ops. cbn [app]. now rewrite <- app_assoc.
Qed.

Lemma put_cfg_atomic : forall c base writes trunc meta_ok evs f, cfg_ok c trunc ->
  let r := put_chunk_cfg c base writes trunc meta_ok evs f in
  (lookup (final_name base) (snd r) = lookup (final_name base) f
   \/ lookup (final_name base) (snd r) = Some (new_content writes trunc))
  /\ (fst r = Some (Ret tt) -> lookup (final_name base) (snd r) = Some (new_content writes trunc)).
Proof.
  intros c base writes trunc meta_ok evs f Hok r. subst r. unfold put_chunk_cfg.
  destruct meta_ok; cbn [negb]; cbv iota; [|cbn [fst snd]; split; [auto|discriminate]].
  pose proof (exec_good c base trunc (new_content writes trunc) (lookup (final_name base) f) Hok evs
                        (put_ops base writes trunc) f) as H.
  rewrite put_ops_phase in *.
  assert (Hph : phase base trunc (new_content writes trunc) (lookup (final_name base) f)
                      (Creat (tmp_name base) :: map (Write (tmp_name base)) writes ++ tail_ops base trunc) f).
  { apply PhStart; [reflexivity|]. unfold new_content, cut. destruct trunc; reflexivity. }
  specialize (H Hph). unfold good in H.
  destruct (exec c evs _ f) as [[[u|e]|] f']; cbn [fst snd] in *.
  - exact H.
  - destruct H as [H _]. split; [exact H|discriminate].
  - exact H.
Qed.

Lemma put_atomic : forall base writes trunc meta_ok evs f,
  let r := put_chunk base writes trunc meta_ok evs f in
  (lookup (final_name base) (snd r) = lookup (final_name base) f
   \/ lookup (final_name base) (snd r) = Some (new_content writes trunc))
  /\ (fst r = Some (Ret tt) -> lookup (final_name base) (snd r) = Some (new_content writes trunc)).
Proof. intros. apply put_cfg_atomic, cfg_of_ok. Qed.

(* the theorem has teeth: a writer that throws the count of a short write away publishes a damaged chunk over a
   good one and reports success (this is what `open(..., buffering=0)` + unchecked f.write does) *)
Lemma ignore_policy_publishes_damage :
  let c := {| short_policy := PIgnore; swallow_last_write_error := false |} in
  let r := put_chunk_cfg c [97] [[1; 2]; [3; 4; 5]] None true [EOk; EOk; EShort 1] [(final_name [97], [9])] in
  fst r = Some (Ret tt) /\ lookup (final_name [97]) (snd r) = Some [1; 2; 3].
Proof. vm_compute. auto. Qed.

(* what the caller is told: death only by EDie, an exception only the (mapped) error of a failing call or the
   OSError of the short-write check *)
Lemma exec_outcome : forall c evs ops f,
  match fst (exec c evs ops f) with
  | None => exists n, In (EDie n) evs
  | Some (Ret _) => True
  | Some (Raise e) => In (EErr e) evs \/ e = B_OSError
  end.
Proof.
  intros c. induction evs as [|ev evs IH]; intros ops f; [exact Logic.I|].
  assert (Hrec : forall ops' f',
            match fst (exec c evs ops' f') with
            | None => exists n, In (EDie n) (ev :: evs)
            | Some (Ret _) => True
            | Some (Raise e) => In (EErr e) (ev :: evs) \/ e = B_OSError
            end).
  { intros ops' f'. specialize (IH ops' f'). destruct (fst (exec c evs ops' f')) as [[u|e]|].
    - exact Logic.I.
    - destruct IH as [H|H]; [left; now right|now right].
    - destruct IH as [n H]. exists n. now right. }
  destruct ops as [|op ops]; [cbn [exec fst]; destruct ev; try exact Logic.I; eexists; now left|]. cbn [exec].
  destruct ev as [|n|e|n].
  - apply Hrec.
  - cbn [fst]. exists n. now left.
  - destruct op; try (cbn [fst]; left; now left).
    destruct (swallow_last_write_error c && is_rename_next ops); [apply Hrec|cbn [fst]; left; now left].
  - destruct op; try apply Hrec.
    destruct (Nat.ltb n (List.length bs)); [|apply Hrec].
    destruct (short_policy c) as [| |need]; try apply Hrec.
    destruct (Nat.ltb n _); [cbn [fst]; now right|apply Hrec].
Qed.

Lemma put_outcome : forall base writes trunc evs f,
  match fst (put_chunk base writes trunc true evs f) with
  | None => exists n, In (EDie n) evs
  | Some (Ret _) => True
  | Some (Raise e') => exists e, (In (EErr e) evs \/ e = B_OSError) /\ e' = standard_errors (error_map SNpy) e
  end.
Proof.
  intros. unfold put_chunk, put_chunk_cfg. cbn [negb]. cbv iota.
  pose proof (exec_outcome (cfg_of trunc) evs (put_ops base writes trunc) f) as H.
  destruct (exec (cfg_of trunc) evs (put_ops base writes trunc) f) as [[[u|e]|] f']; cbn [fst] in *; auto.
  exists e. auto.
Qed.

(* a run whose first k calls succeed *)
Lemma exec_ok_prefix : forall c k evs ops f, (k <= List.length ops)%nat ->
  exec c (repeat EOk k ++ evs) ops f = exec c evs (skipn k ops) (run_ops (firstn k ops) f).
Proof.
  intros c. induction k as [|k IH]; intros evs ops f Hk; [reflexivity|].
  destruct ops as [|op ops]; [cbn in Hk; lia|].
  cbn [repeat app exec skipn firstn]. rewrite IH by (cbn in Hk; lia). reflexivity.
Qed.

(* a failed put is reported, never swallowed: the first failing system call k raises its mapped error *)
Lemma put_failure_reported : forall base writes trunc f k e rest,
  (k < List.length (put_ops base writes trunc))%nat ->
  fst (put_chunk base writes trunc true (repeat EOk k ++ EErr e :: rest) f)
  = Some (Raise (standard_errors (error_map SNpy) e)).
Proof.
  intros base writes trunc f k e rest Hk. unfold put_chunk, put_chunk_cfg. cbn [negb]. cbv iota.
  rewrite exec_ok_prefix by lia.
  destruct (skipn k (put_ops base writes trunc)) as [|op ops] eqn:Hs.
  { apply (f_equal (@List.length fsop)) in Hs. rewrite skipn_length in Hs. cbn [List.length] in Hs. lia. }
  cbn [exec].
  assert (Hsw : swallow_last_write_error (cfg_of trunc) = false) by apply cfg_of_ok.
  rewrite Hsw. cbn [andb]. destruct op; reflexivity.
Qed.

Lemma noraise_spec : forall base writes trunc meta_ok evs f,
  match fst (put_chunk base writes trunc meta_ok evs f) with
  | None => fst (put_chunk_noraise base writes trunc meta_ok evs f) = None
  | Some (Ret _) => fst (put_chunk_noraise base writes trunc meta_ok evs f) = Some (Ret None)
  | Some (Raise e) =>
      fst (put_chunk_noraise base writes trunc meta_ok evs f) =
      Some (if isinst e K_ChunkStoreError then Ret (Some e) else Raise e)
  end /\ snd (put_chunk_noraise base writes trunc meta_ok evs f) = snd (put_chunk base writes trunc meta_ok evs f).
Proof.
  intros. unfold put_chunk_noraise.
  destruct (put_chunk base writes trunc meta_ok evs f) as [[[u|e]|] f']; cbn [fst snd]; split; auto.
  destruct absorbed_is_notfound as [_ [_ ->]]. unfold caught. cbn [existsb]. now rewrite orb_false_r.
Qed.

(* through put_chunk_noraise: whatever happens, the final name holds the previous or the complete new chunk, and
   unless it holds the complete new chunk the caller is NOT told that the put succeeded *)
Lemma put_noraise_atomic : forall base writes trunc meta_ok evs f,
  let r := put_chunk_noraise base writes trunc meta_ok evs f in
  (lookup (final_name base) (snd r) = lookup (final_name base) f
   \/ lookup (final_name base) (snd r) = Some (new_content writes trunc))
  /\ (lookup (final_name base) (snd r) <> Some (new_content writes trunc) -> fst r <> Some (Ret None)).
Proof.
  intros base writes trunc meta_ok evs f r. subst r.
  pose proof (put_atomic base writes trunc meta_ok evs f) as [H1 H2].
  pose proof (noraise_spec base writes trunc meta_ok evs f) as [H3 H4]. cbv zeta in *.
  rewrite H4. split; [exact H1|]. intros Hne Hrep.
  destruct (fst (put_chunk base writes trunc meta_ok evs f)) as [[[]|e]|] eqn:E.
  - apply Hne, H2. reflexivity.
  - rewrite H3 in Hrep. destruct (isinst e K_ChunkStoreError); discriminate.
  - rewrite H3 in Hrep. discriminate.
Qed.

(* every OS-level error of the put is handed back as a ChunkStoreError object *)
Lemma oserror_is_returned : forall e, isinst e B_OSError = true ->
  isinst (standard_errors (error_map SNpy) e) K_ChunkStoreError = true.
Proof.
  intros e H.
  assert (B : implb (isinst e B_OSError) (isinst (standard_errors (error_map SNpy) e) K_ChunkStoreError) = true).
  { revert e H. intros e _. revert e. apply sweep. vm_compute. reflexivity. }
  now rewrite H in B.
Qed.

(* the temp name is never a name a reader asks for: chunk names end in a digit, '_' or '/' *)
Definition reader_base (b : name) : Prop :=
  forall c, last b 0 = c -> b <> [] -> ((48 <= c <= 57) \/ c = 95 \/ c = 47).

Lemma last_app_nonempty : forall (a b : name) d, b <> [] -> last (a ++ b) d = last b d.
Proof.
  induction a; intros b d Hb; simpl; auto.
  destruct (a0 ++ b) eqn:E.
  - apply app_eq_nil in E. destruct E; contradiction.
  - rewrite <- E. now apply IHa.
Qed.

Lemma tmp_never_read : forall b1 b2, reader_base b2 -> tmp_name b1 <> read_name b2.
Proof.
  intros b1 b2 Hr Heq. unfold tmp_name, read_name in Heq.
  assert (Ht : tmp_suffix = [46; 119; 114; 105; 116; 105; 110; 103] ++ read_suffix) by reflexivity.
  rewrite Ht, app_assoc in Heq. apply app_inv_tail in Heq.
  assert (Hne : b2 <> []).
  { intro Hc. rewrite Hc in Heq. apply app_eq_nil in Heq. destruct Heq as [_ Heq]. discriminate. }
  specialize (Hr (last b2 0) eq_refl Hne). rewrite <- Heq in Hr.
  rewrite last_app_nonempty in Hr by discriminate. simpl in Hr. lia.
Qed.
