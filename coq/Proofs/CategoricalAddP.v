From Coq Require Import ZArith List Bool Arith Lia.
From KV Require Import Base.Sx Model.Categorical Proofs.CategoricalP.
Import ListNotations.
Open Scope nat_scope.

Lemma nth_error_skipn_hd {A} (l : list A) : forall k x, nth_error l k = Some x -> skipn k l = x :: skipn (S k) l.
Proof. induction l as [|a l IH]; intros [|k] x H; simpl in *; try discriminate. congruence. apply IH; auto. Qed.

Lemma skipn_S_tl {A} k : forall l : list A, skipn (S k) l = tl (skipn k l).
Proof. induction k; intros [|a l]; try reflexivity. change (skipn (S (S k)) (a :: l)) with (skipn (S k) l). rewrite IHk. reflexivity. Qed.

Lemma last_app' {A} (l1 l2 : list A) d : l2 <> [] -> last (l1 ++ l2) d = last l2 d.
Proof. intros H. induction l1 as [|a l1 IH]; auto. cbn [app]. rewrite last_cons. destruct l1 as [|b l1].
  - simpl. destruct l2; [congruence|]. rewrite last_cons. symmetry. apply last_cons.
  - rewrite <- IH. cbn [app]. rewrite !last_cons. reflexivity. Qed.

Lemma Forall_last {A} (P : A -> Prop) l d : P d -> Forall P l -> P (last l d).
Proof. intros Hd H. induction H; simpl; auto. destruct l; auto. Qed.

Lemma incr_cons_inv s r : incr (s :: r) -> chain lt s r.
Proof. auto. Qed.

Lemma count_le_split L R e : Forall (fun x => x < e) L -> Forall (fun x => e < x) R -> count_le (L ++ R) e = length L.
Proof. intros. rewrite count_le_app, (count_le_zero R) by auto. rewrite count_le_all. lia.
  eapply Forall_impl; [|exact H]. simpl; intros; lia. Qed.

Lemma expand_evs_split3 {A} L x y R2 (V1 : list A) w V2 : length V1 = length L ->
  expand_evs (L ++ x :: y :: R2) (V1 ++ w :: V2) = expand_evs (L ++ [x]) V1 ++ repeat w (y - x) ++ expand_evs (y :: R2) V2.
Proof.
  intros H. destruct L as [|s L1].
  - destruct V1; simpl in H; try discriminate. reflexivity.
  - cbn [app expand_evs]. rewrite expand_ev_app by auto. reflexivity.
Qed.

Lemma expand_evs_prefix_length {A} L x (V1 : list A) : incr (L ++ [x]) -> length V1 = length L ->
  length (expand_evs (L ++ [x]) V1) = x - hd 0 (L ++ [x]).
Proof.
  intros I H. destruct L as [|s L1].
  - destruct V1; simpl in H; try discriminate. simpl. lia.
  - cbn [app expand_evs hd]. rewrite expand_ev_length.
    + rewrite last_last. reflexivity.
    + apply chain_lt_le. exact I.
    + rewrite app_length. simpl in *. lia.
Qed.

Lemma incr_app_inv L R : incr (L ++ R) -> incr L /\ incr R.
Proof.
  intros H. split.
  - replace L with (firstn (length L) (L ++ R)). apply incr_firstn; auto.
    rewrite firstn_app, Nat.sub_diag, firstn_all. simpl. apply app_nil_r.
  - replace R with (skipn (length L) (L ++ R)). apply incr_skipn; auto.
    rewrite skipn_app, Nat.sub_diag, skipn_all. reflexivity.
Qed.

(* inserting e between the elements < e and the elements > e keeps the list strictly increasing *)
Lemma incr_insert L R e : incr (L ++ R) -> Forall (fun x => x < e) L -> Forall (fun x => e < x) R -> incr (L ++ e :: R).
Proof.
  intros I HL HR. destruct L as [|s L1].
  - simpl in *. destruct R as [|x R']; simpl; auto. inversion HR; subst. split; auto.
  - cbn [app incr] in *. apply chain_app in I. destruct I as [I1 I2]. apply chain_app. split; auto.
    cbn [chain]. split. apply (Forall_last (fun x => x < e)); inversion HL; auto.
    destruct R as [|x R']; simpl; auto. inversion HR; subst. simpl in I2. tauto.
Qed.

Section AddList.
Context {A : Type} (d : A).

Lemma add_list_decomp ev (vs : list A) e v x :
  incr ev -> length ev = S (length vs) -> hd 0 ev <= e -> e < last ev 0 ->
  nth_error ev (count_lt ev e) = Some x ->
  let k := count_lt ev e in
  let after := if x =? e then S k else k in
  let ev' := firstn k ev ++ [e] ++ skipn after ev in
  let vs' := firstn k vs ++ [v] ++ skipn after vs in
  exists P Q w nx,
    expand_evs ev vs = P ++ repeat w (nx - e) ++ Q /\
    expand_evs ev' vs' = P ++ repeat v (nx - e) ++ Q /\
    length P = e - hd 0 ev /\ e < nx /\ nx = next_event ev e /\
    w = nth (count_le ev e - 1) vs d /\
    incr ev' /\ last ev' 0 = last ev 0 /\ length ev' = S (length vs') /\ hd 0 ev' = hd 0 ev /\
    (forall y, In y ev' <-> y = e \/ In y ev).
Proof.
  intros I Len Hs HN Hx k after ev' vs'.
  destruct (split_count_lt ev e I) as [HL HR]. fold k in HL, HR.
  assert (Hk : k < length ev) by (apply nth_error_Some; unfold k; rewrite Hx; discriminate).
  pose proof (nth_error_skipn_hd ev k x Hx) as ER. fold k in ER.
  pose proof (firstn_skipn k ev) as EV. set (L := firstn k ev) in *. set (R' := skipn (S k) ev) in *.
  rewrite ER in EV, HR.
  assert (LL : length L = k) by (apply firstn_length_le; lia).
  pose proof (firstn_skipn k vs) as EVS. set (V1 := firstn k vs) in *.
  assert (LV1 : length V1 = k) by (apply firstn_length_le; lia).
  assert (Iev : incr (L ++ x :: R')) by (rewrite EV; auto).
  pose proof (Forall_inv HR) as Hxe. pose proof (Forall_inv_tail HR) as HR'. simpl in Hxe.
  assert (HR'' : Forall (fun y => x < y) R').
  { apply incr_app_inv in Iev. destruct Iev as [_ I2]. apply chain_lt_Forall. exact I2. }
  destruct (Nat.eqb_spec x e) as [->|Hne].
  - (* override an existing event *)
    subst after. 
    assert (EV' : ev' = ev). { unfold ev'. fold L. fold R'. simpl. auto. }
    destruct R' as [|y R2] eqn:ER'.
    { exfalso. rewrite <- EV in HN. rewrite last_last in HN. lia. }
    assert (LV2 : length (skipn k vs) = length (y :: R2)).
    { rewrite skipn_length. rewrite <- EV in Len. rewrite app_length in Len. cbn [length] in Len |- *. lia. }
    destruct (skipn k vs) as [|w V2] eqn:EV2; [simpl in LV2; lia|].
    assert (EV2' : skipn (S k) vs = V2).
    { rewrite skipn_S_tl, EV2. reflexivity. }
    exists (expand_evs (L ++ [e]) V1), (expand_evs (y :: R2) V2), w, y.
    assert (Hy : e < y) by (inversion HR''; auto).
    split. { rewrite <- EV, <- EVS. apply expand_evs_split3. lia. }
    split. { unfold vs'. rewrite EV2'. fold V1. rewrite EV', <- EV. apply (expand_evs_split3 L e y R2 V1 v V2). lia. }
    split. { rewrite expand_evs_prefix_length; [|apply (incr_app_inv (L ++ [e]) (y :: R2));
               rewrite <- app_assoc; exact Iev | lia].
             rewrite <- EV. destruct L; reflexivity. }
    split; [exact Hy|].
    assert (CL : count_le ev e = S k).
    { rewrite <- EV. replace (L ++ e :: y :: R2) with ((L ++ [e]) ++ y :: R2) by (rewrite <- app_assoc; auto).
      rewrite count_le_app, (count_le_zero (y :: R2)) by auto. rewrite count_le_all.
      rewrite app_length; simpl; lia. apply Forall_app; split.
      eapply Forall_impl; [|exact HL]; simpl; intros; lia. constructor; auto. }
    split. { unfold next_event. rewrite CL. rewrite <- EV.
             replace (L ++ e :: y :: R2) with ((L ++ [e]) ++ y :: R2) by (rewrite <- app_assoc; auto).
             replace (S k) with (length (L ++ [e])) by (rewrite app_length; simpl; lia). symmetry. apply nth_middle. }
    split. { rewrite CL. simpl. rewrite Nat.sub_0_r. rewrite <- EVS. rewrite <- LV1. symmetry. apply nth_middle. }
    split. { rewrite EV'; auto. }
    split. { rewrite EV'; auto. }
    split. { rewrite EV'. unfold vs'. rewrite EV2'. fold V1. rewrite !app_length. simpl.
             rewrite Len, <- EVS, app_length. simpl. lia. }
    split. { rewrite EV'; auto. }
    intros z. rewrite EV'. split; auto. intros [->|]; auto. rewrite <- EV. apply in_or_app. right; left; auto.
  - (* insert a new event *)
    assert (Hlt : e < x) by lia. subst after.
    assert (EV' : ev' = L ++ e :: x :: R'). { unfold ev'. fold L. rewrite ER. reflexivity. }
    destruct L as [|s L1] eqn:EL.
    { exfalso. rewrite <- EV in Hs. simpl in Hs. lia. }
    assert (LV1' : V1 <> []) by (intro Z; rewrite Z in LV1; simpl in *; lia).
    destruct (exists_last LV1') as (V0 & w & EV1).
    assert (LV0 : length V0 = length L1).
    { rewrite EV1, app_length in LV1. simpl in *. lia. }
    set (V2 := skipn k vs) in *.
    assert (Cs : chain lt s (L1 ++ x :: R')) by exact Iev.
    apply chain_app in Cs. destruct Cs as [Cs1 Cs2].
    assert (Hl : last L1 s < e). { apply (Forall_last (fun y => y < e)); inversion HL; auto. }
    exists (expand_ev s (L1 ++ [e]) V1), (expand_ev x R' V2), w, x.
    split. { rewrite <- EV, <- EVS. cbn [app expand_evs]. rewrite expand_ev_app by (simpl in *; lia).
             rewrite EV1. rewrite (expand_ev_trunc L1 s e x V0 w) by (auto; lia). rewrite <- app_assoc. reflexivity. }
    split. { rewrite EV'. unfold vs'. fold V1. fold V2. cbn [app expand_evs]. rewrite expand_ev_app by (simpl in *; lia).
             reflexivity. }
    split. { rewrite expand_ev_length. rewrite last_last. rewrite <- EV. reflexivity.
             apply chain_lt_le. apply chain_app. split; auto. simpl. auto.
             rewrite app_length. simpl in *. lia. }
    split; [exact Hlt|].
    assert (CL : count_le ev e = k).
    { rewrite <- EV. rewrite count_le_split; auto. constructor; auto. eapply Forall_impl; [|exact HR'']. simpl; intros; lia. }
    split. { unfold next_event. rewrite CL, <- EV, <- LL. symmetry. apply nth_middle. }
    split. { rewrite CL, <- EVS. fold V2. rewrite EV1. rewrite <- app_assoc. simpl app.
             replace (k - 1) with (length V0) by (simpl in *; lia). symmetry. apply nth_middle. }
    split. { rewrite EV'. apply incr_insert; auto. constructor; auto. eapply Forall_impl; [|exact HR'']. simpl; intros; lia. }
    split. { rewrite EV', <- EV. rewrite !last_app' by discriminate.
             change (e :: x :: R') with ([e] ++ x :: R'). rewrite last_app' by discriminate. reflexivity. }
    split. { rewrite EV'. unfold vs'. fold V1 V2. rewrite <- EV, <- EVS in Len. fold V2 in Len.
             rewrite !app_length in Len |- *. cbn [app length] in Len |- *. lia. }
    split. { rewrite EV', <- EV. reflexivity. }
    intros z. rewrite EV', <- EV. rewrite !in_app_iff. simpl. intuition congruence.
Qed.
End AddList.

Lemma NoDup_snoc {A} (l : list A) v : NoDup l -> ~ In v l -> NoDup (l ++ [v]).
Proof. induction 1; intros H1; simpl. constructor; auto. constructor.
  constructor. rewrite in_app_iff. simpl in *. intuition. apply IHNoDup. simpl in H1; tauto. Qed.

Lemma Forall_firstn' {A} (P : A -> Prop) k : forall l, Forall P l -> Forall P (firstn k l).
Proof. induction k; intros l H; simpl. constructor. destruct H; constructor; auto. Qed.
Lemma Forall_skipn' {A} (P : A -> Prop) k : forall l, Forall P l -> Forall P (skipn k l).
Proof. induction k; intros l H; simpl; auto. destruct H; auto. Qed.

Lemma count_lt_lt_length ev e : incr ev -> ev <> [] -> e < last ev 0 -> count_lt ev e < length ev.
Proof.
  intros I NE H. destruct (split_count_lt ev e I) as [HL _].
  assert (count_lt ev e <= length ev). { unfold count_lt. clear. induction ev; simpl; auto. destruct (a <? e); simpl; lia. }
  destruct (Nat.eq_dec (count_lt ev e) (length ev)) as [E|]; [|lia].
  rewrite E, firstn_all in HL. exfalso.
  assert (last ev 0 < e). { destruct ev as [|s r]; [congruence|]. rewrite last_cons.
    apply (Forall_last (fun y => y < e)); inversion HL; auto. }
  lia.
Qed.

Section AddP.
Context {V : Type} (veqb : V -> V -> bool) (dflt : V).
Context (veqb_spec : forall a b, veqb a b = true <-> a = b).
Notation cdV := (@cd V).

Lemma idx_of_some l v : forall i, index_of veqb v l = Some i -> i < length l /\ nth i l dflt = v.
Proof.
  induction l as [|x l IH]; simpl; intros i H; [discriminate|].
  destruct (veqb x v) eqn:E.
  - inversion H; subst. split; [lia|]. apply veqb_spec; auto.
  - destruct (index_of veqb v l) as [j|]; [|discriminate]. inversion H; subst. destruct (IH j eq_refl). split; [lia|auto].
Qed.
Lemma idx_of_none l v : index_of veqb v l = None -> ~ In v l.
Proof.
  induction l as [|x l IH]; simpl; intros H; [tauto|].
  destruct (veqb x v) eqn:E; [discriminate|]. destruct (index_of veqb v l); [discriminate|].
  intros [->|H1]. - assert (veqb v v = true) by (apply veqb_spec; auto). congruence. - apply IH; auto.
Qed.

(* the common part of add: replace / insert an event whose index vi denotes the value v in uv' *)
Lemma add_core (c : cdV) e vi uv' v x :
  WF c -> hd 0 (ev c) <= e -> e < ndumps c ->
  nth_error (ev c) (count_lt (ev c) e) = Some x ->
  (forall i, i < length (uv c) -> nth i uv' dflt = nth i (uv c) dflt) ->
  length (uv c) <= length uv' -> vi < length uv' -> nth vi uv' dflt = v -> NoDup uv' ->
  let k := count_lt (ev c) e in
  let after := if x =? e then S k else k in
  let c' := mk uv' (firstn k (idx c) ++ [vi] ++ skipn after (idx c)) (firstn k (ev c) ++ [e] ++ skipn after (ev c)) in
  WF c' /\ ndumps c' = ndumps c /\ hd 0 (ev c') = hd 0 (ev c) /\
  (forall y, In y (ev c') <-> y = e \/ In y (ev c)) /\
  exists P Q w nx,
    expand dflt c = P ++ repeat w (nx - e) ++ Q /\ expand dflt c' = P ++ repeat v (nx - e) ++ Q /\
    length P = e - hd 0 (ev c) /\ e < nx /\ nx = next_event (ev c) e /\
    w = nth (count_le (ev c) e - 1) (vals dflt c) dflt.
Proof.
  intros W Hs HN Hx Ha Hlen Hvi Hv ND k after c'.
  destruct W as (W1 & W2 & W3 & W4).
  assert (VL : length (ev c) = S (length (vals dflt c))) by (rewrite vals_length; auto).
  destruct (add_list_decomp dflt (ev c) (vals dflt c) e v x W1 VL Hs HN Hx)
    as (P & Q & w & nx & E1 & E2 & E3 & E4 & E5 & E6 & E7 & E8 & E9 & E10 & E11).
  fold k in E2, E7, E8, E9, E10, E11. fold after in E2, E7, E8, E9, E10, E11.
  assert (VE : vals dflt c' = firstn k (vals dflt c) ++ [v] ++ skipn after (vals dflt c)).
  { unfold vals at 1. unfold c'. cbn [uv idx]. rewrite !map_app. cbn [map]. rewrite Hv.
    assert (M : forall l, Forall (fun i => i < length (uv c)) l ->
                map (fun i => nth i uv' dflt) l = map (fun i => nth i (uv c) dflt) l).
    { intros l F. apply map_ext_in. intros i Hi. rewrite Forall_forall in F. apply Ha. apply F; auto. }
    rewrite !M by (try apply Forall_firstn'; try apply Forall_skipn'; auto).
    unfold vals. rewrite firstn_map, skipn_map. reflexivity. }
  split.
  { unfold WF, c'. cbn [uv idx ev]. split; [exact E7|]. split.
    - rewrite E9. f_equal. rewrite <- VE. rewrite vals_length. reflexivity.
    - split; auto. apply Forall_app; split; [|apply Forall_app; split].
      + apply Forall_firstn'. eapply Forall_impl; [|exact W3]. simpl; intros; lia.
      + constructor; auto.
      + apply Forall_skipn'. eapply Forall_impl; [|exact W3]. simpl; intros; lia. }
  split; [exact E8|]. split; [exact E10|]. split; [exact E11|].
  exists P, Q, w, nx. unfold expand at 2. unfold c' at 1. cbn [ev]. rewrite VE.
  repeat split; auto.
Qed.

Lemma firstn_repeat_app {A} (P R : list A) n : length P = n -> firstn n (P ++ R) = P.
Proof. intros <-. rewrite firstn_app, Nat.sub_diag, firstn_all. simpl. apply app_nil_r. Qed.
Lemma skipn_repeat_app {A} (P R : list A) n : length P = n -> skipn n (P ++ R) = R.
Proof. intros <-. rewrite skipn_app, Nat.sub_diag, skipn_all. reflexivity. Qed.

(* add with a value: WF is kept, the series still ends at N, and the per-dump list is overridden from the
   event up to the next existing event *)
Lemma add_value_spec (c : cdV) e v : WF c -> e < ndumps c ->
  exists c', add veqb c e (Some v) = Some c' /\ WF c' /\ ndumps c' = ndumps c /\
    hd 0 (ev c') = Nat.min e (hd 0 (ev c)) /\
    (forall y, In y (ev c') <-> y = e \/ In y (ev c)) /\
    expand dflt c' = spec_add (expand dflt c) (ev c) e (Some v).
Proof.
  intros W HN.
  destruct (WF_inv c W) as (s & r & E & C & L & F & ND).
  assert (NE : ev c <> []) by (rewrite E; discriminate).
  assert (I : incr (ev c)) by (destruct W; auto).
  pose proof (count_lt_lt_length (ev c) e I NE HN) as K.
  destruct (nth_error (ev c) (count_lt (ev c) e)) as [x|] eqn:Hx; [|apply nth_error_None in Hx; lia].
  (* the value index *)
  assert (exists uv' vi, (match index_of veqb v (uv c) with
                          | Some i => (uv c, Some i) | None => (uv c ++ [v], Some (length (uv c))) end) = (uv', Some vi)
          /\ (forall i, i < length (uv c) -> nth i uv' dflt = nth i (uv c) dflt)
          /\ length (uv c) <= length uv' /\ vi < length uv' /\ nth vi uv' dflt = v /\ NoDup uv') as (uv' & vi & EQ & Ha & Hl & Hvi & Hv & ND').
  { destruct (index_of veqb v (uv c)) as [i|] eqn:EI.
    - destruct (idx_of_some _ _ _ EI). exists (uv c), i. repeat split; auto.
    - apply idx_of_none in EI. exists (uv c ++ [v]), (length (uv c)). repeat split.
      + intros. apply app_nth1; auto.
      + rewrite app_length; simpl; lia.
      + rewrite app_length; simpl; lia.
      + apply nth_middle.
      + apply NoDup_snoc; auto. }
  unfold add. rewrite EQ, Hx.
  eexists. split; [reflexivity|].
  destruct (Nat.le_gt_cases (hd 0 (ev c)) e) as [Hs|Hs].
  - destruct (add_core c e vi uv' v x W Hs HN Hx Ha Hl Hvi Hv ND') as (A1 & A2 & A3 & A4 & P & Q & w & nx & B1 & B2 & B3 & B4 & B5 & B6).
    split; [exact A1|]. split; [exact A2|]. split; [rewrite A3; lia|]. split; [exact A4|].
    rewrite B2. unfold spec_add. rewrite <- B5. destruct (Nat.ltb_spec e (hd 0 (ev c))); [lia|].
    rewrite B1. rewrite firstn_repeat_app by auto. f_equal. f_equal.
    rewrite app_assoc. rewrite skipn_repeat_app; auto. rewrite app_length, repeat_length. lia.
  - (* new event before the first one *)
    rewrite E in *. simpl hd in *.
    assert (K0 : count_lt (s :: r) e = 0).
    { apply count_lt_zero. constructor. lia. apply chain_lt_Forall in C. eapply Forall_impl; [|exact C]. simpl; intros; lia. }
    rewrite K0 in Hx |- *. simpl in Hx. inversion Hx; subst x. destruct (Nat.eqb_spec s e); [lia|].
    cbn [firstn skipn app].
    split.
    { unfold WF. cbn [uv idx ev]. split; [simpl; split; auto|]. split; [simpl; lia|]. split; auto.
      constructor; auto. eapply Forall_impl; [|exact F]. simpl; intros; lia. }
    split. { unfold ndumps. cbn [ev]. rewrite E. rewrite !last_cons. reflexivity. }
    split. { simpl. lia. }
    split. { intros y. simpl. intuition congruence. }
    unfold spec_add. simpl hd. destruct (Nat.ltb_spec e s); [|lia].
    unfold expand. cbn [ev expand_evs]. rewrite E. cbn [expand_evs]. unfold vals at 1. cbn [uv idx map]. rewrite Hv.
    cbn [expand_ev]. f_equal. f_equal. unfold vals. apply map_ext_in. intros i Hi. rewrite Forall_forall in F. apply Ha, F; auto.
Qed.

(* add without a value (a duplicate event): only a boundary is added *)
Lemma add_novalue_spec (c c' : cdV) e : WF c -> add veqb c e None = Some c' ->
  WF c' /\ ndumps c' = ndumps c /\ hd 0 (ev c') = hd 0 (ev c) /\ uv c' = uv c /\
  (forall y, In y (ev c') <-> y = e \/ In y (ev c)) /\
  expand dflt c' = expand dflt c.
Proof.
  intros W H. unfold add in H.
  destruct (lookup c e) as [vi|] eqn:LK; [|discriminate].
  assert (R : hd 0 (ev c) <= e /\ e < ndumps c).
  { destruct (Nat.le_gt_cases (hd 0 (ev c)) e); [destruct (Nat.lt_ge_cases e (ndumps c)); auto|];
    rewrite (lookup_none c e W) in LK by auto; discriminate. }
  destruct R as [Hs HN].
  destruct (nth_error (ev c) (count_lt (ev c) e)) as [x|] eqn:Hx; [|discriminate].
  inversion H; subst c'; clear H.
  destruct (WF_inv c W) as (s & r & E & C & L & F & ND).
  (* the looked-up index *)
  assert (LV : vi < length (uv c) /\ nth vi (uv c) dflt = nth (count_le (ev c) e - 1) (vals dflt c) dflt).
  { unfold lookup in LK.
    destruct ((count_le (ev c) e =? 0) || (length (idx c) <=? count_le (ev c) e - 1)) eqn:G; [discriminate|].
    apply orb_false_iff in G. destruct G as [_ G]. apply Nat.leb_gt in G.
    rewrite nth_vals by auto. apply nth_error_nth with (d := 0) in LK. rewrite LK. split; auto.
    rewrite Forall_forall in F. apply F. rewrite <- LK. apply nth_In; auto. }
  destruct LV as [LV1 LV2].
  destruct (add_core c e vi (uv c) (nth vi (uv c) dflt) x W Hs HN Hx (fun _ _ => eq_refl) (le_n _) LV1 eq_refl ND)
    as (A1 & A2 & A3 & A4 & P & Q & w & nx & B1 & B2 & B3 & B4 & B5 & B6).
  split; [exact A1|]. split; [exact A2|]. split; [exact A3|]. split; [reflexivity|]. split; [exact A4|].
  transitivity (P ++ repeat (nth vi (uv c) dflt) (nx - e) ++ Q); [exact B2|]. rewrite B1, B6, LV2. reflexivity.
Qed.

(* add_unmatched: only boundaries are added; the per-dump list is unchanged *)
Lemma add_unmatched_spec (c : cdV) segs dist : WF c ->
  let c' := add_unmatched veqb c segs dist in
  WF c' /\ ndumps c' = ndumps c /\ hd 0 (ev c') = hd 0 (ev c) /\ uv c' = uv c /\
  (forall y, In y (ev c) -> In y (ev c')) /\ (forall y, In y (ev c') -> In y (ev c) \/ In y segs) /\
  expand dflt c' = expand dflt c.
Proof.
  intros W. cbv zeta. unfold add_unmatched.
  set (um := filter (fun s => dist <? list_min (map (absd s) (ev c))) segs).
  assert (IU : forall y, In y um -> In y segs) by (intros y Hy; apply filter_In in Hy; tauto).
  clearbody um. revert c W IU. induction um as [|s um IH]; intros c W IU; cbn [fold_left].
  - split; [exact W|]. repeat split; auto.
  - destruct (add veqb c s None) as [c1|] eqn:A.
    + destruct (add_novalue_spec c c1 s W A) as (W1 & N1 & H1 & U1 & I1 & X1).
      destruct (IH c1 W1) as (W2 & N2 & H2 & U2 & I2 & I3 & X2). { intros; apply IU; right; auto. }
      split; [exact W2|]. split; [congruence|]. split; [congruence|]. split; [congruence|].
      split. { intros y Hy. apply I2. apply I1. auto. }
      split. { intros y Hy. apply I3 in Hy. destruct Hy as [Hy|Hy]; auto. apply I1 in Hy. destruct Hy as [->|Hy]; auto.
               right. apply IU. left; auto. }
      congruence.
    + apply IH; auto. intros; apply IU; right; auto.
Qed.

End AddP.
