(* C15, round 3: concrete instances (non-vacuity) for the Van Vleck table construction and the flag bytes. *)
From Coq Require Import ZArith QArith Qcanon List Bool Arith Lia.
From KV Require Import Base.Sx Gen.Generated Model.Interp Model.Weights Model.VanVleckTable Model.Averager
  Model.AveragerApi Model.AveragerFlags Proofs.VanVleckTableP Proofs.AveragerFlagsP.
Import ListNotations.
Local Open Scope Q_scope.

(* a healthy miniature: three grid powers, their expected quantised powers, sxx_max = 16 *)
Definition ex_grid : list Q := [1 # 4; 1; 9].
Definition ex_mean : list Q := [1 # 8; 1; 8].
Example ex_numerics_ok : vv_numerics_ok ex_grid ex_mean 16.
Proof. unfold vv_numerics_ok, ex_grid, ex_mean. cbn. repeat split; try reflexivity; discriminate. Qed.
Example ex_table : vv_table ex_grid ex_mean 16 = [(2 * 0, 2 * 0); (2 * (1 # 8), 2 * (1 # 4)); (2 * 1, 2 * 1); (2 * 8, 2 * 9); (2 * 16, 2 * 9)].
Proof. reflexivity. Qed.
Example ex_table_ok : table_ok_b (vv_table ex_grid ex_mean 16) = true.
Proof. vm_compute. reflexivity. Qed.
Example ex_vv_zero : vv_interp (vv_table ex_grid ex_mean 16) (Fin 0%Qc) = Fin 0%Qc.
Proof. apply vv_katdal_zero; reflexivity. Qed.
Example ex_vv_mid : vv_interp (vv_table ex_grid ex_mean 16) (Fin (Q2Qc (1 # 8))) = Fin (Q2Qc (1 # 4)).
Proof. cbn [vv_interp]. apply f_equal. apply Qc_is_canon. vm_compute. reflexivity. Qed.
Example ex_vv_clipped : vv_interp (vv_table ex_grid ex_mean 16) (Fin (Q2Qc 100)) = Fin (Q2Qc 18).
Proof. cbn [vv_interp]. apply f_equal. apply Qc_is_canon. vm_compute. reflexivity. Qed.

(* the grid extended downwards: the first two expected quantised powers underflow to 0 *)
Definition ex_grid_low : list Q := [1 # 64; 1 # 16; 1 # 4; 1; 9].
Definition ex_mean_low : list Q := [0; 0; 1 # 8; 1; 8].
Example ex_underflow_not_ok : table_ok_b (vv_table ex_grid_low ex_mean_low 16) = false.
Proof. vm_compute. reflexivity. Qed.
Example ex_underflow_first_bad :
  first_bad (fun a b => Qlt_b (fst a) (fst b)) (vv_table ex_grid_low ex_mean_low 16) 0 = 0%Z.
Proof. vm_compute. reflexivity. Qed.
(* np.interp takes the LAST zero abscissa: VV(0) = 2 * 1/16, a made-up power for a dead input *)
Example ex_underflow_vv_zero : vv_interp (vv_table ex_grid_low ex_mean_low 16) (Fin 0%Qc) = Fin (Q2Qc (1 # 8)).
Proof. cbn [vv_interp]. apply f_equal. apply Qc_is_canon. vm_compute. reflexivity. Qed.
(* ... and everything from the first non-zero abscissa upwards is as before *)
Example ex_underflow_rest_same :
  vv_interp (vv_table ex_grid_low ex_mean_low 16) (Fin (Q2Qc 2)) = vv_interp (vv_table ex_grid ex_mean 16) (Fin (Q2Qc 2)).
Proof. cbn [vv_interp]. apply f_equal. apply Qc_is_canon. vm_compute. reflexivity. Qed.

(* size 4000: 2000 + 1998 grid points, 4000 table entries; size 2 is refused (negative count) *)
Example ex_size_default : vv_table_size vv_default_size = Some 4000%Z /\ vv_table_size 2 = None /\ vv_table_size 3 = Some 3%Z.
Proof. repeat split; vm_compute; reflexivity. Qed.
Example ex_exponents_len : List.length (vv_grid_exponents 10 4) = 8%nat.
Proof. vm_compute. reflexivity. Qed.

(* ---- flag bytes: a 1 x 2 x 1 array, flags backed by 16 (ingest_rfi) and 0, one bin *)
Close Scope Q_scope.
Definition ex_bytes : arr3 bsample := [[[((Q2Qc 3, 0%Qc), Q2Qc 2, 16%Z)]; [((Q2Qc 5, 0%Qc), Q2Qc 4, 0%Z)]]].
(* results shown in the wire form ((num den) (num den) (num den) flag) *)
Example ex_bytes_avg : option_map (of_arr3 of_sample) (average_bytes ex_bytes 1 2 1 1 2 false) =
  Some (L [L [L [L [L [I 5; I 1]; L [I 0; I 1]; L [I 4; I 1]; I 0]]]]).
Proof. vm_compute. reflexivity. Qed.
(* selecting only bit 0 (reserved0): the byte 16 is no longer a flag, both samples count: (3*2 + 5*4) / 6 *)
Example ex_bytes_v4_unselected : option_map (of_arr3 of_sample) (average_bytes (v4_deliver 1 ex_bytes) 1 2 1 1 2 false) =
  Some (L [L [L [L [L [I 13; I 3]; L [I 0; I 1]; L [I 6; I 1]; I 0]]]]).
Proof. vm_compute. reflexivity. Qed.
Example ex_bytes_recode : average_bytes (recode (fun b => (b * 5)%Z) ex_bytes) 1 2 1 1 2 true = average_bytes ex_bytes 1 2 1 1 2 true.
Proof. apply average_bytes_truth_only. intro b. lia. Qed.
