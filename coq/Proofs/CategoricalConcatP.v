(* C11: concatenate_categorical / unique_in_order / CategoricalData.__init__ : proofs about the model in
   Model/Categorical.v.  Self-contained (stdlib + Base.Sx + Model.Categorical only). *)
From Coq Require Import ZArith List Bool Arith Lia.
From KV Require Import Base.Sx Model.Categorical.
Import ListNotations.
Open Scope nat_scope.

(* ---------- generic list / chain / expand_ev helpers (prefixed cc_ to avoid clashes) ---------- *)
Lemma cc_last_cons {A} : forall (l : list A) a d, last (a :: l) d = last l a.
Proof.
  induction l as [|b l IH]; intros a d; [reflexivity|].
  change (last (a :: b :: l) d) with (last (b :: l) d).
  rewrite !IH. reflexivity.
Qed.

Lemma cc_chain_app (R : nat -> nat -> Prop) : forall r1 s r2,
  chain R s (r1 ++ r2) <-> chain R s r1 /\ chain R (last r1 s) r2.
Proof.
  induction r1 as [|a r1 IH]; intros s r2.
  - simpl. tauto.
  - rewrite cc_last_cons. simpl. rewrite IH. tauto.
Qed.

(* shifting all events by a constant does not change the expansion *)
Lemma cc_expand_ev_shift {A} : forall off r s (vs : list A),
  expand_ev (off + s) (map (Nat.add off) r) vs = expand_ev s r vs.
Proof.
  induction r as [|e r IH]; intros s vs; simpl; [reflexivity|].
  destruct vs as [|v vs]; [reflexivity|].
  rewrite IH. replace (off + e - (off + s)) with (e - s) by lia. reflexivity.
Qed.

Lemma cc_expand_ev_app {A} : forall r1 r2 (v1 v2 : list A) s, length r1 = length v1 ->
  expand_ev s (r1 ++ r2) (v1 ++ v2) = expand_ev s r1 v1 ++ expand_ev (last (s :: r1) s) r2 v2.
Proof.
  induction r1 as [|a r1 IH]; intros r2 v1 v2 s Hl.
  - destruct v1; [reflexivity|discriminate].
  - destruct v1 as [|v v1]; [discriminate|]. simpl in Hl. injection Hl as Hl.
    change (expand_ev s ((a :: r1) ++ r2) ((v :: v1) ++ v2))
      with (repeat v (a - s) ++ expand_ev a (r1 ++ r2) (v1 ++ v2)).
    change (expand_ev s (a :: r1) (v :: v1)) with (repeat v (a - s) ++ expand_ev a r1 v1).
    rewrite (IH r2 v1 v2 a Hl), <- app_assoc.
    rewrite !cc_last_cons. reflexivity.
Qed.

(* gluing: the last value of a block holds until the first event of what follows, provided what follows
   "starts at m" in the sense of the hypothesis *)
Lemma cc_expand_ev_glue {A} : forall (r1 : list nat) s (v : A) vs1 E rest m Z,
  length vs1 = length r1 ->
  (forall s' v0, expand_ev s' E (v0 :: rest) = repeat v0 (m - s') ++ Z) ->
  expand_ev s (r1 ++ E) (v :: vs1 ++ rest) = expand_ev s (r1 ++ [m]) (v :: vs1) ++ Z.
Proof.
  induction r1 as [|a r1 IH]; intros s v vs1 E rest m Z Hl HE.
  - destruct vs1; [|discriminate]. simpl app. rewrite HE. simpl. rewrite app_nil_r. reflexivity.
  - destruct vs1 as [|v' vs1]; [discriminate|]. simpl in Hl. injection Hl as Hl.
    change (expand_ev s ((a :: r1) ++ E) (v :: (v' :: vs1) ++ rest))
      with (repeat v (a - s) ++ expand_ev a (r1 ++ E) (v' :: vs1 ++ rest)).
    change (expand_ev s ((a :: r1) ++ [m]) (v :: v' :: vs1))
      with (repeat v (a - s) ++ expand_ev a (r1 ++ [m]) (v' :: vs1)).
    rewrite (IH a v' vs1 E rest m Z Hl HE), app_assoc. reflexivity.
Qed.

Lemma cc_chain_shift_last : forall off r s n, chain lt s (r ++ [n]) ->
  chain lt (off + s) (map (Nat.add off) r) /\ last (map (Nat.add off) r) (off + s) < off + n.
Proof.
  induction r as [|a r IH]; intros s n H.
  - simpl in *. split; [constructor|lia].
  - simpl in H. destruct H as [H1 H2]. destruct (IH a n H2) as [H3 H4].
    simpl map. rewrite cc_last_cons. simpl. repeat split; try assumption. lia.
Qed.

Section ConcatP.
Context {V : Type} (veqb : V -> V -> bool) (dflt : V)
        (veqb_spec : forall a b, veqb a b = true <-> a = b).

(* ---------- 1. unique_in_order ---------- *)
Lemma memv_spec : forall x l, memv veqb x l = true <-> In x l.
Proof.
  intros x l. unfold memv. rewrite existsb_exists. split.
  - intros [y [Hy E]]. apply veqb_spec in E. subst. exact Hy.
  - intros H. exists x. split; [exact H|]. apply veqb_spec. reflexivity.
Qed.

Lemma uio_from_In : forall l seen x, In x (uio_from veqb seen l) <-> In x l /\ ~ In x seen.
Proof.
  induction l as [|a t IH]; intros seen x; simpl.
  - tauto.
  - destruct (memv veqb a seen) eqn:E.
    + apply memv_spec in E. rewrite IH. split.
      * intros [H1 H2]. tauto.
      * intros [[H1|H1] H2]; [subst; contradiction | tauto].
    + assert (~ In a seen) as Hn. { intro H. apply memv_spec in H. congruence. }
      simpl. rewrite IH. simpl. split.
      * intros [H|[H1 H2]]; [subst; tauto | tauto].
      * intros [[H|H] H2]; [tauto|].
        destruct (veqb a x) eqn:Eax.
        -- left. apply veqb_spec. exact Eax.
        -- right. split; [exact H|]. intros [H3|H3]; [|tauto].
           apply veqb_spec in H3. congruence.
Qed.

Lemma uio_from_NoDup : forall l seen, NoDup (uio_from veqb seen l).
Proof.
  induction l as [|a t IH]; intros seen; simpl.
  - constructor.
  - destruct (memv veqb a seen); [apply IH|].
    constructor; [|apply IH].
    rewrite uio_from_In. intros [_ H]. apply H. left. reflexivity.
Qed.

Lemma uio_from_id : forall l seen, NoDup l -> (forall x, In x l -> ~ In x seen) ->
  uio_from veqb seen l = l.
Proof.
  induction l as [|a t IH]; intros seen Hnd Hs; simpl; [reflexivity|].
  inversion Hnd as [|a' t' Hna Hnt]; subst.
  destruct (memv veqb a seen) eqn:E.
  - apply memv_spec in E. exfalso. apply (Hs a); [left; reflexivity|exact E].
  - f_equal. apply IH; [exact Hnt|].
    intros x Hx [H|H]; [subst; contradiction|].
    apply (Hs x); [right; exact Hx|exact H].
Qed.

Lemma uio_NoDup : forall l, NoDup (unique_in_order veqb l).
Proof. intros l. apply uio_from_NoDup. Qed.

Lemma uio_In : forall l x, In x (unique_in_order veqb l) <-> In x l.
Proof. intros l x. unfold unique_in_order. rewrite uio_from_In. simpl. tauto. Qed.

Lemma uio_id : forall l, NoDup l -> unique_in_order veqb l = l.
Proof. intros l H. apply uio_from_id; [exact H|]. intros x _ []. Qed.

(* ---------- 2. index_of ---------- *)
Lemma index_of_Some : forall l v i, index_of veqb v l = Some i -> i < length l /\ nth i l dflt = v.
Proof.
  induction l as [|x t IH]; intros v i H; simpl in H.
  - discriminate.
  - destruct (veqb x v) eqn:E.
    + inversion H; subst. apply veqb_spec in E. simpl. split; [lia|exact E].
    + destruct (index_of veqb v t) as [j|] eqn:Ej; [|discriminate].
      inversion H; subst. destruct (IH _ _ Ej) as [H1 H2]. simpl. split; [lia|exact H2].
Qed.

Lemma index_of_In : forall l v, In v l -> exists i, index_of veqb v l = Some i.
Proof.
  induction l as [|x t IH]; intros v H; [destruct H|]. simpl.
  destruct (veqb x v) eqn:E; [exists 0; reflexivity|].
  destruct H as [H|H].
  - apply veqb_spec in H. congruence.
  - destruct (IH v H) as [i Hi]. rewrite Hi. exists (S i). reflexivity.
Qed.

Lemma index_of_nth : forall l i, NoDup l -> i < length l -> index_of veqb (nth i l dflt) l = Some i.
Proof.
  induction l as [|x t IH]; intros i Hnd Hi; simpl in Hi; [lia|].
  inversion Hnd as [|x' t' Hnx Hnt]; subst.
  destruct i as [|i]; simpl.
  - rewrite (proj2 (veqb_spec x x) eq_refl). reflexivity.
  - destruct (veqb x (nth i t dflt)) eqn:E.
    + apply veqb_spec in E. exfalso. apply Hnx. rewrite E. apply nth_In. lia.
    + rewrite IH; [reflexivity|exact Hnt|lia].
Qed.

(* inverse_of *)
Lemma inverse_of_vals : forall u l, (forall x, In x l -> In x u) ->
  map (fun k => nth k u dflt) (inverse_of veqb u l) = l.
Proof.
  intros u l. unfold inverse_of. induction l as [|x t IH]; intros H; simpl; [reflexivity|].
  rewrite IH by (intros y Hy; apply H; right; exact Hy). f_equal.
  destruct (index_of_In u x (H x (or_introl eq_refl))) as [i Hi]. rewrite Hi.
  apply (index_of_Some _ _ _ Hi).
Qed.

Lemma inverse_of_bound : forall u l, (forall x, In x l -> In x u) ->
  Forall (fun k => k < length u) (inverse_of veqb u l).
Proof.
  intros u l. unfold inverse_of. induction l as [|x t IH]; intros H; simpl; constructor.
  - destruct (index_of_In u x (H x (or_introl eq_refl))) as [i Hi]. rewrite Hi.
    apply (index_of_Some _ _ _ Hi).
  - apply IH. intros y Hy. apply H. right. exact Hy.
Qed.

Lemma inverse_of_length : forall u l, length (inverse_of veqb u l) = length l.
Proof. intros. unfold inverse_of. apply map_length. Qed.

(* ---------- 3. the constructor ---------- *)
Lemma make_WF : forall values events, incr events -> length events = S (length values) ->
  WF (make veqb values events).
Proof.
  intros values events Hi Hl. unfold WF, make. simpl. repeat split.
  - exact Hi.
  - rewrite inverse_of_length. exact Hl.
  - apply inverse_of_bound. intros x Hx. apply uio_In. exact Hx.
  - apply uio_NoDup.
Qed.

Lemma make_vals : forall values events, vals dflt (make veqb values events) = values.
Proof.
  intros values events. unfold vals, make. simpl.
  apply inverse_of_vals. intros x Hx. apply uio_In. exact Hx.
Qed.

Lemma make_expand : forall values events,
  expand dflt (make veqb values events) = expand_evs events values.
Proof. intros. unfold expand. rewrite make_vals. reflexivity. Qed.

(* ---------- 4. the core of concatenation (repeats allowed) ---------- *)
Definition good (p : @cd V) : Prop := WF p /\ start0 p.

(* shape of a well-formed part starting at dump 0 *)
Lemma part_shape : forall p : @cd V, good p ->
  (idx p = [] /\ ev p = [0]) \/
  (exists r n, ev p = (0 :: r) ++ [n] /\ length (idx p) = S (length r)).
Proof.
  intros [uu ix evs]. unfold good, WF, start0. simpl. intros [[_ [Hl _]] Hs].
  destruct evs as [|x r]; [discriminate|]. simpl in Hs. subst x.
  simpl in Hl. injection Hl as Hl.
  destruct ix as [|k ix].
  - left. destruct r; [split; reflexivity|discriminate].
  - right. assert (Hr : r <> []) by (intro; subst; discriminate).
    destruct (exists_last Hr) as [r' [n Hn]]. subst r. exists r', n.
    split; [reflexivity|]. rewrite app_length in Hl. simpl in *. lia.
Qed.

Lemma vals_incl : forall (p : @cd V) u, WF p -> incl (uv p) u ->
  forall x, In x (vals dflt p) -> In x u.
Proof.
  intros p u (_ & _ & Hb & _) Hinc x Hx. unfold vals in Hx.
  apply in_map_iff in Hx. destruct Hx as [k [Hk Hin]]. subst x.
  apply Hinc. apply nth_In. rewrite Forall_forall in Hb. apply Hb. exact Hin.
Qed.

Lemma concat_aux_spec : forall u parts off i e tot, NoDup u ->
  (forall p, In p parts -> good p /\ incl (uv p) u) ->
  concat_aux veqb dflt u off parts = (i, e, tot) ->
  tot = off + list_sum (map ndumps parts) /\ length i = length e /\
  Forall (fun k => k < length u) i /\
  map (fun k => nth k u dflt) i = flat_map (vals dflt) parts /\
  (forall s v0, expand_ev s (e ++ [tot]) (v0 :: flat_map (vals dflt) parts)
                = repeat v0 (off - s) ++ concat (map (expand dflt) parts)).
Proof.
  intros u. induction parts as [|p t IH]; intros off i e tot Hu Hall Hc; simpl in Hc.
  - inversion Hc; subst. simpl. repeat split; try constructor. lia.
  - destruct (concat_aux veqb dflt u (off + ndumps p) t) as [[i' e'] tot'] eqn:E.
    inversion Hc; subst; clear Hc.
    destruct (IH _ _ _ _ Hu (fun q Hq => Hall q (or_intror Hq)) E) as (Ht & Hlen & Hb & Hm & Hx).
    destruct (Hall p (or_introl eq_refl)) as [Hg Hinc].
    pose proof (vals_incl p u (proj1 Hg) Hinc) as Hvi.
    destruct (part_shape p Hg) as [[Hix Hev]|[r [n [Hev Hix]]]].
    + (* empty part *)
      assert (Hv : vals dflt p = []) by (unfold vals; rewrite Hix; reflexivity).
      assert (Hn : ndumps p = 0) by (unfold ndumps; rewrite Hev; reflexivity).
      assert (Hex : expand dflt p = []) by (unfold expand; rewrite Hev, Hv; reflexivity).
      rewrite Hn, Nat.add_0_r in *. rewrite Hev, Hv. simpl. rewrite Hn, Hex, Hv. simpl.
      repeat split; assumption.
    + (* non-empty part *)
      assert (Hn : ndumps p = n) by (unfold ndumps; rewrite Hev; apply last_last).
      assert (Hrl : removelast (ev p) = 0 :: r) by (rewrite Hev; apply removelast_last).
      assert (Hvl : length (vals dflt p) = S (length r)) by (unfold vals; rewrite map_length; exact Hix).
      rewrite Hn in *. rewrite Hrl. simpl.
      split; [rewrite Hn; lia|]. split.
      { rewrite app_length, inverse_of_length, Hvl. simpl. rewrite app_length, map_length. lia. }
      split. { apply Forall_app. split; [apply inverse_of_bound; exact Hvi|exact Hb]. }
      split. { rewrite map_app, Hm. f_equal. apply inverse_of_vals. exact Hvi. }
      intros s v0.
      destruct (vals dflt p) as [|w ws] eqn:Evp; [discriminate|].
      simpl in Hvl. injection Hvl as Hvl.
      assert (Hexp : expand dflt p = expand_ev (off + 0) (map (Nat.add off) r ++ [off + n]) (w :: ws)).
      { unfold expand. rewrite Hev, Evp. simpl expand_evs.
        rewrite <- (cc_expand_ev_shift off (r ++ [n]) 0 (w :: ws)), map_app. reflexivity. }
      rewrite Hexp. rewrite <- app_assoc.
      change (expand_ev s (off + 0 :: map (Nat.add off) r ++ e' ++ [tot]) (v0 :: (w :: ws) ++ flat_map (vals dflt) t))
        with (repeat v0 (off + 0 - s) ++
              expand_ev (off + 0) (map (Nat.add off) r ++ e' ++ [tot]) (w :: ws ++ flat_map (vals dflt) t)).
      rewrite <- app_comm_cons.
      rewrite (cc_expand_ev_glue (map (Nat.add off) r) (off + 0) w ws (e' ++ [tot])
                 (flat_map (vals dflt) t) (off + n) (concat (map (expand dflt) t))).
      * rewrite Nat.add_0_r. reflexivity.
      * rewrite map_length. exact Hvl.
      * exact Hx.
Qed.

(* strictly increasing events of the result when no part is empty *)
Lemma chain_hd : forall s l, l <> [] -> s < hd 0 l -> incr l -> chain lt s l.
Proof. intros s [|x r] Hne Hs Hi; [contradiction|]. simpl in *. split; assumption. Qed.

Lemma concat_aux_incr : forall u parts off i e tot,
  (forall p, In p parts -> good p /\ idx p <> []) ->
  concat_aux veqb dflt u off parts = (i, e, tot) ->
  incr (e ++ [tot]) /\ hd 0 (e ++ [tot]) = off.
Proof.
  intros u. induction parts as [|p t IH]; intros off i e tot Hall Hc; simpl in Hc.
  - inversion Hc; subst. simpl. split; [constructor|reflexivity].
  - destruct (concat_aux veqb dflt u (off + ndumps p) t) as [[i' e'] tot'] eqn:E.
    inversion Hc; subst; clear Hc.
    destruct (IH _ _ _ _ (fun q Hq => Hall q (or_intror Hq)) E) as [Hch Hhd].
    destruct (Hall p (or_introl eq_refl)) as [Hg Hne].
    destruct (part_shape p Hg) as [[Hix Hev]|[r [n [Hev Hix]]]]; [contradiction|].
    assert (Hn : ndumps p = n) by (unfold ndumps; rewrite Hev; apply last_last).
    assert (Hrl : removelast (ev p) = 0 :: r) by (rewrite Hev; apply removelast_last).
    assert (Hinc : chain lt 0 (r ++ [n])).
    { destruct Hg as [[Hi _] _]. rewrite Hev in Hi. exact Hi. }
    rewrite Hn in *. rewrite Hrl. simpl. split; [|lia].
    rewrite <- app_assoc. apply cc_chain_app.
    destruct (cc_chain_shift_last off r 0 n Hinc) as [H1 H2].
    split; [exact H1|]. apply chain_hd.
    + destruct e'; discriminate.
    + rewrite Hhd. exact H2.
    + exact Hch.
Qed.

(* ---------- 5. concatenate with allow_repeats = true ---------- *)
Lemma concatenate_repeats_parts : forall p1 p2 t c,
  concatenate veqb dflt (p1 :: p2 :: t) true = Some c ->
  exists i e tot, let u := unique_in_order veqb (flat_map uv (p1 :: p2 :: t)) in
    concat_aux veqb dflt u 0 (p1 :: p2 :: t) = (i, e, tot) /\ c = mk u i (e ++ [tot]).
Proof.
  intros p1 p2 t c H. unfold concatenate in H.
  destruct (concat_aux veqb dflt (unique_in_order veqb (flat_map uv (p1 :: p2 :: t))) 0 (p1 :: p2 :: t))
    as [[i e] tot] eqn:E.
  exists i, e, tot. simpl. split; [exact E|]. inversion H. reflexivity.
Qed.

Lemma incl_uv_uio : forall (parts : list (@cd V)) p, In p parts ->
  incl (uv p) (unique_in_order veqb (flat_map uv parts)).
Proof.
  intros parts p Hp x Hx. apply uio_In. apply in_flat_map. exists p. split; assumption.
Qed.

Lemma concatenate_repeats_expand : forall parts c, parts <> [] ->
  (forall p, In p parts -> WF p /\ start0 p) ->
  concatenate veqb dflt parts true = Some c ->
  expand dflt c = concat (map (expand dflt) parts).
Proof.
  intros parts c Hne Hall Hc.
  destruct parts as [|p1 [|p2 t]]; [contradiction| |].
  - simpl in Hc. inversion Hc; subst. simpl. rewrite app_nil_r. reflexivity.
  - destruct (concatenate_repeats_parts _ _ _ _ Hc) as (i & e & tot & E & Hcd). simpl in E.
    set (parts := p1 :: p2 :: t) in *.
    set (u := unique_in_order veqb (flat_map uv parts)) in *.
    assert (Hall' : forall p, In p parts -> good p /\ incl (uv p) u).
    { intros p Hp. split; [apply Hall; exact Hp|apply incl_uv_uio; exact Hp]. }
    destruct (concat_aux_spec u parts 0 i e tot (uio_NoDup _) Hall' E) as (_ & _ & _ & Hm & Hx).
    subst c. unfold expand, vals. simpl. rewrite Hm.
    destruct (e ++ [tot]) as [|x r] eqn:Ee; [destruct e; discriminate|].
    specialize (Hx x dflt). simpl in Hx. rewrite Nat.sub_diag in Hx. simpl in Hx. exact Hx.
Qed.

Lemma concatenate_repeats_WF : forall parts c, parts <> [] ->
  (forall p, In p parts -> WF p /\ start0 p) ->
  concatenate veqb dflt parts true = Some c ->
  (forall p, In p parts -> idx p <> []) ->
  WF c /\ start0 c /\ ndumps c = list_sum (map ndumps parts).
Proof.
  intros parts c Hne Hall Hc Hnz.
  destruct parts as [|p1 [|p2 t]]; [contradiction| |].
  - simpl in Hc. inversion Hc; subst. destruct (Hall c (or_introl eq_refl)) as [H1 H2].
    simpl. rewrite Nat.add_0_r. split; [exact H1|split; [exact H2|reflexivity]].
  - destruct (concatenate_repeats_parts _ _ _ _ Hc) as (i & e & tot & E & Hcd). simpl in E.
    set (parts := p1 :: p2 :: t) in *.
    set (u := unique_in_order veqb (flat_map uv parts)) in *.
    assert (Hall' : forall p, In p parts -> good p /\ incl (uv p) u).
    { intros p Hp. split; [apply Hall; exact Hp|apply incl_uv_uio; exact Hp]. }
    assert (Hall'' : forall p, In p parts -> good p /\ idx p <> []).
    { intros p Hp. split; [apply Hall; exact Hp|apply Hnz; exact Hp]. }
    destruct (concat_aux_spec u parts 0 i e tot (uio_NoDup _) Hall' E) as (Ht & Hl & Hb & _ & _).
    destruct (concat_aux_incr u parts 0 i e tot Hall'' E) as [Hch Hhd].
    subst c. unfold WF, start0, ndumps. simpl.
    split; [|split].
    + split; [|split; [|split]].
      * exact Hch.
      * rewrite app_length. simpl. lia.
      * exact Hb.
      * apply uio_NoDup.
    + exact Hhd.
    + rewrite last_last. simpl in Ht. exact Ht.
Qed.

(* ---------- 6. allow_repeats = false is remove_repeats of the allow_repeats = true result ---------- *)
Lemma concatenate_norepeats_eq : forall parts, 2 <= length parts ->
  concatenate veqb dflt parts false =
  match concatenate veqb dflt parts true with Some c => remove_repeats c | None => None end.
Proof.
  intros parts H. destruct parts as [|p1 [|p2 t]]; simpl in H; try lia.
  unfold concatenate.
  destruct (concat_aux veqb dflt (unique_in_order veqb (flat_map uv (p1 :: p2 :: t))) 0 (p1 :: p2 :: t))
    as [[i e] tot].
  reflexivity.
Qed.

End ConcatP.

(* ---------- 7. non-vacuity ---------- *)
Definition ex_p1 : @cd nat := mk [7; 8] [0; 1] [0; 2; 5].
Definition ex_p2 : @cd nat := mk [8; 9] [0; 1; 0] [0; 1; 2; 4].

Example ex_expand_p1 : expand 0 ex_p1 = [7; 7; 8; 8; 8].
Proof. vm_compute. reflexivity. Qed.
Example ex_expand_p2 : expand 0 ex_p2 = [8; 9; 8; 8].
Proof. vm_compute. reflexivity. Qed.

Example ex_concat_repeats :
  concatenate Nat.eqb 0 [ex_p1; ex_p2] true = Some (mk [7; 8; 9] [0; 1; 1; 2; 1] [0; 2; 5; 6; 7; 9]).
Proof. vm_compute. reflexivity. Qed.
Example ex_concat_repeats_expand :
  option_map (expand 0) (concatenate Nat.eqb 0 [ex_p1; ex_p2] true) = Some [7; 7; 8; 8; 8; 8; 9; 8; 8].
Proof. vm_compute. reflexivity. Qed.

Example ex_concat_norepeats :
  concatenate Nat.eqb 0 [ex_p1; ex_p2] false = Some (mk [7; 8; 9] [0; 1; 2; 1] [0; 2; 6; 7; 9]).
Proof. vm_compute. reflexivity. Qed.
Example ex_concat_norepeats_expand :
  option_map (expand 0) (concatenate Nat.eqb 0 [ex_p1; ex_p2] false) = Some [7; 7; 8; 8; 8; 8; 9; 8; 8].
Proof. vm_compute. reflexivity. Qed.

(* the hypotheses of the theorems hold for the example parts, and the theorems apply *)
Example ex_good : forall p, In p [ex_p1; ex_p2] -> WF p /\ start0 p.
Proof.
  intros p [H|[H|[]]]; subst p; unfold WF, start0, ex_p1, ex_p2; simpl;
    repeat split; try lia; repeat constructor; simpl; intuition lia.
Qed.

Example ex_theorem_applies : forall c, concatenate Nat.eqb 0 [ex_p1; ex_p2] true = Some c ->
  expand 0 c = expand 0 ex_p1 ++ expand 0 ex_p2 /\ WF c /\ start0 c /\ ndumps c = 9.
Proof.
  intros c Hc. split.
  - rewrite (concatenate_repeats_expand Nat.eqb 0 Nat.eqb_eq [ex_p1; ex_p2] c); try assumption.
    + reflexivity.
    + discriminate.
    + exact ex_good.
  - apply (concatenate_repeats_WF Nat.eqb 0 Nat.eqb_eq [ex_p1; ex_p2] c); try assumption.
    + discriminate.
    + exact ex_good.
    + intros p [H|[H|[]]]; subst p; discriminate.
Qed.

Print Assumptions uio_NoDup.
Print Assumptions uio_In.
Print Assumptions uio_id.
Print Assumptions index_of_Some.
Print Assumptions index_of_In.
Print Assumptions index_of_nth.
Print Assumptions make_WF.
Print Assumptions make_vals.
Print Assumptions make_expand.
Print Assumptions concat_aux_spec.
Print Assumptions concat_aux_incr.
Print Assumptions concatenate_repeats_expand.
Print Assumptions concatenate_repeats_WF.
Print Assumptions concatenate_norepeats_eq.
Print Assumptions ex_theorem_applies.
