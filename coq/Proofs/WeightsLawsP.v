(* C15, round 2: algebraic laws of the scaling kernel and of the excision transform, the excision API of
   visdatav4 and the weight selection of h5datav3 (Model/Weights.v, Model/WeightsApi.v). *)
From Coq Require Import ZArith QArith Qabs Qcanon Qround List Bool Arith Lia Lqa.
From KV Require Import Base.Sx Gen.Generated Model.Interp Model.Weights Model.WeightsApi
                       Proofs.WeightsP Proofs.WeightsBlocksP Proofs.WeightsNumP Proofs.WeightsApiP.
Import ListNotations.
Close Scope Q_scope.
Open Scope nat_scope.

(* ------------------------------------------------------------------ the kernel *)
(* products (a, b) and (b, a) get the same factor *)
Lemma power_scale_symmetric : forall g d a1 a2 w, power_scale_gen g d a1 a2 w = power_scale_gen g d a2 a1 w.
Proof. intros. unfold power_scale_gen, finish_scale. now rewrite (emul_comm (auto_scale_gen g d a1)). Qed.

Lemma spec_scale_div_nonzero : forall a1 a2, spec_scale_div a1 a2 <> 0%Qc.
Proof.
  assert (T : spec_tiny <> 0%Qc) by (intro H; discriminate H).
  intros [x | | |] [y | | |]; cbn [spec_scale_div]; try exact T.
  destruct (is_zero x) eqn:Ex; [exact T |]. destruct (is_zero y) eqn:Ey; [exact T |]. cbn [orb].
  apply is_zero_false in Ex. apply is_zero_false in Ey. intro H.
  assert (E : ((x * y) * / (x * y))%Qc = 1%Qc) by (apply Qcmult_inv_r; intro M; apply Qcmult_integral in M; tauto).
  rewrite H in E. rewrite Qcmult_0_r in E. discriminate E.
Qed.

Lemma Fin_inj : forall a b : Qc, Fin a = Fin b -> a = b.
Proof. intros a b H. exact (f_equal (fun e => match e with Fin q => q | _ => a end) H). Qed.

(* the purpose of the substitution: a non-zero stored weight never becomes a zero weight, whatever the
   autocorrelations are (zero, NaN and infinities included) *)
Theorem scaled_weight_never_zero : forall a1 a2 (q : Qc), q <> 0%Qc -> power_scale true a1 a2 (Fin q) <> Fin 0.
Proof.
  intros a1 a2 q Hq. rewrite power_scale_div_spec. cbn [emul]. intro H.
  apply Fin_inj in H. rename H into M.
  apply Qcmult_integral in M. destruct M as [M | M]; [now apply (spec_scale_div_nonzero a1 a2) | contradiction].
Qed.

Definition nonneg_auto (a : Ext) : Prop := match a with Fin x => (0 <= x)%Qc | _ => True end.

Lemma spec_tiny_pos : (0 < spec_tiny)%Qc.
Proof. reflexivity. Qed.

Lemma Qc_le_lt_or_eq : forall x : Qc, (0 <= x)%Qc -> x = 0%Qc \/ (0 < x)%Qc.
Proof.
  intros x H. destruct (Qc_eq_dec x 0) as [E | N]; [left; exact E | right].
  apply Qcle_lt_or_eq in H. destruct H as [H | H]; [exact H | congruence].
Qed.

Lemma Qcmult_pos : forall a b : Qc, (0 < a)%Qc -> (0 < b)%Qc -> (0 < a * b)%Qc.
Proof. intros a b Ha Hb. rewrite <- (Qcmult_0_l b). apply Qcmult_lt_compat_r; assumption. Qed.

(* weights stay positive: non-negative (or non-finite) autocorrelation powers and a positive stored weight *)
Theorem scaled_weight_positive : forall a1 a2 (q : Qc), nonneg_auto a1 -> nonneg_auto a2 -> (0 < q)%Qc ->
  exists r, power_scale true a1 a2 (Fin q) = Fin r /\ (0 < r)%Qc.
Proof.
  intros a1 a2 q H1 H2 Hq. rewrite power_scale_div_spec. cbn [emul]. eexists. split; [reflexivity |].
  apply Qcmult_pos; [| exact Hq].
  destruct a1 as [x | | |], a2 as [y | | |]; cbn [spec_scale_div]; try exact spec_tiny_pos.
  cbn in H1, H2.
  destruct (is_zero x) eqn:Ex; [exact spec_tiny_pos |]. destruct (is_zero y) eqn:Ey; [exact spec_tiny_pos |]. cbn [orb].
  apply is_zero_false in Ex. apply is_zero_false in Ey.
  destruct (Qc_le_lt_or_eq x H1) as [E0 | Px]; [contradiction |].
  destruct (Qc_le_lt_or_eq y H2) as [E0 | Py]; [contradiction |].
  apply Qcinv_pos. now apply Qcmult_pos.
Qed.

(* scaling and multiplying back (finite non-zero powers, finite stored weight) is the identity, both ways round *)
Theorem scale_unscale_roundtrip : forall (x y q : Qc), x <> 0%Qc -> y <> 0%Qc ->
  power_scale false (Fin x) (Fin y) (power_scale true (Fin x) (Fin y) (Fin q)) = Fin q /\
  power_scale true (Fin x) (Fin y) (power_scale false (Fin x) (Fin y) (Fin q)) = Fin q.
Proof.
  intros x y q Hx Hy. unfold power_scale. rewrite !scaled_finite, !unscaled_finite by assumption. cbn [emul].
  assert (x * y <> 0)%Qc by (intro M; apply Qcmult_integral in M; tauto).
  split; f_equal; field; repeat split; assumption.
Qed.

(* ------------------------------------------------------------------ excision laws *)
Lemma rheQ_mono : forall q q', (q <= q')%Q -> (rheQ q <= rheQ q')%Z.
Proof.
  intros q q' H. destruct (Z_le_gt_dec (rheQ q) (rheQ q')) as [L | G]; [exact L | exfalso].
  pose proof (rheQ_near q) as N. pose proof (rheQ_near q') as N'.
  apply Qabs_Qle_condition in N. apply Qabs_Qle_condition in N'. destruct N as [N1 N2]. destruct N' as [N1' N2'].
  assert (Hz : (inject_Z (rheQ q') + 1 <= inject_Z (rheQ q))%Q).
  { rewrite <- inject_succ. rewrite <- Zle_Qle. lia. }
  assert (E : (q == q')%Q) by lra.
  rewrite (rheQ_comp q q' E) in G. lia.
Qed.

Section ExcisionLaws.
Local Open Scope Qc_scope.

Lemma rhe_ZQc : forall m, rhe (ZQc m) = m.
Proof.
  intros m. unfold rhe, ZQc. cbn [this Q2Qc]. rewrite (rheQ_comp _ (inject_Z m)) by apply Qred_correct. apply rheQ_int.
Qed.

Lemma ZQc_le : forall a b, (a <= b)%Z -> ZQc a <= ZQc b.
Proof. intros a b H. unfold Qcle, ZQc. cbn [this Q2Qc]. rewrite !Qred_correct. rewrite <- Zle_Qle. exact H. Qed.

Lemma spec_excision_dumps : forall n k w, (0 < n)%Z -> (0 < k)%Z ->
  spec_excision n k w = 1 - ZQc (rhe (w / ZQc n)) / ZQc k.
Proof.
  intros n k w Hn Hk. unfold spec_excision.
  assert (ZQc n <> 0) by (apply Qc_pos_nonzero, ZQc_pos, Hn).
  assert (ZQc k <> 0) by (apply Qc_pos_nonzero, ZQc_pos, Hk).
  field. split; assumption.
Qed.

(* a weight of exactly m correlator dumps (m * n_accs accumulations): m of the k dumps survive *)
Theorem excision_whole_dumps : forall n k m, (0 < n)%Z -> (0 < k)%Z ->
  excision n k (Fin (ZQc (m * n))) = Fin (1 - ZQc m / ZQc k).
Proof.
  intros n k m Hn Hk. rewrite excision_finite by assumption. f_equal. rewrite spec_excision_dumps by assumption.
  assert (Nn : ZQc n <> 0) by (apply Qc_pos_nonzero, ZQc_pos, Hn).
  replace (ZQc (m * n) / ZQc n) with (ZQc m) by (rewrite ZQc_mult; field; exact Nn).
  now rewrite rhe_ZQc.
Qed.

(* nothing excised: the full number of accumulations gives 0; everything excised: weight 0 gives 1 *)
Corollary excision_full_weight : forall n k, (0 < n)%Z -> (0 < k)%Z ->
  excision n k (Fin (ZQc (accs_per_dump n k))) = Fin 0.
Proof.
  intros n k Hn Hk. unfold accs_per_dump. rewrite (Z.mul_comm n k). rewrite excision_whole_dumps by assumption.
  apply f_equal. field. apply Qc_pos_nonzero, ZQc_pos, Hk.
Qed.

Corollary excision_zero_weight : forall n k, (0 < n)%Z -> (0 < k)%Z -> excision n k (Fin 0) = Fin 1.
Proof.
  intros n k Hn Hk. change (Fin 0) with (Fin (ZQc (0 * n))). rewrite excision_whole_dumps by assumption.
  apply f_equal. change (ZQc 0) with 0. field. apply Qc_pos_nonzero, ZQc_pos, Hk.
Qed.

(* rounding to whole correlator dumps is idempotent *)
Theorem integer_cbf_dumps_idempotent : forall n (w : Qc), (0 < n)%Z ->
  rhe (ZQc (rhe (w / ZQc n)) * ZQc n / ZQc n) = rhe (w / ZQc n).
Proof.
  intros n w Hn. assert (Nn : ZQc n <> 0) by (apply Qc_pos_nonzero, ZQc_pos, Hn).
  replace (ZQc (rhe (w / ZQc n)) * ZQc n / ZQc n) with (ZQc (rhe (w / ZQc n))) by (field; exact Nn).
  apply rhe_ZQc.
Qed.

(* more surviving accumulations never give a larger excision fraction *)
Theorem excision_monotone : forall n k (w w' : Qc), (0 < n)%Z -> (0 < k)%Z -> w <= w' ->
  spec_excision n k w' <= spec_excision n k w.
Proof.
  intros n k w w' Hn Hk H. rewrite !spec_excision_dumps by assumption.
  assert (Pn : 0 < ZQc n) by (apply ZQc_pos, Hn).
  assert (Pk : 0 < ZQc k) by (apply ZQc_pos, Hk).
  assert (D : w / ZQc n <= w' / ZQc n).
  { unfold Qcdiv. apply Qcmult_le_compat_r; [exact H |]. apply Qclt_le_weak, Qcinv_pos, Pn. }
  assert (R : (rhe (w / ZQc n) <= rhe (w' / ZQc n))%Z) by (unfold rhe; apply rheQ_mono; exact D).
  apply ZQc_le in R.
  assert (Q : ZQc (rhe (w / ZQc n)) / ZQc k <= ZQc (rhe (w' / ZQc n)) / ZQc k).
  { unfold Qcdiv. apply Qcmult_le_compat_r; [exact R |]. apply Qclt_le_weak, Qcinv_pos, Pk. }
  set (a := ZQc (rhe (w / ZQc n)) / ZQc k) in *. set (a' := ZQc (rhe (w' / ZQc n)) / ZQc k) in *.
  apply Qcle_minus_iff. replace (1 - a + - (1 - a')) with (a' + - a) by ring. apply (proj1 (Qcle_minus_iff a a')). exact Q.
Qed.
End ExcisionLaws.

(* ------------------------------------------------------------------ visdatav4: when is there an excision indexer *)
Lemma cbf_attrs_some_iff : forall {A} (s0 : option A) it n f0 ins sft r,
  cbf_attrs s0 it n f0 ins sft = Some r <->
  s0 <> None /\ f0 <> None /\ ins <> None /\ sft <> None /\ exists i m, it = Some i /\ n = Some m /\ r = (i, m).
Proof.
  intros A s0 it n f0 ins sft r. unfold cbf_attrs. split.
  - destruct s0, it, n, f0, ins, sft; try discriminate. intros H. inversion H. repeat split; try discriminate. eauto.
  - intros [H0 [H1 [H2 [H3 [i [m [-> [-> ->]]]]]]]]. destruct s0, f0, ins, sft; try congruence.
Qed.

Lemma excision_api_ok_iff : forall dp c u, (exists r, excision_api dp c u = Ok r) <-> c <> None /\ u <> None.
Proof.
  intros dp c u. unfold excision_api. split.
  - intros [r H]. destruct c as [[cdp n] |], u; try discriminate. split; discriminate.
  - intros [Hc Hu]. destruct c as [[cdp n] |]; [| congruence]. destruct u; [| congruence]. eauto.
Qed.

Lemma excision_api_unavailable : forall dp c u, c = None \/ u = None -> excision_api dp c u = Err ValueError.
Proof. intros dp c u [-> | ->]; unfold excision_api; [reflexivity |]. destruct c as [[cdp n] |]; reflexivity. Qed.

Lemma nth_map_nil : forall {A B} (f : list A -> list B) l t, f [] = [] -> nth t (map f l) [] = f (nth t l []).
Proof.
  intros A B f l. induction l as [| x l IH]; intros t H; destruct t; cbn; try (symmetry; exact H); try reflexivity.
  now apply IH.
Qed.

Lemma map3_get3 : forall {A B} (g : A -> B) a d t f b, get3 (map3 g a) (g d) t f b = g (get3 a d t f b).
Proof.
  intros A B g a d t f b. unfold map3, get3.
  rewrite (nth_map_nil (map (map g)) a t eq_refl). rewrite (nth_map_nil (map g) _ f eq_refl). apply map_nth.
Qed.

(* d.excision, cell by cell: the excision transform of the unscaled weight of that cell *)
Theorem excision_api_pointwise : forall dp cdp n u r t f b,
  excision_api dp (Some (cdp, n)) (Some u) = Ok r ->
  get3 r (excision n (cbf_dumps dp cdp) NaN) t f b = excision n (cbf_dumps dp cdp) (get3 u NaN t f b).
Proof. intros dp cdp n u r t f b H. cbn in H. inversion H. apply map3_get3. Qed.

(* accumulations_per_dump is None exactly for a "lite" data set *)
Lemma accumulations_per_dump_spec : forall dp c,
  accumulations_per_dump dp c = match c with Some (cdp, n) => Some (n * cbf_dumps dp cdp)%Z | None => None end.
Proof. intros dp [[cdp n] |]; reflexivity. Qed.

(* no corrprods (a test store): there are no unscaled weights, hence no excision *)
Lemma v4_excision_without_corrprods : forall dp c table B vis bchv w bchw wc tch fch,
  v4_excision dp c (vfw_api None true VOff table B vis bchv w bchw wc tch fch) = Err ValueError.
Proof. intros. cbn. destruct c as [[cdp n] |]; reflexivity. Qed.

(* ------------------------------------------------------------------ HDF5 v3 *)
(* the regenerated dummy values are the documented ones: the generated model IS the round-1 model *)
Lemma v3_weight_gen_eq : forall sel hw hwc w wc, v3_weight_gen sel hw hwc w wc = v3_weight sel hw hwc w wc.
Proof. intros [|] [|] [|] w wc; reflexivity. Qed.

Lemma index_of_some_in : forall x l i, (exists j, index_of x l i = Some j) <-> In x l.
Proof.
  intros x l. induction l as [| y l IH]; intros i; cbn [index_of].
  - split; [intros [j H]; discriminate | intros []].
  - destruct (Z.eqb x y) eqn:E.
    + apply Z.eqb_eq in E. subst. split; [intros _; left; reflexivity | intros _; eauto].
    + apply Z.eqb_neq in E. rewrite IH. split; [intros H; right; exact H | intros [H | H]; [congruence | exact H]].
Qed.

Definition sel_names (known : list Z) (s : wsel) : list Z := match s with SelAll => known | SelNames l => l end.

(* some weight type is selected exactly when a requested name is a known one *)
Theorem v3_selected_iff : forall known s,
  v3_selected known s = true <-> exists n, In n (sel_names known s) /\ In n known.
Proof.
  intros known s. unfold v3_selected, v3_selection. fold (sel_names known s).
  generalize (sel_names known s) as names. intros names. split.
  - intros H. destruct (flat_map _ names) as [| i r] eqn:E; [discriminate |].
    assert (Hin : In i (flat_map (fun n => match index_of n known 0 with Some i => [i] | None => [] end) names))
      by (rewrite E; left; reflexivity).
    apply in_flat_map in Hin. destruct Hin as [n [Hn Hi]]. exists n. split; [exact Hn |].
    apply (index_of_some_in n known 0). destruct (index_of n known 0); [eauto | destruct Hi].
  - intros [n [Hn Hk]]. apply (index_of_some_in n known 0) in Hk. destruct Hk as [j Hj].
    assert (Hin : In j (flat_map (fun n => match index_of n known 0 with Some i => [i] | None => [] end) names)).
    { apply in_flat_map. exists n. split; [exact Hn |]. rewrite Hj. left. reflexivity. }
    destruct (flat_map _ names); [destruct Hin | reflexivity].
Qed.

Corollary v3_select_all : forall known, known <> [] -> v3_selected known SelAll = true.
Proof.
  intros [| k r] H; [congruence |]. apply v3_selected_iff. exists k. split; left; reflexivity.
Qed.

Corollary v3_select_nothing : forall known, v3_selected known (SelNames []) = false.
Proof. reflexivity. Qed.

(* the weights under a selection request *)
Theorem v3_weight_req_spec : forall known s hw hwc w wc,
  v3_weight_req known s hw hwc w wc =
  if v3_selected known s then emul (v3_read hw w) (v3_read hwc wc) else Fin 1.
Proof. intros known s hw hwc w wc. unfold v3_weight_req. rewrite v3_weight_gen_eq. reflexivity. Qed.

(* ------------------------------------------------------------------ HDF5 v3: every second-stage index *)
Lemma nth_map_err' : forall {A B} (f : A -> B) l j d d', j < List.length l -> nth j (map f l) d = f (nth j l d').
Proof.
  intros A B f l. induction l as [| x l IH]; intros j d d' H; cbn in H; [lia |]. destruct j; cbn; [reflexivity |].
  apply IH. lia.
Qed.

(* for EVERY choice of kept positions on the three axes (slices, integers, lists, masks; repeated or unsorted ones
   included) the element (i, j, k) of d.weights[kt, kf, kb] is the product of the two stored arrays at dump kt[i],
   channel kf[j], product kb[k] - outer indexing, never the pairwise rule *)
Theorem v3_weights_outer : forall sel hw hwc w wc kt kf kb,
  List.length (v3_weights_indexed sel hw hwc w wc kt kf kb) = List.length kt /\
  forall i j k, i < List.length kt -> j < List.length kf -> k < List.length kb ->
    List.length (nth i (v3_weights_indexed sel hw hwc w wc kt kf kb) []) = List.length kf /\
    List.length (nth j (nth i (v3_weights_indexed sel hw hwc w wc kt kf kb) []) []) = List.length kb /\
    Weights.get3 (v3_weights_indexed sel hw hwc w wc kt kf kb) NaN i j k =
    v3_weight sel hw hwc (Weights.get3 w NaN (nth i kt 0) (nth j kf 0) (nth k kb 0))
                         (nth (nth j kf 0) (nth (nth i kt 0) wc []) NaN).
Proof.
  intros sel hw hwc w wc kt kf kb. unfold v3_weights_indexed, outer3, outer2.
  split; [rewrite map2_length, !map_length; apply Nat.min_id |].
  intros i j k Hi Hj Hk.
  assert (Row : nth i (map2 (map2 (fun cell c => map (fun x => v3_weight_gen sel hw hwc x c) cell))
                         (map (fun t => map (fun f => map (fun b => Weights.get3 w NaN t f b) kb) kf) kt)
                         (map (fun t => map (fun f => nth f (nth t wc []) NaN) kf) kt)) [] =
                map2 (fun cell c => map (fun x => v3_weight_gen sel hw hwc x c) cell)
                     (map (fun f => map (fun b => Weights.get3 w NaN (nth i kt 0) f b) kb) kf)
                     (map (fun f => nth f (nth (nth i kt 0) wc []) NaN) kf)).
  { rewrite (nth_map2 _ _ _ i [] [] []) by (rewrite !map_length; lia).
    rewrite (nth_map_err' _ kt i [] 0) by exact Hi. rewrite (nth_map_err' _ kt i [] 0) by exact Hi. reflexivity. }
  assert (Cell : nth j (map2 (fun cell c => map (fun x => v3_weight_gen sel hw hwc x c) cell)
                          (map (fun f => map (fun b => Weights.get3 w NaN (nth i kt 0) f b) kb) kf)
                          (map (fun f => nth f (nth (nth i kt 0) wc []) NaN) kf)) [] =
                 map (fun x => v3_weight_gen sel hw hwc x (nth (nth j kf 0) (nth (nth i kt 0) wc []) NaN))
                     (map (fun b => Weights.get3 w NaN (nth i kt 0) (nth j kf 0) b) kb)).
  { rewrite (nth_map2 _ _ _ j [] [] NaN) by (rewrite !map_length; lia).
    rewrite (nth_map_err' _ kf j [] 0) by exact Hj. rewrite (nth_map_err' _ kf j NaN 0) by exact Hj. reflexivity. }
  split; [rewrite Row, map2_length, !map_length; apply Nat.min_id |].
  split; [rewrite Row, Cell, !map_length; reflexivity |].
  unfold Weights.get3 at 1. rewrite Row, Cell. rewrite map_map.
  rewrite (nth_map_err' _ kb k NaN 0) by exact Hk. apply v3_weight_gen_eq.
Qed.
