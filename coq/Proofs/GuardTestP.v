(* C20 (round 4): proofs about Model/GuardTest.v *)
From Coq Require Import List Arith Bool ZArith String Lia.
From KV Require Import Base.Sx Gen.Generated Model.GuardTest.
Import ListNotations.
Close Scope Z_scope.
Open Scope nat_scope.

Section G.
Variable pos : gpos.
Variable want : nat -> nat.
Variable len : nat -> nat.
Hypothesis not_outside : pos <> GOutside.

Definition busy_ok (s : gst) (w : nat) (busy : list nat) : Prop :=
  match s with
  | TIn | TRelease => busy = []
  | TCreate _ | TStore | TDiscard => busy = [] \/ busy = [w]
  | _ => True
  end.

Definition served (s : gst) : bool := match s with TDiscard | TRelease | TDone => true | _ => false end.

Definition GI (c : gconf) : Prop :=
  (g_holder c = None -> g_busy c = []) /\
  (forall t, inside (g_th c t) = true <-> g_holder c = Some t) /\
  (forall t, busy_ok (g_th c t) (want t) (g_busy c)) /\
  (forall t, g_th c t <> TRaised) /\
  (forall t, served (g_th c t) = true -> In (want t) (g_cached c)).

Lemma set_th_same : forall c t s, set_th c t s t = s.
Proof. intros. unfold set_th. rewrite Nat.eqb_refl. reflexivity. Qed.
Lemma set_th_other : forall c t s u, u <> t -> set_th c t s u = g_th c u.
Proof. intros. unfold set_th. apply Nat.eqb_neq in H. rewrite H. reflexivity. Qed.
Lemma memb_in : forall x l, memb x l = true -> In x l.
Proof. intros x l H. unfold memb in H. apply existsb_exists in H. destruct H as [y [Hy E]]. apply Nat.eqb_eq in E. subst. assumption. Qed.
Lemma rm_nil : forall w, rm w [] = [].
Proof. reflexivity. Qed.
Lemma rm_single : forall w, rm w [w] = [].
Proof. intros. unfold rm. cbn. rewrite Nat.eqb_refl. reflexivity. Qed.
Lemma is_outside_false : is_outside pos = false.
Proof. unfold is_outside. destruct pos; auto. contradiction not_outside; reflexivity. Qed.

Lemma busy_ok_outside : forall s w b, inside s = false -> busy_ok s w b.
Proof. intros s w b H. destruct s; cbn in *; auto; discriminate. Qed.

Lemma GI_update : forall c t s' busy' cached' holder',
  GI c ->
  (holder' = None -> busy' = []) ->
  (inside s' = true <-> holder' = Some t) ->
  (forall u, u <> t -> (inside (g_th c u) = true <-> holder' = Some u)) ->
  busy_ok s' (want t) busy' ->
  (forall u, u <> t -> busy_ok (g_th c u) (want u) busy') ->
  s' <> TRaised ->
  (served s' = true -> In (want t) cached') ->
  (forall x, In x (g_cached c) -> In x cached') ->
  GI (mkG busy' cached' holder' (set_th c t s')).
Proof.
  intros c t s' busy' cached' holder' (H1 & H2 & H3 & H4 & H5) A B C D E F G K.
  repeat split; cbn [g_busy g_cached g_holder g_th].
  - assumption.
  - intros Hi. destruct (Nat.eq_dec t0 t) as [->|Hne].
    + rewrite set_th_same in Hi. apply B. assumption.
    + rewrite (set_th_other _ _ _ _ Hne) in Hi. apply C; assumption.
  - intros Hh. destruct (Nat.eq_dec t0 t) as [->|Hne].
    + rewrite set_th_same. apply B. assumption.
    + rewrite (set_th_other _ _ _ _ Hne). apply C; assumption.
  - intros u. destruct (Nat.eq_dec u t) as [->|Hne]; [rewrite set_th_same; assumption | rewrite (set_th_other _ _ _ _ Hne); apply E; assumption].
  - intros u. destruct (Nat.eq_dec u t) as [->|Hne]; [rewrite set_th_same; assumption | rewrite (set_th_other _ _ _ _ Hne); apply H4].
  - intros u. destruct (Nat.eq_dec u t) as [->|Hne]; [rewrite set_th_same; assumption |].
    rewrite (set_th_other _ _ _ _ Hne). intros Hs. apply K. apply H5. assumption.
Qed.

(* while t holds the lock no other thread is inside *)
Lemma others_outside : forall c t u, GI c -> g_holder c = Some t -> u <> t -> inside (g_th c u) = false.
Proof.
  intros c t u (_ & H2 & _) Hh Hne. destruct (inside (g_th c u)) eqn:E; [|reflexivity].
  apply H2 in E. congruence.
Qed.

Lemma GI_step : forall c t, GI c -> GI (gstep pos want len c t).
Proof.
  intros c t HG. pose proof HG as (H1 & H2 & H3 & H4 & H5). unfold gstep.
  pose proof (H2 t) as H2t. pose proof (H3 t) as H3t.
  assert (OUT : forall h, g_holder c = Some h -> forall u, u <> h -> busy_ok (g_th c u) (want u) (g_busy c) /\
                  forall b, busy_ok (g_th c u) (want u) b).
  { intros h Hh u Hne. split; [apply H3 | intros b; apply busy_ok_outside; eapply others_outside; eauto]. }
  destruct (g_th c t) eqn:Et; cbn [inside] in H2t; unfold busy_ok in H3t.
  - (* TStart -> TWait: nothing shared changes *)
    rewrite is_outside_false. cbn [andb]. apply GI_update; auto; cbn; try discriminate.
  - (* TWait *)
    destruct (g_holder c) as [h|] eqn:Eh; [assumption|].
    apply GI_update; auto; cbn; try discriminate.
    all: try solve [split; auto].
    all: try solve [intros u Hne; split; [intros Hi; apply H2 in Hi; discriminate | intros Hh; inversion Hh; congruence]].
    all: try solve [intros u _; rewrite (H1 eq_refl); apply busy_ok_outside;
                    destruct (inside (g_th c u)) eqn:E; [apply H2 in E; discriminate | reflexivity]].
    all: try solve [apply H1; reflexivity].
  - (* TIn *)
    assert (Hh : g_holder c = Some t) by (apply H2t; reflexivity).
    rewrite H3t. replace (memb (want t) []) with false by reflexivity. rewrite andb_false_r.
    destruct (memb (want t) (g_cached c)) eqn:Ec; apply GI_update; auto; cbn; try discriminate.
    all: try solve [rewrite Hh; discriminate].
    all: try solve [split; auto].
    all: try solve [intros u Hne; apply (OUT t Hh u Hne)].
    all: try solve [intros _; apply memb_in; assumption].
    all: try solve [destruct (has_guard pos); auto].
  - (* TCreate *)
    assert (Hh : g_holder c = Some t) by (apply H2t; reflexivity).
    destruct n; apply GI_update; auto; cbn; try discriminate.
    all: try solve [rewrite Hh; discriminate].
    all: try solve [split; auto].
    all: try solve [intros u Hne; apply (OUT t Hh u Hne)].
  - (* TStore *)
    assert (Hh : g_holder c = Some t) by (apply H2t; reflexivity).
    apply GI_update; auto; cbn; try discriminate.
    all: try solve [rewrite Hh; discriminate].
    all: try solve [split; auto].
    all: try solve [intros u Hne; apply (OUT t Hh u Hne)].
    all: auto.
  - (* TDiscard *)
    assert (Hh : g_holder c = Some t) by (apply H2t; reflexivity).
    assert (Hb : rm (want t) (g_busy c) = []) by (destruct H3t as [-> | ->]; [apply rm_nil | apply rm_single]).
    rewrite Hb. apply GI_update; auto; cbn; try discriminate.
    all: try solve [rewrite Hh; discriminate].
    all: try solve [split; auto].
    all: try solve [intros u Hne; apply (OUT t Hh u Hne)].
    all: try solve [intros _; apply H5; rewrite Et; reflexivity].
  - (* TRelease -> TDone *)
    assert (Hh : g_holder c = Some t) by (apply H2t; reflexivity).
    apply GI_update; auto; cbn; try discriminate.
    all: try solve [split; discriminate].
    all: try solve [intros u Hne; split; [|discriminate]; intros Hi; rewrite (others_outside c t u HG Hh Hne) in Hi; discriminate].
    all: try solve [intros u Hne; apply (OUT t Hh u Hne)].
    all: try solve [intros _; apply H5; rewrite Et; reflexivity].
  - assumption.
  - assumption.
Qed.

Lemma GI_init : GI (g_init).
Proof.
  repeat split; cbn; auto; try discriminate.
Qed.

Theorem GI_exec : forall sched, GI (gexec pos want len sched).
Proof.
  intros sched. unfold gexec. generalize GI_init. generalize g_init.
  induction sched as [|t s IH]; intros c Hc; cbn; [assumption | apply IH; apply GI_step; assumption].
Qed.

(* no thread ever gets the spurious KeyError; a thread that has finished finds its name cached; whenever the lock is free
   nothing is marked as being instantiated; the lock is held by exactly the thread inside *)
Theorem guard_safe : forall sched,
  let c := gexec pos want len sched in
  (forall t, g_th c t <> TRaised) /\ (forall t, g_th c t = TDone -> In (want t) (g_cached c)) /\
  (g_holder c = None -> g_busy c = []) /\ (forall t, inside (g_th c t) = true <-> g_holder c = Some t).
Proof.
  intros sched c. destruct (GI_exec sched) as (H1 & H2 & H3 & H4 & H5).
  split; [exact H4|]. split; [intros t E; apply H5; fold c; rewrite E; reflexivity|]. split; [exact H1 | exact H2].
Qed.
End G.

(* the source: SensorCache.get tests nothing that is written under the cache lock before it takes the lock *)
Theorem sensor_guard_not_outside : sensor_guard_pos <> GOutside.
Proof. vm_compute. discriminate. Qed.
Theorem sensor_no_spurious_keyerror : forall want len sched,
  let c := gexec sensor_guard_pos want len sched in
  (forall t, g_th c t <> TRaised) /\ (forall t, g_th c t = TDone -> In (want t) (g_cached c)) /\
  (g_holder c = None -> g_busy c = []) /\ (forall t, inside (g_th c t) = true <-> g_holder c = Some t).
Proof. intros. apply guard_safe. exact sensor_guard_not_outside. Qed.

(* the test outside the lock: thread 0 is instantiating name 7, thread 1 asks for it and is told it "depends on itself";
   alone, thread 1 is served *)
Theorem guard_outside_refuted :
  exists sched, g_th (gexec GOutside (fun _ => 7) (fun _ => 2) sched) 1 = TRaised /\
                g_th (gexec GOutside (fun _ => 7) (fun _ => 2) (filter (fun t => t =? 1) (sched ++ repeat 1 8))) 1 = TDone /\
                g_th (gexec GInside (fun _ => 7) (fun _ => 2) (sched ++ repeat 0 8 ++ repeat 1 8)) 1 = TDone.
Proof. exists [0; 0; 0; 1]. vm_compute. auto. Qed.
Theorem guard_inside_example :
  let c := gexec GInside (fun t => match t with 0 => 7 | 1 => 7 | _ => 9 end) (fun _ => 2) ([0; 0; 0; 1; 2; 1; 0; 2] ++ repeat 0 8 ++ repeat 1 10 ++ repeat 2 10) in
  g_th c 0 = TDone /\ g_th c 1 = TDone /\ g_th c 2 = TDone /\ g_busy c = [] /\ g_cached c = [9; 7].
Proof. vm_compute. auto. Qed.

(* the guarded fields as DERIVED from the source (written under the lock by a method other than __init__), and every
   mention of one of them outside the lock: only the three SensorCache methods on the not-verified list *)
Theorem outside_lock_mentions_listed :
  c20_outside_lock_mentions =
  [("sensor", ["add_aliases:_raw"; "__iter__:_raw"; "__len__:_raw"]); ("concat", []); ("dask", []); ("spw", []); ("pool", [])]%string
  /\ c20_guarded_derived =
  [("sensor", ["_raw"; "timestamps"]); ("concat", []); ("dask", ["_dataset"; "_orig_dataset"]); ("spw", ["_channel_freqs"]);
   ("pool", ["_pool"])]%string
  /\ c20_sensor_get_pretests = [].
Proof. repeat split; reflexivity. Qed.
