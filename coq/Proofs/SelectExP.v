(* C02: a concrete observation on which the hypotheses of the theorems are met (non-vacuity). *)
From Coq Require Import ZArith List Bool String Ascii Permutation.
From KV Require Import Base.Sx Base.Str Base.SelSlice Gen.Generated Model.Select
  Proofs.SelectBaseP Proofs.SelectP Proofs.SelectLawsP.
Import ListNotations.
Open Scope Z_scope.

Definition mkdump (ts scan state cscan label tgt : Z) : dump :=
  {| d_ts := ts; d_scan := scan; d_state := state; d_cscan := cscan; d_label := label; d_target := tgt |}.

(* 12 dumps, 3 compound scans of 4 dumps (1 slew dump, 3 track dumps), 3 targets, 2 antennas, 4 channels.
   states: 0 = slew, 1 = track; target names 10, 11 (alias of target 0), 20, 30; tags 1 = radec, 2 = bpcal, 3 = gaincal *)
Definition ex_obs : obs :=
  {| o_dumps := [mkdump 0 0 0 0 1 0; mkdump 4 1 1 0 1 0; mkdump 8 1 1 0 1 0; mkdump 12 1 1 0 1 0;
                 mkdump 16 2 0 1 1 1; mkdump 20 3 1 1 1 1; mkdump 24 3 1 1 1 1; mkdump 28 3 1 1 1 1;
                 mkdump 32 4 0 2 1 2; mkdump 36 5 1 2 1 2; mkdump 40 5 1 2 1 2; mkdump 44 5 1 2 1 2];
     o_half := 2;
     o_targets := [{| t_names := [10; 11]; t_tags := [1; 2] |}; {| t_names := [20]; t_tags := [1; 3] |};
                   {| t_names := [30]; t_tags := [1; 2; 3] |}];
     o_freqs := [8; 12; 16; 20]; o_halfw := 2;
     o_cps := [((0, 0), (0, 0)); ((0, 1), (0, 1)); ((1, 0), (1, 0)); ((1, 1), (1, 1)); ((0, 0), (1, 0)); ((0, 1), (1, 1))] |}.

Definition ex_c1 : kwargs := [("scans"%string, VScans [SName 1]); ("pol"%string, VPols [POne 0])].
Definition ex_c2 : kwargs := [("channels"%string, VIdx (IxSlice (Some 1) (Some 3) None))].
Definition ex_c3 : kwargs := [("targets"%string, VTargets [TName 11; TName 30]); ("reset"%string, VStr "")].
Definition ex_c3' : kwargs := [("targets"%string, VTargets [TName 11; TName 30])].
Definition ex_c4 : kwargs := [("timerange"%string, VRange 2 30); ("flags"%string, VAtom 3)].
Definition ex_history : list kwargs := [ex_c1; ex_c2; ex_c3; ex_c4].

Definition get (r : res st) : st := match r with Ok s => s | Err _ => init ex_obs end.
Definition ex_s1 : st := Eval vm_compute in get (select ex_obs (init ex_obs) ex_c1).
Definition ex_s2 : st := Eval vm_compute in get (select ex_obs ex_s1 ex_c2).
Definition ex_s3 : st := Eval vm_compute in get (select ex_obs ex_s2 ex_c3).
Definition ex_s3' : st := Eval vm_compute in get (select ex_obs ex_s2 ex_c3').
Definition ex_s4 : st := Eval vm_compute in get (select ex_obs ex_s3 ex_c4).

Definition b (z : Z) : bool := negb (z =? 0).

Example ex_steps :
  select ex_obs (init ex_obs) ex_c1 = Ok ex_s1 /\ select ex_obs ex_s1 ex_c2 = Ok ex_s2 /\
  select ex_obs ex_s2 ex_c3 = Ok ex_s3 /\ select ex_obs ex_s2 ex_c3' = Ok ex_s3' /\
  select ex_obs ex_s3 ex_c4 = Ok ex_s4.
Proof. repeat split; vm_compute; reflexivity. Qed.

Example ex_run :
  run ex_obs (init ex_obs) ex_history = Ok ex_s4 /\ reachable ex_obs ex_s4
  /\ Forall (fun c => NoDup (keys c)) ex_history
  /\ tk ex_s4 = map b [0;1;1;1; 1;1;1;1; 0;0;0;0] /\ fk ex_s4 = map b [0;1;1;0] /\ bk ex_s4 = map b [1;0;1;0;1;0]
  /\ flk ex_s4 = VAtom 3
  /\ keys (sel ex_s4) = ["spw"; "subarray"; "pol"; "channels"; "timerange"; "flags"]%string.
Proof.
  destruct ex_steps as [E1 [E2 [E3 [_ E4]]]].
  split; [vm_compute; reflexivity|]. split.
  - eapply reach_step; [|exact E4]. eapply reach_step; [|exact E3]. eapply reach_step; [|exact E2].
    eapply reach_step; [|exact E1]. apply reach_init.
  - split; [|vm_compute; repeat split; reflexivity].
    repeat constructor; simpl; intuition discriminate.
Qed.

(* the stacked third call (reset='') really used the retained scans criterion (slew dumps 0 and 8 stay out);
   with the default reset the same criterion replaces it *)
Example ex_stack_vs_replace :
  tk ex_s3 = map b [0;1;1;1; 0;0;0;0; 0;1;1;1] /\ tk ex_s3' = map b [1;1;1;1; 0;0;0;0; 1;1;1;1].
Proof. split; vm_compute; reflexivity. Qed.
