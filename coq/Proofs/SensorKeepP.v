(* C12: proofs about the general time selection `keep` (Model/SensorKeep.v). *)
From Coq Require Import ZArith List Bool Lia ZifyBool.
From KV Require Import Model.Interp Model.SensorKeep.
Import ListNotations.
Local Open Scope Z_scope.

(* ---------------------------------------------------------------- k_all *)
Lemma k_all_some : forall A (l : list A), k_all (map Some l) = Some l.
Proof. induction l; simpl; [reflexivity|]. now rewrite IHl. Qed.

Lemma k_all_length : forall A (l : list (option A)) r, k_all l = Some r -> List.length r = List.length l.
Proof.
  induction l as [|[a|] t IH]; simpl; intros r H; try discriminate.
  - now inversion H.
  - destruct (k_all t) eqn:E; [|discriminate]. inversion H; subst. simpl. f_equal. now apply IH.
Qed.

Lemma k_all_nth : forall A (l : list (option A)) r j, k_all l = Some r ->
  (j < List.length l)%nat -> nth_error l j = Some (nth_error r j).
Proof.
  induction l as [|[a|] t IH]; simpl; intros r j H Hj; try discriminate; try lia.
  destruct (k_all t) eqn:E; [|discriminate]. inversion H; subst.
  destruct j; simpl; [reflexivity|]. apply IH; [reflexivity|lia].
Qed.

Lemma k_all_none : forall A (l : list (option A)), k_all l = None <-> In None l.
Proof.
  induction l as [|[a|] t IH]; simpl.
  - split; [discriminate|tauto].
  - destruct (k_all t); split; intro H; try discriminate.
    + destruct H as [H|H]; [discriminate|]. apply IH in H. discriminate.
    + right. now apply IH.
    + reflexivity.
  - split; auto.
Qed.

(* ---------------------------------------------------------------- forward walk with step 1 *)
Lemma k_walk_step1 : forall m fuel cur, (m < fuel)%nat ->
  k_walk fuel cur (cur + Z.of_nat m) 1 = map (fun i => cur + Z.of_nat i) (seq 0 m).
Proof.
  induction m; intros fuel cur Hf.
  - destruct fuel; [lia|]. simpl. replace (cur + 0 <? cur + 0) with false by lia.
    destruct (cur <? cur + 0) eqn:E; [lia|reflexivity].
  - destruct fuel; [lia|]. cbn [k_walk]. replace (0 <? 1) with true by reflexivity.
    replace (cur <? cur + Z.of_nat (S m)) with true by lia.
    replace (cur + Z.of_nat (S m)) with ((cur + 1) + Z.of_nat m) by lia.
    rewrite IHm by lia. cbn [seq map]. f_equal; [f_equal; lia|].
    rewrite <- seq_shift, map_map. apply map_ext. intro i. lia.
Qed.

Lemma nth_error_block : forall A (mid pre post : list A),
  map (fun i => nth_error (pre ++ mid ++ post) (List.length pre + i)) (seq 0 (List.length mid)) = map Some mid.
Proof.
  intros A mid. induction mid as [|a t IH]; intros pre post; [reflexivity|].
  cbn [List.length seq map]. f_equal.
  - rewrite Nat.add_0_r, nth_error_app2 by lia. now rewrite Nat.sub_diag.
  - rewrite <- seq_shift, map_map.
    specialize (IH (pre ++ [a]) post). rewrite <- app_assoc in IH. cbn [app] in IH.
    rewrite <- IH. apply map_ext. intro i. rewrite app_length. cbn [List.length]. f_equal. lia.
Qed.

(* a[a0:b0] for 0 <= a0 <= b0 <= n is the contiguous block *)
Lemma keep_slice_contiguous : forall A (l : list A) a b,
  0 <= a <= b -> b <= Z.of_nat (List.length l) ->
  apply_keep (KpSlice (Some a) (Some b) None) l = KrVals (firstn (Z.to_nat (b - a)) (skipn (Z.to_nat a) l)).
Proof.
  intros A l a b Hab Hb. unfold apply_keep, k_positions, k_adjust.
  replace (1 =? 0) with false by reflexivity. replace (1 <? 0) with false by reflexivity.
  replace (a <? 0) with false by lia. replace (b <? 0) with false by lia.
  rewrite (Z.min_l a) by lia. rewrite (Z.min_l b) by lia.
  replace b with (a + Z.of_nat (Z.to_nat (b - a))) at 1 by lia.
  rewrite k_walk_step1 by lia. rewrite map_map.
  set (na := Z.to_nat a). set (m := Z.to_nat (b - a)).
  assert (Hl : l = firstn na l ++ firstn m (skipn na l) ++ skipn m (skipn na l))
    by now rewrite !firstn_skipn.
  assert (Hna : List.length (firstn na l) = na) by (rewrite firstn_length; lia).
  assert (Hm : List.length (firstn m (skipn na l)) = m)
    by (rewrite firstn_length, skipn_length; lia).
  rewrite (map_ext _ (fun i => nth_error l (na + i))) by (intro i; f_equal; lia).
  pose proof (nth_error_block A (firstn m (skipn na l)) (firstn na l) (skipn m (skipn na l))) as E.
  rewrite Hna, Hm in E.
  rewrite <- Hl in E. rewrite E, k_all_some. reflexivity.
Qed.

(* the default keep, slice(None), selects everything: cache[name] = cache.get(name) *)
Lemma keep_default_identity : forall A (l : list A), apply_keep keep_default l = KrVals l.
Proof.
  intros A l. unfold keep_default, apply_keep, k_positions, k_adjust.
  change (1 =? 0) with false. change (1 <? 0) with false. cbv iota.
  pose proof (k_walk_step1 (List.length l) (S (List.length l)) 0 ltac:(lia)) as W.
  change (0 + Z.of_nat (List.length l)) with (Z.of_nat (List.length l)) in W. rewrite W, map_map.
  pose proof (nth_error_block A l [] []) as E. cbn [app List.length Nat.add] in E. rewrite app_nil_r in E.
  rewrite (map_ext _ (fun i => nth_error l i)) by (intro i; change (0 + Z.of_nat i) with (Z.of_nat i); now rewrite Nat2Z.id).
  rewrite E, k_all_some. reflexivity.
Qed.

(* a boolean mask of the right length is the selection the cache model (select_mask) uses; an EMPTY mask selects
   nothing (numpy special case); any other length is an IndexError, never a silently truncated selection *)
Lemma keep_mask_spec : forall A (m : list bool) (l : list A),
  apply_keep (KpMask m) l =
  if Nat.eqb (List.length m) (List.length l) then KrVals (select_mask m l)
  else match m with [] => KrVals [] | _ => KrIndexErr end.
Proof.
  intros A m l. unfold apply_keep. destruct (Nat.eqb (List.length m) (List.length l)); [reflexivity|].
  destruct m; reflexivity.
Qed.

(* ---------------------------------------------------------------- integer indices *)
Lemma k_wrap_spec : forall n i p, k_wrap n i = Some p <->
  (- n <= i < n /\ p = Z.to_nat (i mod n)).
Proof.
  intros n i p. unfold k_wrap.
  destruct ((0 <=? i) && (i <? n)) eqn:E1.
  - assert (R : 0 <= i < n) by lia. rewrite Z.mod_small by lia. split.
    + intro Hx; inversion Hx. lia.
    + intros [_ ->]. reflexivity.
  - destruct ((- n <=? i) && (i <? 0)) eqn:E2.
    + assert (R : - n <= i < 0) by lia.
      assert (M : i mod n = i + n).
      { symmetry. apply (Z.mod_unique_pos i n (-1) (i + n)); lia. }
      split.
      * intro Hx; inversion Hx. split; [lia|]. now rewrite M.
      * intros [_ ->]. now rewrite M.
    + split; [discriminate|]. intros [Hx _]. lia.
Qed.

Lemma keep_int_spec : forall A (l : list A) i a,
  apply_keep (KpInt i) l = KrScalar a <->
  (- Z.of_nat (List.length l) <= i < Z.of_nat (List.length l) /\
   nth_error l (Z.to_nat (i mod Z.of_nat (List.length l))) = Some a).
Proof.
  intros A l i a. unfold apply_keep.
  destruct (k_wrap (Z.of_nat (List.length l)) i) as [p|] eqn:E.
  - apply k_wrap_spec in E. destruct E as [Hr ->].
    destruct (nth_error l _) eqn:N; split.
    + intro H; inversion H; subst. auto.
    + intros [_ H]. inversion H. reflexivity.
    + discriminate.
    + intros [_ H]. discriminate.
  - split; [discriminate|]. intros [Hr _].
    assert (X : k_wrap (Z.of_nat (List.length l)) i = Some (Z.to_nat (i mod Z.of_nat (List.length l))))
      by (apply k_wrap_spec; auto).
    rewrite X in E. discriminate.
Qed.

Lemma keep_int_error : forall A (l : list A) i,
  apply_keep (KpInt i) l = KrIndexErr <->
  ~ (- Z.of_nat (List.length l) <= i < Z.of_nat (List.length l)).
Proof.
  intros A l i. unfold apply_keep.
  destruct (k_wrap (Z.of_nat (List.length l)) i) as [p|] eqn:E.
  - apply k_wrap_spec in E. destruct E as [Hr ->].
    destruct (nth_error l _) eqn:N.
    + split; [discriminate|tauto].
    + exfalso. apply nth_error_None in N.
      assert (0 <= i mod Z.of_nat (List.length l) < Z.of_nat (List.length l)) by (apply Z.mod_pos_bound; lia).
      lia.
  - split; auto. intros _ Hr.
    assert (X : k_wrap (Z.of_nat (List.length l)) i = Some (Z.to_nat (i mod Z.of_nat (List.length l))))
      by (apply k_wrap_spec; auto).
    rewrite X in E. discriminate.
Qed.

(* a[[i0, i1, ...]]: one value per index, in the order of the index list, each taken at i mod n; IndexError iff
   some index lies outside [-n, n) *)
Lemma keep_idx_spec : forall A (l : list A) ix r,
  apply_keep (KpIdx ix) l = KrVals r ->
  List.length r = List.length ix /\
  forall j i, nth_error ix j = Some i ->
    - Z.of_nat (List.length l) <= i < Z.of_nat (List.length l) /\
    nth_error r j = nth_error l (Z.to_nat (i mod Z.of_nat (List.length l))) /\ nth_error r j <> None.
Proof.
  intros A l ix r. unfold apply_keep.
  set (f := fun i => match k_wrap (Z.of_nat (List.length l)) i with Some p => nth_error l p | None => None end).
  destruct (k_all (map f ix)) as [r'|] eqn:E; [|discriminate].
  intro H; inversion H; subst r'. clear H.
  pose proof (k_all_length _ _ _ E) as HL. rewrite map_length in HL. split; [exact HL|].
  intros j i Hj.
  assert (Hjl : (j < List.length (map f ix))%nat)
    by (rewrite map_length; apply nth_error_Some; congruence).
  pose proof (k_all_nth _ _ _ j E Hjl) as N.
  rewrite nth_error_map, Hj in N. cbn in N.
  assert (N' : f i = nth_error r j) by congruence. clear N.
  assert (NS : nth_error r j <> None) by (apply nth_error_Some; rewrite map_length in Hjl; lia).
  unfold f in N'. destruct (k_wrap (Z.of_nat (List.length l)) i) as [p|] eqn:W.
  - apply k_wrap_spec in W. destruct W as [Hr ->]. split; [exact Hr|]. split; [now rewrite N'|exact NS].
  - exfalso. congruence.
Qed.

Lemma keep_idx_error : forall A (l : list A) ix,
  apply_keep (KpIdx ix) l = KrIndexErr <->
  exists i, In i ix /\ ~ (- Z.of_nat (List.length l) <= i < Z.of_nat (List.length l)).
Proof.
  intros A l ix. unfold apply_keep.
  set (f := fun i => match k_wrap (Z.of_nat (List.length l)) i with Some p => nth_error l p | None => None end).
  destruct (k_all (map f ix)) as [r'|] eqn:E.
  - split; [discriminate|]. intros [i [Hi Hr]]. exfalso.
    assert (In None (map f ix)).
    { apply in_map_iff. exists i. split; [|exact Hi]. unfold f.
      destruct (k_wrap (Z.of_nat (List.length l)) i) eqn:W; [|reflexivity].
      apply k_wrap_spec in W. tauto. }
    apply k_all_none in H. congruence.
  - split; [intros _|reflexivity]. apply k_all_none in E. apply in_map_iff in E.
    destruct E as [i [Hf Hi]]. exists i. split; [exact Hi|]. intro Hr. unfold f in Hf.
    assert (X : k_wrap (Z.of_nat (List.length l)) i = Some (Z.to_nat (i mod Z.of_nat (List.length l))))
      by (apply k_wrap_spec; auto).
    rewrite X in Hf. apply nth_error_None in Hf.
    assert (0 <= i mod Z.of_nat (List.length l) < Z.of_nat (List.length l)) by (apply Z.mod_pos_bound; lia).
    lia.
Qed.

(* the index-list form of a selection (np.nonzero(mask)[0]) and its mask form select the same values *)
Lemma idx_of_mask_gen : forall A (m : list bool) (pre l full : list A) pos,
  List.length m = List.length l -> full = pre ++ l -> pos = Z.of_nat (List.length pre) ->
  k_all (map (fun i => match k_wrap (Z.of_nat (List.length full)) i with
                       | Some p => nth_error full p | None => None end)
             (true_pos m pos)) = Some (select_mask m l).
Proof.
  intros A m. induction m as [|b m IH]; intros pre l full pos HL HF HP;
    destruct l as [|a l]; try discriminate; [reflexivity|].
  cbn [true_pos select_mask]. simpl in HL.
  assert (IH' := IH (pre ++ [a]) l full (pos + 1) ltac:(lia)
                    ltac:(rewrite <- app_assoc; exact HF)
                    ltac:(rewrite app_length; cbn [List.length]; lia)).
  destruct b; [|exact IH'].
  cbn [map k_all]. rewrite IH'.
  assert (W : k_wrap (Z.of_nat (List.length full)) pos = Some (List.length pre)).
  { apply k_wrap_spec. subst full pos. rewrite app_length. cbn [List.length]. split; [lia|].
    rewrite Z.mod_small by lia. now rewrite Nat2Z.id. }
  rewrite W. subst full. rewrite nth_error_app2 by lia. rewrite Nat.sub_diag. reflexivity.
Qed.

Lemma keep_idx_of_mask : forall A (m : list bool) (l : list A),
  List.length m = List.length l ->
  apply_keep (KpIdx (true_pos m 0)) l = apply_keep (KpMask m) l.
Proof.
  intros A m l HL. unfold apply_keep.
  rewrite (idx_of_mask_gen A m [] l l 0 HL eq_refl eq_refl).
  rewrite HL, Nat.eqb_refl. reflexivity.
Qed.

(* ---------------------------------------------------------------- the walk against the declarative slice *)
Lemma k_walk_in_fwd : forall fuel cur s1 st p, 0 < st ->
  In p (k_walk fuel cur s1 st) -> cur <= p < s1 /\ (st | p - cur).
Proof.
  induction fuel; intros cur s1 st p Hst H; [contradiction|].
  cbn [k_walk] in H. replace (0 <? st) with true in H by lia.
  destruct (cur <? s1) eqn:E; [|contradiction].
  destruct H as [<-|H].
  - split; [lia|]. exists 0. lia.
  - apply IHfuel in H; [|exact Hst]. destruct H as [Hb [k Hk]]. split; [lia|]. exists (k + 1). lia.
Qed.

Lemma k_walk_in_bwd : forall fuel cur s1 st p, st < 0 ->
  In p (k_walk fuel cur s1 st) -> s1 < p <= cur /\ (st | p - cur).
Proof.
  induction fuel; intros cur s1 st p Hst H; [contradiction|].
  cbn [k_walk] in H. replace (0 <? st) with false in H by lia.
  destruct (s1 <? cur) eqn:E; [|contradiction].
  destruct H as [<-|H].
  - split; [lia|]. exists 0. lia.
  - apply IHfuel in H; [|exact Hst]. destruct H as [Hb [k Hk]]. split; [lia|]. exists (k + 1). lia.
Qed.

Lemma k_walk_complete_fwd : forall fuel cur s1 st k, 0 < st -> 0 <= k -> (Z.to_nat k < fuel)%nat ->
  cur + k * st < s1 -> In (cur + k * st) (k_walk fuel cur s1 st).
Proof.
  induction fuel; intros cur s1 st k Hst Hk Hf Hlt; [lia|].
  cbn [k_walk]. replace (0 <? st) with true by lia.
  assert (cur <? s1 = true) by nia. rewrite H.
  destruct (Z.eq_dec k 0) as [->|Hk0]; [left; lia|]. right.
  replace (cur + k * st) with ((cur + st) + (k - 1) * st) by lia.
  apply IHfuel; try lia.
Qed.

Lemma k_walk_complete_bwd : forall fuel cur s1 st k, st < 0 -> 0 <= k -> (Z.to_nat k < fuel)%nat ->
  s1 < cur + k * st -> In (cur + k * st) (k_walk fuel cur s1 st).
Proof.
  induction fuel; intros cur s1 st k Hst Hk Hf Hlt; [lia|].
  cbn [k_walk]. replace (0 <? st) with false by lia.
  assert (s1 <? cur = true) by nia. rewrite H.
  destruct (Z.eq_dec k 0) as [->|Hk0]; [left; lia|]. right.
  replace (cur + k * st) with ((cur + st) + (k - 1) * st) by lia.
  apply IHfuel; try lia.
Qed.

Lemma k_adjust_bounds : forall n a b s s0 s1 st, 0 <= n ->
  k_adjust n a b s = Some (s0, s1, st) ->
  st <> 0 /\ (0 < st -> 0 <= s0 <= n /\ 0 <= s1 <= n) /\ (st < 0 -> -1 <= s0 <= n - 1 /\ -1 <= s1 <= n - 1).
Proof.
  intros n a b s s0 s1 st Hn H. unfold k_adjust in H.
  destruct (match s with None => 1 | Some s => s end =? 0) eqn:E0; [discriminate|].
  inversion H; subst st. clear H.
  set (stp := match s with None => 1 | Some s => s end) in *.
  split; [lia|].
  destruct (stp <? 0) eqn:Es; split; intro; try lia;
    destruct a as [a|]; destruct b as [b|]; subst s0 s1;
    repeat match goal with |- context [?x <? 0] => destruct (x <? 0) eqn:? end; lia.
Qed.

(* EXACTLY the positions of the declarative slice are selected *)
Lemma keep_slice_positions : forall n a b s ps s0 s1 st,
  k_positions n a b s = Some ps -> k_adjust (Z.of_nat n) a b s = Some (s0, s1, st) ->
  forall p, In p ps <-> slice_selects (Z.of_nat n) s0 s1 st p.
Proof.
  intros n a b s ps s0 s1 st HP HA p. unfold k_positions in HP. rewrite HA in HP.
  assert (Eps : ps = k_walk (S n) s0 s1 st) by congruence. subst ps. clear HP.
  destruct (k_adjust_bounds _ _ _ _ _ _ _ (Nat2Z.is_nonneg n) HA) as [Hne [Hf Hb]].
  unfold slice_selects.
  destruct (0 <? st) eqn:Es.
  - assert (Hst : 0 < st) by lia. specialize (Hf Hst). split.
    + intro H. apply k_walk_in_fwd in H; [|exact Hst]. destruct H as [Hr Hd].
      split; [lia|]. split; [exact Hd|lia].
    + intros [Hr [[k Hk] Hs]].
      replace p with (s0 + k * st) by lia.
      apply k_walk_complete_fwd; try lia; nia.
  - assert (Hst : st < 0) by lia. specialize (Hb Hst). split.
    + intro H. apply k_walk_in_bwd in H; [|exact Hst]. destruct H as [Hr Hd].
      split; [lia|]. split; [exact Hd|lia].
    + intros [Hr [[k Hk] Hs]].
      replace p with (s0 + k * st) by lia.
      apply k_walk_complete_bwd; try lia; nia.
Qed.

(* a slice never raises IndexError and a zero step is the only ValueError *)
Lemma keep_slice_total : forall A (l : list A) a b s,
  (s = Some 0 -> apply_keep (KpSlice a b s) l = KrValueErr) /\
  (s <> Some 0 -> exists r, apply_keep (KpSlice a b s) l = KrVals r).
Proof.
  intros A l a b s. split.
  - intros ->. reflexivity.
  - intro Hs. unfold apply_keep.
    destruct (k_positions (List.length l) a b s) as [ps|] eqn:HP.
    + destruct (k_all (map (fun p => nth_error l (Z.to_nat p)) ps)) as [r|] eqn:E; [eauto|].
      exfalso. apply k_all_none in E. apply in_map_iff in E. destruct E as [p [Hn Hi]].
      unfold k_positions in HP.
      destruct (k_adjust (Z.of_nat (List.length l)) a b s) as [[[s0 s1] st]|] eqn:HA; [|discriminate].
      assert (HP' : k_positions (List.length l) a b s = Some ps) by (unfold k_positions; now rewrite HA).
      apply (keep_slice_positions _ _ _ _ _ _ _ _ HP' HA) in Hi. destruct Hi as [Hr _].
      apply nth_error_None in Hn. lia.
    + exfalso. unfold k_positions, k_adjust in HP.
      destruct s as [s|]; cbn in HP.
      * destruct (s =? 0) eqn:E; [|discriminate]. apply Hs. f_equal. lia.
      * discriminate.
Qed.

(* the selected values are the values AT the selected positions, in walk order *)
Lemma keep_slice_values : forall A (l : list A) a b s ps r,
  k_positions (List.length l) a b s = Some ps -> apply_keep (KpSlice a b s) l = KrVals r ->
  map Some r = map (fun p => nth_error l (Z.to_nat p)) ps.
Proof.
  intros A l a b s ps r HP H. unfold apply_keep in H. rewrite HP in H.
  destruct (k_all (map (fun p => nth_error l (Z.to_nat p)) ps)) as [r'|] eqn:E; [|discriminate].
  inversion H; subst r'. clear H HP.
  revert E. generalize (map (fun p => nth_error l (Z.to_nat p)) ps). clear. intro l0. revert r.
  induction l0 as [|[x|] t IH]; intros r E; simpl in E; try discriminate.
  - inversion E. reflexivity.
  - destruct (k_all t) eqn:E'; [|discriminate]. inversion E; subst. cbn [map]. f_equal. now apply IH.
Qed.

(* non-vacuity / documented examples: numpy's a[1::2], a[::-2], a[-1], a[[0, 2, -1]], wrong mask length, index 7 of 7 *)
Example keep_examples :
  apply_keep (KpSlice (Some 1) None (Some 2)) [10; 11; 12; 13; 14; 15; 16] = KrVals [11; 13; 15] /\
  apply_keep (KpSlice None None (Some (-2))) [10; 11; 12; 13; 14; 15; 16] = KrVals [16; 14; 12; 10] /\
  apply_keep (KpSlice (Some (-3)) (Some 100) None) [10; 11; 12; 13; 14; 15; 16] = KrVals [14; 15; 16] /\
  apply_keep (KpSlice None None (Some 0)) [10; 11] = KrValueErr /\
  apply_keep (KpInt (-1)) [10; 11; 12] = KrScalar 12 /\
  apply_keep (KpInt 3) [10; 11; 12] = KrIndexErr /\
  apply_keep (KpIdx [0; 2; -1; 0]) [10; 11; 12] = KrVals [10; 12; 12; 10] /\
  apply_keep (KpIdx [0; 3]) [10; 11; 12] = KrIndexErr /\
  apply_keep (KpIdx []) [10; 11; 12] = KrVals [] /\
  apply_keep (KpMask [true; false]) [10; 11; 12] = KrIndexErr /\
  apply_keep (KpMask [true; false; true]) [10; 11; 12] = KrVals [10; 12].
Proof. vm_compute. repeat split. Qed.
