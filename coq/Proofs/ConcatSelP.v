(* C19: select() on a concatenation commutes with select() on the parts (Model/ConcatSel.v). *)
From Coq Require Import ZArith List Bool String Ascii Lia PeanoNat.
From KV Require Import Base.Sx Base.Str Base.SelSlice Gen.Generated Model.Select
  Proofs.SelectBaseP Proofs.SelectP Proofs.SelectLawsP Model.ConcatSel.
From KV Require Model.Categorical Model.Concat Proofs.CategoricalConcatP.
Import ListNotations.
Open Scope Z_scope.

Notation zd := Categorical.zd.
Notation zindex := Concat.zindex.

(* ------------------------------------------------------------------ 1. segments of lists *)
Lemma seg_map {A B} (g : A -> B) t (l : list A) : seg t (map g l) = map g (seg t l).
Proof. unfold seg. rewrite skipn_map, firstn_map. reflexivity. Qed.

Lemma firstn_mand : forall n a b, firstn n (mand a b) = mand (firstn n a) (firstn n b).
Proof. induction n as [|n IH]; intros [|x a] [|y b]; simpl; try reflexivity. f_equal. apply IH. Qed.
Lemma skipn_mand : forall n a b, skipn n (mand a b) = mand (skipn n a) (skipn n b).
Proof.
  induction n as [|n IH]; intros [|x a] [|y b]; simpl; try reflexivity.
  - destruct (skipn n a); reflexivity.
  - apply IH.
Qed.
Lemma seg_mand t a b : seg t (mand a b) = mand (seg t a) (seg t b).
Proof. unfold seg. rewrite skipn_mand, firstn_mand. reflexivity. Qed.

Lemma seg_fold_mand t : forall Ms base,
  fold_left mand (map (seg t) Ms) (seg t base) = seg t (fold_left mand Ms base).
Proof. induction Ms as [|M Ms IH]; intros base; simpl; [reflexivity|]. rewrite <- seg_mand. apply IH. Qed.

Lemma seg_length {A} t (l : list A) : (tr_lo t + tr_len t <= List.length l)%nat -> List.length (seg t l) = tr_len t.
Proof. intro H. unfold seg. rewrite firstn_length, skipn_length. lia. Qed.

Lemma skipn_repeat_ {A} (x : A) : forall k n, skipn k (repeat x n) = repeat x (n - k).
Proof. induction k as [|k IH]; intros [|n]; simpl; try reflexivity. apply IH. Qed.
Lemma firstn_repeat_ {A} (x : A) : forall k n, firstn k (repeat x n) = repeat x (Nat.min k n).
Proof. induction k as [|k IH]; intros [|n]; simpl; try reflexivity. f_equal. apply IH. Qed.

Lemma seg_ones t n : (tr_lo t + tr_len t <= n)%nat -> seg t (ones n) = ones (tr_len t).
Proof.
  intro H. unfold seg, ones. rewrite skipn_repeat_, firstn_repeat_. f_equal. lia.
Qed.

Lemma exb_map {A B} (g : A -> B) (f : B -> bool) l : existsb f (map g l) = existsb (fun x => f (g x)) l.
Proof. induction l; simpl; [reflexivity|]. rewrite IHl. reflexivity. Qed.
Lemma exb_ext {A} (f g : A -> bool) l : (forall x, f x = g x) -> existsb f l = existsb g l.
Proof. intro H. induction l; simpl; [reflexivity|]. rewrite H, IHl. reflexivity. Qed.
Lemma exb_ext_in {A} (f g : A -> bool) l : (forall x, In x l -> f x = g x) -> existsb f l = existsb g l.
Proof. intro H. induction l; simpl; [reflexivity|]. rewrite H, IHl; auto; [intros; apply H; right; auto|left; auto]. Qed.
Lemma exb_flat_map {A B} (g : A -> list B) (f : B -> bool) l : existsb f (flat_map g l) = existsb (fun x => existsb f (g x)) l.
Proof. induction l; simpl; [reflexivity|]. rewrite existsb_app, IHl. reflexivity. Qed.

Lemma fab_map {A B} (g : A -> B) (f : B -> bool) l : forallb f (map g l) = forallb (fun x => f (g x)) l.
Proof. induction l; simpl; [reflexivity|]. rewrite IHl. reflexivity. Qed.

(* ------------------------------------------------------------------ 2. a part seen inside the whole *)
Definition shift_dump (t : tr) (d : dump) : dump :=
  {| d_ts := d_ts d; d_scan := d_scan d + tr_so t; d_state := d_state d;
     d_cscan := d_cscan d + tr_co t; d_label := d_label d;
     d_target := zindex (tr_cat t) (nth (Z.to_nat (d_target d)) (tr_uv t) zd) |}.

Record rel1 (e : env) (mo po : obs) (t : tr) : Prop := {
  r_dumps : seg t (o_dumps mo) = map (shift_dump t) (o_dumps po);
  r_len : tr_len t = List.length (o_dumps po);
  r_n : tr_n t = List.length (o_dumps mo);
  r_fit : (tr_lo t + tr_len t <= tr_n t)%nat;
  r_half : o_half po = o_half mo;
  r_freqs : o_freqs po = o_freqs mo;
  r_halfw : o_halfw po = o_halfw mo;
  r_cps : o_cps po = o_cps mo;
  r_tm : o_targets mo = map (tgt_of e) (tr_cat t);
  r_tp : o_targets po = map (tgt_of e) (tr_uv t);
  r_nd_cat : NoDup (tr_cat t);
  r_nd_uv : NoDup (tr_uv t);
  r_incl : incl (tr_uv t) (tr_cat t);
  r_range : Forall (fun d => 0 <= d_target d < Z.of_nat (List.length (tr_uv t))) (o_dumps po)
}.

Section Rel.
Variables (e : env) (mo po : obs) (t : tr).
Hypothesis R : rel1 e mo po t.

Lemma seg_dump_mask (g h : dump -> bool) :
  (forall d, In d (o_dumps po) -> g (shift_dump t d) = h d) ->
  seg t (map g (o_dumps mo)) = map h (o_dumps po).
Proof.
  intro H. rewrite seg_map, (r_dumps _ _ _ _ R), map_map. apply map_ext_in. exact H.
Qed.

(* ---- dumps *)
Lemma commute_dumps v M : crit mo "dumps" v = CMask DT M ->
  crit po "dumps" (tr_value t "dumps" v) = CMask DT (seg t M).
Proof.
  cbn. destruct v; try discriminate. rewrite (r_n _ _ _ _ R).
  destruct (index_mask (List.length (o_dumps mo)) i) as [m|] eqn:E; cbn; [|discriminate].
  intro H. inversion H; subst. cbn. rewrite <- (r_len _ _ _ _ R).
  rewrite seg_length; [rewrite Nat.eqb_refl; reflexivity|].
  rewrite (index_mask_len _ _ _ E), <- (r_n _ _ _ _ R). apply (r_fit _ _ _ _ R).
Qed.

(* ---- timerange *)
Lemma commute_timerange v M : crit mo "timerange" v = CMask DT M ->
  crit po "timerange" (tr_value t "timerange" v) = CMask DT (seg t M).
Proof.
  cbn. destruct v; try discriminate. intro H. inversion H; subst. f_equal. unfold timerange_mask.
  symmetry. rewrite (r_half _ _ _ _ R). apply seg_dump_mask. reflexivity.
Qed.

(* ---- scans / compscans *)
Lemma sitem_shift off s st it : sitem_keep (s + off) st it = sitem_keep s st (tr_sitem off it).
Proof.
  destruct it; cbn; try reflexivity. destruct (Z.eqb_spec (s + off) z), (Z.eqb_spec s (z - off)); try reflexivity; lia.
Qed.

Lemma commute_scans v M : crit mo "scans" v = CMask DT M ->
  crit po "scans" (tr_value t "scans" v) = CMask DT (seg t M).
Proof.
  cbn. destruct v; try discriminate. intro H. inversion H; subst. f_equal. unfold scans_mask.
  symmetry. apply seg_dump_mask. intros d _. cbn. rewrite exb_map. apply exb_ext. intro it. apply sitem_shift.
Qed.

Lemma commute_compscans v M : crit mo "compscans" v = CMask DT M ->
  crit po "compscans" (tr_value t "compscans" v) = CMask DT (seg t M).
Proof.
  cbn. destruct v; try discriminate. intro H. inversion H; subst. f_equal. unfold compscans_mask.
  symmetry. apply seg_dump_mask. intros d _. cbn. rewrite exb_map. apply exb_ext. intro it. apply sitem_shift.
Qed.

(* ---- targets *)
Lemma memZ_flat_map {A} (F : A -> list Z) x l : memZ x (flat_map F l) = existsb (fun a => memZ x (F a)) l.
Proof. unfold memZ. apply exb_flat_map. Qed.

Lemma enum_from {A} (Q : A -> Z -> bool) : forall (l : list A) s q,
  existsb (fun p => Q (snd p) (fst p) && (Z.of_nat q =? fst p)) (combine (map Z.of_nat (seq s (List.length l))) l)
  = match (if (s <=? q)%nat then nth_error l (q - s) else None) with Some a => Q a (Z.of_nat q) | None => false end.
Proof.
  induction l as [|a l IH]; intros s q; cbn [List.length seq map combine existsb].
  - destruct (s <=? q)%nat; [destruct (q - s)%nat|]; reflexivity.
  - rewrite IH. cbn [fst snd].
    destruct (Nat.leb_spec s q) as [L|L].
    + destruct (Nat.eq_dec q s) as [->|NE].
      * rewrite Z.eqb_refl, Nat.sub_diag. cbn [nth_error]. rewrite andb_true_r.
        destruct (Nat.leb_spec (S s) s); [lia|]. rewrite orb_false_r. reflexivity.
      * destruct (Z.eqb_spec (Z.of_nat q) (Z.of_nat s)); [lia|]. rewrite andb_false_r. cbn [orb].
        destruct (Nat.leb_spec (S s) q); [|lia]. replace (q - s)%nat with (S (q - S s)) by lia. reflexivity.
    + destruct (Z.eqb_spec (Z.of_nat q) (Z.of_nat s)); [lia|]. rewrite andb_false_r. cbn [orb].
      destruct (Nat.leb_spec (S s) q); [lia|]. reflexivity.
Qed.

Lemma enum_exists {A} (Q : A -> bool) (l : list A) (q : nat) :
  existsb (fun p => Q (snd p) && (Z.of_nat q =? fst p)) (combine (zpos (List.length l)) l)
  = match nth_error l q with Some a => Q a | None => false end.
Proof.
  unfold zpos. rewrite (enum_from (fun a _ => Q a) l 0 q). cbn. rewrite Nat.sub_0_r. reflexivity.
Qed.

Lemma enum_mem {A} (P : A -> bool) (l : list A) (q : nat) :
  memZ (Z.of_nat q) (map fst (filter (fun p => P (snd p)) (combine (zpos (List.length l)) l)))
  = match nth_error l q with Some a => P a | None => false end.
Proof.
  rewrite <- enum_exists. unfold memZ. rewrite exb_map.
  generalize (combine (zpos (List.length l)) l). intro c. induction c as [|p c IH]; cbn; [reflexivity|].
  destruct (P (snd p)); cbn; rewrite IH; reflexivity.
Qed.

(* the target of a dump of the part, as a value, and its positions in the two catalogues *)
Lemma target_positions d : In d (o_dumps po) ->
  exists j gi v, d_target d = Z.of_nat j /\ (j < List.length (tr_uv t))%nat /\ nth_error (tr_uv t) j = Some v /\
                 d_target (shift_dump t d) = Z.of_nat gi /\ nth_error (tr_cat t) gi = Some v.
Proof.
  intro Hd. pose proof (r_range _ _ _ _ R) as Rg. rewrite Forall_forall in Rg. specialize (Rg d Hd).
  exists (Z.to_nat (d_target d)). set (j := Z.to_nat (d_target d)).
  assert (Lj : (j < List.length (tr_uv t))%nat) by (unfold j; lia).
  set (v := nth j (tr_uv t) zd).
  assert (Hv : In v (tr_cat t)) by (apply (r_incl _ _ _ _ R); apply nth_In; exact Lj).
  destruct (CategoricalConcatP.index_of_In Z.eqb Z.eqb_eq (tr_cat t) v Hv) as (gi & Hg).
  destruct (CategoricalConcatP.index_of_Some Z.eqb zd Z.eqb_eq _ _ _ Hg) as (Lg & Ng).
  exists gi, v. split; [unfold j; lia|]. split; [exact Lj|]. split; [apply nth_error_nth'; exact Lj|].
  split.
  - cbn. fold j. fold v. unfold zindex. rewrite Hg. reflexivity.
  - rewrite (nth_error_nth' _ zd Lg). f_equal. exact Ng.
Qed.

Lemma nth_error_inj {A} (l : list A) i j x : NoDup l -> nth_error l i = Some x -> nth_error l j = Some x -> i = j.
Proof.
  intros N Hi Hj. apply (proj1 (NoDup_nth_error l) N); [apply nth_error_Some; congruence|congruence].
Qed.

Lemma titem_commute d it : In d (o_dumps po) ->
  memZ (d_target (shift_dump t d))
       (match it with TIdx z => [z] | TName id => map fst (filter (fun p => memZ id (t_names (snd p))) (enum_targets mo)) end)
  = existsb (fun it' => memZ (d_target d)
       (match it' with TIdx z => [z] | TName id => map fst (filter (fun p => memZ id (t_names (snd p))) (enum_targets po)) end))
       (tr_titem t it).
Proof.
  intro Hd. destruct (target_positions d Hd) as (j & gi & v & Ej & Lj & Nj & Eg & Ng). rewrite Ej, Eg.
  destruct it as [z|id]; cbn [tr_titem].
  - cbn [memZ existsb]. rewrite orb_false_r.
    destruct (Z.ltb_spec z 0) as [Zn|Zp]; [cbn; apply Z.eqb_neq; lia|].
    destruct (nth_error (tr_cat t) (Z.to_nat z)) as [v'|] eqn:Nz.
    + destruct (Categorical.index_of Z.eqb v' (tr_uv t)) as [j'|] eqn:Ij.
      * cbn. rewrite !orb_false_r.
        destruct (CategoricalConcatP.index_of_Some Z.eqb zd Z.eqb_eq _ _ _ Ij) as (Lj' & Nj').
        assert (Nj'' : nth_error (tr_uv t) j' = Some v') by (rewrite (nth_error_nth' _ zd Lj'); f_equal; exact Nj').
        destruct (Z.eqb_spec (Z.of_nat gi) z) as [E1|E1]; destruct (Z.eqb_spec (Z.of_nat j) (Z.of_nat j')) as [E2|E2]; try reflexivity; exfalso.
        -- apply E2. f_equal. assert (v = v') by (rewrite <- E1, Nat2Z.id in Nz; congruence). subst v.
           eapply nth_error_inj; [apply (r_nd_uv _ _ _ _ R)|exact Nj|exact Nj''].
        -- apply E1. apply Nat2Z.inj in E2. subst j'. assert (v = v') by congruence. subst v.
           rewrite <- (Z2Nat.id z) by lia. f_equal.
           eapply nth_error_inj; [apply (r_nd_cat _ _ _ _ R)|exact Ng|exact Nz].
      * cbn. apply Z.eqb_neq. intro E1. rewrite <- E1, Nat2Z.id in Nz. assert (v = v') by congruence. subst v.
        apply nth_error_In in Nj. destruct (CategoricalConcatP.index_of_In Z.eqb Z.eqb_eq _ _ Nj). congruence.
    + cbn. apply Z.eqb_neq. intro E1. rewrite <- E1, Nat2Z.id in Nz. congruence.
  - cbn [existsb]. rewrite orb_false_r. unfold enum_targets.
    rewrite (enum_mem (fun a => memZ id (t_names a)) (o_targets mo) gi).
    rewrite (enum_mem (fun a => memZ id (t_names a)) (o_targets po) j).
    rewrite (r_tm _ _ _ _ R), (r_tp _ _ _ _ R), !nth_error_map, Ng, Nj. reflexivity.
Qed.

Lemma commute_targets v M : crit mo "targets" v = CMask DT M ->
  crit po "targets" (tr_value t "targets" v) = CMask DT (seg t M).
Proof.
  cbn. destruct v; try discriminate. intro H. inversion H; subst. f_equal. unfold targets_mask.
  symmetry. apply seg_dump_mask. intros d Hd. unfold target_indices.
  rewrite !memZ_flat_map, exb_flat_map. apply exb_ext. intro it. apply titem_commute. exact Hd.
Qed.

(* ---- target_tags *)
Lemma memZ_filter x (f : Z -> bool) l : memZ x (filter f l) = memZ x l && f x.
Proof.
  unfold memZ. induction l as [|y l IH]; cbn; [reflexivity|]. destruct (f y) eqn:F; cbn; rewrite IH.
  - destruct (Z.eqb_spec x y); [subst; rewrite F; reflexivity|reflexivity].
  - destruct (Z.eqb_spec x y); [subst; rewrite F, andb_false_r; reflexivity|reflexivity].
Qed.

Lemma memZ_true x l : memZ x l = true <-> In x l.
Proof.
  unfold memZ. rewrite existsb_exists. split; [intros (y & Hy & E); apply Z.eqb_eq in E; subst; exact Hy|].
  intro H. exists x. split; [exact H|apply Z.eqb_refl].
Qed.

Lemma commute_tags v M : crit mo "target_tags" v = CMask DT M ->
  crit po "target_tags" (tr_value t "target_tags" v) = CMask DT (seg t M).
Proof.
  cbn. destruct v; try discriminate. intro H. inversion H; subst. f_equal. unfold tags_mask.
  symmetry. apply seg_dump_mask. intros d Hd.
  destruct (target_positions d Hd) as (j & gi & v & Ej & Lj & Nj & Eg & Ng). rewrite Ej, Eg. unfold enum_targets.
  rewrite (enum_exists (fun a => existsb (fun t0 => memZ t0 _) (t_tags a)) (o_targets mo) gi).
  rewrite (enum_exists (fun a => existsb (fun t0 => memZ t0 _) (t_tags a)) (o_targets po) j).
  rewrite (r_tm _ _ _ _ R), (r_tp _ _ _ _ R), !nth_error_map, Ng, Nj. cbn [option_map].
  apply exb_ext_in. intros tg Htg. rewrite !memZ_filter. f_equal.
  assert (A : memZ tg (flat_map t_tags (map (tgt_of e) (tr_cat t))) = true).
  { apply memZ_true, in_flat_map. exists (tgt_of e v). split; [apply in_map; eapply nth_error_In; eauto|exact Htg]. }
  assert (B : memZ tg (flat_map t_tags (map (tgt_of e) (tr_uv t))) = true).
  { apply memZ_true, in_flat_map. exists (tgt_of e v). split; [apply in_map; eapply nth_error_In; eauto|exact Htg]. }
  rewrite A, B. reflexivity.
Qed.
End Rel.

(* ------------------------------------------------------------------ 3. every criterion *)
Section Rel2.
Variables (e : env) (mo po : obs) (t : tr).
Hypothesis R : rel1 e mo po t.

Lemma crit_static k v : key_dim k <> Some DT -> crit po k v = crit mo k v.
Proof.
  intro H. pose proof (r_freqs _ _ _ _ R) as F. pose proof (r_halfw _ _ _ _ R) as W. pose proof (r_cps _ _ _ _ R) as C.
  unfold crit. key_cases k; try (exfalso; apply H; reflexivity);
    unfold freqrange_mask, corrprods_mask, ants_mask, inputs_mask, pol_mask; rewrite ?F, ?W, ?C; reflexivity.
Qed.

Lemma tr_value_static k v : key_dim k <> Some DT -> tr_value t k v = v.
Proof. intro H. unfold tr_value. key_cases k; try (exfalso; apply H; reflexivity). reflexivity. Qed.

Lemma crit_commutes k v :
  match crit mo k v with
  | CMask DT M => crit po k (tr_value t k v) = CMask DT (seg t M)
  | CMask d M => crit po k (tr_value t k v) = CMask d M
  | CNone => crit po k (tr_value t k v) = CNone
  | CErr => True
  end.
Proof.
  destruct (crit mo k v) as [| |d M] eqn:C; [exact Logic.I| |].
  - pose proof (crit_key_dim mo k v) as K. rewrite C in K.
    rewrite tr_value_static, crit_static by congruence. exact C.
  - pose proof (crit_key_dim mo k v) as K. rewrite C in K.
    destruct d; try (rewrite tr_value_static, crit_static by congruence; exact C).
    apply key_dim_group in K. unfold mem_string, doc_group in K. cbn [existsb] in K.
    repeat match type of K with (String.eqb k ?l || _)%bool = true =>
      destruct (String.eqb_spec k l); [subst k|cbn [orb] in K] end; try discriminate.
    + apply (commute_dumps e mo po t R); exact C.
    + apply (commute_timerange e mo po t R); exact C.
    + apply (commute_scans e mo po t R); exact C.
    + apply (commute_compscans e mo po t R); exact C.
    + apply (commute_targets e mo po t R); exact C.
    + apply (commute_tags e mo po t R); exact C.
Qed.

(* ------------------------------------------------------------------ 4. one call, at the level of the documented rule *)
Definition segm (M : masks) : masks := {| m_t := seg t (m_t M); m_f := m_f M; m_b := m_b M |}.

Lemma keys_tr kw : keys (tr_kwargs t kw) = keys kw.
Proof. unfold keys, tr_kwargs. rewrite map_map. reflexivity. Qed.

Lemma lookup_tr k kw : lookup k (tr_kwargs t kw) = option_map (tr_value t k) (lookup k kw).
Proof.
  unfold lookup, tr_kwargs. induction kw as [|[k' v'] kw IH]; cbn; [reflexivity|].
  destruct (String.eqb_spec k k'); [subst; reflexivity|exact IH].
Qed.

Lemma lookup_tr_static k kw : key_dim k <> Some DT -> lookup k (tr_kwargs t kw) = lookup k kw.
Proof.
  intro H. rewrite lookup_tr. destruct (lookup k kw); cbn; [|reflexivity]. rewrite tr_value_static; auto.
Qed.

Lemma hits_tr kw grp : hits (tr_kwargs t kw) grp = hits kw grp.
Proof. unfold hits, tr_kwargs. rewrite exb_map. reflexivity. Qed.

Lemma spec_reset_tr kw d : spec_reset (tr_kwargs t kw) d = spec_reset kw d.
Proof.
  unfold spec_reset. rewrite lookup_tr_static by (cbv; discriminate). rewrite !hits_tr.
  destruct kw; reflexivity.
Qed.

Lemma all_ok_tr kw : all_ok mo kw = true -> all_ok po (tr_kwargs t kw) = true.
Proof.
  unfold all_ok, tr_kwargs. rewrite fab_map. rewrite !forallb_forall. intros H kv Hin. specialize (H kv Hin). cbn [fst snd].
  pose proof (crit_commutes (fst kv) (snd kv)) as C. destruct (crit mo (fst kv) (snd kv)) as [| |[] M]; try discriminate; rewrite C; reflexivity.
Qed.

Lemma crit_masks_tr_T kw : all_ok mo kw = true ->
  spec_crit_masks po DT (tr_kwargs t kw) = map (seg t) (spec_crit_masks mo DT kw).
Proof.
  intro A. unfold spec_crit_masks, tr_kwargs. rewrite flat_map_concat_map, map_map, <- flat_map_concat_map.
  unfold all_ok in A. rewrite forallb_forall in A.
  induction kw as [|kv kw IH]; cbn [flat_map map]; [reflexivity|]. rewrite map_app. f_equal.
  - cbn [fst snd]. destruct (mem_string (fst kv) (doc_group DT)) eqn:G; [|reflexivity].
    pose proof (crit_commutes (fst kv) (snd kv)) as C. pose proof (A kv (or_introl eq_refl)) as NE.
    pose proof (crit_key_dim mo (fst kv) (snd kv)) as K. apply key_dim_group in G.
    destruct (crit mo (fst kv) (snd kv)) as [| |d M]; try discriminate.
    + rewrite C. reflexivity.
    + assert (d = DT) by congruence. subst d. rewrite C. reflexivity.
  - apply IH. intros x Hx. apply A. right. exact Hx.
Qed.

Lemma crit_masks_tr_other kw d : d <> DT -> all_ok mo kw = true ->
  spec_crit_masks po d (tr_kwargs t kw) = spec_crit_masks mo d kw.
Proof.
  intros ND A. unfold spec_crit_masks, tr_kwargs. rewrite flat_map_concat_map, map_map, <- flat_map_concat_map.
  unfold all_ok in A. rewrite forallb_forall in A.
  induction kw as [|kv kw IH]; cbn [flat_map]; [reflexivity|]. f_equal.
  - cbn [fst snd]. destruct (mem_string (fst kv) (doc_group d)) eqn:G; [|reflexivity].
    pose proof (crit_commutes (fst kv) (snd kv)) as C. pose proof (A kv (or_introl eq_refl)) as NE.
    pose proof (crit_key_dim mo (fst kv) (snd kv)) as K. apply key_dim_group in G.
    destruct (crit mo (fst kv) (snd kv)) as [| |d' M]; try discriminate.
    + rewrite C. reflexivity.
    + assert (d' = d) by congruence. subst d'. destruct d; try congruence; rewrite C; reflexivity.
  - apply IH. intros x Hx. apply A. right. exact Hx.
Qed.

Lemma spec_commutes M kw M' : List.length (m_t M) = tr_n t ->
  spec_select mo M kw = Ok M' -> spec_select po (segm M) (tr_kwargs t kw) = Ok (segm M').
Proof.
  intros LM. unfold spec_select.
  rewrite !lookup_tr_static by (cbv; discriminate).
  replace (existsb (fun p => negb (mem_string (fst p) doc_valid)) (tr_kwargs t kw))
    with (existsb (fun p => negb (mem_string (fst p) doc_valid)) kw) by (unfold tr_kwargs; rewrite exb_map; reflexivity).
  destruct (_ && existsb _ kw); [discriminate|].
  unfold reset_wellformed. rewrite !lookup_tr_static by (cbv; discriminate).
  destruct (negb _); [discriminate|].
  destruct (all_ok mo kw) eqn:A; [|discriminate]. rewrite (all_ok_tr kw A). cbn [negb].
  intro H. inversion H; subst M'; clear H. f_equal. unfold segm. cbn [m_t m_f m_b].
  unfold spec_dim. rewrite !spec_reset_tr.
  rewrite (crit_masks_tr_T kw A), (crit_masks_tr_other kw DF) by (congruence || exact A).
  rewrite (crit_masks_tr_other kw DB) by (congruence || exact A).
  f_equal.
  - rewrite <- seg_fold_mand. f_equal. destruct (spec_reset kw DT); [|reflexivity].
    cbn [dimlen]. rewrite <- (r_len _ _ _ _ R), <- (r_n _ _ _ _ R). symmetry. apply seg_ones. apply (r_fit _ _ _ _ R).
  - cbn [dimlen]. rewrite (r_freqs _ _ _ _ R). reflexivity.
  - cbn [dimlen]. rewrite (r_cps _ _ _ _ R). reflexivity.
Qed.

(* ------------------------------------------------------------------ 5. histories *)
Lemma res_masks_ok r m : res_masks r = Ok m -> exists s, r = Ok s /\ masks_of s = m.
Proof. destruct r; cbn; intro H; inversion H; eauto. Qed.

Lemma reachable_len o s : reachable o s -> List.length (tk s) = dimlen o DT.
Proof. intro H. apply reachable_inv in H. exact (inv_wf _ _ H DT). Qed.

Lemma run_commutes : forall calls s sp S,
  reachable mo s -> reachable po sp -> masks_of sp = segm (masks_of s) ->
  Forall (fun c => NoDup (keys c)) calls -> run mo s calls = Ok S ->
  exists Sp, run po sp (map (tr_kwargs t) calls) = Ok Sp /\ reachable po Sp /\ masks_of Sp = segm (masks_of S).
Proof.
  induction calls as [|c rest IH]; intros s sp S Rm Rp Em F H; cbn in *.
  - inversion H; subst. eauto.
  - inversion F as [|? ? Nc F']; subst.
    destruct (select mo s c) as [s1|] eqn:E1; [|discriminate].
    pose proof (refines_inv mo s c (reachable_inv _ _ Rm) Nc) as Q1. rewrite E1 in Q1. cbn in Q1. symmetry in Q1.
    assert (LM : List.length (m_t (masks_of s)) = tr_n t).
    { cbn. rewrite (reachable_len _ _ Rm). cbn. symmetry. apply (r_n _ _ _ _ R). }
    pose proof (spec_commutes _ _ _ LM Q1) as Q2. rewrite <- Em in Q2.
    assert (Nc' : NoDup (keys (tr_kwargs t c))) by (rewrite keys_tr; exact Nc).
    pose proof (refines_inv po sp _ (reachable_inv _ _ Rp) Nc') as Q3. rewrite Q2 in Q3.
    destruct (res_masks_ok _ _ Q3) as (sp1 & E2 & M2). rewrite E2.
    apply (IH s1 sp1 S); auto.
    + eapply reach_step; eauto.
    + eapply reach_step; eauto.
Qed.

Lemma init_segm : masks_of (init po) = segm (masks_of (init mo)).
Proof.
  unfold segm, masks_of, init. cbn. f_equal.
  - rewrite <- (r_len _ _ _ _ R), <- (r_n _ _ _ _ R). symmetry. apply seg_ones. apply (r_fit _ _ _ _ R).
  - rewrite (r_freqs _ _ _ _ R). reflexivity.
  - rewrite (r_cps _ _ _ _ R). reflexivity.
Qed.

(* C19_select_commutes, for one part: whatever the history of calls on the whole, the translated history on the part
   alone succeeds and selects the part's segment of the time mask and the same channels and products *)
Theorem select_commutes_part : forall calls S, Forall (fun c => NoDup (keys c)) calls ->
  run mo (init mo) calls = Ok S ->
  exists Sp, run po (init po) (map (tr_kwargs t) calls) = Ok Sp /\
             tk Sp = seg t (tk S) /\ fk Sp = fk S /\ bk Sp = bk S.
Proof.
  intros calls S F H.
  destruct (run_commutes calls (init mo) (init po) S (reach_init mo) (reach_init po) init_segm F H) as (Sp & A & _ & B).
  exists Sp. split; [exact A|]. unfold segm, masks_of in B. inversion B. auto.
Qed.
End Rel2.

(* ------------------------------------------------------------------ 6. the relation holds for every opened concatenation *)
From KV Require Proofs.ConcatP Proofs.CategoricalP.
Notation nT := Concat.nT.
Notation zexpand := Concat.zexpand.
Notation nuniq := ConcatP.nuniq.

Lemma zip_dumps_length : forall a b c d x f n,
  List.length a = n -> List.length b = n -> List.length c = n -> List.length d = n -> List.length x = n -> List.length f = n ->
  List.length (zip_dumps a b c d x f) = n.
Proof.
  induction a as [|a0 a IH]; intros [|b0 b] [|c0 c] [|d0 d] [|x0 x] [|f0 f] n La Lb Lc Ld Lx Lf; cbn in *; try lia.
  destruct n; [lia|]. f_equal. apply IH; lia.
Qed.

Lemma zip_dumps_app : forall a1 b1 c1 d1 x1 f1 a2 b2 c2 d2 x2 f2,
  List.length b1 = List.length a1 -> List.length c1 = List.length a1 -> List.length d1 = List.length a1 ->
  List.length x1 = List.length a1 -> List.length f1 = List.length a1 ->
  zip_dumps (a1 ++ a2) (b1 ++ b2) (c1 ++ c2) (d1 ++ d2) (x1 ++ x2) (f1 ++ f2)
  = zip_dumps a1 b1 c1 d1 x1 f1 ++ zip_dumps a2 b2 c2 d2 x2 f2.
Proof.
  induction a1 as [|a0 a1 IH]; intros [|b0 b1] [|c0 c1] [|d0 d1] [|x0 x1] [|f0 f1] a2 b2 c2 d2 x2 f2 Lb Lc Ld Lx Lf;
    cbn in *; try lia; [reflexivity|]. f_equal. apply IH; lia.
Qed.

Lemma zip_dumps_map (g1 g2 g3 : Z -> Z) : forall a b c d x f,
  zip_dumps a (map g1 b) c (map g2 d) x (map g3 f)
  = map (fun u => {| d_ts := d_ts u; d_scan := g1 (d_scan u); d_state := d_state u; d_cscan := g2 (d_cscan u);
                     d_label := d_label u; d_target := g3 (d_target u) |}) (zip_dumps a b c d x f).
Proof.
  induction a as [|a0 a IH]; intros [|b0 b] [|c0 c] [|d0 d] [|x0 x] [|f0 f]; cbn; try reflexivity. f_equal. apply IH.
Qed.

Lemma zip_dumps_target (P : Z -> Prop) : forall a b c d x f, Forall P f -> Forall (fun u => P (d_target u)) (zip_dumps a b c d x f).
Proof.
  induction a as [|a0 a IH]; intros [|b0 b] [|c0 c] [|d0 d] [|x0 x] [|f0 f] F; cbn; try constructor.
  - inversion F; assumption.
  - apply IH. inversion F; assumption.
Qed.

Definition part_block (cat : list Z) (so co : nat) (p : Concat.part) : list dump :=
  zip_dumps (Concat.p_ts p) (map (fun v => v + Z.of_nat so) (zexpand (Concat.p_scan p))) (zexpand (Concat.p_state p))
            (map (fun v => v + Z.of_nat co) (zexpand (Concat.p_cscan p))) (zexpand (Concat.p_label p))
            (map (zindex cat) (zexpand (Concat.p_tgt p))).
Fixpoint blocks_from (cat : list Z) (ps : list Concat.part) (so co : nat) : list (list dump) :=
  match ps with
  | [] => []
  | p :: r => part_block cat so co p :: blocks_from cat r (so + nuniq Concat.p_scan p) (co + nuniq Concat.p_cscan p)
  end.

Lemma part_lengths p : ConcatP.part_ok p ->
  List.length (zexpand (Concat.p_scan p)) = nT p /\ List.length (zexpand (Concat.p_state p)) = nT p /\
  List.length (zexpand (Concat.p_cscan p)) = nT p /\ List.length (zexpand (Concat.p_label p)) = nT p /\
  List.length (zexpand (Concat.p_tgt p)) = nT p.
Proof.
  intros (_ & _ & A & B & C & D & E). repeat split; apply ConcatP.cd_ok_len; assumption.
Qed.

Lemma block_length cat so co p : ConcatP.part_ok p -> List.length (part_block cat so co p) = nT p.
Proof.
  intro OK. destruct (part_lengths p OK) as (A & B & C & D & E).
  unfold part_block. apply zip_dumps_length; rewrite ?map_length; auto.
Qed.

Lemma merged_blocks cat : forall ps so co, Forall ConcatP.part_ok ps ->
  zip_dumps (List.concat (map Concat.p_ts ps)) (List.concat (ConcatP.running_lists Concat.p_scan ps so))
            (List.concat (map (fun p => zexpand (Concat.p_state p)) ps)) (List.concat (ConcatP.running_lists Concat.p_cscan ps co))
            (List.concat (map (fun p => zexpand (Concat.p_label p)) ps))
            (List.concat (map (fun p => map (zindex cat) (zexpand (Concat.p_tgt p))) ps))
  = List.concat (blocks_from cat ps so co).
Proof.
  unfold ConcatP.running_lists. induction ps as [|p ps IH]; intros so co F; [reflexivity|].
  inversion F as [|? ? OK F']; subst. destruct (part_lengths p OK) as (A & B & C & D & E).
  cbn [map List.concat combine Concat.offs_from blocks_from fst snd].
  rewrite zip_dumps_app by (rewrite ?map_length; unfold nT in *; congruence).
  f_equal. apply IH. exact F'.
Qed.

Lemma block_shift e cat so co p t : ConcatP.part_ok p ->
  tr_so t = Z.of_nat so -> tr_co t = Z.of_nat co -> tr_cat t = cat -> tr_uv t = Categorical.uv (Concat.p_tgt p) ->
  part_block cat so co p = map (shift_dump t) (o_dumps (part_obs e p)).
Proof.
  intros OK Eso Eco Ecat Euv. unfold part_block, part_obs. cbn [o_dumps].
  destruct OK as (_ & _ & OKt & _).
  destruct (ConcatP.index_cd_facts _ _ OKt) as (_ & _ & X & _). rewrite X at 1. rewrite map_map.
  rewrite zip_dumps_map. apply map_ext. intro u. unfold shift_dump. rewrite Eso, Eco, Ecat, Euv. reflexivity.
Qed.

Lemma seg_blocks n cat : forall ps lo so co (pre : list dump) i p t, Forall ConcatP.part_ok ps ->
  List.length pre = lo -> nth_error ps i = Some p -> nth_error (trs_from n cat ps lo so co) i = Some t ->
  seg t (pre ++ List.concat (blocks_from cat ps so co)) = part_block cat (Z.to_nat (tr_so t)) (Z.to_nat (tr_co t)) p
  /\ tr_len t = nT p /\ tr_n t = n /\ tr_cat t = cat /\ tr_uv t = Categorical.uv (Concat.p_tgt p)
  /\ (lo <= tr_lo t)%nat /\ (tr_lo t + tr_len t <= lo + list_sum (map nT ps))%nat.
Proof.
  induction ps as [|q ps IH]; intros lo so co pre [|i] p t F Lp Hp Ht; cbn in Hp, Ht; try discriminate.
  - inversion Hp; subst q. inversion Ht; subst t. cbn [tr_so tr_co tr_len tr_n tr_cat tr_uv tr_lo]. rewrite !Nat2Z.id.
    inversion F as [|? ? OK F']; subst.
    split; [|cbn [map list_sum]; repeat split; try reflexivity; try lia; unfold list_sum; cbn [fold_right]; lia].
    unfold seg. cbn [tr_lo tr_len blocks_from List.concat]. rewrite skipn_app, skipn_all2 by lia.
    rewrite Nat.sub_diag. cbn [skipn app]. rewrite firstn_app, (block_length cat so co p OK), Nat.sub_diag. cbn [firstn].
    rewrite app_nil_r. apply firstn_all2. rewrite (block_length cat so co p OK). lia.
  - inversion F as [|? ? OK F']; subst.
    cbn [blocks_from List.concat]. rewrite app_assoc.
    destruct (IH (List.length pre + nT q)%nat (so + List.length (Categorical.uv (Concat.p_scan q)))%nat
                 (co + List.length (Categorical.uv (Concat.p_cscan q)))%nat (pre ++ part_block cat so co q) i p t F')
      as (A & B & C & D & E & G & H); auto.
    { rewrite app_length, (block_length cat so co q OK). lia. }
    split; [exact A|]. cbn [map]. unfold list_sum in *. cbn [fold_right]. repeat split; auto; lia.
Qed.

Lemma firstn_plus {A} : forall a b (l : list A), firstn (a + b) l = firstn a l ++ firstn b (skipn a l).
Proof. induction a as [|a IH]; intros b [|x l]; cbn; try reflexivity; [rewrite firstn_nil; reflexivity|]. f_equal. apply IH. Qed.

Lemma skipn_plus {A} : forall a b (l : list A), skipn a (skipn b l) = skipn (b + a) l.
Proof. intros a b; revert a. induction b as [|b IH]; intros a l; [reflexivity|]. destruct l; cbn; [destruct a; reflexivity|apply IH]. Qed.

Lemma seg_tiles {A} n cat : forall ps lo so co (M : list A),
  List.concat (map (fun t => seg t M) (trs_from n cat ps lo so co)) = firstn (list_sum (map nT ps)) (skipn lo M).
Proof.
  induction ps as [|p ps IH]; intros lo so co M; cbn [trs_from map List.concat]; [reflexivity|].
  rewrite IH. unfold seg at 1. cbn [tr_lo tr_len]. unfold list_sum at 2. cbn [fold_right]. fold (list_sum (map nT ps)).
  rewrite firstn_plus, skipn_plus. reflexivity.
Qed.

Lemma trs_from_length n cat : forall ps lo so co, List.length (trs_from n cat ps lo so co) = List.length ps.
Proof. induction ps; intros; cbn; [reflexivity|]. f_equal. apply IHps. Qed.

Lemma trs_from_nonneg n cat : forall ps lo so co i t, nth_error (trs_from n cat ps lo so co) i = Some t ->
  tr_so t = Z.of_nat (Z.to_nat (tr_so t)) /\ tr_co t = Z.of_nat (Z.to_nat (tr_co t)).
Proof.
  induction ps as [|q ps IH]; intros lo so co [|i] t Ht; cbn in Ht; try discriminate.
  - inversion Ht; subst. cbn. rewrite !Nat2Z.id. auto.
  - eapply IH; eauto.
Qed.

Theorem open_rel : forall input ps m e,
  Concat.sort_parts input = Some ps -> Forall ConcatP.part_ok ps -> Concat.concat_open input = Concat.COk m ->
  exists mo, merged_obs e m = Some mo /\
    List.length (o_dumps mo) = list_sum (map nT ps) /\
    List.length (trs_of (Concat.m_cat m) ps) = List.length ps /\
    forall i p t, nth_error ps i = Some p -> nth_error (trs_of (Concat.m_cat m) ps) i = Some t ->
      rel1 e mo (part_obs e p) t.
Proof.
  intros input ps m e E OK H. pose proof (ConcatP.concat_open_facts input ps m E OK H) as O.
  destruct (ConcatP.op_scan _ _ O) as (sc & Hsc & OKsc & Esc). destruct (ConcatP.op_state _ _ O) as (st & Hst & OKst & Est).
  destruct (ConcatP.op_cscan _ _ O) as (cs & Hcs & OKcs & Ecs). destruct (ConcatP.op_label _ _ O) as (lb & Hlb & OKlb & Elb).
  destruct (ConcatP.op_tgti _ _ O) as (ti & Hti & OKti & Eti).
  unfold merged_obs. rewrite Hsc, Hst, Hcs, Hlb, Hti. eexists. split; [reflexivity|].
  set (cat := Concat.m_cat m).
  assert (D : zip_dumps (Concat.m_ts m) (zexpand sc) (zexpand st) (zexpand cs) (zexpand lb) (zexpand ti)
              = List.concat (blocks_from cat ps 0 0)).
  { rewrite (ConcatP.op_ts _ _ O), Esc, Est, Ecs, Elb, Eti. unfold Concat.spec_ts, Concat.spec_plain, Concat.spec_index.
    rewrite !ConcatP.spec_running_lists. unfold Concat.spec_plain. rewrite concat_map, map_map.
    rewrite <- (ConcatP.op_cat _ _ O). fold cat. apply merged_blocks. exact OK. }
  cbn [o_dumps]. rewrite D.
  assert (LB : forall ps so co, Forall ConcatP.part_ok ps -> List.length (List.concat (blocks_from cat ps so co)) = list_sum (map nT ps)).
  { clear -cat. induction ps as [|p ps IH]; intros so co F; [reflexivity|]. inversion F; subst. cbn [blocks_from List.concat map list_sum].
    rewrite app_length, (block_length cat so co p) by assumption. rewrite IH by assumption. reflexivity. }
  split; [apply LB; exact OK|]. split.
  { unfold trs_of. apply trs_from_length. }
  intros i p t Hp Ht. unfold trs_of in Ht.
  destruct (seg_blocks _ cat ps 0 0 0 [] i p t OK eq_refl Hp Ht) as (A & B & C & Dc & Eu & G & Hf).
  assert (OKp : ConcatP.part_ok p). { rewrite Forall_forall in OK. apply OK. eapply nth_error_In; eauto. }
  cbn [app] in A.
  pose proof (trs_from_nonneg _ _ _ _ _ _ _ _ Ht) as TSO.
  destruct TSO as (TS & TC).
  constructor; cbn [o_dumps o_half o_freqs o_halfw o_cps o_targets part_obs].
  - rewrite A. apply (block_shift e); auto.
  - rewrite B. symmetry. destruct (part_lengths p OKp) as (P1 & P2 & P3 & P4 & P5).
    destruct OKp as (_ & _ & OKt & _). destruct (ConcatP.index_cd_facts _ _ OKt) as (OKi & _).
    apply zip_dumps_length; auto. apply ConcatP.cd_ok_len. exact OKi.
  - rewrite C. symmetry. apply LB. exact OK.
  - rewrite C. cbn in Hf. lia.
  - reflexivity.
  - reflexivity.
  - reflexivity.
  - reflexivity.
  - rewrite Dc. reflexivity.
  - rewrite Eu. reflexivity.
  - rewrite Dc. unfold cat. rewrite (ConcatP.op_cat _ _ O). apply (CategoricalConcatP.uio_NoDup Z.eqb Z.eqb_eq).
  - rewrite Eu. destruct OKp as (_ & _ & ((_ & _ & _ & N) & _) & _). exact N.
  - rewrite Dc, Eu. unfold cat. rewrite (ConcatP.op_cat _ _ O). intros x Hx. unfold Concat.spec_uniq.
    apply (CategoricalConcatP.uio_In Z.eqb Z.eqb_eq). apply in_flat_map. exists p. split; [eapply nth_error_In; eauto|exact Hx].
  - rewrite Eu. destruct OKp as (_ & _ & OKt & _). destruct (ConcatP.index_cd_facts _ _ OKt) as (_ & _ & _ & Rg).
    apply (zip_dumps_target (fun j => 0 <= j < Z.of_nat (List.length (Categorical.uv (Concat.p_tgt p))))). exact Rg.
Qed.

(* ------------------------------------------------------------------ 7. C19_select_commutes *)
Lemma F2_exists {A B} (P : A -> B -> Prop) : forall l, (forall x, In x l -> exists y, P x y) -> exists ys, Forall2 P l ys.
Proof.
  induction l as [|x l IH]; intros H; [exists []; constructor|].
  destruct (H x (or_introl eq_refl)) as (y & Hy). destruct IH as (ys & Hys); [intros; apply H; right; auto|].
  exists (y :: ys). constructor; auto.
Qed.

Lemma in_combine_nth {A B} : forall (l1 : list A) (l2 : list B) x y, In (x, y) (combine l1 l2) ->
  exists i, nth_error l1 i = Some x /\ nth_error l2 i = Some y.
Proof.
  induction l1 as [|a l1 IH]; intros [|b l2] x y H; cbn in H; try tauto.
  destruct H as [H|H]; [inversion H; subst; exists 0%nat; auto|].
  destruct (IH l2 x y H) as (i & A1 & A2). exists (S i). auto.
Qed.

Theorem select_commutes : forall input ps m e calls,
  Concat.sort_parts input = Some ps -> Forall ConcatP.part_ok ps -> Concat.concat_open input = Concat.COk m ->
  Forall (fun c => NoDup (keys c)) calls ->
  exists mo, merged_obs e m = Some mo /\
  forall S, run mo (init mo) calls = Ok S ->
    exists Sps,
      Forall2 (fun pt Sp => run (part_obs e (fst pt)) (init (part_obs e (fst pt))) (map (tr_kwargs (snd pt)) calls) = Ok Sp
                            /\ tk Sp = seg (snd pt) (tk S) /\ fk Sp = fk S /\ bk Sp = bk S)
              (combine ps (trs_of (Concat.m_cat m) ps)) Sps
      /\ tk S = List.concat (map tk Sps).
Proof.
  intros input ps m e calls E OK H F.
  destruct (open_rel input ps m e E OK H) as (mo & Hmo & LN & LT & Rel).
  exists mo. split; [exact Hmo|]. intros S HS.
  destruct (F2_exists (fun pt Sp => run (part_obs e (fst pt)) (init (part_obs e (fst pt))) (map (tr_kwargs (snd pt)) calls) = Ok Sp
                            /\ tk Sp = seg (snd pt) (tk S) /\ fk Sp = fk S /\ bk Sp = bk S)
                      (combine ps (trs_of (Concat.m_cat m) ps))) as (Sps & HSps).
  { intros (p, t) Hin. destruct (in_combine_nth _ _ _ _ Hin) as (i & Hp & Ht). cbn [fst snd].
    exact (select_commutes_part e mo (part_obs e p) t (Rel i p t Hp Ht) calls S F HS). }
  exists Sps. split; [exact HSps|].
  assert (X : map tk Sps = map (fun t => seg t (tk S)) (trs_of (Concat.m_cat m) ps)).
  { assert (G : map tk Sps = map (fun pt => seg (snd pt) (tk S)) (combine ps (trs_of (Concat.m_cat m) ps))).
    { clear -HSps. induction HSps as [|pt Sp l l' (_ & T & _) _ IH]; cbn; [reflexivity|]. rewrite T, IH. reflexivity. }
    rewrite G. rewrite <- (map_map snd (fun t => seg t (tk S))). f_equal.
    clear -LT. revert LT. generalize (trs_of (Concat.m_cat m) ps). induction ps as [|p ps IH]; intros [|t ts] L; cbn in *; try lia; [reflexivity|].
    f_equal. apply IH. lia. }
  rewrite X. unfold trs_of. rewrite seg_tiles. cbn [skipn].
  assert (LS : List.length (tk S) = list_sum (map nT ps)).
  { assert (Rs : reachable mo S).
    { clear -HS. revert HS. generalize (reach_init mo). generalize (init mo). induction calls as [|c r IH]; intros s Rs HS; cbn in HS.
      - inversion HS; subst; exact Rs.
      - destruct (select mo s c) eqn:Es; [|discriminate]. eapply IH; [|exact HS]. eapply reach_step; eauto. }
    rewrite (reachable_len _ _ Rs). exact LN. }
  symmetry. apply firstn_all2. lia.
Qed.

(* every criterion, on every part of an opened concatenation *)
Theorem crit_commutes_open : forall input ps m e mo i p t k v,
  Concat.sort_parts input = Some ps -> Forall ConcatP.part_ok ps -> Concat.concat_open input = Concat.COk m ->
  merged_obs e m = Some mo -> nth_error ps i = Some p -> nth_error (trs_of (Concat.m_cat m) ps) i = Some t ->
  match crit mo k v with
  | CMask DT M => crit (part_obs e p) k (tr_value t k v) = CMask DT (seg t M)
  | CMask d M => crit (part_obs e p) k (tr_value t k v) = CMask d M
  | CNone => crit (part_obs e p) k (tr_value t k v) = CNone
  | CErr => True
  end.
Proof.
  intros input ps m e mo i p t k v E OK H Hmo Hp Ht.
  destruct (open_rel input ps m e E OK H) as (mo' & Hmo' & _ & _ & Rel). rewrite Hmo in Hmo'. inversion Hmo'; subst mo'.
  exact (crit_commutes e mo (part_obs e p) t (Rel i p t Hp Ht) k v).
Qed.

(* the masks of the parts tile the mask of the whole *)
Theorem masks_tile {A} : forall cat ps (M : list A), List.length M = list_sum (map nT ps) ->
  List.concat (map (fun t => seg t M) (trs_of cat ps)) = M.
Proof. intros cat ps M L. unfold trs_of. rewrite seg_tiles. cbn [skipn]. apply firstn_all2. lia. Qed.
