(* C07: the pruned read (get_dask_array with a unit-step index after put_dask_array) requests exactly the
   overlapping stored chunks under their original boundaries and returns the selected elements. *)
From Coq Require Import ZArith List Bool Lia ZifyBool.
From KV Require Import Base.Sx Gen.Generated Model.Chunks.
From KV Require Import Proofs.ChunksRtP Proofs.ChunksPruneP.
Import ListNotations. Open Scope Z_scope.

(* point + offset vector *)
Fixpoint addv (off q : list Z) : list Z :=
  match q, off with
  | x :: q', o :: u => (x + o) :: addv u q'
  | _, _ => []
  end.

Lemma pr_region_points_add_offset : forall b off, length b = length off ->
  region_points (add_offset b off) = map (addv off) (region_points b).
Proof.
  induction b as [|[s e] t IH]; intros [|o u] H; cbn [length] in H; try discriminate.
  - reflexivity.
  - cbn [add_offset]. rewrite !rt_region_points_cons. cbn [fst snd].
    rewrite IH by lia.
    replace (e + o - (s + o)) with (e - s) by lia.
    rewrite (rt_zrange_shift (s + o)), (rt_zrange_shift s).
    rewrite map_flat_map, !flat_map_map. apply flat_map_ext. intros x.
    rewrite !map_map. apply map_ext. intros q. cbn [addv]. f_equal. lia.
Qed.

(* ------------------------------------------------------------------------------------------------ *)
(* per-axis facts about prune_axis *)

Definition ax_na (x : list Z * (Z * Z) * Z) : list (Z * Z) := needed_axis (fst (fst x)) (snd (fst x)).
Definition ax_ix (x : list Z * (Z * Z) * Z) : Z * Z := snd (fst x).

Definition ax_cover (x : list Z * (Z * Z) * Z) : Prop :=
  forall z, fst (ax_ix x) <= z < snd (ax_ix x) ->
    exists se, In se (ax_na x) /\ in_slice se z = true.

Lemma pr_axis : forall cs ix, posl cs -> ax_ok cs ix ->
  ax_cover (prune_axis cs ix) /\ shift (snd (prune_axis cs ix)) (ax_ix (prune_axis cs ix)) = ix.
Proof.
  intros cs [s e] Hp (Ha & Hb & Hc). cbn [fst snd] in *.
  pose proof (prune_axis_requests cs s e Hp Ha Hb Hc) as K.
  destruct (prune_axis cs (s, e)) as [[cs' ix'] off'].
  destruct K as [K1 K2]. subst ix'. unfold ax_cover, ax_ix, ax_na. cbn [fst snd]. split.
  - intros z Hz.
    destruct (rt_cover_axis cs 0 (z + off')) as [se [Hin Hsl]].
    { eapply Forall_impl; [|exact Hp]. cbn. intros; lia. }
    { lia. }
    assert (H : In se (filter (overlaps (s, e)) (intervals 0 cs))).
    { apply filter_In. split; auto. unfold overlaps, in_slice in *. cbn [fst snd]. lia. }
    rewrite <- K2 in H. apply in_map_iff in H. destruct H as [se' [Hse' Hin']].
    exists se'. split; auto. subst se. unfold in_slice in *. cbn [fst snd] in *. lia.
  - unfold shift. cbn [fst snd]. f_equal; lia.
Qed.

Lemma pr_prune_facts : forall chunks nix, Forall posl chunks -> Forall2 ax_ok chunks nix ->
  Forall ax_cover (prune chunks nix) /\
  add_offset (map ax_ix (prune chunks nix)) (map snd (prune chunks nix)) = nix /\
  length (prune chunks nix) = length chunks.
Proof.
  intros chunks nix Hp H. revert Hp.
  induction H as [|cs ix chunks nix Hok H IH]; intros Hp; cbn [prune map length].
  - repeat split; constructor.
  - inversion Hp; subst. destruct (IH H3) as (I1 & I2 & I3).
    destruct (pr_axis cs ix H2 Hok) as [P1 P2].
    destruct (prune_axis cs ix) as [[cs' [s' e']] off'].
    unfold ax_ix, shift in P2. cbn [fst snd] in P2.
    repeat split.
    + constructor; auto.
    + unfold ax_ix at 1. cbn [fst snd add_offset]. rewrite I2, P2. reflexivity.
    + rewrite I3. reflexivity.
Qed.

Lemma pr_cover_cart {X} (na : X -> list (Z * Z)) (ixf : X -> Z * Z) (pr : list X) :
  Forall (fun x => forall z, fst (ixf x) <= z < snd (ixf x) ->
                     exists se, In se (na x) /\ in_slice se z = true) pr ->
  forall q, In q (region_points (map ixf pr)) -> exists b, In b (cart (map na pr)) /\ contains b q = true.
Proof.
  induction 1 as [|x pr Hx Hf IH]; intros q Hq.
  - destruct Hq as [<-|[]]. exists []. split; [left|]; reflexivity.
  - cbn [map] in Hq. rewrite rt_region_points_cons in Hq. apply rt_in_cons_cart in Hq.
    destruct Hq as [z [q' [-> [Hz Hq']]]]. apply rt_zrange_In in Hz.
    destruct (Hx z) as [se [Hse Hsl]]; [lia|]. destruct (IH q' Hq') as [b [Hb Hc]].
    exists (se :: b). split.
    + cbn [map cart]. apply rt_in_cons_cart. exists se, b. auto.
    + cbn [contains]. rewrite Hsl, Hc. reflexivity.
Qed.

(* every needed block, shifted back, is a block of the original chunking *)
Lemma pr_needed_blocks : forall chunks nix, Forall posl chunks -> Forall2 ax_ok chunks nix ->
  forall b', In b' (cart (map ax_na (prune chunks nix))) ->
    In (add_offset b' (map snd (prune chunks nix))) (blocks chunks).
Proof.
  intros chunks nix Hp Hok b' Hb'.
  assert (H : In (add_offset b' (map snd (prune chunks nix)))
                 (map (fun sl => add_offset sl (map snd (prune chunks nix)))
                      (cart (map ax_na (prune chunks nix))))).
  { apply (in_map (fun sl => add_offset sl (map snd (prune chunks nix)))). exact Hb'. }
  rewrite (map_add_offset_cart ax_na snd) in H.
  unfold ax_na in H. rewrite prune_axes in H by auto.
  rewrite <- filter_cart in H by (eapply Forall2_len; eauto).
  apply filter_In in H. apply H.
Qed.

(* ------------------------------------------------------------------------------------------------ *)
(* main theorem *)

Lemma pruned_read : forall (A : Type) (d : A) (miss : option A) (st : store A) (arr : str) (dt : Z)
    (f : list Z -> A) (chunks : list (list Z)) (index : list (option Z * option Z)),
  (forall s1 s2, chunk_name arr s1 = chunk_name arr s2 -> s1 = s2) ->
  Forall (fun cs => Forall (fun c => 0 < c) cs) chunks ->
  Forall (fun se => fst se < snd se) (norm_index (chunks_shape chunks) index) ->
  get_array_index d miss (fst (put_array st arr dt f chunks [])) arr dt chunks index
    = (spec_requested chunks index, Ok (map f (spec_index_points chunks index))).
Proof.
  intros A d miss st arr dt f chunks index Hinj Hp Hn.
  pose proof (pruned_requests chunks index Hp Hn) as Hreq. cbv zeta in Hreq.
  pose proof (norm_index_ok chunks index Hp Hn) as Hok.
  unfold get_array_index, spec_index_points. cbv zeta.
  set (nix := norm_index (chunks_shape chunks) index) in *.
  destruct (pr_prune_facts chunks nix Hp Hok) as (Hcov & Hix & Hlen).
  pose proof (pr_needed_blocks chunks nix Hp Hok) as Hmem.
  rewrite Hreq. f_equal.
  change (map (fun x => needed_axis (fst (fst x)) (snd (fst x))) (prune chunks nix))
    with (map ax_na (prune chunks nix)).
  change (map (fun x => snd (fst x)) (prune chunks nix)) with (map ax_ix (prune chunks nix)).
  set (pr := prune chunks nix) in *.
  set (off := map snd pr) in *.
  set (needed := cart (map ax_na pr)) in *.
  set (index' := map ax_ix pr) in *.
  unfold put_array.
  set (st' := fst (put_blocks f arr dt [] st (blocks chunks))).
  assert (Hwf : chunks_wf chunks).
  { eapply Forall_impl; [|exact Hp]. intros; left; auto. }
  assert (Hgood : Forall (rt_good []) (blocks chunks)).
  { apply Forall_forall. intros b Hb. reflexivity. }
  assert (Hnd : NoDup (map (rt_key arr []) (blocks chunks))).
  { apply (rt_NoDup_map_rel (rt_key arr []) (map fst)); [|apply rt_NoDup_block_starts; auto].
    intros b1 b2 _ _ E. unfold rt_key, chunk_key in E. apply app_inv_tail in E. apply Hinj in E. exact E. }
  assert (Hloff : length off = length pr) by (unfold off; apply map_length).
  assert (Hget : forall b', In b' needed ->
            get_chunk_or miss st' arr (get_slices off b') dt
              = Ok (slice_shape b', extract (fun q => f (addv off q)) b')).
  { intros b' Hb'.
    assert (Hl : length b' = length off).
    { apply cart_length in Hb'. rewrite Hb', map_length. lia. }
    rewrite get_slices_add by auto.
    pose proof (Hmem b' Hb') as HB.
    pose proof (rt_get_ok f arr dt [] miss st' (add_offset b' off)) as G.
    change (get_slices [] (add_offset b' off)) with (add_offset b' off) in G.
    rewrite G.
    - rewrite rt_shape_add_offset by lia. unfold extract.
      rewrite pr_region_points_add_offset by auto. rewrite map_map. reflexivity.
    - reflexivity.
    - reflexivity.
    - apply rt_put_blocks_lookup; auto. }
  rewrite (rt_fetch_ok (fun q => f (addv off q)) arr dt off miss st' needed Hget).
  f_equal.
  assert (E : region_points nix = map (addv off) (region_points index')).
  { rewrite <- Hix. apply pr_region_points_add_offset. unfold index'. rewrite map_length. lia. }
  rewrite E, map_map. apply map_ext_in. intros q Hq.
  destruct (pr_cover_cart ax_na ax_ix pr Hcov q Hq) as [b [Hb Hc]].
  destruct (rt_find_blocks (fun b => (slice_shape b, extract (fun q => f (addv off q)) b)) q needed)
    as [b' [Hc' Hf]]; [exists b; auto|].
  unfold read_point. rewrite Hf.
  apply (rt_chunk_at_extract d (fun q => f (addv off q))). exact Hc'.
Qed.


(* ------------------------------------------------------------------------------------------------ *)
(* ANY unit-step selection, empty ones included (possible since _prune_chunks always retains a chunk)  *)

Definition ax_ok0 (cs : list Z) (ix : Z * Z) : Prop := 0 <= fst ix /\ fst ix <= snd ix /\ snd ix <= sumZ cs.
Definition nonempty_pos (cs : list Z) : Prop := cs <> [] /\ posl cs.

Lemma norm_index_ok0 : forall chunks index,
  Forall posl chunks -> Forall2 ax_ok0 chunks (norm_index (chunks_shape chunks) index).
Proof.
  unfold chunks_shape.
  induction chunks as [|cs chunks IH]; intros index Hp.
  - constructor.
  - inversion Hp; subst.
    pose proof (sumZ_nonneg cs H1) as Hnn.
    destruct index as [|ix index]; cbn [map norm_index] in *; constructor; auto.
    + unfold ax_ok0; cbn [fst snd] in *. lia.
    + unfold ax_ok0, norm_slice in *; cbn [fst snd] in *.
      pose proof (norm_bound_range (sumZ cs) (fst ix) 0 Hnn).
      pose proof (norm_bound_range (sumZ cs) (snd ix) (sumZ cs) Hnn).
      lia.
Qed.

Definition ax_orig (x : list Z * (Z * Z) * Z) (cs : list Z) : Prop :=
  forall se, In se (ax_na x) -> In (shift (snd x) se) (intervals 0 cs).

Lemma pr_axis0 : forall cs ix, nonempty_pos cs -> ax_ok0 cs ix ->
  ax_cover (prune_axis cs ix) /\ shift (snd (prune_axis cs ix)) (ax_ix (prune_axis cs ix)) = ix
  /\ ax_orig (prune_axis cs ix) cs.
Proof.
  intros cs [s e] [Hne Hp] (Ha & Hb & Hc). cbn [fst snd] in *.
  pose proof (prune_axis_intervals cs s e Hne) as K.
  assert (Hcov : s < e -> ax_cover (prune_axis cs (s, e))).
  { intros Hlt. apply pr_axis; [assumption | unfold ax_ok; cbn [fst snd]; lia]. }
  destruct (prune_axis cs (s, e)) as [[cs' ix'] off'] eqn:E.
  destruct K as [K1 [K2 K3]]. subst ix'. unfold ax_cover, ax_ix, ax_na, ax_orig in *. cbn [fst snd] in *.
  split; [| split].
  - intros z Hz. apply Hcov; lia.
  - unfold shift. cbn [fst snd]. f_equal; lia.
  - intros se Hin. apply K3. eapply needed_axis_incl; eassumption.
Qed.

Lemma pr_prune_facts0 : forall chunks nix, Forall nonempty_pos chunks -> Forall2 ax_ok0 chunks nix ->
  Forall ax_cover (prune chunks nix) /\
  add_offset (map ax_ix (prune chunks nix)) (map snd (prune chunks nix)) = nix /\
  length (prune chunks nix) = length chunks /\
  Forall2 ax_orig (prune chunks nix) chunks.
Proof.
  intros chunks nix Hp H. revert Hp.
  induction H as [|cs ix chunks nix Hok H IH]; intros Hp; cbn [prune map length].
  - repeat split; constructor.
  - inversion Hp; subst. destruct (IH H3) as (I1 & I2 & I3 & I4).
    destruct (pr_axis0 cs ix H2 Hok) as [P1 [P2 P3]].
    destruct (prune_axis cs ix) as [[cs' [s' e']] off'].
    unfold ax_ix, shift in P2. cbn [fst snd] in P2.
    repeat split.
    + constructor; auto.
    + unfold ax_ix at 1. cbn [fst snd add_offset]. rewrite I2, P2. reflexivity.
    + rewrite I3. reflexivity.
    + constructor; auto.
Qed.

(* every needed block, shifted back, is a block of the original chunking: no chunk boundary is altered *)
Lemma pr_needed_blocks0 : forall pr chunks, Forall2 ax_orig pr chunks ->
  forall b', In b' (cart (map ax_na pr)) -> In (add_offset b' (map snd pr)) (blocks chunks).
Proof.
  induction 1 as [|x cs pr chunks Hx H IH]; intros b' Hb'.
  - cbn in Hb'. destruct Hb' as [<- | []]. left. reflexivity.
  - cbn [map cart] in Hb'. apply rt_in_cons_cart in Hb'. destruct Hb' as [se [q [-> [Hse Hq]]]].
    destruct se as [a b]. cbn [map add_offset]. rewrite rt_blocks_cons. apply rt_in_cons_cart.
    exists (a + snd x, b + snd x), (add_offset q (map snd pr)). split; [reflexivity|]. split.
    + apply (Hx (a, b) Hse).
    + apply IH. exact Hq.
Qed.

Lemma pruned_read_all : forall (A : Type) (d : A) (miss : option A) (st : store A) (arr : str) (dt : Z)
    (f : list Z -> A) (chunks : list (list Z)) (index : list (option Z * option Z)),
  (forall s1 s2, chunk_name arr s1 = chunk_name arr s2 -> s1 = s2) ->
  Forall nonempty_pos chunks ->
  let r := get_array_index d miss (fst (put_array st arr dt f chunks [])) arr dt chunks index in
  snd r = Ok (map f (spec_index_points chunks index))
  /\ forall b, In b (fst r) -> In b (blocks chunks).
Proof.
  intros A d miss st arr dt f chunks index Hinj Hnp.
  assert (Hp : Forall posl chunks) by (eapply Forall_impl; [|exact Hnp]; intros a [_ Ha]; exact Ha).
  pose proof (norm_index_ok0 chunks index Hp) as Hok.
  unfold get_array_index, spec_index_points. cbv zeta.
  set (nix := norm_index (chunks_shape chunks) index) in *.
  destruct (pr_prune_facts0 chunks nix Hnp Hok) as (Hcov & Hix & Hlen & Horig).
  pose proof (pr_needed_blocks0 _ _ Horig) as Hmem.
  change (map (fun x => needed_axis (fst (fst x)) (snd (fst x))) (prune chunks nix))
    with (map ax_na (prune chunks nix)).
  change (map (fun x => snd (fst x)) (prune chunks nix)) with (map ax_ix (prune chunks nix)).
  set (pr := prune chunks nix) in *.
  set (off := map snd pr) in *.
  set (needed := cart (map ax_na pr)) in *.
  set (index' := map ax_ix pr) in *.
  assert (Hloff : length off = length pr) by (unfold off; apply map_length).
  assert (Hlb : forall b', In b' needed -> length b' = length off).
  { intros b' Hb'. apply cart_length in Hb'. rewrite Hb', map_length. lia. }
  cbn [fst snd]. split.
  2:{ intros b Hb. apply in_map_iff in Hb. destruct Hb as [b' [<- Hb']].
      rewrite get_slices_add by (apply Hlb; assumption). apply Hmem. exact Hb'. }
  unfold put_array.
  set (st' := fst (put_blocks f arr dt [] st (blocks chunks))).
  assert (Hwf : chunks_wf chunks).
  { eapply Forall_impl; [|exact Hp]. intros; left; auto. }
  assert (Hgood : Forall (rt_good []) (blocks chunks)).
  { apply Forall_forall. intros b Hb. reflexivity. }
  assert (Hnd : NoDup (map (rt_key arr []) (blocks chunks))).
  { apply (rt_NoDup_map_rel (rt_key arr []) (map fst)); [|apply rt_NoDup_block_starts; auto].
    intros b1 b2 _ _ E. unfold rt_key, chunk_key in E. apply app_inv_tail in E. apply Hinj in E. exact E. }
  assert (Hget : forall b', In b' needed ->
            get_chunk_or miss st' arr (get_slices off b') dt
              = Ok (slice_shape b', extract (fun q => f (addv off q)) b')).
  { intros b' Hb'.
    pose proof (Hlb b' Hb') as Hl.
    rewrite get_slices_add by auto.
    pose proof (Hmem b' Hb') as HB.
    pose proof (rt_get_ok f arr dt [] miss st' (add_offset b' off)) as G.
    change (get_slices [] (add_offset b' off)) with (add_offset b' off) in G.
    rewrite G.
    - rewrite rt_shape_add_offset by lia. unfold extract.
      rewrite pr_region_points_add_offset by auto. rewrite map_map. reflexivity.
    - reflexivity.
    - reflexivity.
    - apply rt_put_blocks_lookup; auto. }
  rewrite (rt_fetch_ok (fun q => f (addv off q)) arr dt off miss st' needed Hget).
  f_equal.
  assert (E : region_points nix = map (addv off) (region_points index')).
  { rewrite <- Hix. apply pr_region_points_add_offset. unfold index'. rewrite map_length. lia. }
  rewrite E, map_map. apply map_ext_in. intros q Hq.
  destruct (pr_cover_cart ax_na ax_ix pr Hcov q Hq) as [b [Hb Hc]].
  destruct (rt_find_blocks (fun b => (slice_shape b, extract (fun q => f (addv off q)) b)) q needed)
    as [b' [Hc' Hf]]; [exists b; auto|].
  unfold read_point. rewrite Hf.
  apply (rt_chunk_at_extract d (fun q => f (addv off q))). exact Hc'.
Qed.

Print Assumptions pruned_read.
Print Assumptions pruned_read_all.
