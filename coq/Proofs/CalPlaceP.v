(* C14: placement of time-stamped cal solutions onto the (preselected) dumps: Model/CalPlace.v *)
From Coq Require Import ZArith QArith List Bool Lia Sorting String Ascii.
From KV Require Import Base.Sx Base.Str Gen.Generated Model.Interp Model.CalInterp Model.CalSelect Model.CalPlace Proofs.CalInterpP.
Import ListNotations.
Open Scope Z_scope.

Section PlaceP.
  Variable A : Type.
  Notation evs := (list (Z * A)).
  Definition ev_le (a b : Z * A) : Prop := fst a <= fst b.
  Definition clampev (p : Z * A) : Z * A := (Z.max 0 (fst p), snd p).
  Definition inr (n : Z) (p : Z * A) : bool := Z.max 0 (fst p) <? n.

  Lemma place_tail_dup0 : forall init a b (X : evs),
    place_tail init ((0, a) :: (0, b) :: X) = place_tail init ((0, b) :: X).
  Proof. intros init a b X. unfold place_tail. destruct init; reflexivity. Qed.

  Lemma filter_none_ge : forall n (l : evs), Forall (fun p => n <= fst p) l -> filter (inr n) l = [].
  Proof. intros n l H. induction H as [|[e v] t He Ht IH]; [reflexivity|]. cbn [filter]. unfold inr at 1. cbn [fst] in *.
         assert (Z.max 0 e <? n = false) as -> by lia. exact IH. Qed.

  Lemma take_lt_clamp : forall n (l : evs), StronglySorted ev_le l -> Forall (fun p => 0 <= fst p) l ->
    map clampev (filter (inr n) l) = take_lt n l.
  Proof.
    intros n l Hs. induction Hs as [|[e v] t Hs IH Hall]; intros Hp; [reflexivity|].
    inversion Hp as [|? ? He Ht]; subst. cbn [fst] in He. cbn [filter take_lt]. unfold inr at 1. cbn [fst].
    rewrite Z.max_r by lia. destruct (e <? n) eqn:E.
    - cbn [map]. unfold clampev at 1. cbn [fst snd]. rewrite Z.max_r by lia. f_equal. apply IH; assumption.
    - (* everything after is >= e >= n *)
      assert (Hnone : filter (inr n) t = []).
      { apply filter_none_ge. eapply Forall_impl; [|exact Hall]. intros q Hq. unfold ev_le in Hq. cbn [fst] in Hq. lia. }
      rewrite Hnone. reflexivity.
  Qed.

  Lemma filter_none : forall n (l : evs), n <= 0 -> filter (inr n) l = [].
  Proof. intros n l Hn. induction l as [|[e v] t IH]; [reflexivity|]. cbn [filter]. unfold inr at 1. cbn [fst].
         assert (Z.max 0 e <? n = false) as -> by lia. exact IH. Qed.

  Lemma sorted_tail_ge : forall (p : Z * A) t, StronglySorted ev_le (p :: t) -> Forall (fun q => fst p <= fst q) t.
  Proof. intros p t H. inversion H; assumption. Qed.

  Lemma inr_prior : forall n v, 0 <? n = true -> inr n (-1, v) = true.
  Proof. intros. unfold inr. cbn [fst]. exact H. Qed.
  Lemma clampev_prior : forall v, clampev (-1, v) = (0, v).
  Proof. reflexivity. Qed.

  Lemma filter_prior_cons : forall n v (t : evs),
    filter (inr n) ((-1, v) :: t) = if 0 <? n then (-1, v) :: filter (inr n) t else filter (inr n) t.
  Proof. reflexivity. Qed.
  Lemma take_lt_cons : forall n e v (t : evs), take_lt n ((e, v) :: t) = if e <? n then (e, v) :: take_lt n t else [].
  Proof. reflexivity. Qed.

  (* the prior bookkeeping of the code = clamping to the first dump *)
  Lemma shift_prior_is_clamp : forall init n (l : evs), StronglySorted ev_le l -> Forall (fun p => -1 <= fst p) l ->
    place_tail init (take_lt n (shift_prior l)) = place_tail init (map clampev (filter (inr n) l)).
  Proof.
    intros init n l Hs. induction Hs as [|[e v] t Hs IH Hall]; intros Hp; [reflexivity|].
    inversion Hp as [|? ? He Ht]; subst. cbn [fst] in He. cbn [shift_prior].
    destruct (e <=? -1) eqn:E.
    - assert (e = -1) by lia. subst e.
      destruct t as [|[e' v'] t'].
      + cbn [take_lt filter]. unfold inr. cbn [fst]. change (Z.max 0 (-1)) with 0. destruct (0 <? n); reflexivity.
      + destruct (e' <=? -1) eqn:E'.
        * specialize (IH Ht). rewrite IH. destruct (0 <? n) eqn:N0.
          -- inversion Ht as [|? ? He' Ht']; subst. cbn [fst] in He'. assert (e' = -1) by lia. subst e'.
             cbn [filter]. rewrite !inr_prior by exact N0. cbn [map]. rewrite !clampev_prior.
             symmetry. apply place_tail_dup0.
          -- rewrite !filter_none by lia. reflexivity.
        * (* the final prior event, followed by proper ones *)
          assert (Hpos : Forall (fun p => 0 <= fst p) ((e', v') :: t')).
          { inversion Hs as [|? ? Hs' Hall']; subst. constructor; [cbn; lia|].
            eapply Forall_impl; [|exact Hall']. intros q Hq. unfold ev_le in Hq. cbn [fst] in *. lia. }
          rewrite filter_prior_cons, (take_lt_cons n 0 v). destruct (0 <? n) eqn:N0.
          -- cbn [map]. rewrite clampev_prior. rewrite (take_lt_clamp n _ Hs Hpos). reflexivity.
          -- rewrite filter_none by lia. reflexivity.
    - assert (Hpos : Forall (fun p => 0 <= fst p) ((e, v) :: t)).
      { constructor; [cbn; lia|]. eapply Forall_impl; [|exact Hall]. intros q Hq. unfold ev_le in Hq. cbn [fst] in *. lia. }
      rewrite (take_lt_clamp n ((e, v) :: t)); [reflexivity| constructor; assumption | exact Hpos].
  Qed.

  (* ---------- events of time-sorted samples are sorted *)
  Lemma count_lt_mono : forall ends t1 t2, (t1 <= t2)%Q -> (count_lt ends t1 <= count_lt ends t2)%nat.
  Proof.
    induction ends as [|e r IH]; intros t1 t2 H; [apply le_n|]. cbn [count_lt].
    destruct (Qlt_bool e t1) eqn:E1; [|apply Nat.le_0_l].
    apply qlt_bool_true in E1. assert (E2 : Qlt_bool e t2 = true) by (apply qlt_bool_true; eapply Qlt_le_trans; eauto).
    rewrite E2. apply le_n_S. apply IH. exact H.
  Qed.
  Lemma event_of_mono : forall ends P t1 t2, (t1 <= t2)%Q -> event_of ends P t1 <= event_of ends P t2.
  Proof. intros. unfold event_of. pose proof (count_lt_mono (with_prior_dump ends P) t1 t2 H). lia. Qed.
  Lemma event_of_ge : forall ends P t, -1 <= event_of ends P t.
  Proof. intros. unfold event_of. lia. Qed.

  Lemma events_sorted : forall ends P (samples : list (Q * A)), StronglySorted Qle (map fst samples) ->
    StronglySorted ev_le (events_of ends P samples).
  Proof.
    intros ends P samples. induction samples as [|[t v] r IH]; intros H; [constructor|].
    cbn [map fst] in H. inversion H as [|? ? Hs Hall]; subst. cbn [events_of map]. constructor; [apply IH; exact Hs|].
    rewrite Forall_forall in *. intros [e' v'] Hin. apply in_map_iff in Hin. destruct Hin as [[t' w] [Heq Hin]].
    inversion Heq; subst. unfold ev_le. cbn [fst]. apply event_of_mono. apply Hall. apply in_map_iff. exists (t', v'). split; auto.
  Qed.
  Lemma events_ge : forall ends P (samples : list (Q * A)), Forall (fun p => -1 <= fst p) (events_of ends P samples).
  Proof. intros. unfold events_of. rewrite Forall_map. apply Forall_forall. intros. cbn [fst]. apply event_of_ge. Qed.

  Lemma clamp_filter_events : forall ends P (samples : list (Q * A)),
    map clampev (filter (inr (Z.of_nat (List.length ends))) (events_of ends P samples)) =
    map (fun s => (dump_clamped ends P (fst s), snd s)) (filter (in_range ends P) samples).
  Proof.
    intros. unfold events_of, in_range, dump_clamped, inr, clampev. induction samples as [|[t v] r IH]; [reflexivity|].
    cbn [map filter fst snd].
    destruct (Z.max 0 (event_of ends P t) <? Z.of_nat (List.length ends)); [|exact IH].
    cbn [map fst snd]. rewrite IH. reflexivity.
  Qed.

  (* REFINEMENT: for every time-sorted history the code's placement is the documented one *)
  Theorem place_is_spec : forall init ends P (samples : list (Q * A)), StronglySorted Qle (map fst samples) ->
    place init ends P samples = spec_place init ends P samples.
  Proof.
    intros. unfold place, spec_place. rewrite shift_prior_is_clamp by (auto using events_sorted, events_ge).
    rewrite clamp_filter_events. reflexivity.
  Qed.

  (* ---------- laws of the documented placement *)
  (* solutions timestamped after the last dump never matter *)
  Lemma spec_late_dropped : forall init ends P (l late : list (Q * A)),
    forallb (fun s => negb (in_range ends P s)) late = true -> spec_place init ends P (l ++ late) = spec_place init ends P l.
  Proof.
    intros. unfold spec_place. rewrite filter_app.
    assert (filter (in_range ends P) late = []) as ->; [|rewrite app_nil_r; reflexivity].
    induction late as [|s r IH]; [reflexivity|]. cbn [forallb] in H. apply andb_true_iff in H. destruct H as [H1 H2].
    cbn [filter]. destruct (in_range ends P s); [discriminate|]. apply IH. exact H2.
  Qed.

  Lemma spec_cons0 : forall ends P (x : Q * A) l, 0 <? Z.of_nat (List.length ends) = true ->
    dump_clamped ends P (fst x) = 0 ->
    map (fun s => (dump_clamped ends P (fst s), snd s)) (filter (in_range ends P) (x :: l)) =
    (0, snd x) :: map (fun s => (dump_clamped ends P (fst s), snd s)) (filter (in_range ends P) l).
  Proof. intros. cbn [filter]. unfold in_range at 1. rewrite H0, H. cbn [map]. rewrite H0. reflexivity. Qed.

  (* of all the solutions timestamped at or before the END of the first dump (before the first dump or inside it) only
     the LAST one matters *)
  Lemma spec_first_dump_only_last : forall init ends P (pre : list (Q * A)) s post,
    ends <> [] -> Forall (fun x => dump_clamped ends P (fst x) = 0) pre -> dump_clamped ends P (fst s) = 0 ->
    spec_place init ends P (pre ++ s :: post) = spec_place init ends P (s :: post).
  Proof.
    intros init ends P pre s post Hne Hpre Hs. unfold spec_place.
    assert (N0 : 0 <? Z.of_nat (List.length ends) = true) by (apply Z.ltb_lt; destruct ends; [congruence|cbn [List.length]; rewrite Nat2Z.inj_succ; pose proof (Nat2Z.is_nonneg (List.length ends)); lia]).
    induction Hpre as [|x pre Hx Hpre IH]; [reflexivity|].
    cbn [app]. rewrite spec_cons0 by assumption. rewrite <- IH. destruct pre as [|y pre'].
    - cbn [app]. rewrite spec_cons0 by assumption. apply place_tail_dup0.
    - inversion Hpre; subst. cbn [app]. rewrite spec_cons0 by assumption. apply place_tail_dup0.
  Qed.

  (* solutions in distinct dumps, none before the end of ... : each is a node at its own dump *)
  Lemma last_per_dump_strict : forall (l : evs), StronglySorted (fun a b => fst a < fst b) l -> last_per_dump l = l.
  Proof.
    intros l H. induction H as [|[e v] t Hs IH Hall]; [reflexivity|]. cbn [last_per_dump].
    destruct t as [|[e' v'] t']; [reflexivity|]. inversion Hall as [|? ? H1 H2]; subst. cbn [fst] in H1.
    assert (e <? e' = true) as -> by lia. f_equal. exact IH.
  Qed.

  Lemma spec_own_dump : forall i ends P (samples : list (Q * A)),
    forallb (in_range ends P) samples = true ->
    StronglySorted (fun a b => fst a < fst b) (map (fun s => (dump_clamped ends P (fst s), snd s)) samples) ->
    spec_place (Some i) ends P samples =
    Some (with_initial (Some i) (map (fun s => (dump_clamped ends P (fst s), snd s)) samples)).
  Proof.
    intros i ends P samples Hin Hs. unfold spec_place.
    assert (filter (in_range ends P) samples = samples) as ->.
    { clear Hs. induction samples as [|s r IH]; [reflexivity|]. cbn [forallb] in Hin. apply andb_true_iff in Hin.
      destruct Hin as [H1 H2]. cbn [filter]. rewrite H1. f_equal. apply IH. exact H2. }
    set (l := map _ samples) in *. unfold place_tail.
    destruct l as [|[e v] t] eqn:El.
    - reflexivity.
    - cbn [with_initial]. destruct (e =? 0) eqn:E0.
      + cbn [force_first]. assert (e = 0) by lia. subst e. rewrite last_per_dump_strict by exact Hs. reflexivity.
      + cbn [force_first]. rewrite last_per_dump_strict; [reflexivity|].
        constructor; [exact Hs|]. assert (0 <= e). { pose proof (f_equal (map fst) El) as Hm. unfold l in Hm.
          destruct samples as [|s0 r0]; [discriminate|]. cbn [map fst] in Hm. inversion Hm. unfold dump_clamped. lia. }
        inversion Hs as [|? ? Hs' Hall]; subst. constructor; [cbn [fst]; lia|].
        eapply Forall_impl; [|exact Hall]. intros q Hq. cbn [fst] in *. lia.
  Qed.

  (* ---------- well-formedness of every placement: events start at 0 and strictly increase *)
  Lemma last_per_dump_sorted : forall (l : evs), StronglySorted ev_le l ->
    StronglySorted (fun a b => fst a < fst b) (last_per_dump l) /\
    (forall p, In p (last_per_dump l) -> In p l) /\
    (forall e v t, l = (e, v) :: t -> exists v' t', last_per_dump l = (e, v') :: t').
  Proof.
    intros l H. induction H as [|[e v] t Hs IH Hall]; [repeat split; [constructor|tauto|discriminate]|].
    destruct IH as [IH1 [IH2 IH3]]. cbn [last_per_dump]. destruct t as [|[e' v'] t'].
    - repeat split; [repeat constructor|tauto|]. intros e0 v0 t0 Heq. injection Heq as <- <- <-. eauto.
    - destruct (e <? e') eqn:E.
      + repeat split.
        * constructor; [exact IH1|]. apply Forall_forall. intros p Hp. apply IH2 in Hp. cbn [fst].
          rewrite Forall_forall in Hall. specialize (Hall p Hp). unfold ev_le in Hall. cbn [fst] in Hall.
          destruct Hp as [Hp|Hp]; [subst p; cbn [fst]; lia|].
          inversion Hs as [|? ? ? Hall']; subst. rewrite Forall_forall in Hall'. specialize (Hall' p Hp).
          unfold ev_le in Hall'. cbn [fst] in Hall'. lia.
        * intros p [Hp|Hp]; [left; exact Hp|right; apply IH2; exact Hp].
        * intros e0 v0 t0 Heq. injection Heq as <- <- <-. eauto.
      + inversion Hall as [|? ? H1 H2]; subst. unfold ev_le in H1. cbn [fst] in H1. assert (e' = e) by lia. subst e'.
        repeat split; [exact IH1|intros p Hp; right; apply IH2; exact Hp|].
        intros e0 v0 t0 Heq. injection Heq as <- <- <-. destruct (IH3 e v' t' eq_refl) as [v'' [t'' Hq]]. eauto.
  Qed.

  Lemma filter_inr_cons : forall n e v (t : evs),
    filter (inr n) ((e, v) :: t) = if Z.max 0 e <? n then (e, v) :: filter (inr n) t else filter (inr n) t.
  Proof. reflexivity. Qed.

  Lemma spec_place_wellformed : forall init ends P (samples : list (Q * A)) l,
    StronglySorted Qle (map fst samples) -> spec_place init ends P samples = Some l ->
    StronglySorted (fun a b => fst a < fst b) l /\ (exists v t, l = (0, v) :: t) /\
    Forall (fun p => 0 <= fst p < Z.max 1 (Z.of_nat (List.length ends))) l.
  Proof.
    intros init ends P samples l Hs H. unfold spec_place in H. rewrite <- clamp_filter_events in H.
    set (n := Z.of_nat (List.length ends)) in *.
    pose proof (events_sorted ends P samples Hs) as Hev. pose proof (events_ge ends P samples) as Hge.
    set (ev := events_of ends P samples) in *.
    assert (Hc : StronglySorted ev_le (map clampev (filter (inr n) ev)) /\
                 Forall (fun p => 0 <= fst p < Z.max 1 n) (map clampev (filter (inr n) ev))).
    { clearbody ev. clear H Hge. induction Hev as [|[e v] t Ht IH Hall]; [split; constructor|].
      destruct IH as [IHa IHb]. rewrite filter_inr_cons. destruct (Z.max 0 e <? n) eqn:E; [|split; assumption].
      cbn [map]. split.
      - constructor; [exact IHa|]. rewrite Forall_map. apply Forall_forall. intros q Hq. apply filter_In in Hq.
        destruct Hq as [Hq _]. rewrite Forall_forall in Hall. specialize (Hall q Hq). unfold ev_le, clampev in *. cbn [fst] in *. lia.
      - constructor; [unfold clampev; cbn [fst]; lia|exact IHb]. }
    destruct Hc as [Hc1 Hc2]. set (c := map clampev (filter (inr n) ev)) in *. clearbody c.
    unfold place_tail in H. destruct (force_first (with_initial init c)) as [l'|] eqn:F; [|discriminate]. inversion H; subst l.
    assert (Hl' : StronglySorted ev_le l' /\ (exists v t, l' = (0, v) :: t) /\ Forall (fun p => 0 <= fst p < Z.max 1 n) l').
    { assert (Hw : StronglySorted ev_le (with_initial init c) /\ Forall (fun p => 0 <= fst p < Z.max 1 n) (with_initial init c)).
      { destruct init as [i|]; [|split; assumption]. cbn [with_initial]. destruct c as [|[e v] t].
        - split; repeat constructor; cbn; lia.
        - destruct (e =? 0); [split; assumption|]. split.
          + constructor; [exact Hc1|]. eapply Forall_impl; [|exact Hc2]. intros q Hq. cbv beta in Hq. unfold ev_le. cbn [fst]. lia.
          + constructor; [cbn; lia|exact Hc2]. }
      destruct Hw as [Hw1 Hw2]. destruct (with_initial init c) as [|[e v] t]; [discriminate|]. cbn [force_first] in F.
      inversion F; subst l'. inversion Hw1 as [|? ? Hw1' Hall]; subst. inversion Hw2 as [|? ? H0 Hw2']; subst. cbn [fst] in H0.
      repeat split.
      - constructor; [exact Hw1'|]. eapply Forall_impl; [|exact Hw2']. intros q Hq. cbv beta in Hq. unfold ev_le. cbn [fst]. lia.
      - eauto.
      - constructor; [cbn; lia|exact Hw2']. }
    destruct Hl' as [Hl1 [[v [t Hl2]] Hl3]].
    destruct (last_per_dump_sorted l' Hl1) as [K1 [K2 K3]]. repeat split.
    - exact K1.
    - destruct (K3 0 v t Hl2) as [v' [t' Hq]]. eauto.
    - apply Forall_forall. intros p Hp. apply K2 in Hp. rewrite Forall_forall in Hl3. auto.
  Qed.
End PlaceP.

(* ---------- regenerated sensor properties are the documented ones *)
Lemma cal_sensor_props_documented :
  cal_initial_invalid = ["G"; "GPHASE"; "GAMP_PHASE"]%string /\ cal_allow_repeats = ["G"; "GPHASE"; "GAMP_PHASE"]%string.
Proof. split; reflexivity. Qed.

Lemma place_product_is_spec : forall t ends P samples, StronglySorted Qle (map fst samples) ->
  place_product t ends P samples =
  spec_place_product (mem_string t ["G"; "GPHASE"; "GAMP_PHASE"]%string) ends P samples.
Proof.
  intros. unfold place_product, spec_place_product. rewrite place_is_spec.
  - unfold initial_of_type. destruct cal_sensor_props_documented as [-> _].
    destruct (mem_string t ["G"; "GPHASE"; "GAMP_PHASE"]%string); reflexivity.
  - rewrite map_map. cbn [fst]. exact H.
Qed.

Lemma gain_from_samples_is_spec : forall t ends P samples targets, StronglySorted Qle (map fst samples) ->
  mem_string t ["G"; "GPHASE"; "GAMP_PHASE"]%string = true ->
  gain_from_samples t ends P samples targets = spec_gain_from_samples ends P samples targets.
Proof.
  intros t ends P samples targets Hs Ht. unfold gain_from_samples, spec_gain_from_samples.
  rewrite place_product_is_spec by exact Hs. rewrite Ht.
  destruct (spec_place_product true ends P samples); [|reflexivity]. rewrite gain_is_spec. reflexivity.
Qed.

(* ---------- multi-part attribute: which sensors are read *)
Lemma stitch_fuel_single : forall (p : part) n, (List.length p <= n)%nat -> stitch_fuel n [p] = p.
Proof.
  induction p as [|[t v] r IH]; intros n Hn.
  - destruct n; reflexivity.
  - destruct n as [|n]; [cbn [List.length] in Hn; lia|]. cbn [stitch_fuel min_ts fold_right head_ts opt_min fst map piece_at advance].
    assert (Qeq_bool t t = true) as -> by (apply Qeq_bool_iff; reflexivity).
    unfold assemble. cbn [last_present flat_map map snd]. rewrite app_nil_r. f_equal. apply IH. cbn [List.length] in Hn. lia.
Qed.
Lemma stitch_single : forall p : part, stitch [p] = match p with [] => None | _ => Some p end.
Proof.
  intros p. unfold stitch. rewrite stitch_fuel_single.
  - destruct p; reflexivity.
  - unfold total_len. cbn [fold_right]. lia.
Qed.

Lemma indirect_one_part : forall lookup,
  indirect_product lookup (Some 1%nat) = match lookup (Some 0%nat) with Some (s :: r) => Some (s :: r) | _ => None end.
Proof.
  intros. unfold indirect_product, product_keys. change parts_first_index with 0%nat. cbn [seq map].
  rewrite stitch_single. destruct (lookup (Some 0%nat)) as [[|s r]|]; reflexivity.
Qed.
Lemma indirect_no_parts_attr : forall lookup, indirect_product lookup None = lookup None.
Proof. reflexivity. Qed.
Lemma indirect_zero_parts : forall lookup, indirect_product lookup (Some 0%nat) = None.
Proof. reflexivity. Qed.
Lemma indirect_parts_keys : forall n, product_keys (Some n) = map Some (seq 0 n).
Proof. reflexivity. Qed.
Lemma indirect_is_stitch : forall lookup n,
  indirect_product lookup (Some n) =
  stitch (map (fun i => match lookup (Some i) with Some p => p | None => [] end) (seq 0 n)).
Proof. intros. unfold indirect_product. rewrite indirect_parts_keys, map_map. reflexivity. Qed.

(* ---------- <stream>.<type>: split at the LAST dot, for every string *)
Open Scope string_scope.
Lemma rsplit_none_iff : forall s, rsplit_dot s = None <-> has_dot s = false.
Proof.
  induction s as [|a t IH]; [split; reflexivity|]. cbn [rsplit_dot has_dot].
  destruct (rsplit_dot t) as [[h r]|].
  - split; [discriminate|]. intros H. apply orb_false_iff in H. destruct H as [_ H]. apply IH in H. discriminate.
  - destruct (Ascii.eqb a "."%char) eqn:E; cbn [orb].
    + split; discriminate.
    + split; intros _; [apply IH|]; reflexivity.
Qed.
Lemma rsplit_last_dot : forall s t, has_dot t = false -> rsplit_dot (s ++ "." ++ t) = Some (s, t).
Proof.
  intros s t Ht. induction s as [|a s' IH].
  - change ("" ++ "." ++ t) with (String "." t). cbn [rsplit_dot].
    assert (rsplit_dot t = None) as -> by (apply rsplit_none_iff; exact Ht). reflexivity.
  - change (String a s' ++ "." ++ t) with (String a (s' ++ "." ++ t)). cbn [rsplit_dot]. rewrite IH. reflexivity.
Qed.
Lemma parse_is_rsplit : forall s, parse_cal_product s = rsplit_dot s.
Proof. reflexivity. Qed.
(* the type of a parsed name never contains a dot, and the name is put together again from its two halves *)
Lemma rsplit_sound : forall s a b, rsplit_dot s = Some (a, b) -> s = a ++ "." ++ b /\ has_dot b = false.
Proof.
  induction s as [|c t IH]; intros a b H; [discriminate|]. cbn [rsplit_dot] in H.
  destruct (rsplit_dot t) as [[h r]|] eqn:E.
  - inversion H; subst. destruct (IH h b eq_refl) as [H1 H2]. split; [|exact H2]. rewrite H1 at 1. reflexivity.
  - destruct (Ascii.eqb c "."%char) eqn:Ec; [|discriminate]. inversion H; subst. apply Ascii.eqb_eq in Ec. subst c.
    split; [reflexivity|]. apply rsplit_none_iff. exact E.
Qed.
Close Scope string_scope.

Lemma flux_merge_decisions : flux_none_disables = true /\ flux_override_wins = true /\ parts_first_index = 0%nat /\
  parse_splits_at_last_dot = true /\ parts_shape_checked = true /\ request_parsing_shape_checked = true.
Proof. repeat split; reflexivity. Qed.
