(* C11 (round 3): several containers with shared storage - frame / separation theorems; add() with its bounds check;
   the necessity of injective tokens in unique_in_order. *)
From Coq Require Import ZArith List Bool Arith Lia.
From KV Require Import Base.Sx Model.Categorical Model.CategoricalX Model.CategoricalH Proofs.CategoricalP
  Proofs.CategoricalAddP Proofs.CategoricalPartP Proofs.CategoricalConcatP Proofs.CategoricalRemoveP
  Proofs.CategoricalAlignP Proofs.CategoricalSeqP Proofs.CategoricalXP.
Import ListNotations.
Open Scope nat_scope.

Lemma upd_eq {A} (f : nat -> A) k x : upd f k x k = x.
Proof. unfold upd. rewrite Nat.eqb_refl. reflexivity. Qed.
Lemma upd_neq {A} (f : nat -> A) k x n : n <> k -> upd f k x n = f n.
Proof. unfold upd. intros H. destruct (Nat.eqb_spec n k); [contradiction|reflexivity]. Qed.
Lemma firstn_skipn0 {A} (l : list A) : firstn (length l) (skipn 0 l) = l.
Proof. simpl. apply firstn_all. Qed.

Section HeapP.
Context {V : Type} (veqb : V -> V -> bool) (dflt : V).
Context (veqb_spec : forall a b, veqb a b = true <-> a = b).
Notation cdV := (@cd V).
Notation heapV := (@heap V).

(* ---------- add with its bounds check ---------- *)
Lemma add_chk_inv (c c' : cdV) e val : add_chk veqb c e val = Some c' ->
  (0 <= e)%Z /\ Z.to_nat e < ndumps c /\ add veqb c (Z.to_nat e) val = Some c'.
Proof.
  unfold add_chk. destruct (e <? 0)%Z eqn:A; [discriminate|]. destruct (Z.of_nat (ndumps c) <=? e)%Z eqn:B; [discriminate|].
  simpl. intros H. apply Z.ltb_ge in A. apply Z.leb_gt in B. split; [lia|]. split; [lia|exact H].
Qed.

Lemma add_defined_novalue (c : cdV) e : WF c -> hd 0 (ev c) <= e -> e < ndumps c -> add veqb c e None <> None.
Proof.
  intros W H1 H2. unfold add. destruct (lookup_value dflt c e W H1 H2) as (i & LK & _). rewrite LK.
  destruct (WF_inv c W) as (s & r & E & C & _).
  assert (K : count_lt (ev c) e < length (ev c)).
  { apply count_lt_lt_length; [apply W|rewrite E; discriminate|exact H2]. }
  destruct (nth_error (ev c) (count_lt (ev c) e)) eqn:N; [discriminate|]. apply nth_error_None in N. lia.
Qed.

(* add, total description: it raises exactly outside the dumps (and, without a value, before the first event);
   otherwise it is the add of the earlier theorems at a dump e < N *)
Lemma add_chk_none_iff (c : cdV) e val : WF c ->
  add_chk veqb c e val = None <->
  ((e < 0)%Z \/ (Z.of_nat (ndumps c) <= e)%Z \/ (val = None /\ (e < Z.of_nat (hd 0%nat (ev c)))%Z)).
Proof.
  intros W. unfold add_chk. destruct (e <? 0)%Z eqn:A.
  { apply Z.ltb_lt in A. simpl. split; auto. }
  destruct (Z.of_nat (ndumps c) <=? e)%Z eqn:B.
  { apply Z.leb_le in B. simpl. split; auto. }
  simpl. apply Z.ltb_ge in A. apply Z.leb_gt in B.
  assert (HN : Z.to_nat e < ndumps c) by lia.
  split.
  - intros H. right. right. destruct val as [v|].
    + destruct (add_value_spec veqb dflt veqb_spec c (Z.to_nat e) v W HN) as (c1 & E1 & _). congruence.
    + split; [reflexivity|]. destruct (Nat.le_gt_cases (hd 0 (ev c)) (Z.to_nat e)) as [L|L]; [|lia].
      exfalso. exact (add_defined_novalue c (Z.to_nat e) W L HN H).
  - intros [H|[H|[H1 H2]]]; [lia|lia|]. subst val. apply add_novalue_outside; auto. left. lia.
Qed.

Lemma add_chk_some (c c' : cdV) e val : WF c -> add_chk veqb c e val = Some c' ->
  WF c' /\ ndumps c' = ndumps c /\ (0 <= e < Z.of_nat (ndumps c))%Z /\
  expand dflt c' = spec_add (expand dflt c) (ev c) (Z.to_nat e) val /\
  (forall y, In y (ev c') <-> y = Z.to_nat e \/ In y (ev c)).
Proof.
  intros W H. destruct (add_chk_inv c c' e val H) as (H0 & HN & HA). destruct val as [v|].
  - destruct (add_value_spec veqb dflt veqb_spec c (Z.to_nat e) v W HN) as (c1 & E1 & W1 & N1 & _ & I1 & X1).
    rewrite E1 in HA. inversion HA; subst c1. split; [exact W1|]. split; [exact N1|]. split; [lia|]. split; [exact X1|exact I1].
  - destruct (add_novalue_spec veqb dflt c c' (Z.to_nat e) W HA) as (W1 & N1 & _ & _ & I1 & X1).
    split; [exact W1|]. split; [exact N1|]. split; [lia|]. split; [exact X1|exact I1].
Qed.

Lemma add_chk_novalue (c : cdV) s : WF c -> add_chk veqb c (Z.of_nat s) None = add veqb c s None.
Proof.
  intros W. unfold add_chk. replace (Z.of_nat s <? 0)%Z with false by (symmetry; apply Z.ltb_ge; lia). simpl.
  destruct (Z.of_nat (ndumps c) <=? Z.of_nat s)%Z eqn:B.
  - apply Z.leb_le in B. symmetry. apply add_novalue_outside; auto. right. lia.
  - rewrite Nat2Z.id. reflexivity.
Qed.

Lemma add_unmatched_chk_eq (c : cdV) segs d : WF c -> add_unmatched_chk veqb c segs d = add_unmatched veqb c segs d.
Proof.
  intros W. unfold add_unmatched_chk, add_unmatched.
  generalize (filter (fun s : nat => d <? list_min (map (absd s) (ev c))) segs). intros l.
  revert c W. induction l as [|s l IH]; intros c W; simpl; [reflexivity|].
  rewrite (add_chk_novalue c s W). destruct (add veqb c s None) as [c1|] eqn:E.
  - apply IH. apply (add_novalue_spec veqb dflt c c1 s W E).
  - apply IH; auto.
Qed.

(* ---------- the frame lemmas of the two storage primitives ---------- *)
Lemma store_rd_target (h : heapV) i c' b : rd (store h i c' b) i = c'.
Proof.
  unfold rd, rd_obj, store. cbn [h_objs h_lists h_arrs]. rewrite upd_eq. cbn [o_uv o_idx o_ev].
  rewrite upd_eq. unfold rd_arr, whole. cbn [r_buf r_off r_len h_arrs].
  rewrite upd_eq. rewrite (upd_neq _ (S (n_arrs h))) by lia. rewrite upd_eq.
  rewrite !firstn_skipn0. destruct c'; reflexivity.
Qed.

Lemma store_arr (h : heapV) i c' b r : r_buf r < n_arrs h -> rd_arr (store h i c' b) r = rd_arr h r.
Proof. intros H. unfold rd_arr, store. cbn [h_arrs]. rewrite !upd_neq by lia. reflexivity. Qed.

Lemma store_rd_other (h : heapV) i c' b j : heap_ok h -> i < n_objs h -> j < n_objs h -> j <> i ->
  rd (store h i c' b) j = rd h j.
Proof.
  intros [INJ AL] Hi Hj Hne. unfold rd, rd_obj. destruct (AL j Hj) as (A1 & A2 & A3).
  rewrite !store_arr. 2,3: unfold store; cbn [h_objs]; rewrite upd_neq by auto; assumption.
  unfold store. cbn [h_objs h_lists]. rewrite (upd_neq _ i) by auto. f_equal.
  apply upd_neq. destruct b; [|lia]. intros E. apply Hne. apply INJ; auto.
Qed.

Lemma store_ok (h : heapV) i c' b : heap_ok h -> i < n_objs h -> heap_ok (store h i c' b).
Proof.
  intros [INJ AL] Hi. split.
  - intros a k Ha Hk. unfold store in *. cbn [n_objs h_objs] in *. unfold upd.
    destruct (Nat.eqb_spec a i), (Nat.eqb_spec k i); cbn [o_uv]; intros E; try congruence.
    + destruct b; [subst a; apply INJ; auto|destruct (AL k Hk); lia].
    + destruct b; [subst k; apply INJ; auto|destruct (AL a Ha); lia].
    + apply INJ; auto.
  - intros a Ha. unfold store in *. cbn [n_objs h_objs n_lists n_arrs] in *. unfold upd.
    destruct (Nat.eqb_spec a i); cbn [o_uv o_idx o_ev whole r_buf].
    + destruct b; [destruct (AL i Hi); lia|lia].
    + destruct (AL a Ha) as (A1 & A2 & A3). destruct b; lia.
Qed.

Lemma new_rd_new (h : heapV) c' : rd (new_obj h c' None) (n_objs h) = c'.
Proof.
  unfold rd, rd_obj, new_obj. cbn [h_objs h_lists h_arrs]. rewrite upd_eq. cbn [o_uv o_idx o_ev].
  rewrite upd_eq. unfold rd_arr, whole. cbn [r_buf r_off r_len h_arrs].
  rewrite upd_eq. rewrite (upd_neq _ (S (n_arrs h))) by lia. rewrite upd_eq.
  rewrite !firstn_skipn0. destruct c'; reflexivity.
Qed.
Lemma new_arr (h : heapV) c' sh r : r_buf r < n_arrs h -> rd_arr (new_obj h c' sh) r = rd_arr h r.
Proof. intros H. unfold rd_arr, new_obj. cbn [h_arrs]. rewrite !upd_neq by lia. reflexivity. Qed.
Lemma new_rd_other (h : heapV) c' j : heap_ok h -> j < n_objs h -> rd (new_obj h c' None) j = rd h j.
Proof.
  intros [INJ AL] Hj. unfold rd, rd_obj. destruct (AL j Hj) as (A1 & A2 & A3).
  rewrite !new_arr. 2,3: unfold new_obj; cbn [h_objs]; rewrite upd_neq by lia; assumption.
  unfold new_obj. cbn [h_objs h_lists]. rewrite (upd_neq _ (n_objs h)) by lia. f_equal. apply upd_neq. lia.
Qed.
Lemma new_ok (h : heapV) c' : heap_ok h -> heap_ok (new_obj h c' None).
Proof.
  intros [INJ AL]. split.
  - intros a k Ha Hk. unfold new_obj in *. cbn [n_objs h_objs] in *. unfold upd.
    destruct (Nat.eqb_spec a (n_objs h)), (Nat.eqb_spec k (n_objs h)); cbn [o_uv]; intros E; try congruence.
    + assert (Q : k < n_objs h) by lia. destruct (AL k Q). lia.
    + assert (Q : a < n_objs h) by lia. destruct (AL a Q). lia.
    + apply INJ; auto; lia.
  - intros a Ha. unfold new_obj in *. cbn [n_objs h_objs n_lists n_arrs] in *. unfold upd.
    destruct (Nat.eqb_spec a (n_objs h)); cbn [o_uv o_idx o_ev whole r_buf]; [lia|].
    assert (Q : a < n_objs h) by lia. destruct (AL a Q) as (A1 & A2 & A3). lia.
Qed.

(* what one step guarantees about everything that existed before it *)
Definition framed (h h' : heapV) (f : nat -> cdV -> cdV) : Prop :=
  heap_ok h' /\ n_objs h <= n_objs h' /\ n_arrs h <= n_arrs h' /\
  (forall r, r_buf r < n_arrs h -> rd_arr h' r = rd_arr h r) /\
  (forall j, j < n_objs h -> rd h' j = f j (rd h j)).

Lemma framed_refl (h : heapV) f : heap_ok h -> (forall j c, f j c = c) -> framed h h f.
Proof. intros OK F. split; [exact OK|]. split; [lia|]. split; [lia|]. split; [reflexivity|]. intros j Hj. symmetry; apply F. Qed.

Lemma framed_weaken (h h' : heapV) f g : framed h h' f -> (forall j, j < n_objs h -> f j (rd h j) = g j (rd h j)) ->
  framed h h' g.
Proof. intros (A & B & C & D & F) H. split; [exact A|]. split; [exact B|]. split; [exact C|]. split; [exact D|].
  intros j Hj. rewrite (F j Hj). apply H; auto. Qed.

Lemma framed_id (h : heapV) g : heap_ok h -> (forall j, j < n_objs h -> rd h j = g j (rd h j)) -> framed h h g.
Proof. intros OK H. apply framed_weaken with (f := fun _ c => c); [apply framed_refl; auto|exact H]. Qed.

Lemma store_framed (h : heapV) i c' b : heap_ok h -> i < n_objs h ->
  framed h (store h i c' b) (fun j c => if i =? j then c' else c).
Proof.
  intros OK Hi. split; [apply store_ok; auto|]. split; [simpl; lia|]. split; [simpl; lia|].
  split; [intros; apply store_arr; auto|]. intros j Hj. destruct (Nat.eqb_spec i j).
  - subst j. apply store_rd_target.
  - apply store_rd_other; auto.
Qed.

Lemma new_framed (h : heapV) c' : heap_ok h -> framed h (new_obj h c' None) (fun _ c => c).
Proof.
  intros OK. split; [apply new_ok; auto|]. split; [simpl; lia|]. split; [simpl; lia|].
  split; [intros; apply new_arr; auto|]. intros; apply new_rd_other; auto.
Qed.

(* add_unmatched: the sequence of add(segm) calls on object i *)
Lemma fold_add_framed (i : nat) : forall (l : list nat) (h : heapV), heap_ok h -> i < n_objs h ->
  let h' := fold_left (fun h s => fst (h_add veqb h i (Z.of_nat s) None)) l h in
  n_objs h' = n_objs h /\
  framed h h' (fun j c => if i =? j
     then fold_left (fun c s => match add_chk veqb c (Z.of_nat s) None with Some c' => c' | None => c end) l c else c).
Proof.
  induction l as [|s l IH]; intros h OK Hi; cbn [fold_left].
  - split; [reflexivity|]. apply framed_refl; auto. intros j c. destruct (i =? j); reflexivity.
  - set (h1 := fst (h_add veqb h i (Z.of_nat s) None)).
    assert (F1 : n_objs h1 = n_objs h /\ framed h h1 (fun j c => if i =? j
                  then match add_chk veqb c (Z.of_nat s) None with Some c' => c' | None => c end else c)).
    { unfold h1, h_add. destruct (add_chk veqb (rd h i) (Z.of_nat s) None) as [c1|] eqn:E; cbn [fst].
      - split; [reflexivity|]. eapply framed_weaken; [apply (store_framed h i c1 true OK Hi)|].
        intros j Hj. cbn beta. destruct (Nat.eqb_spec i j); [subst j; rewrite E|]; reflexivity.
      - split; [reflexivity|]. apply framed_id; auto. intros j Hj.
        destruct (Nat.eqb_spec i j); [subst j; rewrite E|]; reflexivity. }
    destruct F1 as [N1 (A & B & C & D & F)].
    destruct (IH h1 A) as [N2 (A2 & B2 & C2 & D2 & F2)]; [lia|].
    split; [lia|]. split; [exact A2|]. split; [lia|]. split; [lia|]. split.
    + intros r Hr. rewrite D2 by lia. apply D; auto.
    + intros j Hj. rewrite F2 by lia. rewrite (F j Hj). destruct (i =? j); reflexivity.
Qed.

(* partition: the new part objects *)
Lemma fold_new_framed : forall (ps : list cdV) (h : heapV), heap_ok h ->
  let h' := fold_left (fun h p => new_obj h p None) ps h in
  n_objs h' = n_objs h + length ps /\ framed h h' (fun _ c => c) /\
  (forall k, k < length ps -> rd h' (n_objs h + k) = nth k ps (mk [] [] [])).
Proof.
  induction ps as [|p ps IH]; intros h OK; cbn [fold_left length].
  - split; [lia|]. split; [apply framed_refl; auto|]. intros k Hk; lia.
  - destruct (new_framed h p OK) as (A & B & C & D & F).
    destruct (IH (new_obj h p None) A) as (N2 & (A2 & B2 & C2 & D2 & F2) & G2).
    cbn [n_objs new_obj] in N2, B2, F2, G2 |- *.
    split; [lia|]. split.
    + split; [exact A2|]. split; [lia|]. split; [cbn [n_arrs new_obj] in C2; lia|]. split.
      * intros r Hr. rewrite D2 by (cbn [n_arrs new_obj]; lia). apply D; auto.
      * intros j Hj. rewrite F2 by lia. apply F; auto.
    + intros [|k] Hk.
      * rewrite Nat.add_0_r. rewrite F2 by lia. apply new_rd_new.
      * replace (n_objs h + S k) with (S (n_objs h) + k) by lia. rewrite G2 by lia. reflexivity.
Qed.

(* ---------- one operation ---------- *)
Definition eff (o : hop) (j : nat) (c : cdV) : cdV := if targets j o then pure_op veqb dflt c o else c.

Lemma eff_notarget o j c : target o = None -> eff o j c = c.
Proof. unfold eff, targets. intros ->. reflexivity. Qed.

Ltac eff_case i j := unfold eff, targets; cbn [target pure_op]; destruct (Nat.eqb_spec i j).

Theorem h_step_framed (h : heapV) (o : hop) : heap_ok h -> framed h (fst (h_step veqb dflt false h o)) (eff o).
Proof.
  intros OK. destruct o as [vals r|i e v|i v|i segs d|i segs|i|i segs|parts ar]; cbn [h_step].
  - (* constructor *)
    destruct (Nat.ltb_spec (r_buf r) (n_arrs h)); cbn [fst]; [|apply framed_refl; auto].
    destruct OK as [INJ AL]. split; [split|].
    + intros a k Ha Hk. cbn [n_objs h_objs] in *. unfold upd.
      destruct (Nat.eqb_spec a (n_objs h)), (Nat.eqb_spec k (n_objs h)); cbn [o_uv]; intros E; try congruence.
      * assert (Q : k < n_objs h) by lia. destruct (AL k Q). lia.
      * assert (Q : a < n_objs h) by lia. destruct (AL a Q). lia.
      * apply INJ; auto; lia.
    + intros a Ha. cbn [n_objs h_objs n_lists n_arrs] in *. unfold upd.
      destruct (Nat.eqb_spec a (n_objs h)); cbn [o_uv o_idx o_ev whole r_buf]; [lia|].
      assert (Q : a < n_objs h) by lia. destruct (AL a Q) as (A1 & A2 & A3). lia.
    + cbn [n_objs n_arrs]. split; [lia|]. split; [lia|]. split.
      * intros r0 Hr. unfold rd_arr. cbn [h_arrs]. rewrite upd_neq by lia. reflexivity.
      * intros j Hj. unfold eff, targets. cbn [target]. unfold rd, rd_obj, rd_arr. cbn [h_objs h_lists h_arrs].
        destruct (AL j Hj) as (A1 & A2 & A3). rewrite (upd_neq (h_objs h)) by lia. rewrite !upd_neq by lia. reflexivity.
  - (* add *)
    destruct (Nat.ltb_spec i (n_objs h)); cbn [fst].
    2:{ apply framed_id; auto. intros j Hj. eff_case i j; [lia|reflexivity]. }
    unfold h_add. destruct (add_chk veqb (rd h i) e v) as [c1|] eqn:E; cbn [fst].
    + eapply framed_weaken; [apply (store_framed h i c1 true OK H)|]. intros j Hj. cbn beta.
      eff_case i j; [subst j; rewrite E|]; reflexivity.
    + apply framed_id; auto. intros j Hj. eff_case i j; [subst j; rewrite E|]; reflexivity.
  - (* remove *)
    destruct (Nat.ltb_spec i (n_objs h)); cbn [fst].
    2:{ apply framed_id; auto. intros j Hj. eff_case i j; [lia|reflexivity]. }
    destruct (index_of veqb v (uv (rd h i))) as [k|] eqn:E; cbn [fst].
    + eapply framed_weaken; [apply (store_framed h i _ true OK H)|]. intros j Hj. cbn beta.
      eff_case i j; [subst j|]; reflexivity.
    + apply framed_id; auto. intros j Hj. eff_case i j; [subst j; unfold remove; rewrite E|]; reflexivity.
  - (* add_unmatched *)
    destruct (Nat.ltb_spec i (n_objs h)); cbn [fst].
    2:{ apply framed_id; auto. intros j Hj. eff_case i j; [lia|reflexivity]. }
    destruct (fold_add_framed i (filter (fun s => d <? list_min (map (absd s) (ev (rd h i)))) segs) h OK H) as [_ FR].
    eapply framed_weaken; [exact FR|]. intros j Hj. cbn beta. eff_case i j; [subst j|]; reflexivity.
  - (* align *)
    destruct (Nat.ltb_spec i (n_objs h)); cbn [fst].
    2:{ apply framed_id; auto. intros j Hj. eff_case i j; [lia|reflexivity]. }
    destruct (align dflt (rd h i) segs) as [c1|] eqn:E; cbn [fst].
    + eapply framed_weaken; [apply (store_framed h i c1 false OK H)|]. intros j Hj. cbn beta.
      eff_case i j; [subst j; rewrite E|]; reflexivity.
    + apply framed_id; auto. intros j Hj. eff_case i j; [subst j; rewrite E|]; reflexivity.
  - (* remove_repeats *)
    destruct (Nat.ltb_spec i (n_objs h)); cbn [fst].
    2:{ apply framed_id; auto. intros j Hj. eff_case i j; [lia|reflexivity]. }
    destruct (remove_repeats (rd h i)) as [c1|] eqn:E; cbn [fst].
    + eapply framed_weaken; [apply (store_framed h i c1 true OK H)|]. intros j Hj. cbn beta.
      eff_case i j; [subst j; rewrite E|]; reflexivity.
    + apply framed_id; auto. intros j Hj. eff_case i j; [subst j; rewrite E|]; reflexivity.
  - (* partition: nothing that existed changes, the parent included *)
    destruct (Nat.ltb_spec i (n_objs h)); cbn [fst]; [|apply framed_refl; auto].
    destruct (partition_x (rd h i) segs) as [ps|]; cbn [fst]; [|apply framed_refl; auto].
    destruct (fold_new_framed ps h OK) as (_ & FR & _). exact FR.
  - (* concatenate: the inputs do not change *)
    destruct (forallb (fun i => i <? n_objs h) parts); cbn [fst]; [|apply framed_refl; auto].
    destruct parts as [|i [|i2 rest]].
    + destruct (concatenate veqb dflt (map (rd h) []) ar); cbn [fst]; [apply new_framed; auto|apply framed_refl; auto].
    + cbn [fst]. apply framed_refl; auto.
    + destruct (concatenate veqb dflt (map (rd h) (i :: i2 :: rest)) ar); cbn [fst];
        [apply new_framed; auto|apply framed_refl; auto].
Qed.

(* an operation that raises leaves EVERYTHING as it was *)
Lemma h_step_raise (sh : bool) (h : heapV) o : snd (h_step veqb dflt sh h o) = None -> fst (h_step veqb dflt sh h o) = h.
Proof.
  destruct o as [vals r|i e v|i v|i segs d|i segs|i|i segs|parts ar]; cbn [h_step].
  - destruct (r_buf r <? n_arrs h); cbn [fst snd]; [discriminate|reflexivity].
  - destruct (i <? n_objs h); cbn [fst snd]; [|reflexivity]. unfold h_add.
    destruct (add_chk veqb (rd h i) e v); cbn [fst snd]; [discriminate|reflexivity].
  - destruct (i <? n_objs h); cbn [fst snd]; [|reflexivity].
    destruct (index_of veqb v (uv (rd h i))); cbn [fst snd]; [discriminate|reflexivity].
  - destruct (i <? n_objs h); cbn [fst snd]; [discriminate|reflexivity].
  - destruct (i <? n_objs h); cbn [fst snd]; [|reflexivity].
    destruct (align dflt (rd h i) segs); cbn [fst snd]; [discriminate|reflexivity].
  - destruct (i <? n_objs h); cbn [fst snd]; [|reflexivity].
    destruct (remove_repeats (rd h i)); cbn [fst snd]; [discriminate|reflexivity].
  - destruct (i <? n_objs h); cbn [fst snd]; [|reflexivity].
    destruct (partition_x (rd h i) segs); cbn [fst snd]; [discriminate|reflexivity].
  - destruct (forallb (fun i => i <? n_objs h) parts); cbn [fst snd]; [|reflexivity].
    destruct parts as [|i [|i2 rest]].
    + destruct (concatenate veqb dflt (map (rd h) []) ar); cbn [fst snd]; [discriminate|reflexivity].
    + cbn [fst snd]. discriminate.
    + destruct (concatenate veqb dflt (map (rd h) (i :: i2 :: rest)) ar); cbn [fst snd]; [discriminate|reflexivity].
Qed.

(* the objects an operation creates *)
Lemma h_step_partition_new (h : heapV) i segs ps : heap_ok h -> i < n_objs h -> partition_x (rd h i) segs = Some ps ->
  let h' := fst (h_step veqb dflt false h (HPartition i segs)) in
  snd (h_step veqb dflt false h (HPartition i segs)) = Some (seq (n_objs h) (length ps)) /\
  n_objs h' = n_objs h + length ps /\
  (forall k, k < length ps -> rd h' (n_objs h + k) = nth k ps (mk [] [] [])) /\
  rd h' i = rd h i.
Proof.
  intros OK Hi E. cbn [h_step]. destruct (Nat.ltb_spec i (n_objs h)); [|lia]. rewrite E. cbn [fst snd].
  destruct (fold_new_framed ps h OK) as (N & (A & B & C & D & F) & G). split; [reflexivity|]. split; [exact N|]. split; [exact G|].
  apply F; auto.
Qed.

Lemma h_step_concat_new (h : heapV) parts ar cc : heap_ok h -> Forall (fun i => i < n_objs h) parts ->
  length parts <> 1 -> concatenate veqb dflt (map (rd h) parts) ar = Some cc ->
  let h' := fst (h_step veqb dflt false h (HConcat parts ar)) in
  snd (h_step veqb dflt false h (HConcat parts ar)) = Some [n_objs h] /\ rd h' (n_objs h) = cc /\
  (forall j, j < n_objs h -> rd h' j = rd h j).
Proof.
  intros OK FA L1 E. cbn [h_step].
  assert (FB : forallb (fun i => i <? n_objs h) parts = true).
  { apply forallb_forall. rewrite Forall_forall in FA. intros x Hx. apply Nat.ltb_lt. auto. }
  rewrite FB. destruct parts as [|i [|i2 rest]]; [|simpl in L1; lia|]; rewrite E; cbn [fst snd];
    (split; [reflexivity|]; split; [apply new_rd_new|]; intros; apply new_rd_other; auto).
Qed.

(* concatenation of ONE part returns that very object: no new object, nothing copied *)
Lemma h_step_concat_single (sh : bool) (h : heapV) i ar : i < n_objs h ->
  h_step veqb dflt sh h (HConcat [i] ar) = (h, Some [i]).
Proof. intros Hi. cbn [h_step forallb]. apply Nat.ltb_lt in Hi. rewrite Hi. reflexivity. Qed.

Lemma h_step_make_new (h : heapV) values r : heap_ok h -> r_buf r < n_arrs h ->
  let h' := fst (h_step veqb dflt false h (HMake values r)) in
  rd h' (n_objs h) = make veqb values (rd_arr h r) /\ o_ev (h_objs h' (n_objs h)) = r.
Proof.
  intros OK Hr. cbn [h_step]. apply Nat.ltb_lt in Hr. rewrite Hr. cbn [fst]. apply Nat.ltb_lt in Hr.
  unfold rd, rd_obj, rd_arr, make, whole. cbn [h_objs h_lists h_arrs]. rewrite !upd_eq.
  cbn [o_uv o_idx o_ev r_buf r_off r_len]. rewrite ?upd_eq. rewrite ?(upd_neq (h_arrs h)) by lia.
  rewrite firstn_skipn0. split; reflexivity.
Qed.

(* ---------- histories over several containers ---------- *)
Theorem h_run_framed : forall (ops : list hop) (h : heapV), heap_ok h ->
  let h' := h_run veqb dflt false h ops in
  heap_ok h' /\ n_objs h <= n_objs h' /\
  (forall r, r_buf r < n_arrs h -> rd_arr h' r = rd_arr h r) /\
  (forall j, j < n_objs h -> rd h' j = fold_left (pure_op veqb dflt) (filter (targets j) ops) (rd h j)).
Proof.
  induction ops as [|o ops IH]; intros h OK; cbn [h_run filter fold_left].
  - split; [exact OK|]. split; [lia|]. split; [reflexivity|]. reflexivity.
  - destruct (h_step_framed h o OK) as (A & B & C & D & F).
    destruct (IH _ A) as (A2 & B2 & D2 & F2).
    split; [exact A2|]. split; [lia|]. split.
    + intros r Hr. rewrite D2 by lia. apply D; auto.
    + intros j Hj. rewrite F2 by lia. rewrite (F j Hj). unfold eff. destruct (targets j o); reflexivity.
Qed.

(* the value-level effect keeps the invariant and the number of dumps *)
Definition align_arg_ok (N : nat) (o : @hop V) : Prop :=
  match o with HAlign _ segs => incr segs /\ In N segs | _ => True end.

Lemma pure_op_WF (c : cdV) o : WF c -> align_arg_ok (ndumps c) o ->
  WF (pure_op veqb dflt c o) /\ ndumps (pure_op veqb dflt c o) = ndumps c.
Proof.
  intros W AO. destruct o as [vals r|i e v|i v|i segs d|i segs|i|i segs|parts ar]; cbn [pure_op]; auto.
  - destruct (add_chk veqb c e v) as [c1|] eqn:E; auto.
    destruct (add_chk_some c c1 e v W E) as (W1 & N1 & _). auto.
  - apply (apply_op_WF veqb dflt veqb_spec c _ (ndumps c) (ORemove v) W eq_refl Logic.I). reflexivity.
  - rewrite add_unmatched_chk_eq by auto.
    apply (apply_op_WF veqb dflt veqb_spec c _ (ndumps c) (OAddUnmatched segs d) W eq_refl Logic.I). reflexivity.
  - destruct (align dflt c segs) as [c1|] eqn:E; auto.
    apply (apply_op_WF veqb dflt veqb_spec c _ (ndumps c) (OAlign segs) W eq_refl AO). exact E.
  - destruct (remove_repeats c) as [c1|] eqn:E; auto.
    apply (apply_op_WF veqb dflt veqb_spec c _ (ndumps c) ORemoveRepeats W eq_refl Logic.I). exact E.
Qed.

Lemma fold_pure_WF : forall (ops : list hop) (c : cdV), WF c -> Forall (align_arg_ok (ndumps c)) ops ->
  WF (fold_left (pure_op veqb dflt) ops c) /\ ndumps (fold_left (pure_op veqb dflt) ops c) = ndumps c.
Proof.
  induction ops as [|o ops IH]; intros c W F; cbn [fold_left]; auto.
  inversion F; subst. destruct (pure_op_WF c o W H1) as [W1 N1].
  destruct (IH _ W1) as [W2 N2]; [rewrite N1; auto|]. split; [auto|congruence].
Qed.

Theorem h_run_WF (ops : list hop) (h : heapV) j : heap_ok h -> j < n_objs h -> WF (rd h j) ->
  Forall (align_arg_ok (ndumps (rd h j))) (filter (targets j) ops) ->
  WF (rd (h_run veqb dflt false h ops) j) /\ ndumps (rd (h_run veqb dflt false h ops) j) = ndumps (rd h j).
Proof.
  intros OK Hj W F. destruct (h_run_framed ops h OK) as (_ & _ & _ & R). rewrite (R j Hj). apply fold_pure_WF; auto.
Qed.

End HeapP.

(* ---------- the code BEFORE fix fbcb22b (one list object shared by the parts and the parent): the frame property
   is false - a concrete history in which remove() on part 1 changes part 2 and the parent ---------- *)
Definition hx_ops : list (@hop nat) :=
  [HMake [7; 8; 7] (mkref 0 0 4); HPartition 0 [0; 3; 9]; HRemove 1 7].
Definition hx_heap0 : @heap nat := alloc_arr (@empty_heap nat) [0; 3; 6; 9].

Lemma shared_refuted :
  let h2 := h_run Nat.eqb 0 true hx_heap0 (firstn 2 hx_ops) in
  let h3 := h_run Nat.eqb 0 true hx_heap0 hx_ops in
  targets 2 (HRemove 1 7) = false /\ targets 0 (HRemove 1 7) = false /\
  expand 0 (rd h2 2) = [8; 8; 8; 7; 7; 7] /\ expand 0 (rd h3 2) = [0; 0; 0; 8; 8; 8] /\
  uv (rd h2 0) = [7; 8] /\ uv (rd h3 0) = [8].
Proof. vm_compute. repeat split. Qed.

Lemma unshared_example :
  let h2 := h_run Nat.eqb 0 false hx_heap0 (firstn 2 hx_ops) in
  let h3 := h_run Nat.eqb 0 false hx_heap0 hx_ops in
  heap_ok hx_heap0 /\
  expand 0 (rd h3 2) = [8; 8; 8; 7; 7; 7] /\ rd h3 2 = rd h2 2 /\ rd h3 0 = rd h2 0 /\
  expand 0 (rd h2 1) = [7; 7; 7] /\ uv (rd h3 1) = [8] /\ idx (rd h3 1) = [] /\ ev (rd h3 1) = [3] /\
  rd_arr h3 (mkref 0 0 4) = [0; 3; 6; 9] /\ n_objs h3 = 3 /\
  h_step Nat.eqb 0 false h3 (HConcat [2] false) = (h3, Some [2]) /\
  snd (h_step Nat.eqb 0 false h3 (HAdd 2 6 (Some 5))) = None /\
  expand 0 (rd (fst (h_step Nat.eqb 0 false h3 (HAdd 2 5 (Some 5)))) 2) = [8; 8; 8; 7; 7; 5].
Proof.
  split. { split; simpl; intros; lia. }
  vm_compute. repeat split.
Qed.

(* ---------- unique_in_order: equal tokens MUST mean equal values (the converse of uio_tok_spec) ---------- *)
Section TokNec.
Context {V K : Type} (veqb : V -> V -> bool) (keqb : K -> K -> bool) (tok : V -> K).

Lemma uio_tok_collision (a b : V) : keqb (tok a) (tok b) = true -> uio_tok keqb tok [a; b] = ([a], [0; 0]).
Proof. intros H. unfold uio_tok. cbn [uio_tok_loop assoc]. rewrite H. reflexivity. Qed.

Lemma uio_tok_needs_injective :
  (forall l, fst (uio_tok keqb tok l) = unique_in_order veqb l) ->
  forall a b, keqb (tok a) (tok b) = true -> veqb a b = true.
Proof.
  intros H a b E. specialize (H [a; b]). rewrite (uio_tok_collision a b E) in H.
  unfold unique_in_order in H. cbn [uio_from memv existsb fst] in H.
  destruct (veqb a b); [reflexivity|]. simpl in H. discriminate.
Qed.
End TokNec.
