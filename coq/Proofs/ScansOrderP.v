(* C03: "in time order", iterating again, nested partition - laws a user relies on that follow from the model. *)
From Coq Require Import ZArith List Bool String Arith Lia Sorting.Sorted.
From KV Require Import Base.Sx Base.Str Base.SelSlice Gen.Generated Model.Select Model.Scans
  Proofs.SelectBaseP Proofs.SelectP Proofs.SelectLawsP Proofs.ScansP Proofs.ScansSegP Proofs.ScansPipeP Proofs.ScansNamesP.
From KV Require Model.Categorical.
Import ListNotations.
Open Scope Z_scope.

Module C := Categorical.

(* a list numbered consecutively from zero never decreases *)
Lemma steps_up_ge : forall l x, steps_up x l = true -> forall q, (q < List.length l)%nat -> x <= nth q l zd.
Proof.
  induction l as [|a l IH]; intros x H q Hq; simpl in *; [lia|].
  apply andb_true_iff in H. destruct H as [H1 H2]. apply orb_true_iff in H1.
  assert (x <= a) by (destruct H1 as [H1|H1]; apply Z.eqb_eq in H1; lia).
  destruct q; [exact H|]. specialize (IH a H2 q). lia.
Qed.
Lemma steps_up_mono : forall l x, steps_up x l = true -> forall p q, (p <= q < List.length l)%nat -> nth p l zd <= nth q l zd.
Proof.
  induction l as [|a l IH]; intros x H p q Hpq; simpl in *; [lia|].
  apply andb_true_iff in H. destruct H as [_ H2].
  destruct p, q; try lia.
  - apply (steps_up_ge l a H2). lia.
  - apply (IH a H2). lia.
Qed.
Lemma numbered_mono : forall l, numbered l = true -> forall p q, (p <= q < List.length l)%nat -> nth p l zd <= nth q l zd.
Proof.
  intros [|x t] H p q Hpq; simpl in *; [lia|]. apply andb_true_iff in H. destruct H as [H1 H2]. apply Z.eqb_eq in H1. subst x.
  destruct p, q; try lia.
  - apply (steps_up_ge t 0 H2). lia.
  - apply (steps_up_mono t 0 H2). lia.
Qed.

Lemma nth_error_map_nth : forall (f : dump -> Z) l p d, nth_error l p = Some d -> nth p (map f l) zd = f d /\ (p < List.length (map f l))%nat.
Proof.
  intros f l p d H. split.
  - rewrite (nth_indep _ zd (f d)) by (rewrite map_length; apply nth_error_Some; congruence).
    rewrite map_nth. f_equal. apply nth_error_nth. exact H.
  - rewrite map_length. apply nth_error_Some. congruence.
Qed.

(* TIME ORDER.  On every observation built from a seg_good segmentation, increasing index order IS time order: every
   dump shown by an item comes before every dump shown by an item with a larger index. *)
Theorem items_in_time_order : forall B N g o w (body : st -> res (B * st)) s ys sf, (0 < N)%nat -> seg_good N g ->
  body_ok (so (sobs_of_seg g o)) body -> Inv3 (so (sobs_of_seg g o)) s ->
  iterate (sobs_of_seg g o) w body s = Ok (ys, sf) ->
  forall y y' p q, In y ys -> In y' ys -> shown y p = true -> shown y' q = true -> y_index y < y_index y' -> (p < q)%nat.
Proof.
  intros B N g o w body s ys sf HN SG HB H3 H y y' p q Hy Hy' Sp Sq Hlt.
  destruct (partition_facts B _ w body s ys sf HB H3 H) as (_ & _ & Hs & _).
  rewrite (Hs y p Hy) in Sp. rewrite (Hs y' q Hy') in Sq.
  apply andb_true_iff in Sp. apply andb_true_iff in Sq. destruct Sp as [_ Sp]. destruct Sq as [_ Sq].
  destruct (nth_error (o_dumps (so (sobs_of_seg g o))) p) as [d|] eqn:Ep; [|discriminate].
  destruct (nth_error (o_dumps (so (sobs_of_seg g o))) q) as [d'|] eqn:Eq; [|discriminate].
  apply Z.eqb_eq in Sp. apply Z.eqb_eq in Sq.
  destruct (nth_error_map_nth (it_field w) _ p d Ep) as [Np Lp]. destruct (nth_error_map_nth (it_field w) _ q d' Eq) as [Nq Lq].
  assert (Nm : numbered (map (it_field w) (o_dumps (so (sobs_of_seg g o)))) = true).
  { unfold sobs_of_seg. cbn [so o_dumps].
    destruct (seg_dumps N g (map d_ts (o_dumps o)) SG) as (_ & Ms & Mc & _).
    destruct SG as [_ _ _ _ _ _ _ _ _ _ _ _ N1 N2].
    destruct w; [rewrite it_field_scans, Ms; exact N1 | rewrite it_field_compscans, Mc; exact N2]. }
  destruct (Nat.lt_ge_cases p q) as [|Hge]; [assumption|]. exfalso.
  pose proof (numbered_mono _ Nm q p (conj Hge Lp)) as M. rewrite Np, Nq in M. lia.
Qed.

(* ITERATING AGAIN.  A second run of the same generator after exhaustion visits the same items and shows the same
   dumps: the first run left no trace. *)
Theorem iterate_again : forall B B2 (O : sobs) w (body : st -> res (B * st)) (body2 : st -> res (B2 * st)) s ys sf ys2 sf2,
  body_ok (so O) body -> body_ok (so O) body2 -> Inv3 (so O) s ->
  iterate O w body s = Ok (ys, sf) -> iterate O w body2 sf = Ok (ys2, sf2) ->
  map y_index ys2 = map y_index ys
  /\ (forall y y2 p, In y ys -> In y2 ys2 -> y_index y = y_index y2 -> shown y2 p = shown y p)
  /\ same_sel sf2 s.
Proof.
  intros B B2 O w body body2 s ys sf ys2 sf2 HB HB2 H3 H1 H2.
  destruct (iterate_spec O w body HB s ys sf H3 H1) as ((I1 & S1) & M1 & _).
  destruct (iterate_spec O w body2 HB2 sf ys2 sf2 I1 H2) as ((I2 & S2) & M2 & _).
  destruct (partition_facts B O w body s ys sf HB H3 H1) as (_ & _ & Hs1 & _).
  destruct (partition_facts B2 O w body2 sf ys2 sf2 HB2 I1 H2) as (_ & _ & Hs2 & _).
  assert (T : tk sf = tk s) by (destruct S1 as (M & _); exact (M DT)).
  split; [rewrite M1, M2, T; reflexivity|]. split.
  - intros y y2 p Hy Hy2 E. rewrite (Hs1 y p Hy), (Hs2 y2 p Hy2), T, E. reflexivity.
  - destruct S1 as (A1 & A2 & A3 & A4). destruct S2 as (B1 & B2' & B3 & B4).
    split; [intro d; rewrite B1; apply A1|]. split; [congruence|]. split; [congruence|]. intro k. rewrite B4. apply A4.
Qed.

(* NESTED PARTITION.  scans() inside compscans() (or the other way round): inside every outer item the inner items are
   the inner indices present in the dumps of the outer item, and each shows exactly the dumps of the prior selection
   that belong to BOTH the outer and the inner item. *)
Theorem nested_partition : forall (O : sobs) outer inner s ys sf, Inv3 (so O) s ->
  iterate_nested O outer inner s = Ok (ys, sf) ->
  forall y, In y ys ->
    map y_index (y_body y) = indices_of (it_field inner) (so O) (tk (y_st y))
    /\ StronglySorted Z.lt (map y_index (y_body y))
    /\ (forall z p, In z (y_body y) -> shown z p = nth p (tk s) false &&
          match nth_error (o_dumps (so O)) p with
          | Some d => (it_field outer d =? y_index y) && (it_field inner d =? y_index z)
          | None => false end)
    /\ (forall p, shown y p = true -> exists z, In z (y_body y) /\ shown z p = true).
Proof.
  intros O outer inner s ys sf H3 H y Hy.
  destruct (nested_facts O outer inner s ys sf H3 H) as (_ & Hn). destruct (Hn y Hy) as (s2 & E2 & I1 & _).
  unfold iterate_nested in H.
  destruct (partition_facts _ O outer _ s ys sf (iterate_plain_body_ok O inner) H3 H) as (_ & _ & Hso & _).
  unfold iterate_plain in E2.
  destruct (partition_facts unit O inner no_body (y_st y) (y_body y) s2 (no_body_ok _) I1 E2) as (A & Bs & Hsi & _ & Hu & _).
  split; [exact A|]. split; [exact Bs|]. split.
  - intros z p Hz. rewrite (Hsi z p Hz). change (nth p (tk (y_st y)) false) with (shown y p). rewrite (Hso y p Hy).
    destruct (nth_error (o_dumps (so O)) p); [rewrite andb_assoc; reflexivity | rewrite !andb_false_r; reflexivity].
  - intros p Sp. pose proof Sp as Sp'. rewrite (Hso y p Hy) in Sp'. apply andb_true_iff in Sp'. destruct Sp' as [_ Sp'].
    destruct (nth_error (o_dumps (so O)) p) as [d|] eqn:Ed; [|discriminate].
    destruct (Hu p d Ed Sp) as (z & Hz & _ & Sz). exists z. split; assumption.
Qed.
