(* C19: non-vacuity of the identity / multi-subarray selection theorems: three parts in time order B, C, A where C
   comes from a correlator that lists the SAME three products of the SAME two antennas in another order. *)
From Coq Require Import ZArith List Bool String Lia.
From KV Require Import Base.Sx Base.Str Base.SelSlice Model.Select Proofs.SelectLawsP Model.ConcatSel Proofs.ConcatSelP
  Model.ConcatIdent Proofs.ConcatIdentP Model.ConcatMulti Proofs.ConcatMultiP.
From KV Require Model.Categorical Model.Concat Proofs.ConcatP Proofs.ConcatExP Proofs.ConcatSelExP.
Import ListNotations.
Open Scope Z_scope.

(* the table as the harness enters it: one entry per part, not compared beforehand *)
Definition exS0 : subarray := mkSub [40; 41] [((0, 0), (0, 0)); ((0, 0), (1, 0)); ((1, 1), (1, 1))].
Definition exS1 : subarray := mkSub [40; 41] [((1, 1), (1, 1)); ((0, 0), (0, 0)); ((0, 0), (1, 0))].      (* permuted *)
Definition ex_subs : list subarray := [exS0; exS1; exS0].
Definition exW0 : spwin := mkSpw 7 3 3 1 20 21 9.
Definition ex_spws : list spwin := [exW0; exW0; mkSpw 7 3 3 1 20 21 9].

Definition one (a : Z) (n : nat) : Concat.cdz := Categorical.mk [a] [0%nat] [0%nat; n].
Definition with_sw (p : Concat.part) (a b : Z) : Concat.part :=
  Concat.mkPart (Concat.p_start p) (Concat.p_dp p) (Concat.p_ts p) (one a (Concat.nT p)) (one b (Concat.nT p)) (Concat.p_tgt p)
                (Concat.p_state p) (Concat.p_label p) (Concat.p_scan p) (Concat.p_cscan p) (Concat.p_sens p).
Definition sid (r : nat) : Z := Z.of_nat (nth r (intern_ids sub_eqb ex_subs) 0%nat).
Definition wid (r : nat) : Z := Z.of_nat (nth r (intern_ids spw_eqb ex_spws) 0%nat).
Definition exM_B := with_sw ConcatExP.ex_B (sid 0) (wid 0).
Definition exM_C := with_sw ConcatExP.ex_C (sid 1) (wid 1).
Definition exM_A := with_sw ConcatExP.ex_A (sid 2) (wid 2).
Definition exM_input : list Concat.part := [exM_A; exM_B; exM_C].
Definition exM_sorted : list Concat.part := [exM_B; exM_C; exM_A].
Definition exM_m : Concat.merged :=
  match Concat.concat_open exM_input with Concat.COk m => m | Concat.CErr _ => Concat.mkMerged [] [] 0 [] [] [] end.

Definition exM_E : menv :=
  mkMenv [ {| t_names := []; t_tags := [] |}; {| t_names := [101]; t_tags := [1] |};
           {| t_names := [102; 109]; t_tags := [2] |}; {| t_names := [103; 109]; t_tags := [1; 2] |} ]
         2 2 [[10; 14; 18]; [10; 14; 18]; [10; 14; 18]] ex_subs.

(* polarisation hh, then (stacked) scans in state 0 *)
Definition exM_calls : list kwargs :=
  [ [("pol"%string, VPols [PTwo 0 0])]; [("scans"%string, VScans [SName 0]); ("reset"%string, VStr ""%string)] ].

Definition exM_mo (s w : nat) : obs :=
  match merged_obs (whole_env exM_E exM_m s w) exM_m with Some o => o
  | None => {| o_dumps := []; o_half := 0; o_targets := []; o_freqs := []; o_halfw := 0; o_cps := [] |} end.
Definition bk_of (r : res st) : list bool := match r with Ok s => bk s | Err _ => [] end.
Definition exM_trs : list tr := trs_of (Concat.m_cat exM_m) exM_sorted.

Ltac nodup := repeat (constructor; [cbn; intuition (try lia; try discriminate)|]); try constructor.
Ltac cdok := unfold ConcatP.cd_ok, Categorical.WF, Categorical.start0, Categorical.ndumps, Categorical.incr; cbn;
  repeat split; try lia; try discriminate; try reflexivity; try (repeat constructor; lia); try nodup.

Lemma exM_parts_ok : Forall ConcatP.part_ok exM_sorted.
Proof. repeat constructor; cdok. Qed.

Lemma exM_single : Forall single_sw exM_sorted.
Proof. repeat constructor; eexists; eexists; split; reflexivity. Qed.

Lemma exM_all :
  (* identity: entries 0 and 2 are the same subarray, entry 1 (same antennas, same products, other order) is not *)
  intern_ids sub_eqb ex_subs = [0; 1; 0]%nat /\ intern_ids spw_eqb ex_spws = [0; 0; 0]%nat /\
  sub_eqb exS0 exS1 = false /\
  Concat.sort_parts exM_input = Some exM_sorted /\ Concat.concat_open exM_input = Concat.COk exM_m /\
  Concat.m_subs exM_m = [0; 1] /\ Concat.m_spws exM_m = [0] /\
  option_map Concat.zexpand (Concat.m_sub_index exM_m) = Some [0; 0; 0; 0; 1; 1; 0; 0; 0] /\
  (* select(subarray=0, spw=0) / select(subarray=1, spw=0) *)
  m_keep exM_m 0 0 = Some [true; true; true; true; false; false; true; true; true] /\
  m_keep exM_m 1 0 = Some [false; false; false; false; true; true; false; false; false] /\
  map (member exM_m 0 0) exM_sorted = [true; false; true] /\ map (member exM_m 1 0) exM_sorted = [false; true; false] /\
  Forall (fun c => NoDup (keys c)) exM_calls /\
  (* pol='hh' picks columns 0, 1 in subarray 0 but columns 1, 2 in subarray 1 *)
  bk_of (run (exM_mo 0 0) (init (exM_mo 0 0)) exM_calls) = [true; true; false] /\
  bk_of (run (exM_mo 1 0) (init (exM_mo 1 0)) exM_calls) = [false; true; true] /\
  (* the time mask of the whole after the history in (1, 0), and the middle part alone on its own products *)
  Concat.band [false; false; false; false; true; true; false; false; false]
              (ConcatSelExP.tk_of (run (exM_mo 1 0) (init (exM_mo 1 0)) exM_calls))
    = [false; false; false; false; false; false; false; false; false] /\
  Concat.band [true; true; true; true; false; false; true; true; true]
              (ConcatSelExP.tk_of (run (exM_mo 0 0) (init (exM_mo 0 0)) exM_calls))
    = [false; true; true; false; false; false; true; false; false] /\
  map (fun pt => bk_of (run (part_obs (part_env exM_E (fst pt)) (fst pt)) (init (part_obs (part_env exM_E (fst pt)) (fst pt)))
                            (map (tr_kwargs (snd pt)) exM_calls))) (combine exM_sorted exM_trs)
    = [[true; true; false]; [false; true; true]; [true; true; false]] /\
  map (fun pt => ConcatSelExP.tk_of (run (part_obs (part_env exM_E (fst pt)) (fst pt)) (init (part_obs (part_env exM_E (fst pt)) (fst pt)))
                            (map (tr_kwargs (snd pt)) exM_calls))) (combine exM_sorted exM_trs)
    = [[false; true; true; false]; [false; false]; [true; false; false]].
Proof.
  repeat split; try (vm_compute; reflexivity).
  repeat constructor; cbn; intuition discriminate.
Qed.

Lemma exM_short :
  intern_ids sub_eqb ex_subs = [0; 1; 0]%nat /\ intern_ids spw_eqb ex_spws = [0; 0; 0]%nat /\
  sub_eqb exS0 exS1 = false /\
  Concat.sort_parts exM_input = Some exM_sorted /\ Concat.concat_open exM_input = Concat.COk exM_m /\
  Forall ConcatP.part_ok exM_sorted /\ Forall single_sw exM_sorted /\
  Concat.m_subs exM_m = [0; 1] /\
  m_keep exM_m 1 0 = Some [false; false; false; false; true; true; false; false; false] /\
  map (member exM_m 1 0) exM_sorted = [false; true; false] /\
  bk_of (run (exM_mo 0 0) (init (exM_mo 0 0)) exM_calls) = [true; true; false] /\
  bk_of (run (exM_mo 1 0) (init (exM_mo 1 0)) exM_calls) = [false; true; true].
Proof.
  pose proof exM_all as H. pose proof exM_parts_ok. pose proof exM_single. repeat split; try tauto; apply H.
Qed.
