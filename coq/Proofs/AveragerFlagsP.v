(* C15, round 3: the averager reads flags as bytes; only their truth value can matter. *)
From Coq Require Import ZArith QArith Qcanon List Bool Arith Lia.
From KV Require Import Base.Sx Gen.Generated Model.Averager Model.AveragerApi Model.AveragerFlags
  Proofs.AveragerP Proofs.AveragerApiP.
Import ListNotations.
Close Scope Q_scope.
Open Scope nat_scope.

(* regenerated decision and constant *)
Lemma flag_test_is_nonzero : forall b : Z, averager_flag_is_set b = negb (Z.eqb b 0).
Proof. intro b. reflexivity. Qed.
Lemma wzero_is_zero : averager_wzero = 0%Qc.
Proof. apply Qc_is_canon. reflexivity. Qed.

Lemma step_b_is_step : forall a s, step_b a s = step a (to_flagged s).
Proof. intros a [[v w] b]. unfold step_b, step, to_flagged, s_flag, s_w, s_vis. cbn [fst snd]. now rewrite wzero_is_zero. Qed.

(* a flagged sample adds nothing to the two weighted sums, whatever byte backs its True *)
Lemma flagged_byte_weighs_nothing : forall a v w (b : Z), b <> 0%Z ->
  weight_sum (step_b a (v, w, b)) = weight_sum a /\ vis_weight_sum (step_b a (v, w, b)) = vis_weight_sum a /\
  flag_any (step_b a (v, w, b)) = true /\ flag_all (step_b a (v, w, b)) = flag_all a.
Proof.
  intros a v w b Hb. unfold step_b. cbn [fst snd weight_sum vis_weight_sum flag_any flag_all].
  rewrite flag_test_is_nonzero. destruct (Z.eqb_spec b 0) as [E | _]; [contradiction|]. cbn [negb]. rewrite wzero_is_zero.
  repeat split.
  - ring.
  - unfold cadd, cscale. cbn [fst snd]. destruct (vis_weight_sum a) as [p q]. cbn [fst snd]. f_equal; ring.
  - apply orb_true_r.
  - apply andb_true_r.
Qed.

Lemma unflagged_byte_counts : forall a v w,
  weight_sum (step_b a (v, w, 0%Z)) = (weight_sum a + w)%Qc /\ flag_all (step_b a (v, w, 0%Z)) = false /\
  flag_any (step_b a (v, w, 0%Z)) = flag_any a.
Proof.
  intros a v w. unfold step_b. cbn [fst snd weight_sum flag_any flag_all]. rewrite flag_test_is_nonzero. cbn.
  repeat split; [apply andb_false_r | apply orb_false_r].
Qed.

Lemma map3_map3 : forall {A B C} (f : A -> B) (g : B -> C) a, map3 g (map3 f a) = map3 (fun x => g (f x)) a.
Proof.
  intros. unfold map3. rewrite map_map. apply map_ext. intro r. rewrite map_map. apply map_ext. intro c. apply map_map.
Qed.
Lemma map3_ext : forall {A B} (f g : A -> B) a, (forall x, f x = g x) -> map3 f a = map3 g a.
Proof. intros. unfold map3. apply map_ext. intro r. apply map_ext. intro c. apply map_ext. assumption. Qed.

(* ANY re-encoding of the bytes that keeps "zero or not" leaves the whole result unchanged *)
Lemma average_bytes_truth_only : forall (g : Z -> Z) a T F B timeav chanav flagav,
  (forall b, g b = 0%Z <-> b = 0%Z) ->
  average_bytes (recode g a) T F B timeav chanav flagav = average_bytes a T F B timeav chanav flagav.
Proof.
  intros g a T F B ta ca fa Hg. unfold average_bytes, recode. rewrite map3_map3. f_equal. apply map3_ext.
  intros [[v w] b]. unfold to_flagged. cbn [fst snd]. f_equal. rewrite !flag_test_is_nonzero. f_equal.
  destruct (Z.eqb_spec (g b) 0) as [E | E], (Z.eqb_spec b 0) as [E' | E']; try reflexivity; exfalso.
  - apply E'. apply Hg. exact E.
  - apply E. apply Hg. exact E'.
Qed.

(* v4: bits outside the selection cannot matter *)
Lemma average_v4_selected_bits_only : forall select (g : Z -> Z) a T F B timeav chanav flagav,
  (forall r, Z.land select (g r) = Z.land select r) ->
  average_bytes (v4_deliver select (recode g a)) T F B timeav chanav flagav =
  average_bytes (v4_deliver select a) T F B timeav chanav flagav.
Proof.
  intros select g a T F B ta ca fa Hg. unfold v4_deliver, recode. rewrite map3_map3. f_equal. apply map3_ext.
  intros [[v w] b]. cbn [fst snd]. now rewrite Hg.
Qed.

Lemma get3_map3 : forall {A B} (g : A -> B) (a : arr3 A) d t f b,
  Averager.get3 (map3 g a) (g d) t f b = g (Averager.get3 a d t f b).
Proof.
  intros. unfold Averager.get3, map3.
  rewrite <- (map_nth g (nth f (nth t a []) []) d b). f_equal.
  rewrite <- (map_nth (map g) (nth t a []) [] f). cbn [map]. f_equal.
  rewrite <- (map_nth (map (map g)) a [] t). reflexivity.
Qed.

Lemma to_flagged_default : to_flagged bsample0 = sample0.
Proof. reflexivity. Qed.

(* every cell of the result is the declarative bin of the samples with "flagged iff byte <> 0" *)
Lemma average_bytes_spec : forall a T F B timeav chanav flagav r,
  average_bytes a T F B timeav chanav flagav = Some r ->
  let ta := time_factor timeav T in
  let ca := chan_factor chanav F in
  forall i j b, i < T / ta -> j < F / ca -> b < B ->
    Averager.get3 r sample0 i j b =
    spec_bin flagav (map (fun tc => let s := Averager.get3 a bsample0 (fst tc) (snd tc) b in
                                    (fst (fst s), snd (fst s), negb (Z.eqb (snd s) 0)))
                         (bin_positions ta ca i j)).
Proof.
  intros a T F B timeav chanav flagav r H ta ca i j b Hi Hj Hb. unfold average_bytes in H.
  rewrite average_api_eq in H. destruct (average_spec _ _ _ _ _ _ _ _ H) as (_ & _ & _ & Hc).
  rewrite (Hc i j b Hi Hj Hb). f_equal. apply map_ext. intros tc.
  rewrite <- to_flagged_default. rewrite get3_map3. reflexivity.
Qed.

Lemma get3_recode : forall (g : Z -> Z) a t f b, g 0%Z = 0%Z ->
  Averager.get3 (recode g a) bsample0 t f b =
  (fst (Averager.get3 a bsample0 t f b), g (snd (Averager.get3 a bsample0 t f b))).
Proof.
  intros g a t f b H. unfold recode.
  set (h := fun s : bsample => (fst s, g (snd s))).
  transitivity (Averager.get3 (map3 h a) (h bsample0) t f b).
  - f_equal. unfold h, bsample0. cbn [fst snd]. now rewrite H.
  - apply (get3_map3 h).
Qed.

(* the v4 path: flagged iff a SELECTED bit of the raw flag byte is set *)
Lemma average_v4_spec : forall select a T F B timeav chanav flagav r,
  average_bytes (v4_deliver select a) T F B timeav chanav flagav = Some r ->
  let ta := time_factor timeav T in
  let ca := chan_factor chanav F in
  forall i j b, i < T / ta -> j < F / ca -> b < B ->
    Averager.get3 r sample0 i j b =
    spec_bin flagav (map (fun tc => let s := Averager.get3 a bsample0 (fst tc) (snd tc) b in
                                    (fst (fst s), snd (fst s), negb (Z.eqb (Z.land select (snd s)) 0)))
                         (bin_positions ta ca i j)).
Proof.
  intros select a T F B timeav chanav flagav r H ta ca i j b Hi Hj Hb.
  rewrite (average_bytes_spec _ _ _ _ _ _ _ _ H i j b Hi Hj Hb). f_equal. apply map_ext. intros tc.
  cbv zeta. unfold v4_deliver. rewrite get3_recode by apply Z.land_0_r. reflexivity.
Qed.

(* non-vacuity: the arithmetic zeroing is NOT the branch on bytes other than 0 / 1 *)
Example arith_zeroing_differs :
  weight_sum (step_arith acc0 (cq0, 1%Qc, 16%Z)) = Q2Qc (-15 # 1) /\ weight_sum (step_b acc0 (cq0, 1%Qc, 16%Z)) = 0%Qc.
Proof. split; apply Qc_is_canon; reflexivity. Qed.
Example arith_zeroing_agrees_on_canonical_bools : forall w,
  weight_sum (step_arith acc0 (cq0, w, 1%Z)) = weight_sum (step_b acc0 (cq0, w, 1%Z)).
Proof. intro w. unfold step_arith, step_b. cbn [fst snd weight_sum acc0]. rewrite wzero_is_zero.
  replace (1 - Q2Qc (inject_Z 1))%Qc with 0%Qc by (apply Qc_is_canon; reflexivity). cbn. ring. Qed.
