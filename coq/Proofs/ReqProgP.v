(* C20 (extension): threads running request programs against the pool -- no send without a borrowed session, all
   sessions accounted for when everybody has finished; for every interleaving. *)
From Coq Require Import List Arith Bool Lia ZArith Permutation.
From KV Require Import Base.Sx Gen.Generated Model.LazyInit Proofs.LazyInitP Model.SharedSites Proofs.SharedSitesP.
Import ListNotations.
Close Scope Z_scope.
Open Scope nat_scope.

Lemma okprog_app t : forall l1 l2 h, okprog t h l1 = true -> okprog t 0 l2 = true -> okprog t h (l1 ++ l2) = true.
Proof.
  induction l1 as [|o r IH]; intros l2 h H1 H2; simpl in *.
  - apply Nat.eqb_eq in H1. subst h. exact H2.
  - destruct o as [u|u|u|u|u]; repeat (apply andb_true_iff in H1; destruct H1 as [H1 ?]);
      repeat (apply andb_true_iff; split); auto.
Qed.

Lemma okprog_attempts fin s t outs : okprog t 1 (attempts fin s t outs) = true.
Proof.
  induction outs as [|o r IH]; simpl.
  - destruct fin; simpl; rewrite Nat.eqb_refl; reflexivity.
  - destruct o as [|p|p].
    + simpl. rewrite Nat.eqb_refl. simpl. destruct s; simpl; rewrite !Nat.eqb_refl; simpl; exact IH.
    + destruct p; simpl; try (destruct fin; simpl; rewrite !Nat.eqb_refl; reflexivity); rewrite !Nat.eqb_refl; reflexivity.
    + destruct fin; simpl; rewrite !Nat.eqb_refl; reflexivity.
Qed.

Lemma okprog_thread_prog fin s t reqs : okprog t 0 (thread_prog fin s t reqs) = true.
Proof.
  induction reqs as [|outs r IH]; simpl; [reflexivity|].
  unfold request_events. simpl. rewrite Nat.eqb_refl. simpl.
  apply okprog_app; [apply okprog_attempts|exact IH].
Qed.

(* how the translated pool operations change the number of sessions a thread holds *)
Lemma count_cons t u x held : List.length (filter (fun h : nat * nat => Nat.eqb (fst h) t) ((u, x) :: held)) =
  (if Nat.eqb u t then 1 else 0) + List.length (filter (fun h : nat * nat => Nat.eqb (fst h) t) held).
Proof. simpl. destruct (Nat.eqb u t); reflexivity. Qed.

Lemma count_rm t u x held : In (u, x) held ->
  List.length (filter (fun h : nat * nat => Nat.eqb (fst h) t) held) =
  (if Nat.eqb u t then 1 else 0) + List.length (filter (fun h : nat * nat => Nat.eqb (fst h) t) (rm_held u x held)).
Proof.
  induction held as [|a r IH]; simpl; intros Hin; [contradiction|].
  destruct (Nat.eqb (fst a) u && Nat.eqb (snd a) x)%bool eqn:E.
  - apply andb_true_iff in E. destruct E as [E1 _]. apply Nat.eqb_eq in E1. rewrite E1.
    destruct (Nat.eqb u t); reflexivity.
  - destruct Hin as [->|Hin]; [simpl in E; rewrite !Nat.eqb_refl in E; discriminate|].
    simpl. destruct (Nat.eqb (fst a) t); simpl; rewrite (IH Hin); lia.
Qed.

Lemma get_count t u p : pool_inv p ->
  count_held t (pool_step p (PGet u)) = (if Nat.eqb u t then 1 else 0) + count_held t p.
Proof.
  intros Hi. pose proof (pool_step_inv _ _ _ p (PGet u) pool_codes_ok Hi) as (He' & _). fold pool_step in He'.
  destruct Hi as (He & _). unfold pool_step, pool_step_c, count_held in *.
  destruct (take_item _ (p_free p)) as [| |x r]; simpl in *.
  - congruence.
  - destruct (Nat.eqb u t); reflexivity.
  - destruct (Nat.eqb u t); reflexivity.
Qed.

Lemma put_count t u p : count_held u p = 1 ->
  count_held t (pool_step p (PPut u)) + (if Nat.eqb u t then 1 else 0) = count_held t p.
Proof.
  intros H1. unfold pool_step, pool_step_c, count_held in *.
  destruct (find (fun h => Nat.eqb (fst h) u) (p_held p)) as [[u' x]|] eqn:F.
  - pose proof (find_held_in _ _ _ _ F) as Hin. simpl. rewrite (count_rm t u x _ Hin). lia.
  - exfalso. assert (filter (fun h : nat * nat => Nat.eqb (fst h) u) (p_held p) = []) as E; [|rewrite E in H1; discriminate].
    destruct (filter _ (p_held p)) as [|z zs] eqn:Ez; [reflexivity|].
    assert (In z (filter (fun h : nat * nat => Nat.eqb (fst h) u) (p_held p))) as Hz by (rewrite Ez; left; reflexivity).
    apply filter_In in Hz. destruct Hz as [Hz1 Hz2]. pose proof (find_none _ _ F z Hz1) as X. simpl in X. congruence.
Qed.

Lemma held_by_some t p : count_held t p = 1 -> exists x, held_by t p = Some x.
Proof.
  unfold count_held, held_by. intros H.
  destruct (find (fun h => Nat.eqb (fst h) t) (p_held p)) as [[u x]|] eqn:F; [exists x; reflexivity|].
  exfalso. destruct (filter _ (p_held p)) as [|z zs] eqn:Ez; [discriminate|].
  assert (In z (filter (fun h : nat * nat => Nat.eqb (fst h) t) (p_held p))) as Hz by (rewrite Ez; left; reflexivity).
  apply filter_In in Hz. destruct Hz as [Hz1 Hz2]. pose proof (find_none _ _ F z Hz1) as X. simpl in X. congruence.
Qed.

Record RCInv (c : rcfg) : Prop := {
  rc_rinv : RInv (rc_pool c);
  rc_unheld : r_unheld (rc_pool c) = false;
  rc_ok : forall t, okprog t (count_held t (r_pool (rc_pool c))) (rc_rem c t) = true
}.

Lemma rcupd_same f t x : rcupd f t x t = x.
Proof. unfold rcupd. rewrite Nat.eqb_refl. reflexivity. Qed.
Lemma rcupd_other f t x u : u <> t -> rcupd f t x u = f u.
Proof. unfold rcupd. intros H. apply Nat.eqb_neq in H. rewrite H. reflexivity. Qed.

Lemma rcinv_step c t : RCInv c -> RCInv (rcstep c t).
Proof.
  intros [Hr Hu Hok]. unfold rcstep. destruct (rc_rem c t) as [|o r] eqn:Ep; [constructor; assumption|].
  pose proof (Hok t) as Ht. rewrite Ep in Ht.
  pose proof (rinv_step (rc_pool c) o Hr) as Hr'.
  destruct Hr as [Hp Hc Hn].
  destruct o as [u|u|u|u|u]; simpl in Ht;
    repeat (apply andb_true_iff in Ht; destruct Ht as [Ht ?]);
    repeat match goal with H : Nat.eqb _ _ = true |- _ => apply Nat.eqb_eq in H end; subst.
  - (* get *)
    constructor; [exact Hr'|exact Hu|]. intros v. cbn [rc_pool rc_rem rstep r_pool].
    rewrite (get_count v t _ Hp). destruct (Nat.eq_dec v t) as [->|Hv].
    + rewrite rcupd_same, Nat.eqb_refl. rewrite H0. simpl. assumption.
    + rewrite rcupd_other by exact Hv. assert (Nat.eqb t v = false) as -> by (apply Nat.eqb_neq; congruence). apply Hok.
  - (* use *)
    destruct (held_by_some t _ H0) as (x & Ex).
    constructor; [exact Hr'| |].
    + cbn [rc_pool rstep]. rewrite Ex. cbn [r_unheld]. exact Hu.
    + intros v. cbn [rc_pool rc_rem rstep]. rewrite Ex. cbn [r_pool]. destruct (Nat.eq_dec v t) as [->|Hv].
      * rewrite rcupd_same, H0. assumption.
      * rewrite rcupd_other by exact Hv. apply Hok.
  - (* sleep *)
    constructor; [exact Hr'|exact Hu|]. intros v. cbn [rc_pool rc_rem rstep]. destruct (Nat.eq_dec v t) as [->|Hv].
    + rewrite rcupd_same. assumption.
    + rewrite rcupd_other by exact Hv. apply Hok.
  - (* put *)
    constructor; [exact Hr'|exact Hu|]. intros v. cbn [rc_pool rc_rem rstep r_pool].
    pose proof (put_count v t _ H0) as Hcnt. destruct (Nat.eq_dec v t) as [->|Hv].
    + rewrite rcupd_same. rewrite Nat.eqb_refl in Hcnt. assert (count_held t (pool_step (r_pool (rc_pool c)) (PPut t)) = 0) as -> by lia.
      assumption.
    + rewrite rcupd_other by exact Hv. assert (Nat.eqb t v = false) as E by (apply Nat.eqb_neq; congruence). rewrite E in Hcnt.
      assert (count_held v (pool_step (r_pool (rc_pool c)) (PPut t)) = count_held v (r_pool (rc_pool c))) as -> by lia. apply Hok.
  - (* drop *)
    destruct (held_by_some t _ H0) as (x & Ex). pose proof (held_by_in _ _ _ Ex) as Hin.
    constructor; [exact Hr'| |].
    + cbn [rc_pool rstep]. rewrite Ex. cbn [r_unheld]. exact Hu.
    + intros v. cbn [rc_pool rc_rem rstep]. rewrite Ex. cbn [r_pool]. unfold count_held in *. cbn [p_held].
      pose proof (count_rm v t x _ Hin) as Hcnt. destruct (Nat.eq_dec v t) as [->|Hv].
      * rewrite rcupd_same. rewrite Nat.eqb_refl in Hcnt.
        assert (List.length (filter (fun h : nat * nat => Nat.eqb (fst h) t) (rm_held t x (p_held (r_pool (rc_pool c))))) = 0) as -> by lia.
        assumption.
      * rewrite rcupd_other by exact Hv. assert (Nat.eqb t v = false) as E by (apply Nat.eqb_neq; congruence). rewrite E in Hcnt.
        simpl in Hcnt. rewrite <- Hcnt. apply Hok.
Qed.

(* ANY threads, each running ANY sequence of requests with ANY attempt outcomes (flags as translated or not), under
   EVERY interleaving: the pool never raises, no request sends without a borrowed session or through a session that is
   free or in other hands; and once every thread has finished nothing is borrowed and made = free + lost *)
Theorem requests_safe fin s (reqs : nat -> list (list Z)) schedule :
  let c := rcexec (fun t => thread_prog fin s t (reqs t)) schedule in
  let r := rc_pool c in
  p_err (r_pool r) = false /\ r_clash r = false /\ r_unheld r = false /\
  ((forall t, rc_rem c t = []) -> p_held (r_pool r) = [] /\ p_next (r_pool r) = List.length (p_free (r_pool r)) + r_lost r).
Proof.
  intros c r.
  assert (RCInv c) as [[(He & _ & _) Hc Hn] Hu Hok].
  { unfold c, rcexec.
    assert (RCInv (mkRC rinit (fun t => thread_prog fin s t (reqs t)))) as Hi.
    { constructor; [exact rinv_init|reflexivity|]. intros t. simpl. apply okprog_thread_prog. }
    revert Hi. generalize (mkRC rinit (fun t => thread_prog fin s t (reqs t))).
    induction schedule as [|t sch IH]; intros c0 H; simpl; [exact H|]. apply IH. apply rcinv_step. exact H. }
  repeat split; auto.
  - destruct (p_held (r_pool r)) as [|[u x] hl] eqn:Eh; [reflexivity|]. exfalso.
    specialize (Hok u). rewrite (H u) in Hok. simpl in Hok. apply Nat.eqb_eq in Hok.
    unfold count_held in Hok. fold r in Hok. rewrite Eh in Hok. simpl in Hok. rewrite Nat.eqb_refl in Hok. discriminate.
  - fold r in Hn. unfold psize in Hn. destruct (p_held (r_pool r)) as [|[u x] hl] eqn:Eh; [simpl in Hn; lia|]. exfalso.
    specialize (Hok u). rewrite (H u) in Hok. simpl in Hok. apply Nat.eqb_eq in Hok.
    unfold count_held in Hok. fold r in Hok. rewrite Eh in Hok. simpl in Hok. rewrite Nat.eqb_refl in Hok. discriminate.
Qed.

(* with a finally clause in _Pool.__call__ nothing is ever lost: made = free when everybody has finished *)
Lemma no_drop_no_loss evs : forall r, filter is_drop evs = [] -> r_lost (fold_left rstep evs r) = r_lost r.
Proof.
  induction evs as [|o evs IH]; intros r H; simpl; [reflexivity|].
  destruct o as [u|u|u|u|u]; simpl in H; try discriminate; rewrite (IH _ H); simpl; try reflexivity.
  destruct (held_by u (r_pool r)); reflexivity.
Qed.

Lemma requests_example :
  let reqs := fun t : nat => match t with 0 => [[0%Z; 1%Z]; [1%Z]] | 1 => [[2%Z]; [0%Z; 0%Z; 1%Z]] | 2 => [[1%Z]] | _ => [] end in
  let c := rcexec (fun t => thread_prog c20_pool_call_finally c20_request_sleep_in_borrow t (reqs t))
                  [0; 1; 2; 0; 1; 1; 2; 2; 0; 0; 0; 1; 1; 0; 0; 0; 1; 1; 1; 1; 1; 1; 1; 1] in
  (forall t, t < 3 -> rc_rem c t = []) /\ r_lost (rc_pool c) = 1 /\ p_next (r_pool (rc_pool c)) = 3 /\
  List.length (p_free (r_pool (rc_pool c))) = 2.
Proof.
  vm_compute. split; [|repeat split; reflexivity]. intros t Ht. destruct t as [|[|[|t]]]; reflexivity.
Qed.
