(* C17 (extension): the CBF dump period is read through the documented chain of lookups; anything missing = lite. *)
From Coq Require Import ZArith QArith List Bool String Lia.
From KV Require Import Base.Sx Base.Str Gen.Generated Model.TimeFreq Model.TimeFreqCbf Proofs.TimeFreqP.
Import ListNotations.
Open Scope string_scope.

Lemma cbf_source_documented :
  gen_cbf_result = ["int_time"; "n_accs"; "f_engine_stream"; "scale_factor_timestamp"] /\
  gen_cbf_lite_exceptions = ["IndexError"; "KeyError"] /\
  gen_cbf_prog = [CbfStep "correlator_stream" None "src_streams" true;
                  CbfStep "int_time" (Some "correlator_stream") "_int_time" false;
                  CbfStep "n_accs" (Some "correlator_stream") "_n_accs" false;
                  CbfStep "f_engine_stream" (Some "correlator_stream") "_src_streams" true;
                  CbfStep "f_engine_instrument" (Some "f_engine_stream") "_instrument_dev_name" false;
                  CbfStep "scale_factor_timestamp" (Some "f_engine_instrument") "_scale_factor_timestamp" false].
Proof. repeat split; reflexivity. Qed.

Ltac cbf_exec :=
  cbn [fold_left cbf_step_run cbf_key aget String.eqb Ascii.eqb Bool.eqb first_of hd exc_name mem_string existsb
       gen_cbf_result gen_cbf_lite_exceptions orb andb].

(* the interpreted _cbf_attrs + try / except = the documented chain, for EVERY attribute dictionary on which the
   documented chain is well typed (spec_cbf a <> CRaises) *)
Lemma cbf_period_spec a : spec_cbf a <> CRaises -> cbf_period a = spec_cbf a.
Proof.
  unfold cbf_period, spec_cbf, cbf_run, gen_cbf_prog. intros H.
  cbn [fold_left]. unfold cbf_step_run at 6. cbn [cbf_key].
  destruct (aget "src_streams" a) as [[s|[|cs l]|x]|]; try (exfalso; apply H; reflexivity); cbn [first_of];
    try (cbf_exec; reflexivity).
  unfold cbf_step_run at 5. cbn [cbf_key aget String.eqb Ascii.eqb Bool.eqb].
  destruct (aget (cs ++ "_int_time") a) as [[s|l'|p]|]; try (exfalso; apply H; reflexivity);
    try (cbf_exec; reflexivity).
  unfold cbf_step_run at 4. cbn [cbf_key aget String.eqb Ascii.eqb Bool.eqb].
  destruct (aget (cs ++ "_n_accs") a) as [na|]; try (cbf_exec; reflexivity).
  unfold cbf_step_run at 3. cbn [cbf_key aget String.eqb Ascii.eqb Bool.eqb].
  destruct (aget (cs ++ "_src_streams") a) as [[s|[|fs l']|x]|]; try (exfalso; apply H; reflexivity); cbn [first_of];
    try (cbf_exec; reflexivity).
  unfold cbf_step_run at 2. cbn [cbf_key aget String.eqb Ascii.eqb Bool.eqb].
  destruct (aget (fs ++ "_instrument_dev_name") a) as [[inst|l''|x]|]; try (exfalso; apply H; reflexivity);
    try (cbf_exec; reflexivity).
  unfold cbf_step_run at 1. cbn [cbf_key aget String.eqb Ascii.eqb Bool.eqb].
  destruct (aget (inst ++ "_scale_factor_timestamp") a) as [sf|]; cbf_exec; reflexivity.
Qed.

(* consequences spelled out *)
Lemma cbf_full_chain a cs l p na fs l' inst sf :
  aget "src_streams" a = Some (AList (cs :: l)) -> aget (cs ++ "_int_time") a = Some (ANum p) ->
  aget (cs ++ "_n_accs") a = Some na -> aget (cs ++ "_src_streams") a = Some (AList (fs :: l')) ->
  aget (fs ++ "_instrument_dev_name") a = Some (AStr inst) -> aget (inst ++ "_scale_factor_timestamp") a = Some sf ->
  cbf_period a = CPeriod p /\ t_cbf_of a = Some p.
Proof.
  intros H1 H2 H3 H4 H5 H6.
  assert (S : spec_cbf a = CPeriod p) by (unfold spec_cbf; rewrite H1, H2, H3, H4, H5, H6; reflexivity).
  assert (E : cbf_period a = CPeriod p) by (rewrite cbf_period_spec; [exact S|rewrite S; discriminate]).
  split; [exact E|unfold t_cbf_of; rewrite E; reflexivity].
Qed.

(* a lite RDB (no src_streams) or a PARTIALLY stripped one (any later link of a well-typed chain missing): no period,
   hence no correction - whatever the capture date *)
Lemma cbf_lite_no_fix tm a : spec_cbf a = CLite ->
  t_cbf_of a = None /\ forall i, spec_timestamp (timing_with_attrs tm a) i == raw_stamp tm i.
Proof.
  intros S. assert (E : cbf_period a = CLite) by (rewrite cbf_period_spec; [exact S|rewrite S; discriminate]).
  assert (N : t_cbf_of a = None) by (unfold t_cbf_of; rewrite E; reflexivity).
  split; [exact N|]. intros i. unfold spec_timestamp, spec_fix_amount, timing_with_attrs, raw_stamp. cbn [t_cbf t_sync t_first t_int t_off].
  rewrite N. destruct (spec_needs_fix _); ring.
Qed.

Definition ex_attrs : attrs :=
  [("src_streams", AList ["corr"]); ("corr_int_time", ANum (1#2)); ("corr_n_accs", ANum 64);
   ("corr_src_streams", AList ["feng"]); ("feng_instrument_dev_name", AStr "i0"); ("i0_scale_factor_timestamp", ANum 1712000000)].
Example nonvacuous_cbf :
  cbf_period ex_attrs = CPeriod (1#2) /\ cbf_period (firstn 5 ex_attrs) = CLite /\ cbf_period [] = CLite /\
  cbf_period (("src_streams", AList []) :: ex_attrs) = CLite /\
  cbf_period (("corr_src_streams", ANum 1) :: ex_attrs) = CRaises.
Proof. repeat split; vm_compute; reflexivity. Qed.
