(* C02: the decorated DataSet.select (Model/SelectA.v) is all-or-nothing; consequences for whole histories. *)
From Coq Require Import ZArith List Bool String Ascii Permutation Lia.
From KV Require Import Base.Sx Base.Str Base.SelSlice Gen.Generated Model.Select Model.SelectX Model.SelectA
  Proofs.SelectBaseP Proofs.SelectP Proofs.SelectXP Proofs.SelectXRefP Proofs.SelectXLawsP Proofs.SelectXFormsP
  Proofs.SelectXExP.
Import ListNotations.
Open Scope Z_scope.

(* ---------------------------------------------------------------- what the translator found *)
Lemma atomic_is_documented :
  sel_atomic = true
  /\ sel_atomic_restores = ["_time_keep"; "_freq_keep"; "_corrprod_keep"; "_selection"; "spw"; "subarray";
                            "_weights_keep"; "_flags_keep"]%string.
Proof. split; reflexivity. Qed.

(* the body of select() assigns the public attributes only after the last statement that can raise *)
Lemma xselect_pub_unchanged : forall xo s xkw, fst (xselect xo s xkw) <> OOk ->
  x_pub (snd (xselect xo s xkw)) = x_pub s.
Proof.
  intros xo s xkw H. rewrite xselect_closed in *. cbv zeta in *.
  destruct (xpre xo (x_spw s) (x_sub s) (elab_kw (x_vocab xo) xkw)) as [oc|[spw sub]]; [reflexivity|].
  destruct (nth_error (x_spws xo) (Z.to_nat spw)); [|reflexivity].
  destruct (nth_error (x_subs xo) (Z.to_nat sub)); [|reflexivity].
  unfold xstep in *. cbv zeta in *.
  destruct (all_ok _ _); cbn [fst snd] in *; [congruence | reflexivity].
Qed.

(* the handler puts back every component of the state but the public attributes *)
Lemma restore_is_old : forall old cur, x_pub cur = x_pub old -> restore old cur = old.
Proof.
  intros [[t f b l w fl] sp sb p] [[t' f' b' l' w' fl'] sp' sb' p'] H. cbn [x_pub] in H. subst p'.
  reflexivity.
Qed.

(* ---------------------------------------------------------------- the decorated call *)
Lemma xselect_a_eq : forall xo s xkw,
  xselect_a xo s xkw = match fst (xselect xo s xkw) with OOk => xselect xo s xkw | oc => (oc, s) end.
Proof.
  intros xo s xkw. unfold xselect_a. cbv zeta. change sel_atomic with true. cbv iota.
  destruct (fst (xselect xo s xkw)) eqn:E; try reflexivity;
    (rewrite restore_is_old; [reflexivity | apply xselect_pub_unchanged; rewrite E; discriminate]).
Qed.

Lemma xselect_a_fst : forall xo s xkw, fst (xselect_a xo s xkw) = fst (xselect xo s xkw).
Proof. intros. rewrite xselect_a_eq. destruct (fst (xselect xo s xkw)) eqn:E; try reflexivity. exact E. Qed.

Lemma xselect_a_ok : forall xo s xkw s', xselect_a xo s xkw = (OOk, s') <-> xselect xo s xkw = (OOk, s').
Proof.
  intros. rewrite xselect_a_eq. destruct (xselect xo s xkw) as [oc t] eqn:E. cbn [fst].
  destruct oc; split; intro H; try exact H; try discriminate.
Qed.

(* ATOMICITY, full strength: a call that is not accepted - whatever it raises, wherever - leaves the state alone *)
Lemma failed_call_atomic : forall xo s xkw, fst (xselect_a xo s xkw) <> OOk -> snd (xselect_a xo s xkw) = s.
Proof.
  intros xo s xkw H. rewrite xselect_a_eq in *. destruct (fst (xselect xo s xkw)) eqn:E; cbn [fst snd] in *;
    try reflexivity. rewrite E in H. congruence.
Qed.

(* the documented rule leaves everything alone when it does not accept *)
Lemma xspec_not_ok_unchanged : forall xo m xkw, fst (xspec_select xo m xkw) <> OOk -> snd (xspec_select xo m xkw) = m.
Proof.
  intros xo m xkw H. rewrite xspec_closed in *. cbv zeta in *.
  destruct (xpre xo (xm_spw m) (xm_sub m) (elab_kw (x_vocab xo) xkw)) as [oc|[spw sub]]; [reflexivity|].
  destruct (all_ok _ _); cbn [fst snd] in *; [congruence | reflexivity].
Qed.

(* REFINEMENT without exception: outcome AND selection agree with the documented rule for every call *)
Lemma xrefines_a : forall xo s xkw, XInv xo s -> NoDup (map fst xkw) ->
  (fst (xselect_a xo s xkw), xm_of (snd (xselect_a xo s xkw))) = xspec_select xo (xm_of s) xkw.
Proof.
  intros xo s xkw I N. destruct (xrefines xo s xkw I N) as [Ho Hm].
  destruct (xspec_select xo (xm_of s) xkw) as [oc m] eqn:Es. cbn [fst snd] in *.
  rewrite xselect_a_fst, Ho. f_equal.
  destruct oc.
  - rewrite xselect_a_eq, Ho. apply Hm. rewrite Ho. discriminate.
  - rewrite failed_call_atomic by (rewrite xselect_a_fst, Ho; discriminate).
    symmetry. change m with (snd (OTypeError, m)). rewrite <- Es. apply xspec_not_ok_unchanged. rewrite Es. discriminate.
  - rewrite failed_call_atomic by (rewrite xselect_a_fst, Ho; discriminate).
    symmetry. change m with (snd (OIndexError, m)). rewrite <- Es. apply xspec_not_ok_unchanged. rewrite Es. discriminate.
  - rewrite failed_call_atomic by (rewrite xselect_a_fst, Ho; discriminate).
    symmetry. change m with (snd (OFail, m)). rewrite <- Es. apply xspec_not_ok_unchanged. rewrite Es. discriminate.
Qed.

Lemma xselect_a_XInv : forall xo s xkw, XInv xo s -> NoDup (map fst xkw) -> XInv xo (snd (xselect_a xo s xkw)).
Proof.
  intros xo s xkw I N. destruct (xselect_a xo s xkw) as [oc s'] eqn:E. cbn [snd].
  destruct oc.
  - apply xselect_a_ok in E. eapply xselect_XInv; eauto. apply (xi_weak _ _ I).
  - pose proof (failed_call_atomic xo s xkw) as A. rewrite E in A. cbn [fst snd] in A. rewrite A; [exact I|discriminate].
  - pose proof (failed_call_atomic xo s xkw) as A. rewrite E in A. cbn [fst snd] in A. rewrite A; [exact I|discriminate].
  - pose proof (failed_call_atomic xo s xkw) as A. rewrite E in A. cbn [fst snd] in A. rewrite A; [exact I|discriminate].
Qed.

(* ---------------------------------------------------------------- histories *)
(* states reachable through the decorated method, by ANY history (accepted, rejected and failed calls) *)
Inductive xreach_a (xo : xobs) : xst -> Prop :=
| xra_init : xreach_a xo (xinit xo)
| xra_step : forall s xkw, xreach_a xo s -> NoDup (map fst xkw) -> xreach_a xo (snd (xselect_a xo s xkw)).

(* ... are states in which no part-way failure is pending: every theorem stated for `xreach` applies *)
Lemma xreach_a_clean : forall xo s, xreach_a xo s -> xreach xo s.
Proof.
  intros xo s R. induction R as [|s xkw R IH N]; [constructor|].
  destruct (xselect_a xo s xkw) as [oc s'] eqn:E. cbn [snd].
  destruct oc.
  - apply xselect_a_ok in E. eapply xreach_step; eauto.
  - pose proof (failed_call_atomic xo s xkw) as A. rewrite E in A. cbn [fst snd] in A. rewrite A; [exact IH|discriminate].
  - pose proof (failed_call_atomic xo s xkw) as A. rewrite E in A. cbn [fst snd] in A. rewrite A; [exact IH|discriminate].
  - pose proof (failed_call_atomic xo s xkw) as A. rewrite E in A. cbn [fst snd] in A. rewrite A; [exact IH|discriminate].
Qed.

Lemma xreach_a_XInv : forall xo s, has_windows xo -> xreach_a xo s -> XInv xo s.
Proof. intros xo s H R. apply xreach_XInv; [exact H | apply xreach_a_clean; exact R]. Qed.

Lemma xafter_a_reach : forall xo calls s, xreach_a xo s -> Forall (fun c => NoDup (map fst c)) calls ->
  xreach_a xo (xafter_a xo s calls).
Proof.
  induction calls as [|c rest IH]; intros s R N; [exact R|].
  inversion N; subst. unfold xafter_a. cbn [fold_left]. apply IH; [constructor; assumption | assumption].
Qed.

(* whole-history refinement, ALL histories: no side condition on failures any more *)
Lemma xhistory_refines_a : forall xo calls s, XInv xo s -> Forall (fun c => NoDup (map fst c)) calls ->
  xrun_a xo s calls = xspec_run xo (xm_of s) calls.
Proof.
  induction calls as [|c rest IH]; intros s I N; [reflexivity|].
  inversion N as [|? ? Nc Nr]; subst. cbn [xrun_a xspec_run]. cbv zeta.
  pose proof (xrefines_a xo s c I Nc) as E. rewrite E.
  destruct (xspec_select xo (xm_of s) c) as [oc m] eqn:Es. f_equal.
  cbn [snd]. injection E as _ Em. rewrite <- Em. apply IH; [apply xselect_a_XInv; assumption | assumption].
Qed.

(* keyword order is irrelevant for EVERY call - also one that fails - now and after any continuation *)
Lemma xkw_order_a : forall xo s xkw xkw' rest, XInv xo s -> Permutation xkw xkw' -> NoDup (map fst xkw) ->
  Forall (fun c => NoDup (map fst c)) rest ->
  xrun_a xo s (xkw :: rest) = xrun_a xo s (xkw' :: rest).
Proof.
  intros xo s xkw xkw' rest I P N Nr.
  assert (N' : NoDup (map fst xkw')) by (eapply Permutation_NoDup; [apply Permutation_map; exact P | exact N]).
  rewrite !xhistory_refines_a by (try assumption; constructor; assumption).
  cbn [xspec_run]. rewrite (xspec_perm xo (xm_of s) xkw xkw' P N). reflexivity.
Qed.

(* ... and the state a failed call leaves does not depend on keyword order either (it is the old state) *)
Lemma failed_kw_order_a : forall xo s xkw xkw', XInv xo s -> Permutation xkw xkw' -> NoDup (map fst xkw) ->
  fst (xselect_a xo s xkw) <> OOk ->
  xselect_a xo s xkw' = (fst (xselect_a xo s xkw), s).
Proof.
  intros xo s xkw xkw' I P N H.
  assert (N' : NoDup (map fst xkw')) by (eapply Permutation_NoDup; [apply Permutation_map; exact P | exact N]).
  pose proof (xrefines_a xo s xkw I N) as E1. pose proof (xrefines_a xo s xkw' I N') as E2.
  rewrite (xspec_perm xo (xm_of s) xkw xkw' P N) in E1.
  assert (F : fst (xselect_a xo s xkw') = fst (xselect_a xo s xkw)).
  { rewrite <- E1 in E2. injection E2 as E2 _. exact E2. }
  rewrite (surjective_pairing (xselect_a xo s xkw')). rewrite F. f_equal.
  apply failed_call_atomic. rewrite F. exact H.
Qed.

(* NO POISON: a call that is not accepted is invisible to everything that follows *)
Lemma failed_call_invisible : forall xo s bad rest, fst (xselect_a xo s bad) <> OOk ->
  xrun_a xo s (bad :: rest) = (fst (xselect_a xo s bad), xm_of s) :: xrun_a xo s rest
  /\ xafter_a xo s (bad :: rest) = xafter_a xo s rest.
Proof.
  intros xo s bad rest H. unfold xafter_a. cbn [xrun_a fold_left]. cbv zeta.
  rewrite (failed_call_atomic xo s bad H). split; reflexivity.
Qed.

(* repeating ANY call changes nothing: an accepted one by idempotence, another one because it changed nothing *)
Lemma xidempotent_a : forall xo s xkw, XInv xo s -> NoDup (map fst xkw) ->
  let r1 := xselect_a xo s xkw in
  let r2 := xselect_a xo (snd r1) xkw in
  fst r2 = fst r1 /\ xm_of (snd r2) = xm_of (snd r1) /\ x_pub (snd r2) = x_pub (snd r1).
Proof.
  intros xo s xkw I N. cbv zeta. destruct (xselect_a xo s xkw) as [oc s1] eqn:E. cbn [fst snd].
  assert (Hoc : oc = OOk \/ oc <> OOk) by (destruct oc; auto; right; discriminate).
  destruct Hoc as [->|Hne].
  - apply xselect_a_ok in E. destruct (xidempotent xo s xkw s1 I N E) as [s2 [E2 [Hm Hp]]].
    apply xselect_a_ok in E2. rewrite E2. cbn [fst snd]. repeat split; assumption.
  - pose proof (failed_call_atomic xo s xkw) as A. rewrite E in A. cbn [fst snd] in A. specialize (A Hne). subst s1. rewrite E. cbn [fst snd]. repeat split; reflexivity.
Qed.

(* ---------------------------------------------------------------- non-vacuity on the example of SelectXExP.v *)
(* the same history as SelectXExP.v, through the decorated method: xc6 (`corrprods=[7], scans='slew'`) raises and
   leaves xs5; the unrelated call xc7 (`channels=0`), which raised on the bare body, is now accepted; spec agrees *)
Lemma ex_atomic_instance :
  xselect ex_xobs xs5 xc6 = (OFail, xs6) /\ xs6 <> xs5
  /\ xselect_a ex_xobs xs5 xc6 = (OFail, xs5)
  /\ fst (xselect ex_xobs xs6 xc7) = OFail
  /\ fst (xselect_a ex_xobs xs5 xc7) = OOk
  /\ p_shape (x_pub (snd (xselect_a ex_xobs xs5 xc7))) = [1; 1; 1]
  /\ xrun_a ex_xobs xs0 [xc1; xc2; xc3; xc4; xc5; xc6; xc7; xc_neg; xc_bogus; xc8]
     = xspec_run ex_xobs (xm_of xs0) [xc1; xc2; xc3; xc4; xc5; xc6; xc7; xc_neg; xc_bogus; xc8]
  /\ map fst (xrun_a ex_xobs xs0 [xc1; xc2; xc3; xc4; xc5; xc6; xc7; xc_neg; xc_bogus; xc8])
     = [OOk; OOk; OOk; OOk; OOk; OFail; OOk; OIndexError; OTypeError; OOk]
  /\ xreach_a ex_xobs (xafter_a ex_xobs (xinit ex_xobs) [xc1; xc2; xc3; xc4; xc5; xc6])
  /\ xafter_a ex_xobs (xinit ex_xobs) [xc1; xc2; xc3; xc4; xc5; xc6] = xs5.
Proof.
  repeat split; try (vm_compute; reflexivity).
  - vm_compute. discriminate.
  - apply xafter_a_reach; [constructor | repeat constructor; simpl; intuition discriminate].
Qed.

(* ---------------------------------------------------------------- a switching call that names the third dimension *)
(* default reset, the call changes the window and carries a product criterion (or changes the subarray and carries a
   channel criterion): ALL THREE dimensions start afresh - the selection after the call does not depend on the
   selection before it (in particular the products / channels are not ANDed onto the old ones) *)
Lemma switch_third_dimension : forall xo s xkw s', XInv xo s -> NoDup (map fst xkw) ->
  xselect_a xo s xkw = (OOk, s') ->
  let kw := elab_kw (x_vocab xo) xkw in
  let o := view_at xo (x_spw s') (x_sub s') in
  lookup "reset" kw = None ->
  (x_spw s' <> x_spw s /\ hits kw (doc_group DB) = true) \/ (x_sub s' <> x_sub s /\ hits kw (doc_group DF) = true) ->
  forall d, mget d (x_core s') = fold_left mand (spec_crit_masks o d kw) (xbase xo o (x_spw s') (x_sub s') d).
Proof.
  intros xo s xkw s' I N E kw o Hr Hc d. apply xselect_a_ok in E.
  destruct (xselect_dims xo s xkw s' I N E) as [Hd _]. cbv zeta in Hd. fold kw in Hd. fold o in Hd. rewrite Hd.
  assert (Hauto : forall d', hits kw (doc_group d') = true -> spec_reset kw d' = true).
  { intros d' Hh. unfold spec_reset. destruct kw as [|p l] eqn:Ek; [reflexivity|]. rewrite Hr. exact Hh. }
  assert (X : xspec_reset kw (negb (x_spw s' =? x_spw s)) (negb (x_sub s' =? x_sub s)) d = true).
  { unfold xspec_reset. destruct Hc as [[Hne Hh]|[Hne Hh]].
    - assert (C : negb (x_spw s' =? x_spw s) = true) by (apply negb_true_iff, Z.eqb_neq; exact Hne). rewrite C.
      destruct d; cbn [andb orb]; rewrite ?orb_true_r; try reflexivity. rewrite (Hauto DB Hh). reflexivity.
    - assert (C : negb (x_sub s' =? x_sub s) = true) by (apply negb_true_iff, Z.eqb_neq; exact Hne). rewrite C.
      destruct d; cbn [andb orb]; rewrite ?orb_true_r; try reflexivity. rewrite (Hauto DF Hh). reflexivity. }
  rewrite X. reflexivity.
Qed.

(* non-vacuity on ex_xobs: pol='h' (products [1;1;0]), then spw=1 with ants='m000' - the products are those of
   ants='m000' alone ([1;0;0] would be the same here, so take corrprods=[2]): the old pol criterion is gone *)
Definition xc_pol : xkwargs := [("pol"%string, XBare (AStr "h"))].
Definition xc_switch : xkwargs := [("spw"%string, XCore (VAtom 1)); ("corrprods"%string, XCore (VIdx (IxList [2])))].
Lemma ex_switch_instance :
  bk (x_core (xafter_a ex_xobs xs0 [xc_pol])) = map bb [1;1;0]
  /\ fst (xselect_a ex_xobs (xafter_a ex_xobs xs0 [xc_pol]) xc_switch) = OOk
  /\ bk (x_core (xafter_a ex_xobs xs0 [xc_pol; xc_switch])) = map bb [0;0;1]
  /\ keys (sel (x_core (xafter_a ex_xobs xs0 [xc_pol; xc_switch]))) = ["spw"; "subarray"; "corrprods"]%string
  /\ x_spw (xafter_a ex_xobs xs0 [xc_pol; xc_switch]) = 1
  /\ hits (elab_kw ex_vocab xc_switch) (doc_group DB) = true /\ lookup "reset" (elab_kw ex_vocab xc_switch) = None.
Proof. repeat split; vm_compute; reflexivity. Qed.

(* ---------------------------------------------------------------- names with inner blanks *)
(* blanks INSIDE a name are part of the name in every argument form: only the blanks around a comma-separated field
   are stripped *)
Definition blank_labels : list (string * Z) := [("", 0); ("track", 1); ("drift scan", 2); ("noise diode", 3)]%string.
Lemma ex_inner_blank_instance :
  sel_to_list (XBare (AStr "drift scan")) = Some [AStr "drift scan"]
  /\ sel_to_list (XBare (AStr " noise diode ,drift scan")) = Some [AStr "noise diode"; AStr "drift scan"]
  /\ sel_to_list (XBare (AStr "~drift scan, track")) = sel_to_list (XSeq [AStr "~drift scan"; AStr "track"])
  /\ mapM (elab_scan blank_labels) [AStr "drift scan"; AStr "~noise diode"; AStr "driftscan"]
     = Some [SName 2; SNot 3; SName unknown_id].
Proof. repeat split; vm_compute; reflexivity. Qed.

(* for ALL names: a string without comma whose first and last characters are no blanks is a single item, itself *)
Lemma single_name_kept : forall name, name <> EmptyString -> forallb clean [name] = true ->
  sel_to_list (XBare (AStr name)) = Some [AStr name].
Proof.
  intros name Hne Hc. pose proof (comma_string_is_list [name]) as H. cbn [join] in H.
  rewrite H; [reflexivity | discriminate | exact Hne | exact Hc].
Qed.
