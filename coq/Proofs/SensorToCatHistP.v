(* C10: proofs about the dump-edge convention and about histories of conversions over one getter. *)
From Coq Require Import ZArith List Bool Lia String.
From KV Require Import Base.Sx Base.Str Gen.Generated Model.SensorToCat Model.SensorToCatSrc Model.SensorToCatPath
  Model.SensorToCatHist Proofs.SensorToCatP Proofs.SensorToCatInitP Proofs.SensorToCatLawsP Proofs.SensorToCatSrcP Proofs.SensorToCatTopP.
Import ListNotations.
Open Scope Z_scope.

(* ================= (A) dump edges ================= *)
Lemma nth_error_combine {A B} (a : list A) (b : list B) k x y :
  nth_error (combine a b) k = Some (x, y) -> nth_error a k = Some x /\ nth_error b k = Some y.
Proof.
  revert a b. induction k as [|k IH]; intros [|p a] [|q b] H; simpl in H; try discriminate.
  - inversion H. split; reflexivity.
  - simpl. apply IH. exact H.
Qed.
Lemma nth_error_map_inv {A B} (f : A -> B) l k y : nth_error (map f l) k = Some y ->
  exists x, nth_error l k = Some x /\ y = f x.
Proof.
  revert l. induction k as [|k IH]; intros [|a l] H; simpl in H; try discriminate.
  - inversion H. exists a. split; reflexivity.
  - simpl. apply IH. exact H.
Qed.

(* dump k of the rule, read off the public arguments: it ENDS half a period after its own mid time; dump 0 starts a
   full period before that end, every later dump starts where the previous one ended (half a period after the previous
   mid time) -- irregular grids included *)
Lemma dump_intervals_nth mids P k lo hi : nth_error (dump_intervals mids P) k = Some (lo, hi) ->
  exists m, nth_error mids k = Some m /\ hi = m + P / 2 /\
    match k with
    | O => lo = m + P / 2 - P
    | S j => exists m', nth_error mids j = Some m' /\ lo = m' + P / 2
    end.
Proof.
  unfold dump_intervals. destruct mids as [|m0 mr]; [destruct k; discriminate|].
  rewrite dump_ends_cons. intro H. apply nth_error_combine in H. destruct H as [Hlo Hhi].
  change ((m0 + P / 2) :: dump_ends mr P) with (dump_ends (m0 :: mr) P) in Hhi, Hlo.
  unfold dump_ends in Hhi. apply nth_error_map_inv in Hhi. destruct Hhi as [m [Hm Hh]].
  exists m. split; [exact Hm|]. split; [exact Hh|].
  destruct k as [|j].
  - simpl in Hlo, Hm. inversion Hm. subst m. inversion Hlo. reflexivity.
  - change (nth_error (dump_ends (m0 :: mr) P) j = Some lo) in Hlo.
    unfold dump_ends in Hlo. apply nth_error_map_inv in Hlo. destruct Hlo as [m' [Hm' Hl]].
    exists m'. split; [exact Hm'|exact Hl].
Qed.

Lemma dump_intervals_length mids P : List.length (dump_intervals mids P) = List.length mids.
Proof.
  unfold dump_intervals. destruct mids as [|m0 mr]; [reflexivity|]. rewrite dump_ends_cons.
  rewrite combine_length. cbn [List.length]. unfold dump_ends. rewrite map_length. lia.
Qed.

Lemma regular_grid_step mids P j m m' : regular_grid mids P ->
  nth_error mids j = Some m' -> nth_error mids (S j) = Some m -> m = m' + P.
Proof.
  revert j. induction mids as [|a r IH]; intros j Hg H1 H2; [destruct j; discriminate|].
  destruct r as [|b r]; [destruct j; simpl in H2; try discriminate; destruct j; discriminate|].
  destruct Hg as [Hb Hg]. destruct j as [|j].
  - simpl in H1, H2. inversion H1. inversion H2. subst. reflexivity.
  - apply (IH j Hg); assumption.
Qed.

(* on a regular grid with an even period 2h, dump k covers exactly (mid_k - h, mid_k + h] *)
Lemma dump_edge_regular mids h k lo hi : regular_grid mids (2 * h) ->
  nth_error (dump_intervals mids (2 * h)) k = Some (lo, hi) ->
  exists m, nth_error mids k = Some m /\ lo = m - h /\ hi = m + h.
Proof.
  intros Hg H. apply dump_intervals_nth in H. destruct H as [m [Hm [Hh Hl]]].
  assert (E : 2 * h / 2 = h) by (rewrite Z.mul_comm; apply Z.div_mul; lia).
  rewrite E in *. exists m. split; [exact Hm|]. split; [|exact Hh].
  destruct k as [|j]; [lia|]. destruct Hl as [m' [Hm' Hl]].
  pose proof (regular_grid_step _ _ _ _ _ Hg Hm' Hm). lia.
Qed.

(* the rule is the per-dump choice over exactly these intervals *)
Lemma rule_over_intervals ts vals mids P tr init greedy l : rule ts vals mids P tr init greedy = Ok l ->
  exists st, l = map (dump_value (fun v => memZ v greedy) (combine ts (map (app_tr tr) vals)) st) (dump_intervals mids P).
Proof.
  unfold rule, spec_per_dump, dump_intervals. destruct (dump_ends mids P) as [|e0 er]; [discriminate|].
  cbv zeta. destruct (start_value _ _ _) as [st|]; [|discriminate]. cbn [res_of]. intro H. inversion H. exists st. reflexivity.
Qed.

Lemma rule_over_intervals_len ts vals mids P tr init greedy l : rule ts vals mids P tr init greedy = Ok l ->
  List.length (dump_intervals mids P) = List.length mids /\
  exists st, l = map (dump_value (fun v => memZ v greedy) (combine ts (map (app_tr tr) vals)) st) (dump_intervals mids P).
Proof. intros. split; [apply dump_intervals_length|eapply rule_over_intervals; eassumption]. Qed.

(* membership in a dump, in terms of mid times and period: t lies in dump k iff  lo_k < t <= mid_k + P/2 *)
Lemma in_dump_spec lo hi t : in_dump (lo, hi) t = true <-> lo < t <= hi.
Proof. unfold in_dump. cbn [fst snd]. rewrite andb_true_iff, Z.ltb_lt, Z.leb_le. tauto. Qed.

(* ---- "events after the last dump are ignored" means after its END: the last sample at or before the end of the last
   dump (mid + P/2) - in particular one in the second half of the last dump - decides the last dump when nothing is
   greedy, whatever lies after the end *)
Lemma last_map {A B} (f : A -> B) l d : l <> [] -> last (map f l) (f d) = f (last l d).
Proof.
  induction l as [|a l IH]; [congruence|]. intros _. destruct l as [|b l]; [reflexivity|].
  change (last (map f (b :: l)) (f d) = f (last (b :: l) d)). apply IH. discriminate.
Qed.
Lemma last_default_irrel {A} (l : list A) d d' : l <> [] -> last l d = last l d'.
Proof. destruct l as [|a l]; [congruence|]. intros _. rewrite !last_cons. reflexivity. Qed.

Lemma src_last_dump_event_counts ts vals t v lts lvals mids P tr init ar :
  c10_domain (ts ++ t :: lts) (vals ++ v :: lvals) mids P -> List.length ts = List.length vals ->
  t <= last (dump_ends mids P) 0 -> Forall (fun u => last (dump_ends mids P) 0 < u) lts ->
  exists l, per_dump_src (ts ++ t :: lts) (vals ++ v :: lvals) mids P tr init [] ar = Ok l
            /\ last l 0 = app_tr tr v /\ List.length l = List.length mids.
Proof.
  intros D Hl Ht Hlate.
  replace (ts ++ t :: lts) with ((ts ++ [t]) ++ lts) in * by (rewrite <- app_assoc; reflexivity).
  replace (vals ++ v :: lvals) with ((vals ++ [v]) ++ lvals) in * by (rewrite <- app_assoc; reflexivity).
  assert (Hl1 : List.length (ts ++ [t]) = List.length (vals ++ [v])) by (rewrite !app_length; simpl; lia).
  rewrite (src_late_events_ignored _ _ _ _ _ _ _ _ _ _ D Hl1 Hlate).
  assert (D1 : c10_domain (ts ++ [t]) (vals ++ [v]) mids P).
  { destruct D as [Hne [Hs [HP [Hts _]]]]. repeat split; try assumption.
    apply time_sorted_app_l in Hts. exact Hts. }
  rewrite (src_no_greedy_value_at_end _ _ _ _ _ _ _ D1). cbv zeta.
  destruct (domain_ends _ _ _ _ D1) as [e0 [er [He _]]].
  rewrite map_app. cbn [map]. rewrite combine_app by (rewrite map_length; exact Hl). cbn [combine].
  set (tv1 := combine ts (map (app_tr tr) vals)).
  assert (Hsel : sel (fun u => u <=? last (dump_ends mids P) 0) (tv1 ++ [(t, app_tr tr v)])
                 = sel (fun u => u <=? last (dump_ends mids P) 0) tv1 ++ [app_tr tr v]).
  { rewrite sel_app. f_equal. unfold sel. cbn [filter fst]. apply Z.leb_le in Ht. rewrite Ht. reflexivity. }
  assert (Hst : exists st, start_value (tv1 ++ [(t, app_tr tr v)]) init (last (dump_ends mids P) 0) = Some st).
  { unfold start_value. destruct init as [i|]; [eexists; reflexivity|]. rewrite Hsel.
    destruct (sel _ tv1); eexists; reflexivity. }
  destruct Hst as [st Hst]. rewrite Hst. eexists. split; [reflexivity|]. split.
  - rewrite He. rewrite (last_default_irrel _ 0 (value_at_end (tv1 ++ [(t, app_tr tr v)]) st 0)) by discriminate.
    rewrite last_map by discriminate. unfold value_at_end. rewrite He in Hsel. rewrite Hsel. rewrite last_app2. reflexivity.
  - unfold dump_ends. rewrite !map_length. reflexivity.
Qed.

(* ================= (B) conversions leave the getter's samples alone ================= *)
(* decided from the regenerated store lists: no name that can alias the samples is written through *)
Lemma writes_nothing : extract_writes_raw = false /\ s2c_writes_raw = false.
Proof. split; vm_compute; reflexivity. Qed.

Lemma conv_raw_id raw off tr : conv_raw raw off tr = raw.
Proof. unfold conv_raw. destruct writes_nothing as [H1 H2]. rewrite H1, H2. reflexivity. Qed.

Lemma conv_step_pure hs dflt mids P raw p :
  conv_step_with hs dflt mids P extract_writes_raw s2c_writes_raw raw p = (raw, convert hs dflt mids P raw p).
Proof. unfold conv_step_with. fold conv_raw. rewrite conv_raw_id. reflexivity. Qed.

Lemma run_hist_pure hs dflt mids P ops : forall raw,
  run_hist hs dflt mids P raw ops = (raw, map (convert hs dflt mids P raw) ops).
Proof.
  unfold run_hist. induction ops as [|p r IH]; intro raw; [reflexivity|].
  cbn [run_hist_with]. rewrite conv_step_pure. rewrite IH. reflexivity.
Qed.

Lemma run_hist_pure' hs dflt mids P raw ops :
  run_hist hs dflt mids P raw ops = (raw, map (convert hs dflt mids P raw) ops).
Proof. apply run_hist_pure. Qed.

Lemma run_cache_pure hs dflt mids P pt raw gets : forall c,
  (forall n o, cached c n = Some o -> o = convert hs dflt mids P raw (pt n)) ->
  run_cache hs dflt mids P pt raw c gets = (raw, map (fun n => convert hs dflt mids P raw (pt n)) gets).
Proof.
  induction gets as [|n r IH]; intros c Hc; [reflexivity|].
  cbn [run_cache map]. destruct (cached c n) as [o|] eqn:E.
  - rewrite (IH c Hc). rewrite (Hc _ _ E). reflexivity.
  - rewrite conv_step_pure. rewrite IH; [reflexivity|].
    intros n' o'. unfold cached. cbn [find fst snd]. destruct (Nat.eqb n n') eqn:En.
    + apply Nat.eqb_eq in En. subst n'. intro H. inversion H. reflexivity.
    + intro H. apply Hc. exact H.
Qed.

Lemma run_cache_fresh hs dflt mids P pt raw gets :
  run_cache hs dflt mids P pt raw [] gets = (raw, map (fun n => convert hs dflt mids P raw (pt n)) gets).
Proof. apply run_cache_pure. intros n o H. discriminate. Qed.

(* two names with the same properties (an alias) get the same answer, in any order, however often *)
Lemma alias_same_answer hs dflt mids P pt raw gets a b : pt a = pt b -> In a gets -> In b gets ->
  forall k k' d, nth_error gets k = Some a -> nth_error gets k' = Some b ->
  nth k (snd (run_cache hs dflt mids P pt raw [] gets)) d = nth k' (snd (run_cache hs dflt mids P pt raw [] gets)) d.
Proof.
  intros Hp _ _ k k' d Ha Hb. rewrite run_cache_fresh. cbn [snd].
  set (f := fun n => convert hs dflt mids P raw (pt n)).
  rewrite (nth_indep _ d (f a)), (nth_indep (map f gets) d (f b)).
  - rewrite !map_nth. rewrite (nth_error_nth _ _ _ Ha), (nth_error_nth _ _ _ Hb). unfold f. rewrite Hp. reflexivity.
  - rewrite map_length. apply nth_error_Some. congruence.
  - rewrite map_length. apply nth_error_Some. congruence.
Qed.

(* non-vacuity: a machine that writes the transformed values back (value.unwrapped = transform(...), sensor_values[:] = ...)
   or shifts the times in place (timestamp += time_offset) does NOT have the property *)
Definition ex_raw : list rsample := [(1, 1, EmptyString); (3, 2, EmptyString)].
Definition ex_props : cprops := {| p_off := Some 0; p_tr := Some [(1, 2); (2, 3)]; p_init := None; p_greedy := []; p_ar := None |}.
Definition ex_props_off : cprops := {| p_off := Some 2; p_tr := None; p_init := None; p_greedy := []; p_ar := None |}.
Lemma hist_example :
  run_hist false 0 [1; 3] 2 ex_raw [ex_props; ex_props] = (ex_raw, [Ok [2; 3]; Ok [2; 3]])
  /\ run_hist_with false 0 [1; 3] 2 false true ex_raw [ex_props; ex_props]
     = ([(1, 3, EmptyString); (3, 3, EmptyString)], [Ok [2; 3]; Ok [3; 3]])
  /\ run_hist_with false 0 [1; 3] 2 true false ex_raw [ex_props_off; ex_props_off]
     = ([(5, 1, EmptyString); (7, 2, EmptyString)], [Ok [1; 1]; Err])
  /\ run_cache false 0 [1; 3] 2 (fun _ => ex_props) ex_raw [] [0%nat; 1%nat; 0%nat] = (ex_raw, [Ok [2; 3]; Ok [2; 3]; Ok [2; 3]]).
Proof. repeat split; vm_compute; reflexivity. Qed.

Lemma edge_example :
  dump_intervals [10; 14; 18] 4 = [(8, 12); (12, 16); (16, 20)]
  /\ dump_intervals [10; 13; 19] 4 = [(8, 12); (12, 15); (15, 21)]
  /\ regular_grid [10; 14; 18] 4
  (* an event in the second half of the last dump (mid 18 < 19 <= 20) counts, one after its end (21) does not *)
  /\ per_dump_src [9; 19] [1; 2] [10; 14; 18] 4 None None [] None = Ok [1; 1; 2]
  /\ per_dump_src [9; 20] [1; 2] [10; 14; 18] 4 None None [] None = Ok [1; 1; 2]
  /\ per_dump_src [9; 21] [1; 2] [10; 14; 18] 4 None None [] None = Ok [1; 1; 1]
  (* first dump: at or before its start (8) = prior event; every quarter after it up to the end (12) = inside *)
  /\ per_dump_src [8; 9] [1; 3] [10; 14; 18] 4 None None [3] None = Ok [3; 3; 3]
  /\ per_dump_src [7; 8] [3; 1] [10; 14; 18] 4 None None [3] None = Ok [1; 1; 1]
  /\ per_dump_src [8; 12] [3; 1] [10; 14; 18] 4 None None [3] None = Ok [3; 1; 1]
  /\ per_dump_src [8; 13] [3; 1] [10; 14; 18] 4 None None [3] None = Ok [3; 3; 1].
Proof. repeat split; vm_compute; reflexivity. Qed.
