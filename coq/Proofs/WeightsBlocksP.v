(* C15: block-wise evaluation over any chunking (baseline axis included) gives the pointwise functions. *)
From Coq Require Import ZArith QArith Qcanon List Bool Arith Lia.
From KV Require Import Base.Sx Gen.Generated Model.Interp Model.Weights Proofs.WeightsP.
Import ListNotations.
Close Scope Q_scope.
Open Scope nat_scope.

(* ------------------------------------------------------------------ list helpers *)
Lemma nth_skipn' : forall {A} (l : list A) s j d, nth j (skipn s l) d = nth (s + j) l d.
Proof. induction l; intros [|s] j d; cbn; auto. destruct j; reflexivity. Qed.
Lemma nth_firstn' : forall {A} (l : list A) n j d, j < n -> nth j (firstn n l) d = nth j l d.
Proof. induction l; intros [|n] [|j] d H; cbn; auto; try lia. apply IHl. lia. Qed.
Lemma nth_map_seq : forall {A} (f : nat -> A) s n j d, j < n -> nth j (map f (seq s n)) d = f (s + j).
Proof.
  intros A f s n. revert s. induction n; intros s j d H; [lia |].
  destruct j; cbn; [f_equal; lia |]. rewrite IHn by lia. f_equal. lia.
Qed.
Lemma nth_map_in : forall {A B} (f : A -> B) l j d d', j < List.length l -> nth j (map f l) d = f (nth j l d').
Proof. induction l; intros [|j] d d' H; cbn in *; try lia; auto. apply IHl. lia. Qed.
Lemma nth_map_error : forall {A B} (f : A -> B) l j d x, nth_error l j = Some x -> nth j (map f l) d = f x.
Proof. induction l; intros [|j] d x H; cbn in *; try discriminate; [congruence | eauto]. Qed.
Lemma map2_length : forall {A B D} (f : A -> B -> D) a b,
  List.length (map2 f a b) = Nat.min (List.length a) (List.length b).
Proof. induction a; intros [|y b]; cbn; auto. Qed.
Lemma nth_map2 : forall {A B D} (f : A -> B -> D) a b j d da db,
  j < List.length a -> j < List.length b -> nth j (map2 f a b) d = f (nth j a da) (nth j b db).
Proof.
  induction a; intros [|y b] [|j] d da db Ha Hb; cbn in *; try lia; auto. apply IHa; lia.
Qed.

Lemma firstn_app_skipn : forall {A} a m (l : list A), firstn a l ++ firstn m (skipn a l) = firstn (a + m) l.
Proof. induction a; intros m l; cbn; [reflexivity |]. destruct l; cbn; [now destruct m | now rewrite IHa]. Qed.

Lemma skipn_skipn' : forall {A} a s (l : list A), skipn a (skipn s l) = skipn (s + a) l.
Proof. induction s; intros l; cbn; [reflexivity |]. destruct l; [now destruct a | apply IHs]. Qed.

(* ------------------------------------------------------------------ the baseline axis: pieces put together again *)
Lemma concat_split : forall {A} bch s (cell : list A),
  concat (map (fun on => firstn (snd on) (skipn (fst on) cell)) (offsets s bch)) = firstn (total bch) (skipn s cell).
Proof.
  induction bch as [| a r IH]; intros s cell; cbn [offsets map concat total fold_right]; [reflexivity |].
  cbn [fst snd]. rewrite IH. fold (total r). rewrite <- skipn_skipn'. apply firstn_app_skipn.
Qed.

(* rechunk({2: B}) of an array stored in ANY baseline chunking is the array itself *)
Lemma rechunk_b_id : forall {A} bch (cell : list A), total bch = List.length cell -> rechunk_b bch cell = cell.
Proof. intros A bch cell H. unfold rechunk_b, split_b. rewrite concat_split, H. cbn [skipn]. apply firstn_all. Qed.

(* ------------------------------------------------------------------ chunkings of the dump / channel axes *)
Lemma offsets_range : forall sizes s o n, In (o, n) (offsets s sizes) -> s <= o /\ o + n <= s + total sizes.
Proof.
  induction sizes as [| a sizes IH]; intros s o n H; cbn [offsets In] in H; [tauto |].
  change (total (a :: sizes)) with (a + total sizes).
  destruct H as [H | H].
  - inversion H; subst. lia.
  - apply IH in H. lia.
Qed.

Lemma nth_flat_offsets_ex : forall {B} (g : nat * nat -> list B) (d : B) sizes s k,
  (forall o n, In (o, n) (offsets s sizes) -> List.length (g (o, n)) = n) ->
  k < total sizes ->
  exists o n, In (o, n) (offsets s sizes) /\ o <= s + k < o + n /\
              nth k (flat_map g (offsets s sizes)) d = nth (s + k - o) (g (o, n)) d.
Proof.
  induction sizes as [| a sizes IH]; intros s k Hlen Hk; [cbn in Hk; lia |].
  change (total (a :: sizes)) with (a + total sizes) in Hk.
  cbn [offsets flat_map].
  assert (Ha : List.length (g (s, a)) = a) by (apply Hlen; left; reflexivity).
  destruct (Nat.lt_ge_cases k a) as [Hlt | Hge].
  - exists s, a. split; [left; reflexivity | split; [lia |]].
    rewrite app_nth1 by lia. f_equal. lia.
  - destruct (IH (s + a) (k - a)) as [o [n [Hin [Hr He]]]].
    + intros o n Hin. apply Hlen. right. exact Hin.
    + lia.
    + exists o, n. split; [right; exact Hin | split; [lia |]].
      rewrite app_nth2 by lia. rewrite Ha, He. f_equal. lia.
Qed.

Lemma flat_offsets_length : forall {B} (g : nat * nat -> list B) sizes s,
  (forall o n, In (o, n) (offsets s sizes) -> List.length (g (o, n)) = n) ->
  List.length (flat_map g (offsets s sizes)) = total sizes.
Proof.
  induction sizes as [| a sizes IH]; intros s H; [reflexivity |].
  cbn [offsets flat_map]. rewrite app_length, (H s a) by (left; reflexivity).
  rewrite IH; [reflexivity |]. intros o n Hin. apply H. right. exact Hin.
Qed.

Lemma flat_map_map' : forall {A B D} (f : B -> list D) (g : A -> B) l,
  flat_map f (map g l) = flat_map (fun x => f (g x)) l.
Proof. induction l; cbn; auto. now rewrite IHl. Qed.

Section AssembleP.
  Context {A : Type}.
  Variable blk : nat -> nat -> nat -> nat -> list (list A).
  Variable f : nat -> nat -> A.
  Variable d : A.
  Variables tch cch : list nat.
  Hypothesis Hcols : forall t0 tn c0 cn n, In (t0, tn) (offsets 0 tch) -> In (c0, cn) (offsets 0 cch) ->
    n < tn -> List.length (nth n (blk t0 tn c0 cn) []) = cn.
  Hypothesis Hval : forall t0 tn c0 cn n j, In (t0, tn) (offsets 0 tch) -> In (c0, cn) (offsets 0 cch) ->
    n < tn -> j < cn -> nth j (nth n (blk t0 tn c0 cn) []) d = f (t0 + n) (c0 + j).

  Lemma assemble_length : List.length (assemble blk tch cch) = total tch.
  Proof.
    unfold assemble. apply flat_offsets_length. intros. now rewrite map_length, seq_length.
  Qed.

  Lemma assemble_row : forall t, t < total tch ->
    exists t0 tn, In (t0, tn) (offsets 0 tch) /\ t0 <= t < t0 + tn /\
      nth t (assemble blk tch cch) [] =
      flat_map (fun cc => nth (t - t0) (blk t0 tn (fst cc) (snd cc)) []) (offsets 0 cch).
  Proof.
    intros t Ht. unfold assemble.
    destruct (nth_flat_offsets_ex
                (fun tt => map (fun n => flat_map (fun b => nth n b [])
                     (map (fun cc => blk (fst tt) (snd tt) (fst cc) (snd cc)) (offsets 0 cch))) (seq 0 (snd tt)))
                [] tch 0 t) as [t0 [tn [Hin [Hr He]]]]; auto.
    { intros. now rewrite map_length, seq_length. }
    exists t0, tn. split; [assumption |]. split; [lia |].
    rewrite He. cbn [fst snd]. rewrite nth_map_seq by lia. cbn [plus]. now rewrite flat_map_map'.
  Qed.

  Lemma assemble_row_length : forall t, t < total tch -> List.length (nth t (assemble blk tch cch) []) = total cch.
  Proof.
    intros t Ht. destruct (assemble_row t Ht) as [t0 [tn [Hin [Hr He]]]]. rewrite He.
    apply flat_offsets_length. intros o n Hc. cbn [fst snd]. apply Hcols; auto. lia.
  Qed.

  Lemma assemble_nth : forall t c, t < total tch -> c < total cch ->
    nth c (nth t (assemble blk tch cch) []) d = f t c.
  Proof.
    intros t c Ht Hc. destruct (assemble_row t Ht) as [t0 [tn [Hin [Hr He]]]]. rewrite He.
    destruct (nth_flat_offsets_ex (fun cc => nth (t - t0) (blk t0 tn (fst cc) (snd cc)) []) d cch 0 c)
      as [c0 [cn [Hcin [Hcr Hce]]]]; auto.
    { intros. cbn [fst snd]. apply Hcols; auto. lia. }
    cbn [plus] in *. rewrite Hce. cbn [fst snd]. rewrite Hval by (auto; lia). f_equal; lia.
  Qed.
End AssembleP.

(* ------------------------------------------------------------------ shapes *)
Definition cellat {A} (a : arr3 A) (t f : nat) : list A := nth f (nth t a []) [].
Definition shape3 {A} (a : arr3 A) (T F B : nat) : Prop :=
  List.length a = T /\ (forall t, t < T -> List.length (nth t a []) = F) /\
  (forall t f, t < T -> f < F -> List.length (cellat a t f) = B).
Definition shape2 {A} (a : list (list A)) (T F : nat) : Prop :=
  List.length a = T /\ (forall t, t < T -> List.length (nth t a []) = F).

Lemma get3_cellat : forall {A} (a : arr3 A) d t f b, get3 a d t f b = nth b (cellat a t f) d.
Proof. reflexivity. Qed.

Section Blocks.
  Context {A : Type}.
  Variable a : arr3 A.
  Variables T F B : nat.
  Hypothesis Hs : shape3 a T F B.
  Variables tch fch : list nat.
  Hypothesis HT : total tch = T.
  Hypothesis HF : total fch = F.

  Lemma slice_rows : forall t0 tn f0 fn, In (t0, tn) (offsets 0 tch) ->
    List.length (slice_block a t0 tn f0 fn) = tn.
  Proof.
    intros t0 tn f0 fn Hin. apply offsets_range in Hin. destruct Hs as [HL _].
    unfold slice_block. rewrite map_length, firstn_length, skipn_length. lia.
  Qed.

  Lemma slice_row_nth : forall t0 tn f0 fn n, In (t0, tn) (offsets 0 tch) -> n < tn ->
    nth n (slice_block a t0 tn f0 fn) [] = firstn fn (skipn f0 (nth (t0 + n) a [])).
  Proof.
    intros t0 tn f0 fn n Hin Hn. pose proof (offsets_range _ _ _ _ Hin) as Hr. destruct Hs as [HL _].
    unfold slice_block.
    rewrite (nth_map_in _ _ n [] []) by (rewrite firstn_length, skipn_length; lia).
    now rewrite nth_firstn', nth_skipn' by assumption.
  Qed.

  Lemma slice_cols : forall t0 tn f0 fn n, In (t0, tn) (offsets 0 tch) -> In (f0, fn) (offsets 0 fch) -> n < tn ->
    List.length (nth n (slice_block a t0 tn f0 fn) []) = fn.
  Proof.
    intros t0 tn f0 fn n Hin Hfin Hn. rewrite slice_row_nth by assumption.
    pose proof (offsets_range _ _ _ _ Hin) as Hr. pose proof (offsets_range _ _ _ _ Hfin) as Hfr.
    destruct Hs as [HL [HR _]]. rewrite firstn_length, skipn_length, HR by lia. lia.
  Qed.

  Lemma slice_cell : forall t0 tn f0 fn n j, In (t0, tn) (offsets 0 tch) -> n < tn -> j < fn ->
    nth j (nth n (slice_block a t0 tn f0 fn) []) [] = cellat a (t0 + n) (f0 + j).
  Proof.
    intros. rewrite slice_row_nth by assumption. now rewrite nth_firstn', nth_skipn' by assumption.
  Qed.

  (* a block after rechunking the baseline axis: whatever the baseline chunking, the stored cells *)
  Variable bch : list nat.
  Hypothesis HB : total bch = B.

  Lemma block_rows : forall t0 tn f0 fn, In (t0, tn) (offsets 0 tch) ->
    List.length (block_of a bch t0 tn f0 fn) = tn.
  Proof. intros. unfold block_of. rewrite map_length. now apply slice_rows. Qed.

  Lemma block_row_nth : forall t0 tn f0 fn n, In (t0, tn) (offsets 0 tch) -> n < tn ->
    nth n (block_of a bch t0 tn f0 fn) [] = map (rechunk_b bch) (nth n (slice_block a t0 tn f0 fn) []).
  Proof.
    intros. unfold block_of. apply nth_map_in. now rewrite slice_rows.
  Qed.

  Lemma block_cols : forall t0 tn f0 fn n, In (t0, tn) (offsets 0 tch) -> In (f0, fn) (offsets 0 fch) -> n < tn ->
    List.length (nth n (block_of a bch t0 tn f0 fn) []) = fn.
  Proof. intros. rewrite block_row_nth by assumption. rewrite map_length. now apply slice_cols. Qed.

  Lemma block_cell : forall t0 tn f0 fn n j, In (t0, tn) (offsets 0 tch) -> In (f0, fn) (offsets 0 fch) ->
    n < tn -> j < fn ->
    nth j (nth n (block_of a bch t0 tn f0 fn) []) [] = cellat a (t0 + n) (f0 + j).
  Proof.
    intros t0 tn f0 fn n j Hin Hfin Hn Hj. rewrite block_row_nth by assumption.
    rewrite (nth_map_in _ _ j [] []) by (rewrite slice_cols by assumption; exact Hj).
    rewrite slice_cell by assumption.
    pose proof (offsets_range _ _ _ _ Hin) as Hr. pose proof (offsets_range _ _ _ _ Hfin) as Hfr.
    apply rechunk_b_id. destruct Hs as [_ [_ HC]]. rewrite HC by lia. exact HB.
  Qed.
End Blocks.

(* ------------------------------------------------------------------ the kernel on full baseline rows *)
Lemma scale_row_length : forall divide ai i1 i2 vrow wrow,
  List.length (scale_row divide ai i1 i2 vrow wrow) = List.length vrow.
Proof. intros. unfold scale_row. now rewrite map_length, seq_length. Qed.

Lemma scale_row_nth : forall divide cps ai i1 i2 vrow wrow k a b p q,
  corrprod_to_autocorr cps = Some (ai, i1, i2) -> List.length vrow = List.length cps ->
  nth_error cps k = Some (a, b) -> last_auto cps a = Some p -> last_auto cps b = Some q ->
  nth k (scale_row divide ai i1 i2 vrow wrow) NaN =
  power_scale divide (nth p vrow NaN) (nth q vrow NaN) (nth k wrow NaN).
Proof.
  intros divide cps ai i1 i2 vrow wrow k a b p q Hc Hl Hk Hp Hq.
  destruct (auto_lookup _ _ _ _ Hc) as [_ [_ [_ Hlook]]].
  destruct (Hlook k a b Hk) as [p' [q' [Hp' [Hq' [H1 H2]]]]].
  assert (p' = p) by congruence. assert (q' = q) by congruence. subst p' q'.
  assert (Hkl : k < List.length vrow) by (rewrite Hl; apply nth_error_Some; congruence).
  unfold scale_row. rewrite nth_map_seq by assumption. cbn [plus].
  rewrite (nth_map_error _ _ _ NaN p H1), (nth_map_error _ _ _ NaN q H2).
  reflexivity.
Qed.

Definition has_autos (cps : list corrprod) : Prop :=
  forall a b, In (a, b) cps -> last_auto cps a <> None /\ last_auto cps b <> None.

Lemma has_autos_ok : forall cps, has_autos cps -> exists ai i1 i2, corrprod_to_autocorr cps = Some (ai, i1, i2).
Proof.
  intros cps H. destruct (corrprod_to_autocorr cps) as [[[ai i1] i2]|] eqn:E; [eauto |].
  apply auto_lookup_missing in E. destruct E as [a [b [Hin Hn]]]. destruct (H a b Hin). tauto.
Qed.

Lemma ok_has_autos : forall cps r, corrprod_to_autocorr cps = Some r -> has_autos cps.
Proof.
  intros cps r H a b Hin.
  destruct (last_auto cps a) eqn:Ea; [destruct (last_auto cps b) eqn:Eb; [split; discriminate |] |];
    exfalso; assert (corrprod_to_autocorr cps = None) by (apply auto_lookup_missing; exists a, b; auto); congruence.
Qed.

Definition cp_at (cps : list corrprod) (k : nat) : corrprod := nth k cps (0%Z, 1%Z).

(* _scale_weights over ANY chunking of the three axes of both arrays = the pointwise kernel on the looked-up autos *)
Theorem scale_weights_pointwise : forall divide cps vis bchv w bchw tch fch T F,
  shape3 vis T F (List.length cps) -> shape3 w T F (List.length cps) ->
  total tch = T -> total fch = F -> total bchv = List.length cps -> total bchw = List.length cps ->
  has_autos cps ->
  exists r, scale_weights divide cps vis bchv w bchw tch fch = Some r /\ shape3 r T F (List.length cps) /\
    forall t f k, t < T -> f < F -> k < List.length cps ->
      get3 r NaN t f k =
      power_scale divide (auto_re cps vis t f (fst (cp_at cps k))) (auto_re cps vis t f (snd (cp_at cps k)))
                  (get3 w NaN t f k).
Proof.
  intros divide cps vis bchv w bchw tch fch T F Hv Hw HT HF HBv HBw Hautos.
  destruct (has_autos_ok _ Hautos) as [ai [i1 [i2 Hc]]].
  unfold scale_weights. rewrite Hc.
  set (blk := fun t0 tn f0 fn => kernel_block divide ai i1 i2 (block_of vis bchv t0 tn f0 fn) (block_of w bchw t0 tn f0 fn)).
  set (fn := fun t f => scale_row divide ai i1 i2 (map fst (cellat vis t f)) (cellat w t f)).
  assert (Hrow : forall t0 tn f0 fn' n, In (t0, tn) (offsets 0 tch) -> In (f0, fn') (offsets 0 fch) -> n < tn ->
            nth n (blk t0 tn f0 fn') [] =
            map2 (fun vrow wrow => scale_row divide ai i1 i2 (map fst vrow) wrow)
                 (nth n (block_of vis bchv t0 tn f0 fn') []) (nth n (block_of w bchw t0 tn f0 fn') [])).
  { intros t0 tn f0 fn' n Hin Hfin Hn. unfold blk, kernel_block.
    apply nth_map2; [erewrite block_rows by eassumption | erewrite block_rows by eassumption]; assumption. }
  assert (Hcols : forall t0 tn f0 fn' n, In (t0, tn) (offsets 0 tch) -> In (f0, fn') (offsets 0 fch) ->
            n < tn -> List.length (nth n (blk t0 tn f0 fn') []) = fn').
  { intros. rewrite Hrow by assumption. rewrite map2_length.
    erewrite !block_cols by eassumption. apply Nat.min_id. }
  assert (Hval : forall t0 tn f0 fn' n j, In (t0, tn) (offsets 0 tch) -> In (f0, fn') (offsets 0 fch) ->
            n < tn -> j < fn' -> nth j (nth n (blk t0 tn f0 fn') []) [] = fn (t0 + n) (f0 + j)).
  { intros t0 tn f0 fn' n j Hin Hfin Hn Hj. rewrite Hrow by assumption.
    rewrite (nth_map2 _ _ _ j [] [] []) by (erewrite block_cols by eassumption; exact Hj).
    erewrite !block_cell by eassumption. reflexivity. }
  eexists. split; [reflexivity |].
  assert (Hcell : forall t f, t < T -> f < F -> cellat (assemble blk tch fch) t f = fn t f).
  { intros t f Ht Hf. unfold cellat. apply (assemble_nth blk fn [] tch fch Hcols Hval); lia. }
  split.
  - split; [rewrite assemble_length; exact HT |]. split.
    + intros t Ht. rewrite (assemble_row_length blk tch fch Hcols) by lia. exact HF.
    + intros t f Ht Hf. rewrite Hcell by assumption. unfold fn. rewrite scale_row_length, map_length.
      destruct Hv as [_ [_ HC]]. now apply HC.
  - intros t f k Ht Hf Hk. rewrite get3_cellat, Hcell by assumption. unfold fn.
    destruct (nth_error cps k) as [[a b]|] eqn:Ek; [| apply nth_error_None in Ek; lia].
    unfold cp_at. rewrite (nth_error_nth _ _ _ Ek). cbn [fst snd].
    destruct (Hautos a b (nth_error_In _ _ Ek)) as [Ha Hb].
    destruct (last_auto cps a) as [p|] eqn:Ep; [| congruence].
    destruct (last_auto cps b) as [q|] eqn:Eq; [| congruence].
    rewrite (scale_row_nth divide cps ai i1 i2 _ _ k a b p q Hc); try assumption.
    + unfold auto_re. rewrite Ep, Eq. rewrite !get3_cellat.
      rewrite <- !(map_nth fst (cellat vis t f) cx_nan). reflexivity.
    + rewrite map_length. destruct Hv as [_ [_ HC]]. now apply HC.
Qed.

(* baseline_chunk_independent: two chunkings (of both arrays, on all axes) give the same weights everywhere *)
Corollary scale_weights_chunk_independent : forall divide cps vis w T F bchv bchw tch fch bchv' bchw' tch' fch' r r',
  shape3 vis T F (List.length cps) -> shape3 w T F (List.length cps) ->
  total tch = T -> total fch = F -> total bchv = List.length cps -> total bchw = List.length cps ->
  total tch' = T -> total fch' = F -> total bchv' = List.length cps -> total bchw' = List.length cps ->
  scale_weights divide cps vis bchv w bchw tch fch = Some r ->
  scale_weights divide cps vis bchv' w bchw' tch' fch' = Some r' ->
  forall t f k, t < T -> f < F -> k < List.length cps -> get3 r NaN t f k = get3 r' NaN t f k.
Proof.
  intros divide cps vis w T F bchv bchw tch fch bchv' bchw' tch' fch' r r' Hv Hw H1 H2 H3 H4 H1' H2' H3' H4' Hr Hr' t f k Ht Hf Hk.
  assert (Ha : has_autos cps).
  { unfold scale_weights in Hr. destruct (corrprod_to_autocorr cps) as [x|] eqn:E; [| discriminate].
    eapply ok_has_autos; eassumption. }
  destruct (scale_weights_pointwise divide cps vis bchv w bchw tch fch T F Hv Hw H1 H2 H3 H4 Ha) as [x [Ex [_ Px]]].
  destruct (scale_weights_pointwise divide cps vis bchv' w bchw' tch' fch' T F Hv Hw H1' H2' H3' H4' Ha) as [y [Ey [_ Py]]].
  assert (x = r) by congruence. assert (y = r') by congruence. subst. now rewrite Px, Py.
Qed.

(* ------------------------------------------------------------------ Van Vleck over any chunking *)
Lemma vv_cell_length : forall table ai cell, List.length (vv_cell table ai cell) = List.length cell.
Proof. intros. unfold vv_cell. now rewrite map_length, seq_length. Qed.

Theorem correct_autocorr_pointwise : forall table cps vis bchv tch fch T F,
  shape3 vis T F (List.length cps) -> total tch = T -> total fch = F -> total bchv = List.length cps ->
  has_autos cps ->
  exists r, correct_autocorr table cps vis bchv tch fch = Some r /\ shape3 r T F (List.length cps) /\
    forall t f b, t < T -> f < F -> b < List.length cps -> get3 r cx_nan t f b = spec_vv table cps vis t f b.
Proof.
  intros table cps vis bchv tch fch T F Hv HT HF HB Hautos.
  destruct (has_autos_ok _ Hautos) as [ai [i1 [i2 Hc]]].
  destruct (auto_lookup _ _ _ _ Hc) as [Hai _].
  unfold correct_autocorr. rewrite Hc.
  set (blk := fun t0 tn f0 fn => map (map (vv_cell table ai)) (block_of vis bchv t0 tn f0 fn)).
  set (fn := fun t f => vv_cell table ai (cellat vis t f)).
  assert (Hrow : forall t0 tn f0 fn' n, In (t0, tn) (offsets 0 tch) -> n < tn ->
            nth n (blk t0 tn f0 fn') [] = map (vv_cell table ai) (nth n (block_of vis bchv t0 tn f0 fn') [])).
  { intros. unfold blk. apply nth_map_in. erewrite block_rows by eassumption. assumption. }
  assert (Hcols : forall t0 tn f0 fn' n, In (t0, tn) (offsets 0 tch) -> In (f0, fn') (offsets 0 fch) ->
            n < tn -> List.length (nth n (blk t0 tn f0 fn') []) = fn').
  { intros. rewrite Hrow by assumption. rewrite map_length. eapply block_cols; eassumption. }
  assert (Hval : forall t0 tn f0 fn' n j, In (t0, tn) (offsets 0 tch) -> In (f0, fn') (offsets 0 fch) ->
            n < tn -> j < fn' -> nth j (nth n (blk t0 tn f0 fn') []) [] = fn (t0 + n) (f0 + j)).
  { intros t0 tn f0 fn' n j Hin Hfin Hn Hj. rewrite Hrow by assumption.
    rewrite (nth_map_in _ _ j [] []) by (erewrite block_cols by eassumption; exact Hj).
    erewrite block_cell by eassumption. reflexivity. }
  eexists. split; [reflexivity |].
  assert (Hcell : forall t f, t < T -> f < F -> cellat (assemble blk tch fch) t f = fn t f).
  { intros t f Ht Hf. unfold cellat. apply (assemble_nth blk fn [] tch fch Hcols Hval); lia. }
  split.
  - split; [rewrite assemble_length; exact HT |]. split.
    + intros t Ht. rewrite (assemble_row_length blk tch fch Hcols) by lia. exact HF.
    + intros t f Ht Hf. rewrite Hcell by assumption. unfold fn. rewrite vv_cell_length.
      destruct Hv as [_ [_ HC]]. now apply HC.
  - intros t f b Ht Hf Hb. rewrite get3_cellat, Hcell by assumption. unfold fn, vv_cell.
    assert (Hl : List.length (cellat vis t f) = List.length cps) by (destruct Hv as [_ [_ HC]]; now apply HC).
    rewrite nth_map_seq by lia. cbn [plus]. rewrite Hai, auto_index_test by assumption.
    unfold spec_vv. rewrite get3_cellat. reflexivity.
Qed.

(* ------------------------------------------------------------------ stored weights *)
Lemma stored_weights_shape : forall w wc T F B, shape3 w T F B -> shape2 wc T F -> shape3 (stored_weights w wc) T F B.
Proof.
  intros w wc T F B [HL [HR HC]] [WL WR]. unfold stored_weights.
  assert (Hrow : forall t, t < T -> nth t (map2 (map2 (fun cell c => map (fun x => emul x c) cell)) w wc) [] =
                  map2 (fun cell c => map (fun x => emul x c) cell) (nth t w []) (nth t wc [])).
  { intros t Ht. apply nth_map2; lia. }
  split; [rewrite map2_length; lia |]. split.
  - intros t Ht. rewrite Hrow by assumption. rewrite map2_length, HR, WR by assumption. apply Nat.min_id.
  - intros t f Ht Hf. unfold cellat. rewrite Hrow by assumption.
    rewrite (nth_map2 _ _ _ f [] [] NaN) by (rewrite ?HR, ?WR by assumption; assumption).
    rewrite map_length. now apply HC.
Qed.

Lemma stored_weights_nth : forall w wc T F B t f b, shape3 w T F B -> shape2 wc T F -> t < T -> f < F -> b < B ->
  get3 (stored_weights w wc) NaN t f b = emul (get3 w NaN t f b) (nth f (nth t wc []) NaN).
Proof.
  intros w wc T F B t f b [HL [HR HC]] [WL WR] Ht Hf Hb. unfold get3, stored_weights.
  rewrite (nth_map2 _ _ _ t [] [] []) by lia.
  rewrite (nth_map2 _ _ _ f [] [] NaN) by (rewrite ?HR, ?WR by assumption; assumption).
  rewrite (nth_map_in _ _ b NaN NaN) by (specialize (HC t f Ht Hf); unfold cellat in HC; lia).
  reflexivity.
Qed.

(* ------------------------------------------------------------------ ChunkStoreVisFlagsWeights *)
Definition vv_vis (vv : option (list node)) (cps : list corrprod) (vis : arr3 cx) (t f b : nat) : cx :=
  match vv with None => get3 vis cx_nan t f b | Some table => spec_vv table cps vis t f b end.

Lemma auto_re_ext : forall cps v v' t f a, (forall p, p < List.length cps -> get3 v cx_nan t f p = get3 v' cx_nan t f p) ->
  auto_re cps v t f a = auto_re cps v' t f a.
Proof.
  intros cps v v' t f a H. unfold auto_re, last_auto. destruct (last_auto_from a cps 0) as [p|] eqn:E; [| reflexivity].
  apply last_auto_from_some in E. destruct E as [_ [Hn _]]. rewrite Nat.sub_0_r in Hn.
  rewrite H; [reflexivity |]. apply nth_error_Some. congruence.
Qed.

Theorem vis_flags_weights_pointwise : forall cps scaled vv vis bchv w bchw wc tch fch T F,
  shape3 vis T F (List.length cps) -> shape3 w T F (List.length cps) -> shape2 wc T F ->
  total tch = T -> total fch = F -> total bchv = List.length cps -> total bchw = List.length cps ->
  has_autos cps ->
  exists r, vis_flags_weights cps scaled vv vis bchv w bchw wc tch fch = Some r /\
    forall t f b, t < T -> f < F -> b < List.length cps ->
      let a1 := auto_re cps (v_vis r) t f (fst (cp_at cps b)) in
      let a2 := auto_re cps (v_vis r) t f (snd (cp_at cps b)) in
      get3 (v_vis r) cx_nan t f b = vv_vis vv cps vis t f b /\
      get3 (v_weights r) NaN t f b = spec_weight scaled a1 a2 (get3 w NaN t f b) (nth f (nth t wc []) NaN) /\
      get3 (v_unscaled r) NaN t f b = spec_unscaled scaled a1 a2 (get3 w NaN t f b) (nth f (nth t wc []) NaN).
Proof.
  intros cps scaled vv vis bchv w bchw wc tch fch T F Hv Hw Hwc HT HF HBv HBw Hautos.
  unfold vis_flags_weights.
  assert (Hsw := stored_weights_shape _ _ _ _ _ Hw Hwc).
  assert (Hvis : exists vis' bchv', match vv with
                   | None => Some (vis, bchv)
                   | Some table => match correct_autocorr table cps vis bchv tch fch with
                                   | Some v => Some (v, [List.length cps]) | None => None end
                   end = Some (vis', bchv') /\ shape3 vis' T F (List.length cps) /\ total bchv' = List.length cps /\
                   forall t f b, t < T -> f < F -> b < List.length cps -> get3 vis' cx_nan t f b = vv_vis vv cps vis t f b).
  { destruct vv as [table|].
    - destruct (correct_autocorr_pointwise table cps vis bchv tch fch T F Hv HT HF HBv Hautos) as [v [Ev [Sv Pv]]].
      exists v, [List.length cps]. rewrite Ev. split; [reflexivity |]. split; [exact Sv |].
      split; [cbn; lia | exact Pv].
    - exists vis, bchv. split; [reflexivity |]. split; [exact Hv |]. split; [exact HBv |]. intros; reflexivity. }
  destruct Hvis as [vis' [bchv' [-> [Sv' [HBv' Pv']]]]].
  destruct scaled.
  - destruct (scale_weights_pointwise false cps vis' bchv' (stored_weights w wc) bchw tch fch T F Sv' Hsw HT HF HBv' HBw Hautos)
      as [u [Eu [_ Pu]]].
    rewrite Eu. eexists. split; [reflexivity |]. cbn [v_vis v_weights v_unscaled].
    intros t f b Ht Hf Hb. split; [now apply Pv' |]. split.
    + unfold spec_weight. now apply (stored_weights_nth w wc T F (List.length cps)).
    + rewrite Pu by assumption. unfold spec_unscaled. rewrite power_scale_mul_spec.
      now rewrite (stored_weights_nth w wc T F (List.length cps)) by assumption.
  - destruct (scale_weights_pointwise true cps vis' bchv' (stored_weights w wc) bchw tch fch T F Sv' Hsw HT HF HBv' HBw Hautos)
      as [s [Es [_ Ps]]].
    rewrite Es. eexists. split; [reflexivity |]. cbn [v_vis v_weights v_unscaled].
    intros t f b Ht Hf Hb. split; [now apply Pv' |]. split.
    + rewrite Ps by assumption. unfold spec_weight. rewrite power_scale_div_spec.
      now rewrite (stored_weights_nth w wc T F (List.length cps)) by assumption.
    + unfold spec_unscaled. now apply (stored_weights_nth w wc T F (List.length cps)).
Qed.

(* a missing autocorrelation is an error, never an answer *)
Lemma vis_flags_weights_missing : forall cps scaled vv vis bchv w bchw wc tch fch,
  ~ has_autos cps -> vis_flags_weights cps scaled vv vis bchv w bchw wc tch fch = None.
Proof.
  intros cps scaled vv vis bchv w bchw wc tch fch H.
  assert (E : corrprod_to_autocorr cps = None).
  { destruct (corrprod_to_autocorr cps) as [r|] eqn:E; [| reflexivity]. exfalso. apply H. eapply ok_has_autos; eassumption. }
  unfold vis_flags_weights, correct_autocorr, scale_weights. rewrite E.
  destruct vv; [reflexivity |]. destruct scaled; reflexivity.
Qed.

(* vanvleck_only_real_autos, spelled out *)
Lemma spec_vv_cross : forall table cps vis t f b, is_auto (cp_at cps b) = false ->
  spec_vv table cps vis t f b = get3 vis cx_nan t f b.
Proof. intros. unfold spec_vv. fold (cp_at cps b). now rewrite H. Qed.
Lemma spec_vv_auto : forall table cps vis t f b, is_auto (cp_at cps b) = true ->
  spec_vv table cps vis t f b = (vv_interp table (fst (get3 vis cx_nan t f b)), Fin 0).
Proof. intros. unfold spec_vv. fold (cp_at cps b). now rewrite H. Qed.
