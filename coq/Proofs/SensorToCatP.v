(* C10 lemmas. *)
From Coq Require Import ZArith List Bool Lia.
From KV Require Import Base.Sx Model.SensorToCat.
Import ListNotations.
Open Scope Z_scope.

(* F14: three dumps ending at 0,2,4 (half-dump units), events a@-1 (inside dump 0) and b@2, greedy initial value g:
   the rule says dump 0 = g (in effect until the first event), the code answers a. *)
Lemma greedy_initial_refuted :
  exists ts vals ends P init greedy,
    per_dump ts vals ends P None (Some init) greedy false = Ok [1; 2; 2] /\
    spec_per_dump ts vals ends P None (Some init) greedy = Some [3; 2; 2].
Proof. exists [-1; 2], [1; 2], [0; 2; 4], 2, 3, [3]. vm_compute. split; reflexivity. Qed.
