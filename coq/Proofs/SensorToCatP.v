(* C10 lemmas. *)
From Coq Require Import ZArith List Bool Lia ZifyBool.
From KV Require Import Base.Sx Model.SensorToCat.
Import ListNotations.
Open Scope Z_scope.

(* F14: three dumps ending at 0,2,4 (half-dump units), events a@-1 (inside dump 0) and b@2, greedy initial value g:
   the rule says dump 0 = g (in effect until the first event), the code answers a. *)
Lemma greedy_initial_refuted :
  exists ts vals ends P init greedy,
    per_dump ts vals ends P None (Some init) greedy false = Ok [1; 2; 2] /\
    spec_per_dump ts vals ends P None (Some init) greedy = Some [3; 2; 2].
Proof. exists [-1; 2], [1; 2], [0; 2; 4], 2, 3, [3]. vm_compute. split; reflexivity. Qed.

(* ====================================================================================
   Part A.  The generator, at the level of (dump index, value) events.
   ==================================================================================== *)

(* value of dump k read off a list of (value, dump) change events: value of the last one at or before k *)
Definition lookupd (dflt : Z) (l : list (Z * Z)) (k : Z) : Z :=
  last (map fst (filter (fun e => snd e <=? k) l)) dflt.

Lemma last_app_single {A} (l : list A) x d : last (l ++ [x]) d = x.
Proof. induction l as [|a l IH]; [reflexivity|]. simpl. destruct (l ++ [x]) eqn:E; [destruct l; discriminate|]. exact IH. Qed.

Lemma last_cons {A} (t : list A) y c : last (y :: t) c = last t y.
Proof.
  revert y c. induction t as [|z t IH]; intros y c; [reflexivity|].
  change (last (z :: t) c = last (z :: t) y). rewrite !IH. reflexivity.
Qed.

Lemma last_in {A} (t : list A) y : In (last t y) (y :: t).
Proof.
  revert y. induction t as [|z t IH]; intro y; [left; reflexivity|].
  rewrite last_cons. right. apply IH.
Qed.

Lemma lookupd_snoc dflt l v d k :
  lookupd dflt (l ++ [(v, d)]) k = if d <=? k then v else lookupd dflt l k.
Proof.
  unfold lookupd. rewrite filter_app. simpl. destruct (d <=? k).
  - rewrite map_app. simpl. apply last_app_single.
  - rewrite app_nil_r. reflexivity.
Qed.

Lemma last_opt_snoc {A} (l : list A) x : last_opt (l ++ [x]) = Some x.
Proof. destruct l; simpl; [reflexivity|]. f_equal. destruct (l ++ [x]) eqn:E; [destruct l; discriminate|]. rewrite <- E. apply last_app_single. Qed.

Lemma last_opt_app_nil {A} (l : list A) : last_opt (l ++ []) = last_opt l.
Proof. rewrite app_nil_r. reflexivity. Qed.

Section Gen.
Variable isg : Z -> bool.

Definition indump (k : Z) (l : list (Z * Z)) : list Z := map snd (filter (fun e => fst e =? k) l).
Definition before (k : Z) (l : list (Z * Z)) : list Z := map snd (filter (fun e => fst e <? k) l).
Definition olist (o : option Z) : list Z := match o with Some c => [c] | None => [] end.
(* the documented rule on (dump, value) events: carried value ++ values inside dump k *)
Definition ivalue (l : list (Z * Z)) (k : Z) : Z := pick isg (olist (last_opt (before k l)) ++ indump k l).
Definition lastg (xs : list Z) : option Z := last_opt (filter isg xs).

Lemma indump_snoc k l d v : indump k (l ++ [(d, v)]) = indump k l ++ (if d =? k then [v] else []).
Proof. unfold indump. rewrite filter_app, map_app. simpl. destruct (d =? k); reflexivity. Qed.
Lemma before_snoc k l d v : before k (l ++ [(d, v)]) = before k l ++ (if d <? k then [v] else []).
Proof. unfold before. rewrite filter_app, map_app. simpl. destruct (d <? k); reflexivity. Qed.

Lemma indump_above k l : Forall (fun e => fst e < k) l -> indump k l = [].
Proof.
  unfold indump. induction 1 as [|e l H _ IH]; [reflexivity|]. simpl.
  destruct (fst e =? k) eqn:E; [lia|]. exact IH.
Qed.
Lemma before_above k l : Forall (fun e => fst e < k) l -> before k l = map snd l.
Proof.
  unfold before. induction 1 as [|e l H _ IH]; [reflexivity|]. simpl.
  destruct (fst e <? k) eqn:E; [|lia]. simpl. f_equal. exact IH.
Qed.

Lemma pick_single x : pick isg [x] = x.
Proof. unfold pick. simpl. destruct (isg x); reflexivity. Qed.

Lemma lastg_snoc xs x : lastg (xs ++ [x]) = if isg x then Some x else lastg xs.
Proof.
  unfold lastg. rewrite filter_app. simpl. destruct (isg x).
  - apply last_opt_snoc.
  - rewrite app_nil_r. reflexivity.
Qed.

Lemma lastg_cons_some c xs g : lastg xs = Some g -> lastg (c :: xs) = Some g.
Proof.
  unfold lastg. simpl. destruct (isg c); [|auto].
  destruct (filter isg xs) as [|y t] eqn:E; [discriminate|].
  unfold last_opt. rewrite last_cons. auto.
Qed.
Lemma lastg_cons_none c xs : lastg xs = None -> lastg (c :: xs) = if isg c then Some c else None.
Proof.
  unfold lastg. simpl. destruct (filter isg xs) eqn:E; [|discriminate]. intros _.
  destruct (isg c); reflexivity.
Qed.
Lemma lastg_olist o xs g : lastg xs = Some g -> lastg (olist o ++ xs) = Some g.
Proof. destruct o; simpl; [apply lastg_cons_some|auto]. Qed.

Notation abound := (abound isg).
Notation astep := (astep isg).

Fixpoint ssorted (l : list Z) : Prop :=
  match l with [] => True | x :: t => Forall (fun y => x < y) t /\ ssorted t end.

Lemma ssorted_snoc l d : ssorted l -> Forall (fun y => y < d) l -> ssorted (l ++ [d]).
Proof.
  induction l as [|x l IH]; simpl; intros Hs Hf.
  - split; constructor.
  - destruct Hs as [Hx Hs]. inversion Hf; subst. split.
    + apply Forall_app. split; [exact Hx|]. constructor; [assumption|constructor].
    + apply IH; assumption.
Qed.

(* invariant after the events `pre` (non-empty, dumps non-decreasing from 0) have been processed *)
Definition Jw (pre : list (Z * Z)) (a : ast) : Prop :=
  match lastg (indump (apd a) pre) with
  | Some gv => av a = gv /\ ad a = apd a /\ alast a = isg (lv a)
  | None => match last_opt (before (apd a) pre) with
            | Some c => av a = c /\
                        (isg c = true -> alast a = false /\
                           (ad a = apd a \/ (ad a < apd a /\ exists o, aout a = o ++ [(c, ad a)])))
            | None => isg (av a) = false
            end
  end.

Definition J (pre : list (Z * Z)) (a : ast) : Prop :=
  pre <> [] /\ last (map fst pre) 0 = apd a /\ last (map snd pre) 0 = lv a /\ 0 <= apd a /\
  Forall (fun e => 0 <= fst e <= apd a) pre /\
  (forall k, 0 <= k < apd a -> lookupd 0 (aout a) k = ivalue pre k) /\
  Forall (fun e => 0 <= snd e < apd a) (aout a) /\ ssorted (map snd (aout a)) /\
  (0 < apd a -> exists v t, aout a = (v, 0) :: t) /\
  Jw pre a.

Lemma lastg_isg xs g : lastg xs = Some g -> isg g = true.
Proof.
  unfold lastg. intro H. assert (In g (filter isg xs)).
  { destruct (filter isg xs) as [|y t] eqn:E; [discriminate|]. simpl in H. inversion H; subst.
    apply last_in. }
  apply filter_In in H0. tauto.
Qed.

End Gen.
Section Gen2.
Variable isg : Z -> bool.

Lemma pre_decomp (pre : list (Z * Z)) : pre <> [] ->
  pre = removelast pre ++ [(last (map fst pre) 0, last (map snd pre) 0)].
Proof.
  intro H. destruct (exists_last H) as [l' [x E]]. subst pre.
  rewrite removelast_last, !map_app. simpl. rewrite !last_app_single. destruct x; reflexivity.
Qed.

Lemma ivalue_above pre pd k : pre <> [] -> Forall (fun e => 0 <= fst e <= pd) pre -> pd < k ->
  ivalue isg pre k = last (map snd pre) 0.
Proof.
  intros Hne Hf Hk. unfold ivalue.
  assert (Hf' : Forall (fun e => fst e < k) pre) by (eapply Forall_impl; [|exact Hf]; simpl; intros; lia).
  rewrite indump_above, before_above by exact Hf'.
  destruct (exists_last Hne) as [l' [[d x] E]]. subst pre. rewrite !map_app. simpl.
  rewrite last_opt_snoc, last_app_single. simpl. apply pick_single.
Qed.

Lemma ivalue_snoc_lt pre cd v k : k < cd -> ivalue isg (pre ++ [(cd, v)]) k = ivalue isg pre k.
Proof.
  intro H. unfold ivalue. rewrite indump_snoc, before_snoc.
  destruct (cd =? k) eqn:E1; [lia|]. destruct (cd <? k) eqn:E2; [lia|]. rewrite !app_nil_r. reflexivity.
Qed.

Lemma group_last pre : pre <> [] ->
  exists xs, indump (last (map fst pre) 0) pre = xs ++ [last (map snd pre) 0].
Proof.
  intro H. destruct (exists_last H) as [l' [[d x] E]]. subst pre. rewrite !map_app. simpl.
  rewrite !last_app_single. rewrite indump_snoc, Z.eqb_refl. eexists. reflexivity.
Qed.

Lemma pick_nogreedy S x : lastg isg (S ++ [x]) = None -> pick isg (S ++ [x]) = x.
Proof. unfold pick, lastg. intros ->. apply last_app_single. Qed.
Lemma pick_greedy S g : lastg isg S = Some g -> pick isg S = g.
Proof. unfold pick, lastg. intros ->. reflexivity. Qed.

Lemma hd0 (out : list (Z * Z)) pd x rest :
  (0 < pd -> exists v t, out = (v, 0) :: t) -> Forall (fun e => 0 <= snd e < pd) out -> 0 <= pd ->
  exists v t, out ++ (x, pd) :: rest = (v, 0) :: t.
Proof.
  intros H1 H2 H3. destruct (Z.eq_dec pd 0) as [->|Hn].
  - destruct out as [|e out]; [simpl; eauto|]. inversion H2; subst. lia.
  - destruct H1 as [v [t ->]]; [lia|]. simpl. eauto.
Qed.

Lemma Forall_snoc_lt (out : list (Z * Z)) pd cd v d :
  Forall (fun e => 0 <= snd e < pd) out -> pd <= d < cd -> 0 <= pd ->
  Forall (fun e => 0 <= snd e < cd) (out ++ [(v, d)]).
Proof.
  intros H1 H2 H3. apply Forall_app. split.
  - eapply Forall_impl; [|exact H1]. simpl. intros. lia.
  - constructor; [simpl; lia|constructor].
Qed.

Lemma ssorted_snoc_lt (out : list (Z * Z)) pd v d :
  ssorted (map snd out) -> Forall (fun e => 0 <= snd e < pd) out -> pd <= d ->
  ssorted (map snd (out ++ [(v, d)])).
Proof.
  intros H1 H2 H3. rewrite map_app. simpl. apply ssorted_snoc; [exact H1|].
  apply Forall_map. eapply Forall_impl; [|exact H2]. simpl. intros. lia.
Qed.

End Gen2.
Section Gen3.
Variable isg : Z -> bool.

Definition Bpost (pre : list (Z * Z)) (a a1 : ast) (cd : Z) : Prop :=
  (forall k, 0 <= k < cd -> lookupd 0 (aout a1) k = ivalue isg pre k) /\
  Forall (fun e => 0 <= snd e < cd) (aout a1) /\ ssorted (map snd (aout a1)) /\
  (exists v t, aout a1 = (v, 0) :: t) /\
  apd a1 = cd /\ lv a1 = lv a /\ av a1 = lv a /\
  (isg (lv a) = true -> ad a1 = cd \/ (ad a1 < cd /\ exists o, aout a1 = o ++ [(lv a, ad a1)])).

Lemma app_assoc1 {A} (l : list A) x y : (l ++ [x]) ++ [y] = l ++ x :: [y].
Proof. rewrite <- app_assoc. reflexivity. Qed.

Ltac bsplit := refine (conj _ (conj _ (conj _ (conj _ (conj _ (conj _ (conj _ _)))))));
  [ | | | | reflexivity | reflexivity | (reflexivity || congruence) | ].

Ltac lk Hlk Hvpd Habove :=
  let k := fresh "k" in let Hk := fresh "Hk" in
  intros k Hk;
  match goal with |- context [apd ?a + 1 <? ?cd] => destruct (apd a + 1 <? cd) eqn:? | _ => idtac end;
  match goal with H : 0 <= apd ?a |- _ =>
  (destruct (Z.lt_trichotomy k (apd a)) as [?|[?|?]];
   [ rewrite <- (Hlk k) by lia | subst k; rewrite Hvpd | rewrite (Habove k) by lia ];
   rewrite ?lookupd_snoc;
   repeat (match goal with |- context [?x <=? ?y] => destruct (x <=? y) eqn:? end; try lia); reflexivity) end.

Ltac finish_same Hlk Hvpd Habove :=
  cbn [aout apd lv av ad]; bsplit;
  [ lk Hlk Hvpd Habove
  | eapply Forall_snoc_lt; eauto; lia
  | eapply ssorted_snoc_lt; eauto; lia
  | apply hd0; auto
  | intros _; right; split; [lia|]; eexists; reflexivity ].

Ltac finish_push Hlk Hvpd Habove :=
  cbn [aout apd lv av ad]; bsplit;
  [ lk Hlk Hvpd Habove
  | match goal with |- context [apd ?a + 1 <? ?cd] => destruct (apd a + 1 <? cd) eqn:?;
    [ eapply Forall_snoc_lt with (pd := apd a + 1); [eapply Forall_snoc_lt; eauto; lia|lia|lia]
    | eapply Forall_snoc_lt; eauto; lia ] end
  | match goal with |- context [apd ?a + 1 <? ?cd] => destruct (apd a + 1 <? cd) eqn:?;
    [ eapply ssorted_snoc_lt with (pd := apd a + 1);
      [ eapply ssorted_snoc_lt; eauto; lia | eapply Forall_snoc_lt; eauto; lia | lia ]
    | eapply ssorted_snoc_lt; eauto; lia ] end
  | match goal with |- context [apd ?a + 1 <? ?cd] => destruct (apd a + 1 <? cd) eqn:? end;
    [rewrite app_assoc1|]; apply hd0; auto
  | intros _; match goal with |- context [apd ?a + 1 <? ?cd] => destruct (apd a + 1 <? cd) eqn:? end;
    [ right; split; [lia|]; eexists; reflexivity | left; lia ] ].

Lemma bound_ok pre a cd : J isg pre a -> apd a < cd -> Bpost pre a (abound isg a cd) cd.
Proof.
  intros [Hne [Hpd [Hlv [H0 [Hf [Hlk [Hfo [Hs [Hhd Hw]]]]]]]]] Hcd.
  assert (Habove : forall k, apd a < k -> ivalue isg pre k = lv a).
  { intros. rewrite <- Hlv. eapply ivalue_above; eauto. }
  destruct (group_last pre Hne) as [xs Hgrp]. rewrite Hpd, Hlv in Hgrp.
  unfold Jw in Hw. unfold abound, Bpost.
  destruct (lastg isg (indump (apd a) pre)) as [gv|] eqn:Eg.
  - destruct Hw as [Hav [Had Hal]]. pose proof (lastg_isg _ _ _ Eg) as Hgg.
    assert (Hvpd : ivalue isg pre (apd a) = gv) by (unfold ivalue; apply pick_greedy, lastg_olist; exact Eg).
    rewrite Hav, Hgg, Had.
    replace ((apd a <=? apd a) && (apd a <? cd)) with true by lia.
    destruct (alast a) eqn:Ela.
    + (* the greedy winner is the last event of the dump *)
      assert (Hgl : gv = lv a).
      { rewrite Hgrp in Eg. rewrite lastg_snoc in Eg. rewrite <- Hal in Eg. congruence. }
      rewrite Hgl in *. clear Hgl. finish_same Hlk Hvpd Habove.
    + finish_push Hlk Hvpd Habove.
  - destruct (last_opt (before (apd a) pre)) as [c|] eqn:Ec.
    + destruct Hw as [Hav Hc]. rewrite Hav.
      destruct (isg c) eqn:Egc.
      * destruct (Hc eq_refl) as [Hal Hpend]. rewrite Hal.
        assert (Hvpd : ivalue isg pre (apd a) = c).
        { unfold ivalue. rewrite Ec. simpl. apply pick_greedy. rewrite (lastg_cons_none _ _ _ Eg), Egc. reflexivity. }
        destruct Hpend as [Had|[Had [o Ho]]].
        -- rewrite Had. replace ((apd a <=? apd a) && (apd a <? cd)) with true by lia.
           finish_push Hlk Hvpd Habove.
        -- replace ((apd a <=? ad a) && (ad a <? cd)) with false by lia.
           assert (Had0 : 0 <= ad a).
           { rewrite Ho in Hfo. apply Forall_app in Hfo. destruct Hfo as [_ Hfo]. inversion Hfo; subst. simpl in *. lia. }
           destruct Hhd as [v0 [t0 Hv0]]; [lia|].
           cbn [aout apd lv av ad]. bsplit.
           ++ rewrite Ho in *. lk Hlk Hvpd Habove.
           ++ destruct (apd a + 1 <? cd) eqn:?.
              ** eapply Forall_snoc_lt with (pd := apd a + 1); [|lia|lia].
                 eapply Forall_impl; [|exact Hfo]. simpl. intros. lia.
              ** eapply Forall_impl; [|exact Hfo]. simpl. intros. lia.
           ++ destruct (apd a + 1 <? cd) eqn:?; [|exact Hs].
              eapply ssorted_snoc_lt; eauto. lia.
           ++ rewrite Hv0. destruct (apd a + 1 <? cd); simpl; eauto.
           ++ intros _. destruct (apd a + 1 <? cd) eqn:?.
              ** right. split; [lia|]. eexists; reflexivity.
              ** left. lia.
      * assert (Hvpd : ivalue isg pre (apd a) = lv a).
        { unfold ivalue. rewrite Ec, Hgrp. simpl olist. rewrite app_assoc. apply pick_nogreedy.
          rewrite <- app_assoc. simpl. rewrite <- Hgrp. rewrite (lastg_cons_none _ _ _ Eg), Egc. reflexivity. }
        replace ((apd a <=? apd a) && (apd a <? cd)) with true by lia.
        finish_same Hlk Hvpd Habove.
    + rewrite Hw.
      assert (Hvpd : ivalue isg pre (apd a) = lv a).
      { unfold ivalue. rewrite Ec, Hgrp. simpl olist. simpl app. apply pick_nogreedy. rewrite <- Hgrp. exact Eg. }
      replace ((apd a <=? apd a) && (apd a <? cd)) with true by lia.
      finish_same Hlk Hvpd Habove.
Qed.
End Gen3.
Section Gen4.
Variable isg : Z -> bool.

Lemma J_step pre a cd v : J isg pre a -> apd a <= cd ->
  J isg (pre ++ [(cd, v)]) (astep isg a cd v true).
Proof.
  intros HJ Hle. unfold astep.
  assert (Hne' : pre ++ [(cd, v)] <> []) by (destruct pre; discriminate).
  destruct (apd a <? cd) eqn:Ecd.
  - pose proof (bound_ok isg pre a cd HJ ltac:(lia)) as HB.
    destruct HJ as [Hne [Hpd [Hlv [H0 [Hf [Hlk [Hfo [Hs [Hhd Hw]]]]]]]]].
    destruct HB as [Bl [Bf [Bs [Bh [Bpd [Blv [Bav Bg]]]]]]].
    set (a1 := abound isg a cd) in *.
    assert (Hfl : Forall (fun e => fst e < cd) pre) by (eapply Forall_impl; [|exact Hf]; simpl; intros; lia).
    assert (Hlast : last_opt (map snd pre) = Some (lv a)).
    { destruct (exists_last Hne) as [l' [[d x] E]]. rewrite E in *. rewrite map_app in *. simpl in *.
      rewrite last_app_single in Hlv. subst x. apply last_opt_snoc. }
    assert (HJw : Jw isg (pre ++ [(cd, v)])
                (if true && isg v then mk_ast cd v true v (apd a1) (aout a1)
                 else mk_ast (ad a1) (av a1) false v (apd a1) (aout a1))).
    { unfold Jw. simpl andb. destruct (isg v) eqn:Ev; cbn [aout apd lv av ad alast]; rewrite Bpd.
      - rewrite indump_snoc, Z.eqb_refl, indump_above by exact Hfl. simpl app.
        unfold lastg. simpl. rewrite Ev. simpl. auto.
      - rewrite indump_snoc, Z.eqb_refl, indump_above by exact Hfl. simpl app.
        unfold lastg. simpl. rewrite Ev. simpl.
        rewrite before_snoc, Z.ltb_irrefl, app_nil_r, before_above by exact Hfl. rewrite Hlast.
        split; [exact Bav|]. intro Hg. split; [reflexivity|]. rewrite ?Bpd. apply Bg. exact Hg. }
    simpl andb in *.
    destruct (isg v) eqn:Ev; cbn [aout apd lv av ad alast] in *; rewrite ?Bpd in *;
    (split; [exact Hne'|]; rewrite !map_app; simpl; rewrite !last_app_single;
     split; [reflexivity|]; split; [reflexivity|]; split; [lia|]; split;
     [apply Forall_app; split; [eapply Forall_impl; [|exact Hf]; simpl; intros; lia|constructor; [simpl; lia|constructor]]|];
     split; [intros k Hk; rewrite ivalue_snoc_lt by lia; apply Bl; exact Hk|];
     split; [exact Bf|]; split; [exact Bs|]; split; [intros _; exact Bh|]; exact HJw).
  - assert (cd = apd a) by lia. subst cd.
    destruct HJ as [Hne [Hpd [Hlv [H0 [Hf [Hlk [Hfo [Hs [Hhd Hw]]]]]]]]].
    assert (HJw : Jw isg (pre ++ [(apd a, v)])
                (if true && isg v then mk_ast (apd a) v true v (apd a) (aout a)
                 else mk_ast (ad a) (av a) false v (apd a) (aout a))).
    { unfold Jw in *. simpl andb. destruct (isg v) eqn:Ev; cbn [aout apd lv av ad alast].
      - rewrite indump_snoc, Z.eqb_refl, lastg_snoc, Ev. auto.
      - rewrite indump_snoc, Z.eqb_refl, lastg_snoc, Ev.
        rewrite before_snoc, Z.ltb_irrefl, app_nil_r.
        destruct (lastg isg (indump (apd a) pre)) as [gv|].
        + destruct Hw as [? [? ?]]. auto.
        + destruct (last_opt (before (apd a) pre)) as [c|]; [|exact Hw].
          destruct Hw as [Hav Hc]. split; [exact Hav|]. intro Hg. destruct (Hc Hg) as [_ Hp]. split; [reflexivity|exact Hp]. }
    simpl andb in *.
    destruct (isg v) eqn:Ev; cbn [aout apd lv av ad alast] in *;
    (split; [exact Hne'|]; rewrite !map_app; simpl; rewrite !last_app_single;
     split; [reflexivity|]; split; [reflexivity|]; split; [lia|]; split;
     [apply Forall_app; split; [exact Hf|constructor; [simpl; lia|constructor]]|];
     split; [intros k Hk; rewrite ivalue_snoc_lt by lia; apply Hlk; exact Hk|];
     split; [exact Hfo|]; split; [exact Hs|]; split; [exact Hhd|]; exact HJw).
Qed.

Notation arun := (arun isg).

Fixpoint nondecr (x : Z) (l : list (Z * Z)) : Prop :=
  match l with [] => True | e :: t => x <= fst e /\ nondecr (fst e) t end.

Lemma J_run l : forall pre a, J isg pre a -> nondecr (apd a) l ->
  J isg (pre ++ l) (arun a l) .
Proof.
  induction l as [|[d v] l IH]; intros pre a HJ Hn; simpl.
  - rewrite app_nil_r. exact HJ.
  - destruct Hn as [Hd Hn]. simpl in *.
    replace (pre ++ (d, v) :: l) with ((pre ++ [(d, v)]) ++ l) by (rewrite <- app_assoc; reflexivity).
    apply IH.
    + apply J_step; assumption.
    + assert (apd (astep isg a d v true) = d); [|congruence].
      unfold astep. destruct (apd a <? d) eqn:E.
      * pose proof (bound_ok isg pre a d HJ ltac:(lia)) as HB. destruct HB as [_ [_ [_ [_ [Bpd _]]]]].
        destruct (true && isg v); cbn [apd]; exact Bpd.
      * destruct (true && isg v); cbn [apd]; lia.
Qed.

Lemma J_init v0 : J isg [(0, v0)] (mk_ast 0 v0 true v0 0 []).
Proof.
  unfold J. cbn [aout apd lv av ad alast]. simpl map. simpl last.
  split; [discriminate|]. split; [reflexivity|]. split; [reflexivity|]. split; [lia|].
  split; [constructor; [simpl; lia|constructor]|]. split; [intros; lia|]. split; [constructor|].
  split; [exact Logic.I|]. split; [intros; lia|].
  - unfold Jw. cbn [aout apd lv av ad alast]. unfold indump, before, lastg. simpl.
    destruct (isg v0) eqn:E; simpl; auto.
Qed.

Notation afinal := (afinal isg).

(* THE rule at the level of dump indices *)
Lemma afinal_rule v0 l N : nondecr 0 l -> Forall (fun e => fst e < N) ((0, v0) :: l) ->
  let out := afinal v0 l N in
  (forall k, 0 <= k < N -> lookupd 0 out k = ivalue isg ((0, v0) :: l) k) /\
  Forall (fun e => 0 <= snd e < N) out /\ ssorted (map snd out) /\ exists v t, out = (v, 0) :: t.
Proof.
  intros Hn Hf. unfold afinal.
  pose proof (J_run l [(0, v0)] _ (J_init v0) Hn) as HJ. simpl app in HJ.
  set (a := arun _ l) in *.
  assert (Hlt : apd a < N).
  { destruct HJ as [Hne [Hpd _]]. rewrite <- Hpd.
    assert (In (last (map fst ((0, v0) :: l)) 0) (map fst ((0, v0) :: l))).
    { simpl map. rewrite last_cons. apply last_in. }
    apply in_map_iff in H. destruct H as [e [He Hin]]. rewrite Forall_forall in Hf. specialize (Hf e Hin). lia. }
  pose proof (bound_ok isg _ a N HJ Hlt) as HB.
  unfold astep. replace (apd a <? N) with true by lia. simpl andb. cbn [aout].
  destruct HB as [Bl [Bf [Bs [Bh _]]]]. auto.
Qed.

End Gen4.

(* the hypotheses of afinal_rule are satisfiable and the statement is not vacuous: g@0, a@0, b@1, a@3 over 5 dumps
   with g greedy: dump 0 is g (greedy beats the later a), a is pushed to dump 1 where the later b wins, ... *)
Example afinal_example :
  let isg := fun v => memZ v [3] in
  nondecr 0 [(0, 1); (1, 2); (3, 1)] /\ Forall (fun e => fst e < 5) ((0, 3) :: [(0, 1); (1, 2); (3, 1)]) /\
  afinal isg 3 [(0, 1); (1, 2); (3, 1)] 5 = [(3, 0); (2, 1); (1, 3)] /\
  map (ivalue isg ((0, 3) :: [(0, 1); (1, 2); (3, 1)])) [0; 1; 2; 3; 4] = [3; 2; 2; 1; 1].
Proof.
  simpl. split; [lia|]. split; [repeat constructor|]. split; reflexivity.
Qed.
Section Sim.
Variable isg : Z -> bool.
Variables (evt vals : list Z).

Lemma nth_upd_eq {A} (l : list A) i v d : (i < length l)%nat -> nth i (upd l i v) d = v.
Proof. revert i. induction l as [|x l IH]; intros [|i] H; simpl in *; try lia; [reflexivity|]. apply IH. lia. Qed.
Lemma nth_upd_neq {A} (l : list A) i j v d : i <> j -> nth i (upd l j v) d = nth i l d.
Proof. revert i j. induction l as [|x l IH]; intros [|i] [|j] H; simpl; try reflexivity; try lia. apply IH. lia. Qed.
Lemma upd_length {A} (l : list A) i v : length (upd l i v) = length l.
Proof. revert i. induction l as [|x l IH]; intros [|i]; simpl; auto. Qed.
Lemma nth_map_lt {A B} (f : A -> B) l i d d' : (i < length l)%nat -> nth i (map f l) d' = f (nth i l d).
Proof. intro H. rewrite (nth_indep _ d' (f d)) by (rewrite map_length; exact H). apply map_nth. Qed.

Definition prs (e : list Z) (o : list nat) := map (fun i => (nth i vals 0, nth i e 0)) o.

Lemma prs_upd e o j v : Forall (fun i => (i < j)%nat) o -> prs (upd e j v) o = prs e o.
Proof.
  intro H. unfold prs. apply map_ext_in. intros i Hi. rewrite Forall_forall in H. specialize (H i Hi).
  rewrite nth_upd_neq by lia. reflexivity.
Qed.
Lemma prs_snoc e o i : prs e (o ++ [i]) = prs e o ++ [(nth i vals 0, nth i e 0)].
Proof. unfold prs. rewrite map_app. reflexivity. Qed.

Definition R (ce : nat) (s : gst) (a : ast) : Prop :=
  (1 <= ce)%nat /\ pd s = apd a /\ (pw s < ce)%nat /\
  nth (pw s) (evm s) 0 = ad a /\ nth (pw s) vals 0 = av a /\
  Nat.eqb (ce - 1) (pw s) = alast a /\
  nth (ce - 1) vals 0 = lv a /\ nth (ce - 1) evt 0 = apd a /\
  (forall i, (ce - 1 <= i)%nat -> nth i (evm s) 0 = nth i evt 0) /\ length (evm s) = length evt /\
  prs (evm s) (out s) = aout a /\ Forall (fun i => (i < ce - 1)%nat) (out s).

Lemma Forall_lt_weaken (o : list nat) a b : (a <= b)%nat -> Forall (fun i => (i < a)%nat) o -> Forall (fun i => (i < b)%nat) o.
Proof. intros H F. eapply Forall_impl; [|exact F]. simpl. intros. lia. Qed.
Lemma Forall_lt_snoc (o : list nat) a b i : (a <= b)%nat -> (i < b)%nat -> Forall (fun i => (i < a)%nat) o -> Forall (fun i => (i < b)%nat) (o ++ [i]).
Proof. intros H Hi F. apply Forall_app. split; [exact (Forall_lt_weaken o a b H F)|constructor; [exact Hi|constructor]]. Qed.

Ltac simfin ce Hun :=
  cbn [pw pd evm out ad av alast lv apd aout];
  rewrite ?upd_length, ?prs_snoc, ?Nat.eqb_refl;
  rewrite ?prs_upd by (try apply Forall_lt_snoc with (a := (ce - 1)%nat); auto; lia);
  rewrite ?nth_upd_eq by lia; rewrite ?nth_upd_neq by lia;
  (split; [lia|]; split; [try reflexivity; try assumption; try lia|]; split; [lia|]; split; [try assumption; try lia|];
   split; [try assumption; try reflexivity|]; split; [try reflexivity; try (apply Nat.eqb_neq; lia)|];
   split; [reflexivity|]; split; [try reflexivity; try lia|];
   split; [intros i Hi; rewrite ?nth_upd_neq by lia; apply Hun; lia|]; split; [assumption|];
   split; [try congruence|]);
  try (eapply Forall_lt_weaken; [|eassumption]; lia);
  try (apply Forall_lt_snoc with (a := (ce - 1)%nat); [lia|lia|]; try assumption);
  try (apply Forall_lt_snoc with (a := (ce - 1)%nat); [lia|lia|]; try assumption).

Lemma sim_step ce s a : R ce s a -> (ce < length evt)%nat -> (length vals + 1 = length evt)%nat ->
  apd a <= nth ce evt 0 ->
  R (S ce) (gstep (map isg vals) s ce (nth ce evt 0))
           (astep isg a (nth ce evt 0) (nth ce vals 0) (ce <? length vals)%nat).
Proof.
  intros [H1 [Hpd [Hpw [Had [Hav [Hal [Hlv [Hes [Hun [Hlen [Hout Hfo]]]]]]]]]]] Hce Hlen2 Hle.
  set (cd := nth ce evt 0) in *.
  assert (Hg1 : nth (pw s) (map isg vals) false = isg (av a)).
  { rewrite <- Hav. apply nth_map_lt. lia. }
  assert (Hg2 : (ce <? length (map isg vals))%nat && nth ce (map isg vals) false
                = (ce <? length vals)%nat && isg (nth ce vals 0)).
  { rewrite map_length. destruct (ce <? length vals)%nat eqn:E; [|reflexivity]. simpl.
    apply nth_map_lt. apply Nat.ltb_lt. exact E. }
  assert (Hese : nth (ce - 1) (evm s) 0 = apd a) by (rewrite Hun; [exact Hes|lia]).
  assert (Hcee : nth ce (evm s) 0 = cd) by (rewrite Hun; [reflexivity|lia]).
  assert (Hesl : (ce - 1 < length (evm s))%nat) by lia.
  assert (HS : (S ce - 1 = ce)%nat) by lia.
  unfold gstep, astep. rewrite Hg2, Hpd. unfold R. rewrite HS.
  destruct (apd a <? cd) eqn:Ecd.
  - unfold abound. rewrite Hg1.
    destruct (isg (av a)) eqn:Eg.
    + rewrite Had.
      destruct (Nat.eqb (ce - 1) (pw s)) eqn:Epw; [apply Nat.eqb_eq in Epw | apply Nat.eqb_neq in Epw]; rewrite <- Hal;
      destruct ((apd a <=? ad a) && (ad a <? cd)) eqn:Ey;
      rewrite ?Hese; try destruct (apd a + 1 <? cd) eqn:Ep;
      destruct ((ce <? length vals)%nat && isg (nth ce vals 0)) eqn:Egc;
      simfin ce Hun.
    + rewrite Hese, Nat.eqb_refl.
      replace ((apd a <=? apd a) && (apd a <? cd)) with true by lia.
      destruct ((ce <? length vals)%nat && isg (nth ce vals 0)) eqn:Egc; simfin ce Hun.
  - assert (Heq : apd a = cd) by lia.
    destruct ((ce <? length vals)%nat && isg (nth ce vals 0)) eqn:Egc; simfin ce Hun.
Qed.
End Sim.
(* ---------- iterating the simulation over the whole event list ---------- *)
Section SimLoop.
Variable isg : Z -> bool.
Variables (evt vals : list Z).

Fixpoint aloop (a : ast) (ce : nat) (rest : list Z) : ast :=
  match rest with
  | [] => a
  | cd :: t => aloop (astep isg a cd (nth ce vals 0) (ce <? length vals)%nat) (S ce) t
  end.

Fixpoint nondecrZ (x : Z) (l : list Z) : Prop :=
  match l with [] => True | y :: t => x <= y /\ nondecrZ y t end.

Lemma skipn_cons_inv {A} (l : list A) : forall ce x t d, skipn ce l = x :: t ->
  nth ce l d = x /\ skipn (S ce) l = t /\ (ce < length l)%nat.
Proof.
  induction l as [|y l IH]; intros [|ce] x t d H; simpl in *; try discriminate.
  - inversion H; subst. repeat split. lia.
  - destruct (IH ce x t d H) as [H1 [H2 H3]]. repeat split; auto. lia.
Qed.

Lemma sim_loop : forall rest ce s a, R evt vals ce s a -> skipn ce evt = rest -> (ce <= length evt)%nat ->
  (length vals + 1 = length evt)%nat -> nondecrZ (apd a) rest ->
  R evt vals (length evt) (gen_loop (map isg vals) s ce rest) (aloop a ce rest).
Proof.
  induction rest as [|cd t IH]; intros ce s a HR Hsk Hce Hlen Hnd; simpl.
  - assert (length evt <= ce)%nat.
    { pose proof (skipn_length ce evt) as Hl. rewrite Hsk in Hl. simpl in Hl. lia. }
    assert (ce = length evt) by lia. subst ce. exact HR.
  - destruct (skipn_cons_inv evt ce cd t 0 Hsk) as [Hnth [Hsk' Hlt]].
    destruct Hnd as [Hle Hnd].
    pose proof (sim_step isg evt vals ce s a HR Hlt Hlen ltac:(rewrite Hnth; exact Hle)) as HR'.
    rewrite Hnth in HR'.
    apply IH; auto.
    destruct HR' as [_ [_ [_ [_ [_ [_ [_ [Hes _]]]]]]]].
    replace (S ce - 1)%nat with ce in Hes by lia. rewrite Hnth in Hes. rewrite <- Hes. exact Hnd.
Qed.

(* the abstract loop indexed by event position = the fold over (dump, value) pairs + terminator *)
Lemma aloop_arun N : forall l ce a, skipn ce vals = map snd l ->
  aloop a ce (map fst l ++ [N]) = astep isg (arun isg a l) N 0 false.
Proof.
  induction l as [|[d v] l IH]; intros ce a Hsk; simpl.
  - assert (length vals <= ce)%nat.
    { pose proof (skipn_length ce vals) as Hl. rewrite Hsk in Hl. simpl in Hl. lia. }
    rewrite nth_overflow by lia. replace (ce <? length vals)%nat with false; [reflexivity|].
    symmetry. apply Nat.ltb_ge. lia.
  - simpl in Hsk. destruct (skipn_cons_inv vals ce v (map snd l) 0 Hsk) as [Hnth [Hsk' Hlt]].
    rewrite Hnth. replace (ce <? length vals)%nat with true by (symmetry; apply Nat.ltb_lt; exact Hlt).
    apply IH. exact Hsk'.
Qed.
End SimLoop.
Lemma nondecrZ_map x (l : list (Z * Z)) N : nondecr x l -> Forall (fun e => fst e < N) l -> x <= N ->
  nondecrZ x (map fst l ++ [N]).
Proof.
  revert x. induction l as [|[d v] l IH]; intros x Hn Hf Hx; simpl.
  - split; [exact Hx|exact Logic.I].
  - destruct Hn as [Hd Hn]. inversion Hf; subst. simpl in *. split; [exact Hd|]. apply IH; auto. lia.
Qed.

(* the index-based model of _single_event_per_dump (nth / upd on the mutated events array) yields exactly the
   (value, final dump) pairs of the cached-look-up machine *)
Lemma gen_index_eq (isg : Z -> bool) v0 (l : list (Z * Z)) N :
  nondecr 0 l -> Forall (fun e => fst e < N) ((0, v0) :: l) ->
  let evt := 0 :: map fst l ++ [N] in
  let vals := v0 :: map snd l in
  let ce := single_event_per_dump evt (map isg vals) in
  map (fun i => (nth i vals 0, nth i (snd ce) 0)) (fst ce) = afinal isg v0 l N.
Proof.
  intros Hn Hf evt vals. unfold single_event_per_dump. cbv zeta.
  set (g := map isg vals). set (s0 := mk_gst 0 0 evt []).
  assert (Hs : gen_loop g s0 0 evt = gen_loop g s0 1 (map fst l ++ [N])).
  { change (gen_loop g s0 0 (0 :: (map fst l ++ [N])) = gen_loop g s0 1 (map fst l ++ [N])).
    simpl gen_loop. f_equal. unfold gstep. simpl.
    destruct (isg v0); reflexivity. }
  rewrite Hs. simpl fst. simpl snd.
  set (a0 := mk_ast 0 v0 true v0 0 []).
  assert (HR : R evt vals 1 s0 a0).
  { unfold R, s0, a0. cbn [pw pd evm out ad av alast lv apd aout]. simpl.
    repeat split; try lia; try reflexivity; constructor. }
  inversion Hf as [|? ? H0N Hf']; subst. simpl in H0N.
  pose proof (sim_loop isg evt vals (map fst l ++ [N]) 1 s0 a0 HR eq_refl) as HL.
  assert (Hlen : (length vals + 1 = length evt)%nat).
  { unfold vals, evt. simpl. rewrite app_length, !map_length. simpl. lia. }
  specialize (HL ltac:(unfold evt; simpl; lia) Hlen (nondecrZ_map 0 l N Hn Hf' ltac:(simpl; lia))).
  destruct HL as [_ [_ [_ [_ [_ [_ [_ [_ [_ [_ [Hp _]]]]]]]]]]].
  unfold prs in Hp. fold g in Hp. rewrite Hp.
  rewrite (aloop_arun isg vals N l 1 a0 eq_refl). reflexivity.
Qed.

(* THE generator theorem, about the index-based model *)
Lemma generator_rule (isg : Z -> bool) v0 (l : list (Z * Z)) N :
  nondecr 0 l -> Forall (fun e => fst e < N) ((0, v0) :: l) ->
  let evt := 0 :: map fst l ++ [N] in
  let vals := v0 :: map snd l in
  let ce := single_event_per_dump evt (map isg vals) in
  let out := map (fun i => (nth i vals 0, nth i (snd ce) 0)) (fst ce) in
  (forall k, 0 <= k < N -> lookupd 0 out k = ivalue isg ((0, v0) :: l) k) /\
  Forall (fun e => 0 <= snd e < N) out /\ ssorted (map snd out) /\ exists v t, out = (v, 0) :: t.
Proof.
  intros Hn Hf evt vals ce out. unfold out, ce, evt, vals.
  rewrite (gen_index_eq isg v0 l N Hn Hf). apply afinal_rule; assumption.
Qed.
(* ====================================================================================
   Part B.  Repeat removal and the CategoricalData look-up.
   ==================================================================================== *)
Lemma lookupd_cons p v d t k : lookupd p ((v, d) :: t) k = if d <=? k then lookupd v t k else lookupd p t k.
Proof. unfold lookupd. simpl. destruct (d <=? k); [|reflexivity]. simpl map. apply last_cons. Qed.

Lemma lookupd_above p t k : Forall (fun y => k < y) (map snd t) -> lookupd p t k = p.
Proof.
  induction t as [|[v d] t IH]; intro H; [reflexivity|]. simpl in H. inversion H; subst.
  rewrite lookupd_cons. destruct (d <=? k) eqn:E; [lia|]. apply IH. assumption.
Qed.

Lemma cf_Forall (P : Z -> Prop) t : forall prev, Forall P (map snd t) -> Forall P (map snd (changes_from prev t)).
Proof.
  induction t as [|[v d] t IH]; intros prev H; [constructor|]. simpl in *. inversion H; subst.
  destruct (v =? prev); [apply IH; assumption|]. simpl. constructor; [assumption|apply IH; assumption].
Qed.

Lemma cf_ssorted t : forall prev, ssorted (map snd t) -> ssorted (map snd (changes_from prev t)).
Proof.
  induction t as [|[v d] t IH]; intros prev H; [exact Logic.I|]. simpl in *. destruct H as [Hf Hs].
  destruct (v =? prev); [apply IH; assumption|]. simpl. split; [apply cf_Forall; assumption|apply IH; assumption].
Qed.

Lemma Forall_gt_trans (l : list Z) d k : Forall (fun y => d < y) l -> k < d -> Forall (fun y => k < y) l.
Proof. intros H Hk. eapply Forall_impl; [|exact H]. simpl. intros. lia. Qed.

Lemma cf_lookup t : forall prev k, ssorted (map snd t) ->
  lookupd prev (changes_from prev t) k = lookupd prev t k.
Proof.
  induction t as [|[v d] t IH]; intros prev k H; [reflexivity|]. simpl in *. destruct H as [Hf Hs].
  rewrite lookupd_cons. destruct (v =? prev) eqn:E.
  - assert (v = prev) by lia. subst v. rewrite IH by assumption. destruct (d <=? k); reflexivity.
  - rewrite lookupd_cons. destruct (d <=? k) eqn:Ek; [apply IH; assumption|].
    rewrite !lookupd_above; auto.
    + eapply Forall_gt_trans; [exact Hf|lia].
    + apply cf_Forall. eapply Forall_gt_trans; [exact Hf|lia].
Qed.

Lemma rr_lookup ps k : ssorted (map snd ps) -> lookupd 0 (remove_repeats ps) k = lookupd 0 ps k.
Proof.
  destruct ps as [|[v d] t]; [reflexivity|]. simpl. intros [Hf Hs].
  rewrite !lookupd_cons. destruct (d <=? k) eqn:E; [apply cf_lookup; assumption|].
  rewrite !lookupd_above; auto.
  - eapply Forall_gt_trans; [exact Hf|lia].
  - apply cf_Forall. eapply Forall_gt_trans; [exact Hf|lia].
Qed.

Lemma rr_ssorted ps : ssorted (map snd ps) -> ssorted (map snd (remove_repeats ps)).
Proof.
  destruct ps as [|[v d] t]; [auto|]. simpl. intros [Hf Hs]. split; [apply cf_Forall|apply cf_ssorted]; assumption.
Qed.
Lemma rr_Forall (P : Z -> Prop) ps : Forall P (map snd ps) -> Forall P (map snd (remove_repeats ps)).
Proof.
  destruct ps as [|[v d] t]; [auto|]. simpl. intro H. inversion H; subst. constructor; [assumption|apply cf_Forall; assumption].
Qed.
Lemma rr_head ps v t : ps = (v, 0) :: t -> exists t', remove_repeats ps = (v, 0) :: t'.
Proof. intros ->. simpl. eauto. Qed.

(* no two consecutive values are equal *)
Fixpoint norep_from (prev : Z) (l : list Z) : Prop :=
  match l with [] => True | v :: t => v <> prev /\ norep_from v t end.
Definition norep (l : list Z) : Prop := match l with [] => True | v :: t => norep_from v t end.

Lemma cf_norep t : forall prev, norep_from prev (map fst (changes_from prev t)).
Proof.
  induction t as [|[v d] t IH]; intro prev; [exact Logic.I|]. simpl.
  destruct (v =? prev) eqn:E.
  - assert (v = prev) by lia. subst. apply IH.
  - simpl. split; [lia|apply IH].
Qed.
Lemma rr_norep ps : norep (map fst (remove_repeats ps)).
Proof. destruct ps as [|[v d] t]; [exact Logic.I|]. simpl. apply cf_norep. Qed.

(* ---------- unique_in_order / indices ---------- *)
Lemma memZ_In v l : memZ v l = true <-> In v l.
Proof.
  unfold memZ. rewrite existsb_exists. split.
  - intros [x [Hx He]]. assert (v = x) by lia. subst. exact Hx.
  - intro H. exists v. split; [exact H|lia].
Qed.

Lemma uio_acc l : forall acc v, In v acc \/ In v l ->
  In v (fold_left (fun acc v => if memZ v acc then acc else acc ++ [v]) l acc).
Proof.
  induction l as [|x l IH]; intros acc v H; simpl.
  - destruct H as [H|[]]. exact H.
  - apply IH. destruct H as [H|[H|H]].
    + left. destruct (memZ x acc); [exact H|apply in_or_app; left; exact H].
    + subst x. left. destruct (memZ v acc) eqn:E; [apply memZ_In; exact E|apply in_or_app; right; left; reflexivity].
    + right. exact H.
Qed.
Lemma uio_In l v : In v l -> In v (unique_in_order l).
Proof. intro H. apply uio_acc. right. exact H. Qed.

Lemma index_of_nth v u : In v u -> exists j, index_of v u = Some j /\ nth j u 0 = v.
Proof.
  induction u as [|x u IH]; intro H; [destruct H|]. simpl.
  destruct (x =? v) eqn:E.
  - exists O. split; [reflexivity|simpl; lia].
  - destruct H as [H|H]; [lia|]. destruct (IH H) as [j [Hj Hn]]. exists (S j). rewrite Hj. split; [reflexivity|exact Hn].
Qed.

Lemma cat_value vs i : (i < length vs)%nat ->
  let u := unique_in_order vs in
  nth (nth i (map (fun v => match index_of v u with Some i => i | None => O end) vs) O) u 0 = nth i vs 0.
Proof.
  intros Hi u.
  rewrite (nth_map_lt (fun v => match index_of v u with Some i => i | None => O end) vs i 0 O Hi).
  destruct (index_of_nth (nth i vs 0) u (uio_In vs _ (nth_In vs 0 Hi))) as [j [Hj Hn]].
  rewrite Hj. exact Hn.
Qed.

(* ---------- data[:] ---------- *)
Lemma ss_right_app_big a N k : k < N -> ss_right (a ++ [N]) k = ss_right a k.
Proof.
  intro H. induction a as [|x a IH]; simpl.
  - destruct (N <=? k) eqn:E; [lia|reflexivity].
  - destruct (x <=? k); [rewrite IH; reflexivity|reflexivity].
Qed.
Lemma ss_right_le a k : (ss_right a k <= length a)%nat.
Proof. induction a as [|x a IH]; simpl; [lia|]. destruct (x <=? k); simpl; lia. Qed.

Lemma lookup_ss ps : forall dflt k, ssorted (map snd ps) ->
  lookupd dflt ps k = match ss_right (map snd ps) k with O => dflt | S j => nth j (map fst ps) 0 end.
Proof.
  induction ps as [|[v d] t IH]; intros dflt k H; [reflexivity|]. simpl in H. destruct H as [Hf Hs].
  rewrite lookupd_cons. simpl. destruct (d <=? k) eqn:E.
  - rewrite (IH v k Hs). destruct (ss_right (map snd t) k); reflexivity.
  - apply lookupd_above. eapply Forall_gt_trans; [exact Hf|lia].
Qed.

Lemma res_all_map {A} (f : nat -> res A) (g : nat -> A) n : forall s,
  (forall i, (s <= i < s + n)%nat -> f i = Ok (g i)) -> res_all (map f (seq s n)) = Ok (map g (seq s n)).
Proof.
  induction n as [|n IH]; intros s H; [reflexivity|]. simpl. rewrite (H s) by lia.
  rewrite (IH (S s)); [reflexivity|]. intros i Hi. apply H. lia.
Qed.

Definition zrange (N : Z) : list Z := map Z.of_nat (seq 0 (Z.to_nat N)).

Lemma cat_all_lookup ps N v0 t : ps = (v0, 0) :: t -> ssorted (map snd ps) ->
  Forall (fun d => 0 <= d < N) (map snd ps) ->
  cat_all (cat_of (map fst ps) (map snd ps ++ [N])) = Ok (map (lookupd 0 ps) (zrange N)).
Proof.
  intros Hps Hs Hf. unfold cat_all. cbn [cevents cat_of].
  rewrite last_app_single. unfold zrange. rewrite map_map.
  assert (HN : 0 < N). { rewrite Hps in Hf. simpl in Hf. inversion Hf; subst. lia. }
  apply res_all_map. intros i Hi. unfold cat_lookup. cbn [cevents indices unique_values cat_of].
  assert (Hk : 0 <= Z.of_nat i < N) by lia.
  rewrite ss_right_app_big by lia. rewrite map_length.
  pose proof (ss_right_le (map snd ps) (Z.of_nat i)) as Hle. rewrite map_length in Hle.
  pose proof (lookup_ss ps 0 (Z.of_nat i) Hs) as Hl.
  destruct (ss_right (map snd ps) (Z.of_nat i)) as [|j] eqn:Ej.
  - exfalso. rewrite Hps in Ej. simpl in Ej. destruct (0 <=? Z.of_nat i) eqn:E; [discriminate|lia].
  - replace (Z.of_nat (S j) - 1) with (Z.of_nat j) by lia.
    destruct ((Z.of_nat j <? 0) || (Z.of_nat (length (map fst ps)) <=? Z.of_nat j)) eqn:E.
    + rewrite map_length in E. lia.
    + rewrite Nat2Z.id. rewrite cat_value by (rewrite map_length; lia). rewrite Hl. reflexivity.
Qed.
(* ====================================================================================
   Part C.  Everything after the preparation of the event list (lines 753-770 + CategoricalData).
   ==================================================================================== *)
Definition wf_result (v e : list Z) (N : Z) (allow_repeats : bool) : Prop :=
  (exists t, e = 0 :: t) /\ ssorted e /\ last e 0 = N /\ length e = S (length v) /\
  (allow_repeats = false -> norep v).

Lemma zrange_bounds N k : In k (zrange N) -> 0 <= k < N.
Proof.
  unfold zrange. intro H. apply in_map_iff in H. destruct H as [i [Hi Hin]]. apply in_seq in Hin. lia.
Qed.

Lemma tail_rule (greedy : list Z) (ar : bool) v0 (l : list (Z * Z)) N :
  nondecr 0 l -> Forall (fun e => fst e < N) ((0, v0) :: l) ->
  let isg := fun v => memZ v greedy in
  let ve := s2c_tail (v0 :: map snd l) (0 :: map fst l) N greedy ar in
  cat_all (cat_of (fst ve) (snd ve)) = Ok (map (ivalue isg ((0, v0) :: l)) (zrange N)) /\
  wf_result (fst ve) (snd ve) N ar.
Proof.
  intros Hn Hf isg. unfold s2c_tail.
  pose proof (generator_rule isg v0 l N Hn Hf) as HG. cbv zeta in HG.
  change ((0 :: map fst l) ++ [N]) with (0 :: map fst l ++ [N]).
  fold isg.
  destruct (single_event_per_dump (0 :: map fst l ++ [N]) (map isg (v0 :: map snd l))) as [c e] eqn:Ece.
  simpl fst in HG. simpl snd in HG.
  set (out := map (fun i => (nth i (v0 :: map snd l) 0, nth i e 0)) c) in *.
  destruct HG as [Hlk [Hfo [Hs [vh [th Hh]]]]].
  set (ps := if ar then out else remove_repeats out).
  assert (Hps : (forall k, 0 <= k < N -> lookupd 0 ps k = ivalue isg ((0, v0) :: l) k) /\
                Forall (fun d => 0 <= d < N) (map snd ps) /\ ssorted (map snd ps) /\
                (exists t', ps = (vh, 0) :: t') /\ (ar = false -> norep (map fst ps))).
  { assert (Hfo' : Forall (fun d => 0 <= d < N) (map snd out)) by (apply Forall_map; exact Hfo).
    unfold ps. destruct ar.
    - repeat split; auto; [eauto|discriminate].
    - split; [intros k Hk; rewrite rr_lookup by exact Hs; apply Hlk; exact Hk|].
      split; [apply rr_Forall; exact Hfo'|]. split; [apply rr_ssorted; exact Hs|].
      split; [eapply rr_head; exact Hh|]. intros _. apply rr_norep. }
  destruct Hps as [Plk [Pfo [Pss [[t' Ph] Pnr]]]].
  cbv zeta. simpl fst. simpl snd. split.
  - rewrite (cat_all_lookup ps N vh t' Ph Pss Pfo). f_equal. apply map_ext_in.
    intros k Hk. apply Plk. apply zrange_bounds. exact Hk.
  - unfold wf_result. split; [rewrite Ph; simpl; eauto|].
    split; [apply ssorted_snoc; [exact Pss|eapply Forall_impl; [|exact Pfo]; simpl; intros; lia]|].
    split; [apply last_app_single|]. split; [rewrite app_length, !map_length; simpl; lia|exact Pnr].
Qed.
(* ====================================================================================
   Part D.  The preparation of the event list (lines 714-752).
   ==================================================================================== *)
Section TW.
Context {A : Type}.
Fixpoint tw (f : A -> bool) (l : list A) : list A :=
  match l with [] => [] | x :: t => if f x then x :: tw f t else [] end.
Fixpoint dw (f : A -> bool) (l : list A) : list A :=
  match l with [] => [] | x :: t => if f x then dw f t else x :: t end.
Lemma tw_dw f l : l = tw f l ++ dw f l.
Proof. induction l as [|x l IH]; [reflexivity|]. simpl. destruct (f x); [simpl; f_equal; exact IH|reflexivity]. Qed.
Lemma tw_Forall f l : Forall (fun x => f x = true) (tw f l).
Proof. induction l as [|x l IH]; [constructor|]. simpl. destruct (f x) eqn:E; [constructor; assumption|constructor]. Qed.
Lemma dw_head f l : match dw f l with [] => True | x :: _ => f x = false end.
Proof. induction l as [|x l IH]; [exact Logic.I|]. simpl. destruct (f x) eqn:E; [exact IH|exact E]. Qed.
Lemma firstn_tw {B} (g : A -> B) f l : firstn (length (tw f l)) (map g l) = map g (tw f l).
Proof. induction l as [|x l IH]; [reflexivity|]. simpl. destruct (f x); [simpl; f_equal; exact IH|reflexivity]. Qed.
Lemma skipn_tw {B} (g : A -> B) f l : skipn (length (tw f l)) (map g l) = map g (dw f l).
Proof. induction l as [|x l IH]; [reflexivity|]. simpl. destruct (f x); [simpl; exact IH|reflexivity]. Qed.
End TW.

Lemma ss_right_tw (dv : list (Z * Z)) v : ss_right (map fst dv) v = length (tw (fun p => fst p <=? v) dv).
Proof. induction dv as [|x l IH]; [reflexivity|]. simpl. destruct (fst x <=? v); [simpl; f_equal; exact IH|reflexivity]. Qed.
Lemma ss_left_tw (dv : list (Z * Z)) v : ss_left (map fst dv) v = length (tw (fun p => fst p <? v) dv).
Proof. induction dv as [|x l IH]; [reflexivity|]. simpl. destruct (fst x <? v); [simpl; f_equal; exact IH|reflexivity]. Qed.

Lemma map_fst_combine {A B} (a : list A) (b : list B) : length a = length b -> map fst (combine a b) = a.
Proof. revert b. induction a as [|x a IH]; intros [|y b] H; simpl in *; try discriminate; [reflexivity|]. f_equal. apply IH. lia. Qed.
Lemma map_snd_combine {A B} (a : list A) (b : list B) : length a = length b -> map snd (combine a b) = b.
Proof. revert b. induction a as [|x a IH]; intros [|y b] H; simpl in *; try discriminate; [reflexivity|]. f_equal. apply IH. lia. Qed.

Lemma upd_app {A} (a : list A) x b v : upd (a ++ x :: b) (length a) v = a ++ v :: b.
Proof. induction a as [|y a IH]; [reflexivity|]. simpl. f_equal. exact IH. Qed.
Lemma ss_left_app a b v : Forall (fun x => x < v) a -> ss_left (a ++ b) v = (length a + ss_left b v)%nat.
Proof.
  induction 1 as [|x a Hx _ IH]; [reflexivity|]. simpl. destruct (x <? v) eqn:E; [|lia]. rewrite IH. reflexivity.
Qed.
Lemma slice_app {A} (a c : list A) n : slice (length a) (length a + n) (a ++ c) = firstn n c.
Proof.
  unfold slice. rewrite skipn_app, skipn_all, Nat.sub_diag. simpl. f_equal. lia.
Qed.

Definition kept (dv : list (Z * Z)) (N : Z) : list (Z * Z) :=
  let pri := tw (fun p => fst p <=? -1) dv in
  let mid := tw (fun p => fst p <? N) (dw (fun p => fst p <=? -1) dv) in
  match last_opt pri with Some p => (0, snd p) :: mid | None => mid end.

Lemma prep_slices (ds tvals : list Z) N : 0 < N -> length ds = length tvals ->
  let dv := combine ds tvals in
  let fp0 := ss_right ds (-1) in
  let fe := if (0 <? fp0)%nat then ((fp0 - 1)%nat, upd ds (fp0 - 1) 0) else (fp0, ds) in
  let opl := ss_left (snd fe) N in
  slice (fst fe) opl (snd fe) = map fst (kept dv N) /\ slice (fst fe) opl tvals = map snd (kept dv N).
Proof.
  intros HN Hlen dv fp0 fe opl.
  assert (Hds : ds = map fst dv) by (symmetry; apply map_fst_combine; exact Hlen).
  assert (Htv : tvals = map snd dv) by (symmetry; apply map_snd_combine; exact Hlen).
  clearbody dv. subst ds tvals. clear Hlen.
  set (f1 := fun p : Z * Z => fst p <=? -1) in *. set (f2 := fun p : Z * Z => fst p <? N) in *.
  assert (Hfp : fp0 = length (tw f1 dv)) by (unfold fp0; apply ss_right_tw).
  unfold kept. fold f1 f2.
  destruct (tw f1 dv) as [|p0 pri0] eqn:Epri.
  - (* no prior event *)
    simpl in Hfp. subst opl fe. cbv zeta. rewrite Hfp. simpl.
    assert (Hdw : dw f1 dv = dv).
    { pose proof (tw_dw f1 dv) as H. rewrite Epri in H. simpl in H. symmetry. exact H. }
    rewrite Hdw. unfold slice. simpl. rewrite Nat.sub_0_r.
    rewrite ss_left_tw. fold f2. rewrite !firstn_tw. split; reflexivity.
  - (* some prior event: the last one moves to dump 0 *)
    assert (Hne : p0 :: pri0 <> []) by discriminate.
    destruct (exists_last Hne) as [pa [pl Epl]].
    assert (Hlo : last_opt (p0 :: pri0) = Some pl) by (rewrite Epl; apply last_opt_snoc).
    rewrite Hlo.
    assert (Hdv : dv = pa ++ pl :: dw f1 dv).
    { pose proof (tw_dw f1 dv) as H. rewrite Epri, Epl in H. rewrite <- app_assoc in H. exact H. }
    assert (Hfp' : fp0 = S (length pa)).
    { rewrite Hfp, Epl, app_length. simpl. lia. }
    subst opl fe. cbv zeta. replace (0 <? fp0)%nat with true by (symmetry; apply Nat.ltb_lt; lia).
    simpl fst. simpl snd. replace (fp0 - 1)%nat with (length pa) by lia.
    set (rest := dw f1 dv) in *.
    assert (Hds' : map fst dv = map fst pa ++ fst pl :: map fst rest).
    { rewrite Hdv at 1. rewrite map_app. reflexivity. }
    assert (Htv' : map snd dv = map snd pa ++ snd pl :: map snd rest).
    { rewrite Hdv at 1. rewrite map_app. reflexivity. }
    assert (Hupd : upd (map fst dv) (length pa) 0 = map fst pa ++ 0 :: map fst rest).
    { rewrite Hds'. rewrite <- (map_length fst pa). apply upd_app. }
    rewrite Hupd.
    assert (Hpri : Forall (fun x => x < N) (map fst pa)).
    { apply Forall_map. pose proof (tw_Forall f1 dv) as H. rewrite Epri, Epl in H.
      apply Forall_app in H. destruct H as [H _]. eapply Forall_impl; [|exact H]. unfold f1. simpl. intros. lia. }
    assert (Hopl : ss_left (map fst pa ++ 0 :: map fst rest) N = (length pa + S (length (tw f2 rest)))%nat).
    { rewrite (ss_left_app (map fst pa) (0 :: map fst rest) N Hpri), map_length.
      simpl ss_left. replace (0 <? N) with true by lia. rewrite ss_left_tw. reflexivity. }
    rewrite Hopl. split.
    + rewrite <- (map_length fst pa) at 1 2. rewrite slice_app. simpl firstn. rewrite firstn_tw. reflexivity.
    + rewrite Htv'. rewrite <- (map_length snd pa) at 1 2. rewrite slice_app. simpl firstn. rewrite firstn_tw. reflexivity.
Qed.
Definition Dmap (ends' : list Z) (t : Z) : Z := Z.of_nat (ss_left ends' t) - 1.

(* the event list handed to the generator, as (dump, value) pairs *)
Definition with_init (K : list (Z * Z)) (init : option Z) : list (Z * Z) :=
  match init with
  | Some i => match K with
              | [] => [(0, i)]
              | (d, _) :: _ => if d =? 0 then K else (0, i) :: K
              end
  | None => K
  end.

Lemma map_slice {A B} (f : A -> B) a b l : map f (slice a b l) = slice a b (map f l).
Proof. unfold slice. rewrite skipn_map, firstn_map. reflexivity. Qed.

Lemma prep_kept ts vals e0 er P tr init : length ts = length vals ->
  let ends := e0 :: er in
  let N := Z.of_nat (length ends) in
  let dv := combine (map (Dmap ((e0 - P) :: ends)) ts) (map (app_tr tr) vals) in
  s2c_prep ts vals ends P tr init =
    match with_init (kept dv N) init with
    | [] => None
    | (_, v) :: t => Some (v :: map snd t, 0 :: map fst t)
    end.
Proof.
  intros Hlen. cbv zeta. unfold s2c_prep. lazy iota beta.
  set (ends := e0 :: er). set (N := Z.of_nat (length ends)).
  change (map (fun t => Z.of_nat (ss_left ((e0 - P) :: ends) t) - 1) ts) with (map (Dmap ((e0 - P) :: ends)) ts).
  set (dv := combine (map (Dmap ((e0 - P) :: ends)) ts) (map (app_tr tr) vals)).
  set (ds := map (Dmap ((e0 - P) :: ends)) ts) in *.
  assert (HN : 0 < N) by (unfold N, ends; simpl length; lia).
  assert (Hl2 : length ds = length (map (app_tr tr) vals)) by (unfold ds; rewrite !map_length; exact Hlen).
  pose proof (prep_slices ds (map (app_tr tr) vals) N HN Hl2) as HS. cbv zeta in HS. fold dv in HS.
  destruct (0 <? ss_right ds (-1))%nat; simpl fst in HS; simpl snd in HS; destruct HS as [HS1 HS2];
  rewrite map_slice, HS1, HS2; unfold with_init;
  (destruct (kept dv N) as [|[d v] K']; simpl; destruct init; try reflexivity; destruct (d =? 0); reflexivity).
Qed.
(* ---------- sorted (dump, value) lists: prior / inside / late ---------- *)
Lemma nondecr_ge x (l : list (Z * Z)) : nondecr x l -> Forall (fun p => x <= fst p) l.
Proof.
  revert x. induction l as [|a l IH]; intros x H; [constructor|]. destruct H as [H1 H2].
  constructor; [exact H1|]. eapply Forall_impl; [|apply IH; exact H2]. simpl. intros. lia.
Qed.
Lemma nondecr_raise x y (l : list (Z * Z)) : nondecr x l -> Forall (fun p => y <= fst p) l -> nondecr y l.
Proof. destruct l as [|a l]; [auto|]. intros [H1 H2] Hf. inversion Hf; subst. split; assumption. Qed.
Lemma tw_sub {A} (P : A -> Prop) f l : Forall P l -> Forall P (tw f l).
Proof. induction 1 as [|a l Ha _ IH]; [constructor|]. simpl. destruct (f a); [constructor; assumption|constructor]. Qed.
Lemma dw_sub {A} (P : A -> Prop) f l : Forall P l -> Forall P (dw f l).
Proof. induction 1 as [|a l Ha Hl IH]; [constructor|]. simpl. destruct (f a); [exact IH|constructor; assumption]. Qed.
Lemma tw_nondecr f (l : list (Z * Z)) : forall x, nondecr x l -> nondecr x (tw f l).
Proof. induction l as [|a l IH]; intros x H; [exact Logic.I|]. destruct H as [H1 H2]. simpl. destruct (f a); [split; [exact H1|apply IH; exact H2]|exact Logic.I]. Qed.
Lemma dw_nondecr f (l : list (Z * Z)) : forall x, nondecr x l -> nondecr x (dw f l).
Proof.
  induction l as [|a l IH]; intros x H; [exact Logic.I|]. destruct H as [H1 H2]. simpl. destruct (f a).
  - apply nondecr_raise with (x := fst a); [apply IH; exact H2|].
    eapply Forall_impl; [|apply nondecr_ge; apply IH; exact H2]. simpl. intros. lia.
  - split; assumption.
Qed.
Lemma dw_sorted_gt (l : list (Z * Z)) v : forall x, nondecr x l -> Forall (fun p => v < fst p) (dw (fun p => fst p <=? v) l).
Proof.
  induction l as [|a l IH]; intros x H; [constructor|]. destruct H as [H1 H2]. simpl.
  destruct (fst a <=? v) eqn:E; [apply (IH (fst a)); exact H2|].
  constructor; [lia|]. eapply Forall_impl; [|apply nondecr_ge; exact H2]. simpl. intros. lia.
Qed.
Lemma dw_sorted_ge (l : list (Z * Z)) v : forall x, nondecr x l -> Forall (fun p => v <= fst p) (dw (fun p => fst p <? v) l).
Proof.
  induction l as [|a l IH]; intros x H; [constructor|]. destruct H as [H1 H2]. simpl.
  destruct (fst a <? v) eqn:E; [apply (IH (fst a)); exact H2|].
  constructor; [lia|]. eapply Forall_impl; [|apply nondecr_ge; exact H2]. simpl. intros. lia.
Qed.

Lemma Forall_and {A} (P Q : A -> Prop) l : Forall P l -> Forall Q l -> Forall (fun x => P x /\ Q x) l.
Proof. induction 1; intro H2; inversion H2; subst; constructor; auto. Qed.

Lemma dv_split (dv : list (Z * Z)) N : nondecr (-1) dv -> Forall (fun p => fst p <= N) dv ->
  let f1 := fun p : Z * Z => fst p <=? -1 in
  let f2 := fun p : Z * Z => fst p <? N in
  let pri := tw f1 dv in let mid := tw f2 (dw f1 dv) in let late := dw f2 (dw f1 dv) in
  dv = pri ++ mid ++ late /\ Forall (fun p => fst p = -1) pri /\
  Forall (fun p => 0 <= fst p < N) mid /\ nondecr 0 mid /\ Forall (fun p => fst p = N) late.
Proof.
  intros Hn Hf f1 f2 pri mid late.
  assert (Hrest : Forall (fun p => 0 <= fst p) (dw f1 dv)).
  { eapply Forall_impl; [|apply (dw_sorted_gt dv (-1) (-1) Hn)]. simpl. intros. lia. }
  split; [unfold pri, mid, late; rewrite <- tw_dw; apply tw_dw|].
  split.
  { pose proof (Forall_and _ _ _ (tw_Forall f1 dv) (tw_sub _ f1 _ (nondecr_ge _ _ Hn))) as H.
    eapply Forall_impl; [|exact H]. unfold f1. simpl. intros. lia. }
  split.
  { pose proof (Forall_and _ _ _ (tw_Forall f2 (dw f1 dv)) (tw_sub _ f2 _ Hrest)) as H.
    eapply Forall_impl; [|exact H]. unfold f2. simpl. intros. lia. }
  split.
  { apply tw_nondecr. apply nondecr_raise with (x := -1); [apply dw_nondecr; exact Hn|exact Hrest]. }
  pose proof (Forall_and _ _ _ (dw_sorted_ge (dw f1 dv) N (-1) (dw_nondecr f1 dv (-1) Hn))
                             (dw_sub _ f2 _ (dw_sub _ f1 _ Hf))) as H.
  eapply Forall_impl; [|exact H]. simpl. intros. lia.
Qed.

Lemma before_app k (a b : list (Z * Z)) : before k (a ++ b) = before k a ++ before k b.
Proof. unfold before. rewrite filter_app, map_app. reflexivity. Qed.
Lemma indump_app k (a b : list (Z * Z)) : indump k (a ++ b) = indump k a ++ indump k b.
Proof. unfold indump. rewrite filter_app, map_app. reflexivity. Qed.
Lemma before_none k (l : list (Z * Z)) : Forall (fun p => k <= fst p) l -> before k l = [].
Proof. unfold before. induction 1 as [|a l Ha _ IH]; [reflexivity|]. simpl. destruct (fst a <? k) eqn:E; [lia|exact IH]. Qed.
Lemma indump_none k (l : list (Z * Z)) : Forall (fun p => fst p <> k) l -> indump k l = [].
Proof. unfold indump. induction 1 as [|a l Ha _ IH]; [reflexivity|]. simpl. destruct (fst a =? k) eqn:E; [lia|exact IH]. Qed.
Lemma Forall_imp2 {A} (P Q : A -> Prop) l : (forall x, P x -> Q x) -> Forall P l -> Forall Q l.
Proof. intros H F. eapply Forall_impl; [exact H|exact F]. Qed.
Section PrepSem.
Variable isg : Z -> bool.

(* the documented rule on the (dump, value) list of ALL events (prior = -1, late = N), start value st *)
Definition dvalue (dv : list (Z * Z)) (st k : Z) : Z := pick isg (last (before k dv) st :: indump k dv).

Definition init_dv (dv : list (Z * Z)) (init : option Z) : option Z :=
  if existsb (fun p => fst p =? -1) dv then init
  else if existsb (fun p => fst p =? 0) dv then None else init.
Definition start_dv (dv : list (Z * Z)) (init : option Z) (N : Z) : option Z :=
  match init_dv dv init with
  | Some i => Some i
  | None => hd_error (map snd (filter (fun p => fst p <? N) dv))
  end.

Lemma pick_dup v xs : pick isg (v :: v :: xs) = pick isg (v :: xs).
Proof.
  unfold pick. simpl filter. destruct (isg v).
  - unfold last_opt. rewrite last_cons. reflexivity.
  - reflexivity.
Qed.

Lemma before_cons k d v (l : list (Z * Z)) : before k ((d, v) :: l) = if d <? k then v :: before k l else before k l.
Proof. unfold before. simpl. destruct (d <? k); reflexivity. Qed.
Lemma indump_cons k d v (l : list (Z * Z)) : indump k ((d, v) :: l) = if d =? k then v :: indump k l else indump k l.
Proof. unfold indump. simpl. destruct (d =? k); reflexivity. Qed.

Lemma last_app_mid {A} (a : list A) x b : forall st, last (a ++ x :: b) st = last b x.
Proof. induction a as [|y a IH]; intro st; simpl app; rewrite last_cons; [reflexivity|apply IH]. Qed.

Lemma ivalue_head0 v l k : Forall (fun p : Z * Z => 0 <= fst p) l -> 0 <= k ->
  ivalue isg ((0, v) :: l) k =
  if k =? 0 then pick isg (v :: indump 0 l) else pick isg (last (before k l) v :: indump k l).
Proof.
  intros Hf Hk. unfold ivalue. rewrite before_cons, indump_cons.
  destruct (k =? 0) eqn:E.
  - assert (k = 0) by lia. subst k. simpl. rewrite before_none by exact Hf. reflexivity.
  - replace (0 <? k) with true by lia. replace (0 =? k) with false by lia.
    unfold last_opt. reflexivity.
Qed.

Lemma existsb_false {A} (f : A -> bool) l : Forall (fun x => f x = false) l -> existsb f l = false.
Proof. induction 1 as [|a l Ha _ IH]; [reflexivity|]. simpl. rewrite Ha, IH. reflexivity. Qed.

Lemma dv_before (pri mid late : list (Z * Z)) N k : Forall (fun p => fst p = -1) pri ->
  Forall (fun p => fst p = N) late -> 0 <= k < N ->
  before k (pri ++ mid ++ late) = map snd pri ++ before k mid.
Proof.
  intros Hp Hl Hk. rewrite !before_app.
  rewrite (before_above k pri) by (eapply Forall_imp2; [|exact Hp]; simpl; intros; lia).
  rewrite (before_none k late) by (eapply Forall_imp2; [|exact Hl]; simpl; intros; lia).
  rewrite app_nil_r. reflexivity.
Qed.
Lemma dv_indump (pri mid late : list (Z * Z)) N k : Forall (fun p => fst p = -1) pri ->
  Forall (fun p => fst p = N) late -> 0 <= k < N ->
  indump k (pri ++ mid ++ late) = indump k mid.
Proof.
  intros Hp Hl Hk. rewrite !indump_app.
  rewrite (indump_none k pri) by (eapply Forall_imp2; [|exact Hp]; simpl; intros; lia).
  rewrite (indump_none k late) by (eapply Forall_imp2; [|exact Hl]; simpl; intros; lia).
  rewrite app_nil_r. reflexivity.
Qed.

Lemma dv_before0 (mid late : list (Z * Z)) N k :
  Forall (fun p => fst p = N) late -> 0 <= k < N -> before k (mid ++ late) = before k mid.
Proof. intros. apply (dv_before [] mid late N k); auto. Qed.
Lemma dv_indump0 (mid late : list (Z * Z)) N k :
  Forall (fun p => fst p = N) late -> 0 <= k < N -> indump k (mid ++ late) = indump k mid.
Proof. intros. apply (dv_indump [] mid late N k); auto. Qed.

Lemma prep_sem dv N init : nondecr (-1) dv -> Forall (fun p => fst p <= N) dv -> 0 < N ->
  match start_dv dv init N with
  | None => with_init (kept dv N) init = []
  | Some st => exists d0 v0 l, with_init (kept dv N) init = (d0, v0) :: l /\ nondecr 0 l /\
       Forall (fun e => fst e < N) ((0, v0) :: l) /\
       forall k, 0 <= k < N -> ivalue isg ((0, v0) :: l) k = dvalue dv st k
  end.
Proof.
  intros Hn Hf HN.
  destruct (dv_split dv N Hn Hf) as [Hdv [Hpri [Hmid [Hmn Hlate]]]].
  unfold kept. unfold start_dv, init_dv, dvalue.
  set (pri := tw (fun p : Z * Z => fst p <=? -1) dv) in *.
  set (mid := tw (fun p : Z * Z => fst p <? N) (dw (fun p : Z * Z => fst p <=? -1) dv)) in *.
  set (late := dw (fun p : Z * Z => fst p <? N) (dw (fun p : Z * Z => fst p <=? -1) dv)) in *.
  clearbody pri mid late. subst dv.
  assert (Hmid0 : Forall (fun p : Z * Z => 0 <= fst p) mid) by (eapply Forall_imp2; [|exact Hmid]; simpl; intros; lia).
  assert (HmidN : Forall (fun p : Z * Z => fst p < N) mid) by (eapply Forall_imp2; [|exact Hmid]; simpl; intros; lia).
  destruct pri as [|p0 pri0].
  - (* no prior event *)
    simpl app. simpl last_opt. cbv iota.
    assert (Hl1 : existsb (fun p : Z * Z => fst p =? -1) (mid ++ late) = false).
    { apply existsb_false. apply Forall_app. split; [eapply Forall_imp2; [|exact Hmid0]|eapply Forall_imp2; [|exact Hlate]]; simpl; intros; lia. }
    rewrite Hl1.
    destruct mid as [|[d v] mid'].
    + (* nothing inside the dumps either *)
      simpl app.
      assert (Hl0 : existsb (fun p : Z * Z => fst p =? 0) late = false).
      { apply existsb_false. eapply Forall_imp2; [|exact Hlate]. simpl. intros. lia. }
      rewrite Hl0.
      assert (Hfl : filter (fun p : Z * Z => fst p <? N) late = []).
      { clear -Hlate. induction Hlate as [|a l Ha _ IH]; [reflexivity|]. simpl. destruct (fst a <? N) eqn:E; [lia|exact IH]. }
      destruct init as [i|]; simpl with_init.
      * exists 0, i, []. split; [reflexivity|]. split; [exact Logic.I|]. split; [constructor; [simpl; lia|constructor]|].
        intros k Hk. rewrite ivalue_head0 by (try constructor; lia).
        rewrite (before_none k late) by (eapply Forall_imp2; [|exact Hlate]; simpl; intros; lia).
        rewrite (indump_none k late) by (eapply Forall_imp2; [|exact Hlate]; simpl; intros; lia).
        simpl. destruct (k =? 0); reflexivity.
      * rewrite Hfl. reflexivity.
    + inversion Hmid; subst. simpl in H1. destruct Hmn as [Hd0 Hmn']. simpl in Hd0, Hmn'.
      assert (Hge : Forall (fun p : Z * Z => d <= fst p) mid') by (apply nondecr_ge; exact Hmn').
      inversion HmidN; subst. inversion Hmid0; subst.
      assert (Hcase : forall st, (st = v) ->
                exists d0 v0 l, (d, v) :: mid' = (d0, v0) :: l /\ nondecr 0 l /\
                  Forall (fun e => fst e < N) ((0, v0) :: l) /\
                  forall k, 0 <= k < N -> ivalue isg ((0, v0) :: l) k =
                     pick isg (last (before k (((d, v) :: mid') ++ late)) st :: indump k (((d, v) :: mid') ++ late))).
      { intros st ->. exists d, v, mid'. split; [reflexivity|].
        split; [apply nondecr_raise with (x := d); [exact Hmn'|eapply Forall_imp2; [|exact Hge]; simpl; intros; lia]|].
        split; [constructor; [simpl; lia|assumption]|].
        intros k Hk. rewrite ivalue_head0 by (assumption || lia).
        rewrite (dv_before0 ((d, v) :: mid') late N k) by auto.
        rewrite (dv_indump0 ((d, v) :: mid') late N k) by auto.
        rewrite before_cons, indump_cons.
        destruct (d <? k) eqn:E1.
        - replace (d =? k) with false by lia. replace (k =? 0) with false by lia. rewrite last_cons. reflexivity.
        - destruct (d =? k) eqn:E2.
          + assert (k = d) by lia. subst k.
            rewrite (before_none d mid') by exact Hge. simpl last. rewrite pick_dup.
            destruct (d =? 0) eqn:E3; [assert (d = 0) by lia; subst d; reflexivity|reflexivity].
          + rewrite (before_none k mid') by (eapply Forall_imp2; [|exact Hge]; simpl; intros; lia).
            rewrite (indump_none k mid') by (eapply Forall_imp2; [|exact Hge]; simpl; intros; lia).
            destruct (k =? 0) eqn:E3; [assert (k = 0) by lia; subst k|]; simpl;
            rewrite ?(indump_none 0 mid') by (eapply Forall_imp2; [|exact Hge]; simpl; intros; lia); reflexivity. }
      assert (Hhd : hd_error (map snd (filter (fun p : Z * Z => fst p <? N) (((d, v) :: mid') ++ late))) = Some v).
      { simpl. replace (d <? N) with true by lia. reflexivity. }
      destruct init as [i|].
      * simpl with_init. simpl existsb. destruct (d =? 0) eqn:Ed.
        -- simpl orb. cbv iota. rewrite Hhd. apply Hcase. reflexivity.
        -- assert (Hl0 : existsb (fun p : Z * Z => fst p =? 0) (mid' ++ late) = false).
           { apply existsb_false. apply Forall_app. split; [eapply Forall_imp2; [|exact Hge]|eapply Forall_imp2; [|exact Hlate]]; simpl; intros; lia. }
           rewrite Hl0. simpl orb. cbv iota.
           exists 0, i, ((d, v) :: mid'). split; [reflexivity|].
           split; [split; [simpl; lia|exact Hmn']|].
           split; [constructor; [simpl; lia|constructor; [simpl; lia|assumption]]|].
           intros k Hk. rewrite ivalue_head0 by (try constructor; assumption || (simpl; lia)).
           rewrite (dv_before0 ((d, v) :: mid') late N k) by auto.
           rewrite (dv_indump0 ((d, v) :: mid') late N k) by auto.
           destruct (k =? 0) eqn:E3; [|reflexivity]. assert (k = 0) by lia. subst k.
           rewrite (before_none 0 ((d, v) :: mid')) by (constructor; [simpl; lia|assumption]). reflexivity.
      * simpl with_init.
        destruct (existsb (fun p : Z * Z => fst p =? 0) (((d, v) :: mid') ++ late)); rewrite Hhd; apply Hcase; reflexivity.
  - (* some prior event: its value is in force when the first dump starts; the start value is irrelevant *)
    assert (Hne : p0 :: pri0 <> []) by discriminate.
    destruct (exists_last Hne) as [pa [pl Epl]]. rewrite Epl in *.
    rewrite last_opt_snoc.
    assert (HK : with_init ((0, snd pl) :: mid) init = (0, snd pl) :: mid) by (destruct init; reflexivity).
    rewrite HK.
    assert (Hall : forall st, exists d0 v0 l, (0, snd pl) :: mid = (d0, v0) :: l /\ nondecr 0 l /\
                  Forall (fun e => fst e < N) ((0, v0) :: l) /\
                  forall k, 0 <= k < N -> ivalue isg ((0, v0) :: l) k =
                     pick isg (last (before k ((pa ++ [pl]) ++ mid ++ late)) st :: indump k ((pa ++ [pl]) ++ mid ++ late))).
    { intro st. exists 0, (snd pl), mid. split; [reflexivity|]. split; [exact Hmn|].
      split; [constructor; [simpl; lia|exact HmidN]|].
      intros k Hk. rewrite ivalue_head0 by (assumption || lia).
      rewrite (dv_before (pa ++ [pl]) mid late N k) by auto.
      rewrite (dv_indump (pa ++ [pl]) mid late N k) by auto.
      rewrite map_app. simpl map. rewrite <- app_assoc. simpl app. rewrite last_app_mid.
      destruct (k =? 0) eqn:E3; [|reflexivity]. assert (k = 0) by lia. subst k.
      rewrite (before_none 0 mid) by exact Hmid0. reflexivity. }
    assert (He : existsb (fun p : Z * Z => fst p =? -1) ((pa ++ [pl]) ++ mid ++ late) = true).
    { apply existsb_exists. exists pl. split; [apply in_or_app; left; apply in_or_app; right; left; reflexivity|].
      apply Forall_app in Hpri. destruct Hpri as [_ Hpl]. inversion Hpl; subst. lia. }
    rewrite He.
    destruct init as [i|]; [apply Hall|].
    assert (Hhd : exists x, hd_error (map snd (filter (fun p : Z * Z => fst p <? N) ((pa ++ [pl]) ++ mid ++ late))) = Some x).
    { assert (Hin : In pl (filter (fun p : Z * Z => fst p <? N) ((pa ++ [pl]) ++ mid ++ late))).
      { apply filter_In. split; [apply in_or_app; left; apply in_or_app; right; left; reflexivity|].
        apply Forall_app in Hpri. destruct Hpri as [_ Hpl]. inversion Hpl; subst. lia. }
      destruct (filter (fun p : Z * Z => fst p <? N) ((pa ++ [pl]) ++ mid ++ late)) as [|x xs]; [destruct Hin|].
      simpl. eauto. }
    destruct Hhd as [x Hx]. rewrite Hx. apply Hall.
Qed.
End PrepSem.
(* ====================================================================================
   Part E.  searchsorted against the dump end times: event e lands in dump k iff end_{k-1} < t_e <= end_k.
   ==================================================================================== *)
Lemma ss_left_mono a t1 t2 : t1 <= t2 -> (ss_left a t1 <= ss_left a t2)%nat.
Proof.
  intro H. induction a as [|x a IH]; simpl; [lia|].
  destruct (x <? t1) eqn:E1; destruct (x <? t2) eqn:E2; lia.
Qed.
Lemma ss_left_le a t : (ss_left a t <= length a)%nat.
Proof. induction a as [|x a IH]; simpl; [lia|]. destruct (x <? t); simpl; lia. Qed.

(* consecutive elements (lo, hi) of a strictly increasing array a, position k *)
Lemma ss_pairs a : ssorted a -> forall k lo hi, nth_error (combine a (tl a)) k = Some (lo, hi) ->
  forall t, ((lo <? t) && (t <=? hi) = (ss_left a t =? S k)%nat) /\ ((t <=? lo) = (ss_left a t <=? k)%nat).
Proof.
  induction a as [|x a IH]; intros Hs k lo hi Hk t; [destruct k; discriminate|].
  destruct a as [|y r]; [destruct k; discriminate|].
  destruct Hs as [Hx Hs]. simpl tl in *.
  destruct k as [|k].
  - simpl in Hk. inversion Hk; subst. simpl. destruct (lo <? t) eqn:E1; destruct (hi <? t) eqn:E2; simpl; split; lia.
  - change (nth_error (combine (y :: r) (tl (y :: r))) k = Some (lo, hi)) in Hk.
    destruct (IH Hs k lo hi Hk t) as [I1 I2].
    assert (Hlo : x < lo).
    { apply nth_error_In in Hk. apply in_combine_l in Hk. rewrite Forall_forall in Hx. apply Hx. exact Hk. }
    change (ss_left (x :: y :: r) t) with (if x <? t then S (ss_left (y :: r) t) else O).
    destruct (x <? t) eqn:E.
    + split; [rewrite I1|rewrite I2]; reflexivity.
    + split; [|].
      * replace (lo <? t) with false by lia. reflexivity.
      * replace (t <=? lo) with true by lia. reflexivity.
Qed.

Lemma ss_left_full a : ssorted a -> a <> [] -> forall t d, (ss_left a t <? length a)%nat = (t <=? last a d).
Proof.
  induction a as [|x a IH]; intros Hs Hne t d; [congruence|]. destruct Hs as [Hx Hs].
  destruct a as [|y r].
  - simpl. destruct (x <? t) eqn:E; simpl; lia.
  - assert (Hne' : y :: r <> []) by discriminate. specialize (IH Hs Hne' t x).
    change (ss_left (x :: y :: r) t) with (if x <? t then S (ss_left (y :: r) t) else O).
    rewrite last_cons. destruct (x <? t) eqn:E.
    + simpl length in *. rewrite <- IH. reflexivity.
    + assert (x < last r y).
      { pose proof (last_in r y) as Hin. rewrite Forall_forall in Hx. apply Hx. exact Hin. }
      rewrite (last_cons r y x). simpl length. replace (t <=? last r y) with true by lia. reflexivity.
Qed.

Lemma combine_map_l {A B C} (f : A -> C) (a : list A) (b : list B) :
  combine (map f a) b = map (fun p => (f (fst p), snd p)) (combine a b).
Proof. revert b. induction a as [|x a IH]; intros [|y b]; simpl; try reflexivity. f_equal. apply IH. Qed.

Section SelDv.
Variable D : Z -> Z.
Let dvof (tv : list (Z * Z)) := map (fun p => (D (fst p), snd p)) tv.
Lemma sel_indump tv f k : (forall t, f t = (D t =? k)) -> sel f tv = indump k (dvof tv).
Proof.
  intro H. unfold sel, indump, dvof. induction tv as [|[t v] tv IH]; [reflexivity|]. simpl. rewrite H.
  destruct (D t =? k); simpl; rewrite IH; reflexivity.
Qed.
Lemma sel_before tv f k : (forall t, f t = (D t <? k)) -> sel f tv = before k (dvof tv).
Proof.
  intro H. unfold sel, before, dvof. induction tv as [|[t v] tv IH]; [reflexivity|]. simpl. rewrite H.
  destruct (D t <? k); simpl; rewrite IH; reflexivity.
Qed.
Lemma existsb_dv (tv : list (Z * Z)) f g : (forall t, f t = g (D t)) ->
  existsb (fun p => f (fst p)) tv = existsb (fun p => g (fst p)) (dvof tv).
Proof.
  intro H. unfold dvof. induction tv as [|[t v] tv IH]; [reflexivity|]. simpl. rewrite H, IH. reflexivity.
Qed.
End SelDv.

Lemma existsb_combine_l {B} (f : Z -> bool) (a : list Z) (b : list B) : length a = length b ->
  existsb f a = existsb (fun p => f (fst p)) (combine a b).
Proof. revert b. induction a as [|x a IH]; intros [|y b] H; simpl in *; try discriminate; [reflexivity|]. rewrite (IH b) by lia. reflexivity. Qed.

Lemma nondecr_weaken y x (l : list (Z * Z)) : y <= x -> nondecr x l -> nondecr y l.
Proof. destruct l; [auto|]. intros H [H1 H2]. split; [lia|exact H2]. Qed.

Lemma dv_nondecr a (ts : list Z) : forall (tvals : list Z) x, nondecrZ x ts ->
  nondecr (Dmap a x) (combine (map (Dmap a) ts) tvals).
Proof.
  induction ts as [|t r IH]; intros tvals x H; [exact Logic.I|]. destruct tvals as [|v vr]; [exact Logic.I|].
  destruct H as [H1 H2]. simpl. split.
  - unfold Dmap. pose proof (ss_left_mono a x t H1). lia.
  - apply IH. exact H2.
Qed.

Lemma map_nth_error_ext {A B} (F : A -> B) (G : nat -> B) (l : list A) : forall s,
  (forall k x, nth_error l k = Some x -> F x = G (s + k)%nat) -> map F l = map G (seq s (length l)).
Proof.
  induction l as [|a l IH]; intros s H; [reflexivity|]. simpl. f_equal.
  - rewrite (H O a eq_refl). f_equal. lia.
  - apply IH. intros k x Hk. rewrite (H (S k) x Hk). f_equal. lia.
Qed.
(* ====================================================================================
   Part F.  Composition: sensor_to_categorical satisfies the per-dump rule over times.
   ==================================================================================== *)
Definition time_sorted (ts : list Z) : Prop := nondecrZ (hd 0 ts) ts.

Lemma per_dump_coded ts vals e0 er P tr init greedy ar :
  let ends := e0 :: er in
  ssorted ends -> 0 < P -> time_sorted ts -> length ts = length vals ->
  per_dump ts vals ends P tr init greedy ar =
    match spec_per_dump ts vals ends P tr (init_as_coded ts ends P init) greedy with
    | Some l => Ok l | None => Err end
  /\ forall v e, s2c ts vals ends P tr init greedy ar = Ok (v, e) ->
       wf_result v e (Z.of_nat (length ends)) ar.
Proof.
  intros ends Hse HP Hts Hlen.
  set (N := Z.of_nat (length ends)).
  set (a := (e0 - P) :: ends).
  set (tvals := map (app_tr tr) vals).
  set (tv := combine ts tvals).
  set (dv := combine (map (Dmap a) ts) tvals).
  set (isg := fun v => memZ v greedy).
  assert (HN : 0 < N) by (unfold N, ends; simpl length; lia).
  assert (Hsa : ssorted a).
  { unfold a. split; [|exact Hse]. unfold ends in *. destruct Hse as [Hf _].
    constructor; [lia|]. eapply Forall_imp2; [|exact Hf]. simpl. intros. lia. }
  assert (Hdvof : dv = map (fun p => (Dmap a (fst p), snd p)) tv) by (unfold dv, tv; apply combine_map_l).
  assert (Hlen2 : length ts = length tvals) by (unfold tvals; rewrite map_length; exact Hlen).
  (* sortedness and range of the dump indices *)
  assert (Hnd : nondecr (-1) dv).
  { destruct ts as [|t0 r]; [exact Logic.I|].
    apply nondecr_weaken with (x := Dmap a t0); [unfold Dmap; lia|].
    unfold dv. apply (dv_nondecr a (t0 :: r) tvals t0). exact Hts. }
  assert (HfN : Forall (fun p => fst p <= N) dv).
  { rewrite Hdvof. apply Forall_map. apply Forall_forall. intros p _. simpl. unfold Dmap.
    pose proof (ss_left_le a (fst p)). unfold a, N in *. simpl length in *. lia. }
  (* start value *)
  assert (Hst : start_value tv (init_as_coded ts ends P init) (last ends e0) = start_dv dv init N).
  { unfold start_value, start_dv, init_dv, init_as_coded, ends.
    assert (H1 : existsb (fun t => t <=? e0 - P) ts = existsb (fun p : Z * Z => fst p =? -1) dv).
    { rewrite (existsb_combine_l _ ts tvals Hlen2). fold tv. rewrite Hdvof.
      apply (existsb_dv (Dmap a) tv (fun t => t <=? e0 - P) (fun d => d =? -1)).
      intro t. unfold Dmap, a. cbn [ss_left]. destruct (e0 - P <? t) eqn:E; lia. }
    assert (H2 : existsb (fun t => (e0 - P <? t) && (t <=? e0)) ts = existsb (fun p : Z * Z => fst p =? 0) dv).
    { rewrite (existsb_combine_l _ ts tvals Hlen2). fold tv. rewrite Hdvof.
      apply (existsb_dv (Dmap a) tv (fun t => (e0 - P <? t) && (t <=? e0)) (fun d => d =? 0)).
      intro t. unfold Dmap, a, ends. cbn [ss_left]. destruct (e0 - P <? t) eqn:E; destruct (e0 <? t) eqn:E'; cbn [andb]; lia. }
    rewrite H1, H2.
    assert (H3 : hd_error (sel (fun t => t <=? last (e0 :: er) e0) tv) =
                 hd_error (map snd (filter (fun p : Z * Z => fst p <? N) dv))).
    { f_equal. rewrite Hdvof. change (map snd (filter (fun p : Z * Z => fst p <? N) (map (fun p => (Dmap a (fst p), snd p)) tv)))
        with (before N (map (fun p => (Dmap a (fst p), snd p)) tv)).
      apply sel_before. intro t.
      pose proof (ss_left_full a Hsa ltac:(discriminate) t 0) as Hf.
      unfold a in Hf at 3. rewrite last_cons in Hf. fold ends in Hf.
      assert (Hl : last (e0 :: er) e0 = last ends (e0 - P)) by (unfold ends; rewrite !last_cons; reflexivity).
      rewrite Hl. rewrite <- Hf. unfold Dmap, N, a. simpl length.
      destruct (ss_left ((e0 - P)%Z :: ends) t <? S (length ends))%nat eqn:E; lia. }
    rewrite H3. reflexivity. }
  (* per-dump values *)
  assert (Hval : forall st, map (dump_value isg tv st) (combine a ends) = map (dvalue isg dv st) (zrange N)).
  { intro st. unfold zrange, N. rewrite Nat2Z.id. rewrite map_map.
    replace (length ends) with (length (combine a ends)) by (unfold a; rewrite combine_length; simpl length; lia).
    apply map_nth_error_ext. intros k [lo hi] Hk. simpl plus.
    pose proof (ss_pairs a Hsa k lo hi Hk) as Hp.
    unfold dump_value, dvalue. rewrite Hdvof. f_equal. f_equal.
    - f_equal. apply sel_before. intro t. destruct (Hp t) as [_ H2]. rewrite H2. unfold Dmap.
      destruct (ss_left a t <=? k)%nat eqn:E; lia.
    - apply sel_indump. intro t. destruct (Hp t) as [H1 _]. rewrite H1. unfold Dmap.
      destruct (ss_left a t =? S k)%nat eqn:E; lia. }
  pose proof (prep_kept ts vals e0 er P tr init Hlen) as Hprep. cbv zeta in Hprep.
  fold ends a tvals dv N in Hprep.
  pose proof (prep_sem isg dv N init Hnd HfN HN) as Hsem.
  unfold per_dump, sensor_to_categorical, s2c, spec_per_dump. unfold ends. lazy iota beta.
  fold ends. fold a. fold tvals. fold tv. fold N. fold isg.
  rewrite Hst, Hprep.
  destruct (start_dv dv init N) as [st|].
  - destruct Hsem as [d0 [v0 [l [HK [Hnl [Hfl Hiv]]]]]]. rewrite HK.
    pose proof (tail_rule greedy ar v0 l N Hnl Hfl) as HT. cbv zeta in HT. fold isg in HT.
    destruct (s2c_tail (v0 :: map snd l) (0 :: map fst l) N greedy ar) as [v e] eqn:Ete.
    simpl fst in HT. simpl snd in HT. destruct HT as [HT1 HT2]. split.
    + rewrite HT1, Hval. f_equal. apply map_ext_in. intros k Hk. apply Hiv. apply zrange_bounds. exact Hk.
    + intros v' e' Heq. inversion Heq; subst. exact HT2.
  - rewrite Hsem. split; [reflexivity|]. intros v e Heq. discriminate.
Qed.

Lemma opt_eqb_eq a b : opt_eqb a b = true -> a = b.
Proof. destruct a, b; simpl; intro H; try discriminate; [f_equal; lia|reflexivity]. Qed.

Lemma per_dump_guarded ts vals e0 er P tr init greedy ar :
  let ends := e0 :: er in
  ssorted ends -> 0 < P -> time_sorted ts -> length ts = length vals ->
  c10_guard ts ends P init = true ->
  per_dump ts vals ends P tr init greedy ar =
    match spec_per_dump ts vals ends P tr init greedy with Some l => Ok l | None => Err end.
Proof.
  intros ends Hs HP Ht Hl Hg. apply opt_eqb_eq in Hg.
  destruct (per_dump_coded ts vals e0 er P tr init greedy ar Hs HP Ht Hl) as [H _].
  fold ends in H. rewrite Hg in H. exact H.
Qed.

(* the guard is satisfiable and the statement discriminates: prior event b, then g (greedy) and a inside dump 1,
   h on the edge of dump 2, late event ignored, plain initial value unused because of the prior event *)
Example per_dump_guard_example :
  let ts := [-5; 1; 2; 4; 9] in let vals := [2; 3; 1; 4; 2] in let ends := [0; 2; 4] in
  ssorted ends /\ time_sorted ts /\ c10_guard ts ends 2 (Some 5) = true /\
  per_dump ts vals ends 2 None (Some 5) [3] false = Ok [2; 3; 4] /\
  spec_per_dump ts vals ends 2 None (Some 5) [3] = Some [2; 3; 4].
Proof. vm_compute. repeat split; try lia; repeat constructor; try lia; intro; discriminate. Qed.
