(* C20 (extension): serialisability of the generic guarded object, for every `line` function and every schedule. *)
From Coq Require Import List Arith Bool Lia.
From KV Require Import Model.Guarded.
Import ListNotations.

Section P.
Variables (Sh Lo : Type) (line : Sh -> Lo -> act Sh Lo) (start : nat -> Lo).
Notation gcfg := (gcfg Sh Lo). Notation gt := (gt Lo).
Notation gstep := (gstep Sh Lo line start). Notation gexec := (gexec Sh Lo line start).
Notation cs_run := (cs_run Sh Lo line). Notation serial := (serial Sh Lo line start).
Notation lines := (lines Sh Lo line). Notation run_cs := (run_cs Sh Lo line).

Lemma cs_run_det sh lo s1 o1 : cs_run sh lo s1 o1 -> forall s2 o2, cs_run sh lo s2 o2 -> s1 = s2 /\ o1 = o2.
Proof.
  intros H. induction H as [sh lo sh1 lo1 sh' o E H IH|sh lo lo' E|sh lo E]; intros s2 o2 H2.
  - inversion H2 as [a b c d e f E2 H2'|a b c E2|a b E2]; subst; rewrite E in E2; try discriminate.
    injection E2 as <- <-. apply IH. exact H2'.
  - inversion H2 as [a b c d e f E2 H2'|a b c E2|a b E2]; subst; rewrite E in E2; try discriminate.
    injection E2 as <-. split; reflexivity.
  - inversion H2 as [a b c d e f E2 H2'|a b c E2|a b E2]; subst; rewrite E in E2; try discriminate.
    split; reflexivity.
Qed.

Lemma lines_cs_run sh lo sh1 lo1 : lines sh lo sh1 lo1 -> forall s o, cs_run sh1 lo1 s o -> cs_run sh lo s o.
Proof. induction 1; intros s o H'; [exact H'|]. eapply cs_go; [eassumption|]. apply IHlines. exact H'. Qed.

Lemma lines_trans sh lo sh1 lo1 sh2 lo2 : lines sh lo sh1 lo1 -> lines sh1 lo1 sh2 lo2 -> lines sh lo sh2 lo2.
Proof. induction 1; intros H'; [exact H'|]. eapply ln_step; [eassumption|]. apply IHlines. exact H'. Qed.

Lemma lines_one sh lo sh1 lo1 : line sh lo = Go sh1 lo1 -> lines sh lo sh1 lo1.
Proof. intros H. eapply ln_step; [exact H|apply ln_refl]. Qed.

Lemma run_cs_sound fuel : forall sh lo s o, run_cs fuel sh lo = Some (s, o) -> cs_run sh lo s o.
Proof.
  induction fuel as [|fu IH]; intros sh lo s o H; simpl in H; [discriminate|].
  destruct (line sh lo) as [sh' lo'|lo'|] eqn:E.
  - eapply cs_go; [exact E|]. apply IH. exact H.
  - injection H as <- <-. apply cs_fin. exact E.
  - injection H as <- <-. apply cs_crash. exact E.
Qed.

Lemma serial_det sh0 h : forall s1, serial sh0 h s1 -> forall s2, serial sh0 h s2 -> s1 = s2.
Proof.
  intros s1 H1. induction H1 as [|h s t s' o Hs IH Hr]; intros s2 H2.
  - inversion H2; [reflexivity|]. destruct h; discriminate.
  - inversion H2 as [E|h' sa t' sb ob Hs' Hr' E].
    + destruct h; discriminate.
    + apply app_inj_tail in E. destruct E as [-> ->].
      rewrite <- (IH _ Hs') in Hr'. exact (proj1 (cs_run_det _ _ _ _ Hr _ _ Hr')).
Qed.

Definition in_g (s : gt) : bool := match s with GIn _ => true | _ => false end.

(* ---------- the invariant: the interleaved execution IS a serial one ---------- *)
Record GInv (sh0 : Sh) (c : gcfg) : Prop := {
  gi_serial : exists shs, serial sh0 (g_hist c) shs /\
     match g_lock c with
     | None => g_sh c = shs /\ forall u, in_g (g_th c u) = false
     | Some t => (forall u, u <> t -> in_g (g_th c u) = false) /\
                 exists lo, g_th c t = GIn lo /\ lines shs (start t) (g_sh c) lo
     end;
  gi_done : forall u lo, g_th c u = GDone lo ->
     exists h1 h2 s1 s2, g_hist c = h1 ++ u :: h2 /\ serial sh0 h1 s1 /\ cs_run s1 (start u) s2 (OFin lo);
  gi_fail : forall u, g_th c u = GFail ->
     exists h1 h2 s1 s2, g_hist c = h1 ++ u :: h2 /\ serial sh0 h1 s1 /\ cs_run s1 (start u) s2 OCrash
}.

Lemma gupd_same (th : nat -> gt) t s : gupd Lo th t s t = s.
Proof. unfold gupd. rewrite Nat.eqb_refl. reflexivity. Qed.
Lemma gupd_other (th : nat -> gt) t s u : u <> t -> gupd Lo th t s u = th u.
Proof. unfold gupd. intros H. apply Nat.eqb_neq in H. rewrite H. reflexivity. Qed.

Lemma ginv_init sh0 : GInv sh0 (ginit Sh Lo sh0).
Proof.
  constructor; simpl.
  - exists sh0. split; [constructor|]. split; [reflexivity|]. intros u. reflexivity.
  - intros u lo H. discriminate.
  - intros u H. discriminate.
Qed.

Lemma lines_snoc sh lo sh1 lo1 sh2 lo2 : lines sh lo sh1 lo1 -> line sh1 lo1 = Go sh2 lo2 -> lines sh lo sh2 lo2.
Proof. intros H E. eapply lines_trans; [exact H|apply lines_one; exact E]. Qed.

Lemma ginv_step sh0 c t : GInv sh0 c -> GInv sh0 (gstep c t).
Proof.
  intros [(shs & Hs & Hl) Hd Hf]. unfold Guarded.gstep.
  destruct (g_th c t) as [|lo|lo|] eqn:Et.
  - (* idle *)
    destruct (g_lock c) as [h|] eqn:El.
    { constructor; [exists shs; rewrite El; auto|exact Hd|exact Hf]. }
    destruct Hl as [Hsh Hn]. constructor; simpl.
    + exists shs. split; [exact Hs|]. split.
      * intros u Hu. rewrite gupd_other by exact Hu. apply Hn.
      * exists (start t). rewrite gupd_same. split; [reflexivity|]. rewrite Hsh. apply ln_refl.
    + intros u lo H. destruct (Nat.eq_dec u t) as [->|Hu]; [rewrite gupd_same in H; discriminate|].
      rewrite gupd_other in H by exact Hu. apply Hd. exact H.
    + intros u H. destruct (Nat.eq_dec u t) as [->|Hu]; [rewrite gupd_same in H; discriminate|].
      rewrite gupd_other in H by exact Hu. apply Hf. exact H.
  - (* inside *)
    destruct (g_lock c) as [h|] eqn:El.
    2:{ destruct Hl as [_ Hn]. specialize (Hn t). rewrite Et in Hn. discriminate. }
    destruct Hl as [Hoth (lo' & Eh & Hlines)].
    assert (h = t) as ->.
    { destruct (Nat.eq_dec t h) as [->|Hne]; [reflexivity|]. specialize (Hoth t Hne). rewrite Et in Hoth. discriminate. }
    rewrite Et in Eh. injection Eh as <-.
    destruct (line (g_sh c) lo) as [sh1 lo1|lo1|] eqn:E.
    + constructor; simpl.
      * exists shs. split; [exact Hs|]. split.
        -- intros u Hu. rewrite gupd_other by exact Hu. apply Hoth. exact Hu.
        -- exists lo1. rewrite gupd_same. split; [reflexivity|]. eapply lines_snoc; eassumption.
      * intros u l H. destruct (Nat.eq_dec u t) as [->|Hu]; [rewrite gupd_same in H; discriminate|].
        rewrite gupd_other in H by exact Hu. apply Hd. exact H.
      * intros u H. destruct (Nat.eq_dec u t) as [->|Hu]; [rewrite gupd_same in H; discriminate|].
        rewrite gupd_other in H by exact Hu. apply Hf. exact H.
    + assert (cs_run shs (start t) (g_sh c) (OFin lo1)) as Hrun
        by (eapply lines_cs_run; [exact Hlines|apply cs_fin; exact E]).
      constructor; simpl.
      * exists (g_sh c). split; [eapply ser_snoc; eassumption|]. split; [reflexivity|].
        intros u. destruct (Nat.eq_dec u t) as [->|Hu]; [rewrite gupd_same; reflexivity|].
        rewrite gupd_other by exact Hu. apply Hoth. exact Hu.
      * intros u l H. destruct (Nat.eq_dec u t) as [->|Hu].
        -- rewrite gupd_same in H. injection H as <-. exists (g_hist c), [], shs, (g_sh c). repeat split; auto.
        -- rewrite gupd_other in H by exact Hu. destruct (Hd u l H) as (h1 & h2 & s1 & s2 & E1 & A & B).
           exists h1, (h2 ++ [t]), s1, s2. rewrite E1, <- app_assoc. repeat split; auto.
      * intros u H. destruct (Nat.eq_dec u t) as [->|Hu]; [rewrite gupd_same in H; discriminate|].
        rewrite gupd_other in H by exact Hu. destruct (Hf u H) as (h1 & h2 & s1 & s2 & E1 & A & B).
        exists h1, (h2 ++ [t]), s1, s2. rewrite E1, <- app_assoc. repeat split; auto.
    + assert (cs_run shs (start t) (g_sh c) OCrash) as Hrun
        by (eapply lines_cs_run; [exact Hlines|apply cs_crash; exact E]).
      constructor; simpl.
      * exists (g_sh c). split; [eapply ser_snoc; eassumption|]. split; [reflexivity|].
        intros u. destruct (Nat.eq_dec u t) as [->|Hu]; [rewrite gupd_same; reflexivity|].
        rewrite gupd_other by exact Hu. apply Hoth. exact Hu.
      * intros u l H. destruct (Nat.eq_dec u t) as [->|Hu]; [rewrite gupd_same in H; discriminate|].
        rewrite gupd_other in H by exact Hu. destruct (Hd u l H) as (h1 & h2 & s1 & s2 & E1 & A & B).
        exists h1, (h2 ++ [t]), s1, s2. rewrite E1, <- app_assoc. repeat split; auto.
      * intros u H. destruct (Nat.eq_dec u t) as [->|Hu].
        -- exists (g_hist c), [], shs, (g_sh c). repeat split; auto.
        -- rewrite gupd_other in H by exact Hu. destruct (Hf u H) as (h1 & h2 & s1 & s2 & E1 & A & B).
           exists h1, (h2 ++ [t]), s1, s2. rewrite E1, <- app_assoc. repeat split; auto.
  - constructor; [exists shs; auto|exact Hd|exact Hf].
  - constructor; [exists shs; auto|exact Hd|exact Hf].
Qed.

Theorem g_serializable sh0 schedule : GInv sh0 (gexec sh0 schedule).
Proof.
  unfold Guarded.gexec. generalize (ginv_init sh0). generalize (ginit Sh Lo sh0).
  induction schedule as [|t sch IH]; intros c H; simpl; [exact H|]. apply IH. apply ginv_step. exact H.
Qed.

(* ---------- contracts: a sequential contract of the section lifts to every schedule ---------- *)
Variables (I : Sh -> Prop) (Post : nat -> Lo -> Prop) (J : nat -> Sh -> Lo -> Prop).
(* alone, from a good state, every thread's section terminates normally in a good state with a good result *)
Definition cs_contract : Prop :=
  forall t sh, I sh -> exists sh' lo', cs_run sh (start t) sh' (OFin lo') /\ I sh' /\ Post t lo'.
(* J: what holds of the holder's shared + local state after EVERY line (consistency in the middle of a section) *)
Definition step_inv : Prop :=
  (forall t sh, I sh -> J t sh (start t)) /\
  (forall t sh lo sh' lo', J t sh lo -> line sh lo = Go sh' lo' -> J t sh' lo').

Lemma serial_I sh0 : cs_contract -> I sh0 -> forall h s, serial sh0 h s -> I s.
Proof.
  intros Hc H0 h s Hs. induction Hs as [|h s t s' o Hs IH Hr]; [exact H0|].
  destruct (Hc t s IH) as (sh' & lo' & Hr' & HI & _).
  destruct (cs_run_det _ _ _ _ Hr _ _ Hr') as [-> _]. exact HI.
Qed.

Lemma lines_J t sh lo sh' lo' : step_inv -> lines sh lo sh' lo' -> J t sh lo -> J t sh' lo'.
Proof. intros [_ Hg] H. induction H; intros HJ; [exact HJ|]. apply IHlines. eapply Hg; eassumption. Qed.

(* a prefix of a run that finishes normally cannot crash *)
Lemma lines_no_crash sh lo sh1 lo1 s o : lines sh lo sh1 lo1 -> cs_run sh lo s o -> cs_run sh1 lo1 s o.
Proof.
  intros H. induction H as [|sh lo sh1 lo1 sh2 lo2 E _ IH]; intros Hr; [exact Hr|].
  apply IH. inversion Hr as [a b c d e f E2 H2'|a b c E2|a b E2]; subst; rewrite E in E2; try discriminate.
  injection E2 as <- <-. exact H2'.
Qed.

Theorem guarded_safe sh0 schedule : cs_contract -> step_inv -> I sh0 ->
  let c := gexec sh0 schedule in
  (forall t, g_th c t <> GFail) /\
  (forall t lo, g_th c t = GDone lo -> Post t lo) /\
  (g_lock c = None -> I (g_sh c)) /\
  (forall t lo, g_th c t = GIn lo -> J t (g_sh c) lo) /\
  (forall t lo, g_th c t = GDone lo -> In t (g_hist c)).
Proof.
  intros Hc Hj H0 c. destruct (g_serializable sh0 schedule) as [(shs & Hs & Hl) Hd Hf]. fold c in Hs, Hl, Hd, Hf.
  pose proof (serial_I sh0 Hc H0) as HI.
  repeat split.
  - intros t Ht. destruct (Hf t Ht) as (h1 & h2 & s1 & s2 & _ & A & B).
    destruct (Hc t s1 (HI _ _ A)) as (sh' & lo' & Hr & _). destruct (cs_run_det _ _ _ _ B _ _ Hr) as [_ X]. discriminate.
  - intros t lo Ht. destruct (Hd t lo Ht) as (h1 & h2 & s1 & s2 & _ & A & B).
    destruct (Hc t s1 (HI _ _ A)) as (sh' & lo' & Hr & _ & HP). destruct (cs_run_det _ _ _ _ B _ _ Hr) as [_ X].
    injection X as ->. exact HP.
  - intros El. rewrite El in Hl. destruct Hl as [-> _]. exact (HI _ _ Hs).
  - intros t lo Ht. destruct (g_lock c) as [h|].
    + destruct Hl as [Hoth (lo' & Eh & Hlines)].
      destruct (Nat.eq_dec t h) as [->|Hne].
      * rewrite Ht in Eh. injection Eh as <-. eapply lines_J; [exact Hj|exact Hlines|]. apply (proj1 Hj). exact (HI _ _ Hs).
      * specialize (Hoth t Hne). rewrite Ht in Hoth. discriminate.
    + destruct Hl as [_ Hn]. specialize (Hn t). rewrite Ht in Hn. discriminate.
  - intros t lo Ht. destruct (Hd t lo Ht) as (h1 & h2 & _ & _ & E & _). rewrite E. apply in_or_app. right. left. reflexivity.
Qed.

(* the holder can always finish: from wherever it is inside its section, finitely many of its own lines end it normally *)
Theorem holder_finishes sh0 schedule : cs_contract -> I sh0 ->
  let c := gexec sh0 schedule in
  forall t lo, g_th c t = GIn lo -> exists sh' lo', cs_run (g_sh c) lo sh' (OFin lo').
Proof.
  intros Hc H0 c t lo Ht. destruct (g_serializable sh0 schedule) as [(shs & Hs & Hl) _ _]. fold c in Hs, Hl.
  destruct (g_lock c) as [h|].
  - destruct Hl as [Hoth (lo' & Eh & Hlines)]. destruct (Nat.eq_dec t h) as [->|Hne].
    + rewrite Ht in Eh. injection Eh as <-.
      destruct (Hc h shs (serial_I sh0 Hc H0 _ _ Hs)) as (sh' & lo1 & Hr & _).
      exists sh', lo1. eapply lines_no_crash; eassumption.
    + specialize (Hoth t Hne). rewrite Ht in Hoth. discriminate.
  - destruct Hl as [_ Hn]. specialize (Hn t). rewrite Ht in Hn. discriminate.
Qed.

End P.

(* ---------- safety from a line-by-line invariant (no termination needed) ---------- *)
Section Partial.
Variables (Sh Lo : Type) (line : Sh -> Lo -> act Sh Lo) (start : nat -> Lo).
Notation gt := (gt Lo).
Variables (I : Sh -> Prop) (Post : nat -> Lo -> Prop) (J : nat -> Sh -> Lo -> Prop).
Hypothesis J_start : forall t sh, I sh -> J t sh (start t).
Hypothesis J_go : forall t sh lo sh' lo', J t sh lo -> line sh lo = Go sh' lo' -> J t sh' lo'.
Hypothesis J_fin : forall t sh lo lo', J t sh lo -> line sh lo = Fin lo' -> I sh /\ Post t lo'.
Hypothesis J_nocrash : forall t sh lo, J t sh lo -> line sh lo <> Crash.

Record PInv (c : gcfg Sh Lo) : Prop := {
  pi_lock : match g_lock c with
            | None => I (g_sh c) /\ forall u, in_g Lo (g_th c u) = false
            | Some t => (forall u, u <> t -> in_g Lo (g_th c u) = false) /\ exists lo, g_th c t = GIn lo /\ J t (g_sh c) lo
            end;
  pi_done : forall u lo, g_th c u = GDone lo -> Post u lo;
  pi_fail : forall u, g_th c u <> GFail
}.

Lemma pinv_step c t : PInv c -> PInv (gstep Sh Lo line start c t).
Proof.
  intros [Hl Hd Hf]. unfold gstep. destruct (g_th c t) as [|lo|lo|] eqn:Et.
  - destruct (g_lock c) as [h|] eqn:El.
    { constructor; [rewrite El; exact Hl|exact Hd|exact Hf]. }
    destruct Hl as [HI Hn]. constructor; simpl.
    + split.
      * intros u Hu. rewrite gupd_other by exact Hu. apply Hn.
      * exists (start t). rewrite gupd_same. split; [reflexivity|]. apply J_start. exact HI.
    + intros u lo H. destruct (Nat.eq_dec u t) as [->|Hu]; [rewrite gupd_same in H; discriminate|].
      rewrite gupd_other in H by exact Hu. apply (Hd u). exact H.
    + intros u H. destruct (Nat.eq_dec u t) as [->|Hu]; [rewrite gupd_same in H; discriminate|].
      rewrite gupd_other in H by exact Hu. exact (Hf u H).
  - destruct (g_lock c) as [h|] eqn:El.
    2:{ destruct Hl as [_ Hn]. specialize (Hn t). rewrite Et in Hn. discriminate. }
    destruct Hl as [Hoth (lo' & Eh & HJ)].
    assert (h = t) as ->.
    { destruct (Nat.eq_dec t h) as [->|Hne]; [reflexivity|]. specialize (Hoth t Hne). rewrite Et in Hoth. discriminate. }
    rewrite Et in Eh. injection Eh as <-.
    destruct (line (g_sh c) lo) as [sh1 lo1|lo1|] eqn:E.
    + constructor; simpl.
      * split.
        -- intros u Hu. rewrite gupd_other by exact Hu. apply Hoth. exact Hu.
        -- exists lo1. rewrite gupd_same. split; [reflexivity|]. eapply J_go; eassumption.
      * intros u l H. destruct (Nat.eq_dec u t) as [->|Hu]; [rewrite gupd_same in H; discriminate|].
        rewrite gupd_other in H by exact Hu. apply (Hd u). exact H.
      * intros u H. destruct (Nat.eq_dec u t) as [->|Hu]; [rewrite gupd_same in H; discriminate|].
        rewrite gupd_other in H by exact Hu. exact (Hf u H).
    + destruct (J_fin t _ _ _ HJ E) as [HI HP]. constructor; simpl.
      * split; [exact HI|]. intros u. destruct (Nat.eq_dec u t) as [->|Hu]; [rewrite gupd_same; reflexivity|].
        rewrite gupd_other by exact Hu. apply Hoth. exact Hu.
      * intros u l H. destruct (Nat.eq_dec u t) as [->|Hu].
        -- rewrite gupd_same in H. injection H as <-. exact HP.
        -- rewrite gupd_other in H by exact Hu. apply (Hd u). exact H.
      * intros u H. destruct (Nat.eq_dec u t) as [->|Hu]; [rewrite gupd_same in H; discriminate|].
        rewrite gupd_other in H by exact Hu. exact (Hf u H).
    + exfalso. exact (J_nocrash t _ _ HJ E).
  - constructor; assumption.
  - constructor; assumption.
Qed.

Theorem guarded_inv_safe sh0 schedule : I sh0 ->
  let c := gexec Sh Lo line start sh0 schedule in
  (forall t, g_th c t <> GFail) /\
  (forall t lo, g_th c t = GDone lo -> Post t lo) /\
  (g_lock c = None -> I (g_sh c)) /\
  (forall t lo, g_th c t = GIn lo -> g_lock c = Some t /\ J t (g_sh c) lo).
Proof.
  intros H0 c.
  assert (PInv c) as [Hl Hd Hf].
  { unfold c, gexec.
    assert (PInv (ginit Sh Lo sh0)) as Hi.
    { constructor; simpl; [split; [exact H0|reflexivity]|discriminate|discriminate]. }
    revert Hi. generalize (ginit Sh Lo sh0).
    induction schedule as [|t sch IH]; intros c0 H; simpl; [exact H|]. apply IH. apply pinv_step. exact H. }
  repeat split; auto.
  - intros El. rewrite El in Hl. exact (proj1 Hl).
  - destruct (g_lock c) as [h|].
    + destruct Hl as [Hoth _]. destruct (Nat.eq_dec t h) as [->|Hne]; [reflexivity|].
      specialize (Hoth t Hne). rewrite H in Hoth. discriminate.
    + destruct Hl as [_ Hn]. specialize (Hn t). rewrite H in Hn. discriminate.
  - destruct (g_lock c) as [h|].
    + destruct Hl as [Hoth (lo' & Eh & HJ)]. destruct (Nat.eq_dec t h) as [->|Hne].
      * rewrite H in Eh. injection Eh as <-. exact HJ.
      * specialize (Hoth t Hne). rewrite H in Hoth. discriminate.
    + destruct Hl as [_ Hn]. specialize (Hn t). rewrite H in Hn. discriminate.
Qed.
End Partial.

(* ---------- the same WITHOUT a lock: an invariant that splits into a shared part C (preserved by the lines of every
   thread) and a thread-local part Jl ---------- *)
Section Unlocked.
Variables (Sh Lo : Type) (line : Sh -> Lo -> act Sh Lo) (start : nat -> Lo).
Variables (C : Sh -> Prop) (Jl : nat -> Lo -> Prop) (PostU : nat -> Lo -> Prop).
Hypothesis U_start : forall t, Jl t (start t).
Hypothesis U_go : forall t sh lo sh' lo', C sh -> Jl t lo -> line sh lo = Go sh' lo' -> C sh' /\ Jl t lo'.
Hypothesis U_fin : forall t sh lo lo', C sh -> Jl t lo -> line sh lo = Fin lo' -> PostU t lo'.
Hypothesis U_nocrash : forall t sh lo, C sh -> Jl t lo -> line sh lo <> Crash.

Record UInv (c : gcfg Sh Lo) : Prop := {
  ui_sh : C (g_sh c);
  ui_in : forall u lo, g_th c u = GIn lo -> Jl u lo;
  ui_done : forall u lo, g_th c u = GDone lo -> PostU u lo;
  ui_fail : forall u, g_th c u <> GFail
}.

Lemma uinv_step c t : UInv c -> UInv (ustep Sh Lo line start c t).
Proof.
  intros [Hc Hi Hd Hf]. unfold ustep. destruct (g_th c t) as [|lo|lo|] eqn:Et.
  - constructor; simpl; [exact Hc| | |].
    + intros u lo H. destruct (Nat.eq_dec u t) as [->|Hu].
      * rewrite gupd_same in H. injection H as <-. apply U_start.
      * rewrite gupd_other in H by exact Hu. apply (Hi u). exact H.
    + intros u lo H. destruct (Nat.eq_dec u t) as [->|Hu]; [rewrite gupd_same in H; discriminate|].
      rewrite gupd_other in H by exact Hu. apply (Hd u). exact H.
    + intros u H. destruct (Nat.eq_dec u t) as [->|Hu]; [rewrite gupd_same in H; discriminate|].
      rewrite gupd_other in H by exact Hu. exact (Hf u H).
  - pose proof (Hi t lo Et) as HJ.
    destruct (line (g_sh c) lo) as [sh1 lo1|lo1|] eqn:E.
    + destruct (U_go t _ _ _ _ Hc HJ E) as [Hc' HJ']. constructor; simpl; [exact Hc'| | |].
      * intros u l H. destruct (Nat.eq_dec u t) as [->|Hu].
        -- rewrite gupd_same in H. injection H as <-. exact HJ'.
        -- rewrite gupd_other in H by exact Hu. apply (Hi u). exact H.
      * intros u l H. destruct (Nat.eq_dec u t) as [->|Hu]; [rewrite gupd_same in H; discriminate|].
        rewrite gupd_other in H by exact Hu. apply (Hd u). exact H.
      * intros u H. destruct (Nat.eq_dec u t) as [->|Hu]; [rewrite gupd_same in H; discriminate|].
        rewrite gupd_other in H by exact Hu. exact (Hf u H).
    + constructor; simpl; [exact Hc| | |].
      * intros u l H. destruct (Nat.eq_dec u t) as [->|Hu]; [rewrite gupd_same in H; discriminate|].
        rewrite gupd_other in H by exact Hu. apply (Hi u). exact H.
      * intros u l H. destruct (Nat.eq_dec u t) as [->|Hu].
        -- rewrite gupd_same in H. injection H as <-. eapply U_fin; eassumption.
        -- rewrite gupd_other in H by exact Hu. apply (Hd u). exact H.
      * intros u H. destruct (Nat.eq_dec u t) as [->|Hu]; [rewrite gupd_same in H; discriminate|].
        rewrite gupd_other in H by exact Hu. exact (Hf u H).
    + exfalso. exact (U_nocrash t _ _ Hc HJ E).
  - constructor; assumption.
  - constructor; assumption.
Qed.

Theorem unlocked_inv_safe sh0 schedule : C sh0 -> UInv (uexec Sh Lo line start sh0 schedule).
Proof.
  intros H0. unfold uexec.
  assert (UInv (ginit Sh Lo sh0)) as Hi by (constructor; simpl; [exact H0|discriminate|discriminate|discriminate]).
  revert Hi. generalize (ginit Sh Lo sh0).
  induction schedule as [|t sch IH]; intros c0 H; simpl; [exact H|]. apply IH. apply uinv_step. exact H.
Qed.
End Unlocked.
