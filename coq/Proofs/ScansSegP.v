(* C03: the index sensors built by the format classes (CategoricalData(range(len(x)), x.events)) number the dumps
   consecutively from zero in time order, for EVERY well-formed series x. *)
From Coq Require Import ZArith List Bool Arith Lia.
From KV Require Import Base.Sx Model.Categorical Proofs.CategoricalP Proofs.CategoricalConcatP.
From KV Require Model.Scans.
Import ListNotations.
Open Scope nat_scope.

Lemma Zeqb_spec_ok : forall a b : Z, Z.eqb a b = true <-> a = b.
Proof. intros. apply Z.eqb_eq. Qed.

Lemma steps_up_repeat : forall j k rest, Scans.steps_up k (repeat k j ++ rest) = Scans.steps_up k rest.
Proof. induction j; intros; simpl; auto. rewrite Z.eqb_refl. simpl. apply IHj. Qed.

Lemma steps_up_expand : forall r s k x, chain lt s r -> (x = Z.of_nat k \/ (x + 1)%Z = Z.of_nat k) ->
  Scans.steps_up x (expand_ev s r (map Z.of_nat (seq k (length r)))) = true.
Proof.
  induction r as [|e r IH]; intros s k x C Hx; [reflexivity|].
  destruct C as [Hlt C]. cbn [length seq map expand_ev].
  destruct (e - s) as [|j] eqn:Ej; [lia|]. cbn [repeat app Scans.steps_up].
  assert (Hb : (Z.eqb (Z.of_nat k) x || Z.eqb (Z.of_nat k) (x + 1))%bool = true).
  { destruct Hx as [->| <-]; [rewrite Z.eqb_refl; reflexivity | rewrite Z.eqb_refl; apply orb_true_r]. }
  rewrite Hb, steps_up_repeat. cbn [andb]. apply IH; [exact C|]. right. lia.
Qed.

Lemma numbered_expand : forall r, chain lt 0 r -> r <> [] ->
  Scans.numbered (expand_ev 0 r (map Z.of_nat (seq 0 (length r)))) = true.
Proof.
  intros [|e r] C Hne; [congruence|]. destruct C as [Hlt C]. cbn [length seq map expand_ev].
  destruct (e - 0) as [|j] eqn:Ej; [lia|]. cbn [repeat app Scans.numbered]. rewrite steps_up_repeat.
  cbn [Z.of_nat Z.eqb andb]. apply steps_up_expand; [exact C|]. right. reflexivity.
Qed.

(* MAIN: for every well-formed series c starting at dump 0, the index series has the same events, is well formed,
   gives every dump exactly one index (its per-dump list has one entry per dump), the indices are the event numbers
   0 .. n-1 and the per-dump list is numbered consecutively from zero in time order *)
Theorem index_cd_numbered : forall c : Scans.cdz, WF c -> start0 c -> idx c <> [] ->
  let ic := Scans.index_cd c in
  WF ic /\ start0 ic /\ ev ic = ev c /\ ndumps ic = ndumps c
  /\ length (expand Scans.zd ic) = ndumps c
  /\ expand Scans.zd ic = expand_evs (ev c) (map Z.of_nat (seq 0 (length (idx c))))
  /\ Scans.numbered (expand Scans.zd ic) = true.
Proof.
  intros c W S0 Hne ic. destruct W as (Hi & Hl & Hf & Hn).
  assert (Hlen : length (ev c) = S (length (map Z.of_nat (seq 0 (length (idx c)))))) by (rewrite map_length, seq_length; exact Hl).
  assert (Wi : WF ic) by (apply (make_WF Z.eqb Scans.zd Zeqb_spec_ok); assumption).
  assert (Ex : expand Scans.zd ic = expand_evs (ev c) (map Z.of_nat (seq 0 (length (idx c)))))
    by (apply (make_expand Z.eqb Scans.zd Zeqb_spec_ok)).
  assert (Ev : ev ic = ev c) by reflexivity.
  split; [exact Wi|]. split; [unfold start0; rewrite Ev; exact S0|]. split; [exact Ev|].
  split; [unfold ndumps; rewrite Ev; reflexivity|].
  split.
  - rewrite (expand_length Scans.zd ic Wi). unfold ndumps. rewrite Ev. unfold start0 in S0. rewrite S0. lia.
  - split; [exact Ex|]. rewrite Ex. unfold start0 in S0.
    destruct (ev c) as [|s r] eqn:E; [discriminate Hl|]. simpl in S0. subst s. cbn [expand_evs].
    assert (Hr : length r = length (idx c)) by (simpl in Hl; lia). rewrite <- Hr.
    apply numbered_expand; [exact Hi|]. destruct r; [|discriminate]. destruct (idx c); [congruence|discriminate Hr].
Qed.

(* soundness of the decidable check evaluated by the harness on every generated data set: a series accepted by
   cd_ok is well formed apart from the distinctness of its unique values, starts at dump 0 and ends at N *)
Lemma incrb_chain : forall r s, Scans.incrb s r = true -> chain lt s r.
Proof.
  induction r as [|e r IH]; intros s H; simpl in *; [exact Logic.I|].
  apply andb_true_iff in H. destruct H as [A B]. split; [apply Nat.ltb_lt; exact A | apply IH; exact B].
Qed.
Theorem cd_ok_sound : forall N (c : Scans.cdz), Scans.cd_ok N c = true ->
  incr (ev c) /\ length (ev c) = S (length (idx c)) /\ Forall (fun i => i < length (uv c)) (idx c)
  /\ start0 c /\ ndumps c = N.
Proof.
  intros N c H. unfold Scans.cd_ok in H. destruct (ev c) as [|s r] eqn:E; [discriminate|].
  repeat (apply andb_true_iff in H; destruct H as [H ?]).
  apply Nat.eqb_eq in H. subst s.
  split; [simpl; apply incrb_chain; assumption|].
  split; [apply Nat.eqb_eq; assumption|].
  split; [apply Forall_forall; intros i Hi; rewrite forallb_forall in H0; apply Nat.ltb_lt; apply H0; exact Hi|].
  split; [unfold start0; rewrite E; reflexivity|]. unfold ndumps. rewrite E. apply Nat.eqb_eq. assumption.
Qed.
