(* C17 (extension): given timestamps, the whole open, the channel-count fallback, named windows, algebraic laws. *)
From Coq Require Import ZArith QArith Qfield List Bool String Lia.
From KV Require Import Base.Sx Base.Str Gen.Generated Model.TimeFreq Model.TimeFreqPre Model.TimeFreqX
                       Proofs.TimeFreqP Proofs.TimeFreqPreP.
Import ListNotations.
Open Scope Q_scope.

(* ---------------- time axis over any timestamp sequence ---------------- *)
Lemma run_ds_g_closed g a : run_ds_g g a = mkD a (Some (g 0%Z)) (Some a) (Some (g 0%Z)).
Proof. reflexivity. Qed.
Lemma src_base_g_closed g a : src_base_g g a = a.
Proof. reflexivity. Qed.
(* the synthesised time axis of Model/TimeFreq.v is the instance g = synth tm *)
Lemma run_v4_synth tm a n : run_v4 tm a n = run_v4_g tm (synth tm) a n.
Proof.
  unfold run_v4, run_v4_g. rewrite src_base_closed, src_base_g_closed, run_ds_closed, run_ds_g_closed. reflexivity.
Qed.
Lemma model_timestamp_synth tm a i : model_timestamp tm a i = model_timestamp_g tm (synth tm) a i.
Proof.
  unfold model_timestamp, model_timestamp_g. rewrite run_v4_synth, src_base_closed, src_base_g_closed. reflexivity.
Qed.

Definition spec_fixo_g (tm : timing) (g : Z -> Q) : option Q :=
  match t_cbf tm with
  | Some p => if Qltb (g 0%Z + t_off tm) (inject_Z (doc_fix_date (t_cmc2 tm) (t_cbf4k tm))) then Some p else None
  | None => None
  end.
Lemma spec_fix_g_fix tm g : spec_fix_g tm g == match spec_fixo_g tm g with Some p => p | None => 0 end.
Proof. unfold spec_fix_g, spec_fixo_g. destruct (t_cbf tm); destruct (Qltb _ _); reflexivity. Qed.
Lemma v_fix_g tm g c : c == g 0%Z + t_off tm -> v_fix tm (Some c) = spec_fixo_g tm g.
Proof.
  intros E. unfold v_fix, spec_fixo_g. destruct (t_cbf tm); [|reflexivity].
  rewrite fix_rule_table, (Qltb_compat _ _ _ E). reflexivity.
Qed.

Lemma run_v4_g_closed tm g a n :
  v_shift (run_v4_g tm g a n) == t_off tm - spec_fix_g tm g /\
  v_off (run_v4_g tm g a n) == t_off tm - spec_fix_g tm g /\
  (exists s, v_start (run_v4_g tm g a n) = Some s /\
             s == g a + (t_off tm - spec_fix_g tm g) - (1#2) * t_int tm) /\
  (exists e, v_end (run_v4_g tm g a n) = Some e /\
             e == g (a + n - 1)%Z + (t_off tm - spec_fix_g tm g) + (1#2) * t_int tm).
Proof.
  unfold run_v4_g. rewrite ?src_base_g_closed, ?run_ds_g_closed. cbn [d_src_cap]. unfold gen_v4_time_prog.
  assert (C : g 0%Z + inject_Z 1 * t_off tm == g 0%Z + t_off tm) by (unfold inject_Z; ring).
  pose proof (v_fix_g tm g _ C) as E.
  pose proof (spec_fix_g_fix tm g) as F.
  destruct (spec_fixo_g tm g) as [p|]; v4_exec E;
    (split; [rewrite F; unfold inject_Z; ring|]); (split; [rewrite F; unfold inject_Z; ring|]);
    (split; eexists; (split; [reflexivity|]));
    rewrite half_dump_closed, F; unfold inject_Z; ring.
Qed.

(* TelstateDataSource(timestamps=g, preselect dumps a:a+n) + VisibilityDataV4(time_offset): dump i sits at
   g(a+i) + time_offset - (one CBF dump iff the CAPTURE, g 0 + time_offset, started before the fix date);
   start / end bracket the kept dumps by half a dump; the attribute records the total shift *)
Lemma given_timestamps tm g a n i :
  model_timestamp_g tm g a i == g (a + i)%Z + t_off tm - spec_fix_g tm g /\
  model_start_g tm g a n == g a + t_off tm - spec_fix_g tm g - (1#2) * t_int tm /\
  model_end_g tm g a n == g (a + n - 1)%Z + t_off tm - spec_fix_g tm g + (1#2) * t_int tm /\
  model_offset_g tm g a == t_off tm - spec_fix_g tm g.
Proof.
  unfold model_timestamp_g, model_start_g, model_end_g, model_offset_g. rewrite src_base_g_closed.
  destruct (run_v4_g_closed tm g a 1) as (S1 & O1 & _).
  destruct (run_v4_g_closed tm g a n) as (_ & _ & (s & Es & Hs) & (e & Ee & He)).
  rewrite Es, Ee. cbn [optQ]. rewrite S1, O1, Hs, He. repeat split; ring.
Qed.

(* the synthesised axis: spec_fix_g (synth tm) is the documented fix amount *)
Lemma spec_fix_g_synth tm : spec_fix_g tm (synth tm) == spec_fix_amount tm.
Proof.
  unfold spec_fix_g, spec_fix_amount, spec_needs_fix.
  assert (E : synth tm 0 + t_off tm == raw_stamp tm 0) by (rewrite raw_stamp_synth; reflexivity).
  rewrite (Qltb_compat _ _ _ E). reflexivity.
Qed.

(* ---- laws of the time axis a user relies on ---- *)
Lemma spec_timestamp_step tm k : spec_timestamp tm (k + 1) - spec_timestamp tm k == t_int tm.
Proof. unfold spec_timestamp, raw_stamp. rewrite inject_Z_plus. unfold inject_Z at 2. ring. Qed.

(* consecutive dumps are exactly one int_time apart, whatever is preselected *)
Lemma timestamps_uniform tm a i : model_timestamp tm a (i + 1) - model_timestamp tm a i == t_int tm.
Proof. rewrite !preselect_timestamp. replace (a + (i + 1))%Z with (a + i + 1)%Z by lia. apply spec_timestamp_step. Qed.

(* the data set spans exactly n dumps *)
Lemma duration tm a n : model_end_time tm a n - model_start_time tm a n == inject_Z n * t_int tm.
Proof.
  destruct (start_end_bracket tm a n) as (S & E). rewrite S, E. unfold spec_timestamp, raw_stamp.
  replace (a + n - 1)%Z with (a + (n - 1))%Z by lia. rewrite !inject_Z_plus.
  assert (M : inject_Z (n - 1) == inject_Z n - 1) by (unfold Z.sub; rewrite inject_Z_plus; reflexivity).
  rewrite M. ring.
Qed.

(* adjacent preselections tile the capture: the end of dumps a:a+n is the start of dumps a+n:... *)
Lemma preselections_tile tm a n m : model_end_time tm a n == model_start_time tm (a + n) m.
Proof.
  destruct (start_end_bracket tm a n) as (_ & E). destruct (start_end_bracket tm (a + n) m) as (S & _).
  rewrite E, S. pose proof (spec_timestamp_step tm (a + n - 1)) as D.
  replace (a + n - 1 + 1)%Z with (a + n)%Z in D by lia.
  assert (H : spec_timestamp tm (a + n) == spec_timestamp tm (a + n - 1) + t_int tm) by (rewrite <- D; ring).
  rewrite H. ring.
Qed.

(* start / end / timestamps of a preselected data set do not depend on where the preselection ends *)
Lemma default_time_offsets : q_default_time_offset == 0 /\ q_open_default_time_offset == 0.
Proof. split; reflexivity. Qed.

(* ---------------- the whole open ---------------- *)
Definition chan_range_ok (N : Z) (p : presel) : Prop :=
  match plookup "channels" p with
  | Some v => (fst (py_indices N v) < snd (py_indices N v))%Z
  | None => True
  end.

Lemma v4_spw_n c bw n : s_n (v4_spw c bw n) = n.
Proof. reflexivity. Qed.

Lemma take_len_pos w : (0 < take_len w)%Z <-> (fst w < snd w)%Z.
Proof. unfold take_len. lia. Qed.

Lemma open_v4_accepts s po : (0 <= x_N s)%Z ->
  ((exists d, open_v4 s po = ODs d) <->
   ds_validate po = 0%Z /\ (0 < take_len (axis_range (x_T s) (the_dict po) "dumps"))%Z /\
   chan_range_ok (x_N s) (the_dict po)).
Proof.
  intros HN. unfold open_v4, chan_range_ok.
  destruct (ds_validate po =? 0)%Z eqn:V; cbn [negb].
  2: { split; [intros (d & H); discriminate|]. intros (H & _). apply Z.eqb_neq in V. contradiction. }
  apply Z.eqb_eq in V.
  destruct (take_len (axis_range (x_T s) (the_dict po) "dumps") <=? 0)%Z eqn:D.
  { split; [intros (d & H); discriminate|]. intros (_ & H & _). lia. }
  destruct (plookup "channels" (the_dict po)) as [v|].
  - pose proof (py_indices_bounds (x_N s) v HN) as (B1 & B2).
    destruct (subrange _ _ _) as [w|] eqn:E.
    + apply subrange_some in E. destruct E as (E0 & E1 & _).
      split; [intros _; repeat split; try lia; exact V|]. intros _. destruct (x_F s); eexists; reflexivity.
    + apply subrange_none in E. rewrite v4_spw_n in E.
      split; [intros (d & H); discriminate|]. intros (_ & _ & H). exfalso. apply E. lia.
  - split; [intros _; repeat split; try lia; exact V|]. intros _. destruct (x_F s); eexists; reflexivity.
Qed.

(* every refusal is one of the four documented IndexErrors, and the validation speaks first *)
Lemma open_v4_error_codes s po c : open_v4 s po = OErr c ->
  (c = ds_validate po /\ (c = 1 \/ c = 2)%Z) \/ (ds_validate po = 0%Z /\ (c = 5 \/ c = 6)%Z).
Proof.
  unfold open_v4. destruct (ds_validate po =? 0)%Z eqn:V; cbn [negb].
  - apply Z.eqb_eq in V. intros H. right. split; [exact V|].
    destruct (take_len _ <=? 0)%Z; [injection H as <-; auto|].
    destruct (match plookup "channels" (the_dict po) with Some _ => _ | None => _ end);
      [destruct (x_F s); discriminate|injection H as <-; auto].
  - intros H. injection H as <-. left. split; [reflexivity|].
    apply Z.eqb_neq in V. pose proof (ds_validate_errors po) as (_ & _ & [K|[K|K]]); auto. contradiction.
Qed.

(* what an accepted open keeps: dumps a.., n of them; channels c..; the chunk-store index *)
Lemma open_v4_shape s po d : open_v4 s po = ODs d ->
  o_a d = fst (axis_range (x_T s) (the_dict po) "dumps") /\
  o_n d = take_len (axis_range (x_T s) (the_dict po) "dumps") /\ (0 < o_n d)%Z /\
  o_index d = match x_F s with Some F => pre_index [x_T s; F] (the_dict po) | None => [] end.
Proof.
  unfold open_v4. destruct (ds_validate po =? 0)%Z; cbn [negb]; [|discriminate].
  destruct (take_len _ <=? 0)%Z eqn:D; [discriminate|].
  destruct (match plookup "channels" (the_dict po) with Some _ => _ | None => _ end); [|discriminate].
  destruct (x_F s); intros H; injection H as <-; cbn [o_a o_n o_index]; repeat split; lia.
Qed.

(* metadata and data agree on the channel count (the normal case): the fallback never fires, and the three uses of
   the preselection (timestamps, spectral window, chunk-store index) keep the same number of dumps and channels *)
Lemma open_v4_consistent s po d : (0 <= x_N s)%Z -> x_F s = Some (x_N s) -> open_v4 s po = ODs d ->
  o_fallback d = false /\ s_n (o_spw d) = data_chans (x_N s) (the_dict po) /\
  o_n d = take_len (axis_range (x_T s) (the_dict po) "dumps").
Proof.
  intros HN HF. unfold open_v4. rewrite HF. destruct (ds_validate po =? 0)%Z; cbn [negb]; [|discriminate].
  destruct (take_len _ <=? 0)%Z eqn:D; [discriminate|].
  assert (K : forall w, match plookup "channels" (the_dict po) with
                        | Some v => subrange (v4_spw (x_centre s) (x_bw s) (x_N s)) (fst (py_indices (x_N s) v))
                                             (snd (py_indices (x_N s) v))
                        | None => Some (v4_spw (x_centre s) (x_bw s) (x_N s)) end = Some w ->
                        s_n w = data_chans (x_N s) (the_dict po)).
  { intros w. unfold data_chans, axis_range. destruct (plookup "channels" (the_dict po)) as [v|].
    - intros E. apply subrange_some in E. destruct E as (_ & E1 & _ & _ & _ & E5 & _). rewrite E5. unfold take_len. lia.
    - intros E. injection E as <-. rewrite v4_spw_n. unfold take_len. cbn [fst snd]. lia. }
  destruct (match plookup "channels" (the_dict po) with Some _ => _ | None => _ end) as [w|]; [|discriminate].
  specialize (K w eq_refl). intros H. injection H as <-. cbn [o_fallback o_spw o_n].
  unfold gen_v4_fallback_test. rewrite K, Z.eqb_refl. cbn [negb]. repeat split. exact K.
Qed.

(* ... and then channel j of the opened data set is channel c + j of the telstate attributes' window, c the start
   of the preselected channel range (0 without one) *)
Lemma open_v4_freqs s po d : (0 < x_N s)%Z -> o_fallback d = false -> open_v4 s po = ODs d ->
  forall j, chan_freq (o_spw d) j ==
            x_centre s + inject_Z (fst (axis_range (x_N s) (the_dict po) "channels") + j - x_N s / 2) * x_bw s / inject_Z (x_N s)
  /\ chan_width (o_spw d) == x_bw s / inject_Z (x_N s).
Proof.
  intros HN FB. unfold open_v4. destruct (ds_validate po =? 0)%Z; cbn [negb]; [|discriminate].
  destruct (take_len _ <=? 0)%Z eqn:D; [discriminate|].
  assert (K : forall w, match plookup "channels" (the_dict po) with
                        | Some v => subrange (v4_spw (x_centre s) (x_bw s) (x_N s)) (fst (py_indices (x_N s) v))
                                             (snd (py_indices (x_N s) v))
                        | None => Some (v4_spw (x_centre s) (x_bw s) (x_N s)) end = Some w ->
            forall j, chan_freq w j ==
              x_centre s + inject_Z (fst (axis_range (x_N s) (the_dict po) "channels") + j - x_N s / 2) * x_bw s / inject_Z (x_N s)
              /\ chan_width w == x_bw s / inject_Z (x_N s)).
  { intros w. unfold axis_range. destruct (plookup "channels" (the_dict po)) as [v|]; intros E j.
    - rewrite (subrange_aligned _ _ _ _ j E), (subrange_width _ _ _ _ E).
      destruct (v4_channel_formula (x_centre s) (x_bw s) (x_N s) (fst (py_indices (x_N s) v) + j) HN) as (A & B).
      split; [exact A|exact B].
    - injection E as <-. cbn [fst]. destruct (v4_channel_formula (x_centre s) (x_bw s) (x_N s) (0 + j) HN) as (A & B).
      split; [exact A|exact B]. }
  destruct (match plookup "channels" (the_dict po) with Some _ => _ | None => _ end) as [w|]; [|discriminate].
  specialize (K w eq_refl).
  destruct (x_F s) as [F|]; intros H; injection H as <-; cbn [o_fallback o_spw] in *.
  - rewrite FB. exact K.
  - exact K.
Qed.

(* the channel-count fallback: fires exactly when the window and the data disagree on the number of channels; the
   replacement keeps channel width and sideband, takes the data's count and puts the centre at 0 Hz *)
Lemma open_v4_fallback s po d F : (0 < x_N s)%Z -> x_F s = Some F -> open_v4 s po = ODs d ->
  (o_fallback d = true <->
   data_chans F (the_dict po) <> take_len (axis_range (x_N s) (the_dict po) "channels")) /\
  (o_fallback d = true ->
   s_centre (o_spw d) == 0 /\ s_n (o_spw d) = data_chans F (the_dict po) /\ s_side (o_spw d) = 1%Z /\
   ((0 < data_chans F (the_dict po))%Z -> chan_width (o_spw d) == x_bw s / inject_Z (x_N s)) /\
   forall k, (0 < data_chans F (the_dict po))%Z ->
     chan_freq (o_spw d) k == inject_Z (k - data_chans F (the_dict po) / 2) * (x_bw s / inject_Z (x_N s))).
Proof.
  intros HN HF. unfold open_v4. rewrite HF. destruct (ds_validate po =? 0)%Z; cbn [negb]; [|discriminate].
  destruct (take_len _ <=? 0)%Z eqn:D; [discriminate|].
  assert (K : forall w, match plookup "channels" (the_dict po) with
                        | Some v => subrange (v4_spw (x_centre s) (x_bw s) (x_N s)) (fst (py_indices (x_N s) v))
                                             (snd (py_indices (x_N s) v))
                        | None => Some (v4_spw (x_centre s) (x_bw s) (x_N s)) end = Some w ->
                        s_n w = take_len (axis_range (x_N s) (the_dict po) "channels")).
  { intros w. unfold axis_range. destruct (plookup "channels" (the_dict po)) as [v|].
    - intros E. apply subrange_some in E. destruct E as (_ & E1 & _ & _ & _ & E5 & _). rewrite E5. unfold take_len. lia.
    - intros E. injection E as <-. rewrite v4_spw_n. unfold take_len. cbn [fst snd]. lia. }
  destruct (match plookup "channels" (the_dict po) with Some _ => _ | None => _ end) as [w|]; [|discriminate].
  specialize (K w eq_refl). intros H. injection H as <-. cbn [o_fallback o_spw].
  unfold gen_v4_fallback_test. rewrite K. set (n' := data_chans F (the_dict po)).
  split.
  - destruct (take_len _ =? n')%Z eqn:E; cbn [negb]; split; try discriminate; try reflexivity;
      [apply Z.eqb_eq in E; intros N; exfalso; apply N; symmetry; exact E|apply Z.eqb_neq in E; intros _ N; apply E; symmetry; exact N].
  - intros FB. rewrite FB. unfold spw_init. cbn [s_centre s_n s_side s_bw].
    assert (NN : ~ inject_Z (x_N s) == 0) by (apply inject_Z_nonzero; lia).
    assert (W : (0 < n')%Z -> chan_width (mkSpw q_fallback_centre (q_init_bandwidth (q_v4_channel_width (x_bw s) (x_N s)) n') n' gen_v4_sideband)
                             == x_bw s / inject_Z (x_N s)).
    { intros Hn. unfold chan_width. cbn [s_bw s_n].
      unfold q_init_bandwidth, gen_spw_init_bandwidth, q_v4_channel_width, gen_v4_channel_width.
      field. split; first [exact NN|apply inject_Z_nonzero; lia]. }
    split; [reflexivity|]. split; [reflexivity|]. split; [reflexivity|]. split; [exact W|].
    intros k Hn. rewrite chan_freq_closed by (cbn [s_n]; lia). unfold spec_chan_freq. cbn [s_centre s_bw s_n s_side].
    unfold q_fallback_centre, gen_v4_fallback_centre, gen_v4_sideband,
           q_init_bandwidth, gen_spw_init_bandwidth, q_v4_channel_width, gen_v4_channel_width.
    change (inject_Z 0) with 0. change (inject_Z 1) with 1. field. split; first [exact NN|apply inject_Z_nonzero; lia].
Qed.

(* ---------------- named windows ---------------- *)
Lemma ctor_defaults_documented :
  gen_spw_default_sideband = (-1)%Z /\ gen_spw_default_band = "L"%string /\ gen_spw_product_of_none = ""%string.
Proof. repeat split; reflexivity. Qed.

Lemma v4_names_documented :
  gen_v4_product_attr = "sub_product"%string /\ gen_v4_product_default = ""%string /\ gen_v4_band_attr = "sub_band"%string
  /\ gen_v4_band_map = [("l", "L"); ("s", "S"); ("u", "UHF"); ("x", "X")]%string.
Proof. repeat split; reflexivity. Qed.

(* the constructor: explicit arguments win, omitted ones take the documented defaults; the numeric part is spw_init *)
Lemma spw_new_spec k :
  j_w (spw_new k) = spw_init (k_centre k, k_cw k, k_n k, match k_sideband k with Some s => s | None => (-1)%Z end, k_bandwidth k)
  /\ j_product (spw_new k) = match k_product k with Some s => s | None => ""%string end
  /\ j_band (spw_new k) = match k_band k with Some b => b | None => "L"%string end.
Proof. repeat split; reflexivity. Qed.

(* along ANY history of sub-ranges and re-channelisations the product, the band and the sideband stay what they were *)
Lemma history_keeps_names : forall ops o r, In (Some r) (obj_run o ops) ->
  j_product r = j_product o /\ j_band r = j_band o /\ s_side (j_w r) = s_side (j_w o).
Proof.
  induction ops as [|op ops IH]; intros o r Hin; [contradiction|].
  destruct op as [f l|m]; cbn [obj_run] in Hin.
  - unfold obj_subrange in Hin. destruct (subrange (j_w o) f l) as [w|] eqn:E; cbn [option_map] in Hin.
    + apply subrange_some in E. destruct E as (_ & _ & _ & _ & _ & _ & Sd).
      destruct Hin as [H|H].
      * injection H as <-. cbn [j_product j_band j_w]. auto.
      * destruct (IH _ _ H) as (A & B & C). cbn [j_product j_band j_w] in *. rewrite A, B, C. auto.
    + destruct Hin as [H|[]]. discriminate.
  - destruct Hin as [H|H].
    + injection H as <-. cbn [obj_rechannelise j_product j_band j_w]. repeat split.
      unfold rechannelise, q_rechannelise, gen_spw_rechannelise. destruct (m =? s_n (j_w o))%Z; reflexivity.
    + destruct (IH _ _ H) as (A & B & C). cbn [obj_rechannelise j_product j_band j_w] in *. rewrite A, B, C.
      repeat split. unfold rechannelise, q_rechannelise, gen_spw_rechannelise. destruct (m =? s_n (j_w o))%Z; reflexivity.
Qed.

(* ---------------- algebraic laws of windows ---------------- *)
(* a sub-range of a sub-range is the sub-range of the sum of the offsets *)
Lemma subrange_compose w f l w1 f2 l2 w2 : subrange w f l = Some w1 -> subrange w1 f2 l2 = Some w2 ->
  exists w3, subrange w (f + f2) (f + l2) = Some w3 /\ spw_eq w2 w3.
Proof.
  intros H1 H2.
  destruct (subrange_some _ _ _ _ H1) as (A0 & A1 & A2 & C1 & B1 & N1 & S1).
  destruct (subrange_some _ _ _ _ H2) as (D0 & D1 & D2 & C2 & B2 & N2 & S2).
  destruct (subrange w (f + f2) (f + l2)) as [w3|] eqn:E.
  2: { exfalso. apply subrange_none in E. apply E. lia. }
  exists w3. split; [reflexivity|].
  destruct (subrange_some _ _ _ _ E) as (_ & _ & _ & C3 & B3 & N3 & S3).
  assert (NN : ~ inject_Z (s_n w) == 0) by (apply inject_Z_nonzero; lia).
  assert (NL : ~ inject_Z (l - f) == 0) by (apply inject_Z_nonzero; lia).
  unfold spw_eq. split; [|split; [|split]].
  - rewrite C2, C3, C1, B1, N1, S1.
    assert (X : ((f + f2 + (f + l2)) / 2 - s_n w / 2 = ((f + l) / 2 - s_n w / 2) + ((f2 + l2) / 2 - (l - f) / 2))%Z).
    { pose proof (half_diff f l). replace (f + f2 + (f + l2))%Z with ((f2 + l2) + f * 2)%Z by lia.
      rewrite Z.div_add by lia. lia. }
    rewrite X, inject_Z_plus. field. split; assumption.
  - rewrite B2, B3, B1, N1. replace (f + l2 - (f + f2))%Z with (l2 - f2)%Z by lia. field. split; assumption.
  - lia.
  - congruence.
Qed.

(* the sub-range of all channels is the window itself *)
Lemma subrange_full w : (0 < s_n w)%Z -> exists w', subrange w 0 (s_n w) = Some w' /\ spw_eq w' w.
Proof.
  intros Hn. destruct (subrange w 0 (s_n w)) as [w'|] eqn:E.
  2: { exfalso. apply subrange_none in E. apply E. lia. }
  exists w'. split; [reflexivity|]. destruct (subrange_some _ _ _ _ E) as (_ & _ & _ & C & B & N & S).
  assert (NN : ~ inject_Z (s_n w) == 0) by (apply inject_Z_nonzero; lia).
  unfold spw_eq. split; [|split; [|split]].
  - rewrite C. replace ((0 + s_n w) / 2 - s_n w / 2)%Z with 0%Z by (rewrite Z.add_0_l; lia).
    change (inject_Z 0) with 0. field. exact NN.
  - rewrite B. replace (s_n w - 0)%Z with (s_n w) by lia. field. exact NN.
  - lia.
  - exact S.
Qed.

Lemma centre_from_band_centre w :
  s_centre w == band_centre w + (if (s_n w mod 2 =? 0)%Z then inject_Z (s_side w) * (1#2) * chan_width w else 0).
Proof. unfold band_centre. destruct (s_n w mod 2 =? 0)%Z; ring. Qed.

Lemma same_band_same_window u w : band_centre u == band_centre w -> s_bw u == s_bw w -> s_n u = s_n w ->
  s_side u = s_side w -> spw_eq u w.
Proof.
  intros C B N S. unfold spw_eq. split; [|auto].
  rewrite (centre_from_band_centre u), (centre_from_band_centre w). unfold chan_width. rewrite N, S, C.
  destruct (s_n w mod 2 =? 0)%Z; [rewrite B|]; reflexivity.
Qed.

(* re-channelising twice is re-channelising once; re-channelising back restores the window *)
Lemma rechannelise_compose w m k : (0 < s_n w)%Z -> (0 < m)%Z -> (0 < k)%Z ->
  spw_eq (rechannelise (rechannelise w m) k) (rechannelise w k).
Proof.
  intros Hn Hm Hk.
  destruct (rechannelise_band_centre w m Hn Hm) as (C1 & B1 & N1 & S1).
  assert (Hm' : (0 < s_n (rechannelise w m))%Z) by (rewrite N1; exact Hm).
  destruct (rechannelise_band_centre _ k Hm' Hk) as (C2 & B2 & N2 & S2).
  destruct (rechannelise_band_centre w k Hn Hk) as (C3 & B3 & N3 & S3).
  apply same_band_same_window.
  - rewrite C2, C1, C3. reflexivity.
  - rewrite B2, B1, B3. reflexivity.
  - congruence.
  - congruence.
Qed.

Lemma rechannelise_roundtrip w m : (0 < s_n w)%Z -> (0 < m)%Z ->
  spw_eq (rechannelise (rechannelise w m) (s_n w)) w.
Proof.
  intros Hn Hm. pose proof (rechannelise_compose w m (s_n w) Hn Hm Hn) as H. rewrite rechannelise_same in H. exact H.
Qed.

(* equal windows (in the sense of __eq__) have equal channel frequencies and edges *)
Lemma spw_eq_freqs u w k : (s_n w <> 0)%Z -> spw_eq u w -> chan_freq u k == chan_freq w k /\ chan_width u == chan_width w.
Proof.
  intros Hn (C & B & N & S). split.
  - rewrite !chan_freq_closed by congruence. unfold spec_chan_freq. rewrite C, B, N, S. reflexivity.
  - unfold chan_width. rewrite B, N. reflexivity.
Qed.

Example nonvacuous_x :
  (exists d, open_v4 (mkSrc straddle 6 8 1284 856 (Some 8%Z))
                     (Some [("dumps"%string, PSlice (Some (-4)%Z) None None); ("channels"%string, PSlice (Some 2%Z) (Some 6%Z) (Some 1%Z))])
             = ODs d /\ o_a d = 2%Z /\ o_n d = 4%Z /\ o_fallback d = false /\ s_n (o_spw d) = 4%Z /\
             o_index d = [Some (2, 6); Some (2, 6)]%Z) /\
  (exists d, open_v4 (mkSrc straddle 6 8 1284 856 (Some 4%Z)) None = ODs d /\ o_fallback d = true /\ s_n (o_spw d) = 4%Z) /\
  open_v4 (mkSrc straddle 6 8 1284 856 (Some 8%Z)) (Some [("channels"%string, PSlice (Some 5%Z) (Some 2%Z) None)]) = OErr 6 /\
  open_v4 (mkSrc straddle 6 8 1284 856 None) (Some [("dumps"%string, PSlice (Some 6%Z) None None)]) = OErr 5 /\
  j_band (spw_new (mkCall 1284 1 4 None None None None)) = "L"%string /\
  s_side (j_w (spw_new (mkCall 1284 1 4 None None None None))) = (-1)%Z.
Proof.
  split; [eexists; split; [vm_compute; reflexivity|repeat split]|].
  split; [eexists; split; [vm_compute; reflexivity|repeat split]|].
  repeat split; vm_compute; reflexivity.
Qed.

(* ---------------- per-dump values computed from the dump timestamp (numeric sensors) ---------------- *)
(* f = any function of the dump timestamp that respects equality of rationals (interpolation of any sample list onto the
   dump grid is one): its values on the preselected data set are its values on dumps a..b of the whole data set *)
Lemma preselect_sensor_values {B : Type} (f : Q -> B) (eqB : B -> B -> Prop) :
  (forall x y, x == y -> eqB (f x) (f y)) ->
  forall tm n a b j d, (a <= b <= n)%nat -> (j < b - a)%nat ->
  eqB (nth j (map f (timestamps_pre tm a b)) d) (nth j (slice a b (map f (timestamps_full tm n))) d).
Proof.
  intros Hf tm n a b j d Hab Hj.
  rewrite <- map_slice.
  assert (L1 : (j < List.length (timestamps_pre tm a b))%nat)
    by (unfold timestamps_pre; rewrite map_length, length_zrange; exact Hj).
  assert (L2 : (j < List.length (slice a b (timestamps_full tm n)))%nat).
  { unfold slice, timestamps_full. rewrite firstn_length, skipn_length, map_length, length_zrange. lia. }
  rewrite (nth_indep _ d (f 0)) by (rewrite map_length; exact L1).
  rewrite (nth_indep (map f (slice a b _)) d (f 0)) by (rewrite map_length; exact L2).
  rewrite !map_nth. apply Hf. apply (preselect_timestamps tm n a b j Hab Hj).
Qed.
