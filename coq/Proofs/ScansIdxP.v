(* C03: the stored attributes scan_indices / compscan_indices / target_indices (Model/ScansIdx.v).
   1. every read of a stored attribute by the generators happens on a fresh value, so the model with stored attributes
      erases to the model of Scans.v (refinement, all observations / states / bodies that refine a plain body);
   2. after every history of select() calls and complete / nested / selecting / abandoned iterator runs the stored
      attributes are the sorted duplicate-free indices present in the current time selection;
   3. witness: inside the generator, between two items, they are stale. *)
From Coq Require Import ZArith List Bool String Arith Lia Sorted.
From KV Require Import Base.Sx Base.Str Base.SelSlice Gen.Generated Model.Select Model.Scans Model.ScansIdx.
From KV Require Import Proofs.ScansP.
Import ListNotations.
Open Scope Z_scope.

Lemma xselect_spec : forall o x kw,
  match xselect o x kw with
  | Ok x' => select o (x_st x) kw = Ok (x_st x') /\ fresh o x'
  | Err e => select o (x_st x) kw = Err e
  end.
Proof. intros o x kw. unfold xselect. destruct (select o (x_st x) kw); [split; reflexivity | reflexivity]. Qed.

(* self.scan_indices[:] / self.compscan_indices[:] read on a fresh state = what Scans.v computes from the mask *)
Lemma xattr_fresh : forall w o x, fresh o x -> xattr (xit_attr w) x = indices_of (it_field w) o (tk (x_st x)).
Proof. intros w o x F. unfold xattr. rewrite F. destruct w; reflexivity. Qed.
Lemma xpick_fresh : forall w o x, fresh o x -> xpick_target w o x = pick_target w o (tk (x_st x)).
Proof. intros w o x F. unfold xpick_target, pick_target, xattr. rewrite F. destruct w; reflexivity. Qed.

(* the three attributes by name *)
Lemma fresh_means : forall o x, fresh o x ->
  xattr "scan_indices" x = indices_of d_scan o (tk (x_st x))
  /\ xattr "compscan_indices" x = indices_of d_cscan o (tk (x_st x))
  /\ xattr "target_indices" x = indices_of d_target o (tk (x_st x)).
Proof. intros o x F. unfold xattr. rewrite F. repeat split; reflexivity. Qed.

(* what `indices_of f o m` is: strictly increasing (sorted, duplicate-free), and i is in it iff some kept dump has index i *)
Lemma indices_of_means : forall f o m,
  StronglySorted Z.lt (indices_of f o m)
  /\ forall i, In i (indices_of f o m) <-> exists p d, nth_error (o_dumps o) p = Some d /\ nth p m false = true /\ f d = i.
Proof.
  intros f o m. split; [apply sort_uniq_sorted|]. intro i. unfold indices_of. rewrite sort_uniq_In, in_map_iff. split.
  - intros [d [E H]]. apply kept_dumps_In in H. destruct H as [p [A Bp]]. exists p, d. auto.
  - intros (p & d & A & Bp & E). exists d. split; [exact E|]. apply kept_dumps_In. exists p. auto.
Qed.

Lemma freshb_sound : forall o x, fresh o x -> freshb o x = true.
Proof.
  intros o [s idx] F. unfold fresh in F. cbn [x_idx x_st] in F. subst idx. unfold freshb. cbn [x_idx x_st].
  unfold recompute. rewrite map_length, Nat.eqb_refl, andb_true_r.
  assert (R : forall a, zs_eqb a a = true) by (induction a; simpl; [reflexivity | rewrite Z.eqb_refl; exact IHa]).
  cbv [sel_indices_attrs]. cbn -[indices_of zs_eqb].
  repeat match goal with |- context [zs_eqb ?a ?b] => replace (zs_eqb a b) with true by (symmetry; apply R) end. reflexivity.
Qed.

(* a body on the extended state refines a body on the plain state *)
Definition refines {B} (o : obs) (xbody : xst -> res (B * xst)) (body : st -> res (B * st)) : Prop :=
  forall x, fresh o x ->
    match xbody x with
    | Ok (b, x') => body (x_st x) = Ok (b, x_st x') /\ fresh o x'
    | Err e => body (x_st x) = Err e
    end.

Definition yields_fresh {B} (o : obs) (ys : list (yielded B)) (ix : list idxtab) : Prop :=
  Forall2 (fun y i => i = recompute o (tk (y_st y))) ys ix.

(* the loop: NO freshness of the entry state is needed (after _set_keep(old) the attributes are stale), because the first
   statement of the loop body is a select() and the only stored attribute read (target_indices) is read after it *)
Lemma xit_loop_refines : forall B (O : sobs) w old (xbody : xst -> res (B * xst)) body, refines (so O) xbody body ->
  forall l x,
  match xit_loop O w old xbody l x with
  | Ok (ys, ix, x') => it_loop O w old body l (x_st x) = Ok (ys, x_st x') /\ yields_fresh (so O) ys ix /\ (l = [] -> x' = x)
  | Err e => it_loop O w old body l (x_st x) = Err e
  end.
Proof.
  intros B O w old xbody body R. induction l as [|v l IH]; intro x; cbn [xit_loop it_loop].
  - split; [reflexivity|]. split; [constructor | reflexivity].
  - pose proof (xselect_spec (so O) x (yield_kw w v)) as S1.
    destruct (xselect (so O) x (yield_kw w v)) as [x1|e]; [|rewrite S1; reflexivity].
    destruct S1 as [E1 F1]. rewrite E1. rewrite (xpick_fresh w _ x1 F1).
    destruct (name_of O w v) as [nm|]; [|reflexivity].
    destruct (pick_target w (so O) (tk (x_st x1))) as [t|]; [|reflexivity].
    specialize (R x1 F1). destruct (xbody x1) as [[b x2]|e]; [|rewrite R; reflexivity].
    destruct R as [Eb F2]. rewrite Eb.
    specialize (IH (xafter_yield w old x2)). cbn [xafter_yield x_st] in IH.
    destruct (xit_loop O w old xbody l (xafter_yield w old x2)) as [[[ys ix] xf]|e]; [|rewrite IH; reflexivity].
    destruct IH as (E & FA & _). rewrite E. split; [reflexivity|]. split; [|discriminate].
    constructor; [exact F1 | exact FA].
Qed.

(* MAIN (refinement): started on fresh attributes, the generator with STORED attributes does exactly what the model of
   Scans.v does, shows fresh attributes at every yield and leaves fresh attributes after exhaustion (also with no item at all:
   the final select() recomputes them) *)
Theorem xiterate_refines : forall B (O : sobs) w (xbody : xst -> res (B * xst)) body, refines (so O) xbody body ->
  forall x, fresh (so O) x ->
  match xiterate O w xbody x with
  | Ok (ys, ix, xf) => iterate O w body (x_st x) = Ok (ys, x_st xf) /\ fresh (so O) xf /\ yields_fresh (so O) ys ix
  | Err e => iterate O w body (x_st x) = Err e
  end.
Proof.
  intros B O w xbody body R x F. unfold xiterate, iterate. rewrite (xattr_fresh w _ x F).
  pose proof (xit_loop_refines B O w (tk (x_st x)) xbody body R (indices_of (it_field w) (so O) (tk (x_st x))) x) as L1.
  destruct (xit_loop O w (tk (x_st x)) xbody (indices_of (it_field w) (so O) (tk (x_st x))) x) as [[[ys ix] x']|e];
    [|rewrite L1; reflexivity].
  destruct L1 as (E & FA & _). rewrite E.
  pose proof (xselect_spec (so O) x' (set_key "reset" (VStr (it_final_reset w)) (sel (x_st x)))) as S2.
  destruct (xselect (so O) x' (set_key "reset" (VStr (it_final_reset w)) (sel (x_st x)))) as [xf|e]; [|rewrite S2; reflexivity].
  destruct S2 as [E2 F2]. rewrite E2. auto.
Qed.

Lemma xno_body_refines : forall o, refines o xno_body no_body.
Proof. intros o x F. simpl. auto. Qed.

(* nesting closes: a generator run to exhaustion is a refining body *)
Lemma xiterate_plain_refines : forall O w, refines (so O) (xiterate_plain O w) (iterate_plain O w).
Proof.
  intros O w x F. unfold xiterate_plain, iterate_plain.
  pose proof (xiterate_refines unit O w xno_body no_body (xno_body_refines _) x F) as H.
  destruct (xiterate O w xno_body x) as [[[ys ix] xf]|e]; [|exact H]. destruct H as (E & F2 & _). auto.
Qed.

Definition body_calls_u (O : sobs) (calls : list kwargs) (s : st) : res (unit * st) :=
  match run_calls (so O) s calls with Ok s2 => Ok (tt, s2) | Err e => Err e end.
Lemma xrun_calls_spec : forall o calls x, fresh o x ->
  match xrun_calls o x calls with
  | Ok x' => run_calls o (x_st x) calls = Ok (x_st x') /\ fresh o x'
  | Err e => run_calls o (x_st x) calls = Err e
  end.
Proof.
  intros o. induction calls as [|c calls IH]; intros x F; cbn [xrun_calls run_calls]; [auto|].
  pose proof (xselect_spec o x c) as S. destruct (xselect o x c) as [x1|e]; [|rewrite S; reflexivity].
  destruct S as [E F1]. rewrite E. apply IH. exact F1.
Qed.
Lemma xbody_calls_refines : forall O calls, refines (so O) (xbody_calls O calls) (body_calls_u O calls).
Proof.
  intros O calls x F. unfold xbody_calls, body_calls_u. pose proof (xrun_calls_spec (so O) calls x F) as H.
  destruct (xrun_calls (so O) x calls) as [x'|e]; [|rewrite H; reflexivity]. destruct H as [E F']. rewrite E. auto.
Qed.

(* abandoned iteration: the state left is the state of a yield, hence fresh *)
Theorem xiterate_break_refines : forall B (O : sobs) w (xbody : xst -> res (B * xst)) body, refines (so O) xbody body ->
  forall n x, fresh (so O) x ->
  match xiterate_break O w xbody n x with
  | Ok (ys, a, xf) => iterate_break O w body n (x_st x) = Ok (ys, a, x_st xf) /\ fresh (so O) xf
  | Err e => iterate_break O w body n (x_st x) = Err e
  end.
Proof.
  intros B O w xbody body R n x F. unfold xiterate_break, iterate_break. rewrite (xattr_fresh w _ x F).
  destruct (nth_error (indices_of (it_field w) (so O) (tk (x_st x))) n) as [v|].
  - pose proof (xit_loop_refines B O w (tk (x_st x)) xbody body R (firstn n (indices_of (it_field w) (so O) (tk (x_st x)))) x) as L1.
    destruct (xit_loop O w (tk (x_st x)) xbody (firstn n (indices_of (it_field w) (so O) (tk (x_st x)))) x) as [[[ys ix] x']|e];
      [|rewrite L1; reflexivity].
    destruct L1 as (E & _ & _). rewrite E.
    pose proof (xselect_spec (so O) x' (yield_kw w v)) as S1.
    destruct (xselect (so O) x' (yield_kw w v)) as [x1|e]; [|rewrite S1; reflexivity].
    destruct S1 as [E1 F1]. rewrite E1. rewrite (xpick_fresh w _ x1 F1).
    destruct (name_of O w v) as [nm|]; [|reflexivity].
    destruct (pick_target w (so O) (tk (x_st x1))) as [t|]; [|reflexivity]. auto.
  - pose proof (xiterate_refines B O w xbody body R x F) as H.
    destruct (xiterate O w xbody x) as [[[ys ix] xf]|e]; [|rewrite H; reflexivity].
    destruct H as (E & F2 & _). rewrite E. auto.
Qed.

(* ---------------------------------------------------------------- histories *)
(* the same operations on the plain state of Scans.v *)
Definition step (O : sobs) (s : st) (op : xop) : option st :=
  match op with
  | XSelect kw => match select (so O) s kw with Ok s' => Some s' | Err _ => None end
  | XIter w => match iterate_plain O w s with Ok (_, s') => Some s' | Err _ => None end
  | XNested outer inner => match iterate_nested O outer inner s with Ok (_, s') => Some s' | Err _ => None end
  | XIterSel w calls => match iterate O w (body_calls_u O calls) s with Ok (_, s') => Some s' | Err _ => None end
  | XBreak w n => match iterate_break O w no_body n s with Ok (_, _, s') => Some s' | Err _ => None end
  end.

Lemma xstep_spec : forall O x op, fresh (so O) x ->
  match xstep O x op with
  | Some x' => step O (x_st x) op = Some (x_st x') /\ fresh (so O) x'
  | None => step O (x_st x) op = None
  end.
Proof.
  intros O x op F. destruct op as [kw|w|outer inner|w calls|w n]; cbn [xstep step].
  - pose proof (xselect_spec (so O) x kw) as H. destruct (xselect (so O) x kw); [destruct H as [E F']; rewrite E; auto | rewrite H; reflexivity].
  - pose proof (xiterate_plain_refines O w x F) as H.
    destruct (xiterate_plain O w x) as [[ys x']|e]; [destruct H as [E F']; rewrite E; auto | rewrite H; reflexivity].
  - unfold iterate_nested.
    change (iterate O outer (fun s1 => iterate_plain O inner s1) (x_st x)) with (iterate O outer (iterate_plain O inner) (x_st x)).
    pose proof (xiterate_refines _ O outer _ _ (xiterate_plain_refines O inner) x F) as H.
    destruct (xiterate O outer (xiterate_plain O inner) x) as [[[ys ix] x']|e]; [destruct H as (E & F' & _); rewrite E; auto | rewrite H; reflexivity].
  - pose proof (xiterate_refines _ O w _ _ (xbody_calls_refines O calls) x F) as H.
    destruct (xiterate O w (xbody_calls O calls) x) as [[[ys ix] x']|e]; [destruct H as (E & F' & _); rewrite E; auto | rewrite H; reflexivity].
  - pose proof (xiterate_break_refines _ O w _ _ (xno_body_refines _) n x F) as H.
    destruct (xiterate_break O w xno_body n x) as [[[ys a] x']|e]; [destruct H as (E & F'); rewrite E; auto | rewrite H; reflexivity].
Qed.

Fixpoint run (O : sobs) (s : st) (ops : list xop) : option st :=
  match ops with
  | [] => Some s
  | op :: rest => match step O s op with Some s' => run O s' rest | None => None end
  end.

Lemma xinit_fresh : forall o, fresh o (xinit o).
Proof. intro o. reflexivity. Qed.

(* MAIN (invariant over histories): whatever sequence of select() calls, complete iterations (plain, nested, with a selecting
   body) and abandoned iterations a user performs, (a) the model with stored attributes goes through exactly the states of the
   model of Scans.v, (b) the stored attributes are fresh in the state reached *)
Theorem xrun_spec : forall O ops x, fresh (so O) x ->
  match xrun O x ops with
  | Some x' => run O (x_st x) ops = Some (x_st x') /\ fresh (so O) x'
  | None => run O (x_st x) ops = None
  end.
Proof.
  intros O. induction ops as [|op ops IH]; intros x F; cbn [xrun run]; [auto|].
  pose proof (xstep_spec O x op F) as H. destruct (xstep O x op) as [x1|]; [|rewrite H; reflexivity].
  destruct H as [E F1]. rewrite E. apply IH. exact F1.
Qed.

Theorem index_lists_after_every_history : forall O ops x', xrun O (xinit (so O)) ops = Some x' ->
  run O (init (so O)) ops = Some (x_st x')
  /\ xattr "scan_indices" x' = indices_of d_scan (so O) (tk (x_st x'))
  /\ xattr "compscan_indices" x' = indices_of d_cscan (so O) (tk (x_st x'))
  /\ xattr "target_indices" x' = indices_of d_target (so O) (tk (x_st x')).
Proof.
  intros O ops x' H. pose proof (xrun_spec O ops (xinit (so O)) (xinit_fresh _)) as S. rewrite H in S.
  destruct S as [E F]. split; [exact E|]. apply fresh_means. exact F.
Qed.

(* ---------------------------------------------------------------- witness: stale inside the generator *)
Definition ex_x : xst := {| x_st := ex_s; x_idx := recompute (so ex_O) (tk ex_s) |}.
Example stale_between_items :
  fresh (so ex_O) ex_x
  /\ xattr "scan_indices" ex_x = [2; 3; 4]
  (* suspended between item 2 and item 3: the old mask is back (dumps 5..9), the attributes still describe item 2 *)
  /\ (exists xb, xbetween ex_O WScans ex_x = Some xb /\ positions (tk (x_st xb)) = [5; 6; 7; 8; 9]
        /\ xattr "scan_indices" xb = [2] /\ xattr "target_indices" xb = [1] /\ freshb (so ex_O) xb = false)
  (* at every yield and after exhaustion they are fresh *)
  /\ (exists ys ix xf, xiterate ex_O WScans xno_body ex_x = Ok (ys, ix, xf)
        /\ map (fun t => map snd t) ix = [[[2]; [0]; [1]]; [[3]; [1]; [1]]; [[4]; [1]; [0]]]
        /\ map snd (x_idx xf) = [[2; 3; 4]; [0; 1]; [0; 1]] /\ freshb (so ex_O) xf = true).
Proof.
  split; [reflexivity|]. split; [vm_compute; reflexivity|]. split.
  - eexists. split; [vm_compute; reflexivity|]. vm_compute. repeat split; reflexivity.
  - eexists. eexists. eexists. split; [vm_compute; reflexivity|]. vm_compute. repeat split; reflexivity.
Qed.
