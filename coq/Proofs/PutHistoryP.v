(* C08: histories of puts to one chunk name. *)
From Coq Require Import ZArith List Bool Lia.
From KV Require Import Base.Sx Model.Npy Model.StoreErr Proofs.StoreErrP.
Import ListNotations.
Open Scope Z_scope.

Record put_req := { pr_writes : list bytes; pr_trunc : option nat; pr_meta : bool; pr_evs : list event }.
Definition pr_new (p : put_req) : bytes := new_content (pr_writes p) (pr_trunc p).

(* one put after the other to the SAME chunk name, each answered by its own list of environment events (a put whose
   process died is followed by the next writer's put on whatever the dead one left behind, temp file included) *)
Fixpoint run_puts (base : name) (ps : list put_req) (f : fs) : list (option (outcome unit)) * fs :=
  match ps with
  | [] => ([], f)
  | p :: t =>
      let r := put_chunk base (pr_writes p) (pr_trunc p) (pr_meta p) (pr_evs p) f in
      let rest := run_puts base t (snd r) in
      (fst r :: fst rest, snd rest)
  end.

Lemma run_puts_app base : forall a b f,
  run_puts base (a ++ b) f =
  (fst (run_puts base a f) ++ fst (run_puts base b (snd (run_puts base a f))),
   snd (run_puts base b (snd (run_puts base a f)))).
Proof.
  induction a as [|p a IH]; intros b f.
  - cbn [app run_puts fst snd]. destruct (run_puts base b f); reflexivity.
  - cbn [app run_puts fst snd]. rewrite IH. reflexivity.
Qed.

Lemma run_puts_length base : forall ps f, List.length (fst (run_puts base ps f)) = List.length ps.
Proof. induction ps as [|p ps IH]; intro f; cbn [run_puts fst List.length]; [reflexivity|]. rewrite IH. reflexivity. Qed.

(* whatever happens during any number of puts, the chunk name holds what it held before or the COMPLETE content of
   one of the puts: never a mixture, never a partial file *)
Lemma puts_final_is_some_put base : forall ps f,
  lookup (final_name base) (snd (run_puts base ps f)) = lookup (final_name base) f \/
  exists p, In p ps /\ lookup (final_name base) (snd (run_puts base ps f)) = Some (pr_new p).
Proof.
  induction ps as [|p ps IH]; intro f; cbn [run_puts snd].
  - left. reflexivity.
  - pose proof (put_atomic base (pr_writes p) (pr_trunc p) (pr_meta p) (pr_evs p) f) as [A _]. cbv zeta in A.
    destruct (IH (snd (put_chunk base (pr_writes p) (pr_trunc p) (pr_meta p) (pr_evs p) f))) as [E|(q & Hq & E)].
    + rewrite E. destruct A as [A|A]; [left; exact A|right; exists p; split; [left; reflexivity|exact A]].
    + right. exists q. split; [right; exact Hq|exact E].
Qed.

(* once a put has reported success, the chunk name holds that put's complete content or the complete content of a
   LATER put -- nothing older comes back, whatever fails afterwards *)
Theorem puts_history base : forall pre p post f,
  nth (List.length pre) (fst (run_puts base (pre ++ p :: post) f)) None = Some (Ret tt) ->
  lookup (final_name base) (snd (run_puts base (pre ++ p :: post) f)) = Some (pr_new p) \/
  exists q, In q post /\ lookup (final_name base) (snd (run_puts base (pre ++ p :: post) f)) = Some (pr_new q).
Proof.
  intros pre p post f H. rewrite run_puts_app in *. cbn [fst snd] in *.
  set (f1 := snd (run_puts base pre f)) in *.
  rewrite app_nth2 in H by (rewrite run_puts_length; lia).
  rewrite run_puts_length, Nat.sub_diag in H. cbn [run_puts fst snd nth] in *.
  pose proof (put_atomic base (pr_writes p) (pr_trunc p) (pr_meta p) (pr_evs p) f1) as [_ S]. cbv zeta in S.
  specialize (S H).
  destruct (puts_final_is_some_put base post (snd (put_chunk base (pr_writes p) (pr_trunc p) (pr_meta p) (pr_evs p) f1)))
    as [E|(q & Hq & E)].
  - left. rewrite E. exact S.
  - right. exists q. split; assumption.
Qed.

(* idempotence: putting the same chunk again over a complete copy leaves the name holding that content whatever
   happens to the second put *)
Lemma put_same_content_stable base writes trunc meta_ok evs f :
  lookup (final_name base) f = Some (new_content writes trunc) ->
  lookup (final_name base) (snd (put_chunk base writes trunc meta_ok evs f)) = Some (new_content writes trunc).
Proof.
  intro H. pose proof (put_atomic base writes trunc meta_ok evs f) as [A _]. cbv zeta in A.
  destruct A as [A|A]; [rewrite A; exact H|exact A].
Qed.

(* non-vacuity: put A succeeds, put B is cut short by a short write + error, put C dies during its first write:
   the reader still finds A's complete content *)
Example puts_history_example :
  let A := {| pr_writes := [[1; 2]; [3]]; pr_trunc := None; pr_meta := true; pr_evs := [] |} in
  let B := {| pr_writes := [[7; 7]; [8; 8]]; pr_trunc := None; pr_meta := true; pr_evs := [EOk; EOk; EShort 1; EErr B_OSError] |} in
  let C := {| pr_writes := [[9; 9; 9]]; pr_trunc := None; pr_meta := true; pr_evs := [EOk; EDie 2] |} in
  let r := run_puts [97] [A; B; C] [] in
  nth 0 (fst r) None = Some (Ret tt) /\ nth 1 (fst r) None <> Some (Ret tt) /\ nth 2 (fst r) None = None /\
  lookup (final_name [97]) (snd r) = Some [1; 2; 3].
Proof. vm_compute. repeat split; try reflexivity. discriminate. Qed.
