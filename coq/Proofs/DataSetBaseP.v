(* C01: list / mask / tree lemmas used by the data-set proofs (Proofs/DataSetP.v). *)
From Coq Require Import ZArith List Bool Lia.
From KV Require Import Base.Sx Base.PySlice Base.AxisIndex Base.NdArray Model.DataSet.
Import ListNotations.
Open Scope Z_scope.

(* ------------------------------------------------------------------ masks *)

Lemma msum_nonzero_from m : forall i, msum m = zlen (nonzero_from i m).
Proof.
  induction m as [|b r IH]; intro i; [reflexivity|].
  cbn [msum nonzero_from]. destruct b; [rewrite zlen_cons|]; rewrite (IH (i + 1)); lia.
Qed.

Lemma msum_nonzero m : msum m = zlen (nonzero m).
Proof. apply msum_nonzero_from. Qed.

Lemma nonzero_from_app a : forall b i, nonzero_from i (a ++ b) = nonzero_from i a ++ nonzero_from (i + zlen a) b.
Proof.
  induction a as [|x r IH]; intros b i.
  - cbn. now rewrite Z.add_0_r.
  - cbn [app nonzero_from]. rewrite IH, zlen_cons.
    replace (i + 1 + zlen r) with (i + (1 + zlen r)) by lia. destruct x; reflexivity.
Qed.

Lemma nonzero_from_shift m : forall i, nonzero_from i m = map (fun p => i + p) (nonzero_from 0 m).
Proof.
  induction m as [|b r IH]; intro i; [reflexivity|].
  cbn [nonzero_from].
  assert (E : nonzero_from (i + 1) r = map (fun p => i + p) (nonzero_from (0 + 1) r)).
  { rewrite (IH (i + 1)), (IH (0 + 1)), map_map. apply map_ext. intro. lia. }
  destruct b; cbn [map]; rewrite E; [f_equal; lia|reflexivity].
Qed.

Lemma nonzero_pad_false m : nonzero (m ++ [false]) = nonzero m.
Proof. unfold nonzero. rewrite nonzero_from_app. cbn. now rewrite app_nil_r. Qed.

Lemma msum_app a b : msum (a ++ b) = msum a + msum b.
Proof. induction a as [|x r IH]; [reflexivity|]. cbn [app msum]. rewrite IH. lia. Qed.

Lemma nonzero_range m x : In x (nonzero m) -> 0 <= x < zlen m.
Proof. intro H. apply nonzero_from_range in H. lia. Qed.

Lemma nonzero_in_range m : in_range (zlen m) (nonzero m).
Proof. apply Forall_forall. intros x H. now apply nonzero_range. Qed.

(* l[mask] = the elements at the positions of the mask (mask not longer than the list) *)
Lemma select_nth {A} (d : A) : forall m (l : list A) i, (List.length m <= List.length l)%nat ->
  select m l = map (fun q => nth (Z.to_nat (q - i)) l d) (nonzero_from i m).
Proof.
  induction m as [|b m IH]; intros l i H; [reflexivity|].
  destruct l as [|x l]; [cbn in H; lia|]. cbn in H.
  cbn [select nonzero_from].
  assert (T : select m l = map (fun q => nth (Z.to_nat (q - i)) (x :: l) d) (nonzero_from (i + 1) m)).
  { rewrite (IH l (i + 1)) by lia. apply map_ext_in. intros q Hq. apply nonzero_from_range in Hq.
    replace (Z.to_nat (q - i)) with (S (Z.to_nat (q - (i + 1)))) by lia. reflexivity. }
  destruct b; [|exact T]. cbn [map]. rewrite Z.sub_diag. cbn [Z.to_nat nth]. now rewrite T.
Qed.

Lemma select_length {A} : forall m (l : list A), (List.length m <= List.length l)%nat ->
  zlen (select m l) = zlen (nonzero m).
Proof.
  intros m l H. destruct l as [|d l].
  - destruct m; [reflexivity|cbn in H; lia].
  - rewrite (select_nth d m (d :: l) 0 H). apply zlen_map.
Qed.

Lemma znth_nth (l : list Z) i : znth l i = nth (Z.to_nat i) l 0.
Proof. reflexivity. Qed.

Lemma nth_map_in {A B} (f : A -> B) l i d d' : (i < List.length l)%nat -> nth i (map f l) d = f (nth i l d').
Proof.
  intro H. rewrite nth_indep with (d' := f d') by (now rewrite map_length). apply map_nth.
Qed.

Lemma nth_select {A} (d : A) m (l : list A) i : (List.length m <= List.length l)%nat -> 0 <= i < zlen (nonzero m) ->
  nth (Z.to_nat i) (select m l) d = nth (Z.to_nat (znth (nonzero m) i)) l d.
Proof.
  intros H Hi. rewrite (select_nth d m l 0 H).
  rewrite nth_map_in with (d' := 0) by (unfold zlen, nonzero in Hi; lia).
  unfold znth, nonzero. now rewrite Z.sub_0_r.
Qed.

Lemma znth_map_znth p1 p2 i : 0 <= i < zlen p2 -> znth (map (znth p1) p2) i = znth p1 (znth p2 i).
Proof.
  intro H. unfold znth at 1. rewrite nth_map_in with (d' := 0) by (unfold zlen in H; lia). reflexivity.
Qed.

Lemma znth_in (l : list Z) i : 0 <= i < zlen l -> In (znth l i) l.
Proof. intro H. apply nth_In. unfold zlen in H. lia. Qed.

(* ------------------------------------------------------------------ segments *)

Lemma all2_fits_concat : forall rows masks, all2 fits rows masks = true -> zlen (List.concat masks) = rows_total rows.
Proof.
  induction rows as [|n r IH]; intros [|m ms] H; try discriminate; [reflexivity|].
  cbn in H. apply andb_prop in H. destruct H as [F H]. unfold fits in F.
  cbn [List.concat rows_total fold_right]. rewrite zlen_app. fold (rows_total r). rewrite (IH ms H). lia.
Qed.

Lemma split_lens_ok {A} : forall lens (l : list A), Forall (fun n => 0 <= n) lens -> rows_total lens = zlen l ->
  List.concat (split_lens lens l) = l /\ all2 (fun n (m : list A) => zlen m =? n) lens (split_lens lens l) = true.
Proof.
  induction lens as [|n r IH]; intros l Hn Hs.
  - cbn in *. destruct l; [split; reflexivity|]. rewrite zlen_cons in Hs. pose proof (zlen_nonneg l). lia.
  - inversion Hn as [|? ? Hn0 Hn']; subst. cbn [rows_total fold_right] in Hs. fold (rows_total r) in Hs.
    assert (R : Forall (fun n => 0 <= n) r -> 0 <= rows_total r).
    { clear. induction 1; cbn; [lia|]. fold (rows_total l). lia. }
    specialize (R Hn').
    assert (L : (Z.to_nat n <= List.length l)%nat) by (unfold zlen in Hs; lia).
    destruct (IH (skipn (Z.to_nat n) l) Hn') as [C F].
    { unfold zlen. rewrite skipn_length. unfold zlen in Hs. lia. }
    cbn [split_lens List.concat all2]. rewrite C, F, firstn_skipn. split; [reflexivity|].
    rewrite andb_true_r. unfold zlen. rewrite firstn_length_le by assumption. apply Z.eqb_eq. lia.
Qed.

(* ------------------------------------------------------------------ trees *)

Lemma child_part S off n p : 0 <= off -> 0 <= p < n -> child (part_tree S off n) p = child S (off + p).
Proof.
  intros Ho Hp. unfold child, part_tree. cbn [children].
  rewrite Z2Nat.inj_add by lia.
  remember (children S) as ch. clear Heqch.
  assert (E : forall (l : list tree) k m d, (m < k)%nat -> nth m (firstn k l) d = nth m l d).
  { induction l as [|x l IH]; intros k m d H; [now rewrite firstn_nil|].
    destruct k; [lia|]. destruct m; [reflexivity|]. cbn. apply IH. lia. }
  rewrite E by lia.
  assert (E2 : forall (l : list tree) k m d, nth m (skipn k l) d = nth (k + m) l d).
  { induction l as [|x l IH]; intros k m d; [rewrite skipn_nil; now destruct m, k|].
    destruct k; [reflexivity|]. cbn. apply IH. }
  apply E2.
Qed.

Lemma take_keep_node t ps rest : take t ((ps, false) :: rest) = Node (map (fun p => take (child t p) rest) ps).
Proof. reflexivity. Qed.

(* the concatenation of the per-part selections is the selection of the concatenated mask on the whole array *)
Lemma cat_parts S ts : forall rows masks off, 0 <= off -> all2 fits rows masks = true ->
  flat_map children (map (fun p => take (fst p) (mask_sel (snd p) :: ts)) (combine (parts S off rows) masks))
  = map (fun p => take (child S p) ts) (nonzero_from off (List.concat masks)).
Proof.
  induction rows as [|n r IH]; intros [|m ms] off Ho H; try discriminate; [reflexivity|].
  cbn in H. apply andb_prop in H. destruct H as [F H]. unfold fits in F. apply Z.eqb_eq in F.
  cbn [parts combine map flat_map fst snd List.concat].
  rewrite nonzero_from_app, map_app, F.
  pose proof (zlen_nonneg m).
  rewrite (IH ms (off + n)) by (try assumption; lia). f_equal.
  unfold mask_sel. rewrite take_keep_node. cbn [children]. unfold nonzero.
  rewrite (nonzero_from_shift m off), map_map. apply map_ext_in. intros p Hp.
  apply nonzero_from_range in Hp. rewrite child_part by lia. reflexivity.
Qed.

Lemma stage1_take S x a1 : stage1 S x = Ok a1 ->
  all2 fits (ix_rows x) (ix_tmasks x) = true /\ all2 fits (ix_dims x) (ix_tail x) = true /\
  a1 = mk_nd (map (fun s => zlen (fst s)) (mask_sel (List.concat (ix_tmasks x)) :: tail_sels x))
             (take S (mask_sel (List.concat (ix_tmasks x)) :: tail_sels x)).
Proof.
  unfold stage1. intro H.
  destruct (all2 fits (ix_rows x) (ix_tmasks x)) eqn:E1; [|discriminate].
  destruct (all2 fits (ix_dims x) (ix_tail x)) eqn:E2; [|discriminate].
  cbn [andb] in H. injection H as <-. repeat split.
  f_equal. unfold cat.
  transitivity (Node (map (fun p => take (child S p) (tail_sels x)) (nonzero_from 0 (List.concat (ix_tmasks x)))));
    [|reflexivity].
  f_equal. rewrite <- (cat_parts S (tail_sels x) _ _ 0 ltac:(lia) E1). reflexivity.
Qed.

(* ------------------------------------------------------------------ element access *)

Lemma get_take : forall sels S is,
  Forall (fun s => snd s = false) sels ->
  Forall2 (fun s i => 0 <= i < zlen (fst s)) sels is ->
  get (take S sels) is = get S (map (fun p => znth (fst (fst p)) (snd p)) (combine sels is)).
Proof.
  induction sels as [|[ps d] r IH]; intros S is Hk Hr.
  - inversion Hr; subst. reflexivity.
  - inversion Hr as [|? i ? is' Hi Hr']; subst. inversion Hk as [|? ? Hd Hk']; subst. cbn in Hd. subst d.
    cbn [fst] in Hi. rewrite take_keep_node. cbn [get combine map fst snd].
    rewrite child_node_map with (d := 0) by assumption. apply IH; assumption.
Qed.

Lemma flatten_node l : flatten (Node l) = flat_map flatten l.
Proof.
  induction l as [|x r IH]; [reflexivity|].
  change (flatten (Node (x :: r))) with (flatten x ++ flatten (Node r)). now rewrite IH.
Qed.

Lemma flat_map_map {A B C} (f : B -> list C) (g : A -> B) l : flat_map f (map g l) = flat_map (fun x => f (g x)) l.
Proof. induction l as [|x r IH]; [reflexivity|]. cbn. now rewrite IH. Qed.

Lemma flat_map_ext_in {A B} (f g : A -> list B) l : (forall x, In x l -> f x = g x) -> flat_map f l = flat_map g l.
Proof.
  induction l as [|x r IH]; intro H; [reflexivity|]. cbn. rewrite (H x) by (now left).
  rewrite IH; [reflexivity|]. intros y Hy. apply H. now right.
Qed.

Lemma child_arange d r acc i : 0 <= i < d -> child (arange (d :: r) acc) i = arange r (acc * d + i).
Proof.
  intro H. cbn [arange]. rewrite child_node_map with (d := 0) by (rewrite zrange_length; lia).
  now rewrite zrange_nth.
Qed.

(* labels of an outer selection of a labelled array, axis by axis *)
Lemma flatten_take_arange : forall shape sels acc,
  Forall (fun s => snd s = false) sels ->
  Forall2 (fun d s => in_range d (fst s)) shape sels ->
  flatten (take (arange shape acc) sels) =
  (fix go (shape : list Z) (sels : list sel) (acc : Z) : list Z :=
     match shape, sels with
     | d :: shape', s :: sels' => flat_map (fun p => go shape' sels' (acc * d + p)) (fst s)
     | _, _ => [acc]
     end) shape sels acc.
Proof.
  induction shape as [|d shape IH]; intros sels acc Hk Hr.
  - inversion Hr; subst. reflexivity.
  - inversion Hr as [|? [ps dr] ? sels' Hin Hr']; subst. inversion Hk as [|? ? Hd Hk']; subst. cbn in Hd. subst dr.
    cbn [fst] in Hin. rewrite take_keep_node, flatten_node, flat_map_map. cbn [fst].
    apply flat_map_ext_in. intros p Hp. unfold in_range in Hin. rewrite Forall_forall in Hin.
    rewrite child_arange by (apply Hin; exact Hp). apply IH; assumption.
Qed.
