(* C04: the chunk read set of staged contiguous indexing equals the chunks meeting the composed interval. *)
From Coq Require Import ZArith List Bool Lia ZifyBool.
From KV Require Import Base.Sx Model.DaskIdx.
Import ListNotations.
Open Scope Z_scope.

(* ------------------------------------------------------------------------------------------- *)
(* 1. regions are sub-intervals of the axis                                                    *)
(* ------------------------------------------------------------------------------------------- *)
Lemma d_clamp_bounds : forall v n d, 0 <= n -> 0 <= d <= n -> 0 <= d_clamp v n 0 n d <= n.
Proof.
  intros v n d Hn Hd. unfold d_clamp. destruct v as [x|]; [|lia].
  destruct (x <? 0) eqn:E; lia.
Qed.

Lemma d_indices_unit_bounds : forall s n a b, 0 <= n -> d_indices s n = Some (a, b, 1) ->
  0 <= a <= n /\ 0 <= b <= n.
Proof.
  intros [st sp sk] n a b Hn E. unfold d_indices in E. cbn [ds_step ds_start ds_stop] in E.
  destruct sk as [k|].
  - destruct (k =? 0); [discriminate|]. injection E as Ea Eb Ek. subst k.
    change (1 <? 0) with false in *. cbv iota in *. subst a b.
    split; apply d_clamp_bounds; lia.
  - change (1 =? 0) with false in E. change (1 <? 0) with false in E. cbv iota in E.
    injection E as Ea Eb. subst a b. split; apply d_clamp_bounds; lia.
Qed.

Lemma d_region_bounds : forall n k a b, 0 <= n -> d_region n k = Some (a, b) -> 0 <= a /\ a <= b /\ b <= n.
Proof.
  intros n k a b Hn H. destruct k as [z|s|m|l]; cbn [d_region] in H; try discriminate.
  - destruct (d_inrange n z) eqn:E; [|discriminate]. injection H as Ha Hb.
    unfold d_inrange in E. unfold d_norm in *. destruct (z <? 0) eqn:E2; lia.
  - destruct (d_indices s n) as [[[a' b'] st]|] eqn:E; [|discriminate].
    destruct st as [|p|p]; try discriminate. destruct p; try discriminate.
    injection H as Ha Hb. apply d_indices_unit_bounds in E; [|assumption]. lia.
Qed.

(* ------------------------------------------------------------------------------------------- *)
(* 2. ids of a sliced base grid                                                                *)
(* ------------------------------------------------------------------------------------------- *)
Lemma d_slice_grid_ids : forall cs id off lo hi,
  map fst (d_slice_grid (d_base_grid cs id) off lo hi) = d_meeting cs id off lo hi.
Proof.
  induction cs as [|c r IH]; intros id off lo hi; [reflexivity|].
  cbn [d_base_grid d_slice_grid d_meeting].
  destruct (0 <? Z.min hi (off + c) - Z.max lo off) eqn:E1;
  destruct (Z.max lo off <? Z.min hi (off + c)) eqn:E2; try lia.
  - cbn [map fst]. rewrite IH. reflexivity.
  - apply IH.
Qed.

(* ------------------------------------------------------------------------------------------- *)
(* 3. length of a sliced grid                                                                  *)
(* ------------------------------------------------------------------------------------------- *)
Lemma d_glen_cons : forall id c r, d_glen ((id, c) :: r) = c + d_glen r.
Proof. reflexivity. Qed.

Lemma d_glen_nonneg : forall g, Forall (fun p => 0 <= snd p) g -> 0 <= d_glen g.
Proof.
  induction 1 as [|[id c] r Hc _ IH]; [cbn; lia|]. rewrite d_glen_cons. cbn [snd] in Hc. lia.
Qed.

Lemma d_slice_grid_len_gen : forall g off lo hi, Forall (fun p => 0 <= snd p) g ->
  d_glen (d_slice_grid g off lo hi) = Z.max 0 (Z.min hi (off + d_glen g) - Z.max lo off).
Proof.
  induction g as [|[id c] r IH]; intros off lo hi HF.
  - cbn [d_slice_grid]. unfold d_glen at 1 2. cbn [fold_right]. lia.
  - inversion HF as [|x y Hc Hr]; subst. cbn [snd] in Hc. pose proof (d_glen_nonneg r Hr) as Hg.
    cbn [d_slice_grid]. rewrite d_glen_cons.
    destruct (0 <? Z.min hi (off + c) - Z.max lo off) eqn:E.
    + rewrite d_glen_cons. rewrite (IH (off + c) lo hi Hr). lia.
    + rewrite (IH (off + c) lo hi Hr). lia.
Qed.

Lemma d_pos_nonneg : forall g, Forall (fun p => 0 < snd p) g -> Forall (fun p : Z * Z => 0 <= snd p) g.
Proof. intros g H. eapply Forall_impl; [|exact H]. cbn beta. intros; lia. Qed.

Lemma d_slice_grid_len : forall g off lo hi, Forall (fun p => 0 <= snd p) g ->
  off <= lo -> lo <= hi -> hi <= off + d_glen g ->
  d_glen (d_slice_grid g off lo hi) = hi - lo.
Proof. intros g off lo hi HF H1 H2 H3. rewrite d_slice_grid_len_gen by assumption. lia. Qed.

(* ------------------------------------------------------------------------------------------- *)
(* 4. slicing a sliced grid                                                                    *)
(* ------------------------------------------------------------------------------------------- *)
Lemma d_slice_grid_nil : forall g off lo hi, Forall (fun p => 0 <= snd p) g ->
  hi <= off \/ hi <= lo -> d_slice_grid g off lo hi = [].
Proof.
  induction g as [|[id c] r IH]; intros off lo hi HF H; [reflexivity|].
  inversion HF as [|x y Hc Hr]; subst. cbn [snd] in Hc. cbn [d_slice_grid].
  destruct (0 <? Z.min hi (off + c) - Z.max lo off) eqn:E; [lia|].
  apply IH; [assumption|lia].
Qed.

Lemma d_slice_grid_pos : forall g off lo hi, Forall (fun p => 0 < snd p) (d_slice_grid g off lo hi).
Proof.
  induction g as [|[id c] r IH]; intros off lo hi; cbn [d_slice_grid]; [constructor|].
  destruct (0 <? Z.min hi (off + c) - Z.max lo off) eqn:E; [|apply IH].
  constructor; [cbn [snd]; lia|apply IH].
Qed.

Lemma d_slice_slice : forall g off lo hi a b, Forall (fun p => 0 < snd p) g ->
  lo <= hi -> 0 <= a -> a <= b -> b <= hi - lo ->
  d_slice_grid (d_slice_grid g off lo hi) (Z.max lo off - lo) a b = d_slice_grid g off (lo + a) (lo + b).
Proof.
  induction g as [|[id c] r IH]; intros off lo hi a b HF Hlh Ha Hab Hb; [reflexivity|].
  inversion HF as [|x y Hc Hr]; subst. cbn [snd] in Hc.
  pose proof (d_pos_nonneg r Hr) as Hnn.
  cbn [d_slice_grid].
  destruct (0 <? Z.min hi (off + c) - Z.max lo off) eqn:E1.
  - cbn [d_slice_grid].
    destruct (0 <? Z.min b (Z.max lo off - lo + (Z.min hi (off + c) - Z.max lo off)) - Z.max a (Z.max lo off - lo)) eqn:E2;
    destruct (0 <? Z.min (lo + b) (off + c) - Z.max (lo + a) off) eqn:E3; try lia.
    + f_equal; [f_equal; lia|].
      destruct (off + c <=? hi) eqn:E4.
      * replace (Z.max lo off - lo + (Z.min hi (off + c) - Z.max lo off)) with (Z.max lo (off + c) - lo) by lia.
        apply IH; assumption.
      * rewrite (d_slice_grid_nil r (off + c) lo hi) by (try assumption; lia).
        rewrite (d_slice_grid_nil r (off + c) (lo + a) (lo + b)) by (try assumption; lia).
        reflexivity.
    + destruct (off + c <=? hi) eqn:E4.
      * replace (Z.max lo off - lo + (Z.min hi (off + c) - Z.max lo off)) with (Z.max lo (off + c) - lo) by lia.
        apply IH; assumption.
      * rewrite (d_slice_grid_nil r (off + c) lo hi) by (try assumption; lia).
        rewrite (d_slice_grid_nil r (off + c) (lo + a) (lo + b)) by (try assumption; lia).
        reflexivity.
  - destruct (0 <? Z.min (lo + b) (off + c) - Z.max (lo + a) off) eqn:E3; [lia|].
    destruct (off + c <=? lo) eqn:E4.
    + replace (Z.max lo off - lo) with (Z.max lo (off + c) - lo) by lia.
      apply IH; assumption.
    + rewrite (d_slice_grid_nil r (off + c) lo hi) by (try assumption; lia).
      rewrite (d_slice_grid_nil r (off + c) (lo + a) (lo + b)) by (try assumption; lia).
      reflexivity.
Qed.

Lemma d_slice_slice_0 : forall g lo hi a b, Forall (fun p => 0 < snd p) g ->
  0 <= lo -> lo <= hi -> 0 <= a -> a <= b -> b <= hi - lo ->
  d_slice_grid (d_slice_grid g 0 lo hi) 0 a b = d_slice_grid g 0 (lo + a) (lo + b).
Proof.
  intros g lo hi a b HF Hlo Hlh Ha Hab Hb.
  rewrite <- (d_slice_slice g 0 lo hi a b) by assumption.
  replace (Z.max lo 0 - lo) with 0 by lia. reflexivity.
Qed.

(* ------------------------------------------------------------------------------------------- *)
(* 5. model = spec                                                                             *)
(* ------------------------------------------------------------------------------------------- *)
Lemma d_base_grid_len : forall cs id, d_glen (d_base_grid cs id) = fold_right Z.add 0 cs.
Proof.
  induction cs as [|c r IH]; intros id; [reflexivity|].
  cbn [d_base_grid fold_right]. rewrite d_glen_cons, IH. reflexivity.
Qed.

Lemma d_base_grid_pos : forall cs id, Forall (fun c => 0 < c) cs -> Forall (fun p => 0 < snd p) (d_base_grid cs id).
Proof.
  induction cs as [|c r IH]; intros id H; cbn [d_base_grid]; [constructor|].
  inversion H; subst. constructor; [cbn [snd]; assumption|apply IH; assumption].
Qed.

Lemma d_slice_grid_whole : forall g off lo hi, Forall (fun p => 0 < snd p) g ->
  lo <= off -> off + d_glen g <= hi -> d_slice_grid g off lo hi = g.
Proof.
  induction g as [|[id c] r IH]; intros off lo hi HF H1 H2; [reflexivity|].
  inversion HF as [|x y Hc Hr]; subst. cbn [snd] in Hc.
  pose proof (d_glen_nonneg r (d_pos_nonneg r Hr)) as Hg.
  rewrite d_glen_cons in H2. cbn [d_slice_grid].
  destruct (0 <? Z.min hi (off + c) - Z.max lo off) eqn:E; [|lia].
  f_equal; [f_equal; lia|]. apply IH; [assumption|lia|lia].
Qed.

Lemma d_reads_stages_inv : forall cs ks lo hi, Forall (fun c => 0 < c) cs ->
  0 <= lo -> lo <= hi -> hi <= fold_right Z.add 0 cs ->
  d_reads_stages (d_slice_grid (d_base_grid cs 0) 0 lo hi) ks =
  match d_compose_region lo hi ks with
  | Some (a, b) => Some (d_meeting cs 0 0 a b)
  | None => None
  end.
Proof.
  intros cs ks. induction ks as [|k r IH]; intros lo hi HF Hlo Hlh Hhi.
  - cbn [d_reads_stages d_compose_region]. rewrite d_slice_grid_ids. reflexivity.
  - cbn [d_reads_stages d_compose_region].
    pose proof (d_base_grid_pos cs 0 HF) as Hp.
    rewrite d_slice_grid_len; [|apply d_pos_nonneg; assumption|lia|lia|rewrite d_base_grid_len; lia].
    destruct (d_region (hi - lo) k) as [[a b]|] eqn:E; [|reflexivity].
    apply d_region_bounds in E; [|lia]. destruct E as (Ea & Eab & Eb).
    rewrite d_slice_slice_0 by (try assumption; lia).
    apply IH; try assumption; lia.
Qed.

Lemma d_reads_model_is_spec : forall cs ks, Forall (fun c => 0 < c) cs ->
  d_reads_axis cs ks = d_spec_reads_axis cs ks.
Proof.
  intros cs ks HF. unfold d_reads_axis, d_spec_reads_axis.
  pose proof (d_base_grid_pos cs 0 HF) as Hp.
  pose proof (d_glen_nonneg _ (d_pos_nonneg _ Hp)) as Hg. rewrite d_base_grid_len in Hg.
  rewrite <- (d_slice_grid_whole (d_base_grid cs 0) 0 0 (fold_right Z.add 0 cs)) at 1;
    [|assumption|lia|rewrite d_base_grid_len; lia].
  rewrite d_reads_stages_inv by (try assumption; lia).
  destruct (d_compose_region 0 (fold_right Z.add 0 cs) ks) as [[a b]|]; reflexivity.
Qed.

(* ------------------------------------------------------------------------------------------- *)
(* 6. no chunk is read twice                                                                   *)
(* ------------------------------------------------------------------------------------------- *)
Lemma d_meeting_ge : forall cs id off lo hi x, In x (d_meeting cs id off lo hi) -> id <= x.
Proof.
  induction cs as [|c r IH]; intros id off lo hi x H; cbn [d_meeting] in H; [contradiction|].
  destruct (Z.max lo off <? Z.min hi (off + c)).
  - destruct H as [H|H]; [lia|]. apply IH in H. lia.
  - apply IH in H. lia.
Qed.

Lemma d_meeting_NoDup : forall cs id off lo hi, NoDup (d_meeting cs id off lo hi).
Proof.
  induction cs as [|c r IH]; intros id off lo hi; cbn [d_meeting]; [constructor|].
  destruct (Z.max lo off <? Z.min hi (off + c)); [|apply IH].
  constructor; [|apply IH]. intro H. apply d_meeting_ge in H. lia.
Qed.

(* ------------------------------------------------------------------------------------------- *)
(* 7. membership                                                                               *)
(* ------------------------------------------------------------------------------------------- *)
Lemma d_meeting_iff_gen : forall cs id off lo hi i, In i (d_meeting cs id off lo hi) <->
  (id <= i /\ exists c, nth_error cs (Z.to_nat (i - id)) = Some c /\
     Z.max lo (off + fold_right Z.add 0 (firstn (Z.to_nat (i - id)) cs)) <
     Z.min hi (off + fold_right Z.add 0 (firstn (Z.to_nat (i - id)) cs) + c)).
Proof.
  induction cs as [|c r IH]; intros id off lo hi i.
  - cbn [d_meeting In]. split; [contradiction|]. intros (_ & c & H & _).
    destruct (Z.to_nat (i - id)); discriminate.
  - cbn [d_meeting].
    assert (Hcase : i < id \/ i = id \/ id < i) by lia. destruct Hcase as [Hc|[Hc|Hc]].
    + split; [|lia]. intro H.
      assert (id <= i); [|lia].
      apply (d_meeting_ge (c :: r) id off lo hi i). cbn [d_meeting]. exact H.
    + subst i. replace (id - id) with 0 by lia. change (Z.to_nat 0) with 0%nat.
      cbn [nth_error firstn fold_right].
      destruct (Z.max lo off <? Z.min hi (off + c)) eqn:E.
      * split; [|intros; left; reflexivity]. intros _. split; [lia|]. exists c. split; [reflexivity|lia].
      * split.
        -- intro H. apply d_meeting_ge in H. lia.
        -- intros (_ & c' & Hc' & Hlt). injection Hc' as <-. lia.
    + replace (Z.to_nat (i - id)) with (S (Z.to_nat (i - (id + 1)))) by lia.
      cbn [nth_error firstn fold_right].
      specialize (IH (id + 1) (off + c) lo hi i).
      replace (off + (c + fold_right Z.add 0 (firstn (Z.to_nat (i - (id + 1))) r)))
        with (off + c + fold_right Z.add 0 (firstn (Z.to_nat (i - (id + 1))) r)) by lia.
      destruct (Z.max lo off <? Z.min hi (off + c)) eqn:E.
      * split.
        -- intros [H|H]; [lia|]. apply IH in H. destruct H as (_ & H). split; [lia|exact H].
        -- intros (_ & H). right. apply IH. split; [lia|exact H].
      * split.
        -- intro H. apply IH in H. destruct H as (_ & H). split; [lia|exact H].
        -- intros (_ & H). apply IH. split; [lia|exact H].
Qed.

Lemma d_meeting_iff : forall cs lo hi i, In i (d_meeting cs 0 0 lo hi) <->
  (0 <= i /\ exists c, nth_error cs (Z.to_nat i) = Some c /\
     Z.max lo (fold_right Z.add 0 (firstn (Z.to_nat i) cs)) <
     Z.min hi (fold_right Z.add 0 (firstn (Z.to_nat i) cs) + c)).
Proof.
  intros cs lo hi i. rewrite d_meeting_iff_gen. rewrite Z.sub_0_r. cbn [Z.add]. reflexivity.
Qed.

(* ------------------------------------------------------------------------------------------- *)
(* 8. two stages compose to one interval of the stored axis                                    *)
(* ------------------------------------------------------------------------------------------- *)
Lemma d_compose_two : forall n s1 s2 lo1 hi1 lo2 hi2, 0 <= n ->
  d_region n s1 = Some (lo1, hi1) -> d_region (hi1 - lo1) s2 = Some (lo2, hi2) ->
  d_compose_region 0 n [s1; s2] = Some (lo1 + lo2, lo1 + hi2) /\
  0 <= lo1 + lo2 /\ lo1 + lo2 <= lo1 + hi2 /\ lo1 + hi2 <= hi1 /\ hi1 <= n.
Proof.
  intros n s1 s2 lo1 hi1 lo2 hi2 Hn H1 H2.
  pose proof (d_region_bounds _ _ _ _ Hn H1) as (B1 & B2 & B3).
  assert (Hn2 : 0 <= hi1 - lo1) by lia.
  pose proof (d_region_bounds _ _ _ _ Hn2 H2) as (B4 & B5 & B6).
  split; [|lia].
  cbn [d_compose_region]. rewrite Z.sub_0_r, H1.
  replace (0 + hi1 - (0 + lo1)) with (hi1 - lo1) by lia. rewrite H2. cbn [d_compose_region].
  f_equal; f_equal; lia.
Qed.

(* ------------------------------------------------------------------------------------------- *)
(* 9. a concrete instance                                                                      *)
(* ------------------------------------------------------------------------------------------- *)
Example d_reads_example :
  d_reads_axis [2;3;1] [DSlice (DS (Some 1) (Some 5) None); DSlice (DS (Some 1) (Some 2) None)] = Some [1].
Proof. vm_compute; reflexivity. Qed.

Example d_reads_example_spec :
  d_spec_reads_axis [2;3;1] [DSlice (DS (Some 1) (Some 5) None); DSlice (DS (Some 1) (Some 2) None)] = Some [1].
Proof. vm_compute; reflexivity. Qed.

Example d_reads_example_wide :
  d_reads_axis [2;3;1;4] [DSlice (DS (Some 1) (Some (-1)) None); DSlice (DS (Some 3) None None); DInt (-1)] = Some [3]
  /\ d_reads_axis [2;3;1;4] [DSlice (DS (Some 1) (Some (-1)) None); DSlice (DS (Some 3) None None)] = Some [1; 2; 3].
Proof. vm_compute; split; reflexivity. Qed.

Example d_compose_two_example :
  d_region 6 (DSlice (DS (Some 1) (Some 5) None)) = Some (1, 5) /\
  d_region (5 - 1) (DSlice (DS (Some 1) (Some 2) None)) = Some (1, 2) /\
  d_compose_region 0 6 [DSlice (DS (Some 1) (Some 5) None); DSlice (DS (Some 1) (Some 2) None)] = Some (2, 3).
Proof. vm_compute; repeat split; reflexivity. Qed.

(* The positivity side condition of d_reads_model_is_spec is needed: a zero-length stored chunk stays in the
   unsliced base grid (and is read by the model) but meets no interval. *)
Example d_reads_zero_chunk_differs :
  d_reads_axis [0] [] = Some [0] /\ d_spec_reads_axis [0] [] = Some [].
Proof. vm_compute; split; reflexivity. Qed.
