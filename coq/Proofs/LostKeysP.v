(* C06 round 3: lemmas about Model/LostKeys.v (dtypes of the delivered data, graph keys, chunk-name prefixes). *)
From Coq Require Import ZArith List Bool String Lia.
From KV Require Import Base.Sx Model.Prune Model.LostMap Model.LostIO Proofs.LostMapNdP Proofs.LostIOP.
From KV Require Import Model.LostKeys.
From KV Require Gen.Generated.
Import ListNotations.
Open Scope Z_scope.

(* ------------------------------------------------------------------------------------------------ *)
(* 1. dtypes *)
Lemma vfw_getter_flags : getter_of (vfw_errors A_FLAGS) = GDefault Generated.gen_flags_missing_fill.
Proof. reflexivity. Qed.
Lemma vfw_getter_other a : Nat.eqb a A_FLAGS = false -> getter_of (vfw_errors a) = GPlaceholder false.
Proof. intro H. unfold vfw_errors. rewrite H. reflexivity. Qed.

Lemma block_dtype_kept a present sliced d : vfw_block_dt a present sliced d = DArr d.
Proof.
  unfold vfw_block_dt, vfw_block_dt_with, fetch_dt.
  destruct (Nat.eqb a A_FLAGS) eqn:E.
  - apply Nat.eqb_eq in E. subst a. rewrite vfw_getter_flags.
    destruct present, sliced; reflexivity.
  - rewrite (vfw_getter_other a E). destruct present, sliced; reflexivity.
Qed.

Lemma cast_well_typed d v : well_typed d v -> cast d v = v.
Proof.
  unfold well_typed, cast. intros [H | H].
  - rewrite H. reflexivity.
  - destruct (is_complex d); [reflexivity|]. destruct v as [re im]. simpl in *. subst. reflexivity.
Qed.

Lemma map_cast_id d vs : Forall (well_typed d) vs -> map (cast d) vs = vs.
Proof. induction 1; simpl; [reflexivity|]. rewrite cast_well_typed by assumption. now f_equal. Qed.

Lemma map_cast_blocks d (blocks : list (Z * list cval)) :
  Forall (fun b => fst b = d /\ Forall (well_typed d) (snd b)) blocks ->
  map (fun b : Z * list cval => map (cast d) (snd b)) blocks = map snd blocks.
Proof.
  induction 1 as [|b l [_ Hb] _ IH]; simpl; [reflexivity|].
  rewrite map_cast_id by assumption. now f_equal.
Qed.

Lemma deliver_same_dtype d blocks :
  blocks <> [] -> Forall (fun b => fst b = d /\ Forall (well_typed d) (snd b)) blocks ->
  deliver blocks = Some (d, map snd blocks).
Proof.
  intros Hne Hall. destruct blocks as [|[d0 v0] rest]; [congruence|].
  unfold deliver. pose proof (Forall_inv Hall) as [Hd _]. simpl in Hd. subst d0.
  now rewrite (map_cast_blocks d _ Hall).
Qed.

Lemma vfw_blocks_all a d bs : vfw_blocks a d bs = Some (map (fun b => (d, snd b)) bs).
Proof.
  unfold vfw_blocks, vfw_blocks_with. induction bs as [|b bs IH]; [reflexivity|].
  cbn [fold_right map]. rewrite IH.
  pose proof (block_dtype_kept a (fst (fst b)) (snd (fst b)) d) as Hk. unfold vfw_block_dt in Hk. rewrite Hk.
  reflexivity.
Qed.

(* every block reaches the concatenation with the declared dtype; what is delivered has the declared dtype and holds
   every value unchanged - whichever blocks are lost, whichever are cut by the window (the first one included) *)
Theorem delivered_dtype_values a d bs :
  bs <> [] -> Forall (fun b : blockspec => Forall (well_typed d) (snd b)) bs ->
  delivered a d bs = Some (d, map snd bs).
Proof.
  intros Hne Hwt. unfold delivered, delivered_with. fold (vfw_blocks a d bs). rewrite vfw_blocks_all.
  rewrite (deliver_same_dtype d).
  - rewrite map_map. reflexivity.
  - destruct bs; [congruence|discriminate].
  - rewrite Forall_map. eapply Forall_impl; [|exact Hwt]. intros b Hb. simpl. auto.
Qed.

(* ... and the dtype PlaceholderChunk.__getitem__ passes on is what makes it so: were it float64, a selection whose
   FIRST block is a lost chunk cut by the window would be delivered as float64 and a healthy complex element would
   lose its imaginary part; with the lost block anywhere else nothing would show *)
Theorem sliced_placeholder_dtype_matters :
  delivered_with (fun _ => DT_F64) A_VIS DT_C64 [(false, true, [(0, 0)]); (true, false, [(5, 7)])]
    = Some (DT_F64, [[(0, 0)]; [(5, 0)]]) /\
  delivered_with (fun _ => DT_F64) A_VIS DT_C64 [(true, false, [(5, 7)]); (false, true, [(0, 0)])]
    = Some (DT_C64, [[(5, 7)]; [(0, 0)]]) /\
  delivered A_VIS DT_C64 [(false, true, [(0, 0)]); (true, false, [(5, 7)])]
    = Some (DT_C64, [[(0, 0)]; [(5, 7)]]).
Proof. repeat split; vm_compute; reflexivity. Qed.

Lemma promote_idem d : promote d d = d.
Proof. unfold promote. now rewrite Z.eqb_refl. Qed.
Lemma promote_comm a b : promote a b = promote b a.
Proof.
  unfold promote. rewrite (Z.eqb_sym b a), (Z.max_comm b a), (Z.min_comm b a).
  destruct (a =? b) eqn:E; [apply Z.eqb_eq in E; congruence|reflexivity].
Qed.
Lemma weights_dt_stored : weights_dt DT_U8 DT_F32 = DT_F32.
Proof. reflexivity. Qed.

(* ------------------------------------------------------------------------------------------------ *)
(* 2. graph keys *)
Lemma zss_eqb_refl l : zss_eqb l l = true.
Proof. induction l; simpl; [reflexivity|]. now rewrite zs_eqb_refl. Qed.
Lemma ncomp_eqb_refl c : ncomp_eqb c c = true.
Proof. unfold ncomp_eqb. now rewrite Z.eqb_refl, zss_eqb_refl. Qed.
Lemma name_eqb_refl n : name_eqb n n = true.
Proof. induction n; simpl; [reflexivity|]. now rewrite ncomp_eqb_refl. Qed.
Lemma nats_eqb_refl l : nats_eqb l l = true.
Proof. now apply nats_eqb_eq. Qed.

Lemma array_comp_eq p1 k1 p2 k2 : ncomp_eqb (0, [[p1; k1]]) (0, [[p2; k2]]) = true -> (p1, k1) = (p2, k2).
Proof.
  unfold ncomp_eqb. simpl. rewrite !andb_true_r. intro H.
  apply andb_prop in H as [H1 H2]. apply Z.eqb_eq in H1, H2. congruence.
Qed.

(* a name that starts with the array_name field determines the array *)
Lemma dask_name_determines_array fields args r1 r2 :
  name_eqb (dask_name_with ("array_name"%string :: fields) args r1)
           (dask_name_with ("array_name"%string :: fields) args r2) = true ->
  array_id r1 = array_id r2.
Proof.
  unfold dask_name_with, out_name_with, getitem_name, array_id.
  cbn [flat_map String.eqb Ascii.eqb Bool.eqb app].
  destruct (forallb _ (r_index r1)), (forallb _ (r_index r2)); cbn [name_eqb]; intro H.
  - apply andb_prop in H as [H _]. now apply array_comp_eq.
  - apply andb_prop in H as [H _]. unfold ncomp_eqb in H. simpl in H. discriminate.
  - apply andb_prop in H as [H _]. unfold ncomp_eqb in H. simpl in H. discriminate.
  - apply andb_prop in H as [_ H]. apply andb_prop in H as [H _]. now apply array_comp_eq.
Qed.

Lemma generated_name_starts_with_array :
  exists rest, Generated.gen_out_name_fields = "array_name"%string :: rest.
Proof. eexists. reflexivity. Qed.

Lemma dask_name_injective r1 r2 : name_eqb (dask_name r1) (dask_name r2) = true -> array_id r1 = array_id r2.
Proof.
  unfold dask_name. destruct generated_name_starts_with_array as [rest E]. rewrite E.
  apply dask_name_determines_array.
Qed.

Lemma graph_from_in namef arrs : forall a0 e,
  In e (graph_from namef a0 arrs) <->
  exists i r bl J, nth_error arrs i = Some (r, bl) /\ In J bl /\ e = ((namef r, J), ((a0 + i)%nat, J)).
Proof.
  induction arrs as [|[r bl] rest IH]; intros a0 e; simpl.
  - split; [tauto|]. intros (i & r & bl & J & H & _). destruct i; discriminate.
  - rewrite in_app_iff, in_map_iff, IH. split.
    + intros [(J & He & HJ) | (i & r' & bl' & J & Hn & HJ & He)].
      * exists 0%nat, r, bl, J. rewrite Nat.add_0_r. simpl. auto.
      * exists (S i), r', bl', J. simpl. rewrite Nat.add_succ_r. simpl in He. auto.
    + intros (i & r' & bl' & J & Hn & HJ & He). destruct i as [|i]; simpl in Hn.
      * inversion Hn; subst. left. exists J. rewrite Nat.add_0_r. auto.
      * right. exists i, r', bl', J. rewrite Nat.add_succ_r in He. simpl. auto.
Qed.

(* the general statement: whenever equal names imply equal array identities *)
Lemma resolve_with_own namef arrs a r blocks J :
  (forall r1 r2, name_eqb (namef r1) (namef r2) = true -> array_id r1 = array_id r2) ->
  NoDup (map (fun rb => array_id (fst rb)) arrs) ->
  nth_error arrs a = Some (r, blocks) -> In J blocks ->
  resolve_with namef arrs r J = Some (a, J).
Proof.
  intros Hinj Hnd Hn HJ. unfold resolve_with, graph_lookup.
  set (g := graph_from namef 0 arrs).
  assert (Hmine : In ((namef r, J), (a, J)) g).
  { apply graph_from_in. exists a, r, blocks, J. auto. }
  destruct (find _ (rev g)) as [e|] eqn:F.
  - apply find_some in F as [Hin Hp]. apply in_rev in Hin. apply graph_from_in in Hin.
    destruct Hin as (i & r' & bl' & J' & Hn' & HJ' & He). subst e. simpl in *.
    unfold gkey_eqb in Hp. simpl in Hp. apply andb_prop in Hp as [Hname HJeq].
    apply nats_eqb_eq in HJeq. subst J'.
    apply Hinj in Hname.
    assert (i = a).
    { assert (Hi : (i < List.length arrs)%nat) by (apply nth_error_Some; congruence).
      assert (Ha : (a < List.length arrs)%nat) by (apply nth_error_Some; congruence).
      eapply (proj1 (NoDup_nth_error (map (fun rb => array_id (fst rb)) arrs)) Hnd i a).
      - now rewrite map_length.
      - rewrite !nth_error_map, Hn, Hn'. simpl. now f_equal. }
    subst i. reflexivity.
  - exfalso. eapply find_none in F; [|apply -> in_rev; exact Hmine].
    unfold gkey_eqb in F. simpl in F. now rewrite name_eqb_refl, nats_eqb_refl in F.
Qed.

(* with the names get_dask_array builds: a key made from the name of an array and one of its block indices resolves to
   exactly that block of exactly that array - also when other arrays have identical chunks, dtype, index and offset *)
Theorem graph_keys_resolve arrs a r blocks J :
  NoDup (map (fun rb => array_id (fst rb)) arrs) ->
  nth_error arrs a = Some (r, blocks) -> In J blocks ->
  resolve arrs r J = Some (a, J).
Proof. apply resolve_with_own. exact dask_name_injective. Qed.

Theorem placeholder_via_graph_is_own c arrs a r blocks J :
  NoDup (map (fun rb => array_id (fst rb)) arrs) ->
  nth_error arrs a = Some (r, blocks) -> In J blocks ->
  placeholder_via_graph c arrs a J = placeholder c a J.
Proof.
  intros Hnd Hn HJ. unfold placeholder_via_graph. rewrite Hn.
  now rewrite (graph_keys_resolve arrs a r blocks J Hnd Hn HJ).
Qed.

(* ... and the array_name field is what makes it so: named by offset and token only, two arrays with identical
   chunks and dtype share their keys and the key of block (0) of the first resolves to the second array *)
Definition twin (key : Z) : gda_req * list (list nat) :=
  ({| r_prefix := 7; r_key := key; r_store := 1; r_chunks := [[2; 2]; [3]]; r_dtype := DT_U8;
      r_index := []; r_offset := [0; 0] |}, [[0; 0]; [1; 0]]%nat).
Theorem names_without_array_name_refuted :
  resolve_with (dask_name_with ["offset"%string; "token"%string] Generated.gen_token_args) [twin 1; twin 2] (fst (twin 1)) [0; 0]%nat
    = Some (1%nat, [0; 0]%nat) /\
  resolve [twin 1; twin 2] (fst (twin 1)) [0; 0]%nat = Some (0%nat, [0; 0]%nat).
Proof. split; vm_compute; reflexivity. Qed.

(* _apply_data_lost reads `isinstance(chunk, PlaceholderChunk)` only on the chunks named in its `lost` list *)
Lemma apply_data_lost_ext ph1 ph2 lost : forall orig q,
  (forall e, In e lost -> ph1 (fst (fst e)) (snd (fst e)) = ph2 (fst (fst e)) (snd (fst e))) ->
  apply_data_lost ph1 orig lost q = apply_data_lost ph2 orig lost q.
Proof.
  unfold apply_data_lost. induction lost as [|e l IH]; intros orig q H; simpl; [reflexivity|].
  rewrite (H e (or_introl eq_refl)). apply IH. intros e' He'. apply H. now right.
Qed.

Lemma entries_of_keys fl name d e :
  In e (entries_of fl name d) -> fst (fst e) = name /\ In (snd (fst e)) (src_keys d).
Proof.
  unfold entries_of. rewrite in_flat_map. intros (kp & Hkp & He).
  apply in_map_iff in He as (pc & He & _). subst e. simpl. split; [reflexivity|].
  destruct kp as [k pcs]. apply in_combine_l in Hkp. exact Hkp.
Qed.

(* the four dask arrays of a configuration, requested under arbitrary names/parameters *)
Definition arrs_of (c : cfg) (reqs : list gda_req) : list (gda_req * list (list nat)) :=
  map (fun ar => (snd ar, src_keys (darr c (fst ar)))) (combine [A_VIS; A_FLAGS; A_W; A_WC] reqs).

Definition model_flags_via_graph (c : cfg) (reqs : list gda_req) (p : list Z) : Z :=
  let fl := darr c A_FLAGS in
  let Iq := locs (chunks_of fl) p in
  let I := map fst Iq in
  let orig := if placeholder c A_FLAGS I then DATA_LOST else c_dat c A_FLAGS (blk_src fl Iq) in
  apply_data_lost (placeholder_via_graph c (arrs_of c reqs)) orig (lost_map_at (the_entries c) I) (map snd Iq).

Theorem flags_through_graph_keys c r0 r1 r2 r3 p :
  NoDup (map array_id [r0; r1; r2; r3]) ->
  model_flags_via_graph c [r0; r1; r2; r3] p = model_flags c p.
Proof.
  intro Hnd. unfold model_flags_via_graph, model_flags, model_flags_with.
  apply apply_data_lost_ext. intros e He.
  unfold lost_map_at in He. apply filter_In in He as [He _].
  unfold the_entries, all_entries in He. simpl in He. rewrite !in_app_iff in He.
  assert (Hnd' : NoDup (map (fun rb => array_id (fst rb)) (arrs_of c [r0; r1; r2; r3]))) by exact Hnd.
  destruct He as [He | [He | [He | []]]]; apply entries_of_keys in He as [Hn Hk]; rewrite Hn.
  - eapply (placeholder_via_graph_is_own c _ A_VIS r0); [exact Hnd'|reflexivity|exact Hk].
  - eapply (placeholder_via_graph_is_own c _ A_W r2); [exact Hnd'|reflexivity|exact Hk].
  - eapply (placeholder_via_graph_is_own c _ A_WC r3); [exact Hnd'|reflexivity|exact Hk].
Qed.

(* ------------------------------------------------------------------------------------------------ *)
(* 3. prefixes *)
Definition filled_prefix (cn : option Z) (e : pentry) : pentry :=
  (pe_key e, match pe_prefix e with Some p => Some p | None => cn end, pe_info e).

Lemma ensure_prefix_some ci cn r :
  ensure_prefix ci cn = Some r -> r = map (filled_prefix cn) ci /\ Forall (fun e => pe_prefix e <> None) r.
Proof.
  revert r. induction ci as [|e ci IH]; simpl; intros r H.
  - inversion H. split; [reflexivity|constructor].
  - destruct (ensure_prefix ci cn) as [l|] eqn:F; [|discriminate].
    destruct (IH l eq_refl) as [El Hl].
    destruct e as [[k [p|]] inf]; unfold pe_prefix in H; simpl in H.
    + inversion H; subst r. split; [now rewrite El|]. constructor; [discriminate|exact Hl].
    + destruct cn as [p|]; [|discriminate]. inversion H; subst r.
      split; [now rewrite El|]. constructor; [discriminate|exact Hl].
Qed.

Lemma ensure_prefix_none ci cn :
  ensure_prefix ci cn = None <-> cn = None /\ exists e, In e ci /\ pe_prefix e = None.
Proof.
  induction ci as [|e ci IH]; simpl.
  - split; [discriminate|]. intros [_ (e & [] & _)].
  - destruct (ensure_prefix ci cn) as [l|] eqn:F.
    + destruct e as [[k [p|]] inf]; unfold pe_prefix; simpl.
      * split; [discriminate|]. intros [Hc (e & [He | He] & Hp)].
        -- subst e. discriminate.
        -- assert (Y : Some l = None) by (apply IH; split; [assumption|exists e; auto]). discriminate.
      * destruct cn as [p|].
        -- split; [discriminate|]. intros [Hc _]. discriminate.
        -- split; [|reflexivity]. intros _. split; [reflexivity|]. exists (k, None, inf). auto.
    + split; [|reflexivity]. intros _. destruct (proj1 IH eq_refl) as [Hc (e' & He' & Hp')].
      split; [assumption|]. exists e'. auto.
Qed.

Lemma pfind_pupd k e ci : pfind k (pupd e ci) = if pe_key e =? k then Some e else pfind k ci.
Proof.
  unfold pfind. induction ci as [|x t IH]; simpl.
  - destruct (pe_key e =? k); reflexivity.
  - destruct (pe_key x =? pe_key e) eqn:E; simpl.
    + apply Z.eqb_eq in E. rewrite E. destruct (pe_key e =? k); reflexivity.
    + destruct (pe_key x =? k) eqn:Ek.
      * apply Z.eqb_eq in Ek. subst k. rewrite Z.eqb_sym, E. reflexivity.
      * exact IH.
Qed.

Lemma pfind_app k l1 l2 : pfind k (l1 ++ l2) = match pfind k l1 with Some e => Some e | None => pfind k l2 end.
Proof. unfold pfind. induction l1 as [|x t IH]; simpl; [reflexivity|]. destruct (pe_key x =? k); [reflexivity|exact IH]. Qed.

(* after _upgrade_chunk_info every key the improved info has carries the improved entry (prefix included), every other
   key its original entry *)
Lemma upgrade_entries_find imp : forall ci r k,
  upgrade_entries ci imp = Some r ->
  pfind k r = match pfind k (rev imp) with Some e => Some e | None => pfind k ci end.
Proof.
  induction imp as [|e rest IH]; intros ci r k H; simpl in *.
  - inversion H. reflexivity.
  - destruct (zs_eqb _ _); [|discriminate].
    rewrite (IH _ _ k H), pfind_app, pfind_pupd.
    destruct (pfind k (rev rest)); [reflexivity|].
    unfold pfind at 1. simpl. destruct (pe_key e =? k); reflexivity.
Qed.

Lemma upgrade_loop_skips ts view0 l0 pre : forall ci,
  Forall (fun s => qualifies ts view0 l0 s = Some false) pre ->
  forall post, upgrade_flags_loop ts view0 l0 (pre ++ post) ci = upgrade_flags_loop ts view0 l0 post ci.
Proof.
  induction pre as [|s pre IH]; intros ci H post; simpl; [reflexivity|].
  rewrite (Forall_inv H). apply IH. exact (Forall_inv_tail H).
Qed.

(* sdp_archived_streams may list any number of other streams (not of type sdp.flags, or flagging another stream):
   only the qualifying one acts *)
Lemma upgrade_loop_single ts view0 l0 pre s1 post ci :
  Forall (fun s => qualifies ts view0 l0 s = Some false) pre ->
  Forall (fun s => qualifies ts view0 l0 s = Some false) post ->
  qualifies ts view0 l0 s1 = Some true ->
  upgrade_flags_loop ts view0 l0 (pre ++ s1 :: post) ci = upgrade_by_stream ts view0 s1 ci.
Proof.
  intros Hpre Hpost Hq. rewrite upgrade_loop_skips by assumption. simpl. rewrite Hq.
  destruct (upgrade_by_stream ts view0 s1 ci) as [ci'|]; [|reflexivity].
  rewrite <- (app_nil_r post). rewrite upgrade_loop_skips by assumption. reflexivity.
Qed.

Lemma view_order_generated : Generated.gen_view_order = ["capture_stream"%string; "capture_block"%string; "stream"%string].
Proof. reflexivity. Qed.

Lemma view_capture_stream_order base s : view_capture_stream base s = (0, s) :: (1, 0) :: (2, s) :: base.
Proof. unfold view_capture_stream. rewrite view_order_generated. reflexivity. Qed.

(* the view of a capture stream finds a key of the stream's own <cbid>_<stream> namespace before anything else *)
Lemma vget_own_namespace {A} (f : ns -> option A) base s v :
  f (0, s) = Some v -> vget f (view_capture_stream base s) = Some v.
Proof. intro H. rewrite view_capture_stream_order. simpl. now rewrite H. Qed.

Definition FLAGS_KEY : Z := 1.

(* THE LEGACY LAYOUT.  One attached flags stream s1 (among any other archived streams), its chunk_info = a flags entry
   WITHOUT 'prefix', chunk_name p1 stored in its own capture-stream namespace: the chunks of `flags` are looked for
   under p1 - whatever chunk_name / prefixes the L0 stream has - and every other array where the L0 chunk_info (filled
   from the L0 view) says. *)
Theorem legacy_flags_stream_prefix ts l0 pre s1 post ci0 ci0' inf p1 :
  let view0 := view_capture_stream root_view l0 in
  vget (t_chunk_info ts) view0 = Some ci0 ->
  ensure_prefix ci0 (vget (t_chunk_name ts) view0) = Some ci0' ->
  t_archived ts = Some (pre ++ s1 :: post) ->
  Forall (fun s => qualifies ts view0 l0 s = Some false) pre ->
  Forall (fun s => qualifies ts view0 l0 s = Some false) post ->
  qualifies ts view0 l0 s1 = Some true ->
  vget (t_chunk_info ts) (view_capture_stream view0 s1) = Some [(FLAGS_KEY, None, inf)] ->
  t_chunk_name ts (0, s1) = Some p1 ->
  (forall o, pfind FLAGS_KEY ci0' = Some o ->
             skipn Generated.gen_upgrade_compares_shape_from (i_shape inf) =
             skipn Generated.gen_upgrade_compares_shape_from (i_shape (pe_info o))) ->
  exists r, source_entries ts l0 true = Some r /\
            pfind FLAGS_KEY r = Some (FLAGS_KEY, Some p1, inf) /\
            forall k, k <> FLAGS_KEY -> pfind k r = pfind k ci0'.
Proof.
  intros view0 Hci Hens Harch Hpre Hpost Hq Hfi Hcn Hshape.
  unfold source_entries. fold view0. rewrite Hci, Hens, Harch.
  rewrite upgrade_loop_single by assumption.
  unfold upgrade_by_stream. rewrite Hfi.
  assert (Hv : vget (t_chunk_name ts)
                    (if Generated.gen_flags_prefix_from_stream_view then view_capture_stream view0 s1 else view0) = Some p1).
  { change Generated.gen_flags_prefix_from_stream_view with true. cbv iota. now apply vget_own_namespace. }
  rewrite Hv. cbn [ensure_prefix fold_right pe_prefix pe_key pe_info fst snd].
  cbn [upgrade_entries pe_key pe_info fst snd].
  assert (Hz : zs_eqb (skipn Generated.gen_upgrade_compares_shape_from (i_shape inf))
                      (skipn Generated.gen_upgrade_compares_shape_from
                             (i_shape (snd match pfind FLAGS_KEY ci0' with Some o => o | None => (FLAGS_KEY, Some p1, inf) end)))
               = true).
  { apply zs_eqb_eq. destruct (pfind FLAGS_KEY ci0') as [o|] eqn:Fo; [now apply Hshape|reflexivity]. }
  unfold pe_info in *. exists (pupd (FLAGS_KEY, Some p1, inf) ci0'). split; [match goal with |- (if ?b then _ else _) = _ => replace b with true by (symmetry; exact Hz) end; reflexivity|]. split.
  - rewrite pfind_pupd. change (pe_key (FLAGS_KEY, Some p1, inf)) with FLAGS_KEY. now rewrite Z.eqb_refl.
  - intros k Hk. rewrite pfind_pupd. change (pe_key (FLAGS_KEY, Some p1, inf)) with FLAGS_KEY.
    destruct (FLAGS_KEY =? k) eqn:E; [apply Z.eqb_eq in E; congruence|reflexivity].
Qed.

(* an explicit 'prefix' always wins over chunk_name; an entry without one gets the chunk_name of the view given *)
Theorem ensure_prefix_explicit_wins ci cn r e :
  ensure_prefix ci cn = Some r -> In e ci ->
  In (filled_prefix cn e) r /\ (forall p, pe_prefix e = Some p -> filled_prefix cn e = e).
Proof.
  intros H He. apply ensure_prefix_some in H as [-> _]. split.
  - now apply in_map.
  - intros p Hp. destruct e as [[k pp] inf]. unfold filled_prefix, pe_prefix, pe_key, pe_info in *. simpl in *.
    now rewrite Hp.
Qed.

(* non-vacuity of the legacy theorem: a telstate with L0 chunk_name 10, a cal stream and a flags stream 5 whose own
   namespace holds chunk_name 11 *)
Definition ex_info (n : Z) : ainfo := {| i_shape := [n; 4; 2]; i_chunks := [[n]; [4]; [2]] |}.
Definition ex_ts : telstate :=
  {| t_chunk_name := fun n => if (fst n =? 0) && (snd n =? 0) then Some 10 else if (fst n =? 0) && (snd n =? 5) then Some 11 else None;
     t_stream_type := fun n => if (fst n =? 2) && (snd n =? 5) then Some 1 else if fst n =? 2 then Some 0 else None;
     t_src_streams := fun n => if (fst n =? 2) && (snd n =? 5) then Some [0] else None;
     t_chunk_info := fun n => if (fst n =? 0) && (snd n =? 0)
                              then Some [(0, None, ex_info 6); (1, None, ex_info 6); (2, Some 12, ex_info 6)]
                              else if (fst n =? 0) && (snd n =? 5) then Some [(1, None, ex_info 8)] else None;
     t_archived := Some [0; 3; 5] |}.
Example legacy_example :
  source_entries ex_ts 0 true = Some [(0, Some 10, ex_info 6); (1, Some 11, ex_info 8); (2, Some 12, ex_info 6)] /\
  source_entries ex_ts 0 false = Some [(0, Some 10, ex_info 6); (1, Some 10, ex_info 6); (2, Some 12, ex_info 6)].
Proof. split; vm_compute; reflexivity. Qed.
