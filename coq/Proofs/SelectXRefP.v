(* C02, extended model: invariants (weak: after ANY call, also a failed one; strong: after an accepted call),
   refinement of the documented rule with spectral windows / subarrays, failed calls, recovery. *)
From Coq Require Import ZArith List Bool String Ascii Lia Permutation PeanoNat.
From KV Require Import Base.Sx Base.Str Base.SelSlice Gen.Generated Model.Select Model.SelectX
  Proofs.SelectBaseP Proofs.SelectP Proofs.SelectXP.
Import ListNotations.
Open Scope Z_scope.

(* ---------------------------------------------------------------- total views *)
Definition dflt_w : spwin := {| w_freqs := []; w_halfw := 0 |}.
Definition dflt_sa : subarr := {| sa_ants := []; sa_cps := [] |}.
Definition win_at (xo : xobs) (spw : Z) : spwin := nth (Z.to_nat spw) (x_spws xo) dflt_w.
Definition sub_at (xo : xobs) (sub : Z) : subarr := nth (Z.to_nat sub) (x_subs xo) dflt_sa.
Definition view_at (xo : xobs) (spw sub : Z) : obs := view_of xo (win_at xo spw) (sub_at xo sub).

Lemma nth_error_win : forall xo z, 0 <= z < Z.of_nat (List.length (x_spws xo)) ->
  nth_error (x_spws xo) (Z.to_nat z) = Some (win_at xo z).
Proof. intros. unfold win_at. apply nth_error_nth'. lia. Qed.
Lemma nth_error_sub : forall xo z, 0 <= z < Z.of_nat (List.length (x_subs xo)) ->
  nth_error (x_subs xo) (Z.to_nat z) = Some (sub_at xo z).
Proof. intros. unfold sub_at. apply nth_error_nth'. lia. Qed.

(* the dumps recorded with this window and this subarray *)
Definition wmask (xo : xobs) (spw sub : Z) : list bool :=
  map (fun x => (xd_spw x =? spw) && (xd_sub x =? sub)) (x_dumps xo).

Lemma xbase_T : forall xo o spw sub, xbase xo o spw sub DT = wmask xo spw sub.
Proof. reflexivity. Qed.

Lemma dimlen_T : forall xo w sa, dimlen (view_of xo w sa) DT = List.length (x_dumps xo).
Proof. intros. simpl. apply map_length. Qed.

Lemma length_wmask : forall xo spw sub, List.length (wmask xo spw sub) = List.length (x_dumps xo).
Proof. intros. apply map_length. Qed.

(* ---------------------------------------------------------------- the two outcomes of the closed form *)
Lemma xselect_cases : forall xo s xkw,
  let kw := elab_kw (x_vocab xo) xkw in
  (exists oc, xpre xo (x_spw s) (x_sub s) kw = inl oc /\ xselect xo s xkw = (oc, s)) \/
  (exists spw sub, xpre xo (x_spw s) (x_sub s) kw = inr (spw, sub)
     /\ 0 <= spw < Z.of_nat (List.length (x_spws xo)) /\ 0 <= sub < Z.of_nat (List.length (x_subs xo))
     /\ xselect xo s xkw = xstep xo s kw spw sub (win_at xo spw) (sub_at xo sub)).
Proof.
  intros xo s xkw kw. rewrite xselect_closed. cbv zeta. fold kw.
  destruct (xpre xo (x_spw s) (x_sub s) kw) as [oc|[spw sub]] eqn:P.
  - left. exists oc. split; reflexivity.
  - right. exists spw, sub. destruct (xpre_range _ _ _ _ _ _ P) as [Rs Rb].
    rewrite (nth_error_win _ _ Rs), (nth_error_sub _ _ Rb). repeat split; auto; lia.
Qed.

(* ---------------------------------------------------------------- the dictionary after the call *)
Lemma keys_elab_kw : forall vc xkw, keys (elab_kw vc xkw) = map fst xkw.
Proof. intros. unfold keys, elab_kw. rewrite map_map. reflexivity. Qed.

Lemma lookup_xkw3 : forall kw spw sub k,
  lookup k (xkw3 kw spw sub) =
  if String.eqb k "subarray" then Some (VAtom sub)
  else if String.eqb k "spw" then Some (VAtom spw)
  else if String.eqb k "reset" then None else lookup k kw.
Proof. intros. unfold xkw3. rewrite !lookup_set_key, lookup_remove_key. reflexivity. Qed.

Lemma NoDup_xkw3 : forall kw spw sub, NoDup (keys kw) -> NoDup (keys (xkw3 kw spw sub)).
Proof.
  intros kw spw sub N. unfold xkw3. apply NoDup_set_key, NoDup_set_key.
  unfold remove_key. apply NoDup_keys_filter. exact N.
Qed.

Lemma keys_xkw3 : forall kw spw sub k, In k (keys (xkw3 kw spw sub)) <->
  k = "subarray"%string \/ k = "spw"%string \/ (k <> "reset"%string /\ In k (keys kw)).
Proof.
  intros kw spw sub k. unfold xkw3. rewrite !keys_set_key_in.
  assert (In k (keys (remove_key "reset" kw)) <-> k <> "reset"%string /\ In k (keys kw)).
  { unfold remove_key, keys. rewrite !in_map_iff. split.
    - intros [p [E H]]. apply filter_In in H. destruct H as [H1 H2]. subst. split.
      + intro E. rewrite E in H2. discriminate.
      + exists p. auto.
    - intros [Hn [p [E H]]]. exists p. split; auto. apply filter_In. split; auto.
      subst. destruct (String.eqb_spec "reset" (fst p)); auto; congruence. }
  tauto.
Qed.

Lemma hits_xkw3 : forall kw spw sub d, hits (xkw3 kw spw sub) (doc_group d) = hits kw (doc_group d).
Proof.
  intros kw spw sub d. apply eq_iff_eq_true. rewrite !hits_iff. split; intros [k [H1 H2]]; exists k; split; auto.
  - apply keys_xkw3 in H1. destruct H1 as [H|[H|[_ H]]]; auto.
    + rewrite special_not_in_group in H2; [discriminate | right; right; exact H].
    + rewrite special_not_in_group in H2; [discriminate | right; left; exact H].
  - apply keys_xkw3. right. right. split; auto. intro E.
    rewrite special_not_in_group in H2; [discriminate | left; exact E].
Qed.

Lemma NoDup_xsel_of : forall c r kw3, NoDup (keys (sel c)) -> NoDup (keys (xsel_of c r kw3)).
Proof. intros. unfold xsel_of. apply NoDup_update. apply NoDup_keys_filter. assumption. Qed.

Lemma lookup_xsel_of : forall c r kw3 k, NoDup (keys kw3) ->
  lookup k (xsel_of c r kw3) = match lookup k kw3 with
                               | Some v => Some v
                               | None => if negb (popped r k) then lookup k (sel c) else None
                               end.
Proof.
  intros c r kw3 k N. unfold xsel_of. rewrite lookup_update by exact N.
  rewrite (lookup_filter_key (fun x => negb (popped r x))). reflexivity.
Qed.

Lemma in_xsel_of : forall c r kw spw sub k v, NoDup (keys kw) -> NoDup (keys (sel c)) ->
  In (k, v) (xsel_of c r (xkw3 kw spw sub)) ->
  special k \/ In (k, v) kw \/ (In (k, v) (sel c) /\ popped r k = false).
Proof.
  intros c r kw spw sub k v N Ns H. apply in_lookup in H; [|apply NoDup_xsel_of; exact Ns].
  rewrite lookup_xsel_of in H by (apply NoDup_xkw3; exact N). rewrite lookup_xkw3 in H.
  destruct (String.eqb_spec k "subarray"); [left; right; right; assumption|].
  destruct (String.eqb_spec k "spw"); [left; right; left; assumption|].
  destruct (String.eqb_spec k "reset"); [left; left; assumption|].
  destruct (lookup k kw) eqn:E.
  - inversion H; subst. right. left. apply lookup_some_in. exact E.
  - destruct (popped r k); simpl in H; [discriminate|].
    right. right. split; [apply lookup_some_in; exact H | reflexivity].
Qed.

Lemma kw_in_xsel_of : forall c r kw spw sub k v, NoDup (keys kw) -> In (k, v) kw -> ~ special k ->
  In (k, v) (xsel_of c r (xkw3 kw spw sub)).
Proof.
  intros c r kw spw sub k v N H Hs. apply lookup_some_in. rewrite lookup_xsel_of by (apply NoDup_xkw3; exact N).
  rewrite lookup_xkw3.
  destruct (String.eqb_spec k "subarray"); [exfalso; apply Hs; right; right; assumption|].
  destruct (String.eqb_spec k "spw"); [exfalso; apply Hs; right; left; assumption|].
  destruct (String.eqb_spec k "reset"); [exfalso; apply Hs; left; assumption|].
  rewrite (in_lookup k v kw N H). reflexivity.
Qed.

(* ---------------------------------------------------------------- which dimensions start afresh *)
Definition XR (a b : Z) (kw : kwargs) (spw sub : Z) (d : dim) : bool :=
  has_char (doc_letter d) (xreset a b kw spw sub).

Lemma xr1_spec : forall kw spw sub d, reset_wellformed kw = true ->
  has_char (doc_letter d) (xr1 kw spw sub) = spec_reset kw d.
Proof.
  intros kw spw sub d W. unfold xr1, spec_reset. destruct kw as [|p kw]; [destruct d; reflexivity|].
  unfold reset_wellformed in W.
  destruct (lookup "reset" (p :: kw)) as [v|] eqn:E.
  - destruct v; try discriminate.
    destruct (String.eqb s "auto"); [rewrite has_char_auto; apply hits_xkw3 | reflexivity].
  - rewrite has_char_auto. apply hits_xkw3.
Qed.

Lemma XR_spec : forall a b kw spw sub d, reset_wellformed kw = true ->
  XR a b kw spw sub d = xspec_reset kw (negb (spw =? a)) (negb (sub =? b)) d.
Proof.
  intros a b kw spw sub d W. unfold XR, xreset, xspec_reset. cbv zeta.
  destruct (negb (spw =? a)); destruct (negb (sub =? b));
    rewrite ?has_char_append, (xr1_spec kw spw sub d W); destruct d; cbn;
    rewrite ?orb_false_r, ?orb_true_r; reflexivity.
Qed.

(* a dimension that is not started afresh keeps its window / subarray *)
Lemma XR_keeps : forall a b kw spw sub,
  (XR a b kw spw sub DT = false -> spw = a /\ sub = b) /\
  (XR a b kw spw sub DF = false -> spw = a) /\
  (XR a b kw spw sub DB = false -> sub = b).
Proof.
  intros a b kw spw sub. unfold XR, xreset. cbv zeta.
  destruct (Z.eqb_spec spw a); destruct (Z.eqb_spec sub b); cbn [negb];
    rewrite ?has_char_append; cbn; rewrite ?orb_true_r; repeat split; intros; try discriminate; auto.
Qed.

(* ---------------------------------------------------------------- masks of the state after the loop *)
Definition xbase_of (xo : xobs) (c : st) (a b : Z) (kw : kwargs) (spw sub : Z) (d : dim) : list bool :=
  if XR a b kw spw sub d then xbase xo (view_at xo spw sub) spw sub d else mget d c.

Lemma mget_xclear_fn : forall xo c a b kw spw sub d l,
  mget d (set_sel l (xclear_fn xo (view_at xo spw sub) spw sub (xreset a b kw spw sub) c))
  = xbase_of xo c a b kw spw sub d.
Proof.
  intros. unfold xbase_of, XR. destruct d; cbn [mget set_sel xclear_fn tk fk bk doc_letter xbase].
  - rewrite window_mask_base. reflexivity.
  - reflexivity.
  - reflexivity.
Qed.

Lemma mget_xclear_fn' : forall xo c a b kw spw sub d,
  mget d (xclear_fn xo (view_at xo spw sub) spw sub (xreset a b kw spw sub) c) = xbase_of xo c a b kw spw sub d.
Proof.
  intros. unfold xbase_of, XR. destruct d; cbn [mget xclear_fn tk fk bk doc_letter xbase].
  - rewrite window_mask_base. reflexivity.
  - reflexivity.
  - reflexivity.
Qed.

(* ---------------------------------------------------------------- invariants *)
Definition in_window (xo : xobs) (spw sub : Z) (m : list bool) : Prop :=
  forall i, nth i m false = true -> nth i (wmask xo spw sub) false = true.

(* after ANY call (accepted, rejected, raised part-way) *)
Record WInv (xo : xobs) (s : xst) : Prop := {
  w_spw : 0 <= x_spw s < Z.of_nat (List.length (x_spws xo));
  w_sub : 0 <= x_sub s < Z.of_nat (List.length (x_subs xo));
  w_wf : wf_st (view_at xo (x_spw s) (x_sub s)) (x_core s);
  w_nodup : NoDup (keys (sel (x_core s)));
  w_win : in_window xo (x_spw s) (x_sub s) (tk (x_core s))
}.

(* after an accepted call *)
Record XInv (xo : xobs) (s : xst) : Prop := {
  xi_weak : WInv xo s;
  xi_inv : Inv (view_at xo (x_spw s) (x_sub s)) (x_core s);
  xi_pub : x_pub s = pub_of (view_at xo (x_spw s) (x_sub s)) (sub_at xo (x_sub s)) (x_core s)
}.

Lemma dimlen_view : forall xo spw sub spw' sub' d,
  (d = DF -> spw = spw') -> (d = DB -> sub = sub') ->
  dimlen (view_at xo spw sub) d = dimlen (view_at xo spw' sub') d.
Proof.
  intros xo spw sub spw' sub' d HF HB. destruct d; simpl.
  - reflexivity.
  - rewrite (HF eq_refl). reflexivity.
  - rewrite (HB eq_refl). reflexivity.
Qed.

Lemma xbase_of_len : forall xo s kw spw sub d, WInv xo s ->
  List.length (xbase_of xo (x_core s) (x_spw s) (x_sub s) kw spw sub d) = dimlen (view_at xo spw sub) d.
Proof.
  intros xo s kw spw sub d W. unfold xbase_of.
  destruct (XR (x_spw s) (x_sub s) kw spw sub d) eqn:E.
  - destruct d; simpl; rewrite ?map_length, ?length_ones; reflexivity.
  - rewrite (w_wf _ _ W d). destruct (XR_keeps (x_spw s) (x_sub s) kw spw sub) as [KT [KF KB]].
    apply dimlen_view; intro; subst d; symmetry; auto.
Qed.

Lemma xbase_of_window : forall xo s kw spw sub, WInv xo s ->
  in_window xo spw sub (xbase_of xo (x_core s) (x_spw s) (x_sub s) kw spw sub DT).
Proof.
  intros xo s kw spw sub W. unfold xbase_of.
  destruct (XR (x_spw s) (x_sub s) kw spw sub DT) eqn:E.
  - intros i H. exact H.
  - destruct (XR_keeps (x_spw s) (x_sub s) kw spw sub) as [KT _]. destruct (KT E); subst. apply (w_win _ _ W).
Qed.

(* the state left behind by the step, whether the loop completes or stops at a prefix p *)
Lemma WInv_step : forall xo s kw spw sub p pub,
  WInv xo s -> NoDup (keys kw) ->
  0 <= spw < Z.of_nat (List.length (x_spws xo)) -> 0 <= sub < Z.of_nat (List.length (x_subs xo)) ->
  let o := view_at xo spw sub in
  let r := xreset (x_spw s) (x_sub s) kw spw sub in
  let l := xsel_of (x_core s) r (xkw3 kw spw sub) in
  WInv xo (with_core (loop_fn o p (set_sel l (xclear_fn xo o spw sub r (x_core s)))) spw sub pub).
Proof.
  intros xo s kw spw sub p pub W N Rs Rb o r l. split; cbn [x_core x_spw x_sub with_core].
  - exact Rs.
  - exact Rb.
  - apply wf_loop_fn. intro d. unfold o, r.
    rewrite (mget_xclear_fn xo (x_core s) (x_spw s) (x_sub s) kw spw sub d l). apply xbase_of_len. exact W.
  - cbn [sel loop_fn set_sel]. apply NoDup_xsel_of. apply (w_nodup _ _ W).
  - intros i H. change (tk ?x) with (mget DT x) in H. rewrite mget_loop_fn in H.
    rewrite nth_fold_mand in H. apply andb_true_iff in H. destruct H as [H _].
    unfold o, r in H. rewrite (mget_xclear_fn xo (x_core s) (x_spw s) (x_sub s) kw spw sub DT l) in H.
    eapply xbase_of_window; eauto.
Qed.

Lemma xstep_WInv : forall xo s kw spw sub, WInv xo s -> NoDup (keys kw) ->
  0 <= spw < Z.of_nat (List.length (x_spws xo)) -> 0 <= sub < Z.of_nat (List.length (x_subs xo)) ->
  WInv xo (snd (xstep xo s kw spw sub (win_at xo spw) (sub_at xo sub))).
Proof.
  intros xo s kw spw sub W N Rs Rb. unfold xstep. cbv zeta. fold (view_at xo spw sub).
  destruct (all_ok _ _); cbn [snd]; apply WInv_step; assumption.
Qed.

Lemma xstep_XInv : forall xo s kw spw sub s', WInv xo s -> NoDup (keys kw) ->
  0 <= spw < Z.of_nat (List.length (x_spws xo)) -> 0 <= sub < Z.of_nat (List.length (x_subs xo)) ->
  xstep xo s kw spw sub (win_at xo spw) (sub_at xo sub) = (OOk, s') -> XInv xo s'.
Proof.
  intros xo s kw spw sub s' W N Rs Rb H.
  pose proof (xstep_WInv xo s kw spw sub W N Rs Rb) as W'. rewrite H in W'. cbn [snd] in W'.
  unfold xstep in H. cbv zeta in H. fold (view_at xo spw sub) in H.
  destruct (all_ok _ _) eqn:A; [|discriminate]. inversion H; subst s'. clear H. split.
  - exact W'.
  - cbn [x_core x_spw x_sub with_core]. apply inv_loop_fn.
    + intro d. rewrite mget_xclear_fn'. apply xbase_of_len. exact W.
    + apply NoDup_xsel_of. apply (w_nodup _ _ W).
    + exact A.
  - reflexivity.
Qed.

(* every call preserves the weak invariant; an accepted call establishes the strong one *)
Lemma xselect_WInv : forall xo s xkw, WInv xo s -> NoDup (map fst xkw) -> WInv xo (snd (xselect xo s xkw)).
Proof.
  intros xo s xkw W N. destruct (xselect_cases xo s xkw) as [[oc [_ E]]|[spw [sub [_ [Rs [Rb E]]]]]]; rewrite E.
  - exact W.
  - apply xstep_WInv; auto. rewrite keys_elab_kw. exact N.
Qed.

Lemma xselect_XInv : forall xo s xkw s', WInv xo s -> NoDup (map fst xkw) ->
  xselect xo s xkw = (OOk, s') -> XInv xo s'.
Proof.
  intros xo s xkw s' W N H. destruct (xselect_cases xo s xkw) as [[oc [P E]]|[spw [sub [_ [Rs [Rb E]]]]]]; rewrite E in H.
  - exfalso. inversion H; subst. unfold xpre in P.
    destruct (_ && existsb _ _); [discriminate|].
    destruct (atom_of _ _); [|discriminate]. destruct (negb _); [discriminate|].
    destruct (atom_of _ _); [|discriminate]. destruct (negb _); [discriminate|].
    destruct (negb _); discriminate.
  - eapply xstep_XInv; eauto. rewrite keys_elab_kw. exact N.
Qed.

(* documented rejections (and everything else that is decided before the first assignment) leave the data set
   exactly as it was *)
Lemma rejected_untouched : forall xo s xkw oc s', xselect xo s xkw = (oc, s') ->
  oc = OTypeError \/ oc = OIndexError -> s' = s.
Proof.
  intros xo s xkw oc s' H Hoc. destruct (xselect_cases xo s xkw) as [[oc' [_ E]]|[spw [sub [_ [_ [_ E]]]]]]; rewrite E in H.
  - inversion H. reflexivity.
  - exfalso. unfold xstep in H. cbv zeta in H. destruct (all_ok _ _); inversion H; subst; destruct Hoc; discriminate.
Qed.

(* ---------------------------------------------------------------- the constructor *)
Lemma WInv_raw_step : forall xo,
  (0 < List.length (x_spws xo))%nat -> (0 < List.length (x_subs xo))%nat ->
  xselect xo (xraw xo) ctor_call =
  xstep xo (xraw xo) [("spw"%string, VAtom 0); ("subarray"%string, VAtom 0)] 0 0 (win_at xo 0) (sub_at xo 0).
Proof.
  intros xo Hs Hb. rewrite xselect_closed. cbv zeta.
  change (elab_kw (x_vocab xo) ctor_call) with [("spw"%string, VAtom 0); ("subarray"%string, VAtom 0)].
  assert (E1 : (0 <? Z.of_nat (List.length (x_spws xo))) = true) by (apply Z.ltb_lt; lia).
  assert (E2 : (0 <? Z.of_nat (List.length (x_subs xo))) = true) by (apply Z.ltb_lt; lia).
  assert (P : xpre xo (x_spw (xraw xo)) (x_sub (xraw xo)) [("spw"%string, VAtom 0); ("subarray"%string, VAtom 0)] = inr (0, 0)).
  { unfold xpre. cbn -[Z.of_nat Z.ltb Z.leb]. rewrite E1, E2. reflexivity. }
  rewrite P.
  rewrite (nth_error_win xo 0) by lia. rewrite (nth_error_sub xo 0) by lia. reflexivity.
Qed.

Definition xinit_core (xo : xobs) : st :=
  {| tk := window_mask xo 0 0; fk := ones (dimlen (view_at xo 0 0) DF); bk := ones (dimlen (view_at xo 0 0) DB);
     sel := [("spw"%string, VAtom 0); ("subarray"%string, VAtom 0)]; wk := VAtom 0; flk := VAtom 0 |}.

Lemma xinit_closed : forall xo, (0 < List.length (x_spws xo))%nat -> (0 < List.length (x_subs xo))%nat ->
  xinit xo = with_core (xinit_core xo) 0 0 (pub_of (view_at xo 0 0) (sub_at xo 0) (xinit_core xo)).
Proof.
  intros xo Hs Hb. unfold xinit. rewrite (WInv_raw_step xo Hs Hb). reflexivity.
Qed.

Lemma XInv_init : forall xo, (0 < List.length (x_spws xo))%nat -> (0 < List.length (x_subs xo))%nat ->
  XInv xo (xinit xo).
Proof.
  intros xo Hs Hb. rewrite (xinit_closed xo Hs Hb). split; [split|split|]; cbn [x_core x_spw x_sub x_pub with_core].
  - lia.
  - lia.
  - intro d. destruct d; cbn [mget xinit_core tk fk bk]; [|apply length_ones|apply length_ones].
    rewrite window_mask_base. unfold view_at. rewrite dimlen_T. apply map_length.
  - cbn. repeat constructor; simpl; intuition discriminate.
  - intros i H. cbn [xinit_core tk] in H. rewrite window_mask_base in H. exact H.
  - intro d. destruct d; cbn [mget xinit_core tk fk bk]; [|apply length_ones|apply length_ones].
    rewrite window_mask_base. unfold view_at. rewrite dimlen_T. apply map_length.
  - cbn. repeat constructor; simpl; intuition discriminate.
  - intros kv [H|[H|[]]]; subst; exact Logic.I.
  - intros v H. discriminate.
  - intros v H. discriminate.
  - reflexivity.
Qed.

(* states reachable from the constructor by ANY history (accepted, rejected, raised part-way): weak invariant *)
Inductive xreach_any (xo : xobs) : xst -> Prop :=
| xany_init : xreach_any xo (xinit xo)
| xany_step : forall s xkw, xreach_any xo s -> NoDup (map fst xkw) -> xreach_any xo (snd (xselect xo s xkw)).
(* ... and those in which no part-way failure is pending: the constructor state, the state after an ACCEPTED call
   from any reachable state (also one left by failed calls), and such a state after documented rejections *)
Inductive xreach (xo : xobs) : xst -> Prop :=
| xreach_init : xreach xo (xinit xo)
| xreach_ok : forall s xkw s', xreach_any xo s -> NoDup (map fst xkw) -> xselect xo s xkw = (OOk, s') -> xreach xo s'
| xreach_rej : forall s xkw oc, xreach xo s -> fst (xselect xo s xkw) = oc -> oc = OTypeError \/ oc = OIndexError ->
               xreach xo (snd (xselect xo s xkw)).

Definition has_windows (xo : xobs) : Prop := (0 < List.length (x_spws xo))%nat /\ (0 < List.length (x_subs xo))%nat.

Lemma xreach_any_WInv : forall xo s, has_windows xo -> xreach_any xo s -> WInv xo s.
Proof.
  intros xo s [Hs Hb] R. induction R.
  - apply (xi_weak _ _ (XInv_init xo Hs Hb)).
  - apply xselect_WInv; assumption.
Qed.

Lemma xreach_XInv : forall xo s, has_windows xo -> xreach xo s -> XInv xo s.
Proof.
  intros xo s Hw R. induction R.
  - destruct Hw. apply XInv_init; assumption.
  - eapply xselect_XInv; eauto. apply xreach_any_WInv; assumption.
  - destruct (xselect xo s xkw) as [oc' s'] eqn:E. cbn [fst snd] in *. subst oc'.
    rewrite (rejected_untouched _ _ _ _ _ E H0). exact IHR.
Qed.

Lemma xreach_is_any : forall xo s, xreach xo s -> xreach_any xo s.
Proof.
  intros xo s R. induction R.
  - apply xany_init.
  - replace s' with (snd (xselect xo s xkw)) by (rewrite H1; reflexivity). apply xany_step; assumption.
  - destruct (xselect xo s xkw) as [oc' s'] eqn:E. cbn [fst snd] in *. subst oc'.
    rewrite (rejected_untouched _ _ _ _ _ E H0). exact IHR.
Qed.

(* a step from a state without pending failure *)
Lemma xreach_step : forall xo s xkw s', xreach xo s -> NoDup (map fst xkw) -> xselect xo s xkw = (OOk, s') -> xreach xo s'.
Proof. intros xo s xkw s' R N H. eapply xreach_ok; eauto. apply xreach_is_any. exact R. Qed.

(* ---------------------------------------------------------------- the spec in the same shape *)
Definition xspec_masks (xo : xobs) (m : xmasks) (kw : kwargs) (spw sub : Z) : xmasks :=
  let o := view_at xo spw sub in
  let dimf (d : dim) := fold_left mand (spec_crit_masks o d kw)
                                  (if xspec_reset kw (negb (spw =? xm_spw m)) (negb (sub =? xm_sub m)) d
                                   then xbase xo o spw sub d else mk d (xm_masks m)) in
  {| xm_masks := {| m_t := dimf DT; m_f := dimf DF; m_b := dimf DB |}; xm_spw := spw; xm_sub := sub |}.

Lemma xspec_closed : forall xo m xkw,
  xspec_select xo m xkw =
  let kw := elab_kw (x_vocab xo) xkw in
  match xpre xo (xm_spw m) (xm_sub m) kw with
  | inl oc => (oc, m)
  | inr (spw, sub) => if all_ok (view_at xo spw sub) kw then (OOk, xspec_masks xo m kw spw sub) else (OFail, m)
  end.
Proof.
  intros xo m xkw. unfold xspec_select. cbv zeta. set (kw := elab_kw (x_vocab xo) xkw). unfold xpre.
  destruct (_ && existsb _ kw); [reflexivity|].
  destruct (atom_of (xm_spw m) (lookup "spw" kw)) as [spw|]; [|reflexivity].
  destruct ((0 <=? spw) && (spw <? Z.of_nat (List.length (x_spws xo)))) eqn:Rs; cbn [negb]; [|reflexivity].
  destruct (atom_of (xm_sub m) (lookup "subarray" kw)) as [sub|]; [|reflexivity].
  destruct ((0 <=? sub) && (sub <? Z.of_nat (List.length (x_subs xo)))) eqn:Rb; cbn [negb]; [|reflexivity].
  destruct (reset_wellformed kw); cbn [negb]; [|reflexivity].
  apply andb_true_iff in Rs. apply andb_true_iff in Rb.
  rewrite (nth_error_win xo spw) by lia. rewrite (nth_error_sub xo sub) by lia.
  fold (view_at xo spw sub). destruct (all_ok (view_at xo spw sub) kw); reflexivity.
Qed.

Lemma xpre_wellformed : forall xo a b kw spw sub, xpre xo a b kw = inr (spw, sub) -> reset_wellformed kw = true.
Proof.
  intros xo a b kw spw sub H. unfold xpre in H.
  destruct (_ && existsb _ kw); [discriminate|].
  destruct (atom_of a _); [|discriminate]. destruct (negb _); [discriminate|].
  destruct (atom_of b _); [|discriminate]. destruct (negb _); [discriminate|].
  destruct (reset_wellformed kw); [reflexivity | discriminate].
Qed.

(* ---------------------------------------------------------------- retained criteria in the view of the call *)
(* a criterion of a dimension that is not started afresh is evaluated on the same window / subarray as before *)
Lemma crit_retained : forall xo a b kw spw sub k v,
  popped (xreset a b kw spw sub) k = false ->
  crit (view_at xo spw sub) k v = crit (view_at xo a b) k v.
Proof.
  intros xo a b kw spw sub k v Hp. destruct (key_dim k) as [d|] eqn:K.
  - assert (M : mem_string k (doc_group d) = true) by (apply key_dim_group; exact K).
    rewrite (popped_gen _ _ _ M) in Hp. fold (XR a b kw spw sub d) in Hp.
    destruct (XR_keeps a b kw spw sub) as [KT [KF KB]].
    apply (crit_dim_ext _ _ k v d K).
    + intros _. repeat split; reflexivity.
    + intro; subst d. rewrite (KF Hp). split; reflexivity.
    + intro; subst d. rewrite (KB Hp). reflexivity.
  - rewrite !(crit_none_of_key_dim _ _ _ K). reflexivity.
Qed.

Section step.
  Variables (xo : xobs) (s : xst) (kw : kwargs) (spw sub : Z).
  Hypothesis Nk : NoDup (keys kw).
  Hypothesis Ns : NoDup (keys (sel (x_core s))).
  Let o := view_at xo spw sub.
  Let o0 := view_at xo (x_spw s) (x_sub s).
  Let r := xreset (x_spw s) (x_sub s) kw spw sub.
  Let l := xsel_of (x_core s) r (xkw3 kw spw sub).

  (* all retained criteria can be evaluated (strong invariant): the loop completes iff the criteria of the call do *)
  Lemma all_ok_xsel_of : (forall kv, In kv (sel (x_core s)) -> holds o0 (x_core s) kv) ->
    all_ok o l = all_ok o kw.
  Proof.
    intro Hh. apply eq_iff_eq_true. unfold all_ok. rewrite !forallb_forall. split; intros H [k v] Hin.
    - simpl. destruct (special_dec k) as [S|S]; [rewrite (crit_special o k v S); reflexivity|].
      apply (H (k, v)). apply kw_in_xsel_of; assumption.
    - simpl. apply in_xsel_of in Hin; auto. destruct Hin as [S|[Hin|[Hin Hp]]].
      + rewrite (crit_special o k v S). reflexivity.
      + apply (H (k, v) Hin).
      + specialize (Hh (k, v) Hin). unfold holds in Hh. simpl in Hh.
        unfold o. rewrite (crit_retained xo _ _ kw spw sub k v Hp). fold o0.
        destruct (crit o0 k v); simpl; tauto.
  Qed.

  (* pointwise: where the starting mask of dimension d is set, the retained criteria of d already hold *)
  Lemma cbit_xsel_of : forall d i,
    (forall k v m, In (k, v) (sel (x_core s)) -> popped r k = false -> crit o k v = CMask d m -> nth i m false = true) ->
    forallb (cbit o d i) l = forallb (cbit o d i) kw.
  Proof.
    intros d i Hret. apply eq_iff_eq_true. rewrite !forallb_forall. split; intros H [k v] Hin.
    - destruct (special_dec k) as [S|S]; [unfold cbit; simpl; rewrite (crit_special o k v S); reflexivity|].
      apply (H (k, v)). apply kw_in_xsel_of; assumption.
    - apply in_xsel_of in Hin; auto. destruct Hin as [S|[Hin|[Hin Hp]]].
      + unfold cbit; simpl; rewrite (crit_special o k v S); reflexivity.
      + apply (H (k, v) Hin).
      + unfold cbit. simpl. destruct (crit o k v) as [| |d' m] eqn:C; auto.
        destruct (dim_eqb d d') eqn:E; auto.
        assert (d = d') by (destruct d, d'; simpl in E; congruence). subst d'.
        eapply Hret; eauto.
  Qed.
End step.

(* masks of dimension d after a completed loop = documented combination, provided the retained criteria of d hold
   wherever the starting mask is set *)
Lemma xstep_dim : forall xo s kw spw sub d, WInv xo s -> NoDup (keys kw) -> reset_wellformed kw = true ->
  let o := view_at xo spw sub in
  let r := xreset (x_spw s) (x_sub s) kw spw sub in
  let l := xsel_of (x_core s) r (xkw3 kw spw sub) in
  let c := set_sel l (xclear_fn xo o spw sub r (x_core s)) in
  (forall i k v m, nth i (xbase_of xo (x_core s) (x_spw s) (x_sub s) kw spw sub d) false = true ->
     In (k, v) (sel (x_core s)) -> popped r k = false -> crit o k v = CMask d m -> nth i m false = true) ->
  mget d (loop_fn o l c) = mk d (xm_masks (xspec_masks xo (xm_of s) kw spw sub)).
Proof.
  intros xo s kw spw sub d W Nk Wf o r l c Hret.
  assert (E : mk d (xm_masks (xspec_masks xo (xm_of s) kw spw sub))
              = fold_left mand (spec_crit_masks o d kw) (xbase_of xo (x_core s) (x_spw s) (x_sub s) kw spw sub d)).
  { unfold xspec_masks, xbase_of. cbv zeta. fold o. rewrite (XR_spec _ _ _ _ _ d Wf).
    destruct d; reflexivity. }
  rewrite E. rewrite mget_loop_fn. unfold c, o, r.
  rewrite (mget_xclear_fn xo (x_core s) (x_spw s) (x_sub s) kw spw sub d l).
  fold o. rewrite spec_crit_masks_dmasks.
  apply mask_ext.
  - rewrite !(length_fold_mand _ _ (dimlen o d)); try reflexivity; try (unfold o; apply xbase_of_len; exact W);
      intros m H; eapply dmasks_len; eauto.
  - intro i. rewrite !nth_fold_mand, !forallb_dmasks.
    destruct (nth i (xbase_of xo (x_core s) (x_spw s) (x_sub s) kw spw sub d) false) eqn:B; [|reflexivity]. cbn [andb].
    apply cbit_xsel_of; auto. apply (w_nodup _ _ W).
    intros k v m Hin Hp C. eapply Hret; eauto.
Qed.

(* ---------------------------------------------------------------- MAIN: refinement *)
Lemma xrefines : forall xo s xkw, XInv xo s -> NoDup (map fst xkw) ->
  fst (xselect xo s xkw) = fst (xspec_select xo (xm_of s) xkw) /\
  (fst (xselect xo s xkw) <> OFail -> xm_of (snd (xselect xo s xkw)) = snd (xspec_select xo (xm_of s) xkw)).
Proof.
  intros xo s xkw [W I _] N. rewrite xspec_closed. cbv zeta. set (kw := elab_kw (x_vocab xo) xkw).
  assert (Nk : NoDup (keys kw)) by (unfold kw; rewrite keys_elab_kw; exact N).
  change (xm_spw (xm_of s)) with (x_spw s). change (xm_sub (xm_of s)) with (x_sub s).
  destruct (xselect_cases xo s xkw) as [[oc [P E]]|[spw [sub [P [Rs [Rb E]]]]]]; fold kw in P; rewrite E, P.
  - split; reflexivity.
  - pose proof (xpre_wellformed _ _ _ _ _ _ P) as Wf.
    unfold xstep. cbv zeta. fold (view_at xo spw sub). fold kw.
    rewrite (all_ok_xsel_of xo s kw spw sub Nk (w_nodup _ _ W) (inv_holds _ _ I)).
    destruct (all_ok (view_at xo spw sub) kw) eqn:A; cbn [fst snd]; [|split; [reflexivity | congruence]].
    split; [reflexivity|]. intros _.
    unfold xm_of. cbn [x_core x_spw x_sub with_core].
    assert (Hd : forall d,
      mget d (loop_fn (view_at xo spw sub)
                (xsel_of (x_core s) (xreset (x_spw s) (x_sub s) kw spw sub) (xkw3 kw spw sub))
                (set_sel (xsel_of (x_core s) (xreset (x_spw s) (x_sub s) kw spw sub) (xkw3 kw spw sub))
                   (xclear_fn xo (view_at xo spw sub) spw sub (xreset (x_spw s) (x_sub s) kw spw sub) (x_core s))))
      = mk d (xm_masks (xspec_masks xo (xm_of s) kw spw sub))).
    { intro d. apply xstep_dim; auto.
      intros i k v m B Hin Hp C.
      (* the retained criterion is one of a dimension that is not started afresh: same view, and it holds *)
      rewrite (crit_retained xo _ _ kw spw sub k v Hp) in C.
      pose proof (inv_holds _ _ I (k, v) Hin) as Hh. unfold holds in Hh. cbn [fst snd] in Hh. rewrite C in Hh.
      apply Hh. pose proof (crit_mask_group _ _ _ _ _ C) as M.
      rewrite (popped_gen _ _ _ M) in Hp. unfold xbase_of, XR in B. rewrite Hp in B. exact B. }
    unfold xspec_masks in *. cbv zeta in *. f_equal. apply masks_eq. intro d.
    destruct d; cbn [mk masks_of m_t m_f m_b xm_masks] in *; [apply (Hd DT) | apply (Hd DF) | apply (Hd DB)].
Qed.

(* ---------------------------------------------------------------- after a call that raised part-way *)
Definition dim_index (d : dim) : nat := match d with DT => 0 | DF => 1 | DB => 2 end%nat.
(* the spec starts dimension d afresh in this call *)
Definition xspec_fresh (xo : xobs) (m : xmasks) (xkw : xkwargs) (d : dim) : bool :=
  nth (dim_index d) (xspec_dims xo m xkw) false.

Lemma xpre_atoms : forall xo a b kw spw sub, xpre xo a b kw = inr (spw, sub) ->
  atom_of a (lookup "spw" kw) = Some spw /\ atom_of b (lookup "subarray" kw) = Some sub.
Proof.
  intros xo a b kw spw sub H. unfold xpre in H.
  destruct (_ && existsb _ kw); [discriminate|].
  destruct (atom_of a _) as [z|]; [|discriminate]. destruct (negb _); [discriminate|].
  destruct (atom_of b _) as [z'|]; [|discriminate]. destruct (negb _); [discriminate|].
  destruct (negb _); [discriminate|]. inversion H. subst. split; reflexivity.
Qed.

Lemma xspec_fresh_XR : forall xo s xkw spw sub d,
  xpre xo (x_spw s) (x_sub s) (elab_kw (x_vocab xo) xkw) = inr (spw, sub) ->
  xspec_fresh xo (xm_of s) xkw d = XR (x_spw s) (x_sub s) (elab_kw (x_vocab xo) xkw) spw sub d.
Proof.
  intros xo s xkw spw sub d P. unfold xspec_fresh, xspec_dims. cbv zeta.
  change (xm_spw (xm_of s)) with (x_spw s). change (xm_sub (xm_of s)) with (x_sub s).
  destruct (xpre_atoms _ _ _ _ _ _ P) as [A B]. rewrite A, B.
  rewrite (XR_spec _ _ _ _ _ d (xpre_wellformed _ _ _ _ _ _ P)). destruct d; reflexivity.
Qed.

(* RECOVERY.  In whatever state earlier calls (accepted, rejected or raised part-way) left the data set: an accepted
   call re-establishes the strong invariant, the spec accepts it too, and every dimension the call starts afresh
   holds exactly the documented combination. *)
Lemma xrecovery : forall xo s xkw s', WInv xo s -> NoDup (map fst xkw) -> xselect xo s xkw = (OOk, s') ->
  XInv xo s' /\ fst (xspec_select xo (xm_of s) xkw) = OOk /\
  forall d, xspec_fresh xo (xm_of s) xkw d = true ->
    mk d (masks_of (x_core s')) = mk d (xm_masks (snd (xspec_select xo (xm_of s) xkw))).
Proof.
  intros xo s xkw s' W N H. split; [eapply xselect_XInv; eauto|].
  rewrite xspec_closed. cbv zeta. set (kw := elab_kw (x_vocab xo) xkw).
  assert (Nk : NoDup (keys kw)) by (unfold kw; rewrite keys_elab_kw; exact N).
  change (xm_spw (xm_of s)) with (x_spw s). change (xm_sub (xm_of s)) with (x_sub s).
  destruct (xselect_cases xo s xkw) as [[oc [P E]]|[spw [sub [P [Rs [Rb E]]]]]]; fold kw in P; rewrite E in H.
  - exfalso. inversion H; subst. unfold xpre in P.
    destruct (_ && existsb _ _); [discriminate|].
    destruct (atom_of _ _); [|discriminate]. destruct (negb _); [discriminate|].
    destruct (atom_of _ _); [|discriminate]. destruct (negb _); [discriminate|].
    destruct (negb _); discriminate.
  - rewrite P. pose proof (xpre_wellformed _ _ _ _ _ _ P) as Wf.
    unfold xstep in H. cbv zeta in H. fold (view_at xo spw sub) in H. fold kw in H.
    destruct (all_ok (view_at xo spw sub) (xsel_of _ _ _)) eqn:A; [|discriminate].
    assert (Ak : all_ok (view_at xo spw sub) kw = true).
    { unfold all_ok. apply forallb_forall. intros [k v] Hin. simpl.
      destruct (special_dec k) as [S|S]; [rewrite (crit_special _ k v S); reflexivity|].
      unfold all_ok in A. rewrite forallb_forall in A.
      apply (A (k, v)). apply kw_in_xsel_of; assumption. }
    rewrite Ak. cbn [fst snd]. split; [reflexivity|].
    intros d Hf. unfold kw in P. rewrite (xspec_fresh_XR xo s xkw spw sub d P) in Hf. fold kw in Hf, P.
    inversion H; subst s'. cbn [x_core with_core].
    change (mk d (masks_of ?c)) with (mget d c).
    apply xstep_dim; auto.
    intros i k v m _ Hin Hp C. exfalso.
    pose proof (crit_mask_group _ _ _ _ _ C) as M. rewrite (popped_gen _ _ _ M) in Hp.
    unfold XR in Hf. congruence.
Qed.

Lemma mk_mget : forall d c, mk d (masks_of c) = mget d c.
Proof. intros. destruct d; reflexivity. Qed.

(* select() without arguments always succeeds and restores everything recorded with the current window/subarray *)
Lemma xselect_noarg : forall xo s, WInv xo s ->
  exists s', xselect xo s [] = (OOk, s') /\ XInv xo s' /\ x_spw s' = x_spw s /\ x_sub s' = x_sub s /\
    masks_of (x_core s') = {| m_t := wmask xo (x_spw s) (x_sub s);
                               m_f := ones (dimlen (view_at xo (x_spw s) (x_sub s)) DF);
                               m_b := ones (dimlen (view_at xo (x_spw s) (x_sub s)) DB) |}.
Proof.
  intros xo s W.
  destruct (xselect xo s []) as [oc s'] eqn:H.
  destruct (xselect_cases xo s []) as [[oc' [P E]]|[spw [sub [P [Rs [Rb E]]]]]]; cbn [elab_kw map] in P.
  - exfalso. unfold xpre in P. cbn [lookup find existsb andb atom_of reset_wellformed negb] in P.
    destruct W as [[A1 A2] [B1 B2] _ _ _].
    assert (E1 : (0 <=? x_spw s) && (x_spw s <? Z.of_nat (List.length (x_spws xo))) = true)
      by (apply andb_true_iff; split; [apply Z.leb_le | apply Z.ltb_lt]; lia).
    assert (E2 : (0 <=? x_sub s) && (x_sub s <? Z.of_nat (List.length (x_subs xo))) = true)
      by (apply andb_true_iff; split; [apply Z.leb_le | apply Z.ltb_lt]; lia).
    rewrite E1, E2 in P. cbn in P. discriminate.
  - assert (spw = x_spw s /\ sub = x_sub s) as [? ?].
    { apply xpre_atoms in P. cbn [lookup find atom_of] in P. destruct P as [A B]. inversion A. inversion B. auto. }
    subst spw sub. cbn [elab_kw map] in E. rewrite E in H.
    unfold xstep in H. cbv zeta in H. fold (view_at xo (x_spw s) (x_sub s)) in H.
    assert (Er : xreset (x_spw s) (x_sub s) [] (x_spw s) (x_sub s) = "TFB"%string).
    { unfold xreset, xr1. rewrite !Z.eqb_refl. reflexivity. }
    rewrite Er in H.
    set (o := view_at xo (x_spw s) (x_sub s)) in *.
    set (l := xsel_of (x_core s) "TFB" (xkw3 [] (x_spw s) (x_sub s))) in *.
    (* no entry of the dictionary carries a mask any more *)
    assert (Hn : forall k v, In (k, v) l -> crit o k v = CNone).
    { intros k v Hin. apply in_xsel_of in Hin; [|constructor | apply (w_nodup _ _ W)].
      destruct Hin as [S|[[]|[_ Hp]]]; [apply crit_special; exact S|].
      destruct (key_dim k) as [d|] eqn:K; [|apply crit_none_of_key_dim; exact K].
      assert (M : mem_string k (doc_group d) = true) by (apply key_dim_group; exact K).
      rewrite (popped_gen _ _ _ M) in Hp. destruct d; discriminate. }
    assert (A : all_ok o l = true).
    { unfold all_ok. apply forallb_forall. intros [k v] Hin. simpl. rewrite (Hn k v Hin). reflexivity. }
    assert (D : forall d, dmasks o d l = []).
    { intro d. unfold dmasks. clear - Hn. induction l as [|[k v] t IH]; [reflexivity|].
      cbn [flat_map fst snd]. rewrite (Hn k v (or_introl eq_refl)). apply IH.
      intros k' v' Hin. apply Hn. right. exact Hin. }
    rewrite A in H. inversion H; subst oc s'. eexists. split; [reflexivity|].
    split; [apply (xselect_XInv xo s [] _ W (NoDup_nil _)); rewrite E; unfold xstep; cbv zeta;
            fold (view_at xo (x_spw s) (x_sub s)); rewrite Er; fold o; fold l; rewrite A; reflexivity|].
    cbn [x_core x_spw x_sub with_core]. split; [reflexivity|]. split; [reflexivity|].
    unfold masks_of. f_equal.
    + change (tk ?c) with (mget DT c). rewrite mget_loop_fn, D. cbn [fold_left mget set_sel xclear_fn tk has_char Ascii.eqb Bool.eqb orb].
      apply window_mask_base.
    + change (fk ?c) with (mget DF c). rewrite mget_loop_fn, D. reflexivity.
    + change (bk ?c) with (mget DB c). rewrite mget_loop_fn, D. reflexivity.
Qed.

(* what a call that raised part-way leaves behind *)
Lemma failed_call_state : forall xo s xkw s' spw sub,
  WInv xo s -> NoDup (map fst xkw) ->
  xpre xo (x_spw s) (x_sub s) (elab_kw (x_vocab xo) xkw) = inr (spw, sub) ->
  xselect xo s xkw = (OFail, s') ->
  let kw := elab_kw (x_vocab xo) xkw in
  (* the window / subarray of the call are in force, the public attributes are NOT recomputed *)
  x_spw s' = spw /\ x_sub s' = sub /\ x_pub s' = x_pub s
  (* every keyword of the call - the offending one included - is now retained *)
  /\ (forall k v, In (k, v) kw -> ~ special k -> In (k, v) (sel (x_core s')))
  (* and one retained criterion cannot be evaluated *)
  /\ (exists k v, In (k, v) (sel (x_core s')) /\ crit (view_at xo spw sub) k v = CErr)
  /\ WInv xo s'.
Proof.
  intros xo s xkw s' spw sub W N P H kw. fold kw in P.
  assert (Nk : NoDup (keys kw)) by (unfold kw; rewrite keys_elab_kw; exact N).
  pose proof (xselect_WInv xo s xkw W N) as W'. rewrite H in W'. cbn [snd] in W'.
  destruct (xselect_cases xo s xkw) as [[oc [P' E]]|[spw' [sub' [P' [Rs [Rb E]]]]]]; fold kw in P'; rewrite P in P'.
  - discriminate.
  - inversion P'; subst spw' sub'. rewrite E in H. unfold xstep in H. cbv zeta in H.
    fold (view_at xo spw sub) in H. fold kw in H.
    destruct (all_ok (view_at xo spw sub) _) eqn:A; [discriminate|]. inversion H; subst s'.
    cbn [x_core x_spw x_sub x_pub with_core sel loop_fn set_sel].
    split; [reflexivity|]. split; [reflexivity|]. split; [reflexivity|].
    split; [|split; [|exact W']].
    + intros k v Hin Hs. apply kw_in_xsel_of; assumption.
    + unfold all_ok in A. apply Bool.not_true_iff_false in A. rewrite forallb_forall in A.
      destruct (existsb (fun kv => is_cerr (crit (view_at xo spw sub) (fst kv) (snd kv)))
                        (xsel_of (x_core s) (xreset (x_spw s) (x_sub s) kw spw sub) (xkw3 kw spw sub))) eqn:X.
      * apply existsb_exists in X. destruct X as [[k v] [Hin Hc]]. exists k, v. split; [exact Hin|].
        simpl in Hc. destruct (crit (view_at xo spw sub) k v); try discriminate. reflexivity.
      * exfalso. apply A. intros kv Hin.
        assert (Hx : existsb (fun kv => is_cerr (crit (view_at xo spw sub) (fst kv) (snd kv)))
                        (xsel_of (x_core s) (xreset (x_spw s) (x_sub s) kw spw sub) (xkw3 kw spw sub)) = false) by exact X.
        rewrite <- Bool.not_true_iff_false in Hx. destruct (is_cerr _) eqn:C; [|reflexivity].
        exfalso. apply Hx. apply existsb_exists. exists kv. split; assumption.
Qed.

(* the offending criterion poisons every later call that neither replaces it nor starts its dimension afresh *)
Lemma poison_persists : forall xo s xkw k v spw sub,
  WInv xo s -> NoDup (map fst xkw) ->
  xpre xo (x_spw s) (x_sub s) (elab_kw (x_vocab xo) xkw) = inr (spw, sub) ->
  In (k, v) (sel (x_core s)) -> crit (view_at xo spw sub) k v = CErr ->
  lookup k (elab_kw (x_vocab xo) xkw) = None ->
  popped (xreset (x_spw s) (x_sub s) (elab_kw (x_vocab xo) xkw) spw sub) k = false ->
  fst (xselect xo s xkw) = OFail.
Proof.
  intros xo s xkw k v spw sub W N P Hin C Hl Hp. set (kw := elab_kw (x_vocab xo) xkw) in *.
  assert (Nk : NoDup (keys kw)) by (unfold kw; rewrite keys_elab_kw; exact N).
  destruct (xselect_cases xo s xkw) as [[oc [P' E]]|[spw' [sub' [P' [Rs [Rb E]]]]]]; fold kw in P'; rewrite P in P'.
  - discriminate.
  - inversion P'; subst spw' sub'. rewrite E. unfold xstep. cbv zeta. fold (view_at xo spw sub). fold kw.
    assert (A : all_ok (view_at xo spw sub) (xsel_of (x_core s) (xreset (x_spw s) (x_sub s) kw spw sub) (xkw3 kw spw sub)) = false).
    { apply Bool.not_true_iff_false. intro A. unfold all_ok in A. rewrite forallb_forall in A.
      assert (Hk : In (k, v) (xsel_of (x_core s) (xreset (x_spw s) (x_sub s) kw spw sub) (xkw3 kw spw sub))).
      { apply lookup_some_in. rewrite lookup_xsel_of by (apply NoDup_xkw3; exact Nk). rewrite lookup_xkw3.
        assert (Hns : ~ special k).
        { intro S. rewrite (crit_special _ k v S) in C. discriminate. }
        destruct (String.eqb_spec k "subarray"); [exfalso; apply Hns; right; right; assumption|].
        destruct (String.eqb_spec k "spw"); [exfalso; apply Hns; right; left; assumption|].
        destruct (String.eqb_spec k "reset"); [exfalso; apply Hns; left; assumption|].
        rewrite Hl, Hp. cbn [negb]. apply in_lookup; [apply (w_nodup _ _ W) | exact Hin]. }
      specialize (A _ Hk). simpl in A. rewrite C in A. discriminate. }
    rewrite A. reflexivity.
Qed.

(* ---------------------------------------------------------------- what a change of window / subarray resets *)
Lemma xspec_reset_window : forall kw chg_sub,
  xspec_reset kw true chg_sub DT = true /\ xspec_reset kw true chg_sub DF = true
  /\ xspec_reset kw true false DB = spec_reset kw DB.
Proof. intros. unfold xspec_reset. rewrite !orb_true_r. cbn. rewrite !orb_false_r. repeat split; reflexivity. Qed.

Lemma xspec_reset_subarray : forall kw chg_spw,
  xspec_reset kw chg_spw true DT = true /\ xspec_reset kw chg_spw true DB = true
  /\ xspec_reset kw false true DF = spec_reset kw DF.
Proof. intros. unfold xspec_reset. rewrite !orb_true_r. cbn. rewrite !orb_false_r. repeat split; reflexivity. Qed.

Lemma xspec_reset_same : forall kw d, xspec_reset kw false false d = spec_reset kw d.
Proof. intros. unfold xspec_reset. cbn. rewrite !orb_false_r. reflexivity. Qed.
