(* C03: (1) loop bodies that call select() themselves - the partition / restore theorems for every body that never ADDS
   a time criterion (body_tk_ok), and a witness that a body adding one leaks it into the following items and past
   exhaustion; (2) an abandoned iteration (break / generator closed early): what selection is left. *)
From Coq Require Import ZArith List Bool String Arith Lia Permutation Sorting.Sorted.
From KV Require Import Base.Sx Base.Str Base.SelSlice Gen.Generated Model.Select Model.Scans
  Proofs.SelectBaseP Proofs.SelectP Proofs.SelectLawsP Proofs.ScansP.
From KV Require Model.Categorical.
Import ListNotations.
Open Scope Z_scope.

(* keyword of the time dimension: dumps, timerange, scans, compscans, targets, target_tags *)
Definition tkey (k : string) : bool := mem_string k (doc_group DT).

(* a loop body that keeps the invariant and never ADDS a time criterion to _selection (it may drop some, change the
   frequency / corrprod / weights / flags selection at will, and even clear the time mask) *)
Definition body_tk_ok {B} (o : obs) (body : st -> res (B * st)) : Prop :=
  forall s1 b s2, Inv3 o s1 -> body s1 = Ok (b, s2) ->
    Inv3 o s2 /\ (forall k x, tkey k = true -> In (k, x) (sel s2) -> In (k, x) (sel s1)).

Lemma body_ok_tk : forall B o (body : st -> res (B * st)), body_ok o body -> body_tk_ok o body.
Proof.
  intros B o body HB s1 b s2 H3 E. destruct (HB s1 b s2 H3 E) as (I2 & (_ & _ & _ & K)). split; [exact I2|].
  intros k x _ Hin. apply lookup_some_in. rewrite <- K. apply in_lookup; [apply (inv_nodup _ _ (proj1 I2)) | exact Hin].
Qed.

Lemma tkey_pop_ne : forall w k, String.eqb k (it_pop w) = false ->
  forall s1 s' v x, (forall k, lookup k (sel s1) = if String.eqb k (it_pop w) then Some (VScans [SIdx v]) else lookup k (sel s')) ->
  NoDup (keys (sel s1)) -> In (k, x) (sel s1) -> In (k, x) (sel s').
Proof.
  intros w k Hne s1 s' v x K1 N Hin. apply lookup_some_in. pose proof (in_lookup k x _ N Hin) as E.
  rewrite K1, Hne in E. exact E.
Qed.

Lemma after_yield_step_t : forall o w v s' s1 s2, Inv3 o s' -> Inv3 o s1 ->
  (forall k, lookup k (sel s1) = if String.eqb k (it_pop w) then Some (VScans [SIdx v]) else lookup k (sel s')) ->
  Inv3 o s2 -> (forall k x, tkey k = true -> In (k, x) (sel s2) -> In (k, x) (sel s1)) ->
  let s3 := after_yield w (tk s') s2 in
  Inv3 o s3 /\ tk s3 = tk s' /\ (forall k x, tkey k = true -> In (k, x) (sel s3) -> In (k, x) (sel s')).
Proof.
  intros o w v s' s1 s2 (HI & A & B & C) (HI1 & _) K1 (HI2 & A2 & B2 & C2) HT s3.
  assert (Pw : String.eqb "weights" (it_pop w) = false) by (destruct w; reflexivity).
  assert (Pf : String.eqb "flags" (it_pop w) = false) by (destruct w; reflexivity).
  assert (Ps : String.eqb "spw" (it_pop w) = false) by (destruct w; reflexivity).
  assert (Pa : String.eqb "subarray" (it_pop w) = false) by (destruct w; reflexivity).
  assert (Pr : String.eqb "reset" (it_pop w) = false) by (destruct w; reflexivity).
  assert (HK : forall k, lookup k (sel s3) = if String.eqb k (it_pop w) then None else lookup k (sel s2)).
  { intro k. simpl. apply lookup_remove_key. }
  assert (HT3 : forall k x, tkey k = true -> In (k, x) (sel s3) -> In (k, x) (sel s')).
  { intros k x Tk Hin. simpl in Hin. apply in_remove_key in Hin. destruct Hin as [Hin Hne]. simpl in Hne.
    apply String.eqb_neq in Hne. eapply tkey_pop_ne; [exact Hne | exact K1 | apply (inv_nodup _ _ HI1) |].
    apply HT; assumption. }
  split; [|split; [reflexivity | exact HT3]].
  split; [|rewrite !HK, Ps, Pa, Pr; auto].
  split.
  - intros [| |]; simpl; [apply (inv_wf _ _ HI DT) | apply (inv_wf _ _ HI2 DF) | apply (inv_wf _ _ HI2 DB)].
  - simpl. unfold remove_key. apply NoDup_keys_filter. apply (inv_nodup _ _ HI2).
  - intros [k x] Hin. pose proof Hin as Hin0. simpl in Hin. apply in_remove_key in Hin. destruct Hin as [Hin Hne].
    pose proof (inv_holds _ _ HI2 (k, x) Hin) as H2. unfold holds in *. cbn [fst snd] in *.
    destruct (crit o k x) as [| |d m] eqn:Cr; [exact H2 | exact Logic.I |].
    destruct d.
    + pose proof (crit_mask_group o k x DT m Cr) as Tk.
      pose proof (inv_holds _ _ HI (k, x) (HT3 k x Tk Hin0)) as H1. unfold holds in H1. cbn [fst snd] in H1.
      rewrite Cr in H1. exact H1.
    + exact H2.
    + exact H2.
  - intros x E. rewrite HK, Pw in E. simpl. apply (inv_wk _ _ HI2). exact E.
  - intros x E. rewrite HK, Pf in E. simpl. apply (inv_flk _ _ HI2). exact E.
Qed.

Section LoopT.
Context {B : Type} (O : sobs) (w : which) (body : st -> res (B * st)).
Let o := so O.

Definition Jt (s s' : st) : Prop :=
  Inv3 o s' /\ tk s' = tk s /\ (forall k x, tkey k = true -> In (k, x) (sel s') -> In (k, x) (sel s)).

Definition yield_ok_t (s : st) (y : yielded B) : Prop :=
  Inv3 o (y_st y) /\ tk (y_st y) = mand (tk s) (fmask o w (y_index y))
  /\ name_of O w (y_index y) = Some (y_name y)
  /\ pick_target w o (tk (y_st y)) = Some (y_target y)
  /\ (exists s2, body (y_st y) = Ok (y_body y, s2)).

Lemma Jt_refl : forall s, Inv3 o s -> Jt s s.
Proof. intros s H. split; [exact H|]. split; [reflexivity|]. auto. Qed.

Lemma it_loop_spec_t : body_tk_ok o body -> forall s l s' ys s'', Jt s s' ->
  it_loop O w (tk s) body l s' = Ok (ys, s'') ->
  Jt s s'' /\ map y_index ys = l /\ Forall (yield_ok_t s) ys.
Proof.
  intros HB s. induction l as [|v l IH]; intros s' ys s'' HJ H; cbn [it_loop] in H.
  - inversion H; subst. split; [exact HJ|]. split; [reflexivity | constructor].
  - fold o in H.
    destruct (select o s' (yield_kw w v)) as [s1|] eqn:E1; [|discriminate].
    destruct (name_of O w v) as [nm|] eqn:En; [|discriminate].
    destruct (pick_target w o (tk s1)) as [t|] eqn:Et; [|discriminate].
    destruct (body s1) as [[b s2]|] eqn:Eb; [|discriminate].
    destruct HJ as (H3 & HM & HT).
    destruct (yield_step o w v s' s1 H3 E1) as (I1 & T1 & _ & _ & _ & _ & K1).
    destruct (HB s1 b s2 I1 Eb) as (I2 & T2).
    rewrite <- HM in H.
    change (set_sel (remove_key (it_pop w) (sel s2)) (mset DT (tk s') s2)) with (after_yield w (tk s') s2) in H.
    destruct (after_yield_step_t o w v s' s1 s2 H3 I1 K1 I2 T2) as (I3 & M3 & T3).
    set (s3 := after_yield w (tk s') s2) in *.
    rewrite HM in H.
    destruct (it_loop O w (tk s) body l s3) as [[ys' sf]|] eqn:Er; [|discriminate].
    inversion H; subst ys s''. clear H.
    assert (HJ3 : Jt s s3).
    { split; [exact I3|]. split; [congruence|]. intros k x Tk Hin. apply HT; [exact Tk|]. apply T3; assumption. }
    destruct (IH s3 ys' sf HJ3 Er) as (HJf & Hmap & Hall).
    split; [exact HJf|]. split; [simpl; f_equal; exact Hmap|].
    constructor; [|exact Hall].
    unfold yield_ok_t; cbn [y_st y_index y_name y_target y_body].
    split; [exact I1|]. split; [rewrite T1, HM; reflexivity|]. split; [exact En|].
    split; [exact Et | exists s2; exact Eb].
Qed.

Lemma tkey_not_special : forall k, tkey k = true -> String.eqb k "subarray" = false /\ String.eqb k "spw" = false /\ String.eqb k "reset" = false.
Proof.
  intros k H. split; [|split].
  - destruct (String.eqb_spec k "subarray") as [->|]; [discriminate H | reflexivity].
  - destruct (String.eqb_spec k "spw") as [->|]; [discriminate H | reflexivity].
  - destruct (String.eqb_spec k "reset") as [->|]; [discriminate H | reflexivity].
Qed.

Lemma final_restore_t : forall s s' sf, Inv3 o s -> Jt s s' ->
  select o s' (presel_of w s) = Ok sf ->
  Inv3 o sf /\ tk sf = tk s /\ (forall k, tkey k = true -> lookup k (sel sf) = lookup k (sel s)).
Proof.
  intros s s' sf H3 (I' & HM & HT) H. pose proof H3 as (HI & A & Bq & C). pose proof I' as (HI' & _).
  assert (Nk : NoDup (keys (presel_of w s))) by (apply NoDup_set_key; apply (inv_nodup _ _ HI)).
  split; [eapply inv3_select; eauto|]. split.
  - change (tk sf) with (mget DT sf). rewrite (select_dim o s' _ sf DT HI' Nk H). change (mget DT s') with (tk s').
    rewrite HM. apply (spec_dim_presel O w s DT). exact HI.
  - intros k Tk. destruct (select_sel _ _ _ _ H) as [E _]. rewrite E, lookup_sel_of, lookup_kw3 by exact Nk.
    rewrite (reset_of_presel w s).
    assert (Hp : popped EmptyString k = false) by reflexivity. rewrite Hp. cbn [negb].
    destruct (tkey_not_special k Tk) as (N1 & N2 & N3). rewrite N1, N2, N3.
    unfold presel_of. rewrite lookup_set_key, N3.
    destruct (lookup k (sel s)) eqn:E2; [reflexivity|].
    destruct (lookup k (sel s')) eqn:E3; [|reflexivity].
    exfalso. apply lookup_some_in in E3. apply (HT k v Tk) in E3.
    rewrite (in_lookup k v _ (inv_nodup _ _ HI) E3) in E2. discriminate.
Qed.

(* MAIN (selecting bodies): the generator run to exhaustion with any body that never adds a time criterion *)
Theorem iterate_spec_t : body_tk_ok o body -> forall s ys sf, Inv3 o s -> iterate O w body s = Ok (ys, sf) ->
  (Inv3 o sf /\ tk sf = tk s /\ (forall k, tkey k = true -> lookup k (sel sf) = lookup k (sel s)))
  /\ map y_index ys = indices_of (it_field w) o (tk s) /\ Forall (yield_ok_t s) ys.
Proof.
  intros HB s ys sf H3 H. unfold iterate in H. fold o in H.
  destruct (it_loop O w (tk s) body (indices_of (it_field w) o (tk s)) s) as [[ys' s']|] eqn:E; [|discriminate].
  destruct (it_loop_spec_t HB s _ s ys' s' (Jt_refl s H3) E) as (HJ & Hmap & Hall).
  change (set_key "reset" (VStr (it_final_reset w)) (sel s)) with (presel_of w s) in H.
  destruct (select o s' (presel_of w s)) as [sf'|] eqn:Ef; [|discriminate].
  inversion H; subst. split; [eapply final_restore_t; eauto|]. split; assumption.
Qed.
End LoopT.

(* the time-partition clauses for every body that never adds a time criterion *)
Lemma partition_facts_t : forall B (O : sobs) w (body : st -> res (B * st)) s ys sf,
  body_tk_ok (so O) body -> Inv3 (so O) s -> iterate O w body s = Ok (ys, sf) ->
  map y_index ys = indices_of (it_field w) (so O) (tk s) /\ StronglySorted Z.lt (map y_index ys)
  /\ (forall y p, In y ys -> shown y p = nth p (tk s) false &&
        match nth_error (o_dumps (so O)) p with Some d => it_field w d =? y_index y | None => false end)
  /\ (forall p d, nth_error (o_dumps (so O)) p = Some d -> nth p (tk s) false = true ->
        exists y, In y ys /\ y_index y = it_field w d /\ shown y p = true)
  /\ (forall y y' p, In y ys -> In y' ys -> shown y p = true -> shown y' p = true -> y_index y = y_index y')
  (* after exhaustion: the invariant, the time mask and the time criteria recorded in _selection are those before *)
  /\ Inv3 (so O) sf /\ tk sf = tk s /\ (forall k, tkey k = true -> lookup k (sel sf) = lookup k (sel s)).
Proof.
  intros B O w body s ys sf HB H3 H.
  destruct (iterate_spec_t O w body HB s ys sf H3 H) as ((If & Tf & Kf) & Hmap & Hall).
  rewrite Forall_forall in Hall.
  assert (Hs : forall y p, In y ys -> shown y p = nth p (tk s) false &&
        match nth_error (o_dumps (so O)) p with Some d => it_field w d =? y_index y | None => false end).
  { intros y p Hy. destruct (Hall y Hy) as (_ & T & _). unfold shown. rewrite T, nth_mand, nth_fmask. reflexivity. }
  split; [exact Hmap|]. split; [rewrite Hmap; apply sort_uniq_sorted|]. split; [exact Hs|]. split; [|split].
  - intros p d Hd Hp.
    assert (Hin : In (it_field w d) (map y_index ys)).
    { rewrite Hmap. unfold indices_of. apply sort_uniq_In. apply in_map. apply kept_dumps_In. exists p; auto. }
    apply in_map_iff in Hin. destruct Hin as [y [Ey Hy]]. exists y. split; [exact Hy|]. split; [exact Ey|].
    rewrite (Hs y p Hy), Hp, Hd, Ey. simpl. apply Z.eqb_refl.
  - intros y y' p Hy Hy' S1 S2. rewrite (Hs y p Hy) in S1. rewrite (Hs y' p Hy') in S2.
    apply andb_true_iff in S1. apply andb_true_iff in S2. destruct S1 as [_ S1]. destruct S2 as [_ S2].
    destruct (nth_error (o_dumps (so O)) p); [|discriminate].
    apply Z.eqb_eq in S1. apply Z.eqb_eq in S2. congruence.
  - split; [exact If|]. split; assumption.
Qed.

(* ---------------------------------------------------------------- bodies made of select() calls *)
Lemma select_no_time : forall o s1 kw s2, Inv3 o s1 -> NoDup (keys kw) -> hits kw (doc_group DT) = false ->
  select o s1 kw = Ok s2 ->
  Inv3 o s2 /\ (forall k x, tkey k = true -> In (k, x) (sel s2) -> In (k, x) (sel s1)).
Proof.
  intros o s1 kw s2 H3 Nk Hh H. split; [eapply inv3_select; eauto|].
  intros k x Tk Hin. destruct (select_sel _ _ _ _ H) as [E _]. rewrite E in Hin.
  apply in_sel_of in Hin; [|exact Nk | apply (inv_nodup _ _ (proj1 H3))].
  destruct Hin as [S|[Hin|[Hin _]]]; [| |exact Hin].
  - unfold tkey in Tk. rewrite (special_not_in_group k DT S) in Tk. discriminate.
  - exfalso. assert (hits kw (doc_group DT) = true); [|congruence].
    apply hits_iff. exists k. split; [apply (in_map fst _ _ Hin) | exact Tk].
Qed.

Definition no_time_call (kw : kwargs) : Prop := NoDup (keys kw) /\ hits kw (doc_group DT) = false.

Lemma run_calls_no_time : forall o calls s1 s2, Forall no_time_call calls -> Inv3 o s1 -> run_calls o s1 calls = Ok s2 ->
  Inv3 o s2 /\ (forall k x, tkey k = true -> In (k, x) (sel s2) -> In (k, x) (sel s1)).
Proof.
  intros o. induction calls as [|c calls IH]; intros s1 s2 F H3 H; simpl in H.
  - inversion H; subst. split; auto.
  - inversion F as [|? ? [Nk Hh] F']; subst. destruct (select o s1 c) as [sm|] eqn:E; [|discriminate].
    destruct (select_no_time o s1 c sm H3 Nk Hh E) as [Im Tm]. destruct (IH sm s2 F' Im H) as [I2 T2].
    split; [exact I2|]. intros k x Tk Hin. apply Tm; [exact Tk|]. apply T2; assumption.
Qed.

(* a body made of select() calls none of which names a time keyword never adds a time criterion *)
Theorem body_calls_tk_ok : forall O calls, Forall no_time_call calls -> body_tk_ok (so O) (body_calls O calls).
Proof.
  intros O calls F s1 b s2 H3 E. unfold body_calls in E.
  destruct (run_calls (so O) s1 calls) as [sm|] eqn:R; [|discriminate]. inversion E; subst.
  eapply run_calls_no_time; eauto.
Qed.

(* ---------------------------------------------------------------- abandoned iteration *)
Lemma sort_uniq_const : forall l v, (forall x, In x l -> x = v) -> In v l -> sort_uniq l = [v].
Proof.
  intros l v Hall Hin. pose proof (sort_uniq_sorted l) as S.
  assert (A : forall x, In x (sort_uniq l) -> x = v) by (intros x Hx; apply Hall; apply sort_uniq_In; exact Hx).
  assert (Bv : In v (sort_uniq l)) by (apply sort_uniq_In; exact Hin).
  destruct (sort_uniq l) as [|a [|b r]].
  - destruct Bv.
  - rewrite (A a (or_introl eq_refl)). reflexivity.
  - exfalso. pose proof (A a (or_introl eq_refl)). pose proof (A b (or_intror (or_introl eq_refl))).
    inversion S as [|? ? _ F]; subst. inversion F; subst. lia.
Qed.

(* the indices present in the dumps shown while item v is current: v alone *)
Lemma indices_of_item : forall o w m v, In v (indices_of (it_field w) o m) ->
  indices_of (it_field w) o (mand m (fmask o w v)) = [v].
Proof.
  intros o w m v Hin. unfold indices_of in *. apply sort_uniq_const.
  - intros x Hx. apply in_map_iff in Hx. destruct Hx as (d & <- & Hd). apply (proj1 (kept_dumps_In _ _ _)) in Hd.
    destruct Hd as (p & Hp & Hn). rewrite nth_mand, nth_fmask, Hp in Hn. apply andb_true_iff in Hn.
    destruct Hn as [_ Hn]. apply Z.eqb_eq in Hn. exact Hn.
  - apply (proj1 (sort_uniq_In _ _)) in Hin. apply in_map_iff in Hin. destruct Hin as (d & Ed & Hd). apply (proj1 (kept_dumps_In _ _ _)) in Hd.
    destruct Hd as (p & Hp & Hn). apply in_map_iff. exists d. split; [exact Ed|]. apply kept_dumps_In. exists p.
    split; [exact Hp|]. rewrite nth_mand, nth_fmask, Hp, Hn, Ed. simpl. apply Z.eqb_refl.
Qed.

Section Break.
Context {B : Type} (O : sobs) (w : which) (body : st -> res (B * st)).
Let o := so O.

(* MAIN (break): the state left behind when the consumer abandons the loop while item number n is current *)
Theorem break_spec : body_ok o body -> forall n s ys a sf, Inv3 o s ->
  iterate_break O w body n s = Ok (ys, Some a, sf) ->
  sf = ab_st a
  /\ nth_error (indices_of (it_field w) o (tk s)) n = Some (ab_index a)
  /\ map y_index ys = firstn n (indices_of (it_field w) o (tk s)) /\ Forall (yield_ok O w body s) ys
  /\ Inv3 o sf /\ tk sf = mand (tk s) (fmask o w (ab_index a)) /\ fk sf = fk s /\ bk sf = bk s
  /\ wk sf = wk s /\ flk sf = flk s
  /\ (forall k, lookup k (sel sf) = if String.eqb k (it_pop w) then Some (VScans [SIdx (ab_index a)]) else lookup k (sel s))
  /\ name_of O w (ab_index a) = Some (ab_name a)
  /\ pick_target w o (tk sf) = Some (ab_target a).
Proof.
  intros HB n s ys a sf H3 H. unfold iterate_break in H. fold o in H.
  destruct (nth_error (indices_of (it_field w) o (tk s)) n) as [v|] eqn:En.
  2:{ destruct (iterate O w body s) as [[? ?]|]; discriminate. }
  destruct (it_loop O w (tk s) body (firstn n (indices_of (it_field w) o (tk s))) s) as [[ys' s']|] eqn:E; [|discriminate].
  destruct (it_loop_spec O w body HB s _ s ys' s' (J_refl O w s H3) E) as (HJ & Hmap & Hall).
  destruct (select o s' (yield_kw w v)) as [s1|] eqn:E1; [|discriminate].
  destruct (name_of O w v) as [nm|] eqn:Enm; [|discriminate].
  destruct (pick_target w o (tk s1)) as [t|] eqn:Et; [|discriminate].
  inversion H; subst ys a sf. clear H. cbn [ab_st ab_index ab_name ab_target].
  destruct HJ as (I' & HM & HW & HF & HK).
  destruct (yield_step o w v s' s1 I' E1) as (I1 & T1 & F1 & B1 & W1 & L1 & K1).
  split; [reflexivity|]. split; [reflexivity|]. split; [exact Hmap|]. split; [exact Hall|]. split; [exact I1|].
  split; [rewrite T1; change (tk s') with (mget DT s'); rewrite (HM DT); reflexivity|].
  split; [rewrite F1; apply (HM DF)|]. split; [rewrite B1; apply (HM DB)|]. split; [congruence|]. split; [congruence|].
  split; [|split; [exact Enm | exact Et]].
  intro k. rewrite K1. destruct (String.eqb_spec k (it_pop w)); [reflexivity|].
  destruct (HK k) as [?|[? _]]; [assumption | contradiction].
Qed.

(* with fewer than n+1 items selected the loop is not abandoned at all *)
Lemma break_beyond : forall n s, nth_error (indices_of (it_field w) o (tk s)) n = None ->
  iterate_break O w body n s = match iterate O w body s with Ok (ys, sf) => Ok (ys, None, sf) | Err e => Err e end.
Proof. intros n s E. unfold iterate_break. fold o. rewrite E. reflexivity. Qed.
End Break.

(* picking the work up again after a break: any generator of the same kind started in the abandoned state visits
   exactly the abandoned item and restores the abandoned selection (not the one before the first loop) *)
Theorem break_then_iterate : forall B B2 (O : sobs) w (body : st -> res (B * st)) (body2 : st -> res (B2 * st)) n s ys a sf ys2 sf2,
  body_ok (so O) body -> body_ok (so O) body2 -> Inv3 (so O) s ->
  iterate_break O w body n s = Ok (ys, Some a, sf) -> iterate O w body2 sf = Ok (ys2, sf2) ->
  map y_index ys2 = [ab_index a] /\ Inv3 (so O) sf2 /\ same_sel sf2 sf.
Proof.
  intros B B2 O w body body2 n s ys a sf ys2 sf2 HB HB2 H3 Hb Hi.
  destruct (break_spec O w body HB n s ys a sf H3 Hb) as (_ & En & _ & _ & I1 & T1 & _).
  destruct (iterate_spec O w body2 HB2 sf ys2 sf2 I1 Hi) as ((I2 & S2) & Hmap & _).
  split; [|split; assumption]. rewrite Hmap, T1. apply indices_of_item. eapply nth_error_In; eauto.
Qed.

(* ---------------------------------------------------------------- witnesses on the example observation of ScansP *)
(* body: d.select(channels=slice(0, 2), reset='') - no time keyword *)
Definition ex_body_freq : list kwargs :=
  [[("channels"%string, VIdx (IxSlice (Some 0) (Some 2) None)); ("reset"%string, VStr "")]].
(* body: d.select(dumps=slice(0, 4), reset='') - ADDS a time criterion *)
Definition ex_body_time : list kwargs :=
  [[("dumps"%string, VIdx (IxSlice (Some 0) (Some 4) None)); ("reset"%string, VStr "")]].
Definition tsummary {B} (y : yielded B) := (y_index y, positions (tk (y_st y))).

Lemma ex_body_freq_ok : Forall no_time_call ex_body_freq.
Proof. repeat constructor; simpl; intuition discriminate. Qed.

Lemma ex_body_facts :
  (* a frequency-selecting body: every scan of the 12-dump example shows all its dumps, the time selection is
     restored; the channel selection made by the body is (of course) still in force afterwards *)
  (exists ys sf, iterate ex_O WScans (body_calls ex_O ex_body_freq) (init (so ex_O)) = Ok (ys, sf)
     /\ map tsummary ys = [(0, [0; 1; 2]); (1, [3; 4]); (2, [5; 6]); (3, [7; 8]); (4, [9; 10; 11])]
     /\ positions (tk sf) = [0; 1; 2; 3; 4; 5; 6; 7; 8; 9; 10; 11] /\ positions (fk sf) = [0; 1])
  (* a body that adds a time criterion: the criterion is re-applied by the select() of every later item (scan 1
     shows dump 3 only, scans 2.. are empty: IndexError in target_indices[0]) *)
  /\ iterate ex_O WScans (body_calls ex_O ex_body_time) (init (so ex_O)) = Err EFail
  (* ... and on a prior selection of scans 0 and 1 only, where the iteration does succeed: scan 1 shows dump 3 only
     and after exhaustion dumps 0..3 are selected instead of 0..4 *)
  /\ (exists s0 ys sf, select (so ex_O) (init (so ex_O)) [("scans"%string, VScans [SIdx 0; SIdx 1])] = Ok s0
     /\ positions (tk s0) = [0; 1; 2; 3; 4]
     /\ iterate ex_O WScans (body_calls ex_O ex_body_time) s0 = Ok (ys, sf)
     /\ map tsummary ys = [(0, [0; 1; 2]); (1, [3])] /\ positions (tk sf) = [0; 1; 2; 3]).
Proof.
  split; [eexists; eexists; split; [vm_compute; reflexivity|]; vm_compute; repeat split; reflexivity|].
  split; [vm_compute; reflexivity|].
  eexists; eexists; eexists. split; [vm_compute; reflexivity|]. split; [vm_compute; reflexivity|].
  split; [vm_compute; reflexivity|]. vm_compute. split; reflexivity.
Qed.

(* break while scan 3 (the second item of the selection 5..9) is current *)
Lemma ex_break_facts :
  exists ys a sf, iterate_break ex_O WScans no_body 1 ex_s = Ok (ys, Some a, sf)
    /\ map tsummary ys = [(2, [5; 6])] /\ ab_index a = 3 /\ positions (tk sf) = [7; 8]
    /\ lookup "scans" (sel sf) = Some (VScans [SIdx 3])
    /\ exists ys2 sf2, iterate_plain ex_O WScans sf = Ok (ys2, sf2) /\ map tsummary ys2 = [(3, [7; 8])]
                       /\ positions (tk sf2) = [7; 8].
Proof.
  eexists; eexists; eexists. split; [vm_compute; reflexivity|]. split; [vm_compute; reflexivity|].
  split; [vm_compute; reflexivity|]. split; [vm_compute; reflexivity|]. split; [vm_compute; reflexivity|].
  eexists; eexists. split; [vm_compute; reflexivity|]. vm_compute. split; reflexivity.
Qed.


(* nested loops with a break in the INNER loop (for c in d.compscans(): for s in d.scans(): ...; break): on the example
   the inner generator leaves _selection['scans'] = 0 behind, the select() of the next compound scan re-applies it,
   nothing is left of compound scan 1 and target_indices[0] raises IndexError (the same with the loops the other way
   round).  With a single outer item (prior selection compscans=1) the outer run completes, but the abandoned inner
   key survives the final re-select: dumps 7, 8 (scan 3) are selected afterwards instead of 7..11. *)
Lemma ex_inner_break_facts :
  iterate_nested_break ex_O WCompscans WScans 0 (init (so ex_O)) = Err EFail
  /\ iterate_nested_break ex_O WScans WCompscans 0 (init (so ex_O)) = Err EFail
  /\ (exists s0 ys sf, select (so ex_O) (init (so ex_O)) [("compscans"%string, VScans [SIdx 1])] = Ok s0
       /\ positions (tk s0) = [7; 8; 9; 10; 11]
       /\ iterate_nested_break ex_O WCompscans WScans 0 s0 = Ok (ys, sf)
       /\ map tsummary ys = [(1, [7; 8; 9; 10; 11])] /\ positions (tk sf) = [7; 8]
       /\ lookup "scans" (sel sf) = Some (VScans [SIdx 3])).
Proof.
  split; [vm_compute; reflexivity|]. split; [vm_compute; reflexivity|].
  eexists; eexists; eexists. split; [vm_compute; reflexivity|]. split; [vm_compute; reflexivity|].
  split; [vm_compute; reflexivity|]. vm_compute. repeat split; reflexivity.
Qed.
