(* C10: the model written over the regenerated definitions (Model/SensorToCatSrc.v) equals the normal-form model
   (Model/SensorToCat.v) for the CURRENT source of katdal.  Every proof below unfolds `c10_*` definitions of
   Gen/Generated.v: if an edit of katdal changes the meaning of one of them, this file stops compiling. *)
From Coq Require Import ZArith List Bool Lia ZifyBool.
From KV Require Import Base.Sx Gen.Generated Model.SensorToCat Model.SensorToCatSrc Proofs.SensorToCatP.
Import ListNotations.
Open Scope Z_scope.

Lemma if_negb {A} (b : bool) (x y : A) : (if negb b then x else y) = if b then y else x.
Proof. destruct b; reflexivity. Qed.
Lemma zeqb_of_nat a b : (Z.of_nat a =? Z.of_nat b) = Nat.eqb a b.
Proof. destruct (Nat.eqb_spec a b); lia. Qed.
Lemma zltb_of_nat a b : (Z.of_nat a <? Z.of_nat b) = (a <? b)%nat.
Proof. destruct (Nat.ltb_spec a b); lia. Qed.
Lemma to_nat_pred n : Z.to_nat (Z.of_nat n - 1) = (n - 1)%nat.
Proof. lia. Qed.

(* ---------- the generator ---------- *)
Lemma gstep_src_eq g s ce cd : gstep_src g s ce cd = gstep g s ce cd.
Proof.
  unfold gstep_src, gstep.
  unfold c10_gen_new_dump, c10_gen_dump_start, c10_gen_last_wins, c10_gen_yield_winner, c10_gen_loser,
         c10_gen_push_by, c10_gen_yield_pushed, c10_gen_greedy_now.
  rewrite !Z.gtb_ltb, to_nat_pred, zltb_of_nat, if_negb.
  destruct (pd s <? cd); [|reflexivity].
  rewrite zeqb_of_nat, if_negb. reflexivity.
Qed.

Lemma gen_loop_src_eq g rest : forall s ce, gen_loop_src g s ce rest = gen_loop g s ce rest.
Proof. induction rest as [|cd t IH]; intros s ce; [reflexivity|]. simpl. rewrite gstep_src_eq. apply IH. Qed.

Lemma single_event_per_dump_src_eq ev g : single_event_per_dump_src ev g = single_event_per_dump ev g.
Proof. unfold single_event_per_dump_src, single_event_per_dump. rewrite gen_loop_src_eq. reflexivity. Qed.

(* ---------- repeat removal ---------- *)
Lemma changes_from_src_eq l : forall n prev, 0 < n -> changes_from_src n prev l = changes_from prev l.
Proof.
  induction l as [|[v d] t IH]; intros n prev Hn; [reflexivity|]. cbn [changes_from_src changes_from].
  unfold c10_changes_value. replace (n =? 0) with false by lia. cbn [orb]. rewrite if_negb.
  rewrite !IH by lia. reflexivity.
Qed.
Lemma remove_repeats_src_eq l : remove_repeats_src l = remove_repeats l.
Proof.
  unfold remove_repeats_src, remove_repeats. destruct l as [|[v d] t]; [reflexivity|].
  cbn [changes_from_src]. unfold c10_changes_value. cbn [Z.eqb orb]. rewrite changes_from_src_eq by lia. reflexivity.
Qed.

(* ---------- sensor_to_categorical ---------- *)
Lemma has_prior_nat fp : (Z.of_nat fp >? 0) = (0 <? fp)%nat.
Proof. rewrite Z.gtb_ltb. destruct (Nat.ltb_spec 0 fp); lia. Qed.

Lemma need_initial_eq (E : list Z) (has : bool) :
  c10_need_initial (Z.of_nat (length E)) (hd 0 E) has =
  match E with [] => has | e :: _ => if e =? 0 then false else has end.
Proof.
  unfold c10_need_initial. destruct E as [|e t]; [reflexivity|]. cbn [length hd].
  replace (Z.of_nat (S (length t)) =? 0) with false by lia. cbn [orb]. destruct (e =? 0); reflexivity.
Qed.

Lemma s2c_prep_src_eq ts vals ends P tr init : s2c_prep_src ts vals ends P tr init = s2c_prep ts vals ends P tr init.
Proof.
  unfold s2c_prep_src, s2c_prep. destruct ends as [|e0 er]; [reflexivity|].
  unfold c10_prior_end, c10_event_dump, c10_events_side_right, c10_prior_side_right, c10_prior_dump,
         c10_prior_back, c10_prior_moved_to, c10_late_side_right, c10_late_dump, c10_initial_dump,
         c10_first_dump, ss_side.
  change (- (1)) with (-1).
  set (events := map (fun t => Z.of_nat (ss_left ((e0 - P) :: e0 :: er) t) - 1) ts).
  set (fp := ss_right events (-1)).
  set (N := Z.of_nat (length (e0 :: er))).
  unfold c10_has_prior. rewrite has_prior_nat.
  destruct (0 <? fp)%nat; cbv beta iota zeta.
  - rewrite to_nat_pred.
    generalize (slice (fp - 1) (ss_left (upd events (fp - 1) 0) N) (upd events (fp - 1) 0)).
    generalize (map (app_tr tr) (slice (fp - 1) (ss_left (upd events (fp - 1) 0) N) vals)).
    intros V E. rewrite need_initial_eq.
    destruct init as [i|]; destruct E as [|e t]; try reflexivity; destruct (e =? 0); reflexivity.
  - rewrite Nat2Z.id.
    generalize (slice fp (ss_left events N) events).
    generalize (map (app_tr tr) (slice fp (ss_left events N) vals)).
    intros V E. rewrite need_initial_eq.
    destruct init as [i|]; destruct E as [|e t]; try reflexivity; destruct (e =? 0); reflexivity.
Qed.

Lemma s2c_tail_src_eq v e N greedy ar : s2c_tail_src v e N greedy ar = s2c_tail v e N greedy ar.
Proof.
  unfold s2c_tail_src, s2c_tail, c10_terminator, c10_remove_repeats, c10_final_event.
  rewrite single_event_per_dump_src_eq. destruct (single_event_per_dump _ _) as [c ev].
  rewrite if_negb, remove_repeats_src_eq. reflexivity.
Qed.

Lemma s2c_src_eq ts vals ends P tr init greedy ar : s2c_src ts vals ends P tr init greedy ar = s2c ts vals ends P tr init greedy ar.
Proof.
  unfold s2c_src, s2c. rewrite s2c_prep_src_eq. destruct (s2c_prep _ _ _ _ _ _) as [[v e]|]; [|reflexivity].
  rewrite s2c_tail_src_eq. reflexivity.
Qed.

(* ---------- data[:] ---------- *)
Lemma cat_lookup_src_eq c k : cat_lookup_src c k = cat_lookup c k.
Proof.
  unfold cat_lookup_src, cat_lookup, c10_lookup_event, c10_lookup_side_right, c10_lookup_before, c10_lookup_after, ss_side.
  rewrite Z.geb_leb. reflexivity.
Qed.
Lemma cat_all_src_eq c : cat_all_src c = cat_all c.
Proof. unfold cat_all_src, cat_all. f_equal. apply map_ext. intro k. apply cat_lookup_src_eq. Qed.

(* ---------- dump end times and defaults ---------- *)
Lemma ends_of_mids_eq mids P : ends_of_mids mids P = dump_ends mids P.
Proof. unfold ends_of_mids, dump_ends, c10_end_offset. apply map_ext. intro m. cbn [fst snd]. rewrite Z.mul_1_l. reflexivity. Qed.
Lemma default_allow_repeats : allow_repeats_of None = false.
Proof. reflexivity. Qed.

Lemma per_dump_src_eq ts vals mids P tr init greedy ar :
  per_dump_src ts vals mids P tr init greedy ar = per_dump ts vals (dump_ends mids P) P tr init greedy (allow_repeats_of ar).
Proof.
  unfold per_dump_src, per_dump, sensor_to_categorical_src, sensor_to_categorical.
  rewrite ends_of_mids_eq, s2c_src_eq. destruct (s2c _ _ _ _ _ _ _ _) as [[v e]|]; [|reflexivity].
  apply cat_all_src_eq.
Qed.

(* strictly increasing mid times give strictly increasing end times *)
Lemma dump_ends_cons m0 mr P : dump_ends (m0 :: mr) P = (m0 + P / 2) :: dump_ends mr P.
Proof. reflexivity. Qed.
Lemma dump_ends_sorted mids P : ssorted mids -> ssorted (dump_ends mids P).
Proof.
  induction mids as [|m r IH]; [auto|]. intros [Hf Hs]. rewrite dump_ends_cons. split; [|apply IH; exact Hs].
  unfold dump_ends. apply Forall_map. eapply Forall_impl; [|exact Hf]. simpl. intros. lia.
Qed.
