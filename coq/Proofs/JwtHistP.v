(* C09: lemmas about Model/JwtHist.v - token validation over histories of uses with a moving clock *)
From Coq Require Import ZArith List Bool String Lia.
From KV Require Import Base.Sx Base.Str Gen.Generated Model.S3Retry Model.Jwt Model.JwtHist Proofs.S3RetryP Proofs.JwtP.
Import ListNotations.
Open Scope Z_scope.

Definition dres_of (o : option reject) : dres := match o with None => DOk | Some r => DRej r end.

(* ---------- the interpreted statements are the hand-written chain of Model/Jwt.v ---------- *)
Lemma run_decode_std : forall t now, run_decode jwt_decode_steps t now d0 = dres_of (decode_jwt t now).
Proof.
  intros t now.
  change jwt_decode_steps with ["split"; "strip_sig"; "header"; "siglen"; "claims"; "exp"; "expired"; "return"]%string.
  unfold decode_jwt. fold (sig_bad t).
  change jwt_exp_cmp with "Gt"%string.
  cbn -[Z.eqb Z.gtb sig_bad]. change jwt_nseg with 3.
  destruct (t_nseg t =? 3); [|reflexivity].
  destruct (t_header_ok t); [|reflexivity].
  destruct (sig_bad t); [reflexivity|].
  destruct (t_claims_ok t); [|reflexivity].
  destruct (t_exp t) as [|v|]; try reflexivity.
  destruct (now >? v); reflexivity.
Qed.

Lemma decode_memo_none : forall memo id t now,
  decode_memo None memo id t now = (dres_of (decode_jwt t now), memo).
Proof. intros. unfold decode_memo. rewrite run_decode_std. reflexivity. Qed.

Lemma run_init_std : forall memo id t now,
  run_init jwt_init_steps None memo id t now false = (dres_of (bearer_init t now), memo).
Proof.
  intros. change jwt_init_steps with ["decode"; "need_prefix"; "keep_token"]%string.
  cbn -[decode_memo]. rewrite decode_memo_none. unfold bearer_init.
  destruct (decode_jwt t now); cbn; [reflexivity|]. destruct (t_has_prefix t); reflexivity.
Qed.

Lemma factory_std : forall memo scheme host id t now,
  factory None memo scheme host id t now = (dres_of (auth_factory scheme host t now), memo).
Proof.
  intros. unfold factory, auth_factory.
  destruct (negb (String.eqb scheme jwt_scheme) && negb (String.eqb host jwt_host_exception)); [reflexivity|].
  apply run_init_std.
Qed.

(* _BearerAuth.__call__ : the token is decoded again against the clock of the moment, then the scope is checked *)
Definition call_checks (t : token) (now : Z) (path : list Z) : option reject :=
  match decode_jwt t now with Some r => Some r | None => bearer_call t path end.

Lemma run_call_std : forall memo id t now path,
  run_call jwt_call_steps None memo id t now path false false false = (dres_of (call_checks t now path), memo).
Proof.
  intros. change jwt_call_steps with ["decode"; "path"; "prefixes"; "scope"; "set_header"; "return"]%string.
  cbn -[decode_memo]. rewrite decode_memo_none. unfold call_checks, bearer_call.
  destruct (decode_jwt t now); cbn; [reflexivity|].
  destruct (existsb (fun pre => starts_with pre path) (t_prefixes t)); reflexivity.
Qed.

(* ---------- the stateless spec predicates against the chain of checks ---------- *)
Lemma decode_bad_iff : forall t now,
  decode_bad t now = match decode_jwt t now with Some _ => true | None => false end.
Proof.
  intros. unfold decode_bad, decode_jwt.
  change jwt_sig_alg with "ES256"%string. change jwt_sig_len with 86.
  destruct (t_nseg t =? 3); destruct (t_header_ok t); destruct (t_claims_ok t);
    destruct (String.eqb (t_alg t) "ES256"); destruct (t_siglen t =? 86); cbn; try reflexivity;
    destruct (t_exp t) as [|v|]; try reflexivity; destruct (now >? v); reflexivity.
Qed.

Lemma decode_class : forall t now r, decode_jwt t now = Some r -> reject_class r = InvalidTok.
Proof.
  intros t now r. unfold decode_jwt.
  destruct (negb (t_nseg t =? 3)); [intro H; inversion H; reflexivity|].
  destruct (negb (t_header_ok t)); [intro H; inversion H; reflexivity|].
  destruct (String.eqb (t_alg t) jwt_sig_alg && negb (t_siglen t =? jwt_sig_len)); [intro H; inversion H; reflexivity|].
  destruct (negb (t_claims_ok t)); [intro H; inversion H; reflexivity|].
  destruct (t_exp t) as [|v|]; try discriminate; [|intro H; inversion H; reflexivity].
  destruct (now >? v); [intro H; inversion H; reflexivity|discriminate].
Qed.

Lemma not_https_iff : forall scheme host,
  not_https scheme host = negb (String.eqb scheme jwt_scheme) && negb (String.eqb host jwt_host_exception).
Proof. reflexivity. Qed.

Lemma open_bad_iff : forall scheme host t now,
  open_bad scheme host t now = match auth_factory scheme host t now with Some _ => true | None => false end.
Proof.
  intros. unfold open_bad, auth_factory, bearer_init. rewrite <- not_https_iff, decode_bad_iff.
  destruct (not_https scheme host); [reflexivity|]. cbn.
  destruct (decode_jwt t now); [reflexivity|]. cbn. destruct (t_has_prefix t); reflexivity.
Qed.

Lemma factory_class : forall scheme host t now r,
  auth_factory scheme host t now = Some r -> reject_class r = spec_class scheme host.
Proof.
  intros scheme host t now r. unfold auth_factory, bearer_init, spec_class. rewrite <- not_https_iff.
  destruct (not_https scheme host); [intro H; inversion H; reflexivity|].
  destruct (decode_jwt t now) as [r'|] eqn:E.
  - intro H; inversion H; subst. exact (decode_class _ _ _ E).
  - destruct (t_has_prefix t); [discriminate|]. intro H; inversion H; reflexivity.
Qed.

Definition in_scope (t : token) (path : list Z) : bool := existsb (fun pre => starts_with pre path) (t_prefixes t).

Lemma bad_token_split : forall scheme host t now path,
  bad_token scheme host t now path = open_bad scheme host t now || negb (in_scope t path).
Proof.
  intros. unfold bad_token, open_bad, decode_bad, not_https, in_scope.
  destruct (negb (t_nseg t =? 3)); destruct (negb (t_header_ok t)); destruct (negb (t_claims_ok t));
    destruct (String.eqb (t_alg t) "ES256" && negb (t_siglen t =? 86));
    destruct (match t_exp t with ExpAbsent => false | ExpInt v => now >? v | ExpInvalid => true end);
    destruct (negb (t_has_prefix t)); destruct (negb (String.eqb scheme "https") && negb (String.eqb host "127.0.0.1"));
    reflexivity.
Qed.

(* ---------- one use ---------- *)
Definition wf_use (u : use) : Prop :=
  Forall (fun o => wf_outcome o = true) (u_fs u) /\ proc_ok (u_proc u) (u_len u) /\ streamed (u_proc u) = true.

(* the store objects alive are the ones the spec says were constructed; each was accepted by _auth_factory *)
Definition inv (toks : list token) (st : pstate) (stores : list use) : Prop :=
  p_stores st = map u_tok stores /\
  Forall (fun u0 => not_https (u_scheme u0) (u_host u0) = false /\ t_has_prefix (tok toks (u_tok u0)) = true) stores.

Lemma send_spec : forall cfg memo id t u scheme host,
  wf_retry (c_retry cfg) = true -> wf_use u ->
  not_https scheme host = false -> t_has_prefix t = true ->
  send None cfg memo id t u =
  (spec_token_use scheme host t (u_now u) (u_path u) cfg (u_len u) (u_fs u), dres_of (call_checks t (u_now u) (u_path u)), memo).
Proof.
  intros cfg memo id t u scheme host Hb [Hfs [Hp Hs]] Hh Hpre.
  unfold send. rewrite run_call_std. unfold spec_token_use. rewrite bad_token_split.
  unfold open_bad. rewrite Hh, Hpre, decode_bad_iff. unfold call_checks, bearer_call. fold (in_scope t (u_path u)).
  unfold spec_class. rewrite Hh.
  destruct (decode_jwt t (u_now u)) as [r|] eqn:E; cbn.
  - rewrite (decode_class _ _ _ E). reflexivity.
  - destruct (in_scope t (u_path u)); cbn; [|reflexivity].
    rewrite (request_is_spec cfg (u_proc u) (u_len u) (u_fs u) Hb Hp Hs Hfs). reflexivity.
Qed.

Lemma use_step_spec : forall cfg toks st stores u,
  wf_retry (c_retry cfg) = true -> wf_use u -> inv toks st stores ->
  fst (fst (use_step None cfg toks st u)) = spec_use cfg toks stores u /\
  inv toks (snd (use_step None cfg toks st u)) (spec_stores toks stores u).
Proof.
  intros cfg toks st stores u Hb Hu [Hst Hall].
  unfold use_step, spec_use, spec_stores. destruct (u_entry u) as [| |k].
  - (* decode_jwt *)
    rewrite decode_memo_none, decode_bad_iff.
    destruct (decode_jwt (tok toks (u_tok u)) (u_now u)) as [r|] eqn:E; cbn.
    + rewrite (decode_class _ _ _ E). split; [reflexivity|split; assumption].
    + split; [reflexivity|split; assumption].
  - (* store construction + request *)
    rewrite factory_std, open_bad_iff.
    destruct (auth_factory (u_scheme u) (u_host u) (tok toks (u_tok u)) (u_now u)) as [r|] eqn:E; cbn.
    + split; [|split; assumption].
      unfold spec_token_use. rewrite bad_token_split, open_bad_iff, E. cbn.
      rewrite (factory_class _ _ _ _ _ E). reflexivity.
    + assert (Hh : not_https (u_scheme u) (u_host u) = false /\ t_has_prefix (tok toks (u_tok u)) = true).
      { pose proof (open_bad_iff (u_scheme u) (u_host u) (tok toks (u_tok u)) (u_now u)) as H. rewrite E in H.
        unfold open_bad in H. apply orb_false_iff in H as [H H2]. apply orb_false_iff in H as [H _].
        apply negb_false_iff in H2. split; assumption. }
      destruct Hh as [Hh Hpre].
      rewrite (send_spec cfg (p_memo st) (u_tok u) (tok toks (u_tok u)) u (u_scheme u) (u_host u) Hb Hu Hh Hpre). cbn.
      split; [reflexivity|]. split.
      * cbn. rewrite Hst, map_app. reflexivity.
      * apply Forall_app. split; [assumption|]. constructor; [split; assumption|constructor].
  - (* one more request on store k *)
    rewrite Hst, nth_error_map.
    destruct (nth_error stores k) as [u0|] eqn:E; cbn.
    + apply nth_error_In in E. rewrite Forall_forall in Hall. destruct (Hall u0 E) as [Hh Hpre].
      rewrite (send_spec cfg (p_memo st) (u_tok u0) (tok toks (u_tok u0)) u (u_scheme u0) (u_host u0) Hb Hu Hh Hpre). cbn.
      split; [reflexivity|]. split; [first [reflexivity|exact Hst]|]. rewrite Forall_forall. exact Hall.
    + split; [reflexivity|]. split; [first [reflexivity|exact Hst]|assumption].
Qed.

(* ---------- histories ---------- *)
Lemma hist_is_spec_gen : forall cfg toks us st stores,
  wf_retry (c_retry cfg) = true -> Forall wf_use us -> inv toks st stores ->
  fst (run_hist_p None cfg toks st us) = spec_hist cfg toks stores us.
Proof.
  intros cfg toks us. induction us as [|u rest IH]; intros st stores Hb Hus Hinv; [reflexivity|].
  inversion Hus as [|? ? Hu Hrest]; subst.
  destruct (use_step_spec cfg toks st stores u Hb Hu Hinv) as [E I].
  cbn. destruct (use_step None cfg toks st u) as [[r d] st'] eqn:U. cbn in E, I.
  specialize (IH st' (spec_stores toks stores u) Hb Hrest I).
  destruct (run_hist_p None cfg toks st' rest) as [rs st'']. cbn in *. subst. reflexivity.
Qed.

Lemma hist_is_spec : forall cfg toks us,
  wf_retry (c_retry cfg) = true -> Forall wf_use us ->
  fst (run_hist cfg toks p0 us) = spec_hist cfg toks [] us.
Proof.
  intros. unfold run_hist. change jwt_decode_memo with (@None Z).
  apply hist_is_spec_gen; try assumption. split; [reflexivity|constructor].
Qed.

Lemma run_hist_app : forall policy cfg toks pre rest st,
  run_hist_p policy cfg toks st (pre ++ rest) =
  (fst (run_hist_p policy cfg toks st pre) ++
   fst (run_hist_p policy cfg toks (snd (run_hist_p policy cfg toks st pre)) rest),
   snd (run_hist_p policy cfg toks (snd (run_hist_p policy cfg toks st pre)) rest)).
Proof.
  intros policy cfg toks pre. induction pre as [|u pre IH]; intros rest st; cbn.
  - destruct (run_hist_p policy cfg toks st rest); reflexivity.
  - destruct (use_step policy cfg toks st u) as [[r d] st']. rewrite IH.
    destruct (run_hist_p policy cfg toks st' pre) as [rs st'']. cbn. reflexivity.
Qed.

Lemma run_hist_length : forall policy cfg toks us st,
  List.length (fst (run_hist_p policy cfg toks st us)) = List.length us.
Proof.
  intros policy cfg toks us. induction us as [|u us IH]; intro st; cbn; [reflexivity|].
  destruct (use_step policy cfg toks st u) as [[r d] st']. specialize (IH st').
  destruct (run_hist_p policy cfg toks st' us). cbn in *. rewrite IH. reflexivity.
Qed.

Lemma nth_use : forall policy cfg toks pre u post st dflt,
  nth (List.length pre) (fst (run_hist_p policy cfg toks st (pre ++ u :: post))) dflt =
  fst (fst (use_step policy cfg toks (snd (run_hist_p policy cfg toks st pre)) u)).
Proof.
  intros. rewrite run_hist_app. cbn [fst].
  rewrite app_nth2 by (rewrite run_hist_length; apply Nat.le_refl).
  rewrite run_hist_length, Nat.sub_diag. cbn.
  destruct (use_step policy cfg toks (snd (run_hist_p policy cfg toks st pre)) u) as [[r d] st'].
  destruct (run_hist_p policy cfg toks st' post). reflexivity.
Qed.

(* NO MEMORY: what a use of a token string returns does not depend on the process state it meets *)
Lemma use_step_stateless : forall cfg toks st st' u, is_call u = false ->
  fst (fst (use_step None cfg toks st u)) = fst (fst (use_step None cfg toks st' u)).
Proof.
  intros cfg toks st st' u Hc. unfold is_call in Hc. unfold use_step. destruct (u_entry u) as [| |k]; [| |discriminate Hc].
  - rewrite !decode_memo_none. destruct (decode_jwt (tok toks (u_tok u)) (u_now u)); reflexivity.
  - rewrite !factory_std. destruct (auth_factory (u_scheme u) (u_host u) (tok toks (u_tok u)) (u_now u)); cbn; [reflexivity|].
    unfold send. rewrite !run_call_std. destruct (call_checks (tok toks (u_tok u)) (u_now u) (u_path u)); reflexivity.
Qed.

Lemma no_memory : forall cfg toks pre u post dflt, is_call u = false ->
  nth (List.length pre) (fst (run_hist cfg toks p0 (pre ++ u :: post))) dflt =
  fst (fst (use_step jwt_decode_memo cfg toks p0 u)).
Proof.
  intros. unfold run_hist. rewrite nth_use. change jwt_decode_memo with (@None Z).
  apply use_step_stateless. assumption.
Qed.

(* a request on a store object depends on the past only through WHICH token the store was constructed with *)
Lemma call_depends_on_store_token : forall cfg toks st st' u k,
  u_entry u = ECall k -> nth_error (p_stores st) k = nth_error (p_stores st') k ->
  fst (fst (use_step None cfg toks st u)) = fst (fst (use_step None cfg toks st' u)).
Proof.
  intros cfg toks st st' u k He Hn. unfold use_step. rewrite He, Hn.
  destruct (nth_error (p_stores st') k) as [id|]; [|reflexivity].
  unfold send. rewrite !run_call_std. destruct (call_checks (tok toks id) (u_now u) (u_path u)); reflexivity.
Qed.

(* ---------- an expired token never reaches the wire ---------- *)
Lemma expired_is_refused : forall t now, expired_at t now = true -> exists r, decode_jwt t now = Some r.
Proof.
  intros t now H. pose proof (decode_bad_iff t now) as B.
  assert (decode_bad t now = true) as D.
  { unfold decode_bad. unfold expired_at in H. destruct (t_exp t) as [|v|]; try discriminate H.
    rewrite H. rewrite !orb_true_r. reflexivity. }
  rewrite D in B. destruct (decode_jwt t now) as [r|]; [exists r; reflexivity|discriminate B].
Qed.

Lemma expired_use_rejected : forall cfg toks st u t,
  used_token toks st u = Some t -> expired_at t (u_now u) = true ->
  exists e, fst (fst (use_step None cfg toks st u)) = (Err e, O) /\ (e = InvalidTok \/ e = Auth).
Proof.
  intros cfg toks st u t Hu Hx. unfold used_token in Hu. unfold use_step.
  destruct (u_entry u) as [| |k].
  - inversion Hu; subst. destruct (expired_is_refused _ _ Hx) as [r E].
    rewrite decode_memo_none, E. cbn. exists (reject_class r). split; [reflexivity|].
    rewrite (decode_class _ _ _ E). left; reflexivity.
  - inversion Hu; subst. destruct (expired_is_refused _ _ Hx) as [r E]. rewrite factory_std.
    destruct (auth_factory (u_scheme u) (u_host u) (tok toks (u_tok u)) (u_now u)) as [r'|] eqn:F; cbn.
    + exists (reject_class r'). split; [reflexivity|]. destruct r'; cbn; auto.
    + unfold auth_factory, bearer_init in F. rewrite E in F.
      destruct (negb (String.eqb (u_scheme u) jwt_scheme) && negb (String.eqb (u_host u) jwt_host_exception)); discriminate F.
  - destruct (nth_error (p_stores st) k) as [id|]; [|discriminate Hu]. inversion Hu; subst.
    destruct (expired_is_refused _ _ Hx) as [r E]. unfold send. rewrite run_call_std. unfold call_checks. rewrite E. cbn.
    exists (reject_class r). split; [reflexivity|]. rewrite (decode_class _ _ _ E). left; reflexivity.
Qed.

Lemma expired_never_sent : forall cfg toks pre u post t dflt,
  used_token toks (snd (run_hist cfg toks p0 pre)) u = Some t -> expired_at t (u_now u) = true ->
  exists e, nth (List.length pre) (fst (run_hist cfg toks p0 (pre ++ u :: post))) dflt = (Err e, O) /\
            (e = InvalidTok \/ e = Auth).
Proof.
  intros cfg toks pre u post t dflt Hu Hx. unfold run_hist in *. rewrite nth_use.
  revert Hu. change jwt_decode_memo with (@None Z). intro Hu.
  exact (expired_use_rejected cfg toks _ u t Hu Hx).
Qed.

(* the store objects alive after any history were all constructed with a token that _auth_factory accepted then *)
Lemma stores_are_accepted_opens : forall cfg toks us,
  wf_retry (c_retry cfg) = true -> Forall wf_use us ->
  p_stores (snd (run_hist cfg toks p0 us)) =
  map u_tok (filter (fun u => match u_entry u with
                              | EOpen => negb (open_bad (u_scheme u) (u_host u) (tok toks (u_tok u)) (u_now u))
                              | _ => false end) us).
Proof.
  intros cfg toks us Hb Hus. unfold run_hist. change jwt_decode_memo with (@None Z).
  assert (G : forall us st stores, Forall wf_use us -> inv toks st stores ->
            p_stores (snd (run_hist_p None cfg toks st us)) =
            map u_tok (stores ++ filter (fun u => match u_entry u with
                              | EOpen => negb (open_bad (u_scheme u) (u_host u) (tok toks (u_tok u)) (u_now u))
                              | _ => false end) us)).
  { clear us Hus. induction us as [|u rest IH]; intros st stores Hus Hinv.
    - cbn. rewrite app_nil_r. exact (proj1 Hinv).
    - inversion Hus as [|? ? Hu Hrest]; subst.
      destruct (use_step_spec cfg toks st stores u Hb Hu Hinv) as [_ I].
      cbn [run_hist_p]. destruct (use_step None cfg toks st u) as [[r d] st'] eqn:U. cbn [snd] in I.
      specialize (IH st' (spec_stores toks stores u) Hrest I).
      destruct (run_hist_p None cfg toks st' rest) as [rs st'']. cbn [snd] in *. rewrite IH.
      unfold spec_stores. cbn [filter]. destruct (u_entry u); try reflexivity.
      destruct (open_bad (u_scheme u) (u_host u) (tok toks (u_tok u)) (u_now u)); cbn [negb]; [reflexivity|].
      rewrite <- app_assoc. reflexivity. }
  rewrite (G us p0 [] Hus); [reflexivity|]. split; [reflexivity|constructor].
Qed.

(* ---------- laws of the clock ---------- *)
(* no resurrection: what decode_jwt refuses at some moment it refuses at every later moment *)
Lemma decode_no_resurrection : forall t now now', now <= now' ->
  decode_jwt t now <> None -> decode_jwt t now' <> None.
Proof.
  intros t now now' Hle. pose proof (decode_bad_iff t now) as B1. pose proof (decode_bad_iff t now') as B2.
  intros H1 H2. rewrite H2 in B2. destruct (decode_jwt t now) as [r|]; [|apply H1; reflexivity].
  unfold decode_bad in *.
  destruct (negb (t_nseg t =? 3)); [discriminate B2|]. destruct (negb (t_header_ok t)); [discriminate B2|].
  destruct (negb (t_claims_ok t)); [discriminate B2|].
  destruct (String.eqb (t_alg t) "ES256" && negb (t_siglen t =? 86)); [discriminate B2|].
  cbn in B1, B2. destruct (t_exp t) as [|v|]; try discriminate. lia.
Qed.

(* the clock enters the decision through the expiry comparison only *)
Lemma decode_time_only_exp : forall t now now', expired_at t now = expired_at t now' -> decode_jwt t now = decode_jwt t now'.
Proof.
  intros t now now' H. unfold decode_jwt. unfold expired_at in H.
  destruct (t_exp t) as [|v|]; try reflexivity. rewrite H. reflexivity.
Qed.

(* a token is valid up to and including its expiry second and refused from the next one on (time.time() > exp) *)
Lemma expiry_boundary : forall t v now, t_exp t = ExpInt v -> expired_at t now = true <-> v < now.
Proof. intros t v now H. unfold expired_at. rewrite H. lia. Qed.

Lemma cmp_is_gt : forall a b, cmpZ jwt_exp_cmp a b = (a >? b).
Proof. reflexivity. Qed.
