From Coq Require Import ZArith QArith Qfield List Bool String Lia.
From KV Require Import Base.Sx Base.Str Gen.Generated Model.TimeFreq.
Import ListNotations.
Open Scope Q_scope.

Lemma Qltb_spec x y : reflect (x < y) (Qltb x y).
Proof.
  unfold Qltb. destruct (Qle_bool y x) eqn:E; simpl; constructor.
  - apply Qle_bool_iff in E. apply Qle_not_lt. exact E.
  - apply Qnot_le_lt. intro H. apply Qle_bool_iff in H. congruence.
Qed.

Lemma Qltb_compat x x' y : x == x' -> Qltb x y = Qltb x' y.
Proof.
  intros E. destruct (Qltb_spec x y) as [H|H]; destruct (Qltb_spec x' y) as [H'|H']; try reflexivity; exfalso.
  - apply H'. rewrite <- E. exact H.
  - apply H. rewrite E. exact H'.
Qed.

Lemma Qltb_mono t (d1 d2 : Z) : (d1 <= d2)%Z -> Qltb t (inject_Z d1) = true -> Qltb t (inject_Z d2) = true.
Proof.
  intros Hd H. destruct (Qltb_spec t (inject_Z d1)) as [H1|]; [|discriminate].
  destruct (Qltb_spec t (inject_Z d2)) as [|H2]; [reflexivity|]. exfalso. apply H2.
  eapply Qlt_le_trans; [exact H1|]. rewrite <- Zle_Qle. exact Hd.
Qed.

(* the decision table of the source equals the documented per-correlator fix date, for EVERY first timestamp *)
Lemma fix_rule_table (t : Q) (cmc2 cbf4k : bool) :
  fix_rule (fun d => Qltb t (inject_Z d)) cmc2 cbf4k = Qltb t (inject_Z (doc_fix_date cmc2 cbf4k)).
Proof.
  unfold fix_rule, doc_fix_date. cbv beta.
  pose proof (Qltb_mono t 1549843200 1551571200 ltac:(lia)) as M12.
  pose proof (Qltb_mono t 1551571200 1552608000 ltac:(lia)) as M23.
  destruct cmc2, cbf4k; cbv iota;
  destruct (Qltb t (inject_Z 1549843200)) eqn:E1;
  destruct (Qltb t (inject_Z 1551571200)) eqn:E2;
  destruct (Qltb t (inject_Z 1552608000)) eqn:E3;
  simpl; try reflexivity;
  try (specialize (M12 eq_refl); discriminate); try (specialize (M23 eq_refl); discriminate).
Qed.

Lemma fix_dates_documented : fix_dates = [1549843200; 1551571200; 1552608000]%Z
  /\ fix_cmc2_marker = "cbf_dev"%string /\ fix_cbf4k_marker = "c856M4k"%string
  /\ fix_cmc2_attr = "sub_pool_resources"%string /\ fix_cbf4k_attr = "sub_product"%string.
Proof. repeat split; reflexivity. Qed.

(* ---------------- the data source ---------------- *)
(* datasources.py synthesises sync_time + first_timestamp + k * int_time *)
Lemma synth_closed tm k : synth tm k == t_sync tm + t_first tm + inject_Z k * t_int tm.
Proof. unfold synth, q_ds_timestamp, gen_ds_timestamp, q_ds_t0, gen_ds_t0. ring. Qed.

(* whatever dumps are preselected, the source keeps dumps a.. and remembers the first timestamp of the CAPTURE *)
Lemma run_ds_closed tm a : run_ds tm a = mkD a (Some (synth tm 0)) (Some a) (Some (synth tm 0)).
Proof. reflexivity. Qed.
Lemma src_base_closed tm a : src_base tm a = a.
Proof. reflexivity. Qed.
Lemma capture_start_ignores_preselect tm a :
  d_src_cap (run_ds tm a) = Some (synth tm 0) /\ d_src_cap (run_ds tm a) = d_src_cap (run_ds tm 0).
Proof. split; reflexivity. Qed.

(* ---------------- VisibilityDataV4.__init__ ---------------- *)
Definition spec_fix (tm : timing) : option Q :=
  match t_cbf tm with Some p => if spec_needs_fix tm then Some p else None | None => None end.

Lemma v_fix_spec tm c : c == raw_stamp tm 0 -> v_fix tm (Some c) = spec_fix tm.
Proof.
  intros E. unfold v_fix, spec_fix, spec_needs_fix. destruct (t_cbf tm); [|reflexivity].
  rewrite fix_rule_table. rewrite (Qltb_compat _ _ _ E). reflexivity.
Qed.

Lemma spec_fix_amount_fix tm :
  spec_fix_amount tm == match spec_fix tm with Some p => p | None => 0 end.
Proof.
  unfold spec_fix_amount, spec_fix. destruct (t_cbf tm); destruct (spec_needs_fix tm); reflexivity.
Qed.

Lemma half_dump_closed x : q_half_dump x == (1#2) * x.
Proof. unfold q_half_dump, gen_v4_half_dump. field. Qed.

Ltac v4_exec E :=
  repeat (cbn [fold_left v_step fst snd v_shift v_off v_cap v_start v_end]; try rewrite E).

(* symbolic execution of the time statements of __init__, in their source order *)
Lemma run_v4_closed tm a n :
  v_shift (run_v4 tm a n) == t_off tm - spec_fix_amount tm /\
  v_off (run_v4 tm a n) == t_off tm - spec_fix_amount tm /\
  (exists s, v_start (run_v4 tm a n) = Some s /\
             s == synth tm a + (t_off tm - spec_fix_amount tm) - (1#2) * t_int tm) /\
  (exists e, v_end (run_v4 tm a n) = Some e /\
             e == synth tm (a + n - 1) + (t_off tm - spec_fix_amount tm) + (1#2) * t_int tm).
Proof.
  unfold run_v4. rewrite ?src_base_closed, ?run_ds_closed. cbn [d_src_cap]. unfold gen_v4_time_prog.
  assert (C : synth tm 0 + inject_Z 1 * t_off tm == raw_stamp tm 0)
    by (rewrite synth_closed; unfold raw_stamp, inject_Z; ring).
  pose proof (v_fix_spec tm _ C) as E.
  pose proof (spec_fix_amount_fix tm) as F.
  destruct (spec_fix tm) as [p|]; v4_exec E;
    (split; [rewrite F; unfold inject_Z; ring|]); (split; [rewrite F; unfold inject_Z; ring|]);
    (split; eexists; (split; [reflexivity|]));
    rewrite half_dump_closed, F; unfold inject_Z; ring.
Qed.

Lemma raw_stamp_synth tm k : raw_stamp tm k == synth tm k + t_off tm.
Proof. rewrite synth_closed. unfold raw_stamp. ring. Qed.

(* timestamps of a data set opened with preselect dumps = a:...; a = 0 is the whole data set *)
Lemma preselect_timestamp tm a i : model_timestamp tm a i == spec_timestamp tm (a + i).
Proof.
  unfold model_timestamp, spec_timestamp. rewrite src_base_closed.
  destruct (run_v4_closed tm a 1) as (S & _). rewrite S, raw_stamp_synth. ring.
Qed.

Lemma timestamp_formula tm i : model_timestamp tm 0 i == spec_timestamp tm i.
Proof. rewrite preselect_timestamp. replace (0 + i)%Z with i by lia. reflexivity. Qed.

Lemma timestamp_closed_form tm i :
  spec_timestamp tm i ==
  t_sync tm + t_first tm + inject_Z i * t_int tm + t_off tm
  - (if Qltb (t_sync tm + t_first tm + t_off tm) (inject_Z (doc_fix_date (t_cmc2 tm) (t_cbf4k tm)))
     then match t_cbf tm with Some c => c | None => 0 end else 0).
Proof.
  unfold spec_timestamp, spec_fix_amount, spec_needs_fix.
  assert (E : raw_stamp tm 0 == t_sync tm + t_first tm + t_off tm) by (unfold raw_stamp, inject_Z; ring).
  rewrite (Qltb_compat _ _ _ E). unfold raw_stamp. reflexivity.
Qed.

(* start and end of a data set of n dumps opened with preselect dumps = a:a+n *)
Lemma start_end_bracket tm a n :
  model_start_time tm a n == spec_timestamp tm a - (1#2) * t_int tm /\
  model_end_time tm a n == spec_timestamp tm (a + n - 1) + (1#2) * t_int tm.
Proof.
  unfold model_start_time, model_end_time, spec_timestamp.
  destruct (run_v4_closed tm a n) as (_ & _ & (s & Es & Hs) & (e & Ee & He)).
  rewrite Es, Ee. cbn [optQ]. rewrite Hs, He, !raw_stamp_synth. split; ring.
Qed.

(* ... so they bracket the model's own first and last dump by half a dump *)
Lemma start_end_bracket_model tm a n :
  model_start_time tm a n == model_timestamp tm a 0 - (1#2) * t_int tm /\
  model_end_time tm a n == model_timestamp tm a (n - 1) + (1#2) * t_int tm.
Proof.
  destruct (start_end_bracket tm a n) as (S & E). rewrite S, E, !preselect_timestamp.
  replace (a + 0)%Z with a by lia. replace (a + (n - 1))%Z with (a + n - 1)%Z by lia. split; reflexivity.
Qed.

(* the workaround is recorded in the time_offset attribute *)
Lemma time_offset_records tm a : model_time_offset tm a == t_off tm - spec_fix_amount tm.
Proof. unfold model_time_offset. destruct (run_v4_closed tm a 1) as (_ & O & _). exact O. Qed.

(* before the repair the statement was false: a capture that straddles a fix date *)
Definition straddle : timing :=
  mkTiming (inject_Z 1552607000) (inject_Z 999) 2 0 (Some (1#2)) false false.
Lemma preselect_timestamps_refuted_before_fix :
  exists tm a i, ~ (model_timestamp_pre tm a i == spec_timestamp tm (a + i))
                 /\ model_timestamp tm a i == spec_timestamp tm (a + i).
Proof. exists straddle, 1%Z, 0%Z. split; [vm_compute; discriminate|apply preselect_timestamp]. Qed.

(* ---------------- spectral window ---------------- *)
Lemma inject_Z_nonzero n : (n <> 0)%Z -> ~ inject_Z n == 0.
Proof. intros H E. apply H. unfold Qeq, inject_Z in E. simpl in E. lia. Qed.

(* the channel_width attribute stored by __init__ is bandwidth / num_chans on both of its paths *)
Lemma init_width_consistent c cw n sd bw : (n <> 0)%Z ->
  init_width_attr (c, cw, n, sd, bw) == chan_width (spw_init (c, cw, n, sd, bw)).
Proof.
  intros Hn. pose proof (inject_Z_nonzero n Hn).
  unfold init_width_attr, chan_width, spw_init. destruct bw; cbn [s_bw s_n].
  - unfold q_init_width, gen_spw_init_width. reflexivity.
  - unfold q_init_bandwidth, gen_spw_init_bandwidth. field. assumption.
Qed.

Lemma chan_freq_closed w k : (s_n w <> 0)%Z ->
  chan_freq w k == spec_chan_freq (s_centre w) (s_bw w) (s_n w) (s_side w) k.
Proof.
  intros Hn. pose proof (inject_Z_nonzero _ Hn).
  unfold chan_freq, q_channel_freq, gen_spw_channel_freq, spec_chan_freq. field. assumption.
Qed.

Lemma channel_formula c bw n k : (0 < n)%Z ->
  chan_freq (mkSpw c bw n 1) k == c + inject_Z (k - n / 2) * bw / inject_Z n.
Proof.
  intros Hn. rewrite chan_freq_closed by (cbn [s_n]; lia). unfold spec_chan_freq; cbn [s_centre s_bw s_n s_side].
  field. apply inject_Z_nonzero; lia.
Qed.

(* the window VisibilityDataV4 builds from the telstate attributes *)
Lemma v4_spw_closed c bw n : (0 < n)%Z ->
  s_centre (v4_spw c bw n) = c /\ s_bw (v4_spw c bw n) == bw /\ s_n (v4_spw c bw n) = n /\ s_side (v4_spw c bw n) = 1%Z.
Proof.
  intros Hn. unfold v4_spw, spw_init. cbn [s_centre s_bw s_n s_side]. repeat split; try reflexivity.
  unfold q_init_bandwidth, gen_spw_init_bandwidth, q_v4_channel_width, gen_v4_channel_width. field.
  apply inject_Z_nonzero; lia.
Qed.

Lemma v4_channel_formula c bw n k : (0 < n)%Z ->
  chan_freq (v4_spw c bw n) k == c + inject_Z (k - n / 2) * bw / inject_Z n /\
  chan_width (v4_spw c bw n) == bw / inject_Z n.
Proof.
  intros Hn. destruct (v4_spw_closed c bw n Hn) as (C & B & N & S).
  assert (NN : ~ inject_Z n == 0) by (apply inject_Z_nonzero; lia).
  split.
  - rewrite chan_freq_closed by lia. unfold spec_chan_freq. rewrite C, B, N, S. field. exact NN.
  - unfold chan_width. rewrite B, N. reflexivity.
Qed.

Lemma v4_freq_attrs_documented :
  gen_v4_freq_attrs = [("num_chans", "n_chans"); ("bandwidth", "bandwidth"); ("centre_freq", "center_freq")]%string
  /\ gen_v4_sideband = 1%Z.
Proof. split; reflexivity. Qed.

Lemma subrange_some w f l w' : subrange w f l = Some w' ->
  (0 <= f)%Z /\ (f < l)%Z /\ (l <= s_n w)%Z /\
  s_centre w' == s_centre w + inject_Z ((f + l) / 2 - s_n w / 2) * s_bw w * inject_Z (s_side w) / inject_Z (s_n w) /\
  s_bw w' == s_bw w * inject_Z (l - f) / inject_Z (s_n w) /\ s_n w' = (l - f)%Z /\ s_side w' = s_side w.
Proof.
  unfold subrange, q_subrange, gen_spw_subrange.
  destruct (0 <=? f)%Z eqn:A; destruct (f <? l)%Z eqn:B; destruct (l <=? s_n w)%Z eqn:C;
    cbn [negb andb option_map]; intros H; try discriminate. injection H as <-.
  unfold spw_init. cbn [s_centre s_bw s_n s_side].
  repeat split; try lia; reflexivity.
Qed.

Lemma subrange_none w f l : subrange w f l = None <-> ~ ((0 <= f)%Z /\ (f < l)%Z /\ (l <= s_n w)%Z).
Proof.
  unfold subrange, q_subrange, gen_spw_subrange.
  destruct (0 <=? f)%Z eqn:A; destruct (f <? l)%Z eqn:B; destruct (l <=? s_n w)%Z eqn:C;
    cbn [negb andb option_map]; split; intros H; try discriminate; try reflexivity; try lia;
  exfalso; apply H; lia.
Qed.

Lemma half_diff f l : ((f + l) / 2 - (l - f) / 2 = f)%Z.
Proof.
  pose proof (Z.div_mod (f + l) 2 ltac:(lia)). pose proof (Z.div_mod (l - f) 2 ltac:(lia)).
  pose proof (Z.mod_pos_bound (f + l) 2 ltac:(lia)). pose proof (Z.mod_pos_bound (l - f) 2 ltac:(lia)).
  lia.
Qed.

(* channel j of the sub-range IS channel first+j of the original: identical centres *)
Lemma subrange_aligned w f l w' j : subrange w f l = Some w' ->
  chan_freq w' j == chan_freq w (f + j).
Proof.
  intros H. destruct (subrange_some _ _ _ _ H) as (H0 & H1 & H2 & C & B & N & S).
  assert (NN : ~ inject_Z (s_n w) == 0) by (apply inject_Z_nonzero; lia).
  assert (NL : ~ inject_Z (l - f) == 0) by (apply inject_Z_nonzero; lia).
  rewrite !chan_freq_closed by lia. unfold spec_chan_freq. rewrite C, B, N, S.
  assert (E : (f + j - s_n w / 2 = ((f + l) / 2 - s_n w / 2) + (j - (l - f) / 2))%Z)
    by (pose proof (half_diff f l); lia).
  rewrite E, inject_Z_plus.
  field. split; assumption.
Qed.

Lemma subrange_width w f l w' : subrange w f l = Some w' -> chan_width w' == chan_width w.
Proof.
  intros H. destruct (subrange_some _ _ _ _ H) as (H0 & H1 & H2 & C & B & N & S).
  unfold chan_width. rewrite B, N. field. split; apply inject_Z_nonzero; lia.
Qed.

(* ... hence identical channel edges, and the band edges of the sub-range are the outer edges of channels
   first and last-1 of the original *)
Lemma subrange_edges w f l w' : subrange w f l = Some w' ->
  (forall j, chan_lo w' j == chan_lo w (f + j)) /\
  band_lo w' == chan_lo w f /\
  band_hi w' == chan_freq w (l - 1) + inject_Z (s_side w) * (1#2) * chan_width w.
Proof.
  intros H. destruct (subrange_some _ _ _ _ H) as (H0 & H1 & H2 & C & B & N & S).
  pose proof (subrange_width _ _ _ _ H) as W.
  assert (L : forall j, chan_lo w' j == chan_lo w (f + j)).
  { intros j. unfold chan_lo. rewrite (subrange_aligned _ _ _ _ j H), W, S. reflexivity. }
  split; [exact L|]. split.
  - unfold band_lo. rewrite L. replace (f + 0)%Z with f by lia. reflexivity.
  - unfold band_hi. rewrite (subrange_aligned _ _ _ _ _ H), W, S, N.
    replace (f + (l - f - 1))%Z with (l - 1)%Z by lia. reflexivity.
Qed.

Lemma parity_cases n : (n mod 2 = 0 /\ n = 2 * (n / 2))%Z \/ (n mod 2 = 1 /\ n = 2 * (n / 2) + 1)%Z.
Proof.
  pose proof (Z.div_mod n 2 ltac:(lia)). pose proof (Z.mod_pos_bound n 2 ltac:(lia)). lia.
Qed.

Lemma rechannelise_same w : rechannelise w (s_n w) = w.
Proof.
  unfold rechannelise, q_rechannelise, gen_spw_rechannelise. rewrite Z.eqb_refl. destruct w; reflexivity.
Qed.

(* centre of the whole band (centre_freq is the centre of the MIDDLE CHANNEL, which for an even channel
   count lies half a channel above the band centre) *)
Definition band_centre (w : spw) : Q :=
  if (s_n w mod 2 =? 0)%Z then s_centre w - inject_Z (s_side w) * (1#2) * chan_width w else s_centre w.

Lemma half_even N : (N mod 2 = 0)%Z -> inject_Z (N / 2) == inject_Z N / 2.
Proof.
  intros P. pose proof (Z.div_mod N 2 ltac:(lia)) as D.
  assert (E : inject_Z N == 2 * inject_Z (N / 2)) by (unfold Qeq, inject_Z, Qmult; cbn [Qnum Qden]; lia).
  rewrite E. field.
Qed.
Lemma half_odd N : (N mod 2 = 1)%Z -> inject_Z (N / 2) == (inject_Z N - 1) / 2.
Proof.
  intros P. pose proof (Z.div_mod N 2 ltac:(lia)) as D.
  assert (E : inject_Z N == 2 * inject_Z (N / 2) + 1) by (unfold Qeq, inject_Z, Qmult, Qplus; cbn [Qnum Qden]; lia).
  rewrite E. field.
Qed.

(* lower edge of channel k = lower band edge + k channel widths *)
Lemma chan_lo_closed w k : (0 < s_n w)%Z ->
  chan_lo w k == band_centre w - inject_Z (s_side w) * (1#2) * s_bw w
                 + inject_Z (s_side w) * inject_Z k * s_bw w / inject_Z (s_n w).
Proof.
  intros Hn. unfold chan_lo. rewrite chan_freq_closed by lia.
  unfold spec_chan_freq, band_centre, chan_width.
  set (N := s_n w) in *.
  assert (NN : ~ inject_Z N == 0) by (apply inject_Z_nonzero; lia).
  assert (A : inject_Z (k - N / 2) == inject_Z k - inject_Z (N / 2))
    by (unfold Z.sub; rewrite inject_Z_plus, inject_Z_opp; reflexivity).
  rewrite A.
  destruct (parity_cases N) as [[PN _]|[PN _]]; rewrite PN; cbn [Z.eqb Pos.eqb].
  - rewrite (half_even N PN). field; exact NN.
  - rewrite (half_odd N PN). field; exact NN.
Qed.

Lemma band_edges_closed w : (0 < s_n w)%Z ->
  band_lo w == band_centre w - inject_Z (s_side w) * (1#2) * s_bw w /\
  band_hi w == band_centre w + inject_Z (s_side w) * (1#2) * s_bw w.
Proof.
  intros Hn.
  assert (NN : ~ inject_Z (s_n w) == 0) by (apply inject_Z_nonzero; lia).
  split.
  - unfold band_lo. rewrite chan_lo_closed by exact Hn. unfold inject_Z at 3. field. exact NN.
  - assert (E : band_hi w == chan_lo w (s_n w - 1) + inject_Z (s_side w) * chan_width w)
      by (unfold band_hi, chan_lo; ring).
    rewrite E, chan_lo_closed by exact Hn. unfold chan_width.
    assert (B : inject_Z (s_n w - 1) == inject_Z (s_n w) - 1)
      by (unfold Z.sub; rewrite inject_Z_plus; reflexivity).
    rewrite B. field. exact NN.
Qed.

Lemma rechannelise_band_centre w m : (0 < s_n w)%Z -> (0 < m)%Z ->
  band_centre (rechannelise w m) == band_centre w /\ s_bw (rechannelise w m) = s_bw w
  /\ s_n (rechannelise w m) = m /\ s_side (rechannelise w m) = s_side w.
Proof.
  intros Hn Hm. unfold rechannelise, q_rechannelise, gen_spw_rechannelise.
  destruct (m =? s_n w)%Z eqn:E.
  { apply Z.eqb_eq in E. subst m. unfold spw_init. destruct w; repeat split; reflexivity. }
  assert (NM : ~ inject_Z m == 0) by (apply inject_Z_nonzero; lia).
  unfold spw_init. cbv zeta. unfold band_centre at 1, chan_width at 1. cbn [s_centre s_bw s_n s_side].
  repeat split; try reflexivity.
  assert (NN : ~ inject_Z (s_n w) == 0) by (apply inject_Z_nonzero; lia).
  unfold band_centre.
  destruct (m mod 2 =? 0)%Z; destruct (s_n w mod 2 =? 0)%Z; unfold chan_width; cbn [s_centre s_bw s_n s_side];
    change (inject_Z 1) with 1; change (inject_Z 2) with 2; field; auto.
Qed.

(* band edges (outer edges of the first and last channel) are preserved by re-channelisation *)
Lemma rechannelise_edges w m : (0 < s_n w)%Z -> (0 < m)%Z ->
  band_lo (rechannelise w m) == band_lo w /\ band_hi (rechannelise w m) == band_hi w.
Proof.
  intros Hn Hm.
  destruct (rechannelise_band_centre w m Hn Hm) as (C & Bw & Nn & Sd).
  destruct (band_edges_closed w Hn) as (L1 & H1).
  assert (Hn' : (0 < s_n (rechannelise w m))%Z) by (rewrite Nn; exact Hm).
  destruct (band_edges_closed _ Hn') as (L2 & H2).
  rewrite L1, H1, L2, H2, C, Bw, Sd. split; reflexivity.
Qed.

(* the two channel grids stay aligned: wherever j/m = k/n the lower edge of new channel j is the lower edge of
   original channel k (splitting channels: j = r*k; averaging r channels: k = r*j) *)
Lemma rechannelise_grid w m j k : (0 < s_n w)%Z -> (0 < m)%Z -> (j * s_n w = k * m)%Z ->
  chan_lo (rechannelise w m) j == chan_lo w k.
Proof.
  intros Hn Hm G.
  destruct (rechannelise_band_centre w m Hn Hm) as (C & Bw & Nn & Sd).
  assert (Hn' : (0 < s_n (rechannelise w m))%Z) by (rewrite Nn; exact Hm).
  rewrite !chan_lo_closed by assumption. rewrite C, Bw, Sd, Nn.
  assert (NM : ~ inject_Z m == 0) by (apply inject_Z_nonzero; lia).
  assert (NN : ~ inject_Z (s_n w) == 0) by (apply inject_Z_nonzero; lia).
  assert (E : inject_Z j * inject_Z (s_n w) == inject_Z k * inject_Z m)
    by (rewrite <- !inject_Z_mult, G; reflexivity).
  assert (F : inject_Z j / inject_Z m == inject_Z k / inject_Z (s_n w)).
  { apply (Qmult_inj_r _ _ (inject_Z m * inject_Z (s_n w))).
    - intro Z0. apply Qmult_integral in Z0. tauto.
    - transitivity (inject_Z j * inject_Z (s_n w)); [field; exact NM|]. rewrite E. field. exact NN. }
  transitivity (band_centre w - inject_Z (s_side w) * (1 # 2) * s_bw w
                + inject_Z (s_side w) * s_bw w * (inject_Z j / inject_Z m)); [field; exact NM|].
  rewrite F. field. exact NN.
Qed.

(* where the parities agree the middle-channel centre itself is preserved *)
Lemma rechannelise_centre_odd w m : (0 < s_n w)%Z -> (0 < m)%Z ->
  (s_n w mod 2 = 1)%Z -> (m mod 2 = 1)%Z -> s_centre (rechannelise w m) == s_centre w.
Proof.
  intros Hn Hm PN PM. unfold rechannelise, q_rechannelise, gen_spw_rechannelise.
  destruct (m =? s_n w)%Z; [destruct w; reflexivity|].
  rewrite PN, PM. unfold spw_init. cbn [Z.eqb s_centre]. reflexivity.
Qed.

(* ---------------- preselection = selection ---------------- *)
Lemma nth_zrange n : forall s j d, (j < n)%nat -> nth j (zrange s n) d = (s + Z.of_nat j)%Z.
Proof.
  induction n as [|n IH]; intros s j d Hj; [lia|].
  destruct j as [|j]; simpl zrange; simpl nth; [lia|].
  rewrite IH by lia. lia.
Qed.
Lemma length_zrange n : forall s, List.length (zrange s n) = n.
Proof. induction n; intros; simpl; auto. Qed.

Lemma map_slice {A B} (f : A -> B) a b l : map f (slice a b l) = slice a b (map f l).
Proof. unfold slice. rewrite skipn_map, firstn_map. reflexivity. Qed.

Lemma nth_firstn' {A} k : forall (l : list A) j d, (j < k)%nat -> nth j (firstn k l) d = nth j l d.
Proof.
  induction k as [|k IH]; intros l j d Hj; [lia|].
  destruct l as [|x l]; [destruct j; reflexivity|].
  destruct j as [|j]; simpl; [reflexivity|]. apply IH. lia.
Qed.
Lemma nth_skipn' {A} a : forall (l : list A) j d, nth j (skipn a l) d = nth (a + j) l d.
Proof.
  induction a as [|a IH]; intros l j d; [reflexivity|].
  destruct l as [|x l]; [destruct j; reflexivity|]. simpl. apply IH.
Qed.
Lemma nth_slice {A} a b (l : list A) j d : (j < b - a)%nat -> nth j (slice a b l) d = nth (a + j) l d.
Proof. intros Hj. unfold slice. rewrite nth_firstn' by exact Hj. apply nth_skipn'. Qed.

(* a later selection x0:x1 on a data set preselected to a:b is the selection a+x0:a+x1 on the whole *)
Lemma skipn_firstn_comm' {A} m : forall n (l : list A), skipn m (firstn n l) = firstn (n - m) (skipn m l).
Proof.
  induction m as [|m IH]; intros n l; [rewrite Nat.sub_0_r; reflexivity|].
  destruct n as [|n]; [reflexivity|]. destruct l as [|x l]; [simpl; rewrite firstn_nil; reflexivity|].
  simpl. apply IH.
Qed.
Lemma skipn_skipn' {A} x : forall y (l : list A), skipn x (skipn y l) = skipn (y + x) l.
Proof.
  intros y. induction y as [|y IH]; intros l; [reflexivity|].
  destruct l as [|e l]; [simpl; rewrite skipn_nil; reflexivity|]. simpl. apply IH.
Qed.
Lemma slice_slice {A} a b x0 x1 (l : list A) : (x1 <= b - a)%nat ->
  slice x0 x1 (slice a b l) = slice (a + x0) (a + x1) l.
Proof.
  intros H. unfold slice. rewrite skipn_firstn_comm', firstn_firstn, skipn_skipn'.
  f_equal. lia.
Qed.
Lemma slice2_slice2 {A} a b c d x0 x1 y0 y1 (m : list (list A)) : (x1 <= b - a)%nat -> (y1 <= d - c)%nat ->
  slice2 x0 x1 y0 y1 (slice2 a b c d m) = slice2 (a + x0) (a + x1) (c + y0) (c + y1) m.
Proof.
  intros Hx Hy. unfold slice2. rewrite <- map_slice, map_map, slice_slice by exact Hx.
  apply map_ext. intros r. apply slice_slice. exact Hy.
Qed.

(* timestamps of the preselected set = timestamps a..b of the full set *)
Lemma preselect_timestamps tm n a b j : (a <= b <= n)%nat -> (j < b - a)%nat ->
  nth j (timestamps_pre tm a b) 0 == nth j (slice a b (timestamps_full tm n)) 0.
Proof.
  intros Hab Hj. rewrite nth_slice by exact Hj.
  unfold timestamps_pre, timestamps_full.
  rewrite (nth_indep _ 0 (model_timestamp tm (Z.of_nat a) 0%Z)) by (rewrite map_length, length_zrange; lia).
  rewrite (nth_indep _ 0 (model_timestamp tm 0 0%Z)) by (rewrite map_length, length_zrange; lia).
  rewrite !map_nth, !nth_zrange by lia.
  rewrite preselect_timestamp.
  rewrite timestamp_formula.
  replace (Z.of_nat a + (0 + Z.of_nat j))%Z with (0 + Z.of_nat (a + j))%Z by lia. reflexivity.
Qed.

(* frequencies of the preselected set = frequencies c..d of the full set *)
Lemma preselect_freqs w c d w' j : subrange w (Z.of_nat c) (Z.of_nat d) = Some w' -> (j < d - c)%nat ->
  nth j (freqs_full w') 0 == nth j (slice c d (freqs_full w)) 0.
Proof.
  intros H Hj. destruct (subrange_some _ _ _ _ H) as (H0 & H1 & H2 & _ & _ & Nw' & _).
  rewrite nth_slice by exact Hj. unfold freqs_full.
  rewrite (nth_indep _ 0 (chan_freq w' 0%Z)) by (rewrite map_length, length_zrange; lia).
  rewrite (nth_indep _ 0 (chan_freq w 0%Z)) by (rewrite map_length, length_zrange; lia).
  rewrite !map_nth, !nth_zrange by lia.
  rewrite (subrange_aligned _ _ _ _ _ H).
  replace (Z.of_nat c + (0 + Z.of_nat j))%Z with (0 + Z.of_nat (c + j))%Z by lia. reflexivity.
Qed.

(* a v4 data set preselected to channels c:d: every valid range is accepted and channel j sits at the documented
   frequency of channel c+j of the whole data set *)
Lemma v4_preselect_freqs centre bw n c d : (0 <= c)%Z -> (c < d)%Z -> (d <= n)%Z ->
  exists w', subrange (v4_spw centre bw n) c d = Some w' /\ s_n w' = (d - c)%Z /\
  forall j, chan_freq w' j == centre + inject_Z (c + j - n / 2) * bw / inject_Z n.
Proof.
  intros H0 H1 H2. assert (Hn : (0 < n)%Z) by lia.
  destruct (v4_spw_closed centre bw n Hn) as (_ & _ & N & _).
  destruct (subrange (v4_spw centre bw n) c d) as [w'|] eqn:E.
  - exists w'. split; [reflexivity|]. destruct (subrange_some _ _ _ _ E) as (_ & _ & _ & _ & _ & Nw' & _).
    split; [exact Nw'|]. intros j. rewrite (subrange_aligned _ _ _ _ j E).
    destruct (v4_channel_formula centre bw n (c + j) Hn) as (F & _). exact F.
  - exfalso. apply subrange_none in E. apply E. rewrite N. lia.
Qed.

(* preselect validation *)
Lemma preselect_steps_documented : preselect_steps = [None; Some 1%Z] /\ preselect_keys = ["channels"; "dumps"]%string.
Proof. split; reflexivity. Qed.

Lemma preselect_rejects keys steps :
  preselect_ok keys steps = true <->
  (forall k, In k keys -> k = "channels"%string \/ k = "dumps"%string) /\
  (forall s, In s steps -> s = None \/ s = Some 1%Z).
Proof.
  unfold preselect_ok. rewrite andb_true_iff, !forallb_forall. split.
  - intros [Hk Hs]. split.
    + intros k Hin. specialize (Hk k Hin). unfold mem_string, preselect_keys in Hk. simpl in Hk.
      rewrite orb_false_r in Hk. apply orb_true_iff in Hk. destruct Hk as [Hk|Hk]; apply String.eqb_eq in Hk; auto.
    + intros s Hin. specialize (Hs s Hin). unfold step_ok, preselect_steps in Hs. cbn [existsb] in Hs.
      destruct s as [z|]; cbn [optZ_eqb] in Hs; [|auto].
      rewrite orb_false_r in Hs. cbn [orb] in Hs. apply Z.eqb_eq in Hs. subst. auto.
  - intros [Hk Hs]. split.
    + intros k Hin. destruct (Hk k Hin) as [->| ->]; reflexivity.
    + intros s Hin. destruct (Hs s Hin) as [->| ->]; reflexivity.
Qed.

Example nonvacuous_c17 :
  exists w', subrange (mkSpw 1284 856 8 1) 2 6 = Some w' /\ chan_freq w' 1 == chan_freq (mkSpw 1284 856 8 1) 3
  /\ v_fix straddle (Some (raw_stamp straddle 0)) = Some (1#2) /\ needs_fix_pre straddle 1 = false
  /\ model_timestamp straddle 1 0 == 1552608000 + 1 - (1#2)
  /\ ~ chan_lo (rechannelise (mkSpw 1284 856 8 1) 3) 1 == chan_lo (mkSpw 1284 856 8 1) 3.
Proof. eexists. split; [reflexivity|]. repeat split; vm_compute; try reflexivity; discriminate. Qed.
