From Coq Require Import ZArith QArith Qfield List Bool String Lia.
From KV Require Import Base.Sx Base.Str Gen.Generated Model.TimeFreq.
Import ListNotations.
Open Scope Q_scope.

Lemma Qltb_spec x y : reflect (x < y) (Qltb x y).
Proof.
  unfold Qltb. destruct (Qle_bool y x) eqn:E; simpl; constructor.
  - apply Qle_bool_iff in E. apply Qle_not_lt. exact E.
  - apply Qnot_le_lt. intro H. apply Qle_bool_iff in H. congruence.
Qed.

Lemma Qltb_mono t (d1 d2 : Z) : (d1 <= d2)%Z -> Qltb t (inject_Z d1) = true -> Qltb t (inject_Z d2) = true.
Proof.
  intros Hd H. destruct (Qltb_spec t (inject_Z d1)) as [H1|]; [|discriminate].
  destruct (Qltb_spec t (inject_Z d2)) as [|H2]; [reflexivity|]. exfalso. apply H2.
  eapply Qlt_le_trans; [exact H1|]. rewrite <- Zle_Qle. exact Hd.
Qed.

(* the decision table of the source equals the documented per-correlator fix date, for EVERY first timestamp *)
Lemma fix_rule_table (t : Q) (cmc2 cbf4k : bool) :
  fix_rule (fun d => Qltb t (inject_Z d)) cmc2 cbf4k = Qltb t (inject_Z (doc_fix_date cmc2 cbf4k)).
Proof.
  unfold fix_rule, doc_fix_date. cbv beta.
  pose proof (Qltb_mono t 1549843200 1551571200 ltac:(lia)) as M12.
  pose proof (Qltb_mono t 1551571200 1552608000 ltac:(lia)) as M23.
  destruct cmc2, cbf4k; cbv iota;
  destruct (Qltb t (inject_Z 1549843200)) eqn:E1;
  destruct (Qltb t (inject_Z 1551571200)) eqn:E2;
  destruct (Qltb t (inject_Z 1552608000)) eqn:E3;
  simpl; try reflexivity;
  try (specialize (M12 eq_refl); discriminate); try (specialize (M23 eq_refl); discriminate).
Qed.

Lemma fix_dates_documented : fix_dates = [1549843200; 1551571200; 1552608000]%Z
  /\ fix_cmc2_marker = "cbf_dev"%string /\ fix_cbf4k_marker = "c856M4k"%string.
Proof. repeat split; reflexivity. Qed.

Lemma needs_fix_0 tm : needs_fix tm 0 = spec_needs_fix tm.
Proof. unfold needs_fix, spec_needs_fix. apply fix_rule_table. Qed.

Lemma timestamp_formula tm i : model_timestamp tm 0 i == spec_timestamp tm i.
Proof.
  unfold model_timestamp, spec_timestamp, fix_amount. rewrite needs_fix_0.
  replace (0 + i)%Z with i by lia. reflexivity.
Qed.

Lemma timestamp_closed_form tm i :
  spec_timestamp tm i ==
  t_sync tm + t_first tm + inject_Z i * t_int tm + t_off tm
  - (if Qltb (t_sync tm + t_first tm + t_off tm) (inject_Z (doc_fix_date (t_cmc2 tm) (t_cbf4k tm)))
     then match t_cbf tm with Some c => c | None => 0 end else 0).
Proof.
  unfold spec_timestamp, spec_needs_fix, raw_stamp.
  assert (E : t_sync tm + t_first tm + inject_Z 0 * t_int tm + t_off tm == t_sync tm + t_first tm + t_off tm)
    by (unfold inject_Z; ring).
  assert (B : Qltb (t_sync tm + t_first tm + inject_Z 0 * t_int tm + t_off tm)
                   (inject_Z (doc_fix_date (t_cmc2 tm) (t_cbf4k tm)))
            = Qltb (t_sync tm + t_first tm + t_off tm) (inject_Z (doc_fix_date (t_cmc2 tm) (t_cbf4k tm)))).
  { destruct (Qltb_spec (t_sync tm + t_first tm + inject_Z 0 * t_int tm + t_off tm)
                        (inject_Z (doc_fix_date (t_cmc2 tm) (t_cbf4k tm)))) as [H|H];
    destruct (Qltb_spec (t_sync tm + t_first tm + t_off tm)
                        (inject_Z (doc_fix_date (t_cmc2 tm) (t_cbf4k tm)))) as [H'|H']; try reflexivity;
    exfalso; rewrite E in H; contradiction. }
  rewrite B. reflexivity.
Qed.

Lemma start_end_bracket tm n :
  model_start_time tm 0 == spec_timestamp tm 0 - (1#2) * t_int tm /\
  model_end_time tm 0 n == spec_timestamp tm (n - 1) + (1#2) * t_int tm.
Proof.
  unfold model_start_time, model_end_time. rewrite !timestamp_formula. split; reflexivity.
Qed.

(* preselected data set: the fix decision no longer depends on the preselected range *)
Lemma needs_fix_any tm a : needs_fix tm a = needs_fix tm 0.
Proof. reflexivity. Qed.

Lemma preselect_timestamp tm a i : model_timestamp tm a i == spec_timestamp tm (a + i).
Proof.
  unfold model_timestamp, spec_timestamp, fix_amount. rewrite needs_fix_any, needs_fix_0. reflexivity.
Qed.

(* before the repair the statement was false: a capture that straddles a fix date *)
Definition straddle : timing :=
  mkTiming (inject_Z 1552607000) (inject_Z 999) 2 0 (Some (1#2)) false false.
Lemma preselect_timestamps_refuted_before_fix :
  exists tm a i, ~ (model_timestamp_pre tm a i == spec_timestamp tm (a + i))
                 /\ model_timestamp tm a i == spec_timestamp tm (a + i).
Proof. exists straddle, 1%Z, 0%Z. split; [vm_compute; discriminate|apply preselect_timestamp]. Qed.

(* ---------------- spectral window ---------------- *)
Lemma inject_Z_nonzero n : (n <> 0)%Z -> ~ inject_Z n == 0.
Proof. intros H E. apply H. unfold Qeq, inject_Z in E. simpl in E. lia. Qed.

Lemma channel_formula c bw n k : (0 < n)%Z ->
  chan_freq (mkSpw c bw n 1) k == c + inject_Z (k - n / 2) * bw / inject_Z n.
Proof.
  intros Hn. unfold chan_freq; simpl. field. try (apply inject_Z_nonzero; lia).
Qed.

Lemma subrange_some w f l w' : subrange w f l = Some w' ->
  (0 <= f)%Z /\ (f < l)%Z /\ (l <= s_n w)%Z /\
  w' = mkSpw (s_centre w + inject_Z ((f + l) / 2 - s_n w / 2) * s_bw w * inject_Z (s_side w) / inject_Z (s_n w))
             (s_bw w * inject_Z (l - f) / inject_Z (s_n w)) (l - f) (s_side w).
Proof.
  unfold subrange. destruct (0 <=? f)%Z eqn:A; destruct (f <? l)%Z eqn:B; destruct (l <=? s_n w)%Z eqn:C;
    simpl; intros H; try discriminate. injection H as <-.
  repeat split; lia.
Qed.

Lemma subrange_none w f l : subrange w f l = None <-> ~ ((0 <= f)%Z /\ (f < l)%Z /\ (l <= s_n w)%Z).
Proof.
  unfold subrange. destruct (0 <=? f)%Z eqn:A; destruct (f <? l)%Z eqn:B; destruct (l <=? s_n w)%Z eqn:C;
    simpl; split; intros H; try discriminate; try reflexivity; try lia;
  exfalso; apply H; lia.
Qed.

Lemma half_diff f l : ((f + l) / 2 - (l - f) / 2 = f)%Z.
Proof.
  pose proof (Z.div_mod (f + l) 2 ltac:(lia)). pose proof (Z.div_mod (l - f) 2 ltac:(lia)).
  pose proof (Z.mod_pos_bound (f + l) 2 ltac:(lia)). pose proof (Z.mod_pos_bound (l - f) 2 ltac:(lia)).
  lia.
Qed.

(* channel j of the sub-range IS channel first+j of the original: identical centres *)
Lemma subrange_aligned w f l w' j : subrange w f l = Some w' ->
  chan_freq w' j == chan_freq w (f + j).
Proof.
  intros H. destruct (subrange_some _ _ _ _ H) as (H0 & H1 & H2 & ->).
  unfold chan_freq; simpl.
  assert (E : (f + j - s_n w / 2 = ((f + l) / 2 - s_n w / 2) + (j - (l - f) / 2))%Z)
    by (pose proof (half_diff f l); lia).
  rewrite E, inject_Z_plus.
  field. split; apply inject_Z_nonzero; lia.
Qed.

Lemma subrange_width w f l w' : subrange w f l = Some w' -> chan_width w' == chan_width w.
Proof.
  intros H. destruct (subrange_some _ _ _ _ H) as (H0 & H1 & H2 & ->).
  unfold chan_width; simpl. field. split; apply inject_Z_nonzero; lia.
Qed.

Lemma parity_cases n : (n mod 2 = 0 /\ n = 2 * (n / 2))%Z \/ (n mod 2 = 1 /\ n = 2 * (n / 2) + 1)%Z.
Proof.
  pose proof (Z.div_mod n 2 ltac:(lia)). pose proof (Z.mod_pos_bound n 2 ltac:(lia)). lia.
Qed.

Lemma rechannelise_same w : rechannelise w (s_n w) = w.
Proof. unfold rechannelise. rewrite Z.eqb_refl. reflexivity. Qed.

(* centre of the whole band (centre_freq is the centre of the MIDDLE CHANNEL, which for an even channel
   count lies half a channel above the band centre) *)
Definition band_centre (w : spw) : Q :=
  if (s_n w mod 2 =? 0)%Z then s_centre w - inject_Z (s_side w) * (1#2) * chan_width w else s_centre w.

Lemma half_even N : (N mod 2 = 0)%Z -> inject_Z (N / 2) == inject_Z N / 2.
Proof.
  intros P. pose proof (Z.div_mod N 2 ltac:(lia)) as D.
  assert (E : inject_Z N == 2 * inject_Z (N / 2)) by (unfold Qeq, inject_Z, Qmult; cbn [Qnum Qden]; lia).
  rewrite E. field.
Qed.
Lemma half_odd N : (N mod 2 = 1)%Z -> inject_Z (N / 2) == (inject_Z N - 1) / 2.
Proof.
  intros P. pose proof (Z.div_mod N 2 ltac:(lia)) as D.
  assert (E : inject_Z N == 2 * inject_Z (N / 2) + 1) by (unfold Qeq, inject_Z, Qmult, Qplus; cbn [Qnum Qden]; lia).
  rewrite E. field.
Qed.

Lemma band_edges_closed w : (0 < s_n w)%Z ->
  band_lo w == band_centre w - inject_Z (s_side w) * (1#2) * s_bw w /\
  band_hi w == band_centre w + inject_Z (s_side w) * (1#2) * s_bw w.
Proof.
  intros Hn. unfold band_lo, band_hi, band_centre, chan_freq, chan_width.
  set (N := s_n w) in *.
  assert (NN : ~ inject_Z N == 0) by (apply inject_Z_nonzero; lia).
  assert (A : inject_Z (0 - N / 2) == - inject_Z (N / 2))
    by (replace (0 - N / 2)%Z with (- (N / 2))%Z by lia; rewrite inject_Z_opp; reflexivity).
  assert (B : inject_Z (N - 1 - N / 2) == inject_Z N - 1 - inject_Z (N / 2))
    by (unfold Z.sub; rewrite !inject_Z_plus, !inject_Z_opp; reflexivity).
  rewrite A, B.
  destruct (parity_cases N) as [[PN _]|[PN _]]; rewrite PN; simpl Z.eqb; cbv iota.
  - rewrite (half_even N PN). split; field; exact NN.
  - rewrite (half_odd N PN). split; field; exact NN.
Qed.

Lemma rechannelise_band_centre w m : (0 < s_n w)%Z -> (0 < m)%Z ->
  band_centre (rechannelise w m) == band_centre w /\ s_bw (rechannelise w m) == s_bw w
  /\ s_n (rechannelise w m) = m /\ s_side (rechannelise w m) = s_side w.
Proof.
  intros Hn Hm. unfold rechannelise.
  destruct (m =? s_n w)%Z eqn:E.
  { apply Z.eqb_eq in E. subst m. repeat split; reflexivity. }
  assert (NM : ~ inject_Z m == 0) by (apply inject_Z_nonzero; lia).
  unfold band_centre at 1; simpl. fold (band_centre w).
  repeat split; try reflexivity.
  destruct (m mod 2 =? 0)%Z; unfold chan_width; simpl; [field; exact NM|reflexivity].
Qed.

(* band edges (outer edges of the first and last channel) are preserved by re-channelisation *)
Lemma rechannelise_edges w m : (0 < s_n w)%Z -> (0 < m)%Z ->
  band_lo (rechannelise w m) == band_lo w /\ band_hi (rechannelise w m) == band_hi w.
Proof.
  intros Hn Hm.
  destruct (rechannelise_band_centre w m Hn Hm) as (C & Bw & Nn & Sd).
  destruct (band_edges_closed w Hn) as (L1 & H1).
  assert (Hn' : (0 < s_n (rechannelise w m))%Z) by (rewrite Nn; exact Hm).
  destruct (band_edges_closed _ Hn') as (L2 & H2).
  rewrite L1, H1, L2, H2, C, Bw, Sd. split; reflexivity.
Qed.

(* where the parities agree the middle-channel centre itself is preserved *)
Lemma rechannelise_centre_odd w m : (0 < s_n w)%Z -> (0 < m)%Z ->
  (s_n w mod 2 = 1)%Z -> (m mod 2 = 1)%Z -> s_centre (rechannelise w m) == s_centre w.
Proof.
  intros Hn Hm PN PM. unfold rechannelise. destruct (m =? s_n w)%Z; [reflexivity|].
  rewrite PN, PM. simpl. reflexivity.
Qed.

(* ---------------- preselection = selection ---------------- *)
Lemma nth_zrange n : forall s j d, (j < n)%nat -> nth j (zrange s n) d = (s + Z.of_nat j)%Z.
Proof.
  induction n as [|n IH]; intros s j d Hj; [lia|].
  destruct j as [|j]; simpl zrange; simpl nth; [lia|].
  rewrite IH by lia. lia.
Qed.
Lemma length_zrange n : forall s, List.length (zrange s n) = n.
Proof. induction n; intros; simpl; auto. Qed.

Lemma map_slice {A B} (f : A -> B) a b l : map f (slice a b l) = slice a b (map f l).
Proof. unfold slice. rewrite skipn_map, firstn_map. reflexivity. Qed.

Lemma nth_firstn' {A} k : forall (l : list A) j d, (j < k)%nat -> nth j (firstn k l) d = nth j l d.
Proof.
  induction k as [|k IH]; intros l j d Hj; [lia|].
  destruct l as [|x l]; [destruct j; reflexivity|].
  destruct j as [|j]; simpl; [reflexivity|]. apply IH. lia.
Qed.
Lemma nth_skipn' {A} a : forall (l : list A) j d, nth j (skipn a l) d = nth (a + j) l d.
Proof.
  induction a as [|a IH]; intros l j d; [reflexivity|].
  destruct l as [|x l]; [destruct j; reflexivity|]. simpl. apply IH.
Qed.
Lemma nth_slice {A} a b (l : list A) j d : (j < b - a)%nat -> nth j (slice a b l) d = nth (a + j) l d.
Proof. intros Hj. unfold slice. rewrite nth_firstn' by exact Hj. apply nth_skipn'. Qed.

(* timestamps of the preselected set = timestamps a..b of the full set, when the fix decision agrees *)
Lemma preselect_timestamps tm n a b j : (a <= b <= n)%nat -> (j < b - a)%nat ->
  nth j (timestamps_pre tm a b) 0 == nth j (slice a b (timestamps_full tm n)) 0.
Proof.
  intros Hab Hj. rewrite nth_slice by exact Hj.
  unfold timestamps_pre, timestamps_full.
  rewrite (nth_indep _ 0 (model_timestamp tm (Z.of_nat a) 0%Z)) by (rewrite map_length, length_zrange; lia).
  rewrite (nth_indep _ 0 (model_timestamp tm 0 0%Z)) by (rewrite map_length, length_zrange; lia).
  rewrite !map_nth, !nth_zrange by lia.
  rewrite preselect_timestamp.
  rewrite timestamp_formula.
  replace (Z.of_nat a + (0 + Z.of_nat j))%Z with (0 + Z.of_nat (a + j))%Z by lia. reflexivity.
Qed.

(* frequencies of the preselected set = frequencies c..d of the full set *)
Lemma preselect_freqs w c d w' j : subrange w (Z.of_nat c) (Z.of_nat d) = Some w' -> (j < d - c)%nat ->
  nth j (freqs_full w') 0 == nth j (slice c d (freqs_full w)) 0.
Proof.
  intros H Hj. destruct (subrange_some _ _ _ _ H) as (H0 & H1 & H2 & E).
  rewrite nth_slice by exact Hj. unfold freqs_full.
  assert (Nw' : s_n w' = (Z.of_nat d - Z.of_nat c)%Z) by (rewrite E; reflexivity).
  rewrite (nth_indep _ 0 (chan_freq w' 0%Z)) by (rewrite map_length, length_zrange; lia).
  rewrite (nth_indep _ 0 (chan_freq w 0%Z)) by (rewrite map_length, length_zrange; lia).
  rewrite !map_nth, !nth_zrange by lia.
  rewrite (subrange_aligned _ _ _ _ _ H).
  replace (Z.of_nat c + (0 + Z.of_nat j))%Z with (0 + Z.of_nat (c + j))%Z by lia. reflexivity.
Qed.

(* preselect validation *)
Lemma preselect_rejects keys steps :
  preselect_ok keys steps = true <->
  (forall k, In k keys -> k = "channels"%string \/ k = "dumps"%string) /\
  (forall s, In s steps -> s = None \/ s = Some 1%Z).
Proof.
  unfold preselect_ok. rewrite andb_true_iff, !forallb_forall. split.
  - intros [Hk Hs]. split.
    + intros k Hin. specialize (Hk k Hin). unfold mem_string, preselect_keys in Hk. simpl in Hk.
      rewrite orb_false_r in Hk. apply orb_true_iff in Hk. destruct Hk as [Hk|Hk]; apply String.eqb_eq in Hk; auto.
    + intros s Hin. specialize (Hs s Hin). destruct s as [z|]; simpl in Hs; [|auto].
      apply Z.eqb_eq in Hs. subst. auto.
  - intros [Hk Hs]. split.
    + intros k Hin. destruct (Hk k Hin) as [->| ->]; reflexivity.
    + intros s Hin. destruct (Hs s Hin) as [->| ->]; reflexivity.
Qed.

Example nonvacuous_c17 :
  exists w', subrange (mkSpw 1284 856 8 1) 2 6 = Some w' /\ chan_freq w' 1 == chan_freq (mkSpw 1284 856 8 1) 3
  /\ needs_fix straddle 0 = true /\ needs_fix straddle 1 = true /\ needs_fix_pre straddle 1 = false.
Proof. eexists. split; [reflexivity|]. repeat split; vm_compute; reflexivity. Qed.
