(* C04 — the store's log under a history of public accesses: nothing is read until an element is requested; a request
   reads whole stored chunks, exactly those overlapping the requested region, each once; the advertised shape/dtype
   do not depend on stored values. *)
From Coq Require Import ZArith List Bool Lia.
From KV Require Import Base.Sx Gen.Generated Model.Chunks Model.DaskIdx Model.DaskJoint Model.DaskStore.
From KV Require Import Proofs.ChunksP Proofs.DaskReadsP Proofs.DaskJointP.
Import ListNotations.
Open Scope Z_scope.

(* ------------------------------------------------------------------------------------------- *)
(* 0. the translated counts and skeletons the history model relies on                          *)
(* ------------------------------------------------------------------------------------------- *)
Lemma s_skeleton : c04_meta_computes = 0 /\ c04_get_computes = 1 /\ c04_get_as_modelled = true /\
  c04_getter_passes_slices = true /\ c04_shape_via_dataset = true /\ c04_dtype_via_dataset = true /\
  c04_len_via_dataset = true /\ c04_getitem_via_dataset = true /\ c04_get_via_dataset = true.
Proof. repeat split; reflexivity. Qed.

Lemma s_times_0 : forall o, s_times 0 o = Some [].
Proof. reflexivity. Qed.
Lemma s_times_1 : forall o, s_times 1 o = o.
Proof.
  intros [c|]; unfold s_times; cbn [option_map]; [|reflexivity].
  change (Z.to_nat 1) with 1%nat. cbn [repeat concat]. rewrite app_nil_r. reflexivity.
Qed.

Lemma s_step_meta : forall i, s_step (SNew i) = Some [] /\ s_step (SMeta i) = Some [].
Proof.
  intros i. destruct s_skeleton as (H & _). unfold s_step. rewrite H. split; apply s_times_0.
Qed.
Lemma s_step_fetch : forall l, s_step (SFetch l) = s_request_calls l.
Proof. intros l. destruct s_skeleton as (_ & H & _). unfold s_step. rewrite H. apply s_times_1. Qed.

(* ------------------------------------------------------------------------------------------- *)
(* 1. histories                                                                                *)
(* ------------------------------------------------------------------------------------------- *)
Lemma s_run_app : forall h1 h2,
  s_run (h1 ++ h2) = match s_run h1, s_run h2 with Some a, Some b => Some (a ++ b) | _, _ => None end.
Proof.
  induction h1 as [|op h1 IH]; intros h2; cbn [app s_run].
  - destruct (s_run h2); reflexivity.
  - rewrite IH. destruct (s_step op) as [a|]; [|reflexivity].
    destruct (s_run h1) as [b|]; [|reflexivity]. destruct (s_run h2) as [c|]; [|reflexivity].
    rewrite app_assoc. reflexivity.
Qed.

(* the log is the concatenation of the reads of the element requests of the history, in order: nothing else reads *)
Lemma s_run_fetches : forall h,
  s_run h = option_map (@concat s_call) (d_sequence (map s_request_calls (s_fetches h))).
Proof.
  induction h as [|op h IH]; [reflexivity|]. cbn [s_run]. rewrite IH.
  destruct op as [i|i|l].
  - rewrite (proj1 (s_step_meta i)). cbn [s_fetches flat_map app].
    fold (s_fetches h). destruct (d_sequence (map s_request_calls (s_fetches h))); reflexivity.
  - rewrite (proj2 (s_step_meta i)). cbn [s_fetches flat_map app].
    fold (s_fetches h). destruct (d_sequence (map s_request_calls (s_fetches h))); reflexivity.
  - rewrite s_step_fetch. cbn [s_fetches flat_map app map d_sequence]. fold (s_fetches h).
    destruct (s_request_calls l) as [a|]; [|reflexivity].
    destruct (d_sequence (map s_request_calls (s_fetches h))); reflexivity.
Qed.

(* LAZINESS: a history without an element request leaves the log empty *)
Lemma s_run_lazy : forall h, forallb (fun op => negb (s_is_fetch op)) h = true -> s_run h = Some [].
Proof.
  induction h as [|op h IH]; [reflexivity|]. cbn [forallb]. intros H. apply andb_true_iff in H. destruct H as [Ho Hh].
  cbn [s_run]. rewrite (IH Hh). destruct op as [i|i|l]; [| |discriminate].
  - rewrite (proj1 (s_step_meta i)). reflexivity.
  - rewrite (proj2 (s_step_meta i)). reflexivity.
Qed.

(* ... whatever was constructed and advertised before, the log up to and including the FIRST element request is the
   reads of that request alone *)
Lemma s_run_first_fetch : forall pre l, forallb (fun op => negb (s_is_fetch op)) pre = true ->
  s_run pre = Some [] /\ s_run (pre ++ [SFetch l]) = s_request_calls l.
Proof.
  intros pre l H. split; [apply s_run_lazy; assumption|].
  rewrite s_run_app, (s_run_lazy pre H). cbn [s_run]. rewrite s_step_fetch.
  destruct (s_request_calls l); cbn; [rewrite app_nil_r|]; reflexivity.
Qed.

(* accesses that are not element requests can be dropped from / inserted into a history without changing the log *)
Lemma s_run_filter : forall h, s_run h = s_run (filter s_is_fetch h).
Proof.
  induction h as [|op h IH]; [reflexivity|]. cbn [filter]. destruct op as [i|i|l]; cbn [s_is_fetch].
  - cbn [s_run]. rewrite (proj1 (s_step_meta i)), IH. destruct (s_run (filter s_is_fetch h)); reflexivity.
  - cbn [s_run]. rewrite (proj2 (s_step_meta i)), IH. destruct (s_run (filter s_is_fetch h)); reflexivity.
  - cbn [s_run]. rewrite IH. reflexivity.
Qed.

(* ------------------------------------------------------------------------------------------- *)
(* 2. one request: whole stored chunks, exactly those overlapping the region, each once        *)
(* ------------------------------------------------------------------------------------------- *)
Lemma s_intervals_nth : forall cs a k c, nth_error cs k = Some c ->
  nth k (intervals a cs) (0, 0) = (a + fold_right Z.add 0 (firstn k cs), a + fold_right Z.add 0 (firstn k cs) + c).
Proof.
  induction cs as [|c0 cs IH]; intros a k c H; [destruct k; discriminate|].
  destruct k as [|k]; cbn [nth_error] in H.
  - injection H as <-. cbn [intervals nth firstn fold_right]. f_equal; lia.
  - cbn [intervals nth firstn fold_right]. rewrite (IH (a + c0) k c H). f_equal; lia.
Qed.
Lemma s_intervals_length : forall cs a, List.length (intervals a cs) = List.length cs.
Proof. induction cs; intros; cbn [intervals length]; [reflexivity|rewrite IHcs; reflexivity]. Qed.

Lemma s_meets_of_axis : forall id ax, j_meets_axis id ax = true -> s_meets (s_extent (fst ax) id) ax.
Proof.
  intros id [cs ks] H. apply j_meets_axis_iff in H. destruct H as (lo & hi & E & H0 & c & Hc & Hm).
  cbn [fst snd]. unfold s_meets, s_extent. cbn [fst snd].
  rewrite (s_intervals_nth cs 0 (Z.to_nat id) c Hc). split.
  - rewrite <- (s_intervals_nth cs 0 (Z.to_nat id) c Hc). apply nth_In. rewrite s_intervals_length.
    apply nth_error_Some. congruence.
  - exists lo, hi. split; [assumption|]. cbn [fst snd]. lia.
Qed.

Lemma s_axis_of_meets : forall se ax, s_meets se ax ->
  exists id, j_meets_axis id ax = true /\ s_extent (fst ax) id = se.
Proof.
  intros se [cs ks] (Hin & lo & hi & E & Hm). cbn [fst snd] in *.
  destruct (In_nth _ _ (0, 0) Hin) as (k & Hk & Hn). rewrite s_intervals_length in Hk.
  destruct (nth_error cs k) as [c|] eqn:Hc; [|apply nth_error_None in Hc; lia].
  exists (Z.of_nat k). unfold s_extent. rewrite Nat2Z.id. split; [|assumption].
  apply j_meets_axis_iff. exists lo, hi. split; [assumption|]. split; [lia|]. rewrite Nat2Z.id.
  exists c. split; [assumption|]. rewrite (s_intervals_nth cs 0 k c Hc) in Hn. subst se. cbn [fst snd] in Hm. lia.
Qed.

Lemma s_slices_Forall2 : forall (axes : list (list Z * list d_aidx)) ids,
  Forall2 (fun id ax => j_meets_axis id ax = true) ids axes ->
  Forall2 s_meets (s_slices (map fst axes) ids) axes.
Proof.
  intros axes ids H. induction H as [|id ax ids axes Hm _ IH]; cbn [map s_slices]; constructor.
  - apply s_meets_of_axis. assumption.
  - assumption.
Qed.

Lemma s_overlaps_wanted : forall i key, j_overlaps key i = true -> s_wanted (s_call_of i key) i.
Proof.
  intros i [[s n] ids] H. unfold j_overlaps in H. cbn [fst snd] in H.
  rewrite !andb_true_iff, !Z.eqb_eq, j_forall2b_Forall2 in H. destruct H as [[Hs Hn] Hf].
  unfold s_wanted, s_call_of, s_chunks. cbn [fst snd]. repeat split; [congruence|congruence|].
  apply s_slices_Forall2. assumption.
Qed.

Lemma s_wanted_overlaps : forall c i, s_wanted c i -> exists key, j_overlaps key i = true /\ c = s_call_of i key.
Proof.
  intros [[s n] sl] i (Hs & Hn & Hf). cbn [fst snd] in *.
  assert (exists ids, Forall2 (fun id ax => j_meets_axis id ax = true) ids (jr_axes i) /\
                      s_slices (map fst (jr_axes i)) ids = sl) as (ids & Hids & Hsl).
  { clear Hs Hn. induction Hf as [|se ax sl axes Hm _ IH].
    - exists []. split; [constructor|reflexivity].
    - destruct IH as (ids & Hids & Hsl). destruct (s_axis_of_meets se ax Hm) as (id & Hid & He).
      exists (id :: ids). split; [constructor; assumption|]. cbn [map s_slices]. rewrite He, Hsl. reflexivity. }
  exists (s, n, ids). split.
  - unfold j_overlaps. cbn [fst snd]. rewrite !andb_true_iff, !Z.eqb_eq, j_forall2b_Forall2. auto.
  - unfold s_call_of, s_chunks. cbn [fst snd]. rewrite Hsl. reflexivity.
Qed.

(* a wanted call asks for a WHOLE stored chunk: its slices are a block of the chunk grid of the stored array (C07's
   `blocks`), never a part of one *)
Lemma s_wanted_whole_chunk : forall c i, s_wanted c i -> In (snd c) (blocks (s_chunks i)).
Proof.
  intros [[s n] sl] i (_ & _ & Hf). cbn [snd] in *. unfold blocks, s_chunks. apply in_cart.
  induction Hf as [|se ax sl axes Hm _ IH]; cbn [map]; constructor; [exact (proj1 Hm)|assumption].
Qed.

Lemma s_tasks_In : forall i t c, j_pos i -> s_tasks i = Some t -> (In c t <-> s_wanted c i).
Proof.
  intros i t c HP H. unfold s_tasks in H. destruct (j_tasks d_reads_axis i) as [ks|] eqn:E; [|discriminate].
  injection H as <-. rewrite in_map_iff. split.
  - intros (key & <- & Hk). apply s_overlaps_wanted. apply (j_tasks_In i ks key HP E). assumption.
  - intros Hw. destruct (s_wanted_overlaps c i Hw) as (key & Ho & ->). exists key. split; [reflexivity|].
    apply (j_tasks_In i ks key HP E). assumption.
Qed.

(* THE READS OF ONE REQUEST (any number of stores, stored arrays, indexers per stored array, axes, stages) *)
Theorem s_request_spec : forall l cs, (forall i, In i l -> j_pos i) -> s_request_calls l = Some cs ->
  NoDup cs /\
  (forall c, In c cs <-> exists i, In i l /\ s_wanted c i) /\
  (forall c, In c cs -> exists i, In i l /\ fst (fst c) = jr_store i /\ snd (fst c) = jr_name i /\
                                  In (snd c) (blocks (s_chunks i))).
Proof.
  intros l cs HP H. unfold s_request_calls in H.
  destruct (d_sequence (map s_tasks l)) as [ls|] eqn:E; [|discriminate]. injection H as <-.
  assert (M : forall c, In c (nodup s_call_dec (concat ls)) <-> exists i, In i l /\ s_wanted c i).
  { intros c. rewrite nodup_In, in_concat. apply d_sequence_Forall2 in E. clear -E HP. revert ls E.
    induction l as [|i l IH]; intros ls E.
    - inversion E; subst. split; [intros (t & [] & _)|intros (i & [] & _)].
    - cbn [map] in E. inversion E as [|? t ? ls' Ht Hr]; subst.
      assert (HPl : forall i0, In i0 l -> j_pos i0) by (intros; apply HP; right; assumption).
      specialize (IH HPl ls' Hr). split.
      + intros (t' & [<-|Ht'] & Hk).
        * exists i. split; [left; reflexivity|]. apply (s_tasks_In i t c (HP i (or_introl eq_refl)) Ht). assumption.
        * destruct (proj1 IH (ex_intro _ t' (conj Ht' Hk))) as (j & Hj & Ho). exists j. split; [right|]; assumption.
      + intros (j & [<-|Hj] & Ho).
        * exists t. split; [left; reflexivity|]. apply (s_tasks_In i t c (HP i (or_introl eq_refl)) Ht). assumption.
        * destruct (proj2 IH (ex_intro _ j (conj Hj Ho))) as (t' & Ht' & Hk). exists t'. split; [right|]; assumption. }
  split; [apply NoDup_nodup|]. split; [exact M|].
  intros c Hc. destruct (proj1 (M c) Hc) as (i & Hi & Hw). exists i. split; [assumption|].
  destruct Hw as (Hs & Hn & Hf). repeat split; try assumption. apply s_wanted_whole_chunk. repeat split; assumption.
Qed.

(* the request is answered (not rejected by the model) exactly for contiguous stages *)
Lemma s_request_some_iff : forall l, (forall i, In i l -> j_pos i) ->
  (s_request_calls l <> None <-> forallb j_contig l = true).
Proof.
  intros l HP. unfold s_request_calls. induction l as [|i l IH]; cbn [map d_sequence forallb].
  - split; [reflexivity|discriminate].
  - assert (HPl : forall i0, In i0 l -> j_pos i0) by (intros; apply HP; right; assumption). specialize (IH HPl).
    pose proof (j_tasks_contig i (HP i (or_introl eq_refl))) as Hc. unfold s_tasks at 1.
    destruct (j_tasks d_reads_axis i) as [t|]; cbn [option_map].
    + assert (j_contig i = true) as -> by (apply Hc; discriminate). cbn [andb]. rewrite <- IH.
      destruct (d_sequence (map s_tasks l)); cbn [option_map]; split; congruence.
    + destruct (j_contig i); [exfalso; apply (proj2 Hc); reflexivity|]. cbn [andb option_map]. split; congruence.
Qed.

(* a single indexer needs no de-duplication at all: its own tasks are already distinct calls *)
Lemma s_extent_inj : forall cs a b ca cb, Forall (fun c => 0 < c) cs ->
  nth_error cs a = Some ca -> nth_error cs b = Some cb ->
  fold_right Z.add 0 (firstn a cs) = fold_right Z.add 0 (firstn b cs) -> a = b.
Proof.
  induction cs as [|c cs IH]; intros a b ca cb HP Ha Hb H; [destruct a; discriminate|].
  inversion HP as [|? ? Hc HP']; subst.
  assert (G : forall k x, nth_error cs k = Some x -> 0 <= fold_right Z.add 0 (firstn k cs)).
  { clear -HP'. induction cs as [|c cs IH]; intros k x Hk; [destruct k; discriminate|].
    inversion HP'; subst. destruct k; cbn [firstn fold_right]; [lia|]. cbn [nth_error] in Hk.
    specialize (IH H2 k x Hk). lia. }
  destruct a as [|a], b as [|b]; cbn [nth_error firstn fold_right] in *.
  - reflexivity.
  - specialize (G b cb Hb). lia.
  - specialize (G a ca Ha). lia.
  - f_equal. apply (IH a b ca cb HP' Ha Hb). lia.
Qed.

(* ------------------------------------------------------------------------------------------- *)
(* 3. advertised shape / dtype do not depend on stored values                                  *)
(* ------------------------------------------------------------------------------------------- *)
Definition d_same_meta (o1 o2 : option d_arr) : Prop :=
  match o1, o2 with
  | Some a, Some b => d_meta a = d_meta b
  | None, None => True
  | _, _ => False
  end.

Lemma d_meta_inv : forall a b, d_meta a = d_meta b -> d_shape a = d_shape b /\ d_dtype a = d_dtype b.
Proof. intros a b H. unfold d_meta in H. injection H as H1 H2. auto. Qed.

Lemma d_oindex_meta : forall a b ixs, d_meta a = d_meta b -> d_same_meta (d_oindex a ixs) (d_oindex b ixs).
Proof.
  intros a b ixs H. apply d_meta_inv in H. destruct H as [Hs Ht]. unfold d_oindex. rewrite Hs.
  destruct (d_resolve_all (d_shape b) ixs); cbn [d_same_meta]; [|exact Logic.I].
  unfold d_meta. cbn [d_shape d_dtype]. rewrite ?Hs, ?Ht. reflexivity.
Qed.

Lemma d_take_meta : forall a b ix axis, d_meta a = d_meta b -> d_same_meta (d_take a ix axis) (d_take b ix axis).
Proof.
  intros a b ix axis H. apply d_meta_inv in H. destruct H as [Hs Ht]. unfold d_take. rewrite Hs.
  destruct (nth_error (d_shape b) axis); cbn [d_same_meta]; [|exact Logic.I].
  destruct (d_resolve z ix); cbn [d_same_meta]; [|exact Logic.I].
  unfold d_meta. cbn [d_shape d_dtype]. rewrite ?Hs, ?Ht. reflexivity.
Qed.

Lemma d_oindex_seq_meta : forall ixs a b axis, d_meta a = d_meta b ->
  d_same_meta (d_oindex_seq a ixs axis) (d_oindex_seq b ixs axis).
Proof.
  induction ixs as [|ix r IH]; intros a b axis H; cbn [d_oindex_seq].
  - exact H.
  - pose proof (d_take_meta a b ix axis H) as T.
    destruct (d_take a ix axis) as [a'|], (d_take b ix axis) as [b'|]; cbn [d_same_meta] in T; try contradiction.
    + apply IH. assumption.
    + exact Logic.I.
Qed.

Lemma d_getitem_meta : forall a b ixs, d_meta a = d_meta b -> d_same_meta (d_getitem a ixs) (d_getitem b ixs).
Proof.
  intros a b ixs H. unfold d_getitem. rewrite (proj1 (d_meta_inv a b H)).
  destruct (d_simplify_index ixs (d_shape b)) as [ixs'|]; [|exact Logic.I].
  destruct (1 <? d_nfancy ixs')%nat; [apply d_oindex_seq_meta|apply d_oindex_meta]; assumption.
Qed.

Lemma d_apply_all_meta : forall tr a b, Forall d_tr_meta tr -> d_meta a = d_meta b ->
  d_meta (d_apply_all tr a) = d_meta (d_apply_all tr b).
Proof.
  unfold d_apply_all. induction tr as [|f tr IH]; intros a b HF H; cbn [fold_left]; [assumption|].
  inversion HF; subst. apply IH; [assumption|]. apply H2. assumption.
Qed.

Lemma d_stage_meta : forall oa ob k tr, Forall d_tr_meta tr -> d_same_meta oa ob ->
  d_same_meta (match oa with None => None | Some a => match d_getitem a k with Some x => Some (d_apply_all tr x) | None => None end end)
              (match ob with None => None | Some a => match d_getitem a k with Some x => Some (d_apply_all tr x) | None => None end end).
Proof.
  intros oa ob k tr HF H. destruct oa as [a|], ob as [b|]; cbn [d_same_meta] in H; try contradiction; [|exact Logic.I].
  pose proof (d_getitem_meta a b k H) as G.
  destruct (d_getitem a k) as [x|], (d_getitem b k) as [y|]; cbn [d_same_meta] in G; try contradiction; [|exact Logic.I].
  cbn [d_same_meta]. apply d_apply_all_meta; assumption.
Qed.

Lemma d_dataset_blank : forall i, d_ind_meta i -> d_same_meta (d_dataset i) (d_dataset (d_blank i)).
Proof.
  induction i as [a k tr|j IH k tr]; intros H; cbn [d_ind_meta] in H; cbn [d_blank d_dataset].
  - apply (d_stage_meta (Some a) (Some (d_blank_arr a)) k tr H). reflexivity.
  - destruct H as [Hj Ht]. specialize (IH Hj).
    pose proof (d_stage_meta (d_dataset j) (d_dataset (d_blank j)) k tr Ht IH) as G.
    destruct (d_dataset j), (d_dataset (d_blank j)); exact G.
Qed.

(* .shape / .dtype of any indexer (any nesting depth, any transform chain whose members derive their output
   shape/dtype from the input's shape/dtype) are those of the same indexer over blanked-out arrays *)
Theorem d_adv_blank : forall i, d_ind_meta i -> d_adv i = d_adv (d_blank i).
Proof.
  intros i H. pose proof (d_dataset_blank i H) as G. unfold d_adv.
  destruct (d_dataset i) as [a|], (d_dataset (d_blank i)) as [b|]; cbn [d_same_meta] in G; try contradiction.
  - unfold d_meta in G. injection G as -> ->. reflexivity.
  - reflexivity.
Qed.

Lemma d_transform_meta : forall c, d_tr_meta (d_transform c).
Proof.
  intros c a b H. apply d_meta_inv in H. destruct H as [Hs Ht]. unfold d_transform.
  destruct (c =? 0); [unfold d_meta; cbn [d_shape d_dtype]; rewrite Hs; reflexivity|].
  destruct (c =? 1); [unfold d_meta; cbn [d_shape d_dtype]; rewrite Hs, Ht; reflexivity|].
  destruct (c =? 2); [unfold d_meta; cbn [d_shape d_dtype]; rewrite Hs; reflexivity|].
  unfold d_meta. rewrite Hs, Ht. reflexivity.
Qed.

(* ------------------------------------------------------------------------------------------- *)
(* 4. non-vacuity                                                                              *)
(* ------------------------------------------------------------------------------------------- *)
(* a 2-D stored array chunked ((2,1),(3,1,2)); a = rows 1:3 of columns 2:5 then [0:1, 1:3]; b = rows 0:1 *)
Definition s_ex_a : j_rind :=
  JR 1 0 [([2; 1], [DSlice (DS (Some 1) (Some 3) None); DSlice (DS (Some 0) (Some 1) None)]);
          ([3; 1; 2], [DSlice (DS (Some 2) (Some 5) None); DSlice (DS (Some 1) (Some 3) None)])].
Definition s_ex_b : j_rind :=
  JR 1 0 [([2; 1], [DSlice (DS (Some 0) (Some 1) None)]); ([3; 1; 2], [DSlice (DS None None None)])].
Definition s_ex_hist : list s_op :=
  [SNew s_ex_a; SMeta s_ex_a; SNew s_ex_b; SMeta s_ex_b; SFetch [s_ex_a]; SMeta s_ex_a; SFetch [s_ex_a; s_ex_b]].
Lemma s_example :
  s_run (firstn 4 s_ex_hist) = Some [] /\
  s_run (firstn 5 s_ex_hist) = Some [(1, 0, [(0, 2); (3, 4)]); (1, 0, [(0, 2); (4, 6)])] /\
  s_run s_ex_hist = Some [(1, 0, [(0, 2); (3, 4)]); (1, 0, [(0, 2); (4, 6)]);
                          (1, 0, [(0, 2); (0, 3)]); (1, 0, [(0, 2); (3, 4)]); (1, 0, [(0, 2); (4, 6)])] /\
  (forall i, In i [s_ex_a; s_ex_b] -> j_pos i).
Proof.
  split; [vm_compute; reflexivity|]. split; [vm_compute; reflexivity|]. split; [vm_compute; reflexivity|].
  intros i [<-|[<-|[]]]; repeat constructor.
Qed.
